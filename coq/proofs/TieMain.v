(* Source tie for the start-up sequence and the accept loop of the recorder daemon: the TAIL of runMain
   (cmd/thermal-recorder/main.go) from its call of startService on.

   coq/translated/MainLoop.v is regenerated from the Go source on every run (translate/daemon.go);
   model/MainExt.v gives the calls that leave it their meaning: startService / host.Init / deleteTempFiles
   answer from the world, the loop follows a SCRIPT of rounds (Accept fails | a camera connects and handleConn
   returns r), net.Listen fails when the script is used up, the socket path is a file, listeners and
   connections are fresh tokens, and every call is an entry of the log.

   Theorems (for EVERY world: every outcome of the three start-up calls, every script, every final Listen
   error, a stale socket file or none, any token counter; the only hypothesis is that no connection is
   waiting to be handled when the code starts - [mw_acc w = None], true of [mw_init]):
     tie_body / tie_body_end     one round of the loop as written = [after_iter] / the failing Listen;
     tie_loop                    the loop with ANY fuel: it returns (the Listen error) iff the fuel exceeds the
                                 script; otherwise the fuel runs out after exactly [fuel] rounds - nothing but
                                 a failing Listen ends the loop;
     tie_runMain_tail            the whole tail = [main_outcome];
     main_run, main_run_short    on [mw_init]: result [daemon_result], log [daemon_log], open listeners [daemon_leaks];
                                 fuel within the script: no result yet;   daemon_log_no_bad: no MBad entry;
   and, read off [daemon_log] (pure list facts):
     startup_fail                a failing startService / host.Init / deleteTempFiles: that error is the result
                                 and nothing after it happened - no goroutine, no Remove, no Listen, no handleConn;
     clean_once, clean_before_serving   deleteTempFiles runs exactly once when start and host succeed, never
                                 otherwise; whatever Remove / Listen / Accept / handleConn entry the log holds
                                 comes AFTER a deleteTempFiles that returned nil;
     handle_preceded             every handleConn entry is immediately preceded by ITS OWN
                                 Remove, Listen l, Accept l c, Close l - in that order - and while it ran no
                                 listener was bound to the socket path (reach = None);
     handled_all                 the handleConn entries, in order, are exactly the serving rounds of the script
                                 with their results: WHATEVER handleConn returns, the loop goes on;
     accept_fail_round           a failing Accept: Remove, Listen, the failed Accept - nothing served, NOT
                                 closed (the listener leaks: [daemon_leaks]) - and the next round listens again;
     leaks_count                 one listener left open per failing Accept.
   No axioms. *)
From Coq Require Import String List ZArith Bool Arith Lia.
From TR Require Import model.GoSem translated.MainLoop model.MainExt.
Import ListNotations.
Open Scope Z_scope.

(* ---------- what is translated ---------- *)
Lemma main_untranslated : untranslated_MainLoop = [].
Proof. reflexivity. Qed.

(* every name under which the unit leaves the translation has a clause in the handler *)
Lemma main_ext_names_known : forallb (fun n => existsb (String.eqb n) mext_names) ext_names_MainLoop = true.
Proof. vm_compute. reflexivity. Qed.

(* ---------- the description of one round ---------- *)
Definition iter_log (n : Z) (it : iter) : list mev :=
  match it with
  | ItAcceptFail e => [MRemove; MListen n; MAcceptFail n (Zpos e)]
  | ItServe r => [MRemove; MListen n; MAccept n (n + 1); MClose n; MHandle (n + 1) r None]
  end.

(* tokens used by a round *)
Definition iter_toks (it : iter) : Z := match it with ItAcceptFail _ => 1 | ItServe _ => 2 end.

Definition after_iter (w : mworld) (it : iter) : mworld :=
  let n := mw_next w in
  match it with
  | ItAcceptFail e =>
    mkMW (mw_start w) (mw_host w) (mw_clean w) (tl (mw_its w)) (mw_fin w) (Some n) (n :: mw_open w) None (n + 1) (Zpos e)
         (mw_log w ++ iter_log n it)
  | ItServe r =>
    mkMW (mw_start w) (mw_host w) (mw_clean w) (tl (mw_its w)) (mw_fin w) None (remove_z n (mw_open w)) None (n + 1 + 1) 0
         (mw_log w ++ iter_log n it)
  end.

Definition after_iters (w : mworld) (p : list iter) : mworld := fold_left after_iter p w.

(* the round in which Listen fails *)
Definition after_fin (w : mworld) : mworld :=
  mkMW (mw_start w) (mw_host w) (mw_clean w) (mw_its w) (mw_fin w) None (mw_open w) (mw_acc w) (mw_next w) (Zpos (mw_fin w))
       (mw_log w ++ [MRemove; MListenFail (Zpos (mw_fin w))]).

(* ---------- proof machinery ---------- *)
Ltac munfold :=
  cbv beta iota zeta delta [bind ret call_ext mext String.eqb Ascii.eqb Bool.eqb
      do_start do_host do_clean do_spawn do_remove do_listen do_accept do_close do_handle mbad
      SYM_OUTDIR SYM_INPUT SYM_WINDOW SYM_CONF TOK_OUTDIR TOK_INPUT TOK_WINDOW arg_is
      mlog mset_pend mset_sock mset_its mset_open mset_acc mset_next is_open opt_is existsb remove_z err_of
      mw_start mw_host mw_clean mw_its mw_fin mw_sock mw_open mw_acc mw_next mw_pend mw_log fst snd andb orb negb].

Ltac msimp := repeat progress (munfold; cbn [Z.eqb Pos.eqb]).

Ltac lognorm := repeat rewrite <- app_assoc; rewrite ?app_nil_r; cbn [app].

Lemma pos_nz : forall p, (Z.pos p =? 0) = false.
Proof. reflexivity. Qed.

(* ---------- one round ---------- *)
Lemma tie_body : forall w it r,
  mw_its w = it :: r -> mw_acc w = None ->
  MainLoop_fn_runMain_tail_loop1 mext tt w = Ok (LCont tt) (after_iter w it).
Proof.
  intros [start host clean its fin sock opn acc next pend log] it r Hits Hacc.
  cbn [mw_its mw_acc] in Hits, Hacc. subst its acc.
  unfold MainLoop_fn_runMain_tail_loop1, after_iter, iter_log.
  msimp.
  destruct it as [e|res]; msimp; rewrite ?Z.eqb_refl; msimp; rewrite ?Z.eqb_refl; msimp;
    lognorm; reflexivity.
Qed.

Lemma tie_body_end : forall w,
  mw_its w = [] ->
  MainLoop_fn_runMain_tail_loop1 mext tt w = Ok (LRet (Zpos (mw_fin w))) (after_fin w).
Proof.
  intros [start host clean its fin sock opn acc next pend log] Hits.
  cbn [mw_its] in Hits. subst its.
  unfold MainLoop_fn_runMain_tail_loop1, after_fin.
  msimp. lognorm. reflexivity.
Qed.

(* ---------- the loop, for every fuel ---------- *)
Lemma after_iter_its : forall w it, mw_its (after_iter w it) = tl (mw_its w).
Proof. intros w [e|r]; reflexivity. Qed.
Lemma after_iter_acc : forall w it, mw_acc (after_iter w it) = None.
Proof. intros w [e|r]; reflexivity. Qed.
Lemma after_iter_fin : forall w it, mw_fin (after_iter w it) = mw_fin w.
Proof. intros w [e|r]; reflexivity. Qed.

Definition loop_outcome (fuel : nat) (w : mworld) : outcome mworld (option Z) :=
  if (List.length (mw_its w) <? fuel)%nat
  then Ok (Some (Zpos (mw_fin w))) (after_fin (after_iters w (mw_its w)))
  else Ok None (after_iters w (firstn fuel (mw_its w))).

Theorem tie_loop : forall fuel w,
  mw_acc w = None ->
  forever fuel (MainLoop_fn_runMain_tail_loop1 mext) tt w = loop_outcome fuel w.
Proof.
  induction fuel as [|n IH]; intros w Hacc; unfold loop_outcome.
  - cbn [forever firstn]. replace (List.length (mw_its w) <? 0)%nat with false by (symmetry; apply Nat.ltb_ge; lia).
    reflexivity.
  - cbn [forever]. destruct (mw_its w) as [|it r] eqn:Hits.
    + unfold bind. rewrite (tie_body_end w Hits). cbn [List.length]. reflexivity.
    + unfold bind. rewrite (tie_body w it r Hits Hacc).
      rewrite IH by apply after_iter_acc. unfold loop_outcome.
      rewrite after_iter_its, Hits. cbn [tl List.length firstn].
      change (S (List.length r) <? S n)%nat with (List.length r <? n)%nat.
      unfold after_iters. cbn [fold_left].
      assert (F : forall p w0, mw_fin (fold_left after_iter p w0) = mw_fin w0).
      { induction p as [|a p IHp]; intros w0; cbn [fold_left]; [reflexivity|]. rewrite IHp. apply after_iter_fin. }
      destruct (List.length r <? n)%nat; [|reflexivity].
      rewrite after_iter_fin. reflexivity.
Qed.

(* ---------- the whole tail ---------- *)
Definition before_loop (w : mworld) : mworld :=
  mlog (mlog (mset_pend (mlog (mlog w MStart) MHost) 0) MClean) MSpawn.

Definition main_outcome (fuel : nat) (w : mworld) : outcome mworld (option Z) :=
  match mw_start w with
  | Some e => Ok (Some (Zpos e)) (mlog w MStart)
  | None =>
    match mw_host w with
    | Some e => Ok (Some (Zpos e)) (mset_pend (mlog (mlog w MStart) MHost) (Zpos e))
    | None =>
      match mw_clean w with
      | Some e => Ok (Some (Zpos e)) (mlog (mset_pend (mlog (mlog w MStart) MHost) 0) MClean)
      | None => loop_outcome fuel (before_loop w)
      end
    end
  end.

Theorem tie_runMain_tail : forall fuel err w,
  mw_acc w = None ->
  MainLoop_fn_runMain_tail mext fuel err w = main_outcome fuel w.
Proof.
  intros fuel err [start host clean its fin sock opn acc next pend log] Hacc.
  cbn [mw_acc] in Hacc. subst acc.
  unfold MainLoop_fn_runMain_tail, main_outcome, before_loop.
  msimp.
  destruct start as [e|]; msimp; [reflexivity|].
  destruct host as [e|]; msimp; [reflexivity|].
  destruct clean as [e|]; msimp; [reflexivity|].
  match goal with |- context [forever fuel ?b tt ?w0] =>
    change b with (MainLoop_fn_runMain_tail_loop1 mext); rewrite (tie_loop fuel w0 eq_refl) end.
  destruct (loop_outcome fuel _) as [[r|] w'|w']; reflexivity.
Qed.

(* ---------- the log of a run ---------- *)
Fixpoint rounds_log (n : Z) (p : list iter) : list mev :=
  match p with
  | [] => []
  | it :: r => iter_log n it ++ rounds_log (n + iter_toks it) r
  end.

Fixpoint rounds_next (n : Z) (p : list iter) : Z :=
  match p with
  | [] => n
  | it :: r => rounds_next (n + iter_toks it) r
  end.

(* the listeners left open: those whose Accept failed (latest first) *)
Fixpoint rounds_leaks (n : Z) (p : list iter) : list Z :=
  match p with
  | [] => []
  | ItAcceptFail _ :: r => rounds_leaks (n + 1) r ++ [n]
  | ItServe _ :: r => rounds_leaks (n + 2) r
  end.

Lemma after_iter_next : forall w it, mw_next (after_iter w it) = mw_next w + iter_toks it.
Proof. intros w [e|r]; cbn [after_iter mw_next iter_toks]; lia. Qed.
Lemma after_iter_log : forall w it, mw_log (after_iter w it) = mw_log w ++ iter_log (mw_next w) it.
Proof. intros w [e|r]; reflexivity. Qed.

Lemma after_iters_log : forall p w, mw_log (after_iters w p) = mw_log w ++ rounds_log (mw_next w) p.
Proof.
  unfold after_iters. induction p as [|it p IH]; intros w; cbn [fold_left rounds_log].
  - rewrite app_nil_r. reflexivity.
  - rewrite IH, after_iter_log, after_iter_next, <- app_assoc. reflexivity.
Qed.

Lemma after_iters_next : forall p w, mw_next (after_iters w p) = rounds_next (mw_next w) p.
Proof.
  unfold after_iters. induction p as [|it p IH]; intros w; cbn [fold_left rounds_next]; [reflexivity|].
  rewrite IH, after_iter_next. reflexivity.
Qed.

Lemma after_iters_its : forall p w r, mw_its w = p ++ r -> mw_its (after_iters w p) = r.
Proof.
  unfold after_iters. induction p as [|it p IH]; intros w r H; cbn [fold_left]; [exact H|].
  apply IH. rewrite after_iter_its, H. reflexivity.
Qed.

Lemma remove_z_fresh : forall n xs, Forall (fun x => x < n) xs -> remove_z n xs = xs.
Proof.
  induction xs as [|x xs IH]; intros F; [reflexivity|]. inversion F; subst. cbn [remove_z].
  replace (x =? n) with false by (symmetry; apply Z.eqb_neq; lia). rewrite IH by assumption. reflexivity.
Qed.

Lemma after_iters_open : forall p w,
  Forall (fun x => x < mw_next w) (mw_open w) ->
  mw_open (after_iters w p) = rounds_leaks (mw_next w) p ++ mw_open w.
Proof.
  unfold after_iters. induction p as [|it p IH]; intros w F; cbn [fold_left rounds_leaks]; [reflexivity|].
  destruct it as [e|r].
  - rewrite IH.
    + cbn [after_iter mw_next mw_open]. rewrite <- app_assoc. reflexivity.
    + cbn [after_iter mw_next mw_open]. constructor; [lia|].
      eapply Forall_impl; [|exact F]. cbv beta. intros; lia.
  - rewrite IH.
    + cbn [after_iter mw_next mw_open]. rewrite remove_z_fresh by assumption.
      replace (mw_next w + 1 + 1) with (mw_next w + 2) by lia. reflexivity.
    + cbn [after_iter mw_next mw_open]. rewrite remove_z_fresh by assumption.
      eapply Forall_impl; [|exact F]. cbv beta. intros; lia.
Qed.

Definition daemon_result (start host clean : option positive) (fin : positive) : Z :=
  match start with
  | Some e => Zpos e
  | None => match host with
            | Some e => Zpos e
            | None => match clean with Some e => Zpos e | None => Zpos fin end
            end
  end.

Definition daemon_log (start host clean : option positive) (its : list iter) (fin : positive) (n : Z) : list mev :=
  match start with
  | Some _ => [MStart]
  | None => match host with
            | Some _ => [MStart; MHost]
            | None => match clean with
                      | Some _ => [MStart; MHost; MClean]
                      | None => [MStart; MHost; MClean; MSpawn] ++ rounds_log n its ++ [MRemove; MListenFail (Zpos fin)]
                      end
            end
  end.

Definition daemon_leaks (start host clean : option positive) (its : list iter) (n : Z) : list Z :=
  match start, host, clean with
  | None, None, None => rounds_leaks n its
  | _, _, _ => []
  end.

Ltac mproj :=
  cbn [before_loop mlog mset_pend mw_start mw_host mw_clean mw_its mw_fin mw_sock mw_open mw_acc mw_next mw_pend mw_log app].

(* a full run: fuel beyond the script *)
Theorem main_run : forall fuel start host clean its fin stale next,
  (List.length its < fuel)%nat ->
  exists w',
    src_main fuel start host clean its fin stale next = Ok (Some (daemon_result start host clean fin)) w' /\
    mw_log w' = daemon_log start host clean its fin next /\
    mw_open w' = daemon_leaks start host clean its next.
Proof.
  intros fuel start host clean its fin stale next Hf.
  unfold src_main. rewrite tie_runMain_tail by reflexivity.
  unfold main_outcome, mw_init, daemon_result, daemon_log, daemon_leaks. cbn [mw_start mw_host mw_clean].
  destruct start as [e|]; [eexists; split; [reflexivity|split; reflexivity]|].
  destruct host as [e|]; [eexists; split; [reflexivity|split; reflexivity]|].
  destruct clean as [e|]; [eexists; split; [reflexivity|split; reflexivity]|].
  unfold loop_outcome. mproj.
  replace (List.length its <? fuel)%nat with true by (symmetry; apply Nat.ltb_lt; exact Hf).
  eexists; split; [reflexivity|]. split.
  - cbn [after_fin mw_log]. rewrite after_iters_log. cbn [mw_log mw_next app].
    rewrite <- ?app_assoc.
    assert (F : forall p w0, mw_fin (after_iters w0 p) = mw_fin w0).
    { unfold after_iters. induction p as [|a p IHp]; intros w0; cbn [fold_left]; [reflexivity|]. rewrite IHp. apply after_iter_fin. }
    rewrite F. reflexivity.
  - cbn [after_fin mw_open]. rewrite after_iters_open by (cbn [mw_open]; constructor).
    cbn [mw_open mw_next]. rewrite app_nil_r. reflexivity.
Qed.

(* fuel within the script: the loop has not returned - nothing but a failing Listen ends it *)
Theorem main_run_short : forall fuel its fin stale next,
  (fuel <= List.length its)%nat ->
  exists w',
    src_main fuel None None None its fin stale next = Ok None w' /\
    mw_log w' = [MStart; MHost; MClean; MSpawn] ++ rounds_log next (firstn fuel its) /\
    mw_its w' = skipn fuel its.
Proof.
  intros fuel its fin stale next Hf.
  unfold src_main. rewrite tie_runMain_tail by reflexivity.
  unfold main_outcome, mw_init. cbn [mw_start mw_host mw_clean].
  unfold loop_outcome. mproj.
  replace (List.length its <? fuel)%nat with false by (symmetry; apply Nat.ltb_ge; exact Hf).
  eexists; split; [reflexivity|]. split.
  - rewrite after_iters_log. mproj. reflexivity.
  - apply after_iters_its. mproj. symmetry. apply firstn_skipn.
Qed.

(* ---------- facts read off the log ---------- *)
Lemma bad_calls_app : forall a b, bad_calls (a ++ b) = bad_calls a ++ bad_calls b.
Proof. intros; unfold bad_calls; apply filter_app. Qed.

Lemma loop_log_no_bad : forall p n, bad_calls (rounds_log n p) = [].
Proof.
  induction p as [|it p IH]; intros n; cbn [rounds_log]; [reflexivity|].
  rewrite bad_calls_app, IH, app_nil_r. destruct it; reflexivity.
Qed.

Theorem daemon_log_no_bad : forall start host clean its fin n, bad_calls (daemon_log start host clean its fin n) = [].
Proof.
  intros. unfold daemon_log. destruct start; [reflexivity|]. destruct host; [reflexivity|]. destruct clean; [reflexivity|].
  rewrite !bad_calls_app, loop_log_no_bad. reflexivity.
Qed.

(* entries of the serving phase: everything after the start-up calls *)
Definition serving (e : mev) : bool :=
  match e with
  | MStart | MHost | MClean | MBad _ => false
  | _ => true
  end.
Definition is_clean (e : mev) : bool := match e with MClean => true | _ => false end.
Definition mcount (f : mev -> bool) (l : list mev) : nat := List.length (filter f l).

Lemma count_app : forall f a b, mcount f (a ++ b) = (mcount f a + mcount f b)%nat.
Proof. intros; unfold mcount; rewrite filter_app, app_length; reflexivity. Qed.

Lemma loop_log_no_clean : forall p n, mcount is_clean (rounds_log n p) = O.
Proof.
  induction p as [|it p IH]; intros n; cbn [rounds_log]; [reflexivity|].
  rewrite count_app, IH. destruct it; reflexivity.
Qed.

(* a failing start-up call: its error is the daemon's result, and nothing after it happened *)
Theorem startup_fail : forall start host clean its fin n,
  (start <> None \/ host <> None \/ clean <> None) ->
  (exists e, daemon_result start host clean fin = Zpos e /\
             (start = Some e \/ (start = None /\ host = Some e) \/ (start = None /\ host = None /\ clean = Some e))) /\
  forallb (fun ev => negb (serving ev)) (daemon_log start host clean its fin n) = true.
Proof.
  intros start host clean its fin n H. unfold daemon_result, daemon_log.
  destruct start as [e|]; [split; [exists e; auto|reflexivity]|].
  destruct host as [e|]; [split; [exists e; auto|reflexivity]|].
  destruct clean as [e|]; [split; [exists e; split; auto|reflexivity]|].
  destruct H as [H|[H|H]]; congruence.
Qed.

(* deleteTempFiles runs exactly once when startService and host.Init succeed, and not at all otherwise *)
Theorem clean_once : forall start host clean its fin n,
  mcount is_clean (daemon_log start host clean its fin n) =
    match start, host with None, None => 1%nat | _, _ => 0%nat end.
Proof.
  intros. unfold daemon_log. destruct start; [reflexivity|]. destruct host; [reflexivity|]. destruct clean; [reflexivity|].
  rewrite !count_app, loop_log_no_clean. reflexivity.
Qed.

(* whatever belongs to the serving phase comes after the three start-up calls, all of which returned nil:
   no socket is removed or listened on, no connection accepted or handled before the directory was cleaned *)
Theorem clean_before_serving : forall start host clean its fin n pre e post,
  daemon_log start host clean its fin n = pre ++ e :: post ->
  serving e = true ->
  start = None /\ host = None /\ clean = None /\ exists pre', pre = [MStart; MHost; MClean] ++ pre'.
Proof.
  intros start host clean its fin n pre e post H S. unfold daemon_log in H.
  destruct start.
  { destruct pre as [|? [|? ?]]; cbn in H; inversion H; subst; discriminate. }
  destruct host.
  { destruct pre as [|? [|? [|? ?]]]; cbn in H; inversion H; subst; discriminate. }
  destruct clean.
  { destruct pre as [|? [|? [|? [|? ?]]]]; cbn in H; inversion H; subst; discriminate. }
  repeat split; try reflexivity.
  destruct pre as [|a [|b [|c pre']]]; cbn in H; inversion H; subst; try discriminate.
  exists pre'. reflexivity.
Qed.

(* where an element of a concatenation lies *)
Lemma app_split : forall (A : Type) (l1 l2 pre post : list A) x,
  l1 ++ l2 = pre ++ x :: post ->
  (exists m, l1 = pre ++ x :: m /\ post = m ++ l2) \/ (exists m, pre = l1 ++ m /\ l2 = m ++ x :: post).
Proof.
  induction l1 as [|a l1 IH]; intros l2 pre post x H.
  - right. exists pre. split; [reflexivity|exact H].
  - destruct pre as [|b pre].
    + cbn in H. inversion H; subst. left. exists l1. split; reflexivity.
    + cbn in H. inversion H; subst. destruct (IH _ _ _ _ H2) as [[m [E1 E2]]|[m [E1 E2]]].
      * left. exists m. subst. split; reflexivity.
      * right. exists m. subst. split; reflexivity.
Qed.

Definition served_by (pre : list mev) (c : Z) : Prop :=
  exists pre' l, pre = pre' ++ [MRemove; MListen l; MAccept l c; MClose l].

Lemma iter_handle : forall n it pre c r reach post,
  iter_log n it = pre ++ MHandle c r reach :: post ->
  reach = None /\ post = [] /\ pre = [MRemove; MListen n; MAccept n c; MClose n] /\ it = ItServe r.
Proof.
  intros n [e|r0] pre c r reach post H; cbn [iter_log] in H.
  - destruct pre as [|? [|? [|? [|? ?]]]]; cbn in H; inversion H.
  - destruct pre as [|? [|? [|? [|? [|? [|? ?]]]]]]; cbn in H; inversion H; subst. auto.
Qed.

Lemma loop_handle : forall p n pre c r reach post,
  rounds_log n p = pre ++ MHandle c r reach :: post ->
  reach = None /\ served_by pre c.
Proof.
  induction p as [|it p IH]; intros n pre c r reach post H; cbn [rounds_log] in H.
  - destruct pre; discriminate.
  - apply app_split in H. destruct H as [[m [E1 E2]]|[m [E1 E2]]].
    + apply iter_handle in E1. destruct E1 as [R [_ [P _]]]. split; [exact R|].
      exists [], n. subst. reflexivity.
    + apply IH in E2. destruct E2 as [R [pre' [l P]]]. split; [exact R|].
      exists (iter_log n it ++ pre'), l. subst. rewrite app_assoc. reflexivity.
Qed.

(* every handleConn is immediately preceded by its own Remove, Listen, Accept and Close, in that order, and
   nothing could connect while it ran *)
Theorem handle_preceded : forall start host clean its fin n pre c r reach post,
  daemon_log start host clean its fin n = pre ++ MHandle c r reach :: post ->
  reach = None /\ served_by pre c.
Proof.
  intros start host clean its fin n pre c r reach post H.
  assert (S : serving (MHandle c r reach) = true) by reflexivity.
  destruct (clean_before_serving _ _ _ _ _ _ _ _ _ H S) as [-> [-> [-> _]]].
  unfold daemon_log in H.
  apply app_split in H. destruct H as [[m [E1 E2]]|[m [E1 E2]]].
  { destruct pre as [|? [|? [|? [|? [|? ?]]]]]; cbn in E1; inversion E1. }
  apply app_split in E2. destruct E2 as [[m' [E3 E4]]|[m' [E3 E4]]].
  - apply loop_handle in E3. destruct E3 as [R [pre' [l P]]]. split; [exact R|].
    exists ([MStart; MHost; MClean; MSpawn] ++ pre'), l. subst. rewrite app_assoc. reflexivity.
  - destruct m' as [|? [|? [|? ?]]]; cbn in E4; inversion E4.
Qed.

(* the results of the handleConn entries of a log, in order / the serving rounds of a script *)
Fixpoint handled (l : list mev) : list Z :=
  match l with
  | [] => []
  | MHandle _ r _ :: t => r :: handled t
  | _ :: t => handled t
  end.
Fixpoint serves (p : list iter) : list Z :=
  match p with
  | [] => []
  | ItServe r :: t => r :: serves t
  | ItAcceptFail _ :: t => serves t
  end.

Lemma handled_app : forall a b, handled (a ++ b) = handled a ++ handled b.
Proof.
  induction a as [|x a IH]; intros b; [reflexivity|]. destruct x; cbn [handled app]; rewrite ?IH; reflexivity.
Qed.

Lemma loop_handled : forall p n, handled (rounds_log n p) = serves p.
Proof.
  induction p as [|it p IH]; intros n; cbn [rounds_log]; [reflexivity|].
  rewrite handled_app, IH. destruct it; reflexivity.
Qed.

(* every serving round of the script is handled, in order, whatever the earlier handleConn calls returned *)
Theorem handled_all : forall its fin n, handled (daemon_log None None None its fin n) = serves its.
Proof.
  intros. unfold daemon_log. rewrite !handled_app, loop_handled. cbn [handled app]. apply app_nil_r.
Qed.

Lemma rounds_log_app : forall p1 p2 n, rounds_log n (p1 ++ p2) = rounds_log n p1 ++ rounds_log (rounds_next n p1) p2.
Proof.
  induction p1 as [|it p1 IH]; intros p2 n; cbn [app rounds_log rounds_next]; [reflexivity|].
  rewrite IH, <- app_assoc. reflexivity.
Qed.

(* a failing Accept: the listener is made, Accept fails, NOTHING is closed or handled; the next thing that
   happens is the Remove and the Listen of the following round (or the failing Listen that ends the daemon) *)
Theorem accept_fail_round : forall p1 e p2 fin n,
  let l := rounds_next n p1 in
  daemon_log None None None (p1 ++ ItAcceptFail e :: p2) fin n =
    [MStart; MHost; MClean; MSpawn] ++ rounds_log n p1 ++
    [MRemove; MListen l; MAcceptFail l (Zpos e)] ++
    rounds_log (l + 1) p2 ++ [MRemove; MListenFail (Zpos fin)] /\
  exists x post,
    rounds_log (l + 1) p2 ++ [MRemove; MListenFail (Zpos fin)] = MRemove :: x :: post /\
    (x = MListen (l + 1) \/ x = MListenFail (Zpos fin)).
Proof.
  intros p1 e p2 fin n l. split.
  - unfold daemon_log. rewrite rounds_log_app. cbn [rounds_log iter_log iter_toks]. fold l.
    rewrite <- !app_assoc. reflexivity.
  - destruct p2 as [|[e'|r] p2]; cbn [rounds_log iter_log app].
    + exists (MListenFail (Zpos fin)), []. auto.
    + eexists _, _. split; [reflexivity|auto].
    + eexists _, _. split; [reflexivity|auto].
Qed.

(* the listeners never closed are exactly those whose Accept failed: one per failing round *)
Fixpoint accept_fails (p : list iter) : nat :=
  match p with
  | [] => O
  | ItAcceptFail _ :: t => S (accept_fails t)
  | ItServe _ :: t => accept_fails t
  end.

Lemma leaks_count : forall p n, List.length (rounds_leaks n p) = accept_fails p.
Proof.
  induction p as [|[e|r] p IH]; intros n; cbn [rounds_leaks accept_fails]; [reflexivity| |apply IH].
  rewrite app_length, IH. cbn. lia.
Qed.

Lemma daemon_leaks_count : forall its n, List.length (daemon_leaks None None None its n) = accept_fails its.
Proof. intros; exact (leaks_count its n). Qed.

(* the description of the log, spelt out *)
Lemma daemon_log_unfolded : forall its fin n,
  daemon_log None None None its fin n =
    [MStart; MHost; MClean; MSpawn] ++ rounds_log n its ++ [MRemove; MListenFail (Zpos fin)] /\
  (forall it r, rounds_log n (it :: r) = iter_log n it ++ rounds_log (n + iter_toks it) r) /\
  (forall e, iter_log n (ItAcceptFail e) = [MRemove; MListen n; MAcceptFail n (Zpos e)]) /\
  (forall r, iter_log n (ItServe r) = [MRemove; MListen n; MAccept n (n + 1); MClose n; MHandle (n + 1) r None]).
Proof. intros; repeat split; reflexivity. Qed.

(* ---------- examples (evaluated) ---------- *)
(* a stale socket file; Accept fails once, two cameras are served (handleConn returns an error, then nil), Listen fails *)
Example ex_main :
  show_main (src_main 10 None None None [ItAcceptFail 5; ItServe 77; ItServe 0] 9 true 100) =
    Some (Some 9,
          [MStart; MHost; MClean; MSpawn;
           MRemove; MListen 100; MAcceptFail 100 5;
           MRemove; MListen 101; MAccept 101 102; MClose 101; MHandle 102 77 None;
           MRemove; MListen 103; MAccept 103 104; MClose 103; MHandle 104 0 None;
           MRemove; MListenFail 9],
          [100]).
Proof. vm_compute. reflexivity. Qed.

(* the clean-up fails: nothing is served *)
Example ex_main_clean_fails :
  show_main (src_main 10 None None (Some 3%positive) [ItServe 0] 9 false 1) = Some (Some 3, [MStart; MHost; MClean], []).
Proof. vm_compute. reflexivity. Qed.

(* host.Init fails: not even the clean-up runs *)
Example ex_main_host_fails :
  show_main (src_main 10 None (Some 4%positive) None [ItServe 0] 9 false 1) = Some (Some 4, [MStart; MHost], []).
Proof. vm_compute. reflexivity. Qed.

(* out of fuel after two rounds: the loop itself never returns *)
Example ex_main_fuel :
  show_main (src_main 2 None None None [ItServe 1; ItServe 2; ItServe 3] 9 false 1) =
    Some (None, [MStart; MHost; MClean; MSpawn;
                 MRemove; MListen 1; MAccept 1 2; MClose 1; MHandle 2 1 None;
                 MRemove; MListen 3; MAccept 3 4; MClose 3; MHandle 4 2 None], []).
Proof. vm_compute. reflexivity. Qed.
