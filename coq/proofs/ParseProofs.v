(* C13, parser half: a raw frame is rejected iff some pixel outside the edge border is zero;
   an accepted frame is decoded pixel-exactly; a rejected one leaves the slot partially
   overwritten (which is why "never buffered" is a theorem about the processor). *)
From Coq Require Import List ZArith Bool Arith Lia.
From TR Require Import model.Detector model.Parse proofs.DetC15.
Import ListNotations.
Open Scope Z_scope.

Lemma first_bad_spec : forall f raw h w edge cs k,
    match first_bad f raw h w edge cs k with
    | Some j => exists i, j = (k + i)%nat /\ (i < length cs)%nat /\
                          (let yx := nth i cs (0, 0)%nat in
                           negb (on_edge h w edge (fst yx) (snd yx)) && (raw_pixel f raw w (fst yx) (snd yx) =? 0) = true) /\
                          forall i', (i' < i)%nat ->
                            let yx := nth i' cs (0, 0)%nat in
                            negb (on_edge h w edge (fst yx) (snd yx)) && (raw_pixel f raw w (fst yx) (snd yx) =? 0) = false
    | None => forall yx, In yx cs ->
                negb (on_edge h w edge (fst yx) (snd yx)) && (raw_pixel f raw w (fst yx) (snd yx) =? 0) = false
    end.
Proof.
  intros f raw h w edge cs. induction cs as [|[y x] cs IH]; intros k; cbn [first_bad].
  - intros yx [].
  - destruct (negb (on_edge h w edge y x) && (raw_pixel f raw w y x =? 0)) eqn:E.
    + exists 0%nat. repeat split; [lia | cbn; lia | exact E | intros i' Hi'; lia].
    + specialize (IH (S k)). destruct (first_bad f raw h w edge cs (S k)) as [j|].
      * destruct IH as (i & Ej & Hi & Hbad & Hbefore). exists (S i). repeat split.
        -- lia.
        -- cbn [length]. lia.
        -- exact Hbad.
        -- intros i' Hi'. destruct i' as [|i']; [exact E|]. apply Hbefore. lia.
      * intros yx [<-|Hin]; [exact E|]. apply IH, Hin.
Qed.

(* rejected iff some non-border pixel is zero: both formats, any edge, any resolution, any
   previous slot contents *)
Theorem parse_bad_iff : forall f raw h w edge old,
    p_bad (parse_raw f raw h w edge old) = has_bad_pixel f raw h w edge.
Proof.
  intros f raw h w edge old. unfold parse_raw, has_bad_pixel. cbn [p_bad].
  pose proof (first_bad_spec f raw h w edge (coords h w) 0) as H.
  destruct (first_bad f raw h w edge (coords h w) 0) as [j|].
  - destruct H as (i & _ & Hi & Hbad & _). symmetry. apply existsb_exists.
    exists (nth i (coords h w) (0, 0)%nat). split; [apply nth_In, Hi | exact Hbad].
  - symmetry. apply not_true_is_false. intros Hex. apply existsb_exists in Hex.
    destruct Hex as (yx & Hin & Hb). rewrite (H yx Hin) in Hb. discriminate.
Qed.

(* accepted frames are decoded pixel-exactly: pixel (y, x) is the 16-bit value at its byte
   offset (big-endian after 640 telemetry bytes for Lepton, little-endian for Boson) *)
Theorem parse_decode_exact : forall f raw h w edge old y x,
    has_bad_pixel f raw h w edge = false -> (y < h)%nat -> (x < w)%nat ->
    gget (p_pix (parse_raw f raw h w edge old)) y x = raw_pixel f raw w y x.
Proof.
  intros f raw h w edge old y x Hok Hy Hx.
  pose proof (parse_bad_iff f raw h w edge old) as Hb. rewrite Hok in Hb.
  unfold parse_raw in *. cbn [p_bad p_pix] in *.
  destruct (first_bad f raw h w edge (coords h w) 0); [discriminate|].
  rewrite gget_gbuild. apply Nat.ltb_lt in Hy, Hx. rewrite Hy, Hx. reflexivity.
Qed.

(* 16-bit range of decoded pixels when the raw bytes are bytes *)
Theorem raw_pixel_range : forall f raw w y x,
    (forall i, 0 <= nth i raw 0 <= 255) -> 0 <= raw_pixel f raw w y x <= 65535.
Proof.
  intros f raw w y x Hb. unfold raw_pixel, be16, le16, byte_at.
  destruct f.
  - pose proof (Hb (pix_off Lepton w y x)). pose proof (Hb (pix_off Lepton w y x + 1)%nat). lia.
  - pose proof (Hb (pix_off Boson w y x)). pose proof (Hb (pix_off Boson w y x + 1)%nat). lia.
Qed.

(* Lepton telemetry: every field read is the word(s) at its offset; durations in ms *)
Theorem lepton_telemetry_exact : forall raw h w edge old,
    let t := p_tel (parse_raw Lepton raw h w edge old) in
    t_timeon t = big16_u32 raw 2 * 1000000 /\
    t_lastffc t = big16_u32 raw 60 * 1000000 /\
    t_framecount t = big16_u32 raw 40 /\
    t_framemean t = be16 raw 44 /\
    t_ffcstate t = (big16_u32 raw 6 / 16) mod 4 /\
    t_tempc t = centik_to_c (be16 raw 48) /\
    t_lastffctempc t = centik_to_c (be16 raw 58).
Proof. intros. repeat split. Qed.
