(* Every log line of the motion processor goes through its log limiter: the Gallina translation of
   motion/motionprocessor.go (regenerated from /repo on every run) leaves the translated code under
   the names listed in ext_names_MotionProcessor, and none of them is a direct call of the log or
   fmt printing functions - the only logging call is MotionProcessor.log.Printf, the limiter.
   (C20's "a condition recurring on every frame produces at most one line per interval" is about
   what the recorder prints: a message printed past the limiter would neither be limited nor
   re-arm the messages around it.) *)
From Coq Require Import List String Bool.
Open Scope string_scope.
From TR Require Import translated.MotionProcessor.
Import ListNotations.

Definition direct_print (n : string) : bool :=
  String.prefix "log." n || String.prefix "fmt.Print" n || String.prefix "fmt.Fprint" n || String.prefix "println" n.

Definition logging_call : string := "MotionProcessor.log.Printf".

Lemma processor_logs_only_through_limiter :
  forallb (fun n => negb (direct_print n)) ext_names_MotionProcessor = true /\
  In logging_call ext_names_MotionProcessor.
Proof. split; [reflexivity | vm_compute; tauto]. Qed.
