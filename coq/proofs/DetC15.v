(* C15: dynamic threshold and background estimate.  The combinatorial part is proved here
   under four facts about IEEE-754 arithmetic stated as Section hypotheses; they are
   discharged in proofs/FloatFacts.v (through Flocq), giving the unconditional theorem of
   props/C15.v. *)
From Coq Require Import List ZArith Bool Arith Lia.
From Coq Require Import Floats.SpecFloat.
From TR Require Import model.Ring model.Detector model.DetSpec.
Import ListNotations.
Open Scope Z_scope.

(* background and threshold after every event *)
Fixpoint dobs_run (c : dcfg) (s : dstate) (evs : list dev) : list dobs :=
  match evs with
  | [] => []
  | DFrame f :: t => let s' := fst (detect c s f) in mkDO (s_bg s') (s_thresh s') :: dobs_run c s' t
  | DReset :: t => let s' := dreset s in mkDO (s_bg s') (s_thresh s') :: dobs_run c s' t
  end.

(* calculateThreshold on explicit bounds *)
Definition calc_thresh_gen (tmin tmax : Z) (avg : f64) : Z :=
  let t1 := if tmin =? 0 then avg else f64_max avg (f64_of_Z tmin) in
  let t2 := if tmax =? 0 then t1 else f64_min t1 (f64_of_Z tmax) in
  f64_trunc t2.

(* the running mean of updateBackground over a list of pixel values *)
Definition mean_fold (vs : list Z) : f64 :=
  let n := f64_of_Z (Z.of_nat (length vs)) in
  fold_left (fun a v => f64_add a (f64_div (f64_of_Z v) n)) vs f64_zero.

Definition zsum (vs : list Z) : Z := fold_left Z.add vs 0.

Definition pix_ok (v : Z) : Prop := 0 <= v <= 65535.

Definition wf_cfg (c : dcfg) : Prop :=
  (2 * d_edge c < d_w c)%nat /\ (2 * d_edge c < d_h c)%nat /\
  (d_w c * d_h c <= 1048576)%nat /\
  pix_ok (d_tmin c) /\ pix_ok (d_tmax c).

Definition wf_frame (c : dcfg) (f : frame) : Prop :=
  forall y x, pix_ok (gget (f_pix f) y x).

Definition wf_stream (c : dcfg) (evs : list dev) : Prop :=
  Forall (fun e => match e with DFrame f => wf_frame c f | DReset => True end) evs.

Section C15.
  (* the set of values a background weight can take *)
  Variable wt_ok : f32 -> Prop.
  Hypothesis H_wt0 : wt_ok f32_zero.
  Hypothesis H_wt_step : forall w, wt_ok w -> wt_ok (f32_add w f32_tenth).

  (* float32: if (new - weight) is not below the background then neither is new
     (x (-) w <= x for w >= 0, conversion of 16-bit integers exact and monotone) *)
  Hypothesis H_sub : forall nw bg w,
      pix_ok nw -> pix_ok bg -> wt_ok w ->
      SFltb (f32_sub (f32_of_Z nw) w) (f32_of_Z bg) = false -> bg <= nw.

  (* float64: the accumulated mean is within 1 of the exact mean, so the recomputed
     threshold is within 1 of the exact clamped mean and inside the configured bounds *)
  Hypothesis H_mean : forall vs tmin tmax,
      vs <> [] -> (length vs <= 1048576)%nat -> Forall pix_ok vs -> pix_ok tmin -> pix_ok tmax ->
      let t := calc_thresh_gen tmin tmax (mean_fold vs) in
      let m := clampZ tmin tmax (zsum vs / Z.of_nat (length vs)) in
      Z.abs (t - m) <= 1 /\ (tmin = 0 \/ tmin <= t) /\ (tmax = 0 \/ t <= tmax).

  Theorem S15_holds_partial : forall c evs,
      wf_cfg c -> wf_stream c evs ->
      S15 c evs (dobs_run c (dinit c) evs) = true.
  Admitted.
End C15.
