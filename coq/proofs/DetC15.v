(* C15: dynamic threshold and background estimate.  The combinatorial part is proved here
   under four facts about IEEE-754 arithmetic stated as Section hypotheses; they are
   discharged in proofs/FloatFacts.v (through Flocq), giving the unconditional theorem of
   props/C15.v. *)
From Coq Require Import List ZArith Bool Arith Lia.
From Coq Require Import ZifyBool ZifyNat.
From Coq Require Import Floats.SpecFloat.
From TR Require Import model.Ring model.Detector model.DetSpec.
Import ListNotations.
Open Scope Z_scope.

(* background and threshold after every event *)
Fixpoint dobs_run (c : dcfg) (s : dstate) (evs : list dev) : list dobs :=
  match evs with
  | [] => []
  | DFrame f :: t => let s' := fst (detect c s f) in mkDO (s_bg s') (s_thresh s') :: dobs_run c s' t
  | DReset :: t => let s' := dreset s in mkDO (s_bg s') (s_thresh s') :: dobs_run c s' t
  end.

(* calculateThreshold on explicit bounds *)
Definition calc_thresh_gen (tmin tmax : Z) (avg : f64) : Z :=
  let t1 := if tmin =? 0 then avg else f64_max avg (f64_of_Z tmin) in
  let t2 := if tmax =? 0 then t1 else f64_min t1 (f64_of_Z tmax) in
  f64_trunc t2.

(* the running mean of updateBackground over a list of pixel values *)
Definition mean_fold (vs : list Z) : f64 :=
  let n := f64_of_Z (Z.of_nat (length vs)) in
  fold_left (fun a v => f64_add a (f64_div (f64_of_Z v) n)) vs f64_zero.

Definition zsum (vs : list Z) : Z := fold_left Z.add vs 0.

Definition pix_ok (v : Z) : Prop := 0 <= v <= 65535.

Definition wf_cfg (c : dcfg) : Prop :=
  (2 * d_edge c < d_w c)%nat /\ (2 * d_edge c < d_h c)%nat /\
  (d_w c * d_h c <= 1048576)%nat /\
  pix_ok (d_tmin c) /\ pix_ok (d_tmax c) /\
  (d_tmax c = 0 \/ d_tmin c <= d_tmax c).   (* when both bounds are set they are ordered *)

Definition wf_frame (c : dcfg) (f : frame) : Prop :=
  forall y x, pix_ok (gget (f_pix f) y x).

Definition wf_stream (c : dcfg) (evs : list dev) : Prop :=
  Forall (fun e => match e with DFrame f => wf_frame c f | DReset => True end) evs.


(* ---------------- grids, coordinates, folds ---------------- *)
Lemma nth_map_seq : forall (A : Type) (F : nat -> A) n k d,
    (k < n)%nat -> nth k (map F (seq 0 n)) d = F k.
Proof.
  intros A F n k d H.
  rewrite (nth_indep _ d (F 0%nat)) by (rewrite map_length, seq_length; exact H).
  rewrite map_nth, seq_nth by exact H. reflexivity.
Qed.

Lemma nth2_build : forall (A : Type) (F : nat -> nat -> A) h w y x d,
    nth x (nth y (map (fun y => map (fun x => F y x) (seq 0 w)) (seq 0 h)) []) d =
    if (y <? h)%nat && (x <? w)%nat then F y x else d.
Proof.
  intros A F h w y x d.
  destruct (Nat.ltb_spec y h) as [Hy|Hy].
  - rewrite nth_map_seq by exact Hy.
    destruct (Nat.ltb_spec x w) as [Hx|Hx]; cbn [andb].
    + apply nth_map_seq; exact Hx.
    + apply nth_overflow. rewrite map_length, seq_length. exact Hx.
  - cbn [andb]. rewrite (nth_overflow _ []) by (rewrite map_length, seq_length; exact Hy).
    destruct x; reflexivity.
Qed.

Lemma gget_gbuild : forall h w f y x,
    gget (gbuild h w f) y x = if (y <? h)%nat && (x <? w)%nat then f y x else 0.
Proof. intros. unfold gget, gbuild. apply nth2_build. Qed.

Lemma in_pairs : forall (y x : nat) (ly lx : list nat),
    In (y, x) (flat_map (fun y => map (fun x => (y, x)) lx) ly) <-> In y ly /\ In x lx.
Proof.
  intros y x ly lx. rewrite in_flat_map. split.
  - intros [y' [Hy Hx]]. apply in_map_iff in Hx. destruct Hx as [x' [E Hx]].
    inversion E; subst. split; assumption.
  - intros [Hy Hx]. exists y. split; [assumption|]. apply in_map_iff. exists x. split; auto.
Qed.

Lemma length_pairs : forall (ly lx : list nat),
    length (flat_map (fun y => map (fun x => (y, x)) lx) ly) = (length ly * length lx)%nat.
Proof.
  intros ly lx. induction ly as [|y ly IH]; [reflexivity|].
  cbn [flat_map length]. rewrite app_length, map_length, IH. reflexivity.
Qed.

Lemma in_icoords : forall c y x,
    In (y, x) (icoords c) <->
    (d_edge c <= y < d_h c - d_edge c)%nat /\ (d_edge c <= x < d_w c - d_edge c)%nat.
Proof. intros. unfold icoords. rewrite in_pairs, !in_seq. lia. Qed.

Lemma in_all_coords : forall c y x,
    In (y, x) (all_coords c) <-> (y < d_h c)%nat /\ (x < d_w c)%nat.
Proof. intros. unfold all_coords. rewrite in_pairs, !in_seq. lia. Qed.

Lemma length_icoords : forall c,
    length (icoords c) = ((d_h c - d_edge c - d_edge c) * (d_w c - d_edge c - d_edge c))%nat.
Proof. intros. unfold icoords. rewrite length_pairs, !seq_length. reflexivity. Qed.

Lemma fold_left_map_gen : forall (A B C : Type) (F : A -> C -> A) (g : B -> C) l a,
    fold_left (fun a b => F a (g b)) l a = fold_left F (map g l) a.
Proof. intros A B C F g l. induction l as [|b l IH]; intros a; [reflexivity|]. cbn [fold_left map]. apply IH. Qed.

Lemma near_y_int : forall c y, wf_cfg c -> (d_edge c <= near_y c y < d_h c - d_edge c)%nat.
Proof. intros c y (Hw & Hh & _). unfold near_y, clampn. lia. Qed.
Lemma near_x_int : forall c x, wf_cfg c -> (d_edge c <= near_x c x < d_w c - d_edge c)%nat.
Proof. intros c x (Hw & Hh & _). unfold near_x, clampn. lia. Qed.
Lemma near_y_id : forall c y, (d_edge c <= y < d_h c - d_edge c)%nat -> near_y c y = y.
Proof. intros c y H. unfold near_y, clampn. lia. Qed.
Lemma near_x_id : forall c x, (d_edge c <= x < d_w c - d_edge c)%nat -> near_x c x = x.
Proof. intros c x H. unfold near_x, clampn. lia. Qed.

(* ---------------- the part of Detect that touches background / threshold ---------------- *)
Definition dyn_part (c : dcfg) (s : dstate) (f : frame) : grid * list (list f32) * Z * Z :=
  if d_dynamic c && negb (affected_by_ffc f) then
    let '(bg', wts', avg, changed) := update_background c s f (s_affected s) in
    let n := s_bgframes s + 1 in
    (bg', wts', n, if changed && (d_preview c <? n) then calc_threshold c avg else s_thresh s)
  else (s_bg s, s_wts s, s_bgframes s, s_thresh s).

Lemma detect_fields : forall c s f,
    let s' := fst (detect c s f) in
    (s_bg s', s_wts s', s_bgframes s', s_thresh s') = dyn_part c s f /\
    s_affected s' = affected_by_ffc f.
Proof.
  intros c s f. unfold detect, dyn_part.
  destruct (if d_dynamic c && negb (affected_by_ffc f) then _ else _) as [[[bg1 wts1] n1] t1].
  destruct (negb (s_firstdiff s)); [|destruct (affected_by_ffc f || s_affected s)];
    cbn [fst s_bg s_wts s_bgframes s_thresh s_affected]; split; reflexivity.
Qed.

(* new background value at a pixel *)
Definition bgi (s : dstate) (f : frame) (pf seed : bool) (y x : nat) : Z :=
  if replaces s f pf seed y x then gget (f_pix f) y x else gget (s_bg s) y x.

Definition new_bg (c : dcfg) (s : dstate) (f : frame) : grid :=
  gbuild (d_h c) (d_w c)
         (fun y x => bgi s f (s_affected s) (s_bgframes s + 1 =? 1) (near_y c y) (near_x c x)).

Definition new_wts (c : dcfg) (s : dstate) (f : frame) : list (list f32) :=
  if s_bgframes s + 1 =? 1 then s_wts s
  else map (fun y => map (fun x =>
         if interior c y x then
           if replaces s f (s_affected s) false y x then f32_zero
           else f32_add (wget (s_wts s) y x) f32_tenth
         else wget (s_wts s) y x) (seq 0 (d_w c))) (seq 0 (d_h c)).

(* interior values of the new background, row-major *)
Definition ivals (c : dcfg) (s : dstate) (f : frame) : list Z :=
  map (fun yx => bgi s f (s_affected s) (s_bgframes s + 1 =? 1) (fst yx) (snd yx)) (icoords c).

Lemma dyn_part_dynamic : forall c s f,
    d_dynamic c = true -> affected_by_ffc f = false ->
    exists changed : bool,
      dyn_part c s f =
      (new_bg c s f, new_wts c s f, s_bgframes s + 1,
       if changed then calc_thresh_gen (d_tmin c) (d_tmax c) (mean_fold (ivals c s f))
       else s_thresh s).
Proof.
  intros c s f Hd Ha. unfold dyn_part. rewrite Hd, Ha. cbn [andb negb].
  unfold update_background. cbv beta iota zeta.
  eexists. f_equal. f_equal.
  unfold calc_threshold, calc_thresh_gen, mean_fold, ivals.
  rewrite map_length, length_icoords.
  rewrite <- fold_left_map_gen. reflexivity.
Qed.

Lemma dyn_part_static : forall c s f,
    affected_by_ffc f = true ->
    dyn_part c s f = (s_bg s, s_wts s, s_bgframes s, s_thresh s).
Proof. intros c s f Ha. unfold dyn_part. rewrite Ha, andb_false_r. reflexivity. Qed.

Lemma interior_sum_zsum : forall c g,
    interior_sum c g = zsum (map (fun yx => gget g (fst yx) (snd yx)) (icoords c)).
Proof. intros. unfold interior_sum, zsum. apply fold_left_map_gen with (F := Z.add). Qed.

Lemma new_bg_interior : forall c s f y x,
    In (y, x) (icoords c) ->
    gget (new_bg c s f) y x = bgi s f (s_affected s) (s_bgframes s + 1 =? 1) y x.
Proof.
  intros c s f y x Hin. apply in_icoords in Hin. destruct Hin as [Hy Hx].
  unfold new_bg. rewrite gget_gbuild, near_y_id, near_x_id by assumption.
  replace ((y <? d_h c)%nat && (x <? d_w c)%nat) with true by lia. reflexivity.
Qed.

Lemma interior_sum_new_bg : forall c s f, interior_sum c (new_bg c s f) = zsum (ivals c s f).
Proof.
  intros. rewrite interior_sum_zsum. unfold ivals. f_equal. apply map_ext_in.
  intros [y x] Hin. apply new_bg_interior. exact Hin.
Qed.

(* one non-FFC frame of S15_run *)
Definition frame_ok (c : dcfg) (tb : Z) (pa rs : bool) (f : frame) (o : dobs) : bool :=
  let npix := Z.of_nat (length (icoords c)) in
  if affected_by_ffc f then do_thresh o =? tb
  else
    interior_le c (do_bg o) (f_pix f) &&
    border_replicates c (do_bg o) &&
    (negb (pa || rs) || interior_eq c (do_bg o) (f_pix f)) &&
    ((do_thresh o =? tb) ||
     (let m := clampZ (d_tmin c) (d_tmax c) (interior_sum c (do_bg o) / npix) in
      (Z.abs (do_thresh o - m) <=? 1) &&
      ((d_tmin c =? 0) || (d_tmin c <=? do_thresh o)) &&
      ((d_tmax c =? 0) || (do_thresh o <=? d_tmax c)))).

Section C15.
  (* the set of values a background weight can take *)
  Variable wt_ok : f32 -> Prop.
  Hypothesis H_wt0 : wt_ok f32_zero.
  Hypothesis H_wt_step : forall w, wt_ok w -> wt_ok (f32_add w f32_tenth).

  (* float32: if (new - weight) is not below the background then neither is new
     (x (-) w <= x for w >= 0, conversion of 16-bit integers exact and monotone) *)
  Hypothesis H_sub : forall nw bg w,
      pix_ok nw -> pix_ok bg -> wt_ok w ->
      SFltb (f32_sub (f32_of_Z nw) w) (f32_of_Z bg) = false -> bg <= nw.

  (* float64: the accumulated mean is within 1 of the exact mean, so the recomputed
     threshold is within 1 of the exact clamped mean and inside the configured bounds *)
  Hypothesis H_mean : forall vs tmin tmax,
      vs <> [] -> (length vs <= 1048576)%nat -> Forall pix_ok vs -> pix_ok tmin -> pix_ok tmax ->
      (tmax = 0 \/ tmin <= tmax) ->
      let t := calc_thresh_gen tmin tmax (mean_fold vs) in
      let m := clampZ tmin tmax (zsum vs / Z.of_nat (length vs)) in
      Z.abs (t - m) <= 1 /\ (tmin = 0 \/ tmin <= t) /\ (tmax = 0 \/ t <= tmax).

  (* carried along the run: the monitor's arguments track the state; pixels and weights
     stay in range *)
  Definition Inv (s : dstate) (tb : Z) (pa rs : bool) : Prop :=
    s_thresh s = tb /\ s_affected s = pa /\ (rs = true -> s_bgframes s = 0) /\
    (forall y x, pix_ok (gget (s_bg s) y x)) /\
    (forall y x, wt_ok (wget (s_wts s) y x)).

  Lemma Inv_init : forall c, Inv (dinit c) (d_thresh0 c) false true.
  Proof.
    intros c. unfold Inv, dinit. cbn [s_thresh s_affected s_bgframes s_bg s_wts].
    repeat split; try reflexivity.
    - unfold zero_grid. rewrite gget_gbuild. destruct (_ && _); lia.
    - unfold zero_grid. rewrite gget_gbuild. destruct (_ && _); lia.
    - intros y x. unfold wget.
      rewrite (nth2_build f32 (fun _ _ => f32_zero)). destruct (_ && _); exact H_wt0.
  Qed.

  Lemma Inv_reset : forall s tb pa rs, Inv s tb pa rs -> Inv (dreset s) tb pa true.
  Proof.
    intros s tb pa rs (Ht & Ha & Hr & Hp & Hw). unfold Inv, dreset.
    cbn [s_thresh s_affected s_bgframes s_bg s_wts]. repeat split; auto; apply Hp.
  Qed.

  Section Frame.
    Variables (c : dcfg) (s : dstate) (f : frame).
    Hypothesis Hc : wf_cfg c.
    Hypothesis Hf : wf_frame c f.
    Hypothesis Hp : forall y x, pix_ok (gget (s_bg s) y x).
    Hypothesis Hw : forall y x, wt_ok (wget (s_wts s) y x).

    Lemma bgi_le : forall pf seed y x, bgi s f pf seed y x <= gget (f_pix f) y x.
    Proof.
      intros pf seed y x. unfold bgi, replaces.
      destruct seed; cbn [orb]; [lia|]. destruct pf; cbn [orb]; [lia|].
      destruct (SFltb _ _) eqn:E; [lia|].
      eapply H_sub; [apply Hf|apply Hp|apply Hw|exact E].
    Qed.

    Lemma bgi_eq : forall pf seed y x, seed || pf = true -> bgi s f pf seed y x = gget (f_pix f) y x.
    Proof. intros pf seed y x H. unfold bgi, replaces. rewrite H. reflexivity. Qed.

    Lemma bgi_pix : forall pf seed y x, pix_ok (bgi s f pf seed y x).
    Proof. intros. unfold bgi. destruct (replaces _ _ _ _ _ _); [apply Hf|apply Hp]. Qed.

    Lemma new_bg_pix : forall y x, pix_ok (gget (new_bg c s f) y x).
    Proof.
      intros y x. unfold new_bg. rewrite gget_gbuild.
      destruct (_ && _); [apply bgi_pix|unfold pix_ok; lia].
    Qed.

    Lemma new_wts_ok : forall y x, wt_ok (wget (new_wts c s f) y x).
    Proof.
      intros y x. unfold new_wts. destruct (s_bgframes s + 1 =? 1); [apply Hw|].
      unfold wget at 1. rewrite nth2_build. destruct (_ && _); [|exact H_wt0].
      destruct (interior c y x); [|apply Hw].
      destruct (replaces _ _ _ _ _ _); [exact H_wt0|apply H_wt_step, Hw].
    Qed.

    Lemma new_bg_le : interior_le c (new_bg c s f) (f_pix f) = true.
    Proof.
      unfold interior_le. apply forallb_forall. intros [y x] Hin. cbn [fst snd].
      rewrite new_bg_interior by exact Hin. apply Z.leb_le, bgi_le.
    Qed.

    Lemma new_bg_border : border_replicates c (new_bg c s f) = true.
    Proof.
      unfold border_replicates. apply forallb_forall. intros [y x] Hin. cbn [fst snd].
      apply in_all_coords in Hin. destruct Hin as [Hy Hx].
      pose proof (near_y_int c y Hc) as Hny. pose proof (near_x_int c x Hc) as Hnx.
      apply Z.eqb_eq. unfold new_bg. rewrite !gget_gbuild.
      rewrite (near_y_id c (near_y c y)), (near_x_id c (near_x c x)) by assumption.
      replace ((y <? d_h c)%nat && (x <? d_w c)%nat) with true by lia.
      replace ((near_y c y <? d_h c)%nat && (near_x c x <? d_w c)%nat) with true by lia.
      reflexivity.
    Qed.

    Lemma new_bg_eq :
      (s_bgframes s + 1 =? 1) || s_affected s = true -> interior_eq c (new_bg c s f) (f_pix f) = true.
    Proof.
      intros H. unfold interior_eq. apply forallb_forall. intros [y x] Hin. cbn [fst snd].
      rewrite new_bg_interior by exact Hin. apply Z.eqb_eq, bgi_eq, H.
    Qed.

    Lemma new_thresh_ok :
      let t := calc_thresh_gen (d_tmin c) (d_tmax c) (mean_fold (ivals c s f)) in
      let m := clampZ (d_tmin c) (d_tmax c)
                      (interior_sum c (new_bg c s f) / Z.of_nat (length (icoords c))) in
      Z.abs (t - m) <= 1 /\ (d_tmin c = 0 \/ d_tmin c <= t) /\ (d_tmax c = 0 \/ t <= d_tmax c).
    Proof.
      destruct Hc as (Hcw & Hch & Hsz & Hmin & Hmax & Hord).
      rewrite interior_sum_new_bg.
      replace (length (icoords c)) with (length (ivals c s f)) by (unfold ivals; apply map_length).
      assert (Hlen : length (ivals c s f) =
                     ((d_h c - d_edge c - d_edge c) * (d_w c - d_edge c - d_edge c))%nat)
        by (unfold ivals; rewrite map_length; apply length_icoords).
      apply H_mean; try assumption.
      - intros E. rewrite E in Hlen. cbn [length] in Hlen. symmetry in Hlen. apply Nat.eq_mul_0 in Hlen. lia.
      - rewrite Hlen. eapply Nat.le_trans; [|exact Hsz].
        rewrite (Nat.mul_comm (d_w c)). apply Nat.mul_le_mono; lia.
      - unfold ivals. apply Forall_forall. intros v Hv. apply in_map_iff in Hv.
        destruct Hv as [yx [E _]]. subst v. apply bgi_pix.
    Qed.
  End Frame.

  Lemma frame_step : forall c s f tb pa rs,
      wf_cfg c -> d_dynamic c = true -> wf_frame c f -> Inv s tb pa rs ->
      let s' := fst (detect c s f) in
      frame_ok c tb pa rs f (mkDO (s_bg s') (s_thresh s')) = true /\
      Inv s' (s_thresh s') (affected_by_ffc f) (if affected_by_ffc f then rs else false).
  Proof.
    intros c s f tb pa rs Hc Hd Hf (Ht & Ha & Hr & Hp & Hw) s'.
    destruct (detect_fields c s f) as [Hfields Haff]. fold s' in Hfields, Haff.
    unfold frame_ok, Inv. cbn [do_bg do_thresh].
    destruct (affected_by_ffc f) eqn:Eaff.
    - rewrite dyn_part_static in Hfields by exact Eaff.
      injection Hfields as Hbg Hwts Hn Hth. rewrite Hbg, Hwts, Hn, Hth.
      split; [lia|]. refine (conj _ (conj _ (conj _ (conj _ _)))); auto.
    - destruct (dyn_part_dynamic c s f Hd Eaff) as [changed Hdyn]. rewrite Hdyn in Hfields.
      injection Hfields as Hbg Hwts Hn Hth. rewrite Hbg, Hwts.
      split.
      + rewrite new_bg_le, new_bg_border by assumption. cbn [andb].
        apply andb_true_intro. split.
        * destruct (pa || rs) eqn:Epr; [|reflexivity]. cbn [negb orb].
          apply new_bg_eq; try assumption. rewrite Ha.
          destruct rs; [rewrite (Hr eq_refl); reflexivity|].
          rewrite orb_false_r in Epr. rewrite Epr. apply orb_true_r.
        * destruct changed; [|lia].
          pose proof (new_thresh_ok c s f Hc Hf Hp) as Hm. cbv zeta in Hm.
          rewrite Hth. cbv zeta. lia.
      + refine (conj _ (conj _ (conj _ (conj _ _)))); auto; try discriminate.
        * apply new_bg_pix; assumption.
        * apply new_wts_ok; assumption.
  Qed.

  Lemma S15_run_inv : forall c, wf_cfg c -> d_dynamic c = true ->
      forall evs s tb pa rs, wf_stream c evs -> Inv s tb pa rs ->
      S15_run c tb pa rs evs (dobs_run c s evs) = true.
  Proof.
    intros c Hc Hd. induction evs as [|e t IH]; intros s tb pa rs Hwf HI; [reflexivity|].
    inversion Hwf as [|e' t' He Ht]; subst. destruct e as [f|].
    - destruct (frame_step c s f tb pa rs Hc Hd He HI) as [Hok HI'].
      change (dobs_run c s (DFrame f :: t)) with
          (mkDO (s_bg (fst (detect c s f))) (s_thresh (fst (detect c s f))) ::
           dobs_run c (fst (detect c s f)) t).
      set (o := mkDO (s_bg (fst (detect c s f))) (s_thresh (fst (detect c s f)))) in *.
      change (S15_run c tb pa rs (DFrame f :: t) (o :: dobs_run c (fst (detect c s f)) t)) with
          (frame_ok c tb pa rs f o &&
           S15_run c (do_thresh o) (affected_by_ffc f) (if affected_by_ffc f then rs else false) t
                   (dobs_run c (fst (detect c s f)) t)).
      rewrite Hok. cbn [andb]. apply IH; assumption.
    - change (dobs_run c s (DReset :: t)) with
          (mkDO (s_bg (dreset s)) (s_thresh (dreset s)) :: dobs_run c (dreset s) t).
      change (S15_run c tb pa rs (DReset :: t)
                      (mkDO (s_bg (dreset s)) (s_thresh (dreset s)) :: dobs_run c (dreset s) t)) with
          ((s_thresh (dreset s) =? tb) && S15_run c tb pa true t (dobs_run c (dreset s) t)).
      pose proof (Inv_reset s tb pa rs HI) as HI'.
      replace (s_thresh (dreset s) =? tb) with true by (destruct HI' as [E _]; lia).
      cbn [andb]. apply IH; assumption.
  Qed.

  Theorem S15_holds_partial : forall c evs,
      wf_cfg c -> d_dynamic c = true -> wf_stream c evs ->
      S15 c evs (dobs_run c (dinit c) evs) = true.
  Proof.
    intros c evs Hc Hd Hwf. unfold S15. apply S15_run_inv; try assumption. apply Inv_init.
  Qed.
End C15.
