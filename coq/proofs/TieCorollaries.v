(* The property theorems restated about the translated sources (coq/translated, regenerated from
   /repo on every run), by rewriting with the source ties: what C05, C06 and C20 say about the
   hand-written models holds of the Gallina translation of the Go code as it is now. *)
From Coq Require Import List ZArith Bool String Lia.
From TR Require Import model.GoSem model.Throttle model.ThrottleSpec model.LogLimiter model.ThrExt
     proofs.ThrottleProofs proofs.ThrottleC06 proofs.ThrottleSec proofs.LogLimiterProofs proofs.TieThrottle.
Import ListNotations.
Open Scope Z_scope.

(* the translated throttled recorder's steps: upstream calls with what they cause *)
Definition src_thsteps (cap q fi minlen : Z) (faults : list bool) (us : list ucall) : list (ucall * list tout) :=
  combine us (src_thrun cap q fi minlen faults us).

Lemma src_thsteps_eq cap q fi minlen faults us :
  src_thsteps cap q fi minlen faults us = thsteps cap q fi minlen faults us.
Proof. unfold src_thsteps, thsteps. rewrite tie_throttle. reflexivity. Qed.

Theorem S05_source : forall cap q fi minlen faults us,
    1 <= cap -> 1 <= q -> 1 <= fi -> monotone us = true ->
    S05 cap q fi (src_thsteps cap q fi minlen faults us) = true.
Proof. intros. rewrite src_thsteps_eq. apply S05_holds; assumption. Qed.

Theorem S05sec_source : forall cap fi minlen faults us minframes refill_ns,
    1 <= cap -> 1 <= fi -> 0 <= minframes -> 0 < refill_ns ->
    rate_ok 1 fi minframes refill_ns = true -> monotone us = true ->
    S05sec cap minframes refill_ns (src_thsteps cap 1 fi minlen faults us) = true.
Proof. intros. rewrite src_thsteps_eq. apply S05sec_holds; assumption. Qed.

Theorem S06_source : forall cap q fi minlen faults us,
    1 <= cap -> 1 <= q -> 1 <= fi -> monotone us = true ->
    conforming (src_thsteps cap q fi minlen faults us) = true ->
    S06 minlen (src_thsteps cap q fi minlen faults us) = true.
Proof. intros cap q fi minlen faults us H1 H2 H3 H4 H5. rewrite src_thsteps_eq in *. apply S06_holds; assumption. Qed.

(* the translated log limiter: which messages reach log.Print *)
Definition src_lbits (enc : Z -> string) (interval : Z) (h : list (Z * Z)) : list bool :=
  map (fun o => match o with [] => false | _ => true end) (src_lrun enc (ll_init interval) h).

Theorem spec_log_source : forall (enc : Z -> string),
    (forall a b, enc a = enc b -> a = b) -> enc 0 = ""%string ->
    forall interval h, spec_log interval h (src_lbits enc interval h) = true.
Proof.
  intros enc Hinj H0 interval h. unfold src_lbits.
  destruct (tie_loglimiter enc Hinj H0 interval h) as [E _]. rewrite E. apply lrun_spec.
Qed.

(* a line handed to log.Print is the message itself, once *)
Theorem printed_unmodified_source : forall (enc : Z -> string),
    (forall a b, enc a = enc b -> a = b) -> enc 0 = ""%string ->
    forall interval h,
      Forall2 (fun o mt => o = [] \/ o = [enc (fst mt)]) (src_lrun enc (ll_init interval) h) h.
Proof. intros enc Hinj H0 interval h. exact (proj2 (tie_loglimiter enc Hinj H0 interval h)). Qed.
