(* Constants and wiring expressions read from the Go sources on every run (coq/Extracted.v) agree
   with what the models assume: if one changes in the code, the equality below stops compiling and
   every property that imports this file is reported. (motion detector: C07, C08, C09, C15) *)
From Coq Require Import ZArith List String.
From TR Require Import Extracted model.Detector.
Import ListNotations.
Open Scope Z_scope.

Lemma ffc_period_agrees : FFC_PERIOD = ffc_period_ns.
Proof. reflexivity. Qed.

Lemma weight_increment_agrees : weight_increment = "0.1"%string.
Proof. reflexivity. Qed.

(* the detector's preview-frame argument as NewMotionProcessor passes it *)
Lemma detector_wiring_agrees :
  wiring_motionDetector = "NewMotionDetector(*motionConf, recorderConf.PreviewSecs*c.FPS(), c)"%string.
Proof. reflexivity. Qed.
