(* Constants and wiring expressions read from the Go sources on every run (coq/Extracted.v) agree
   with what the models assume: if one changes in the code, the equality below stops compiling and
   every property that imports this file is reported. (throttle: C05, C06) *)
From Coq Require Import ZArith List String.
From TR Require Import Extracted model.Throttle.
Import ListNotations.
Open Scope Z_scope.

(* the throttle's minimum recording length - which is also its refill amount per min-refill - as
   wired in cmd/thermal-recorder/main.go *)
Lemma throttle_wiring_agrees :
  wiring_min_recording_length = "conf.Recorder.MinSecs + conf.Recorder.PreviewSecs"%string.
Proof. reflexivity. Qed.

(* the modelled version of github.com/juju/ratelimit *)
Lemma ratelimit_version_agrees : dep_ratelimit = "v1.0.1"%string.
Proof. reflexivity. Qed.
