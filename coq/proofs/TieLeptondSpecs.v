(* Source tie for the camera daemon's sending side, part 1: the symbolic-execution machinery over
   model/LeptondExt.v and sendCameraSpecs (cmd/leptond/main.go; coq/translated/Leptond.v is regenerated from
   the Go source on every run by translate/sender.go).  Part 2 - runCamera, the restart loop, the whole sender
   and the round trip to the translated receiver - is proofs/TieLeptond.v.

     tie_sendCameraSpecs   for every configuration whose integers are Go integers ([scfg_ok]: below 2^64, so
                           that an interface{} value of the map literal is an int or a string token without
                           ambiguity), every world in which the camera is open and the connection is the
                           connection: the map literal is [sender_specs] - the keys are the string constants
                           of headers/headers.go, the serial is 0 and the firmware "0.0.0" when GetSerial /
                           GetSoftwareVersion fail, WHATEVER they hand back - and is encoded once;
                           GetModel / yaml.Marshal failing: that error, nothing written; the text's Write
                           failing: that error, nothing more written; else the text, then "\n" (the error
                           of that Write is ignored by the code), nil.
   No axioms. *)
From Coq Require Import String List ZArith Bool Arith Lia.
From TR Require Import model.GoSem model.Socket model.ConnExt model.HdrExt translated.Leptond model.LeptondExt.
From TR Require Import proofs.SocketProofs proofs.TieConn.
Import ListNotations.
Open Scope Z_scope.

(* ---------- symbolic execution of the translated code against sext ---------- *)
Definition spost {A} (m : outcome sworld A) (Q : A -> sworld -> Prop) : Prop :=
  match m with Ok a w => Q a w | Panicked _ => False end.

Lemma spost_call : forall cfg A n a (k : Z -> M sworld A) w r w' Q,
  sext cfg n a w = (r, w') -> spost (k r w') Q -> spost (bind (call_ext (sext cfg) n a) k w) Q.
Proof. intros cfg A n a k w r w' Q H1 H2. unfold bind, call_ext. rewrite H1. exact H2. Qed.
Lemma spost_bind : forall A B (m : M sworld A) (k : A -> M sworld B) w Q,
  spost (m w) (fun a w1 => spost (k a w1) Q) -> spost (bind m k w) Q.
Proof. intros A B m k w Q H. unfold bind. destruct (m w); [exact H|contradiction]. Qed.
Lemma spost_mono : forall A (m : outcome sworld A) (Q1 Q2 : A -> sworld -> Prop),
  spost m Q1 -> (forall a w, Q1 a w -> Q2 a w) -> spost m Q2.
Proof. intros A m Q1 Q2 H HQ. destruct m; [apply HQ; exact H|contradiction]. Qed.
Lemma spost_ret : forall A (a : A) w (Q : A -> sworld -> Prop), Q a w -> spost (ret a w) Q.
Proof. intros; assumption. Qed.
Lemma sbind_ret : forall A B (a : A) (k : A -> M sworld B) w, bind (ret a) k w = k a w.
Proof. reflexivity. Qed.
Lemma sbind_bind : forall A B C (m : M sworld A) (f : A -> M sworld B) (k : B -> M sworld C) w,
  bind (bind m f) k w = bind m (fun x => bind (f x) k) w.
Proof. intros. unfold bind. destruct (m w); reflexivity. Qed.

Ltac sext_unfold :=
  match goal with
  | |- context [sext ?c ?n ?a ?w] =>
    let e := eval cbv [sext String.eqb Ascii.eqb Bool.eqb] in (sext c n a w) in
    change (sext c n a w) with e
  end.

Ltac swsimp :=
  cbv beta iota zeta delta [fst snd sw_cam sw_flag sw_power sw_start sw_wf sw_out sw_frame sw_frametok sw_open sw_conn
       sw_nobj sw_pending sw_vals sw_log sset_cam sset_flag sset_power sset_start sset_write sset_buf sset_open
       sset_pending sset_vals slog svalloc];
  cbn [andb orb negb bool_to_z].

Ltac stokcmp :=
  repeat match goal with
  | |- context [?a =? ?b] =>
    first [ replace (a =? b) with true by (symmetry; apply Z.eqb_eq; lia)
          | replace (a =? b) with false by (symmetry; apply Z.eqb_neq; lia) ]
  | |- context [?a <=? ?b] =>
    first [ replace (a <=? b) with true by (symmetry; apply Z.leb_le; lia)
          | replace (a <=? b) with false by (symmetry; apply Z.leb_gt; lia) ]
  | |- context [?a <? ?b] =>
    first [ replace (a <? b) with true by (symmetry; apply Z.ltb_lt; lia)
          | replace (a <? b) with false by (symmetry; apply Z.ltb_ge; lia) ]
  end.

Lemma view_all : forall b, view_bytes b 0 (Z.of_nat (List.length b)) = b.
Proof.
  intros b. unfold view_bytes. cbn [Z.to_nat skipn]. rewrite Z.sub_0_r, Nat2Z.id. apply firstn_all.
Qed.

Ltac shyprw :=
  match goal with
  | H : tget ?d ?l ?t = _ |- context [tget ?d ?l ?t] => rewrite H
  | H : s_encode ?c ?t = _ |- context [s_encode ?c ?t'] => change (s_encode c t') with (s_encode c t); rewrite H
  | H : s_serial ?c = _ |- context [s_serial ?c] => rewrite H
  | H : s_rev ?c = _ |- context [s_rev ?c] => rewrite H
  | H : s_model ?c = _ |- context [s_model ?c] => rewrite H
  end.

Ltac snorm1 :=
  first [ progress (rewrite ?tlen_snoc, ?tget_snoc) | shyprw | rewrite view_all ].
Ltac snorm := repeat (first [snorm1 | progress swsimp | progress unfold blen, z_to_bool]); stokcmp; swsimp.

Ltac shandlers :=
  cbv [sdo_nextframe sdo_slice write_data sdo_write sdo_cam_int sdo_serial sdo_version sdo_model sdo_field sdo_sprintf
       map_pairs sdo_map sdo_marshal sdo_newframe sdo_close sdo_power sdo_startcamera sdo_readflag sbad arg_z nfe_arg ival
       svget svnext String.eqb Ascii.eqb Bool.eqb].

Ltac sext_solve := sext_unfold; shandlers; snorm; repeat (progress snorm); reflexivity.

Ltac shead_let :=
  lazymatch goal with
  | |- spost ?lhs ?Q =>
    lazymatch lhs with
    | (let x := ?v in @?b x) ?w => change (spost (b v w) Q); cbv beta
    end
  end.
Ltac scif_body :=
  unfold z_to_bool; cbn [negb andb orb bool_to_z];
  unfold SERR_CAM, SERR_WRITE, SERR_POWER, SERR_START, SERR_MODEL, SERR_YAML, SERR_INFO, SERR_OTHER, NFE;
  stokcmp; cbn [negb andb orb bool_to_z]; stokcmp; cbn [negb andb orb]; cbv iota.
Ltac scif :=
  lazymatch goal with
  | |- spost ((if _ then _ else _) _) _ => scif_body
  | |- spost (bind (if _ then _ else _) _ _) _ => scif_body
  end.

Ltac sstep :=
  first [ shead_let
        | lazymatch goal with |- spost (bind (bind _ _) _ _) _ => rewrite sbind_bind end
        | lazymatch goal with |- spost (bind (ret _) _ _) _ => rewrite sbind_ret end
        | eapply spost_call; [ sext_solve | cbv beta; swsimp ] ].
Ltac ssteps := repeat (first [sstep | progress scif]).

(* ---------- what is asked of a configuration: its integers are Go integers ---------- *)
Record scfg_ok (cfg : scfg) : Prop := mkSOK {
  so_resx : s_resx cfg < TOKB;
  so_resy : s_resy cfg < TOKB;
  so_fps : s_fps cfg < TOKB;
  so_fs : Z.of_nat (s_fs cfg) < TOKB;
  so_serial : forall z, s_serial cfg = Some z -> z < TOKB
}.

(* w' is w but for the value table, the pending result, and what is listed *)
Definition sstatic (w w' : sworld) : Prop :=
  sw_power w' = sw_power w /\ sw_start w' = sw_start w /\ sw_open w' = sw_open w /\ sw_conn w' = sw_conn w.

(* ---------- sendCameraSpecs ---------- *)
Definition nl_chunk (wf : list wres) : bytes := match wf with WFail n :: _ => firstn n [NL] | _ => [NL] end.

Theorem tie_sendCameraSpecs : forall cfg c conn w,
  scfg_ok cfg -> sw_open w = c -> c <> 0 -> sw_conn w = conn -> conn <> 0 ->
  spost (Leptond_fn_sendCameraSpecs (sext cfg) c conn w) (fun r w' =>
    sstatic w w' /\ sw_cam w' = sw_cam w /\ sw_flag w' = sw_flag w /\ sw_log w' = sw_log w /\
    sw_nobj w' = sw_nobj w /\
    match s_model cfg with
    | None => r = SERR_MODEL /\ sw_out w' = sw_out w /\ sw_wf w' = sw_wf w
    | Some m =>
      match s_encode cfg (sender_specs cfg m) with
      | None => r = SERR_YAML /\ sw_out w' = sw_out w /\ sw_wf w' = sw_wf w
      | Some h =>
        match sw_wf w with
        | WFail n :: wf' => r = SERR_WRITE /\ sw_out w' = sw_out w ++ [firstn n h] /\ sw_wf w' = wf'
        | wf => r = 0 /\ sw_out w' = sw_out w ++ [h; nl_chunk (tl wf)] /\ sw_wf w' = tl (tl wf)
        end
      end
    end).
Proof.
  intros cfg c conn w [Hx Hy Hf Hs Hser] Ho Hc0 Hcn Hcn0.
  destruct w as [cam flag power start wf out fr ft op cn nobj pd vals lg].
  cbn [sw_open sw_conn sw_cam sw_flag sw_log sw_nobj sw_out sw_wf] in *. subst op cn.
  pose proof (tlen_pos _ vals) as Hvp.
  cbv beta delta [Leptond_fn_sendCameraSpecs].
  destruct (s_serial cfg) as [ser|] eqn:Eser; [pose proof (Hser _ eq_refl) as Hser1|];
  destruct (s_rev cfg) as [[[ra rb] rd]|] eqn:Erev;
  (destruct (s_model cfg) as [m|] eqn:Emod;
   [ destruct (s_encode cfg (sender_specs cfg m)) as [h|] eqn:Eenc; unfold sender_specs in Eenc; rewrite ?Eser, ?Erev in Eenc
   | ]).
  all: match goal with |- spost _ ?Q => set (QQ := Q) end.
  all: ssteps.
  all: try (destruct wf as [|[|n] wf1]; ssteps; try (destruct wf1 as [|[|n1] wf2]; ssteps)).
  all: apply spost_ret; subst QQ; cbv beta; unfold sstatic; swsimp.
  all: repeat split; try reflexivity; rewrite <- app_assoc; reflexivity.
Qed.
