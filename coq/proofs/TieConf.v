(* Source tie for the configuration mapping: motion/motionconfig.go (NewConfig, validateConfig),
   recorder/recorderconfig.go (NewConfig, RecorderConfig.validate), throttle/config.go (NewConfig) and
   cmd/thermal-recorder/config.go (ParseConfig, Config.LoadMotionConfig) as they are written.

   coq/translated/{ConfMotion,ConfRecorder,ConfThrottle,Config}.v are regenerated from the Go sources on every
   run (translate/conf.go: the structs of the go-config library are objects of the outside world, passed as tokens;
   x.F on such an object is "field:F"; recorder.NewConfig / throttle.NewConfig / motion.NewConfig called from
   package main are calls of the TRANSLATED functions).  model/ConfExt.v gives the calls that leave the translation
   their meaning: the file as a function section -> optional keys, the library's defaults as PARAMETERS ([clib];
   every theorem is for every [clib]), Unmarshal = override the struct with the keys present, a script of the files
   successive goconfig.New calls find and a fault script for sections that fail to decode.

   What is proved, for every world (any objects allocated before, any scripts), every directory token, every
   camera-model token:
     tie_validateConfig      motion.validateConfig is EMPTY: it returns nil and does nothing, whatever it is given
                             (no relation between temp-thresh-min and temp-thresh-max, no range is checked);
     tie_validate            RecorderConfig.validate: errors.New("max-secs should be larger than min-secs") exactly
                             when MaxSecs < MinSecs (equal is accepted), otherwise nil and no effect;
     tie_motion_NewConfig, tie_throttle_NewConfig, tie_recorder_NewConfig
                             the three constructors: defaults first (of THAT model for the motion section), then the
                             section's keys over them; the sections in source order; the first failing step's error
                             and the zero value ([recorder_outcome]);
     tie_ParseConfig         the whole of ParseConfig against [parse_outcome]: which of the eleven ways out is taken
                             (goconfig.New fails; one of the eight Unmarshal calls fails - in the order thermal-recorder,
                             location, windows, thermal-throttler, location, thermal-recorder, lepton, device;
                             window.New refuses; max-secs < min-secs; success), the error returned, the zero Config
                             on every error, and on success every field of Config ([config_vals]);
     tie_LoadMotionConfig    a fresh goconfig.New of c.ConfigDir; c.Motion is replaced exactly on success, by the
                             defaults of the GIVEN model overridden by the thermal-motion keys of the file AS IT IS
                             THEN; on either error c is returned unchanged;
     tie_Parse_then_Load     ParseConfig followed by LoadMotionConfig model: all fields at once;
     tie_Load_twice          a second LoadMotionConfig with another model: every motion field is the file's key or the
                             SECOND model's default - nothing of the first call survives.
   Side conditions: 0 < w_next (tokens are positive: 0 is nil) - the handler's, not the code's.  The Go code forces
   none.  No axioms. *)
From Coq Require Import String List ZArith Bool Arith Lia.
From TR Require Import model.GoSem translated.ConfMotion translated.ConfRecorder translated.ConfThrottle translated.Config model.ConfExt.
Import ListNotations.
Open Scope string_scope.
Open Scope list_scope.
Open Scope Z_scope.

(* ---------- symbolic execution of the translated code against cext ---------- *)
Definition cpost {A} (m : outcome cworld A) (Q : A -> cworld -> Prop) : Prop :=
  match m with Ok a w => Q a w | Panicked _ => False end.

Lemma cpost_call : forall L A n a (k : Z -> M cworld A) w r w' Q,
  cext L n a w = (r, w') -> cpost (k r w') Q -> cpost (bind (call_ext (cext L) n a) k w) Q.
Proof. intros L A n a k w r w' Q H1 H2. unfold bind, call_ext. rewrite H1. exact H2. Qed.
Lemma cpost_bind : forall A B (m : M cworld A) (k : A -> M cworld B) w Q,
  cpost (m w) (fun a w1 => cpost (k a w1) Q) -> cpost (bind m k w) Q.
Proof. intros A B m k w Q H. unfold bind. destruct (m w); [exact H|contradiction]. Qed.
Lemma cpost_mono : forall A (m : outcome cworld A) (Q1 Q2 : A -> cworld -> Prop),
  cpost m Q1 -> (forall a w, Q1 a w -> Q2 a w) -> cpost m Q2.
Proof. intros A m Q1 Q2 H HQ. destruct m; [apply HQ; exact H|contradiction]. Qed.
Lemma cpost_ret : forall A (a : A) w (Q : A -> cworld -> Prop), Q a w -> cpost (ret a w) Q.
Proof. intros; assumption. Qed.
Lemma cbind_ret : forall A B (a : A) (k : A -> M cworld B) w, bind (ret a) k w = k a w.
Proof. reflexivity. Qed.
Lemma cbind_bind : forall A B C (m : M cworld A) (f : A -> M cworld B) (k : B -> M cworld C) w,
  bind (bind m f) k w = bind m (fun x => bind (f x) k) w.
Proof. intros. unfold bind. destruct (m w); reflexivity. Qed.

Lemma sect_code : forall s, sect_of_code (key_code s) = Some s.
Proof. destruct s; reflexivity. Qed.
Lemma new_err_nz : forall e, new_err e <> 0.
Proof. intros e. unfold new_err, ERR_NOFILE. destruct (Z.eqb_spec e 0); lia. Qed.

(* the meaning of one call: the name is decided by computation, the handler's branch is exposed *)
Ltac cext_unfold :=
  match goal with
  | |- context [cext ?L ?n ?a ?w] =>
    let e := eval cbv [cext lib libref lib2 field_name String.eqb Ascii.eqb Bool.eqb String.append String.prefix
                       String.substring String.length Nat.sub orb andb] in (cext L n a w) in
    change (cext L n a w) with e
  end.

Ltac chandlers :=
  cbv [do_new do_default do_default_motion do_unmarshal do_field do_window do_lit do_errnew
       logev set_pending set_reads set_faults alloc hset w_reads w_faults w_next w_heap w_pending w_log sect_eqb].

(* comparisons of tokens *)
Ltac tokcmp :=
  repeat match goal with
  | |- context [?a =? ?b] =>
    first [ replace (a =? b) with true by (symmetry; apply Z.eqb_eq; lia)
          | replace (a =? b) with false by (symmetry; apply Z.eqb_neq; lia) ]
  end.

Ltac hyp_rw :=
  match goal with
  | H : (?a =? ?b) = _ |- context [?a =? ?b] => rewrite H
  | H : (?a <? ?b) = _ |- context [?a <? ?b] => rewrite H
  | H : ?h ?t = OConf _ |- context [?h ?t] => rewrite H
  | H : ?h ?t = OSect _ _ |- context [?h ?t] => rewrite H
  end.

Ltac cnorm := repeat (first [ hyp_rw | rewrite sect_code | progress tokcmp | progress cbv beta iota zeta ]).

Ltac cext_solve := cext_unfold; chandlers; cnorm; reflexivity.

Ltac cond_solve := repeat hyp_rw; tokcmp; reflexivity.

Ltac cdecide c :=
  first [ replace c with true by (symmetry; cond_solve) | replace c with false by (symmetry; cond_solve) ]; cbv iota.

Ltac crecproj :=
  cbn [RecorderConfig_MinSecs RecorderConfig_MaxSecs RecorderConfig_PreviewSecs RecorderConfig_Window RecorderConfig_ConstantRecorder].

(* one step: reassociate, decide a condition from the hypotheses, split on the verdict of the next
   scripted / parametric answer (a decode fault, window.New, max-secs < min-secs), or run one call *)
(* a comparison written the other way round (a > b, a >= b, a <= b) is brought to the form a < b *)
Ltac cmpnorm := progress (rewrite ?Z.gtb_ltb, ?Z.geb_leb, ?Z.leb_antisym, ?Bool.negb_involutive).

Ltac cstep :=
  first [ lazymatch goal with |- cpost (bind (bind _ _) _ _) _ => rewrite cbind_bind end
        | lazymatch goal with |- cpost (bind (ret _) _ _) _ => rewrite cbind_ret; cbv beta iota; crecproj end
        | lazymatch goal with
          | |- cpost (bind (if _ then _ else _) _ _) _ => cmpnorm
          | |- cpost ((if _ then _ else _) _) _ => cmpnorm
          end
        | lazymatch goal with |- cpost (bind (if ?c then _ else _) _ _) _ => cdecide c end
        | lazymatch goal with |- cpost ((if ?c then _ else _) _) _ => cdecide c end
        | lazymatch goal with
          | |- cpost (bind (if (?a <? ?b) then _ else _) _ _) _ => let E := fresh "E" in destruct (a <? b) eqn:E
          | |- cpost ((if (?a <? ?b) then _ else _) _) _ => let E := fresh "E" in destruct (a <? b) eqn:E
          | |- cpost (bind (if negb (?a <? ?b) then _ else _) _ _) _ => let E := fresh "E" in destruct (a <? b) eqn:E
          | |- cpost ((if negb (?a <? ?b) then _ else _) _) _ => let E := fresh "E" in destruct (a <? b) eqn:E
          end
        | lazymatch goal with
          | |- cpost (bind (call_ext _ "obj.Unmarshal"%string _) _ (mkW _ ?F _ _ _ _)) _ =>
            lazymatch goal with
            | H : (hd 0 F =? 0) = _ |- _ => fail
            | _ => let E := fresh "E" in destruct (hd 0 F =? 0) eqn:E
            end
          | |- cpost (bind (call_ext (cext ?L0) "window.New"%string [AInt ?s; AInt ?e; AInt ?la; AInt ?lo]) _ _) _ =>
            lazymatch goal with
            | H : (win_err L0 s e la lo =? 0) = _ |- _ => fail
            | _ => let E := fresh "E" in destruct (win_err L0 s e la lo =? 0) eqn:E
            end
          end
        | eapply cpost_call; [ cext_solve | cbv beta; crecproj ] ].
Ltac csteps := repeat cstep.

Ltac cleaf :=
  repeat (first [ split | eexists | reflexivity | lia | apply new_err_nz
                | match goal with H : (?a =? 0) = false |- ?a <> 0 => apply Z.eqb_neq; exact H end
                | progress intros | progress cnorm ]).

Section Tie.
Variable L : clib.

(* ---------- the two validations ---------- *)
(* validateConfig does nothing *)
Theorem tie_validateConfig : forall W (ext : string -> list arg -> W -> Z * W) t w,
  ConfMotion_fn_validateConfig ext t w = Ok 0 w.
Proof. reflexivity. Qed.

Definition MAX_LT_MIN : string := "max-secs should be larger than min-secs".

Theorem tie_validate : forall rc w,
  cpost (RecorderConfig_validate (cext L) rc w) (fun r w' =>
    fst r = rc /\
    if RecorderConfig_MaxSecs rc <? RecorderConfig_MinSecs rc
    then snd r = w_next w + 1 /\ w_heap w' (snd r) = OErr (w_next w) /\ w_heap w' (w_next w) = OStr MAX_LT_MIN /\
         w_next w' = w_next w + 2 /\ (forall t, t < w_next w -> w_heap w' t = w_heap w t) /\
         w_reads w' = w_reads w /\ w_faults w' = w_faults w /\ w_log w' = w_log w
    else snd r = 0 /\ w' = w).
Proof.
  intros rc w. destruct w as [reads faults n heap pend log].
  unfold RecorderConfig_validate. destruct (RecorderConfig_MaxSecs rc <? RecorderConfig_MinSecs rc) eqn:E;
    csteps; apply cpost_ret; cbn [fst snd w_next w_heap w_reads w_faults w_log]; cleaf.
Qed.

(* ---------- the values a file yields, per section: the key when present, the library's default otherwise ---------- *)
Definition rec_vals (f : cfile) : fields := override (d_recorder L) (f SRecorder).
Definition winloc_vals (f : cfile) : fields := override (d_winloc L) (f SLocation).      (* the window's location *)
Definition windows_vals (f : cfile) : fields := override (d_windows L) (f SWindows).
Definition throttler_vals (f : cfile) : fields := override (d_throttler L) (f SThrottler).
Definition location_vals (f : cfile) : fields := override zero_fields (f SLocation).     (* the header's location *)
Definition lepton_vals (f : cfile) : fields := override (d_lepton L) (f SLepton).
Definition device_vals (f : cfile) : fields := override zero_fields (f SDevice).
Definition motion_vals (model : Z) (f : cfile) : fields := override (d_motion L model) (f SMotion).

Definition window_err (f : cfile) : Z :=
  win_err L (windows_vals f "StartRecording") (windows_vals f "StopRecording")
            (winloc_vals f "Latitude") (winloc_vals f "Longitude").

(* the k-th coming entry of the fault script (exhausted: 0) *)
Definition fault_at (k : nat) (fs : list Z) : Z := hd 0 (Nat.iter k (@tl Z) fs).

(* what happened since w: events appended to the log, old objects untouched *)
Definition extends (w w' : cworld) (evs : list cev) : Prop :=
  w_log w' = w_log w ++ evs /\ w_next w <= w_next w' /\ (forall t, t < w_next w -> w_heap w' t = w_heap w t).

(* the ways out *)
Inductive poutcome :=
| PNewErr (e : Z)              (* goconfig.New failed with e *)
| PDecodeErr (k : nat) (e : Z) (* the k-th Unmarshal call (from 0) failed with e *)
| PWindowErr (e : Z)           (* window.New refused start / stop / location *)
| PMaxLtMin                    (* max-secs < min-secs *)
| POk.

Definition recorder_order : list sect := [SRecorder; SLocation; SWindows].
Definition parse_order : list sect := recorder_order ++ [SThrottler; SLocation; SRecorder; SLepton; SDevice].

Definition recorder_outcome (f : cfile) (fs : list Z) : poutcome :=
  if fault_at 0 fs =? 0 then
    if fault_at 1 fs =? 0 then
      if fault_at 2 fs =? 0 then
        if window_err f =? 0 then
          if rec_vals f "MaxSecs" <? rec_vals f "MinSecs" then PMaxLtMin else POk
        else PWindowErr (window_err f)
      else PDecodeErr 2 (fault_at 2 fs)
    else PDecodeErr 1 (fault_at 1 fs)
  else PDecodeErr 0 (fault_at 0 fs).

Definition parse_outcome (rd : list (Z + cfile)) (fs : list Z) : poutcome :=
  match rd with
  | [] => PNewErr ERR_NOFILE
  | inl e :: _ => PNewErr (new_err e)
  | inr f :: _ =>
    match recorder_outcome f fs with
    | POk =>
      if fault_at 3 fs =? 0 then
        if fault_at 4 fs =? 0 then
          if fault_at 5 fs =? 0 then
            if fault_at 6 fs =? 0 then
              if fault_at 7 fs =? 0 then POk else PDecodeErr 7 (fault_at 7 fs)
            else PDecodeErr 6 (fault_at 6 fs)
          else PDecodeErr 5 (fault_at 5 fs)
        else PDecodeErr 4 (fault_at 4 fs)
      else PDecodeErr 3 (fault_at 3 fs)
    | o => o
    end
  end.

Definition load_outcome (rd : list (Z + cfile)) (fs : list Z) : poutcome :=
  match rd with
  | [] => PNewErr ERR_NOFILE
  | inl e :: _ => PNewErr (new_err e)
  | inr f :: _ => if fault_at 0 fs =? 0 then POk else PDecodeErr 0 (fault_at 0 fs)
  end.

Ltac spec_reduce :=
  cbv [parse_outcome recorder_outcome load_outcome fault_at window_err rec_vals winloc_vals windows_vals
       throttler_vals location_vals lepton_vals device_vals motion_vals ERR_NOFILE];
  cbn [Nat.iter]; repeat hyp_rw; cbv beta iota.

(* a leaf: the function returns; the log is what was appended, the rest by computation *)
Ltac cproj :=
  cbn [fst snd w_next w_heap w_reads w_faults w_log
       RecorderConfig_MinSecs RecorderConfig_MaxSecs RecorderConfig_PreviewSecs RecorderConfig_Window RecorderConfig_ConstantRecorder
       Config_ConfigDir Config_DeviceID Config_DeviceName Config_FrameInput Config_OutputDir Config_MinDiskSpace Config_Recorder
       Config_Motion Config_Throttler Config_Location Config_Verbose].
Ltac cfinish :=
  apply cpost_ret; cproj;
  eexists; split;
  [ unfold extends; cbn [w_log w_next w_heap]; split; [ rewrite <- ?app_assoc; reflexivity | cleaf ]
  | spec_reduce; cleaf ].

(* ---------- motion.NewConfig ---------- *)
Theorem tie_motion_NewConfig : forall conf model f w,
  w_heap w conf = OConf f -> conf < w_next w ->
  cpost (ConfMotion_fn_NewConfig (cext L) conf model w) (fun r w' =>
    let e := fault_at 0 (w_faults w) in
    extends w w' [EUnmarshal conf SMotion (w_next w) e] /\
    w_reads w' = w_reads w /\ w_faults w' = tl (w_faults w) /\ w_next w' = w_next w + 1 /\
    if e =? 0
    then r = (w_next w, 0) /\ w_heap w' (w_next w) = OSect SMotion (motion_vals model f)
    else r = (0, e)).
Proof.
  intros conf model f w Hc Hlt. destruct w as [reads faults n heap pend log].
  cbn [w_heap w_next w_faults w_reads] in *. unfold ConfMotion_fn_NewConfig, ConfMotion_fn_validateConfig, fault_at, extends.
  cbv zeta. cbn [Nat.iter].
  csteps; apply cpost_ret; cbn [fst snd w_next w_heap w_reads w_faults w_log]; cleaf.
Qed.

(* ---------- throttle.NewConfig ---------- *)
Theorem tie_throttle_NewConfig : forall conf f w,
  w_heap w conf = OConf f -> conf < w_next w ->
  cpost (ConfThrottle_fn_NewConfig (cext L) conf w) (fun r w' =>
    let e := fault_at 0 (w_faults w) in
    extends w w' [EUnmarshal conf SThrottler (w_next w) e] /\
    w_reads w' = w_reads w /\ w_faults w' = tl (w_faults w) /\ w_next w' = w_next w + 1 /\
    if e =? 0
    then r = (w_next w, 0) /\ w_heap w' (w_next w) = OSect SThrottler (throttler_vals f)
    else r = (0, e)).
Proof.
  intros conf f w Hc Hlt. destruct w as [reads faults n heap pend log].
  cbn [w_heap w_next w_faults w_reads] in *. unfold ConfThrottle_fn_NewConfig, fault_at, extends.
  cbv zeta. cbn [Nat.iter].
  csteps; apply cpost_ret; cbn [fst snd w_next w_heap w_reads w_faults w_log]; cleaf.
Qed.

(* ---------- recorder.NewConfig ---------- *)
(* the RecorderConfig a file yields: tokens of this call lie in [lo, w_next w') *)
Definition recorder_vals (f : cfile) (rc : RecorderConfig) (w' : cworld) : Prop :=
  RecorderConfig_MinSecs rc = rec_vals f "MinSecs" /\
  RecorderConfig_MaxSecs rc = rec_vals f "MaxSecs" /\
  RecorderConfig_PreviewSecs rc = rec_vals f "PreviewSecs" /\
  RecorderConfig_ConstantRecorder rc = z_to_bool (rec_vals f "ConstantRecorder") /\
  w_heap w' (RecorderConfig_Window rc) =
    OWindow (windows_vals f "StartRecording") (windows_vals f "StopRecording")
            (winloc_vals f "Latitude") (winloc_vals f "Longitude").

Theorem tie_recorder_NewConfig : forall conf f w,
  w_heap w conf = OConf f -> conf < w_next w -> 0 < w_next w ->
  cpost (ConfRecorder_fn_NewConfig (cext L) conf w) (fun r w' =>
    exists evs, extends w w' evs /\ bad_calls evs = [] /\ w_reads w' = w_reads w /\
    match recorder_outcome f (w_faults w) with
    | PDecodeErr k e => r = (ZERO_RC, e) /\ e <> 0 /\ sections_read evs = firstn (S k) recorder_order
    | PWindowErr e => r = (ZERO_RC, e) /\ e <> 0 /\ sections_read evs = recorder_order
    | PMaxLtMin => fst r = ZERO_RC /\ snd r <> 0 /\ sections_read evs = recorder_order /\
                   exists t, w_heap w' (snd r) = OErr t /\ w_heap w' t = OStr MAX_LT_MIN
    | POk => snd r = 0 /\ sections_read evs = recorder_order /\
             w_faults w' = Nat.iter 3 (@tl Z) (w_faults w) /\
             w_next w <= RecorderConfig_Window (fst r) < w_next w' /\ recorder_vals f (fst r) w'
    | PNewErr _ => False
    end).
Proof.
  intros conf f w Hc Hlt Hpos. destruct w as [reads faults n heap pend log].
  cbn [w_heap w_next w_faults w_reads] in *.
  unfold ConfRecorder_fn_NewConfig, RecorderConfig_validate. cbv zeta.
  csteps; unfold recorder_vals, ZERO_RC, MAX_LT_MIN; cfinish.
Qed.

(* ---------- ParseConfig ---------- *)
(* every field of Config but Motion *)
Definition config_vals (dir : Z) (f : cfile) (c : Config) (w' : cworld) : Prop :=
  Config_ConfigDir c = dir /\
  Config_DeviceID c = device_vals f "ID" /\
  Config_DeviceName c = device_vals f "Name" /\
  Config_FrameInput c = lepton_vals f "FrameOutput" /\
  Config_OutputDir c = rec_vals f "OutputDir" /\
  Config_MinDiskSpace c = wrap_u 64 (rec_vals f "MinDiskSpaceMB") /\
  recorder_vals f (Config_Recorder c) w' /\
  w_heap w' (Config_Throttler c) = OSect SThrottler (throttler_vals f) /\
  w_heap w' (Config_Location c) = OSect SLocation (location_vals f) /\
  Config_Verbose c = false.

(* the objects a Config refers to were allocated in [lo, hi) *)
Definition tokens_in (c : Config) (lo hi : Z) : Prop :=
  lo <= RecorderConfig_Window (Config_Recorder c) < hi /\
  lo <= Config_Throttler c < hi /\ lo <= Config_Location c < hi.

Theorem tie_ParseConfig : forall dir w, 0 < w_next w ->
  cpost (src_parse L dir w) (fun r w' =>
    exists evs, extends w w' evs /\ bad_calls evs = [] /\ w_reads w' = tl (w_reads w) /\
    (exists tok err, hd_error evs = Some (ENew dir tok err)) /\
    match parse_outcome (w_reads w) (w_faults w) with
    | PNewErr e => r = (ZERO_CONFIG, e) /\ e <> 0 /\ sections_read evs = []
    | PDecodeErr k e => r = (ZERO_CONFIG, e) /\ e <> 0 /\ sections_read evs = firstn (S k) parse_order
    | PWindowErr e => r = (ZERO_CONFIG, e) /\ e <> 0 /\ sections_read evs = recorder_order
    | PMaxLtMin => fst r = ZERO_CONFIG /\ snd r <> 0 /\ sections_read evs = recorder_order /\
                   exists t, w_heap w' (snd r) = OErr t /\ w_heap w' t = OStr MAX_LT_MIN
    | POk => snd r = 0 /\ sections_read evs = parse_order /\
             w_faults w' = Nat.iter 8 (@tl Z) (w_faults w) /\
             Config_Motion (fst r) = 0 /\ tokens_in (fst r) (w_next w) (w_next w') /\
             match w_reads w with inr f :: _ => config_vals dir f (fst r) w' | _ => False end
    end).
Proof.
  intros dir w Hpos. destruct w as [reads faults n heap pend log].
  cbn [w_heap w_next w_faults w_reads] in *.
  unfold src_parse, Config_fn_ParseConfig, ConfRecorder_fn_NewConfig, RecorderConfig_validate, ConfThrottle_fn_NewConfig.
  cbv zeta.
  destruct reads as [|[e|f] rest].
  - csteps. cfinish.
  - csteps. assert (N := new_err_nz e). apply Z.eqb_neq in N.
    csteps. cfinish.
  - csteps; unfold config_vals, tokens_in, recorder_vals, ZERO_CONFIG, ZERO_RC, MAX_LT_MIN; cfinish.
Qed.

(* ---------- LoadMotionConfig ---------- *)
Theorem tie_LoadMotionConfig : forall c model w, 0 < w_next w ->
  cpost (src_load L c model w) (fun r w' =>
    exists evs, extends w w' evs /\ bad_calls evs = [] /\ w_reads w' = tl (w_reads w) /\
    (exists tok err, hd_error evs = Some (ENew (Config_ConfigDir c) tok err)) /\
    match load_outcome (w_reads w) (w_faults w) with
    | PNewErr e => r = (c, e) /\ e <> 0 /\ sections_read evs = [] /\ w_faults w' = w_faults w
    | PDecodeErr _ e => r = (c, e) /\ e <> 0 /\ sections_read evs = [SMotion] /\ w_faults w' = tl (w_faults w)
    | POk => snd r = 0 /\ sections_read evs = [SMotion] /\ w_faults w' = tl (w_faults w) /\
             exists tok, fst r = Config_set_Motion tok c /\ w_next w <= tok < w_next w' /\
               match w_reads w with
               | inr f :: _ => w_heap w' tok = OSect SMotion (motion_vals model f)
               | _ => False
               end
    | _ => False
    end).
Proof.
  intros c model w Hpos. destruct w as [reads faults n heap pend log].
  cbn [w_heap w_next w_faults w_reads] in *.
  unfold src_load, Config_LoadMotionConfig, ConfMotion_fn_NewConfig, ConfMotion_fn_validateConfig.
  cbv zeta.
  destruct reads as [|[e|f] rest].
  - csteps. cfinish.
  - csteps. assert (N := new_err_nz e). apply Z.eqb_neq in N.
    csteps. cfinish.
  - csteps; cfinish.
Qed.

(* ---------- the statements unfolded ---------- *)
(* every key of the motion section at once: the file's key when present, the GIVEN model's default otherwise *)
Lemma motion_vals_eq : forall model f k,
  motion_vals model f k =
  match f SMotion with
  | Some p => match p k with Some v => v | None => d_motion L model k end
  | None => d_motion L model k
  end.
Proof. reflexivity. Qed.

Lemma recorder_outcome_ok : forall f fs,
  (forall k, (k < 3)%nat -> fault_at k fs = 0) -> window_err f = 0 -> rec_vals f "MinSecs" <= rec_vals f "MaxSecs" ->
  recorder_outcome f fs = POk.
Proof.
  intros f fs H Hw Hm. unfold recorder_outcome.
  rewrite (H 0%nat), (H 1%nat), (H 2%nat), Hw by lia. cbn [Z.eqb].
  destruct (Z.ltb_spec (rec_vals f "MaxSecs") (rec_vals f "MinSecs")); [lia|reflexivity].
Qed.

Lemma parse_outcome_ok : forall f rest fs,
  (forall k, (k < 8)%nat -> fault_at k fs = 0) -> window_err f = 0 -> rec_vals f "MinSecs" <= rec_vals f "MaxSecs" ->
  parse_outcome (inr f :: rest) fs = POk.
Proof.
  intros f rest fs H Hw Hm. unfold parse_outcome.
  rewrite recorder_outcome_ok by (try assumption; intros; apply H; lia).
  rewrite (H 3%nat), (H 4%nat), (H 5%nat), (H 6%nat), (H 7%nat) by lia. reflexivity.
Qed.

(* success: every field *)
Theorem tie_ParseConfig_ok : forall dir f rest w,
  0 < w_next w -> w_reads w = inr f :: rest ->
  (forall k, (k < 8)%nat -> fault_at k (w_faults w) = 0) ->
  window_err f = 0 -> rec_vals f "MinSecs" <= rec_vals f "MaxSecs" ->
  cpost (src_parse L dir w) (fun r w' =>
    snd r = 0 /\ config_vals dir f (fst r) w' /\ Config_Motion (fst r) = 0 /\
    tokens_in (fst r) (w_next w) (w_next w') /\ w_next w <= w_next w' /\
    (forall t, t < w_next w -> w_heap w' t = w_heap w t) /\
    w_reads w' = rest /\ w_faults w' = Nat.iter 8 (@tl Z) (w_faults w) /\
    exists evs, w_log w' = w_log w ++ evs /\ sections_read evs = parse_order /\ bad_calls evs = [] /\
                exists tok err, hd_error evs = Some (ENew dir tok err)).
Proof.
  intros dir f rest w Hpos Hr Hf Hw Hm.
  eapply cpost_mono; [apply tie_ParseConfig; assumption|].
  intros [c e] w' (evs & (Hlog & Hn & Hh) & Hb & Hrd & Hhd & Hm').
  rewrite Hr in Hm', Hrd. rewrite parse_outcome_ok in Hm' by assumption.
  destruct Hm' as (He & Hs & Hfl & Hmo & Htok & Hv). cbn [fst snd tl] in *.
  refine (conj He (conj Hv (conj Hmo (conj Htok (conj Hn (conj Hh (conj Hrd (conj Hfl _)))))))).
  exists evs. split; [exact Hlog|]. split; [exact Hs|]. split; [exact Hb|exact Hhd].
Qed.

(* goconfig.New fails: its error, no config, no section read *)
Theorem tie_ParseConfig_new_error : forall dir e rest w,
  0 < w_next w -> w_reads w = inl e :: rest ->
  cpost (src_parse L dir w) (fun r w' =>
    r = (ZERO_CONFIG, new_err e) /\ new_err e <> 0 /\
    exists evs, w_log w' = w_log w ++ evs /\ sections_read evs = [] /\ bad_calls evs = []).
Proof.
  intros dir e rest w Hpos Hr.
  eapply cpost_mono; [apply tie_ParseConfig; assumption|].
  intros r w' (evs & (Hlog & _) & Hb & _ & _ & Hm'). rewrite Hr in Hm'. cbn [parse_outcome] in Hm'.
  destruct Hm' as (H1 & H2 & H3). split; [exact H1|]. split; [exact H2|]. exists evs. auto.
Qed.

(* the first section that fails to decode decides: its error, no config, and exactly the sections up to it were read *)
Lemma parse_outcome_fault : forall f rest fs k e, (k < 8)%nat ->
  (forall j, (j < k)%nat -> fault_at j fs = 0) -> fault_at k fs = e -> e <> 0 ->
  ((3 <= k)%nat -> window_err f = 0 /\ rec_vals f "MinSecs" <= rec_vals f "MaxSecs") ->
  parse_outcome (inr f :: rest) fs = PDecodeErr k e.
Proof.
  intros f rest fs k e Hk Hz Hf He Hw. apply Z.eqb_neq in He.
  assert (R : (3 <= k)%nat -> recorder_outcome f fs = POk).
  { intros H3. destruct (Hw H3). apply recorder_outcome_ok; try assumption. intros j Hj. apply Hz. lia. }
  unfold parse_outcome.
  destruct k as [|[|[|[|[|[|[|[|k]]]]]]]]; try lia.
  all: try (rewrite R by lia).
  all: unfold recorder_outcome;
       rewrite ?(Hz 0%nat), ?(Hz 1%nat), ?(Hz 2%nat), ?(Hz 3%nat), ?(Hz 4%nat), ?(Hz 5%nat), ?(Hz 6%nat) by lia;
       rewrite Hf, He; reflexivity.
Qed.

Theorem tie_ParseConfig_first_fault : forall dir f rest w k e,
  0 < w_next w -> w_reads w = inr f :: rest -> (k < 8)%nat ->
  (forall j, (j < k)%nat -> fault_at j (w_faults w) = 0) -> fault_at k (w_faults w) = e -> e <> 0 ->
  ((3 <= k)%nat -> window_err f = 0 /\ rec_vals f "MinSecs" <= rec_vals f "MaxSecs") ->
  cpost (src_parse L dir w) (fun r w' =>
    r = (ZERO_CONFIG, e) /\
    exists evs, w_log w' = w_log w ++ evs /\ sections_read evs = firstn (S k) parse_order /\ bad_calls evs = []).
Proof.
  intros dir f rest w k e Hpos Hr Hk Hz Hf He Hw.
  eapply cpost_mono; [apply tie_ParseConfig; assumption|].
  intros r w' (evs & (Hlog & _) & Hb & _ & _ & Hm'). rewrite Hr in Hm'.
  rewrite (parse_outcome_fault f rest _ k e) in Hm' by assumption.
  destruct Hm' as (H1 & _ & H3). split; [exact H1|]. exists evs. auto.
Qed.

(* window.New refuses the window: its error, no config *)
Lemma parse_outcome_window : forall f rest fs,
  (forall k, (k < 3)%nat -> fault_at k fs = 0) -> window_err f <> 0 ->
  parse_outcome (inr f :: rest) fs = PWindowErr (window_err f).
Proof.
  intros f rest fs H Hw. apply Z.eqb_neq in Hw. unfold parse_outcome, recorder_outcome.
  rewrite (H 0%nat), (H 1%nat), (H 2%nat), Hw by lia. reflexivity.
Qed.

Theorem tie_ParseConfig_window_error : forall dir f rest w,
  0 < w_next w -> w_reads w = inr f :: rest ->
  (forall k, (k < 3)%nat -> fault_at k (w_faults w) = 0) -> window_err f <> 0 ->
  cpost (src_parse L dir w) (fun r w' =>
    r = (ZERO_CONFIG, window_err f) /\
    exists evs, w_log w' = w_log w ++ evs /\ sections_read evs = recorder_order /\ bad_calls evs = []).
Proof.
  intros dir f rest w Hpos Hr Hz Hw.
  eapply cpost_mono; [apply tie_ParseConfig; assumption|].
  intros r w' (evs & (Hlog & _) & Hb & _ & _ & Hm'). rewrite Hr in Hm'.
  rewrite parse_outcome_window in Hm' by assumption.
  destruct Hm' as (H1 & _ & H3). split; [exact H1|]. exists evs. auto.
Qed.

(* max-secs < min-secs: an error made by errors.New with that text, no config; thermal-throttler ... device are not read *)
Lemma parse_outcome_max_lt_min : forall f rest fs,
  (forall k, (k < 3)%nat -> fault_at k fs = 0) -> window_err f = 0 -> rec_vals f "MaxSecs" < rec_vals f "MinSecs" ->
  parse_outcome (inr f :: rest) fs = PMaxLtMin.
Proof.
  intros f rest fs H Hw Hm. apply Z.ltb_lt in Hm. unfold parse_outcome, recorder_outcome.
  rewrite (H 0%nat), (H 1%nat), (H 2%nat), Hw, Hm by lia. reflexivity.
Qed.

Theorem tie_ParseConfig_max_lt_min : forall dir f rest w,
  0 < w_next w -> w_reads w = inr f :: rest ->
  (forall k, (k < 3)%nat -> fault_at k (w_faults w) = 0) -> window_err f = 0 ->
  rec_vals f "MaxSecs" < rec_vals f "MinSecs" ->
  cpost (src_parse L dir w) (fun r w' =>
    fst r = ZERO_CONFIG /\ snd r <> 0 /\
    (exists t, w_heap w' (snd r) = OErr t /\ w_heap w' t = OStr MAX_LT_MIN) /\
    exists evs, w_log w' = w_log w ++ evs /\ sections_read evs = recorder_order /\ bad_calls evs = []).
Proof.
  intros dir f rest w Hpos Hr Hz Hw Hm.
  eapply cpost_mono; [apply tie_ParseConfig; assumption|].
  intros r w' (evs & (Hlog & _) & Hb & _ & _ & Hm'). rewrite Hr in Hm'.
  rewrite parse_outcome_max_lt_min in Hm' by assumption.
  destruct Hm' as (H1 & H2 & H3 & H4). split; [exact H1|]. split; [exact H2|]. split; [exact H4|]. exists evs. auto.
Qed.

(* LoadMotionConfig succeeds: only Motion changes, to the GIVEN model's defaults under the file's keys *)
Theorem tie_Load_ok : forall c model f rest w,
  0 < w_next w -> w_reads w = inr f :: rest -> fault_at 0 (w_faults w) = 0 ->
  cpost (src_load L c model w) (fun r w' =>
    snd r = 0 /\ fst r = Config_set_Motion (Config_Motion (fst r)) c /\
    w_next w <= Config_Motion (fst r) < w_next w' /\
    w_heap w' (Config_Motion (fst r)) = OSect SMotion (motion_vals model f) /\
    w_next w <= w_next w' /\ (forall t, t < w_next w -> w_heap w' t = w_heap w t) /\
    w_reads w' = rest /\ w_faults w' = tl (w_faults w) /\
    exists evs, w_log w' = w_log w ++ evs /\ sections_read evs = [SMotion] /\ bad_calls evs = [] /\
                exists tok err, hd_error evs = Some (ENew (Config_ConfigDir c) tok err)).
Proof.
  intros c model f rest w Hpos Hr Hf.
  eapply cpost_mono; [apply tie_LoadMotionConfig; assumption|].
  intros [c' e] w' (evs & (Hlog & Hn & Hh) & Hb & Hrd & Hhd & Hm').
  rewrite Hr in Hm', Hrd. unfold load_outcome in Hm'. rewrite Hf in Hm'. cbn [Z.eqb] in Hm'.
  destruct Hm' as (He & Hs & Hfl & tok & Hc & Ht & Hv). cbn [fst snd tl] in *.
  subst c'. cbn [Config_Motion Config_set_Motion].
  refine (conj He (conj eq_refl (conj Ht (conj Hv (conj Hn (conj Hh (conj Hrd (conj Hfl _)))))))).
  exists evs. split; [exact Hlog|]. split; [exact Hs|]. split; [exact Hb|exact Hhd].
Qed.

(* LoadMotionConfig fails (the file cannot be read, or its thermal-motion section does not decode):
   the error is returned and c - c.Motion included - is what it was *)
Theorem tie_Load_error : forall c model w,
  0 < w_next w -> load_outcome (w_reads w) (w_faults w) <> POk ->
  cpost (src_load L c model w) (fun r w' => fst r = c /\ snd r <> 0).
Proof.
  intros c model w Hpos Hne.
  eapply cpost_mono; [apply tie_LoadMotionConfig; assumption|].
  intros r w' (evs & _ & _ & _ & _ & Hm').
  destruct (load_outcome (w_reads w) (w_faults w)); try contradiction.
  - destruct Hm' as (-> & H & _). auto.
  - destruct Hm' as (-> & H & _). auto.
Qed.

(* objects allocated earlier are not touched by later calls: what a Config says stays true *)
Lemma config_vals_later : forall dir f c tok w1 w2 lo,
  config_vals dir f c w1 -> tokens_in c lo (w_next w1) ->
  (forall t, t < w_next w1 -> w_heap w2 t = w_heap w1 t) ->
  config_vals dir f (Config_set_Motion tok c) w2.
Proof.
  intros dir f c tok w1 w2 lo Hv Ht Hh. destruct c as [a1 a2 a3 a4 a5 a6 rc mo th loc vb].
  unfold config_vals, recorder_vals, tokens_in, Config_set_Motion in *.
  cbn [Config_ConfigDir Config_DeviceID Config_DeviceName Config_FrameInput Config_OutputDir Config_MinDiskSpace
       Config_Recorder Config_Motion Config_Throttler Config_Location Config_Verbose] in *.
  destruct Hv as (H1 & H2 & H3 & H4 & H5 & H6 & (R1 & R2 & R3 & R4 & R5) & H8 & H9 & H10).
  destruct Ht as (T1 & T2 & T3).
  rewrite !Hh by lia. repeat split; assumption.
Qed.

(* ParseConfig, then LoadMotionConfig model (what main and handleConn do for the first connection): every field.
   f1 is the file as ParseConfig read it, f2 as LoadMotionConfig read it. *)
Theorem tie_Parse_then_Load : forall dir model f1 f2 rest w,
  0 < w_next w -> w_reads w = inr f1 :: inr f2 :: rest ->
  (forall k, (k < 9)%nat -> fault_at k (w_faults w) = 0) ->
  window_err f1 = 0 -> rec_vals f1 "MinSecs" <= rec_vals f1 "MaxSecs" ->
  cpost (bind (src_parse L dir) (fun r => src_load L (fst r) model) w) (fun r w' =>
    snd r = 0 /\ config_vals dir f1 (fst r) w' /\
    w_heap w' (Config_Motion (fst r)) = OSect SMotion (motion_vals model f2)).
Proof.
  intros dir model f1 f2 rest w Hpos Hr Hf Hw Hm.
  apply cpost_bind. eapply cpost_mono.
  { apply (tie_ParseConfig_ok dir f1 (inr f2 :: rest)); try assumption. intros k Hk. apply Hf. lia. }
  intros [c e] w1 (He & Hv & Hmo & Htok & Hn & Hh & Hrd & Hfl & _). cbn [fst snd] in *.
  eapply cpost_mono.
  { apply (tie_Load_ok c model f2 rest); [lia|exact Hrd|]. rewrite Hfl. exact (Hf 8%nat ltac:(lia)). }
  intros [c2 e2] w2 (He2 & Hc2 & Ht2 & Hv2 & Hn2 & Hh2 & _). cbn [fst snd] in *.
  split; [exact He2|]. split; [|exact Hv2].
  rewrite Hc2. eapply config_vals_later; eassumption.
Qed.

(* ... and when that LoadMotionConfig fails (handleConn does not look at its result): the Config keeps the zero
   motion section ParseConfig left *)
Theorem tie_Parse_then_failed_Load : forall dir model f1 rest w,
  0 < w_next w -> w_reads w = inr f1 :: rest ->
  (forall k, (k < 8)%nat -> fault_at k (w_faults w) = 0) ->
  window_err f1 = 0 -> rec_vals f1 "MinSecs" <= rec_vals f1 "MaxSecs" ->
  load_outcome rest (Nat.iter 8 (@tl Z) (w_faults w)) <> POk ->
  cpost (bind (src_parse L dir) (fun r => src_load L (fst r) model) w) (fun r w' =>
    snd r <> 0 /\ Config_Motion (fst r) = 0).
Proof.
  intros dir model f1 rest w Hpos Hr Hf Hw Hm Hl.
  apply cpost_bind. eapply cpost_mono.
  { apply (tie_ParseConfig_ok dir f1 rest); assumption. }
  intros [c e] w1 (He & Hv & Hmo & Htok & Hn & Hh & Hrd & Hfl & _). cbn [fst snd] in *.
  eapply cpost_mono.
  { apply (tie_Load_error c model); [lia|]. rewrite Hrd, Hfl. exact Hl. }
  intros [c2 e2] w2 (Hc & He2). cbn [fst snd] in *. subst c2. auto.
Qed.

(* a second LoadMotionConfig, with another model (a camera that reconnects as another model): every motion field
   is the key of the file as it is THEN, or the SECOND model's default; nothing else of c changes *)
Theorem tie_Load_twice : forall c m1 m2 f1 f2 rest w,
  0 < w_next w -> w_reads w = inr f1 :: inr f2 :: rest ->
  fault_at 0 (w_faults w) = 0 -> fault_at 1 (w_faults w) = 0 ->
  cpost (bind (src_load L c m1) (fun r => src_load L (fst r) m2) w) (fun r w' =>
    snd r = 0 /\ fst r = Config_set_Motion (Config_Motion (fst r)) c /\
    w_heap w' (Config_Motion (fst r)) = OSect SMotion (motion_vals m2 f2) /\
    forall k, field_of w' (Config_Motion (fst r)) k =
              match f2 SMotion with
              | Some p => match p k with Some v => v | None => d_motion L m2 k end
              | None => d_motion L m2 k
              end).
Proof.
  intros c m1 m2 f1 f2 rest w Hpos Hr H0 H1.
  apply cpost_bind. eapply cpost_mono.
  { apply (tie_Load_ok c m1 f1 (inr f2 :: rest)); assumption. }
  intros [c1 e1] w1 (He & Hc & Ht & Hv & Hn & Hh & Hrd & Hfl & _). cbn [fst snd] in *.
  eapply cpost_mono.
  { apply (tie_Load_ok c1 m2 f2 rest); [lia|exact Hrd|]. rewrite Hfl. exact H1. }
  intros [c2 e2] w2 (He2 & Hc2 & Ht2 & Hv2 & _). cbn [fst snd] in *.
  split; [exact He2|]. split; [|split; [exact Hv2|]].
  - rewrite Hc2 at 1. rewrite Hc. destruct c; reflexivity.
  - intros k. unfold field_of. rewrite Hv2. reflexivity.
Qed.

(* ... and when the second one fails: the FIRST model's motion section stays *)
Theorem tie_Load_then_failed_Load : forall c m1 m2 f1 rest w,
  0 < w_next w -> w_reads w = inr f1 :: rest -> fault_at 0 (w_faults w) = 0 ->
  load_outcome rest (tl (w_faults w)) <> POk ->
  cpost (bind (src_load L c m1) (fun r => src_load L (fst r) m2) w) (fun r w' =>
    snd r <> 0 /\ w_heap w' (Config_Motion (fst r)) = OSect SMotion (motion_vals m1 f1)).
Proof.
  intros c m1 m2 f1 rest w Hpos Hr H0 Hl.
  apply cpost_bind. eapply cpost_mono.
  { apply (tie_Load_ok c m1 f1 rest); assumption. }
  intros [c1 e1] w1 (He & Hc & Ht & Hv & Hn & Hh & Hrd & Hfl & _). cbn [fst snd] in *.
  pose proof (tie_LoadMotionConfig c1 m2 w1 ltac:(lia)) as P.
  unfold cpost in *. destruct (src_load L c1 m2 w1) as [[c2 e2] w2|]; [|contradiction].
  destruct P as (evs & (_ & _ & Hh2) & _ & _ & _ & Hm'). rewrite Hrd, Hfl in Hm'. cbn [fst snd].
  destruct (load_outcome rest (tl (w_faults w))); try contradiction.
  - destruct Hm' as (E & N & _). inversion E; subst. split; [exact N|]. rewrite Hh2 by lia. exact Hv.
  - destruct Hm' as (E & N & _). inversion E; subst. split; [exact N|]. rewrite Hh2 by lia. exact Hv.
Qed.

(* ---------- the definitions spelled out ---------- *)
(* the value of a key: the file's when the section and the key are present, the default otherwise *)
Lemma override_eq : forall (d : fields) (s : option fkeys) k,
  override d s k = match s with
                   | Some p => match p k with Some v => v | None => d k end
                   | None => d k
                   end.
Proof. reflexivity. Qed.

(* what [config_vals] says, field by field: the defaults are the library's for thermal-recorder, thermal-throttler,
   windows, lepton; ZERO for device and for the location kept in Config.Location; the library's window location
   (not zero) for the location handed to window.New *)
Lemma config_vals_fields : forall dir f c w',
  config_vals dir f c w' <->
  Config_ConfigDir c = dir /\
  Config_DeviceID c = override zero_fields (f SDevice) "ID" /\
  Config_DeviceName c = override zero_fields (f SDevice) "Name" /\
  Config_FrameInput c = override (d_lepton L) (f SLepton) "FrameOutput" /\
  Config_OutputDir c = override (d_recorder L) (f SRecorder) "OutputDir" /\
  Config_MinDiskSpace c = wrap_u 64 (override (d_recorder L) (f SRecorder) "MinDiskSpaceMB") /\
  (RecorderConfig_MinSecs (Config_Recorder c) = override (d_recorder L) (f SRecorder) "MinSecs" /\
   RecorderConfig_MaxSecs (Config_Recorder c) = override (d_recorder L) (f SRecorder) "MaxSecs" /\
   RecorderConfig_PreviewSecs (Config_Recorder c) = override (d_recorder L) (f SRecorder) "PreviewSecs" /\
   RecorderConfig_ConstantRecorder (Config_Recorder c) = z_to_bool (override (d_recorder L) (f SRecorder) "ConstantRecorder") /\
   w_heap w' (RecorderConfig_Window (Config_Recorder c)) =
     OWindow (override (d_windows L) (f SWindows) "StartRecording") (override (d_windows L) (f SWindows) "StopRecording")
             (override (d_winloc L) (f SLocation) "Latitude") (override (d_winloc L) (f SLocation) "Longitude")) /\
  w_heap w' (Config_Throttler c) = OSect SThrottler (override (d_throttler L) (f SThrottler)) /\
  w_heap w' (Config_Location c) = OSect SLocation (override zero_fields (f SLocation)) /\
  Config_Verbose c = false.
Proof. intros. reflexivity. Qed.

End Tie.

(* Config.MinDiskSpace is a uint64 and so is the library's field: the translator wraps on the assignment because it
   has no type for the library's field; for a value of that type the wrap is the identity *)
Lemma wrap_u64_id : forall v, 0 <= v < 2 ^ 64 -> wrap_u 64 v = v.
Proof. intros v H. unfold wrap_u. apply Z.mod_small. exact H. Qed.

(* ---------- examples, evaluated (the library's own numbers as the parameters; strings are codes) ---------- *)
Definition of_list (l : list (string * Z)) : fields :=
  fun k => match find (fun p => String.eqb (fst p) k) l with Some p => snd p | None => 0 end.
Definition keys (l : list (string * Z)) : fkeys :=
  fun k => option_map snd (find (fun p => String.eqb (fst p) k) l).

Definition MODEL3 : Z := 30.    (* "lepton3" *)
Definition MODEL35 : Z := 35.   (* "lepton3.5" *)
Definition lepton_motion : fields :=
  of_list [("DynamicThreshold", 1); ("TempThresh", 2900); ("DeltaThresh", 50); ("CountThresh", 3); ("FrameCompareGap", 45);
           ("TriggerFrames", 2); ("UseOneDiffOnly", 1); ("WarmerOnly", 1); ("EdgePixels", 1)].
Definition lepton35_motion : fields :=
  of_list [("DynamicThreshold", 1); ("TempThresh", 28000); ("DeltaThresh", 200); ("CountThresh", 3); ("FrameCompareGap", 45);
           ("TriggerFrames", 2); ("UseOneDiffOnly", 1); ("WarmerOnly", 1); ("EdgePixels", 1)].
(* go-config v1.6.4; string codes: 101 "/var/spool/cptv", 102 "/var/run/lepton-frames", 201 "-30m", 202 "+30m";
   window.New refuses the start string with code 999 *)
Definition EXL : clib :=
  mkLib (of_list [("MaxSecs", 600); ("MinSecs", 10); ("PreviewSecs", 5); ("MinDiskSpaceMB", 200); ("OutputDir", 101)])
        (fun m => if m =? MODEL35 then lepton35_motion else lepton_motion)
        (of_list [("Activate", 1); ("BucketSize", 600000000000); ("MinRefill", 600000000000)])
        (of_list [("Latitude", -435321); ("Longitude", 1726362)])
        (of_list [("StartRecording", 201); ("StopRecording", 202); ("PowerOn", 201); ("PowerOff", 202)])
        (of_list [("SPISpeed", 20000000); ("FrameOutput", 102)])
        (fun s _ _ _ => if s =? 999 then 7 else 0).

(* [thermal-recorder] min-secs = 20, constant-recorder = true; [thermal-motion] temp-thresh = 3000;
   [device] id = 42, name = <103>; [location] latitude = -36; nothing else *)
Definition ex_file : cfile := fun s =>
  match s with
  | SRecorder => Some (keys [("MinSecs", 20); ("ConstantRecorder", 1)])
  | SMotion => Some (keys [("TempThresh", 3000)])
  | SDevice => Some (keys [("ID", 42); ("Name", 103)])
  | SLocation => Some (keys [("Latitude", -36)])
  | _ => None
  end.

Definition observe (o : outcome cworld (Config * Z)) : option (Z * list Z * list sect * list string) :=
  match o with
  | Ok (c, e) w =>
    Some (e,
          [Config_DeviceID c; Config_DeviceName c; Config_FrameInput c; Config_OutputDir c; Config_MinDiskSpace c;
           RecorderConfig_MinSecs (Config_Recorder c); RecorderConfig_MaxSecs (Config_Recorder c);
           RecorderConfig_PreviewSecs (Config_Recorder c); bool_to_z (RecorderConfig_ConstantRecorder (Config_Recorder c));
           match w_heap w (RecorderConfig_Window (Config_Recorder c)) with OWindow a b la lo => la | _ => -1 end;
           match w_heap w (RecorderConfig_Window (Config_Recorder c)) with OWindow a b la lo => lo | _ => -1 end;
           field_of w (Config_Location c) "Latitude"; field_of w (Config_Location c) "Longitude";
           field_of w (Config_Throttler c) "Activate"; field_of w (Config_Throttler c) "BucketSize";
           field_of w (Config_Motion c) "TempThresh"; field_of w (Config_Motion c) "DeltaThresh";
           field_of w (Config_Motion c) "TriggerFrames"],
          sections_read (w_log w), bad_calls (w_log w))
  | Panicked _ => None
  end.

(* ParseConfig, then LoadMotionConfig("lepton3.5"): keys of the file where present, defaults otherwise - the motion
   defaults those of the 3.5 (delta-thresh 200); the WINDOW's longitude defaults to Christchurch's while the
   header's location defaults to zero *)
Example ex_parse_load :
  observe (bind (src_parse EXL 7) (fun r => src_load EXL (fst r) MODEL35) (w_init [inr ex_file; inr ex_file] [])) =
  Some (0, [42; 103; 102; 101; 200; 20; 600; 5; 1; -36; 1726362; -36; 0; 1; 600000000000; 3000; 200; 2],
        [SRecorder; SLocation; SWindows; SThrottler; SLocation; SRecorder; SLepton; SDevice; SMotion], []).
Proof. vm_compute. reflexivity. Qed.

(* ParseConfig alone leaves the motion section zero *)
Example ex_parse_only :
  observe (src_parse EXL 7 (w_init [inr ex_file] [])) =
  Some (0, [42; 103; 102; 101; 200; 20; 600; 5; 1; -36; 1726362; -36; 0; 1; 600000000000; 0; 0; 0],
        [SRecorder; SLocation; SWindows; SThrottler; SLocation; SRecorder; SLepton; SDevice], []).
Proof. vm_compute. reflexivity. Qed.

(* the camera reconnects as a lepton3 and the file has lost its thermal-motion section meanwhile: all motion values
   are the lepton3 defaults *)
Definition ex_file2 : cfile := fun s => match s with SMotion => None | _ => ex_file s end.
Example ex_reload :
  observe (bind (bind (src_parse EXL 7) (fun r => src_load EXL (fst r) MODEL35)) (fun r => src_load EXL (fst r) MODEL3)
                (w_init [inr ex_file; inr ex_file; inr ex_file2] [])) =
  Some (0, [42; 103; 102; 101; 200; 20; 600; 5; 1; -36; 1726362; -36; 0; 1; 600000000000; 2900; 50; 2],
        [SRecorder; SLocation; SWindows; SThrottler; SLocation; SRecorder; SLepton; SDevice; SMotion; SMotion], []).
Proof. vm_compute. reflexivity. Qed.

(* max-secs = 15 < min-secs = 20: an error, the zero Config, thermal-throttler is never read *)
Definition ex_file3 : cfile := fun s =>
  match s with SRecorder => Some (keys [("MinSecs", 20); ("MaxSecs", 15)]) | _ => ex_file s end.
Example ex_max_lt_min :
  match src_parse EXL 7 (w_init [inr ex_file3] []) with
  | Ok (c, e) w => Some (c, w_heap w e, match w_heap w e with OErr t => w_heap w t | _ => ONone end, sections_read (w_log w))
  | Panicked _ => None
  end = Some (ZERO_CONFIG, OErr 6, OStr "max-secs should be larger than min-secs", [SRecorder; SLocation; SWindows]).
Proof. vm_compute. reflexivity. Qed.

(* the fifth Unmarshal call (location, for the header) fails with error 77 *)
Example ex_fault :
  observe (src_parse EXL 7 (w_init [inr ex_file] [0; 0; 0; 0; 77])) =
  Some (77, [0; 0; 0; 0; 0; 0; 0; 0; 0; -1; -1; 0; 0; 0; 0; 0; 0; 0], [SRecorder; SLocation; SWindows; SThrottler; SLocation], []).
Proof. vm_compute. reflexivity. Qed.

(* the thermal-motion section does not decode: LoadMotionConfig returns the error and the Config keeps the zero motion section *)
Example ex_load_fails :
  observe (bind (src_parse EXL 7) (fun r => src_load EXL (fst r) MODEL35) (w_init [inr ex_file; inr ex_file] [0; 0; 0; 0; 0; 0; 0; 0; 55])) =
  Some (55, [42; 103; 102; 101; 200; 20; 600; 5; 1; -36; 1726362; -36; 0; 1; 600000000000; 0; 0; 0],
        [SRecorder; SLocation; SWindows; SThrottler; SLocation; SRecorder; SLepton; SDevice; SMotion], []).
Proof. vm_compute. reflexivity. Qed.
