(* Source tie for motion/motion.go, part 1: the ground the loop lemmas stand on.

   - float codes: [fdec (fenc x) = x] for every float whose exponent lies in [-2048, 2048), and
     the SpecFloat operations used by the detector only produce such floats (axiom-free: read
     off the definition of [binary_round_aux]);
   - lists / grids: pointwise updates ([lupd], [gset], [copy_row]) and extensionality of grids
     of given dimensions;
   - the world [dworld]: frames by handle;
   - the monad: every external call of the translated detector as a rewrite rule, and the
     invariant rule for [for_range]. *)
From Coq Require Import List ZArith Bool String Lia Arith.
From Coq Require Import Floats.SpecFloat.
From TR Require Import model.GoSem model.Ring model.Detector model.DetExt
     translated.FrameLoop translated.MotionDetector.
Import ListNotations.
Open Scope Z_scope.

(* ====================================================================================
   Float codes
   ==================================================================================== *)

Definition erange (x : spec_float) : Prop :=
  match x with S754_finite _ _ e => -2048 <= e < 2048 | _ => True end.

Lemma fdec_fenc x : erange x -> fdec (fenc x) = x.
Proof.
  destruct x as [s|s| |s m e]; cbn [erange]; intros H.
  - destruct s; reflexivity.
  - destruct s; reflexivity.
  - reflexivity.
  - unfold fenc, fdec.
    set (b := if s then 1 else 0).
    set (k := e + 2048 + 4096 * Z.pos m).
    assert (Hb : 0 <= b <= 1) by (subst b; destruct s; lia).
    assert (Hk : 4096 <= k) by (subst k; lia).
    destruct (Z.eqb_spec (8 + b + 2 * k) 0); [lia|].
    destruct (Z.eqb_spec (8 + b + 2 * k) 1); [lia|].
    destruct (Z.eqb_spec (8 + b + 2 * k) 2); [lia|].
    destruct (Z.eqb_spec (8 + b + 2 * k) 3); [lia|].
    destruct (Z.ltb_spec (8 + b + 2 * k) 8); [lia|].
    replace (8 + b + 2 * k - 8) with (b + 2 * k) by lia.
    assert (E1 : (b + 2 * k) / 2 = k).
    { symmetry. apply Z.div_unique with (r := b); lia. }
    assert (E2 : Z.odd (b + 2 * k) = s).
    { rewrite Z.odd_add_mul_2. subst b. destruct s; reflexivity. }
    rewrite E1, E2.
    assert (E3 : k / 4096 = Z.pos m).
    { symmetry. apply Z.div_unique with (r := e + 2048); subst k; lia. }
    assert (E4 : k mod 4096 = e + 2048).
    { symmetry. apply Z.mod_unique with (q := Z.pos m); subst k; lia. }
    rewrite E3, E4. f_equal. lia.
Qed.

Lemma er_fdec z : erange (fdec z).
Proof.
  unfold fdec.
  destruct (z =? 0); [exact I|]. destruct (z =? 1); [exact I|]. destruct (z =? 2); [exact I|].
  destruct (z =? 3); [exact I|]. destruct (z <? 8); [exact I|].
  destruct ((z - 8) / 2 / 4096); cbn [erange]; auto.
  pose proof (Z.mod_pos_bound ((z - 8) / 2) 4096 ltac:(lia)). lia.
Qed.

Section ERange.
  Variables prec emax : Z.
  Hypothesis Hlo : -2048 <= 3 - emax - prec.
  Hypothesis Hhi : emax - prec < 2048.

  Lemma er_round_aux sx mx ex lx : erange (binary_round_aux prec emax sx mx ex lx).
  Proof.
    unfold binary_round_aux.
    destruct (shr_fexp prec emax mx ex lx) as [mrs' e'].
    destruct (shr_fexp prec emax (round_nearest_even (shr_m mrs') (loc_of_shr_record mrs')) e' loc_Exact)
      as [mrs'' e''] eqn:E.
    destruct (shr_m mrs''); cbn [erange]; auto.
    destruct (Zle_bool e'' (emax - prec)) eqn:L; cbn [erange]; auto.
    apply Zle_bool_imp_le in L. split; [|lia].
    unfold shr_fexp, shr in E.
    match type of E with context [fexp prec emax ?a - e'] =>
      assert (F : 3 - emax - prec <= fexp prec emax a) by (unfold fexp, emin; lia);
      destruct (fexp prec emax a - e') eqn:N end;
      inversion E; subst; lia.
  Qed.

  Lemma er_round sx mx ex : erange (binary_round prec emax sx mx ex).
  Proof.
    unfold binary_round.
    destruct (shl_align mx ex (fexp prec emax (Z.pos (digits2_pos mx) + ex))). apply er_round_aux.
  Qed.

  Lemma er_normalize m e sz : erange (binary_normalize prec emax m e sz).
  Proof. destruct m; cbn [binary_normalize erange]; auto using er_round. Qed.

  Lemma er_add x y : erange x -> erange y -> erange (SFadd prec emax x y).
  Proof.
    intros Hx Hy.
    destruct x as [sx|sx| |sx mx ex], y as [sy|sy| |sy my ey]; cbn [SFadd];
      try (destruct (Bool.eqb sx sy)); cbn [erange] in *; auto; apply er_normalize.
  Qed.

  Lemma er_sub x y : erange x -> erange y -> erange (SFsub prec emax x y).
  Proof.
    intros Hx Hy.
    destruct x as [sx|sx| |sx mx ex], y as [sy|sy| |sy my ey]; cbn [SFsub];
      try (destruct (Bool.eqb sx (negb sy))); cbn [erange] in *; auto; apply er_normalize.
  Qed.

  Lemma er_div x y : erange (SFdiv prec emax x y).
  Proof.
    destruct x as [sx|sx| |sx mx ex], y as [sy|sy| |sy my ey]; cbn [SFdiv erange]; auto.
    destruct (SFdiv_core_binary prec emax (Z.pos mx) ex (Z.pos my) ey) as [[mz ez] lz].
    apply er_round_aux.
  Qed.
End ERange.

Lemma er_f32_of_Z z : erange (f32_of_Z z).
Proof. apply er_normalize; lia. Qed.
Lemma er_f64_of_Z z : erange (f64_of_Z z).
Proof. apply er_normalize; lia. Qed.
Lemma er_f32_sub a b : erange a -> erange b -> erange (f32_sub a b).
Proof. apply er_sub; lia. Qed.
Lemma er_f32_add a b : erange a -> erange b -> erange (f32_add a b).
Proof. apply er_add; lia. Qed.
Lemma er_f64_add a b : erange a -> erange b -> erange (f64_add a b).
Proof. apply er_add; lia. Qed.
Lemma er_f64_div a b : erange (f64_div a b).
Proof. apply er_div; lia. Qed.
Lemma er_f64_max a b : erange a -> erange b -> erange (f64_max a b).
Proof. intros; unfold f64_max; destruct (SFltb a b); assumption. Qed.
Lemma er_f64_min a b : erange a -> erange b -> erange (f64_min a b).
Proof. intros; unfold f64_min; destruct (SFltb b a); assumption. Qed.
Lemma er_f32_zero : erange f32_zero. Proof. exact I. Qed.
Lemma er_f64_zero : erange f64_zero. Proof. exact I. Qed.
Lemma er_f32_tenth : erange f32_tenth. Proof. cbn; lia. Qed.
Lemma er_f32_max : erange f32_max_float. Proof. cbn; lia. Qed.

Create HintDb er.
#[export] Hint Resolve er_f32_of_Z er_f64_of_Z er_f32_sub er_f32_add er_f64_add er_f64_div
  er_f64_max er_f64_min er_f32_zero er_f64_zero er_f32_tenth er_f32_max er_fdec : er.

(* the float operations are black boxes from here on *)
#[global] Opaque f32_of_Z f64_of_Z f32_sub f32_add f64_add f64_div f64_trunc.

(* ====================================================================================
   Lists and grids
   ==================================================================================== *)

Lemma lupd_upd {A} (l : list A) n v : lupd l n v = upd l n v.
Proof. revert n; induction l; destruct n; cbn; auto. f_equal; auto. Qed.

Lemma length_lupd {A} (l : list A) n v : List.length (lupd l n v) = List.length l.
Proof. revert n; induction l; destruct n; cbn; auto. Qed.

Lemma nth_lupd_eq {A} (l : list A) n v d : (n < List.length l)%nat -> nth n (lupd l n v) d = v.
Proof. revert n; induction l; destruct n; cbn; intros; try lia; auto. apply IHl; lia. Qed.

Lemma nth_lupd_neq {A} (l : list A) n m v d : m <> n -> nth m (lupd l n v) d = nth m l d.
Proof. revert n m; induction l; destruct n, m; cbn; intros; try lia; auto. Qed.

Lemma lupd_lupd {A} (l : list A) n a b : lupd (lupd l n a) n b = lupd l n b.
Proof. revert n; induction l; destruct n; cbn; auto. f_equal; auto. Qed.

Lemma lupd_nth {A} (l : list A) n d : lupd l n (nth n l d) = l.
Proof. revert n; induction l; destruct n; cbn; auto. f_equal; auto. Qed.

Lemma list_ext {A} (d : A) (l l' : list A) :
  List.length l = List.length l' -> (forall i, (i < List.length l)%nat -> nth i l d = nth i l' d) -> l = l'.
Proof.
  revert l'; induction l; destruct l'; cbn; intros E H; try discriminate; auto.
  f_equal. - apply (H 0%nat); lia. - apply IHl; [lia|]. intros i Hi. apply (H (S i)); lia.
Qed.

(* a two-dimensional table of given dimensions, over any element type *)
Definition tdims {A} (h w : nat) (g : list (list A)) : Prop :=
  List.length g = h /\ forall y, (y < h)%nat -> List.length (nth y g []) = w.

Definition tget {A} (d : A) (g : list (list A)) (y x : nat) : A := nth x (nth y g []) d.
Definition tset {A} (g : list (list A)) (y x : nat) (v : A) : list (list A) := lupd g y (lupd (nth y g []) x v).
Definition tbuild {A} (h w : nat) (f : nat -> nat -> A) : list (list A) :=
  map (fun y => map (fun x => f y x) (seq 0 w)) (seq 0 h).

Lemma nth_map_seq0 {B} (F : nat -> B) n i d : (i < n)%nat -> nth i (map F (seq 0 n)) d = F i.
Proof.
  intros Hi. rewrite (nth_indep _ d (F 0%nat)) by (rewrite map_length, seq_length; exact Hi).
  rewrite (map_nth F), seq_nth by exact Hi. reflexivity.
Qed.

Lemma tdims_tbuild {A} h w (f : nat -> nat -> A) : tdims h w (tbuild h w f).
Proof.
  split; unfold tbuild. - rewrite map_length, seq_length; reflexivity.
  - intros y Hy. rewrite nth_map_seq0 by exact Hy. rewrite map_length, seq_length; reflexivity.
Qed.

Lemma tget_tbuild {A} (d : A) h w f y x : (y < h)%nat -> (x < w)%nat -> tget d (tbuild h w f) y x = f y x.
Proof. intros Hy Hx. unfold tget, tbuild. rewrite nth_map_seq0 by exact Hy. apply nth_map_seq0; exact Hx. Qed.

Lemma table_ext {A} (d : A) h w (g g' : list (list A)) :
  tdims h w g -> tdims h w g' ->
  (forall y x, (y < h)%nat -> (x < w)%nat -> tget d g y x = tget d g' y x) -> g = g'.
Proof.
  intros [L1 R1] [L2 R2] H. apply (list_ext []); [congruence|].
  intros y Hy. rewrite L1 in Hy. apply (list_ext d); [rewrite R1, R2; auto|].
  intros x Hx. rewrite R1 in Hx by exact Hy. apply H; assumption.
Qed.

Lemma table_is_build {A} (d : A) h w g f :
  tdims h w g -> (forall y x, (y < h)%nat -> (x < w)%nat -> tget d g y x = f y x) -> g = tbuild h w f.
Proof.
  intros D H. apply (table_ext d h w); [exact D | apply tdims_tbuild |].
  intros y x Hy Hx. rewrite tget_tbuild by assumption. apply H; assumption.
Qed.

Lemma tdims_tset {A} h w (g : list (list A)) y x v : tdims h w g -> tdims h w (tset g y x v).
Proof.
  intros [L R]. unfold tset. split; [rewrite length_lupd; exact L|].
  intros y' Hy'. destruct (Nat.eq_dec y' y) as [->|N].
  - rewrite nth_lupd_eq by lia. rewrite length_lupd. apply R; exact Hy'.
  - rewrite nth_lupd_neq by exact N. apply R; exact Hy'.
Qed.

Lemma tget_tset_eq {A} (d : A) h w g y x v : tdims h w g -> (y < h)%nat -> (x < w)%nat -> tget d (tset g y x v) y x = v.
Proof.
  intros [L R] Hy Hx. unfold tget, tset. rewrite nth_lupd_eq by lia. apply nth_lupd_eq. rewrite R; assumption.
Qed.

Lemma tget_tset_neq {A} (d : A) g y x v y' x' : (y' <> y \/ x' <> x) -> tget d (tset g y x v) y' x' = tget d g y' x'.
Proof.
  intros N. unfold tget, tset. destruct (Nat.eq_dec y' y) as [->|Ny].
  - destruct (Nat.lt_ge_cases y (List.length g)) as [Hy|Hy].
    + rewrite nth_lupd_eq by exact Hy. apply nth_lupd_neq. destruct N; congruence.
    + rewrite (nth_overflow (lupd _ _ _)) by (rewrite length_lupd; exact Hy).
      rewrite (nth_overflow g) by exact Hy. reflexivity.
  - rewrite nth_lupd_neq by exact Ny. reflexivity.
Qed.

(* replacing a whole row *)
Lemma tdims_row {A} h w (g : list (list A)) y r : tdims h w g -> List.length r = w -> tdims h w (lupd g y r).
Proof.
  intros [L R] Hr. split; [rewrite length_lupd; exact L|].
  intros y' Hy'. destruct (Nat.eq_dec y' y) as [->|N].
  - rewrite nth_lupd_eq by lia. exact Hr.
  - rewrite nth_lupd_neq by exact N. apply R; exact Hy'.
Qed.

Lemma tget_row_eq {A} (d : A) (g : list (list A)) y r x : (y < List.length g)%nat -> tget d (lupd g y r) y x = nth x r d.
Proof. intros Hy. unfold tget. rewrite nth_lupd_eq by exact Hy. reflexivity. Qed.

Lemma tget_row_neq {A} (d : A) (g : list (list A)) y r y' x : y' <> y -> tget d (lupd g y r) y' x = tget d g y' x.
Proof. intros N. unfold tget. rewrite nth_lupd_neq by exact N. reflexivity. Qed.

(* grids are tables of Z with default 0, weights tables of f32 with default +0 *)
Lemma gget_tget g y x : gget g y x = tget 0 g y x. Proof. reflexivity. Qed.
Lemma wget_tget g y x : wget g y x = tget f32_zero g y x. Proof. reflexivity. Qed.
Lemma gset_tset g y x v : gset g y x v = tset g y x v. Proof. reflexivity. Qed.
Lemma wset_tset g y x v : wset g y x v = tset g y x v. Proof. reflexivity. Qed.
Lemma gbuild_tbuild h w f : gbuild h w f = tbuild h w f. Proof. reflexivity. Qed.

Lemma nth_firstn_lt {A} (l : list A) n i d : (i < n)%nat -> nth i (firstn n l) d = nth i l d.
Proof. revert n i; induction l; destruct n, i; cbn; intros; try lia; auto. apply IHl; lia. Qed.

Lemma nth_skipn_add {A} (l : list A) n i d : nth i (skipn n l) d = nth (n + i) l d.
Proof. revert n; induction l; destruct n; cbn; auto. destruct i; reflexivity. Qed.

(* copy(dst[lo:hi], src[lo:hi]) *)
Lemma copy_row_mid dst src lo hi :
  List.length src = List.length dst -> 0 <= lo <= hi -> hi <= Z.of_nat (List.length dst) ->
  List.length (copy_row dst src lo hi lo hi) = List.length dst /\
  forall x, nth x (copy_row dst src lo hi lo hi) 0 =
            if (Z.to_nat lo <=? x)%nat && (x <? Z.to_nat hi)%nat then nth x src 0 else nth x dst 0.
Proof.
  intros HL Hlo Hhi. unfold copy_row.
  destruct (Z.ltb_spec hi 0); [lia|].
  rewrite Nat.min_id.
  set (a := Z.to_nat lo). set (n := Z.to_nat (hi - lo)).
  assert (Hb : Z.to_nat hi = (a + n)%nat) by (subst a n; lia).
  assert (Hle : (a + n <= List.length dst)%nat) by lia.
  split.
  - rewrite !app_length, !firstn_length, !skipn_length. lia.
  - intros x. rewrite Hb.
    destruct (Nat.leb_spec a x) as [H1|H1]; cbn [andb].
    + rewrite app_nth2 by (rewrite firstn_length; lia).
      rewrite firstn_length, Nat.min_l by lia.
      destruct (Nat.ltb_spec x (a + n)) as [H2|H2].
      * rewrite app_nth1 by (rewrite firstn_length, skipn_length; lia).
        rewrite nth_firstn_lt by lia.
        rewrite nth_skipn_add. f_equal. lia.
      * rewrite app_nth2 by (rewrite firstn_length, skipn_length; lia).
        rewrite firstn_length, skipn_length, Nat.min_l by lia.
        rewrite nth_skipn_add. f_equal. lia.
    + rewrite app_nth1 by (rewrite firstn_length; lia).
      apply nth_firstn_lt. lia.
Qed.

(* copy(dst[0:], src[0:]) for rows of the same length *)
Lemma copy_row_all dst src : List.length src = List.length dst -> copy_row dst src 0 (-1) 0 (-1) = src.
Proof.
  intros HL. unfold copy_row. cbn [Z.ltb Z.compare Z.to_nat firstn skipn app Nat.add].
  rewrite !Z.sub_0_r, !Nat2Z.id, HL, Nat.min_id.
  rewrite <- HL at 1. rewrite firstn_all, skipn_all. apply app_nil_r.
Qed.

(* ====================================================================================
   The world
   ==================================================================================== *)

Definition pixof (w : dworld) (h : Z) : grid := f_pix (dframe w h).
Definition hin (w : dworld) (h : Z) : Prop := 0 <= h < Z.of_nat (List.length (dw_frames w)).
Definition set_wts (w : dworld) (t : list (list f32)) : dworld := mkDW (dw_frames w) t.

Lemma frame_eta f : mkF (f_pix f) (f_timeon f) (f_lastffc f) = f.
Proof. destruct f; reflexivity. Qed.

Lemma dframe_set_frame_eq w h f : hin w h -> dframe (set_frame w h f) h = f.
Proof. intros H. unfold dframe, set_frame, hin in *. cbn [dw_frames]. apply nth_lupd_eq. lia. Qed.

Lemma dframe_set_frame_neq w h f h' : 0 <= h -> 0 <= h' -> h' <> h -> dframe (set_frame w h f) h' = dframe w h'.
Proof. intros H H' N. unfold dframe, set_frame. cbn [dw_frames]. apply nth_lupd_neq. lia. Qed.

Lemma hin_set_frame w h f h' : hin (set_frame w h f) h' <-> hin w h'.
Proof. unfold hin, set_frame. cbn [dw_frames]. rewrite length_lupd. tauto. Qed.

Lemma wts_set_frame w h f : dw_wts (set_frame w h f) = dw_wts w.
Proof. reflexivity. Qed.

Lemma dframe_set_pix_eq w h g : hin w h ->
  dframe (set_pix w h g) h = mkF g (f_timeon (dframe w h)) (f_lastffc (dframe w h)).
Proof. intros H. unfold set_pix. apply dframe_set_frame_eq; exact H. Qed.

Lemma pixof_set_pix_eq w h g : hin w h -> pixof (set_pix w h g) h = g.
Proof. intros H. unfold pixof. rewrite dframe_set_pix_eq by exact H. reflexivity. Qed.

Lemma dframe_set_pix_neq w h g h' : 0 <= h -> 0 <= h' -> h' <> h -> dframe (set_pix w h g) h' = dframe w h'.
Proof. intros. unfold set_pix. apply dframe_set_frame_neq; assumption. Qed.

Lemma pixof_set_pix_neq w h g h' : 0 <= h -> 0 <= h' -> h' <> h -> pixof (set_pix w h g) h' = pixof w h'.
Proof. intros. unfold pixof. rewrite dframe_set_pix_neq by assumption. reflexivity. Qed.

Lemma hin_set_pix w h g h' : hin (set_pix w h g) h' <-> hin w h'.
Proof. unfold set_pix. apply hin_set_frame. Qed.

Lemma wts_set_pix w h g : dw_wts (set_pix w h g) = dw_wts w.
Proof. reflexivity. Qed.

Lemma set_pix_set_pix w h g g' : hin w h -> set_pix (set_pix w h g) h g' = set_pix w h g'.
Proof.
  intros H. unfold set_pix at 1. rewrite dframe_set_pix_eq by exact H. cbn [f_timeon f_lastffc].
  unfold set_pix, set_frame. cbn [dw_frames dw_wts]. rewrite lupd_lupd. reflexivity.
Qed.

Lemma set_pix_id w h : set_pix w h (pixof w h) = w.
Proof.
  unfold set_pix, pixof, set_frame. rewrite frame_eta. unfold dframe. rewrite lupd_nth. destruct w; reflexivity.
Qed.

Lemma set_wts_id w : set_wts w (dw_wts w) = w.
Proof. destruct w; reflexivity. Qed.

Lemma set_wts_set_wts w a b : set_wts (set_wts w a) b = set_wts w b.
Proof. reflexivity. Qed.

Lemma dframe_set_wts w t h : dframe (set_wts w t) h = dframe w h.
Proof. reflexivity. Qed.

Lemma pixof_set_wts w t h : pixof (set_wts w t) h = pixof w h.
Proof. reflexivity. Qed.

Lemma set_pix_set_wts w t h g : set_pix (set_wts w t) h g = set_wts (set_pix w h g) t.
Proof. reflexivity. Qed.

Lemma hin_set_wts w t h : hin (set_wts w t) h <-> hin w h.
Proof. unfold hin, set_wts; cbn [dw_frames]; tauto. Qed.

(* ====================================================================================
   The monad and the external calls
   ==================================================================================== *)

Lemma bind_ret {W A B} (a : A) (k : A -> M W B) w : bind (ret a) k w = k a w.
Proof. reflexivity. Qed.

Lemma bind_ok {W A B} (m : M W A) (k : A -> M W B) w a w' : m w = Ok a w' -> bind m k w = k a w'.
Proof. intros E. unfold bind. rewrite E. reflexivity. Qed.

Lemma bind_call {W B} (ext : string -> list arg -> W -> Z * W) n a (k : Z -> M W B) w :
  bind (call_ext ext n a) k w = k (fst (ext n a w)) (snd (ext n a w)).
Proof. unfold bind, call_ext. destruct (ext n a w); reflexivity. Qed.

Section Calls.
  Context {B : Type}.
  Variable k : Z -> M dworld B.
  Variable w : dworld.

  Lemma c_get h y x : bind (call_ext dext "Frame.Pix.get" [AFrame h; AInt y; AInt x]) k w =
    k (gget (pixof w h) (Z.to_nat y) (Z.to_nat x)) w.
  Proof. reflexivity. Qed.

  Lemma c_set h y x v : bind (call_ext dext "Frame.Pix.set" [AFrame h; AInt y; AInt x; AInt v]) k w =
    k 0 (set_pix w h (gset (pixof w h) (Z.to_nat y) (Z.to_nat x) v)).
  Proof. reflexivity. Qed.

  Lemma c_copyrow dh dy dlo dhi sh sy slo shi :
    bind (call_ext dext "Frame.Pix.copyrow" [AFrame dh; AInt dy; AInt dlo; AInt dhi; AFrame sh; AInt sy; AInt slo; AInt shi]) k w =
    k 0 (set_pix w dh (lupd (pixof w dh) (Z.to_nat dy)
           (copy_row (nth (Z.to_nat dy) (pixof w dh) []) (nth (Z.to_nat sy) (pixof w sh) []) dlo dhi slo shi))).
  Proof. reflexivity. Qed.

  Lemma c_copy a b : bind (call_ext dext "Frame.Copy" [AFrame a; AFrame b]) k w = k 0 (set_frame w a (dframe w b)).
  Proof. reflexivity. Qed.

  Lemma c_timeon h : bind (call_ext dext "Frame.Status.TimeOn" [AFrame h]) k w = k (f_timeon (dframe w h)) w.
  Proof. reflexivity. Qed.

  Lemma c_lastffc h : bind (call_ext dext "Frame.Status.LastFFCTime" [AFrame h]) k w = k (f_lastffc (dframe w h)) w.
  Proof. reflexivity. Qed.

  Lemma c_debug s v : bind (call_ext dext "motionDetector.debug.update" [AStr s; AInt v]) k w = k 0 w.
  Proof. reflexivity. Qed.

  Lemma c_nonnil : bind (call_ext dext "nonnil:motionDetector.debug" []) k w = k 0 w.
  Proof. reflexivity. Qed.

  Lemma c_f64_lit s : bind (call_ext dext "f64.lit" [AStr s]) k w = k (fenc f64_zero) w.
  Proof. reflexivity. Qed.

  Lemma c_f32_lit s : bind (call_ext dext "f32.lit" [AStr s]) k w = k (fenc (f32_lit s)) w.
  Proof. reflexivity. Qed.

  Lemma c_f64_of_int a : bind (call_ext dext "f64.of_int" [AInt a]) k w = k (fenc (f64_of_Z a)) w.
  Proof. reflexivity. Qed.

  Lemma c_f32_of_int a : bind (call_ext dext "f32.of_int" [AInt a]) k w = k (fenc (f32_of_Z a)) w.
  Proof. reflexivity. Qed.

  Lemma c_f64_to_u16 a : bind (call_ext dext "f64.to_uint16" [AInt a]) k w = k (f64_trunc (fdec a)) w.
  Proof. reflexivity. Qed.

  Lemma c_f32_sub a b : bind (call_ext dext "f32.sub" [AInt a; AInt b]) k w = k (fenc (f32_sub (fdec a) (fdec b))) w.
  Proof. reflexivity. Qed.

  Lemma c_f32_add a b : bind (call_ext dext "f32.add" [AInt a; AInt b]) k w = k (fenc (f32_add (fdec a) (fdec b))) w.
  Proof. reflexivity. Qed.

  Lemma c_f32_lt a b : bind (call_ext dext "f32.lt" [AInt a; AInt b]) k w = k (bool_to_z (SFltb (fdec a) (fdec b))) w.
  Proof. reflexivity. Qed.

  Lemma c_f32_gt a b : bind (call_ext dext "f32.gt" [AInt a; AInt b]) k w = k (bool_to_z (SFltb (fdec b) (fdec a))) w.
  Proof. reflexivity. Qed.

  Lemma c_f64_add a b : bind (call_ext dext "f64.add" [AInt a; AInt b]) k w = k (fenc (f64_add (fdec a) (fdec b))) w.
  Proof. reflexivity. Qed.

  Lemma c_f64_div a b : bind (call_ext dext "f64.div" [AInt a; AInt b]) k w = k (fenc (f64_div (fdec a) (fdec b))) w.
  Proof. reflexivity. Qed.

  Lemma c_max a b : bind (call_ext dext "math.Max" [AInt a; AInt b]) k w = k (fenc (f64_max (fdec a) (fdec b))) w.
  Proof. reflexivity. Qed.

  Lemma c_min a b : bind (call_ext dext "math.Min" [AInt a; AInt b]) k w = k (fenc (f64_min (fdec a) (fdec b))) w.
  Proof. reflexivity. Qed.

  Lemma c_wget y x : bind (call_ext dext "motionDetector.backgroundWeight.get" [AInt y; AInt x]) k w =
    k (fenc (wget (dw_wts w) (Z.to_nat y) (Z.to_nat x))) w.
  Proof. reflexivity. Qed.

  Lemma c_wset y x v : bind (call_ext dext "motionDetector.backgroundWeight.set" [AInt y; AInt x; AInt v]) k w =
    k 0 (set_wts w (wset (dw_wts w) (Z.to_nat y) (Z.to_nat x) (fdec v))).
  Proof. reflexivity. Qed.
End Calls.

Lemma z_to_bool_of b : z_to_bool (bool_to_z b) = b.
Proof. destruct b; reflexivity. Qed.

(* one step of symbolic execution: the next external call (dispatch on its name, so that no
   rule is ever tried - modulo computation of [dext] - on another call) or a [ret] *)
Ltac call1 :=
  lazymatch goal with
  | |- context [bind (call_ext dext ?n ?a) ?k ?w] =>
    lazymatch n with
    | "Frame.Pix.get"%string => rewrite (c_get k w)
    | "Frame.Pix.set"%string => rewrite (c_set k w)
    | "Frame.Pix.copyrow"%string => rewrite (c_copyrow k w)
    | "Frame.Copy"%string => rewrite (c_copy k w)
    | "Frame.Status.TimeOn"%string => rewrite (c_timeon k w)
    | "Frame.Status.LastFFCTime"%string => rewrite (c_lastffc k w)
    | "motionDetector.debug.update"%string => rewrite (c_debug k w)
    | "nonnil:motionDetector.debug"%string => rewrite (c_nonnil k w)
    | "f64.lit"%string => rewrite (c_f64_lit k w)
    | "f32.lit"%string => rewrite (c_f32_lit k w)
    | "f64.of_int"%string => rewrite (c_f64_of_int k w)
    | "f32.of_int"%string => rewrite (c_f32_of_int k w)
    | "f64.to_uint16"%string => rewrite (c_f64_to_u16 k w)
    | "f32.sub"%string => rewrite (c_f32_sub k w)
    | "f32.add"%string => rewrite (c_f32_add k w)
    | "f32.lt"%string => rewrite (c_f32_lt k w)
    | "f32.gt"%string => rewrite (c_f32_gt k w)
    | "f64.add"%string => rewrite (c_f64_add k w)
    | "f64.div"%string => rewrite (c_f64_div k w)
    | "math.Max"%string => rewrite (c_max k w)
    | "math.Min"%string => rewrite (c_min k w)
    | "motionDetector.backgroundWeight.get"%string => rewrite (c_wget k w)
    | "motionDetector.backgroundWeight.set"%string => rewrite (c_wset k w)
    end
  | |- context [bind (ret _) _ _] => rewrite bind_ret
  end;
  cbv beta.
Ltac calls := repeat call1.

(* ---------- loops ---------- *)
Section Loops.
  Context {W S R : Type}.

  Lemma for_loop_inv (I : nat -> S -> W -> Prop) (body : Z -> S -> M W (loopres S R)) n : forall (lo : nat) s w,
    I lo s w ->
    (forall k s w, (lo <= k < lo + n)%nat -> I k s w ->
        exists s' w', body (Z.of_nat k) s w = Ok (LCont s') w' /\ I (Datatypes.S k) s' w') ->
    exists s' w', for_loop n (Z.of_nat lo) body s w = Ok (LCont s') w' /\ I (lo + n)%nat s' w'.
  Proof.
    induction n as [|n IH]; intros lo s w H0 Hs.
    - exists s, w. rewrite Nat.add_0_r. split; [reflexivity | exact H0].
    - destruct (Hs lo s w ltac:(lia) H0) as (s1 & w1 & E1 & H1).
      destruct (IH (Datatypes.S lo) s1 w1 H1) as (s2 & w2 & E2 & H2).
      { intros k s' w' Hk. apply Hs. lia. }
      exists s2, w2. split.
      + cbn [for_loop]. unfold bind. rewrite E1.
        replace (Z.of_nat lo + 1) with (Z.of_nat (Datatypes.S lo)) by lia. exact E2.
      + replace (lo + Datatypes.S n)%nat with (Datatypes.S lo + n)%nat by lia. exact H2.
  Qed.

  Lemma for_range_inv (I : nat -> S -> W -> Prop) (body : Z -> S -> M W (loopres S R)) (lo hi : nat) s w :
    (lo <= hi)%nat ->
    I lo s w ->
    (forall k s w, (lo <= k < hi)%nat -> I k s w ->
        exists s' w', body (Z.of_nat k) s w = Ok (LCont s') w' /\ I (Datatypes.S k) s' w') ->
    exists s' w', for_range (Z.of_nat lo) (Z.of_nat hi) body s w = Ok (LCont s') w' /\ I hi s' w'.
  Proof.
    intros Hle H0 Hs. unfold for_range.
    replace (Z.to_nat (Z.of_nat hi - Z.of_nat lo)) with (hi - lo)%nat by lia.
    destruct (for_loop_inv I body (hi - lo) lo s w H0) as (s' & w' & E & H).
    { intros k s1 w1 Hk. apply Hs. lia. }
    exists s', w'. split; [exact E|]. replace hi with (lo + (hi - lo))%nat by lia. exact H.
  Qed.
End Loops.

(* ---------- grids and weight tables: the table lemmas at their own names ---------- *)
Lemma tdims_gset h w g y x v : tdims h w g -> tdims h w (gset g y x v).
Proof. apply tdims_tset. Qed.
Lemma gget_gset_eq h w g y x v : tdims h w g -> (y < h)%nat -> (x < w)%nat -> gget (gset g y x v) y x = v.
Proof. apply (tget_tset_eq 0). Qed.
Lemma gget_gset_neq g y x v y' x' : (y' <> y \/ x' <> x) -> gget (gset g y x v) y' x' = gget g y' x'.
Proof. apply (tget_tset_neq 0). Qed.
Lemma gget_row_eq (g : grid) y r x : (y < List.length g)%nat -> gget (lupd g y r) y x = nth x r 0.
Proof. apply (tget_row_eq 0). Qed.
Lemma gget_row_neq (g : grid) y r y' x : y' <> y -> gget (lupd g y r) y' x = gget g y' x.
Proof. apply (tget_row_neq 0). Qed.
Lemma tdims_wset h w g y x v : tdims h w g -> tdims h w (wset g y x v).
Proof. apply tdims_tset. Qed.
Lemma wget_wset_eq h w g y x v : tdims h w g -> (y < h)%nat -> (x < w)%nat -> wget (wset g y x v) y x = v.
Proof. apply (tget_tset_eq f32_zero). Qed.
Lemma wget_wset_neq g y x v y' x' : (y' <> y \/ x' <> x) -> wget (wset g y x v) y' x' = wget g y' x'.
Proof. apply (tget_tset_neq f32_zero). Qed.
Lemma grid_is_build h w g f :
  tdims h w g -> (forall y x, (y < h)%nat -> (x < w)%nat -> gget g y x = f y x) -> g = gbuild h w f.
Proof. apply (table_is_build 0). Qed.

Lemma to_nat_pred n : Z.to_nat (Z.of_nat n - 1) = (n - 1)%nat. Proof. lia. Qed.
Lemma to_nat_add a b : Z.to_nat (Z.of_nat a + Z.of_nat b) = (a + b)%nat. Proof. lia. Qed.
