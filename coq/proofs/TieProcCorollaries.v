(* Corollaries of the processor source tie (kept apart from the throttle / limiter corollaries so
   that a change to motionprocessor.go does not touch C05, C06, C20). *)
From Coq Require Import List ZArith Bool String Lia.
From TR Require Import model.GoSem.
Import ListNotations.
Open Scope Z_scope.

From TR Require Import model.Ring model.Processor model.ProcAbs model.ProcExt proofs.TieProc
     translated.FrameLoop translated.MotionProcessor.

Definition src_psteps (c : pcfg) (fm fc ft : list bool) (evs : list ev) : list (ev * list out) :=
  combine evs (src_run c fm fc ft evs).

Theorem src_psteps_eq : forall c fm fc ft evs,
    1 <= p_size c -> src_psteps c fm fc ft evs = psteps c fm fc ft evs.
Proof. intros. unfold src_psteps, psteps. rewrite tie_processor by assumption. reflexivity. Qed.

(* MotionProcessor.Reset (the camera's 'clear'): whatever stopping the open recording returns, the
   detector is reset - exactly once, after the stop - for every meaning of the outside world.
   (C09's "no comparison across a reset" rests on the detector being reset by every 'clear'.) *)
Theorem Reset_resets_detector : forall (W : Type) (ext : string -> list arg -> W -> Z * W) mp w,
    match MotionProcessor_stopRecording ext mp w with
    | Ok (mp', _) w1 =>
      MotionProcessor_Reset ext mp w =
        Ok (mp', tt) (snd (ext "MotionProcessor.motionDetector.Reset"%string [ASym "camera"%string] w1))
    | Panicked w1 => MotionProcessor_Reset ext mp w = Panicked w1
    end.
Proof.
  intros W ext mp w. unfold MotionProcessor_Reset, bind.
  destruct (MotionProcessor_stopRecording ext mp w) as [[mp' e] w1|w1]; [|reflexivity].
  unfold call_ext, ret.
  destruct (ext "MotionProcessor.motionDetector.Reset"%string [ASym "camera"%string] w1) as [r w2].
  reflexivity.
Qed.
