(* Bridge between the standard library's SpecFloat operations (used by model/Detector.v) and
   Flocq's binary_float operations, for arbitrary precision / exponent range.  These are the
   lemmas of Flocq's IEEE754/PrimFloat.v (there only for binary64), re-proved generically. *)
From Coq Require Import ZArith Reals Bool Lia.
From Coq Require Import Floats.SpecFloat.
From Flocq Require Import Core IEEE754.BinarySingleNaN.

Section Bridge.
  Variable prec emax : Z.
  Context {prec_gt_0_ : Prec_gt_0 prec}.
  Context {prec_lt_emax_ : Prec_lt_emax prec emax}.

  Lemma round_nearest_even_equiv s m l :
    round_nearest_even m l = choice_mode mode_NE s m l.
  Proof.
    case l; [reflexivity|intro c].
    case c; [ | reflexivity..].
    now simpl; unfold Round.cond_incr; case Z.even.
  Qed.

  Lemma binary_round_aux_equiv sx mx ex lx :
    SpecFloat.binary_round_aux prec emax sx mx ex lx
    = BinarySingleNaN.binary_round_aux prec emax mode_NE sx mx ex lx.
  Proof.
    unfold SpecFloat.binary_round_aux, BinarySingleNaN.binary_round_aux.
    set (mrse' := shr_fexp _ _ _ _ _).
    case mrse'; intros mrs' e'; simpl.
    now rewrite (round_nearest_even_equiv sx).
  Qed.

  Lemma binary_round_equiv s m e :
    SpecFloat.binary_round prec emax s m e =
    BinarySingleNaN.binary_round prec emax mode_NE s m e.
  Proof.
    unfold SpecFloat.binary_round, BinarySingleNaN.binary_round, shl_align_fexp.
    set (mez := shl_align _ _ _); case mez as [mz ez].
    apply binary_round_aux_equiv.
  Qed.

  Lemma binary_normalize_equiv m e szero :
    SpecFloat.binary_normalize prec emax m e szero
    = B2SF (BinarySingleNaN.binary_normalize prec emax prec_gt_0_ prec_lt_emax_ mode_NE m e szero).
  Proof.
    case m as [ | p | p].
    - now simpl.
    - simpl; rewrite B2SF_SF2B; apply binary_round_equiv.
    - simpl; rewrite B2SF_SF2B; apply binary_round_equiv.
  Qed.

  Lemma SFadd_equiv (x y : binary_float prec emax) :
    SFadd prec emax (B2SF x) (B2SF y) = B2SF (Bplus mode_NE x y).
  Proof.
    case x as [sx|sx| |sx mx ex Bx];
      case y as [sy|sy| |sy my ey By];
      [now (trivial || simpl; case Bool.eqb).. | ].
    apply binary_normalize_equiv.
  Qed.

  Lemma SFsub_equiv (x y : binary_float prec emax) :
    SFsub prec emax (B2SF x) (B2SF y) = B2SF (Bminus mode_NE x y).
  Proof.
    case x as [sx|sx| |sx mx ex Bx];
      case y as [sy|sy| |sy my ey By];
      [now (trivial || simpl; case Bool.eqb).. | ].
    simpl.
    unfold Zminus.
    rewrite <- cond_Zopp_negb.
    apply binary_normalize_equiv.
  Qed.

  Lemma SFdiv_equiv (x y : binary_float prec emax) :
    SFdiv prec emax (B2SF x) (B2SF y) = B2SF (Bdiv mode_NE x y).
  Proof.
    case x as [sx|sx| |sx mx ex Bx];
      case y as [sy|sy| |sy my ey By];
      [now (trivial || simpl; case Bool.eqb).. | ].
    simpl.
    rewrite B2SF_SF2B.
    set (melz := SFdiv_core_binary _ _ _ _ _ _).
    case melz as [[mz ez] lz].
    apply binary_round_aux_equiv.
  Qed.

  Lemma SFltb_equiv (x y : binary_float prec emax) :
    SFltb (B2SF x) (B2SF y) = Bltb x y.
  Proof. reflexivity. Qed.

  (* ---------- real-number semantics of the SpecFloat operations ---------- *)
  Notation bfloat := (binary_float prec emax).
  Notation fexp := (SpecFloat.fexp prec emax).
  Notation rnd := (round radix2 fexp ZnearestE).

  Global Instance fexp_valid : Valid_exp fexp := FLT_exp_valid (emin prec emax) prec.
  Global Instance fexp_mono : Monotone_exp fexp := FLT_exp_monotone (emin prec emax) prec.

  Lemma IZR_format z : (Z.abs z < 2 ^ prec)%Z -> generic_format radix2 fexp (IZR z).
  Proof.
    intros Hz. apply (generic_format_FLT radix2 (emin prec emax) prec).
    exists (Float radix2 z 0).
    - unfold F2R; simpl. ring.
    - exact Hz.
    - simpl. unfold emin. red in prec_gt_0_, prec_lt_emax_. lia.
  Qed.

  Lemma rnd_IZR z : (Z.abs z < 2 ^ prec)%Z -> rnd (IZR z) = IZR z.
  Proof. intros Hz. apply round_generic; [apply valid_rnd_N | now apply IZR_format]. Qed.

  Lemma IZR_lt_emax z : (Z.abs z < 2 ^ prec)%Z -> (Rabs (IZR z) < bpow radix2 emax)%R.
  Proof.
    intros Hz. rewrite <- abs_IZR.
    apply Rlt_le_trans with (IZR (2 ^ prec)); [now apply IZR_lt|].
    change 2%Z with (radix_val radix2). rewrite IZR_Zpower by (red in prec_gt_0_; lia).
    apply bpow_le. red in prec_lt_emax_. lia.
  Qed.

  (* conversion of a small integer is exact *)
  Lemma of_Z_exact z : (Z.abs z < 2 ^ prec)%Z ->
    exists b : bfloat, SpecFloat.binary_normalize prec emax z 0 false = B2SF b /\
                       is_finite b = true /\ B2R b = IZR z.
  Proof.
    intros Hz. rewrite binary_normalize_equiv. eexists; split; [reflexivity|].
    generalize (binary_normalize_correct prec emax prec_gt_0_ prec_lt_emax_ mode_NE z 0 false).
    cbv zeta.
    replace (F2R (Float radix2 z 0)) with (IZR z) by (unfold F2R; simpl; ring).
    change (round_mode mode_NE) with ZnearestE.
    rewrite (rnd_IZR z Hz). rewrite Rlt_bool_true by now apply IZR_lt_emax.
    intros (H1 & H2 & _). now split.
  Qed.

  Lemma SFadd_real (x y : bfloat) :
    is_finite x = true -> is_finite y = true ->
    (Rabs (rnd (B2R x + B2R y)) < bpow radix2 emax)%R ->
    exists z : bfloat, SFadd prec emax (B2SF x) (B2SF y) = B2SF z /\
      is_finite z = true /\ B2R z = rnd (B2R x + B2R y) /\
      Bsign z = match Rcompare (B2R x + B2R y) 0 with
                | Eq => andb (Bsign x) (Bsign y) | Lt => true | Gt => false end.
  Proof.
    intros Fx Fy Hov. exists (Bplus mode_NE x y). split; [apply SFadd_equiv|].
    generalize (Bplus_correct prec emax _ _ mode_NE x y Fx Fy).
    change (round_mode mode_NE) with ZnearestE.
    rewrite Rlt_bool_true by exact Hov. intros (H1 & H2 & H3). auto.
  Qed.

  Lemma SFsub_real (x y : bfloat) :
    is_finite x = true -> is_finite y = true ->
    (Rabs (rnd (B2R x - B2R y)) < bpow radix2 emax)%R ->
    exists z : bfloat, SFsub prec emax (B2SF x) (B2SF y) = B2SF z /\
      is_finite z = true /\ B2R z = rnd (B2R x - B2R y).
  Proof.
    intros Fx Fy Hov. exists (Bminus mode_NE x y). split; [apply SFsub_equiv|].
    generalize (Bminus_correct prec emax _ _ mode_NE x y Fx Fy).
    change (round_mode mode_NE) with ZnearestE.
    rewrite Rlt_bool_true by exact Hov. intros (H1 & H2 & H3). auto.
  Qed.

  Lemma SFdiv_real (x y : bfloat) :
    is_finite x = true -> B2R y <> 0%R ->
    (Rabs (rnd (B2R x / B2R y)) < bpow radix2 emax)%R ->
    exists z : bfloat, SFdiv prec emax (B2SF x) (B2SF y) = B2SF z /\
      is_finite z = true /\ B2R z = rnd (B2R x / B2R y).
  Proof.
    intros Fx Hy Hov. exists (Bdiv mode_NE x y). split; [apply SFdiv_equiv|].
    generalize (Bdiv_correct prec emax _ _ mode_NE x y Hy).
    change (round_mode mode_NE) with ZnearestE.
    rewrite Rlt_bool_true by exact Hov. intros (H1 & H2 & H3).
    rewrite H2. auto.
  Qed.

  Lemma SFltb_real (x y : bfloat) :
    is_finite x = true -> is_finite y = true ->
    SFltb (B2SF x) (B2SF y) = Rlt_bool (B2R x) (B2R y).
  Proof. intros Fx Fy. rewrite SFltb_equiv. now apply Bltb_correct. Qed.

  (* rounding is monotone and fixes representable numbers *)
  Lemma rnd_le x y : (x <= y)%R -> (rnd x <= rnd y)%R.
  Proof. apply round_le; [apply fexp_valid | apply valid_rnd_N]. Qed.

  Lemma rnd_B2R (x : bfloat) : rnd (B2R x) = B2R x.
  Proof. apply round_generic; [apply valid_rnd_N | apply generic_format_B2R]. Qed.

  Lemma rnd_0 : rnd 0 = 0%R.
  Proof. apply round_0. apply valid_rnd_N. Qed.

  (* every valid spec_float is the image of a binary_float *)
  Lemma finite_is_B2SF s m e :
    SpecFloat.bounded prec emax m e = true ->
    exists b : bfloat, S754_finite s m e = B2SF b /\ is_finite b = true /\
                       Bsign b = s /\ B2R b = F2R (Float radix2 (cond_Zopp s (Zpos m)) e).
  Proof. intros H. exists (B754_finite s m e H). repeat split. Qed.
End Bridge.
