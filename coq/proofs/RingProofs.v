(* Refinement of the concrete ring (model/Ring.v, mirroring frameloop.go) to the
   abstract ghost specification (model/RingSpec.v).  Property C19; reused by the
   processor and detector proofs. *)
From Coq Require Import List ZArith Bool Arith Lia ZifyBool ZifyNat.
From TR Require Import model.Ring model.RingSpec.
Import ListNotations.
Open Scope Z_scope.

Section RingProofs.
  Variable A : Type.
  Variable d : A.

  (* The coupling invariant between a concrete ring and its ghost state. *)
  Definition RInv (sz : Z) (r : ring A) (g : ghost A) : Prop :=
    let n := Z.of_nat (length (committed g)) in
    let k := Z.of_nat (since_mark g) in
    size r = sz /\ 1 <= sz /\ Z.of_nat (length (slots r)) = sz /\
    cur r = n mod sz /\
    (full r = true <-> sz <= n) /\
    (forall j, 1 <= j -> j <= n -> j <= sz - 1 ->
       zth d (slots r) ((cur r - j) mod sz) = nth (Z.to_nat (n - j)) (committed g) d) /\
    k <= n /\
    (if k <? sz then oldest r = (cur r - k) mod sz else oldest r = NO_OLDEST_SET).


  (* ---------- arithmetic helpers ---------- *)

  Lemma mod_sub_small : forall sz c j, 0 <= c < sz -> 0 <= j < sz ->
    (c - j) mod sz = if j <=? c then c - j else c - j + sz.
  Proof.
    intros sz c j Hc Hj. destruct (Z.leb_spec j c) as [Hle|Hlt].
    - apply Z.mod_small. lia.
    - rewrite <- (Z_mod_plus_full (c - j) 1 sz). rewrite Z.mul_1_l. apply Z.mod_small. lia.
  Qed.

  Lemma rem_wrap : forall sz k x, 0 <= k < sz -> (x = k \/ x = k + sz) -> Z.rem x sz = k.
  Proof.
    intros sz k x Hk [Hx|Hx]; subst x.
    - apply Z.rem_small. lia.
    - rewrite Z.rem_mod_nonneg by lia.
      replace (k + sz) with (k + 1 * sz) by lia.
      rewrite Z_mod_plus_full. apply Z.mod_small. lia.
  Qed.

  (* ---------- list helpers ---------- *)

  Lemma upd_length : forall (l : list A) n v, length (upd l n v) = length l.
  Proof. induction l as [|h t IH]; intros [|n] v; cbn; auto. Qed.

  Lemma upd_nth_same : forall (l : list A) n v,
    (n < length l)%nat -> nth n (upd l n v) d = v.
  Proof.
    induction l as [|h t IH]; intros [|n] v H; cbn in *; try lia; try reflexivity.
    apply IH. lia.
  Qed.

  Lemma upd_nth_other : forall (l : list A) n m v,
    n <> m -> nth m (upd l n v) d = nth m l d.
  Proof.
    induction l as [|h t IH]; intros [|n] [|m] v H; cbn;
      try congruence; try reflexivity.
    apply IH. congruence.
  Qed.

  Lemma nth_skipn' : forall a (l : list A) i, nth i (skipn a l) d = nth (a + i) l d.
  Proof.
    induction a as [|a IH]; intros [|h t] i; cbn; auto.
    destruct i; auto.
  Qed.

  Lemma nth_firstn' : forall a (l : list A) i,
    (i < a)%nat -> nth i (firstn a l) d = nth i l d.
  Proof.
    induction a as [|a IH]; intros l i H; [lia|].
    destruct l as [|h t]; cbn; auto.
    destruct i; auto. apply IH. lia.
  Qed.

  Lemma skipn_skipn' : forall y x (l : list A), skipn x (skipn y l) = skipn (y + x) l.
  Proof.
    induction y as [|y IH]; intros x l; cbn [Nat.add]; auto.
    destruct l as [|h t].
    - rewrite !skipn_nil. reflexivity.
    - cbn [skipn]. apply IH.
  Qed.

  Lemma hd_skipn : forall a (l : list A), hd d (skipn a l) = nth a l d.
  Proof.
    induction a as [|a IH]; intros [|h t]; cbn; auto.
  Qed.

  Lemma nth_rot : forall a (l : list A) i,
    (a <= length l)%nat -> (i < length l)%nat ->
    nth i (skipn a l ++ firstn a l) d =
    if (i <? length l - a)%nat then nth (a + i) l d else nth (i - (length l - a)) l d.
  Proof.
    intros a l i Ha Hi. destruct (Nat.ltb_spec i (length l - a)) as [Hlt|Hge].
    - rewrite app_nth1 by (rewrite skipn_length; lia). apply nth_skipn'.
    - rewrite app_nth2 by (rewrite skipn_length; lia).
      rewrite skipn_length. apply nth_firstn'. lia.
  Qed.

  Lemma lastn_length : forall m (l : list A), length (lastn m l) = Nat.min m (length l).
  Proof. intros m l. unfold lastn. rewrite skipn_length. lia. Qed.

  Lemma lastn_ext : forall (fh L : list A) m,
    length fh = m -> (m <= length L)%nat ->
    (forall i, (i < m)%nat -> nth i fh d = nth (length L - m + i) L d) ->
    fh = lastn m L.
  Proof.
    intros fh L m Hlen Hm Hnth. unfold lastn.
    apply nth_ext with (d := d) (d' := d).
    - rewrite skipn_length. lia.
    - intros i Hi. rewrite nth_skipn'. apply Hnth. lia.
  Qed.

  Lemma lastn_lastn : forall a b (l : list A),
    (a <= b)%nat -> (b <= length l)%nat ->
    skipn (length (lastn b l) - a) (lastn b l) = lastn a l.
  Proof.
    intros a b l Hab Hb. rewrite lastn_length. unfold lastn.
    rewrite skipn_skipn'. f_equal. lia.
  Qed.

  Lemma hd_lastn : forall m (l : list A), hd d (lastn m l) = nth (length l - m) l d.
  Proof. intros. unfold lastn. apply hd_skipn. Qed.

  (* ---------- consequences of the invariant ---------- *)

  (* lia on the linear part of the context only: the facts about mod / rem that
     are needed are extracted explicitly (RInv_cur_range, mod_sub_small, rem_wrap) *)
  Ltac llia :=
    repeat match goal with
           | H : context [Z.modulo] |- _ => clear H
           | H : context [Z.rem] |- _ => clear H
           end;
    lia.

  Ltac inv H :=
    unfold RInv in H; cbv zeta in H;
    destruct H as (Hsz & Hpos & Hlen & Hcur & Hfull & Hslots & Hkn & Hold).

  Lemma RInv_cur_range : forall sz r g, RInv sz r g ->
    0 <= cur r < sz /\ cur r <= Z.of_nat (length (committed g)) /\
    (Z.of_nat (length (committed g)) < sz -> cur r = Z.of_nat (length (committed g))).
  Proof.
    intros sz r g H. inv H. rewrite Hcur. split; [|split].
    - apply Z.mod_pos_bound. llia.
    - apply Z.mod_le; llia.
    - intros Hn. apply Z.mod_small. llia.
  Qed.

  (* every live slot, including the current one (j = 0) *)
  Lemma slot_spec : forall sz r g, RInv sz r g ->
    forall j, 0 <= j -> j <= Z.of_nat (length (committed g)) -> j <= sz - 1 ->
      zth d (slots r) ((cur r - j) mod sz) =
      nth (Z.to_nat (Z.of_nat (length (committed g)) - j)) (committed g ++ [current d r]) d.
  Proof.
    intros sz r g H j Hj0 Hjn Hjs.
    destruct (RInv_cur_range _ _ _ H) as (Hc & _ & _). inv H.
    destruct (Z.eq_dec j 0) as [->|Hne].
    - rewrite Z.sub_0_r. rewrite Z.mod_small by llia.
      rewrite app_nth2 by llia.
      replace (Z.to_nat (Z.of_nat (length (committed g)) - 0) - length (committed g))%nat
        with 0%nat by llia.
      reflexivity.
    - rewrite Hslots by llia. rewrite app_nth1 by llia. reflexivity.
  Qed.

  (* same, with the index given linearly *)
  Lemma slot_at : forall sz r g, RInv sz r g ->
    forall i j, 0 <= j -> j <= Z.of_nat (length (committed g)) -> j <= sz - 1 ->
      0 <= i < sz -> (i = cur r - j \/ i = cur r - j + sz) ->
      zth d (slots r) i =
      nth (Z.to_nat (Z.of_nat (length (committed g)) - j)) (committed g ++ [current d r]) d.
  Proof.
    intros sz r g H i j Hj0 Hjn Hjs Hi Hij.
    destruct (RInv_cur_range _ _ _ H) as (Hc & _ & _).
    rewrite <- (slot_spec _ _ _ H) by llia. f_equal.
    rewrite mod_sub_small by llia.
    destruct (Z.leb_spec j (cur r)); llia.
  Qed.

  Lemma fh_spec : forall sz r g, RInv sz r g ->
    get_full_history r =
    lastn (Nat.min (Z.to_nat sz) (S (length (committed g)))) (committed g ++ [current d r]).
  Proof.
    intros sz r g H.
    destruct (RInv_cur_range _ _ _ H) as (Hc & Hcn & Hsmall).
    pose proof (slot_at _ _ _ H) as Hat. inv H.
    assert (HL : length (committed g ++ [current d r]) = S (length (committed g))).
    { rewrite app_length. cbn [length]. llia. }
    unfold get_full_history. rewrite Hsz.
    destruct (Z.eqb_spec (cur r) (sz - 1)) as [Hlast|Hnl].
    - (* current slot is the last one: the slots in order *)
      apply lastn_ext.
      + llia.
      + llia.
      + intros i Hi. rewrite HL.
        change (nth i (slots r) d) with (nth i (slots r) d).
        replace i with (Z.to_nat (Z.of_nat i)) at 1 by llia.
        fold (zth d (slots r) (Z.of_nat i)).
        rewrite (Hat (Z.of_nat i) (sz - 1 - Z.of_nat i)) by llia.
        f_equal. llia.
    - unfold next_index_after. rewrite Hsz.
      rewrite Z.rem_small by llia.
      destruct (full r) eqn:Hf; cbn [negb].
      + (* full: rotation *)
        assert (Hn : sz <= Z.of_nat (length (committed g))) by (apply Hfull; reflexivity).
        apply lastn_ext.
        * rewrite app_length, skipn_length, firstn_length. llia.
        * llia.
        * intros i Hi. rewrite HL.
          rewrite nth_rot by llia.
          destruct (Nat.ltb_spec i (length (slots r) - Z.to_nat (cur r + 1))) as [Hlt|Hge].
          -- replace (Z.to_nat (cur r + 1) + i)%nat
               with (Z.to_nat (cur r + 1 + Z.of_nat i)) by llia.
             fold (zth d (slots r) (cur r + 1 + Z.of_nat i)).
             rewrite (Hat (cur r + 1 + Z.of_nat i) (sz - 1 - Z.of_nat i)) by llia.
             f_equal. llia.
          -- replace (i - (length (slots r) - Z.to_nat (cur r + 1)))%nat
               with (Z.to_nat (Z.of_nat i - sz + cur r + 1)) by llia.
             fold (zth d (slots r) (Z.of_nat i - sz + cur r + 1)).
             rewrite (Hat (Z.of_nat i - sz + cur r + 1) (sz - 1 - Z.of_nat i)) by llia.
             f_equal. llia.
      + (* not yet full: the prefix *)
        assert (Hn : Z.of_nat (length (committed g)) < sz).
        { destruct (Z.lt_ge_cases (Z.of_nat (length (committed g))) sz) as [Hl|Hg]; auto.
          apply Hfull in Hg. congruence. }
        specialize (Hsmall Hn).
        apply lastn_ext.
        * rewrite firstn_length. llia.
        * llia.
        * intros i Hi. rewrite HL.
          rewrite nth_firstn' by llia.
          replace i with (Z.to_nat (Z.of_nat i)) at 1 by llia.
          fold (zth d (slots r) (Z.of_nat i)).
          rewrite (Hat (Z.of_nat i) (cur r - Z.of_nat i)) by llia.
          f_equal. llia.
  Qed.

  Theorem RInv_init : forall sz blank, 1 <= sz -> RInv sz (new_ring sz blank) (ghost0 A).
  Proof.
    intros sz blank Hsz. unfold RInv, new_ring, ghost0. cbv zeta.
    cbn [size cur full oldest slots committed since_mark length].
    change (Z.of_nat 0) with 0.
    split; [reflexivity|]. split; [assumption|].
    split; [rewrite repeat_length; llia|].
    split; [rewrite Z.mod_0_l by llia; reflexivity|].
    split; [split; [discriminate|llia]|].
    split; [intros j H1 H2 H3; llia|].
    split; [llia|].
    destruct (Z.ltb_spec 0 sz) as [_|Hge]; [|llia].
    rewrite Z.mod_0_l by llia. reflexivity.
  Qed.

  Theorem RInv_step : forall sz r g o,
      RInv sz r g -> RInv sz (rstep r o) (gstep (current d r) g o).
  Proof.
    intros sz r g o H.
    destruct (RInv_cur_range _ _ _ H) as (Hc & Hcn & Hsmall). inv H.
    destruct o as [v| | |]; cbn [rstep gstep].
    - (* put *)
      unfold RInv, put. cbv zeta. cbn [size cur full oldest slots].
      split; [assumption|]. split; [assumption|].
      split; [rewrite upd_length; assumption|].
      split; [assumption|]. split; [assumption|].
      split; [|split; assumption].
      intros j Hj1 Hjn Hjs. rewrite <- Hslots by llia.
      unfold zth. apply upd_nth_other.
      rewrite mod_sub_small by llia.
      destruct (Z.leb_spec j (cur r)); llia.
    - (* move *)
      set (n := Z.of_nat (length (committed g))) in *.
      set (k := Z.of_nat (since_mark g)) in *.
      set (c := next_index_after r (cur r)).
      assert (Hcm : c = (cur r + 1) mod sz).
      { unfold c, next_index_after. rewrite Hsz. apply Z.rem_mod_nonneg; llia. }
      assert (Hcl : (cur r + 1 < sz /\ c = cur r + 1) \/ (cur r + 1 = sz /\ c = 0)).
      { rewrite Hcm. destruct (Z.eq_dec (cur r + 1) sz) as [He|Hne].
        - right. split; [assumption|]. rewrite He. apply Z.mod_same. llia.
        - left. split; [llia|]. apply Z.mod_small. llia. }
      assert (Hn' : Z.of_nat (length (committed g ++ [current d r])) = n + 1).
      { rewrite app_length. cbn [length]. llia. }
      unfold RInv, move. cbv zeta. cbn [size cur full oldest slots committed since_mark].
      fold c. rewrite Hn'.
      split; [assumption|]. split; [assumption|]. split; [assumption|].
      split.
      { rewrite Hcm, Hcur. apply Zplus_mod_idemp_l. }
      split.
      { destruct (Z.eqb_spec c 0) as [Hc0|Hc0].
        - split; [intros _; llia|reflexivity].
        - rewrite Hfull. split; intros Hle; [llia|].
          destruct (Z.lt_ge_cases n sz) as [Hl|Hg]; [|assumption].
          specialize (Hsmall Hl). llia. }
      split.
      { intros j Hj1 Hjn Hjs.
        assert (Hidx : (c - j) mod sz = (cur r - (j - 1)) mod sz).
        { rewrite Hcm, Zminus_mod_idemp_l. f_equal. llia. }
        rewrite Hidx.
        rewrite (slot_spec sz r g) by (try llia;
          unfold RInv; cbv zeta; repeat (split; try assumption)).
        f_equal. fold n. llia. }
      split; [llia|].
      assert (Hidx : (c - Z.of_nat (S (since_mark g))) mod sz = (cur r - k) mod sz).
      { rewrite Hcm, Zminus_mod_idemp_l. f_equal. llia. }
      rewrite Hidx.
      destruct (Z.ltb_spec k sz) as [Hk|Hk].
      + rewrite mod_sub_small in Hold |- * by llia.
        destruct (Z.ltb_spec (Z.of_nat (S (since_mark g))) sz) as [Hk'|Hk'].
        * destruct (Z.eqb_spec c (oldest r)) as [He|Hne]; [|assumption].
          exfalso. destruct (Z.leb_spec k (cur r)); llia.
        * destruct (Z.eqb_spec c (oldest r)) as [He|Hne]; [reflexivity|].
          exfalso. destruct (Z.leb_spec k (cur r)); llia.
      + destruct (Z.ltb_spec (Z.of_nat (S (since_mark g))) sz) as [Hk'|Hk']; [llia|].
        destruct (Z.eqb_spec c (oldest r)) as [He|Hne]; [reflexivity|assumption].
    - (* mark *)
      unfold RInv, set_as_oldest. cbv zeta.
      cbn [size cur full oldest slots committed since_mark].
      split; [assumption|]. split; [assumption|]. split; [assumption|].
      split; [assumption|]. split; [assumption|]. split; [assumption|].
      split; [llia|].
      change (Z.of_nat 0) with 0.
      destruct (Z.ltb_spec 0 sz) as [_|Hge]; [|llia].
      rewrite Z.sub_0_r. rewrite Z.mod_small by llia. reflexivity.
    - (* reset *)
      unfold RInv, reset. cbv zeta.
      cbn [size cur full oldest slots committed since_mark length].
      change (Z.of_nat 0) with 0.
      split; [assumption|]. split; [assumption|]. split; [assumption|].
      split; [rewrite Z.mod_0_l by llia; reflexivity|].
      split; [split; [discriminate|llia]|].
      split; [intros j H1 H2 H3; llia|].
      split; [llia|].
      destruct (Z.ltb_spec 0 sz) as [_|Hge]; [|llia].
      rewrite Z.mod_0_l by llia. reflexivity.
  Qed.

  Theorem RInv_history : forall sz r g,
      RInv sz r g ->
      get_history r = Some (spec_history (Z.to_nat sz) g (current d r)).
  Proof.
    intros sz r g H.
    pose proof (fh_spec _ _ _ H) as Hfh.
    destruct (RInv_cur_range _ _ _ H) as (Hc & Hcn & Hsmall). inv H.
    assert (HL : length (committed g ++ [current d r]) = S (length (committed g))).
    { rewrite app_length. cbn [length]. llia. }
    unfold get_history, spec_history. rewrite Hfh.
    destruct (Z.ltb_spec (Z.of_nat (since_mark g)) sz) as [Hk|Hk].
    - rewrite mod_sub_small in Hold by llia.
      assert (Hhl : Z.rem (cur r - oldest r + size r) (size r) = Z.of_nat (since_mark g)).
      { rewrite Hsz. apply rem_wrap; [llia|].
        destruct (Z.leb_spec (Z.of_nat (since_mark g)) (cur r)); llia. }
      rewrite Hhl. clear Hhl Hcur Hslots Hfull Hfh Hsmall.
      destruct (Z.eqb_spec (oldest r) NO_OLDEST_SET) as [He|Hne].
      { exfalso. unfold NO_OLDEST_SET in He.
        destruct (Z.leb_spec (Z.of_nat (since_mark g)) (cur r)); llia. }
      clear Hold Hne.
      set (L := committed g ++ [current d r]) in *.
      set (m := Nat.min (Z.to_nat sz) (S (length (committed g)))) in *.
      assert (Hm1 : (S (since_mark g) <= m)%nat) by (unfold m; llia).
      assert (Hm2 : (m <= length L)%nat) by (unfold m; llia).
      replace (Nat.min (Z.to_nat sz) (S (since_mark g))) with (S (since_mark g)) by llia.
      rewrite lastn_length. replace (Nat.min m (length L)) with m by llia.
      destruct ((Z.of_nat (since_mark g) + 1 >? Z.of_nat m) ||
                (Z.of_nat (since_mark g) + 1 <? 0)) eqn:Hb; [exfalso; llia|].
      f_equal.
      rewrite <- (lastn_lastn (S (since_mark g)) m L Hm1 Hm2).
      rewrite lastn_length. f_equal. llia.
    - rewrite Hold. rewrite Z.eqb_refl. f_equal. f_equal. llia.
  Qed.

  Theorem RInv_oldest : forall sz r g,
      RInv sz r g ->
      oldest_slot d r = spec_oldest d (Z.to_nat sz) g (current d r).
  Proof.
    intros sz r g H.
    pose proof (slot_spec _ _ _ H) as Hspec.
    destruct (RInv_cur_range _ _ _ H) as (Hc & Hcn & Hsmall). inv H.
    assert (HL : length (committed g ++ [current d r]) = S (length (committed g))).
    { rewrite app_length. cbn [length]. llia. }
    unfold oldest_slot, spec_oldest, spec_history. rewrite hd_lastn, HL.
    destruct (Z.ltb_spec (Z.of_nat (since_mark g)) sz) as [Hk|Hk].
    - destruct (Z.eqb_spec (oldest r) NO_OLDEST_SET) as [He|Hne]; cbn [negb].
      { exfalso. unfold NO_OLDEST_SET in He.
        rewrite mod_sub_small in Hold by llia.
        destruct (Z.leb_spec (Z.of_nat (since_mark g)) (cur r)); llia. }
      rewrite Hold, Hspec by llia. f_equal. llia.
    - rewrite Hold, Z.eqb_refl. cbn [negb].
      unfold next_index_after. rewrite Hsz.
      rewrite Z.rem_mod_nonneg by llia.
      replace ((cur r + 1) mod sz) with ((cur r - (sz - 1)) mod sz).
      2:{ rewrite <- (Z_mod_plus_full (cur r - (sz - 1)) 1 sz). f_equal. llia. }
      rewrite Hspec by llia. f_equal. llia.
  Qed.

  Theorem RInv_recent : forall sz r g x,
      RInv sz r g ->
      spec_recent (Z.to_nat sz) g (current d r) = Some x ->
      recent d r = x.
  Proof.
    intros sz r g x H Hx.
    pose proof (slot_spec _ _ _ H) as Hspec.
    destruct (RInv_cur_range _ _ _ H) as (Hc & Hcn & Hsmall). inv H.
    unfold spec_recent in Hx. unfold recent, recent_index. rewrite Hsz.
    destruct (Nat.eqb_spec (Z.to_nat sz) 1) as [H1|H1].
    - injection Hx as <-. assert (sz = 1) as -> by llia.
      assert (cur r = 0) as Hc0 by llia. unfold current. f_equal.
      rewrite Hc0. reflexivity.
    - assert (Hrev : committed g = rev (rev (committed g))) by (symmetry; apply rev_involutive).
      destruct (rev (committed g)) as [|y t] eqn:Hr; [discriminate|].
      injection Hx as ->. cbn [rev] in Hrev.
      assert (Hn : length (committed g) = S (length t)).
      { rewrite Hrev, app_length, rev_length. cbn [length]. llia. }
      rewrite Z.rem_mod_nonneg by llia.
      replace ((cur r - 1 + sz) mod sz) with ((cur r - 1) mod sz).
      2:{ rewrite <- (Z_mod_plus_full (cur r - 1) 1 sz). f_equal. llia. }
      rewrite Hslots by llia.
      rewrite Hrev at 2.
      rewrite app_nth2 by (rewrite rev_length; llia).
      rewrite rev_length.
      replace (Z.to_nat (Z.of_nat (length (committed g)) - 1) - length t)%nat with 0%nat by llia.
      reflexivity.
  Qed.

  Theorem RInv_mark_expiry : forall sz r g,
      RInv sz r g ->
      (oldest r = NO_OLDEST_SET <-> (Z.to_nat sz <= since_mark g)%nat).
  Proof.
    intros sz r g H.
    destruct (RInv_cur_range _ _ _ H) as (Hc & Hcn & Hsmall). inv H.
    destruct (Z.ltb_spec (Z.of_nat (since_mark g)) sz) as [Hk|Hk].
    - rewrite mod_sub_small in Hold by llia. unfold NO_OLDEST_SET.
      destruct (Z.leb_spec (Z.of_nat (since_mark g)) (cur r)); llia.
    - split; [llia|intros _; assumption].
  Qed.

  Theorem RInv_put_current : forall sz r g v,
      RInv sz r g -> current d (put r v) = v.
  Proof.
    intros sz r g v H.
    destruct (RInv_cur_range _ _ _ H) as (Hc & Hcn & Hsmall). inv H.
    unfold current, put, zth. cbn [slots cur].
    apply upd_nth_same. llia.
  Qed.

  (* ---- statements over every reachable state (all op sequences, all capacities >= 1) ---- *)

  Definition reach (sz : Z) (blank : A) (ops : list (rop A)) : ring A * ghost A :=
    grrun d (new_ring sz blank, ghost0 A) ops.

  Lemma RInv_run : forall sz ops r g,
      RInv sz r g ->
      RInv sz (fst (grrun d (r, g) ops)) (snd (grrun d (r, g) ops)).
  Proof.
    intros sz ops. induction ops as [|o ops IH]; intros r g H.
    - exact H.
    - unfold grrun in *. cbn [fold_left].
      change (grstep d (r, g) o) with (rstep r o, gstep (current d r) g o).
      apply IH. apply RInv_step. exact H.
  Qed.

  Theorem ring_inv_reachable : forall sz blank ops,
      1 <= sz -> RInv sz (fst (reach sz blank ops)) (snd (reach sz blank ops)).
  Proof.
    intros sz blank ops Hsz. unfold reach. apply RInv_run. apply RInv_init. exact Hsz.
  Qed.

  Theorem get_history_refines : forall sz blank ops,
      1 <= sz ->
      let r := fst (reach sz blank ops) in
      let g := snd (reach sz blank ops) in
      get_history r = Some (spec_history (Z.to_nat sz) g (current d r)).
  Proof.
    intros sz blank ops Hsz r g. apply RInv_history.
    apply ring_inv_reachable. exact Hsz.
  Qed.

  Theorem oldest_refines : forall sz blank ops,
      1 <= sz ->
      let r := fst (reach sz blank ops) in
      let g := snd (reach sz blank ops) in
      oldest_slot d r = spec_oldest d (Z.to_nat sz) g (current d r).
  Proof.
    intros sz blank ops Hsz r g. apply RInv_oldest.
    apply ring_inv_reachable. exact Hsz.
  Qed.

  Theorem recent_refines : forall sz blank ops x,
      1 <= sz ->
      let r := fst (reach sz blank ops) in
      let g := snd (reach sz blank ops) in
      spec_recent (Z.to_nat sz) g (current d r) = Some x -> recent d r = x.
  Proof.
    intros sz blank ops x Hsz r g. apply RInv_recent.
    apply ring_inv_reachable. exact Hsz.
  Qed.

  Theorem mark_expiry : forall sz blank ops,
      1 <= sz ->
      let r := fst (reach sz blank ops) in
      let g := snd (reach sz blank ops) in
      (oldest r = NO_OLDEST_SET <-> (Z.to_nat sz <= since_mark g)%nat).
  Proof.
    intros sz blank ops Hsz r g. apply RInv_mark_expiry.
    apply ring_inv_reachable. exact Hsz.
  Qed.

  (* ---- consequences phrased as in the property text ---- *)

  (* the history ends with the current frame, holds at most [sz] frames, and every
     other element is a value committed since creation / Reset, in commit order:
     it is a suffix of committed ++ [current]. *)
  Theorem history_is_suffix : forall sz blank ops,
      1 <= sz ->
      let r := fst (reach sz blank ops) in
      let g := snd (reach sz blank ops) in
      exists h pre,
        get_history r = Some h /\
        committed g ++ [current d r] = pre ++ h /\
        (1 <= length h <= Z.to_nat sz)%nat /\
        length h = Nat.min (Z.to_nat sz) (S (since_mark g)).
  Proof.
    intros sz blank ops Hsz1 r g.
    pose proof (ring_inv_reachable sz blank ops Hsz1) as H. fold r g in H.
    pose proof (RInv_history _ _ _ H) as Hh. inv H.
    assert (HL : length (committed g ++ [current d r]) = S (length (committed g))).
    { rewrite app_length. cbn [length]. llia. }
    exists (spec_history (Z.to_nat sz) g (current d r)).
    exists (firstn (length (committed g ++ [current d r]) -
                    Nat.min (Z.to_nat sz) (S (since_mark g)))
                   (committed g ++ [current d r])).
    split; [exact Hh|].
    split; [unfold spec_history, lastn; symmetry; apply firstn_skipn|].
    unfold spec_history. rewrite lastn_length, HL. llia.
  Qed.

  Theorem since_mark_le_committed : forall sz blank ops,
      1 <= sz ->
      let g := snd (reach sz blank ops) in
      (since_mark g <= length (committed g))%nat.
  Proof.
    intros sz blank ops Hsz1 g.
    pose proof (ring_inv_reachable sz blank ops Hsz1) as H. fold g in H.
    inv H. llia.
  Qed.

End RingProofs.

Print Assumptions get_history_refines.
Print Assumptions oldest_refines.
Print Assumptions recent_refines.
Print Assumptions mark_expiry.
Print Assumptions history_is_suffix.
