(* Refinement of the concrete ring (model/Ring.v, mirroring frameloop.go) to the
   abstract ghost specification (model/RingSpec.v).  Property C19; reused by the
   processor and detector proofs. *)
From Coq Require Import List ZArith Bool Arith Lia.
From TR Require Import model.Ring model.RingSpec.
Import ListNotations.
Open Scope Z_scope.

Section RingProofs.
  Variable A : Type.
  Variable d : A.

  (* The coupling invariant between a concrete ring and its ghost state. *)
  Definition RInv (sz : Z) (r : ring A) (g : ghost A) : Prop :=
    let n := Z.of_nat (length (committed g)) in
    let k := Z.of_nat (since_mark g) in
    size r = sz /\ 1 <= sz /\ Z.of_nat (length (slots r)) = sz /\
    cur r = n mod sz /\
    (full r = true <-> sz <= n) /\
    (forall j, 1 <= j -> j <= n -> j <= sz - 1 ->
       zth d (slots r) ((cur r - j) mod sz) = nth (Z.to_nat (n - j)) (committed g) d) /\
    k <= n /\
    (if k <? sz then oldest r = (cur r - k) mod sz else oldest r = NO_OLDEST_SET).

  Theorem RInv_init : forall sz blank, 1 <= sz -> RInv sz (new_ring sz blank) (ghost0 A).
  Admitted.

  Theorem RInv_step : forall sz r g o,
      RInv sz r g -> RInv sz (rstep r o) (gstep (current d r) g o).
  Admitted.

  Theorem RInv_history : forall sz r g,
      RInv sz r g ->
      get_history r = Some (spec_history (Z.to_nat sz) g (current d r)).
  Admitted.

  Theorem RInv_oldest : forall sz r g,
      RInv sz r g ->
      oldest_slot d r = spec_oldest d (Z.to_nat sz) g (current d r).
  Admitted.

  Theorem RInv_recent : forall sz r g x,
      RInv sz r g ->
      spec_recent (Z.to_nat sz) g (current d r) = Some x ->
      recent d r = x.
  Admitted.

  Theorem RInv_mark_expiry : forall sz r g,
      RInv sz r g ->
      (oldest r = NO_OLDEST_SET <-> (Z.to_nat sz <= since_mark g)%nat).
  Admitted.

  Theorem RInv_put_current : forall sz r g v,
      RInv sz r g -> current d (put r v) = v.
  Admitted.

  (* ---- statements over every reachable state (all op sequences, all capacities >= 1) ---- *)

  Definition reach (sz : Z) (blank : A) (ops : list (rop A)) : ring A * ghost A :=
    grrun d (new_ring sz blank, ghost0 A) ops.

  Theorem ring_inv_reachable : forall sz blank ops,
      1 <= sz -> RInv sz (fst (reach sz blank ops)) (snd (reach sz blank ops)).
  Admitted.

  Theorem get_history_refines : forall sz blank ops,
      1 <= sz ->
      let r := fst (reach sz blank ops) in
      let g := snd (reach sz blank ops) in
      get_history r = Some (spec_history (Z.to_nat sz) g (current d r)).
  Admitted.

  Theorem oldest_refines : forall sz blank ops,
      1 <= sz ->
      let r := fst (reach sz blank ops) in
      let g := snd (reach sz blank ops) in
      oldest_slot d r = spec_oldest d (Z.to_nat sz) g (current d r).
  Admitted.

  Theorem recent_refines : forall sz blank ops x,
      1 <= sz ->
      let r := fst (reach sz blank ops) in
      let g := snd (reach sz blank ops) in
      spec_recent (Z.to_nat sz) g (current d r) = Some x -> recent d r = x.
  Admitted.

  Theorem mark_expiry : forall sz blank ops,
      1 <= sz ->
      let r := fst (reach sz blank ops) in
      let g := snd (reach sz blank ops) in
      (oldest r = NO_OLDEST_SET <-> (Z.to_nat sz <= since_mark g)%nat).
  Admitted.

  (* ---- consequences phrased as in the property text ---- *)

  (* the history ends with the current frame, holds at most [sz] frames, and every
     other element is a value committed since creation / Reset, in commit order:
     it is a suffix of committed ++ [current]. *)
  Theorem history_is_suffix : forall sz blank ops,
      1 <= sz ->
      let r := fst (reach sz blank ops) in
      let g := snd (reach sz blank ops) in
      exists h pre,
        get_history r = Some h /\
        committed g ++ [current d r] = pre ++ h /\
        (1 <= length h <= Z.to_nat sz)%nat /\
        length h = Nat.min (Z.to_nat sz) (S (since_mark g)).
  Admitted.

  Theorem since_mark_le_committed : forall sz blank ops,
      1 <= sz ->
      let g := snd (reach sz blank ops) in
      (since_mark g <= length (committed g))%nat.
  Admitted.

End RingProofs.
