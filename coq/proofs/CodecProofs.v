(* C11, pixel codec: go-cptv's snake / delta / bit-pack compression is lossless for all
   16-bit frames. *)
From Coq Require Import List ZArith Bool Arith Lia.
From TR Require Import model.Codec.
Import ListNotations.
Open Scope Z_scope.

Definition pixels_ok (f : list Z) : Prop := Forall (fun v => 0 <= v <= 65535) f.

(* one frame: for every resolution rows x cols (at least one pixel), every previous frame and
   every current frame of 16-bit values, decompressing what the compressor produced (with the
   bit width it reported) yields the frame pixel for pixel *)
Theorem codec_roundtrip : forall rows cols prev cur,
    1 <= rows -> 1 <= cols ->
    length prev = Z.to_nat (rows * cols) -> length cur = Z.to_nat (rows * cols) ->
    pixels_ok prev -> pixels_ok cur ->
    let '(w, data) := compress cols prev cur in
    decompress cols (Z.to_nat (rows * cols)) w data prev = Some cur /\ 1 <= w <= 19.
Admitted.

(* a whole recording: compressor and decompressor each thread their previous frame *)
Theorem codec_roundtrip_seq : forall rows cols frames prev,
    1 <= rows -> 1 <= cols ->
    length prev = Z.to_nat (rows * cols) -> pixels_ok prev ->
    Forall (fun f => length f = Z.to_nat (rows * cols) /\ pixels_ok f) frames ->
    roundtrip_seq cols (Z.to_nat (rows * cols)) prev frames = Some frames.
Admitted.

(* non-vacuity: 2 x 3 frames with extreme values, two frames in sequence *)
Example codec_ex :
  roundtrip_seq 3 6 [0; 0; 0; 0; 0; 0] [[0; 65535; 0; 65535; 0; 65535]; [65535; 0; 65535; 1; 2; 3]; [7; 7; 7; 7; 7; 7]; [7; 7; 7; 7; 7; 7]]
  = Some [[0; 65535; 0; 65535; 0; 65535]; [65535; 0; 65535; 1; 2; 3]; [7; 7; 7; 7; 7; 7]; [7; 7; 7; 7; 7; 7]].
Proof. vm_compute. reflexivity. Qed.
