(* C11, pixel codec: go-cptv's snake / delta / bit-pack compression is lossless for all
   16-bit frames. *)
From Coq Require Import List ZArith Bool Arith Lia.
From TR Require Import model.Codec proofs.CodecBits.
Import ListNotations.
Open Scope Z_scope.

#[local] Arguments Z.pow : simpl never.
#[local] Arguments Z.mul : simpl never.
#[local] Arguments Z.add : simpl never.
#[local] Arguments Z.sub : simpl never.
#[local] Arguments Z.div : simpl never.
#[local] Arguments Z.modulo : simpl never.

Definition pixels_ok (f : list Z) : Prop := Forall (fun v => 0 <= v <= 65535) f.

(* ---------- snake order ---------- *)
Lemma nth_map_seq : forall (f : nat -> Z) n i d, (i < n)%nat -> nth i (map f (seq 0 n)) d = f i.
Proof.
  intros f n i d Hi. rewrite (nth_indep _ d (f 0%nat)) by (rewrite map_length, seq_length; lia).
  rewrite map_nth. rewrite seq_nth by lia. reflexivity.
Qed.

Lemma snake_pos_parts : forall cols y x, 1 <= cols -> 0 <= x < cols ->
  (y * cols + x) / cols = y /\ (y * cols + x) mod cols = x.
Proof.
  intros cols y x Hc Hx. split.
  - rewrite Z.div_add_l by lia. rewrite Z.div_small by lia. lia.
  - rewrite Z.add_comm, Z.mod_add by lia. apply Z.mod_small; lia.
Qed.

Lemma snake_pos_invol : forall cols i, 1 <= cols -> snake_pos cols (snake_pos cols i) = i.
Proof.
  intros cols i Hc. unfold snake_pos.
  pose proof (Z.div_mod i cols ltac:(lia)) as Ei. pose proof (Z.mod_pos_bound i cols ltac:(lia)) as Hx.
  set (y := i / cols) in *. set (x := i mod cols) in *.
  destruct (Z.odd y) eqn:Eo.
  - destruct (snake_pos_parts cols y (cols - x - 1) Hc ltac:(lia)) as [-> ->]. rewrite Eo. lia.
  - destruct (snake_pos_parts cols y x Hc ltac:(lia)) as [-> ->]. rewrite Eo. lia.
Qed.

Lemma snake_pos_bound : forall rows cols i, 1 <= cols -> 0 <= i < rows * cols ->
  0 <= snake_pos cols i < rows * cols.
Proof.
  intros rows cols i Hc Hi. unfold snake_pos.
  pose proof (Z.div_mod i cols ltac:(lia)) as Ei. pose proof (Z.mod_pos_bound i cols ltac:(lia)) as Hx.
  assert (Hy : 0 <= i / cols < rows).
  { split; [apply Z.div_pos; lia | apply Z.div_lt_upper_bound; lia]. }
  set (y := i / cols) in *. set (x := i mod cols) in *.
  destruct (Z.odd y); nia.
Qed.

Lemma snake_length : forall cols f, length (snake cols f) = length f.
Proof. intros. unfold snake. rewrite map_length, seq_length. reflexivity. Qed.

Lemma unsnake_is_snake : forall cols s, unsnake cols s = snake cols s.
Proof. reflexivity. Qed.

Lemma zth_snake : forall cols f i, 0 <= i < Z.of_nat (length f) ->
  zth (snake cols f) i = zth f (snake_pos cols i).
Proof.
  intros cols f i Hi. unfold zth at 1. unfold snake. rewrite nth_map_seq by lia.
  rewrite Z2Nat.id by lia. reflexivity.
Qed.

Lemma unsnake_snake : forall rows cols l, 1 <= cols -> length l = Z.to_nat (rows * cols) ->
  unsnake cols (snake cols l) = l.
Proof.
  intros rows cols l Hc Hl. rewrite unsnake_is_snake.
  apply nth_ext with (d := 0) (d' := 0); [rewrite !snake_length; reflexivity |].
  intros i Hi. rewrite !snake_length in Hi.
  unfold snake at 1. rewrite nth_map_seq by (rewrite snake_length; exact Hi).
  assert (Hi' : 0 <= Z.of_nat i < rows * cols) by lia.
  pose proof (snake_pos_bound rows cols _ Hc Hi') as Hb.
  rewrite zth_snake by lia. rewrite snake_pos_invol by exact Hc.
  unfold zth. rewrite Nat2Z.id. reflexivity.
Qed.

Lemma snake_Forall : forall (P : Z -> Prop) cols f, P 0 -> Forall P f -> Forall P (snake cols f).
Proof.
  intros P cols f H0 Hf. unfold snake. apply Forall_forall. intros x Hx.
  apply in_map_iff in Hx. destruct Hx as (i & <- & _). unfold zth.
  destruct (nth_in_or_default (Z.to_nat (snake_pos cols (Z.of_nat i))) f 0) as [Hin | ->].
  - exact (proj1 (Forall_forall P f) Hf _ Hin).
  - exact H0.
Qed.

(* ---------- ranges ---------- *)
Lemma delta_range : forall cur prev, pixels_ok cur -> pixels_ok prev ->
  Forall (fun v => -65535 <= v <= 65535) (map (fun p => fst p - snd p) (combine cur prev)).
Proof.
  intros cur prev Hc Hp. apply Forall_forall. intros v Hv. apply in_map_iff in Hv.
  destruct Hv as ([a b] & <- & Hin). cbn [fst snd].
  pose proof (proj1 (Forall_forall _ _) Hc a (in_combine_l _ _ _ _ Hin)) as Ha.
  pose proof (proj1 (Forall_forall _ _) Hp b (in_combine_r _ _ _ _ Hin)) as Hb.
  cbv beta in Ha, Hb. lia.
Qed.

Lemma adj_deltas_cons2 : forall a b l, adj_deltas (a :: b :: l) = (b - a) :: adj_deltas (b :: l).
Proof. reflexivity. Qed.

Lemma adj_deltas_range : forall B l, Forall (fun v => - B <= v <= B) l ->
  Forall (fun d => - (2 * B) <= d <= 2 * B) (adj_deltas l).
Proof.
  intros B. induction l as [| a l IH]; intros Hl; [constructor |].
  destruct l as [| b l']; [constructor |].
  rewrite adj_deltas_cons2. inversion Hl as [| ? ? Ha Hl']; subst.
  constructor; [| apply IH; exact Hl'].
  inversion Hl' as [| ? ? Hb _]; subst. lia.
Qed.

Lemma adj_deltas_length : forall a l, length (adj_deltas (a :: l)) = length l.
Proof.
  intros a l; revert a. induction l as [| b l IH]; intro a; [reflexivity |].
  rewrite adj_deltas_cons2. cbn [length]. rewrite IH. reflexivity.
Qed.

Lemma prefix_sums_adj : forall l a, prefix_sums a (adj_deltas (a :: l)) = l.
Proof.
  induction l as [| b l IH]; intro a; [reflexivity |].
  rewrite adj_deltas_cons2. cbn [prefix_sums]. replace (a + (b - a)) with b by lia.
  rewrite IH. reflexivity.
Qed.

Definition fmax (m d : Z) : Z := Z.max m (Z.abs d).

Lemma fold_max_acc : forall l m, m <= fold_left fmax l m.
Proof.
  induction l as [| d l IH]; intro m; cbn [fold_left]; [lia |].
  specialize (IH (fmax m d)). unfold fmax in *. lia.
Qed.

Lemma fold_max_ge : forall l m d, In d l -> Z.abs d <= fold_left fmax l m.
Proof.
  induction l as [| x l IH]; intros m d Hin; [destruct Hin |]. cbn [fold_left].
  destruct Hin as [-> | Hin].
  - pose proof (fold_max_acc l (fmax m d)). unfold fmax in *. lia.
  - apply IH; exact Hin.
Qed.

Lemma fold_max_le : forall B l m, m <= B -> Forall (fun d => - B <= d <= B) l -> fold_left fmax l m <= B.
Proof.
  intros B. induction l as [| x l IH]; intros m Hm Hl; cbn [fold_left]; [lia |].
  inversion Hl as [| ? ? Hx Hl']; subst. apply IH; [unfold fmax; lia | exact Hl'].
Qed.

Lemma max_abs_fold : forall l, max_abs l = fold_left fmax l 0.
Proof. reflexivity. Qed.

(* the width the compressor picks fits every adjacent difference, and is at most 18 *)
Lemma width_ok : forall ad, Forall (fun d => - 131070 <= d <= 131070) ad ->
  1 <= num_bits (max_abs ad) + 1 <= 18 /\ Forall (inr (num_bits (max_abs ad) + 1)) ad.
Proof.
  intros ad Had. rewrite max_abs_fold.
  pose proof (fold_max_acc ad 0) as Hm0.
  pose proof (fold_max_le 131070 ad 0 ltac:(lia) Had) as HmB.
  assert (Hall : forall d, In d ad -> Z.abs d <= fold_left fmax ad 0) by (intros; apply fold_max_ge; assumption).
  set (m := fold_left fmax ad 0) in *. unfold num_bits.
  destruct (Z.leb_spec m 0) as [Hz | Hpos].
  - split; [lia |]. apply Forall_forall. intros d Hd. specialize (Hall d Hd).
    unfold inr. change (2 ^ (0 + 1 - 1)) with 1. lia.
  - pose proof (Z.log2_nonneg m) as Hl0.
    assert (Hl : Z.log2 m < 17) by (apply Z.log2_lt_pow2; [lia | change (2 ^ 17) with 131072; lia]).
    split; [lia |]. apply Forall_forall. intros d Hd. specialize (Hall d Hd).
    pose proof (Z.log2_spec m Hpos) as [_ Hs]. unfold inr.
    replace (Z.log2 m + 1 + 1 - 1) with (Z.succ (Z.log2 m)) by lia. lia.
Qed.

(* ---------- adding the delta back ---------- *)
Lemma add_back : forall cur prev, length prev = length cur -> pixels_ok prev -> pixels_ok cur ->
  map (fun p => (fst p + snd p) mod 65536)
      (combine prev (map (fun p => fst p - snd p) (combine cur prev))) = cur.
Proof.
  induction cur as [| c cur IH]; intros [| p prev] Hl Hp Hc; try discriminate; [reflexivity |].
  cbn [combine map fst snd]. inversion Hp as [| ? ? Hp0 Hp']; inversion Hc as [| ? ? Hc0 Hc']; subst.
  f_equal.
  - replace (p + (c - p)) with c by lia. apply Z.mod_small; lia.
  - apply IH; [cbn [length] in Hl; lia | exact Hp' | exact Hc'].
Qed.

(* ---------- the theorems ---------- *)

(* one frame: for every resolution rows x cols (at least one pixel), every previous frame and
   every current frame of 16-bit values, decompressing what the compressor produced (with the
   bit width it reported) yields the frame pixel for pixel *)
Theorem codec_roundtrip : forall rows cols prev cur,
    1 <= rows -> 1 <= cols ->
    length prev = Z.to_nat (rows * cols) -> length cur = Z.to_nat (rows * cols) ->
    pixels_ok prev -> pixels_ok cur ->
    let '(w, data) := compress cols prev cur in
    decompress cols (Z.to_nat (rows * cols)) w data prev = Some cur /\ 1 <= w <= 19.
Proof.
  intros rows cols prev cur Hrows Hcols Hlp Hlc Hp Hc.
  destruct (compress cols prev cur) as [w data] eqn:E. unfold compress in E. cbv zeta in E.
  set (delta := map (fun p => fst p - snd p) (combine cur prev)) in *.
  assert (Hld : length delta = Z.to_nat (rows * cols)).
  { unfold delta. rewrite map_length, combine_length. lia. }
  assert (Hrd : Forall (fun v => - 65535 <= v <= 65535) delta) by (apply delta_range; assumption).
  assert (Hrf : Forall (fun v => - 65535 <= v <= 65535) (snake cols delta)) by (apply snake_Forall; [lia | exact Hrd]).
  assert (Hlf : length (snake cols delta) = Z.to_nat (rows * cols)) by (rewrite snake_length; exact Hld).
  assert (Hun : unsnake cols (snake cols delta) = delta) by (apply (unsnake_snake rows); assumption).
  destruct (snake cols delta) as [| fd0 ftl] eqn:Efd.
  { cbn [length] in Hlf. nia. }
  cbn [hd] in E.
  set (ad := adj_deltas (fd0 :: ftl)) in *.
  assert (Hla : length ad = (Z.to_nat (rows * cols) - 1)%nat).
  { unfold ad. rewrite adj_deltas_length. cbn [length] in Hlf. lia. }
  assert (Hra : Forall (fun d => - 131070 <= d <= 131070) ad).
  { unfold ad. apply (adj_deltas_range 65535). exact Hrf. }
  destruct (width_ok ad Hra) as [Hw Hin].
  pose proof (f_equal fst E) as Ew. pose proof (f_equal snd E) as Ed. cbn [fst snd] in Ew, Ed.
  clear E. rewrite Ew in *. subst data.
  split; [| lia].
  unfold decompress. rewrite skipn4_le32, <- Hla.
  rewrite unpack_pack_bits by (try assumption; lia).
  rewrite from_le32_le32.
  2:{ inversion Hrf as [| ? ? H0 _]; subst. change (2 ^ 31) with 2147483648. lia. }
  cbv zeta. unfold ad. rewrite prefix_sums_adj, Hun. f_equal.
  apply add_back; [lia | assumption | assumption].
Qed.

(* a whole recording: compressor and decompressor each thread their previous frame *)
Theorem codec_roundtrip_seq : forall rows cols frames prev,
    1 <= rows -> 1 <= cols ->
    length prev = Z.to_nat (rows * cols) -> pixels_ok prev ->
    Forall (fun f => length f = Z.to_nat (rows * cols) /\ pixels_ok f) frames ->
    roundtrip_seq cols (Z.to_nat (rows * cols)) prev frames = Some frames.
Proof.
  intros rows cols frames. induction frames as [| f r IH]; intros prev Hrows Hcols Hlp Hp Hfs.
  - reflexivity.
  - inversion Hfs as [| ? ? [Hlf Hf] Hr]; subst. cbn [roundtrip_seq].
    pose proof (codec_roundtrip rows cols prev f Hrows Hcols Hlp Hlf Hp Hf) as H.
    destruct (compress cols prev f) as [w data]. destruct H as [Hd _]. rewrite Hd.
    rewrite (IH f Hrows Hcols Hlf Hf Hr). reflexivity.
Qed.

(* non-vacuity: 2 x 3 frames with extreme values, two frames in sequence *)
Example codec_ex :
  roundtrip_seq 3 6 [0; 0; 0; 0; 0; 0] [[0; 65535; 0; 65535; 0; 65535]; [65535; 0; 65535; 1; 2; 3]; [7; 7; 7; 7; 7; 7]; [7; 7; 7; 7; 7; 7]]
  = Some [[0; 65535; 0; 65535; 0; 65535]; [65535; 0; 65535; 1; 2; 3]; [7; 7; 7; 7; 7; 7]; [7; 7; 7; 7; 7; 7]].
Proof. vm_compute. reflexivity. Qed.
