(* Source tie for handleConn and frameParser (cmd/thermal-recorder/main.go): the frame loop of the
   recorder as it is written, against the hand-written reader model model/Socket.v.

   coq/translated/ConnLoop.v is regenerated from the Go source on every run (translate/outside.go:
   the endless `for { ... }` is GoSem.forever over its body ConnLoop_fn_handleConn_loop1, the
   function takes fuel); model/ConnExt.v gives the calls that leave it their meaning over a world
   with the socket's remaining chunks, the contents of rawFrame, a script of processor.Process
   results and a log.

   Theorems (all for every frame size >= 5, every segmentation of the stream, every script):
     loop_run / tie_conn_loop  the loop alone, from any world satisfying [LoopInv], with fuel
                               >= S (total_len cs): it returns (no panic, fuel suffices), what it
                               adds to the log is [loop_log P (frames_c (S (total_len cs)) fs cs) script]
                               - one Reset per marker, one Process with the frame's bytes per frame, in
                               order, a bad frame followed by exactly one event and one RestartCamera,
                               any other Process error by nothing - the stream is consumed, and the
                               value returned is the error of the read that failed ([end_err]);
     tie_conn_loop_items       the same in the words of C14: items_of (added log) = frames_c ...;
     tie_handleConn            the whole function from a fresh connection: header (Socket.header_c),
                               wiring ([prelude_log]: what the throttle wraps, which recorder the
                               processor gets, constant recorder iff configured), loop, and the
                               deferred cptvRecorder.Stop() as the last entry;
     tie_handleConn_items      items_of log = cr_items (run_conn fs cs);
     tie_handleConn_stop       exactly one Stop, last, of the recorder created first;
     tie_handleConn_header_error, tie_handleConn_unknown_camera
                               the early returns build and stop nothing;
     tie_frameParser           frameParser is the table [parser_of].
   Side conditions (each forced by the Go code, see the statements): frame size >= 5 (rawFrame[:5]
   panics otherwise), header fps <> 0 and the two package-level log intervals <> 0 (totalFrames %
   frameLogIntervalFirstMin panics otherwise).  Since /repo 927eb9c the loop uses per-connection
   locals (package value * fps) and the package-level values are never written: they stay what
   they are initialised to (15 and 300), so the former caveat - the intervals grew with every
   connection and could wrap to 0 - is gone; the loop's invariant now takes the two locals as
   non-zero parameters instead of reading them from the world.  No axioms. *)
From Coq Require Import String List ZArith Bool Arith Lia.
From TR Require Import model.GoSem model.Socket model.ConnExt translated.ConnLoop proofs.SocketProofs.
Import ListNotations.
Open Scope Z_scope.

(* ---------- the two token tables ---------- *)

Lemma tlen_snoc : forall A (l : list A) v, tlen (l ++ [v]) = tlen l + 1.
Proof. intros; unfold tlen; rewrite app_length; cbn [List.length]; lia. Qed.
Lemma tget_snoc : forall A (d : A) l v t, tget d (l ++ [v]) t = if t =? tlen l then v else tget d l t.
Proof.
  intros A d l v t. unfold tget, tlen.
  destruct (Z.leb_spec t 0).
  - destruct (Z.eqb_spec t (Z.of_nat (List.length l) + 1)); [lia|reflexivity].
  - destruct (Z.eqb_spec t (Z.of_nat (List.length l) + 1)).
    + subst. replace (Z.to_nat (Z.of_nat (List.length l) + 1 - 1)) with (List.length l) by lia.
      rewrite app_nth2 by lia. rewrite Nat.sub_diag. reflexivity.
    + destruct (Z.ltb_spec t (Z.of_nat (List.length l) + 1)).
      * rewrite app_nth1 by lia. reflexivity.
      * rewrite !nth_overflow; [reflexivity| lia |]. rewrite app_length; cbn [List.length]; lia.
Qed.
Lemma tlen_pos : forall A (l : list A), 0 < tlen l.
Proof. intros; unfold tlen; lia. Qed.
Lemma tget_valid : forall A (d : A) l t, tget d l t <> d -> 0 < t < tlen l.
Proof.
  intros A d l t H. unfold tget, tlen in *. destruct (Z.leb_spec t 0); [congruence|].
  destruct (Z.ltb_spec t (Z.of_nat (List.length l) + 1)); [lia|].
  exfalso; apply H. apply nth_overflow. lia.
Qed.


(* ---------- symbolic execution of the translated code against cext ----------
   [post m Q]: the run m does not panic and its result and final world satisfy Q. *)
Definition post {A} (m : outcome cworld A) (Q : A -> cworld -> Prop) : Prop :=
  match m with Ok a w => Q a w | Panicked _ => False end.

Lemma post_call : forall cfg A n a (k : Z -> M cworld A) w r w' Q,
  cext cfg n a w = (r, w') -> post (k r w') Q -> post (bind (call_ext (cext cfg) n a) k w) Q.
Proof. intros cfg A n a k w r w' Q H1 H2. unfold bind, call_ext. rewrite H1. exact H2. Qed.
Lemma post_bind : forall A B (m : M cworld A) (k : A -> M cworld B) w Q,
  post (m w) (fun a w1 => post (k a w1) Q) -> post (bind m k w) Q.
Proof. intros A B m k w Q H. unfold bind. destruct (m w); [exact H|contradiction]. Qed.
Lemma post_mono : forall A (m : outcome cworld A) (Q1 Q2 : A -> cworld -> Prop),
  post m Q1 -> (forall a w, Q1 a w -> Q2 a w) -> post m Q2.
Proof. intros A m Q1 Q2 H HQ. destruct m; [apply HQ; exact H|contradiction]. Qed.
Lemma post_ret : forall A (a : A) w (Q : A -> cworld -> Prop), Q a w -> post (ret a w) Q.
Proof. intros; exact H. Qed.
Lemma bind_ret : forall A B (a : A) (k : A -> M cworld B) w, bind (ret a) k w = k a w.
Proof. reflexivity. Qed.
Lemma bind_bind : forall A B C (m : M cworld A) (f : A -> M cworld B) (k : B -> M cworld C) w,
  bind (bind m f) k w = bind m (fun x => bind (f x) k) w.
Proof. intros. unfold bind. destruct (m w); reflexivity. Qed.
Lemma bind_lift_some : forall A B (a : A) (k : A -> M cworld B) w, bind (lift_opt (Some a)) k w = k a w.
Proof. reflexivity. Qed.

(* the meaning of one call: the name is decided by computation, the handler's branch is exposed *)
Ltac ext_unfold :=
  match goal with
  | |- context [cext ?c ?n ?a ?w] =>
    let e := eval cbv [cext String.eqb Ascii.eqb Bool.eqb] in (cext c n a w) in
    change (cext c n a w) with e
  end.

Ltac wsimp :=
  cbv beta iota zeta delta [fst snd cw_in cw_raw cw_rawtok cw_script cw_log cw_pending cw_objs cw_vals cw_headerInfo cw_processor
       cw_int1 cw_int2 set_read set_buf set_script logev set_pending set_objs set_vals set_globals oalloc valloc];
  cbn [andb orb negb bool_to_z].

Ltac tokcmp :=
  repeat match goal with
  | |- context [?a =? ?b] =>
    first [ replace (a =? b) with true by (symmetry; apply Z.eqb_eq; lia)
          | replace (a =? b) with false by (symmetry; apply Z.eqb_neq; lia) ]
  | |- context [?a <=? ?b] =>
    first [ replace (a <=? b) with true by (symmetry; apply Z.leb_le; lia)
          | replace (a <=? b) with false by (symmetry; apply Z.leb_gt; lia) ]
  | |- context [?a <? ?b] =>
    first [ replace (a <? b) with true by (symmetry; apply Z.ltb_lt; lia)
          | replace (a <? b) with false by (symmetry; apply Z.ltb_ge; lia) ]
  end.

Ltac listrw := fail.
Ltac hyprw :=
  match goal with
  | H : tget ?d ?l ?t = _ |- context [tget ?d ?l ?t] => rewrite H
  | H : take_c ?n ?c = _ |- context [take_c ?n ?c] => rewrite H
  | H : take_c ?n ?c = _ |- context [take_c ?m ?c] => replace m with n by lia; rewrite H
  | H : header_c ?n ?c ?a = _ |- context [header_c ?n ?c ?a] => rewrite H
  | H : bytes_eqb ?a ?b = _ |- context [bytes_eqb ?a ?b] => rewrite H
  | H : c_decode ?c ?t = _ |- context [c_decode ?c ?t] => rewrite H
  | H : c_throttle ?c = _ |- context [c_throttle ?c] => rewrite H
  | H : c_const ?c = _ |- context [c_const ?c] => rewrite H
  | H : _ = hd ?d ?s |- context [hd ?d ?s] => rewrite <- H
  end.

Ltac norm1 :=
  first [ progress (rewrite ?tlen_snoc, ?tget_snoc) | hyprw | listrw ].
Ltac norm := repeat (first [norm1 | progress wsimp | progress unfold blen, z_to_bool]); tokcmp; wsimp.

Ltac handlers :=
  cbv [do_lit do_streq do_slice do_string do_readfull do_readheader do_hdr_int do_hdr_str hdr_of do_new_recorder
       do_new_throttle do_new_processor do_reset do_process do_map do_event do_addevent do_errtext do_make arg_z event_of
       oget vget onext vnext].

Ltac ext_solve := ext_unfold; handlers; norm; repeat (progress norm); reflexivity.

(* `let x := v in ...` at the head of the program *)
Ltac head_let :=
  lazymatch goal with
  | |- post ?lhs ?Q =>
    lazymatch lhs with
    | (let x := ?v in @?b x) ?w => change (post (b v w) Q); cbv beta
    end
  end.
(* an `if` whose condition is decided by the hypotheses *)
Ltac cif_body :=
  unfold z_to_bool; repeat hyprw; cbn [presult_code negb andb orb bool_to_z];
  unfold ERR_BAD, ERR_OTHER, ERR_EOF, ERR_UEOF; tokcmp; cbn [negb andb orb bool_to_z]; tokcmp; cbn [negb andb orb]; cbv iota.
Ltac cif :=
  lazymatch goal with
  | |- post ((if _ then _ else _) _) _ => cif_body
  | |- post (bind (if _ then _ else _) _ _) _ => cif_body
  end.
(* x % y with y <> 0 among the hypotheses *)
Ltac crem :=
  lazymatch goal with
  | |- post (bind (lift_opt (go_rem _ _)) _ _) _ => unfold go_rem at 1; tokcmp; cbv iota; rewrite bind_lift_some
  end.

Ltac cstep :=
  first [ head_let
        | lazymatch goal with |- post (bind (bind _ _) _ _) _ => rewrite bind_bind end
        | lazymatch goal with |- post (bind (ret _) _ _) _ => rewrite bind_ret end
        | lazymatch goal with |- post (bind (lift_opt (Some _)) _ _) _ => rewrite bind_lift_some end
        | crem
        | eapply post_call; [ ext_solve | cbv beta; wsimp ] ].
Ltac csteps := repeat cstep.

(* ---------- lists: what take_c returns, writing into / reading from the buffer ---------- *)
Lemma take_c_some : forall n cs h rest, take_c n cs = Some (h, rest) ->
  List.length h = n /\ concat cs = h ++ concat rest.
Proof.
  intros n cs h rest H. pose proof (take_c_flat cs n) as F. rewrite H in F. cbn [flat] in F.
  unfold take_f in F. destruct (Nat.ltb_spec (List.length (concat cs)) n) as [L|L]; [discriminate|].
  inversion F as [[F1 F2]]. subst h. rewrite F2. split; [rewrite firstn_length; lia | symmetry; apply firstn_skipn].
Qed.
Lemma take_c_none : forall n cs, take_c n cs = None -> (List.length (concat cs) < n)%nat.
Proof.
  intros n cs H. pose proof (take_c_flat cs n) as F. rewrite H in F. cbn [flat] in F.
  unfold take_f in F. destruct (Nat.ltb_spec (List.length (concat cs)) n) as [L|L]; [exact L|discriminate].
Qed.

Lemma splice_length : forall raw lo d, 0 <= lo -> (Z.to_nat lo + List.length d <= List.length raw)%nat ->
  List.length (splice raw lo d) = List.length raw.
Proof.
  intros raw lo d Hlo H. unfold splice. rewrite !app_length, firstn_length, skipn_length. lia.
Qed.
Lemma splice_head : forall raw p, (List.length p <= List.length raw)%nat ->
  splice raw 0 p = p ++ skipn (List.length p) raw.
Proof. intros. unfold splice. cbn [Z.to_nat firstn app Nat.add]. reflexivity. Qed.
Lemma view_head : forall p r n, List.length p = n -> view_bytes (p ++ r) 0 (Z.of_nat n) = p.
Proof.
  intros p r n H. unfold view_bytes. cbn [Z.to_nat skipn]. rewrite Z.sub_0_r, Nat2Z.id.
  rewrite firstn_app, H, Nat.sub_diag. cbn [firstn]. rewrite app_nil_r. rewrite <- H. apply firstn_all.
Qed.
Lemma splice_tail : forall p r q, List.length r = List.length q ->
  splice (p ++ r) (Z.of_nat (List.length p)) q = p ++ q.
Proof.
  intros p r q H. unfold splice. rewrite Nat2Z.id.
  rewrite firstn_app, Nat.sub_diag, firstn_all. cbn [firstn]. rewrite app_nil_r.
  rewrite skipn_all2 by (rewrite app_length; lia). rewrite app_nil_r. reflexivity.
Qed.

Lemma view_splice_head : forall raw p, List.length p = 5%nat -> (5 <= List.length raw)%nat ->
  view_bytes (splice raw 0 p) 0 5 = p.
Proof.
  intros raw p Hp Hr. rewrite splice_head by lia. change 5 with (Z.of_nat 5). apply view_head. exact Hp.
Qed.
Lemma splice_splice : forall raw p q, List.length p = 5%nat -> (5 + List.length q = List.length raw)%nat ->
  splice (splice raw 0 p) 5 q = p ++ q.
Proof.
  intros raw p q Hp Hq. rewrite splice_head by lia. replace 5 with (Z.of_nat (List.length p)) by lia.
  apply splice_tail. rewrite skipn_length. lia.
Qed.
Lemma marker_lit : bytes_of_string "clear" = MARKER.
Proof. reflexivity. Qed.
Lemma bad_type_eq : bytes_eqb (bytes_of_string "bad-thermal-frame") BAD_FRAME_TYPE = true.
Proof. reflexivity. Qed.
Lemma key_descr_eq : bytes_eqb (bytes_of_string "description") KEY_DESCRIPTION = true.
Proof. reflexivity. Qed.
Lemma key_details_eq : bytes_eqb (bytes_of_string "details") KEY_DETAILS = true.
Proof. reflexivity. Qed.

Ltac listrw ::=
  first [ rewrite marker_lit | rewrite view_splice_head by lia | rewrite splice_splice by lia
        | rewrite bad_type_eq | rewrite key_descr_eq | rewrite key_details_eq ].

(* ---------- the frame loop ---------- *)
Record LoopInv (fs : nat) (rd fi1 fi2 buf P : Z) (w : cworld) : Prop := mkLI {
  li_reader : oget w rd = OReader;
  li_buf : cw_rawtok w = buf;
  li_buf0 : buf <> 0;
  li_len : List.length (cw_raw w) = fs;
  li_proc : cw_processor w = P;
  li_procobj : oget w P = OProcessor;
  li_hdr : exists h, oget w (cw_headerInfo w) = OHeader h;
  li_int1 : fi1 <> 0;      (* the connection's frameLogIntervalFirstMin *)
  li_int2 : fi2 <> 0       (* the connection's frameLogInterval *)
}.

(* w' is w after an iteration: input, buffer contents, log and script as given; values may have
   been allocated; nothing else has changed *)
Definition iter_to (w w' : cworld) (i : list bytes) (ev : list cev) (sc : list presult) : Prop :=
  cw_in w' = i /\ List.length (cw_raw w') = List.length (cw_raw w) /\ cw_rawtok w' = cw_rawtok w /\
  cw_script w' = sc /\ cw_log w' = cw_log w ++ ev /\ cw_objs w' = cw_objs w /\
  cw_headerInfo w' = cw_headerInfo w /\ cw_processor w' = cw_processor w /\
  cw_int1 w' = cw_int1 w /\ cw_int2 w' = cw_int2 w.

Lemma iter_to_inv : forall fs rd fi1 fi2 buf P w w' i ev sc,
  LoopInv fs rd fi1 fi2 buf P w -> iter_to w w' i ev sc -> LoopInv fs rd fi1 fi2 buf P w'.
Proof.
  intros fs rd fi1 fi2 buf P w w' i ev sc [H1 H2 H3 H4 H5 H6 [h H7] H8 H9] Hit.
  unfold iter_to in Hit. destruct Hit as (_ & E2 & E3 & _ & _ & E6 & E7 & E8 & E9 & E10).
  split; unfold oget in *.
  - rewrite E6; exact H1.
  - rewrite E3; exact H2.
  - exact H3.
  - rewrite E2; exact H4.
  - rewrite E8; exact H5.
  - rewrite E6; exact H6.
  - exists h. rewrite E6, E7; exact H7.
  - exact H8.
  - exact H9.
Qed.

Ltac body_start :=
  intros cfg fs rd fi1 fi2 buf P tf w Hfs [Hr Hb Hb0 Hlen Hp HP [h Hh] Hi1 Hi2];
  destruct w as [i raw rt sc lg pd objs vals hi pr i1 i2];
  unfold oget in *;
  cbn [cw_in cw_raw cw_rawtok cw_script cw_log cw_pending cw_objs cw_vals cw_headerInfo cw_processor cw_int1 cw_int2] in *;
  subst rt pr; unfold PROBE in *.

Ltac iter_done := unfold iter_to; wsimp; repeat split; try reflexivity; try (rewrite app_nil_r; reflexivity).

(* the stream ends before five bytes could be read *)
Lemma body_eof1 : forall cfg fs rd fi1 fi2 buf P tf w, (5 <= fs)%nat -> LoopInv fs rd fi1 fi2 buf P w ->
  take_c PROBE (cw_in w) = None ->
  post (ConnLoop_fn_handleConn_loop1 (cext cfg) rd fi1 fi2 buf tf w)
       (fun r w' => r = LRet (eof_code (concat (cw_in w))) /\ cw_in w' = [] /\ cw_log w' = cw_log w).
Proof.
  body_start. intros Ht. pose proof (take_c_none _ _ Ht) as Hshort.
  assert (Hne : eof_code (concat i) <> 0) by (destruct (concat i); discriminate).
  cbv beta delta [ConnLoop_fn_handleConn_loop1]. repeat (first [cstep | progress cif]).
  apply post_ret. wsimp. repeat split; reflexivity.
Qed.

(* the five bytes are the marker: processor.Reset, next iteration *)
Lemma body_clear : forall cfg fs rd fi1 fi2 buf P tf w, (5 <= fs)%nat -> LoopInv fs rd fi1 fi2 buf P w ->
  forall p rest, take_c PROBE (cw_in w) = Some (p, rest) -> bytes_eqb p MARKER = true ->
  post (ConnLoop_fn_handleConn_loop1 (cext cfg) rd fi1 fi2 buf tf w)
       (fun r w' => r = LCont tf /\ iter_to w w' rest [EReset P] (cw_script w)).
Proof.
  body_start. intros p rest Ht Hm. destruct (take_c_some _ _ _ _ Ht) as [Hlp Hcat].
  assert (Hl1 : List.length (splice raw 0 p) = fs) by (rewrite splice_length; lia).
  cbv beta delta [ConnLoop_fn_handleConn_loop1]. repeat (first [cstep | progress cif]).
  apply post_ret. split; [reflexivity|]. unfold iter_to; wsimp. repeat split; try reflexivity. lia.
Qed.

(* not the marker, and the stream ends before the rest of the frame could be read *)
Lemma body_eof2 : forall cfg fs rd fi1 fi2 buf P tf w, (5 <= fs)%nat -> LoopInv fs rd fi1 fi2 buf P w ->
  forall p rest, take_c PROBE (cw_in w) = Some (p, rest) -> bytes_eqb p MARKER = false ->
  take_c (fs - PROBE) rest = None ->
  post (ConnLoop_fn_handleConn_loop1 (cext cfg) rd fi1 fi2 buf tf w)
       (fun r w' => r = LRet (eof_code (concat rest)) /\ cw_in w' = [] /\ cw_log w' = cw_log w).
Proof.
  body_start. intros p rest Ht Hm Ht2. destruct (take_c_some _ _ _ _ Ht) as [Hlp Hcat].
  assert (Hl1 : List.length (splice raw 0 p) = fs) by (rewrite splice_length; lia).
  pose proof (take_c_none _ _ Ht2) as Hshort.
  assert (Hne : eof_code (concat rest) <> 0) by (destruct (concat rest); discriminate).
  cbv beta delta [ConnLoop_fn_handleConn_loop1]. repeat (first [cstep | progress cif]).
  apply post_ret. wsimp. repeat split; reflexivity.
Qed.

Ltac csplit :=
  lazymatch goal with
  | |- post (bind (if ?c then _ else _) _ _) _ => destruct c
  end.

(* H : forall b v, post (K b (W v)) Q, the goal is post (K true W') Q or post (K false W') Q after reduction *)
Ltac use_tail H :=
  lazymatch goal with
  | |- post (?prog _) _ =>
    lazymatch type of H with
    | forall (b : bool) (v : list cval), post (?K b _) _ =>
      let A := eval cbv beta iota in (K true) in
      let B := eval cbv beta iota in (K false) in
      let prog' := eval cbv beta iota in prog in
      first [ constr_eq prog' A; exact (H true _) | constr_eq prog' B; exact (H false _)
            | lazymatch prog' with (if ?c then ?A' else ?B') => constr_eq A' A; constr_eq B' B; exact (H c _) end ]
    end
  end.

(* a whole frame: processor.Process(rawFrame) with the bytes just read; a bad frame is followed
   by the event and the camera restart; whatever Process returns, next iteration *)
Lemma body_frame : forall cfg fs rd fi1 fi2 buf P tf w, (5 <= fs)%nat -> LoopInv fs rd fi1 fi2 buf P w ->
  forall p rest q rest', take_c PROBE (cw_in w) = Some (p, rest) -> bytes_eqb p MARKER = false ->
  take_c (fs - PROBE) rest = Some (q, rest') ->
  post (ConnLoop_fn_handleConn_loop1 (cext cfg) rd fi1 fi2 buf tf w)
       (fun r w' => r = LCont (tf + 1) /\
                    iter_to w w' rest' (EProcess P (p ++ q) :: bad_events (hd PROk (cw_script w))) (tl (cw_script w))).
Proof.
  body_start. intros p rest q rest' Ht Hm Ht2. destruct (take_c_some _ _ _ _ Ht) as [Hlp Hcat].
  destruct (take_c_some _ _ _ _ Ht2) as [Hlq Hcat2].
  assert (Hl1 : List.length (splice raw 0 p) = fs) by (rewrite splice_length; lia).
  assert (Hl2 : List.length (p ++ q) = fs) by (rewrite app_length; lia).
  cbv beta delta [ConnLoop_fn_handleConn_loop1]. repeat (first [cstep | progress cif]).
  (* what follows the decision to print a log line does not depend on it *)
  lazymatch goal with
  | |- post (bind _ (fun x => bind (@?M2 x) ?K2) ?W) ?Q =>
    lazymatch W with
    | mkCW ?f1 ?f2 ?f3 ?f4 ?f5 ?f6 ?f7 ?f8 ?f9 ?f10 ?f11 ?f12 =>
      assert (Htail : forall (b0 : bool) vals1, post (K2 b0 (mkCW f1 f2 f3 f4 f5 f6 f7 vals1 f9 f10 f11 f12)) Q)
    end
  end.
  { intros b0 vals1. remember (hd PROk sc) as res eqn:Hres.
    destruct b0, res; cbv beta iota; repeat (first [cstep | progress cif]);
      (apply post_ret; split; [reflexivity|]; unfold iter_to; wsimp; try rewrite <- Hres; repeat split; try reflexivity; try lia; try (repeat rewrite <- app_assoc; reflexivity)). }
  repeat (first [use_tail Htail | cstep | csplit]).
Qed.

(* ---------- the loop ---------- *)
Lemma post_forever_S : forall S R n (body : S -> M cworld (loopres S R)) s w Q,
  post (body s w) (fun r w1 => match r with
                               | LCont s' => post (forever n body s' w1) Q
                               | LRet v => Q (Some v) w1
                               end) ->
  post (forever (Datatypes.S n) body s w) Q.
Proof.
  intros S R n body s w Q H. cbn [forever]. apply post_bind.
  eapply post_mono; [exact H|]. intros r w1 Hr. destruct r; exact Hr.
Qed.

Lemma total_len_take : forall n cs h rest, take_c n cs = Some (h, rest) ->
  total_len cs = (n + total_len rest)%nat.
Proof.
  intros n cs h rest H. destruct (take_c_some _ _ _ _ H) as [Hl Hc].
  unfold total_len. rewrite Hc, app_length. lia.
Qed.

Theorem loop_run : forall cfg fs rd fi1 fi2 buf P n w tf, (5 <= fs)%nat -> LoopInv fs rd fi1 fi2 buf P w ->
  (total_len (cw_in w) < n)%nat ->
  post (forever n (ConnLoop_fn_handleConn_loop1 (cext cfg) rd fi1 fi2 buf) tf w)
       (fun r w' => r = Some (end_err n fs (cw_in w)) /\ cw_in w' = [] /\
                    cw_log w' = cw_log w ++ loop_log P (frames_c n fs (cw_in w)) (cw_script w)).
Proof.
  intros cfg fs rd fi1 fi2 buf P n. induction n as [|k IH]; intros w tf Hfs Hinv Hlen; [lia|].
  apply post_forever_S. cbn [frames_c end_err].
  destruct (take_c PROBE (cw_in w)) as [[p rest]|] eqn:Ht.
  - pose proof (total_len_take _ _ _ _ Ht) as Hl. unfold PROBE in Hl.
    destruct (bytes_eqb p MARKER) eqn:Hm.
    + eapply post_mono; [exact (body_clear cfg fs rd fi1 fi2 buf P tf w Hfs Hinv p rest Ht Hm)|].
      intros r w1 [Hr Hit]. subst r.
      pose proof (iter_to_inv _ _ _ _ _ _ _ _ _ _ _ Hinv Hit) as Hinv1.
      unfold iter_to in Hit. destruct Hit as (E1 & _ & _ & E4 & E5 & _).
      eapply post_mono; [apply (IH w1 tf Hfs Hinv1); rewrite E1; lia|].
      intros r w2 (Hr & Hi & Hlog). rewrite E1, E4, E5 in *. split; [exact Hr|]. split; [exact Hi|].
      rewrite Hlog. cbn [loop_log]. rewrite <- app_assoc. reflexivity.
    + destruct (take_c (fs - PROBE) rest) as [[q rest']|] eqn:Ht2.
      * pose proof (total_len_take _ _ _ _ Ht2) as Hl2.
        eapply post_mono; [exact (body_frame cfg fs rd fi1 fi2 buf P tf w Hfs Hinv p rest q rest' Ht Hm Ht2)|].
        intros r w1 [Hr Hit]. subst r.
        pose proof (iter_to_inv _ _ _ _ _ _ _ _ _ _ _ Hinv Hit) as Hinv1.
        unfold iter_to in Hit. destruct Hit as (E1 & _ & _ & E4 & E5 & _).
        eapply post_mono; [apply (IH w1 (tf + 1) Hfs Hinv1); rewrite E1; lia|].
        intros r w2 (Hr & Hi & Hlog). rewrite E1, E4, E5 in *. split; [exact Hr|]. split; [exact Hi|].
        rewrite Hlog. cbn [loop_log]. rewrite <- !app_assoc. reflexivity.
      * eapply post_mono; [exact (body_eof2 cfg fs rd fi1 fi2 buf P tf w Hfs Hinv p rest Ht Hm Ht2)|].
        intros r w1 (Hr & Hi & Hlog). subst r. split; [reflexivity|]. split; [exact Hi|].
        rewrite Hlog. cbn [loop_log]. rewrite app_nil_r. reflexivity.
  - eapply post_mono; [exact (body_eof1 cfg fs rd fi1 fi2 buf P tf w Hfs Hinv Ht)|].
    intros r w1 (Hr & Hi & Hlog). subst r. split; [reflexivity|]. split; [exact Hi|].
    rewrite Hlog. cbn [loop_log]. rewrite app_nil_r. reflexivity.
Qed.

Lemma frames_c_fuel : forall n m fs cs, (total_len cs < n)%nat -> (total_len cs < m)%nat ->
  frames_c n fs cs = frames_c m fs cs.
Proof.
  induction n as [|k IH]; intros m fs cs Hn Hm; [lia|]. destruct m as [|m]; [lia|].
  cbn [frames_c]. destruct (take_c PROBE cs) as [[p rest]|] eqn:Ht; [|reflexivity].
  pose proof (total_len_take _ _ _ _ Ht) as Hl. unfold PROBE in Hl.
  destruct (bytes_eqb p MARKER).
  - f_equal. apply IH; lia.
  - destruct (take_c (fs - PROBE) rest) as [[q rest']|] eqn:Ht2; [|reflexivity].
    pose proof (total_len_take _ _ _ _ Ht2) as Hl2. f_equal. apply IH; lia.
Qed.
Lemma end_err_fuel : forall n m fs cs, (total_len cs < n)%nat -> (total_len cs < m)%nat ->
  end_err n fs cs = end_err m fs cs.
Proof.
  induction n as [|k IH]; intros m fs cs Hn Hm; [lia|]. destruct m as [|m]; [lia|].
  cbn [end_err]. destruct (take_c PROBE cs) as [[p rest]|] eqn:Ht; [|reflexivity].
  pose proof (total_len_take _ _ _ _ Ht) as Hl. unfold PROBE in Hl.
  destruct (bytes_eqb p MARKER).
  - apply IH; lia.
  - destruct (take_c (fs - PROBE) rest) as [[q rest']|] eqn:Ht2; [|reflexivity].
    pose proof (total_len_take _ _ _ _ Ht2) as Hl2. apply IH; lia.
Qed.

(* ---------- frameParser ---------- *)
Lemma tie_frameParser : forall cfg b m brand model w,
  vget w b = VStr brand -> vget w m = VStr model ->
  post (ConnLoop_fn_frameParser (cext cfg) b m w)
       (fun r w' => r = parser_of brand model /\ exists extra, w' = set_vals w (cw_vals w ++ extra)).
Proof.
  intros cfg b m brand model w Hb Hm.
  destruct w as [i raw rt sc lg pd objs vals hi pr i1 i2]. unfold vget in *.
  cbn [cw_vals] in *.
  assert (Hvb : 0 < b < tlen vals) by (apply (tget_valid _ VNone); rewrite Hb; discriminate).
  assert (Hvm : 0 < m < tlen vals) by (apply (tget_valid _ VNone); rewrite Hm; discriminate).
  unfold parser_of.
  cbv beta delta [ConnLoop_fn_frameParser].
  destruct (bytes_eqb brand (bytes_of_string "flir")) eqn:E1;
  destruct (bytes_eqb model (bytes_of_string "lepton3")) eqn:E2;
  destruct (bytes_eqb model (bytes_of_string "lepton3.5")) eqn:E3;
  destruct (bytes_eqb model (bytes_of_string "boson")) eqn:E4; cbn [negb orb];
  repeat (first [cstep | progress cif]);
  (apply post_ret; split; [reflexivity|]; wsimp; rewrite <- ?app_assoc; eexists; reflexivity).
Qed.

(* ---------- the whole of handleConn ---------- *)
(* The wiring, as logged.  Tokens: 1 the bufio.Reader, 2 the HeaderInfo, 3 the motion recorder
   (cptvRecorder, the one whose Stop is deferred); then the throttle when active (it wraps 3), the
   constant recorder when configured, the snapshot recorder, the processor, rawFrame. *)
Definition prelude_log (cfg : ccfg) (parser : Z) : list cev :=
  let m := c_minsecs cfg + c_preview cfg in
  match c_throttle cfg, c_const cfg with
  | false, false => [EAutoFFC true; ENewRecorder 3; ENewRecorder 4; ENewProcessor parser 3 0 4 5]
  | true, false => [EAutoFFC true; ENewRecorder 3; ENewThrottle 3 m 4; ENewRecorder 5; ENewProcessor parser 4 0 5 6]
  | false, true => [EAutoFFC true; ENewRecorder 3; ENewRecorder 4; ESetConstant 4; ENewRecorder 5; ENewProcessor parser 3 4 5 6]
  | true, true => [EAutoFFC true; ENewRecorder 3; ENewThrottle 3 m 4; ENewRecorder 5; ESetConstant 5; ENewRecorder 6;
                   ENewProcessor parser 4 5 6 7]
  end.
Definition proc_tok (cfg : ccfg) : Z := 5 + bool_to_z (c_throttle cfg) + bool_to_z (c_const cfg).
Definition REC_TOK : Z := 3.

Theorem tie_handleConn : forall cfg cs script i1 i2 fuel text rest h,
  header_c (S (total_len cs)) cs [] = Some (text, rest) ->
  c_decode cfg text = Some h ->
  parser_of (h_brand h) (h_model h) <> 0 ->
  5 <= h_fs h -> h_fps h <> 0 -> i1 <> 0 -> i2 <> 0 ->
  (total_len rest < fuel)%nat ->
  post (src_conn cfg fuel (conn_init cs script i1 i2))
    (fun r w' =>
       r = Some (end_err (S (total_len rest)) (Z.to_nat (h_fs h)) rest) /\ cw_in w' = [] /\
       cw_log w' = prelude_log cfg (parser_of (h_brand h) (h_model h)) ++
                   loop_log (proc_tok cfg) (frames_c (S (total_len rest)) (Z.to_nat (h_fs h)) rest) script ++
                   [EStop REC_TOK]).
Proof.
  intros cfg cs script i1 i2 fuel text rest h Hhdr Hdec Hparser Hfs Hfps Hi1 Hi2 Hfuel.
  unfold src_conn, conn_init, prelude_log, proc_tok.
  cbv beta delta [ConnLoop_fn_handleConn].
  match goal with |- post _ ?Q => set (QQ := Q) end.
  repeat (first [cstep | progress cif]).
  apply post_bind. eapply post_mono.
  { apply (tie_frameParser cfg _ _ (h_brand h) (h_model h)); unfold vget; norm; reflexivity. }
  intros r w1 [Hr [extra Hw]]. subst r w1. wsimp.
  repeat (first [cstep | progress cif]).
  destruct (c_throttle cfg) eqn:Hthr; repeat (first [cstep | progress cif]);
  (destruct (c_const cfg) eqn:Hcst; repeat (first [cstep | progress cif])).
  all: apply post_bind; eapply post_mono;
    [ eapply (loop_run cfg (Z.to_nat (h_fs h)) _ _ _ _ _ fuel _ 0); [lia | | wsimp; exact Hfuel];
      split; unfold oget; wsimp;
      [ norm; reflexivity | reflexivity | pose proof (tlen_pos _ (@nil obj)); lia | apply repeat_length
      | reflexivity | norm; reflexivity | exists h; norm; reflexivity
      | apply Z.neq_mul_0; split; assumption | apply Z.neq_mul_0; split; assumption ]
    | ].
  all: intros r w2 (Hr & Hi & Hlog); subst r; cbv beta iota;
    (eapply post_call; [ext_unfold; reflexivity|]); cbv beta; apply post_ret; subst QQ; cbv beta;
    cbn [cw_in cw_log logev arg_z] in *; rewrite Hlog;
    rewrite (frames_c_fuel fuel (S (total_len rest))), (end_err_fuel fuel (S (total_len rest))) by lia;
    (split; [reflexivity|]); (split; [exact Hi|]);
    rewrite <- app_assoc; reflexivity.
Qed.

(* ---------- early returns: nothing is built, nothing is stopped ---------- *)
Theorem tie_handleConn_header_error : forall cfg cs script i1 i2 fuel,
  match header_c (S (total_len cs)) cs [] with
  | Some (text, _) => c_decode cfg text = None
  | None => True
  end ->
  post (src_conn cfg fuel (conn_init cs script i1 i2))
       (fun r w' => (r = Some ERR_EOF \/ r = Some ERR_OTHER) /\ cw_log w' = [EAutoFFC true]).
Proof.
  intros cfg cs script i1 i2 fuel H. unfold src_conn, conn_init. cbv beta delta [ConnLoop_fn_handleConn].
  destruct (header_c (S (total_len cs)) cs []) as [[text rest]|] eqn:Hh;
    repeat (first [cstep | progress cif]); apply post_ret; wsimp; split; auto.
Qed.

Theorem tie_handleConn_unknown_camera : forall cfg cs script i1 i2 fuel text rest h,
  header_c (S (total_len cs)) cs [] = Some (text, rest) ->
  c_decode cfg text = Some h ->
  parser_of (h_brand h) (h_model h) = 0 ->
  post (src_conn cfg fuel (conn_init cs script i1 i2))
       (fun r w' => r = Some ERR_OTHER /\ cw_log w' = [EAutoFFC true] /\ cw_in w' = rest).
Proof.
  intros cfg cs script i1 i2 fuel text rest h Hhdr Hdec Hparser.
  unfold src_conn, conn_init. cbv beta delta [ConnLoop_fn_handleConn].
  match goal with |- post _ ?Q => set (QQ := Q) end.
  repeat (first [cstep | progress cif]).
  apply post_bind. eapply post_mono.
  { apply (tie_frameParser cfg _ _ (h_brand h) (h_model h)); unfold vget; norm; reflexivity. }
  intros r w1 [Hr [extra Hw]]. subst r w1. wsimp. rewrite Hparser.
  repeat (first [cstep | progress cif]). apply post_ret. subst QQ. wsimp. repeat split; reflexivity.
Qed.

(* ---------- what the log says, in the words of the property ---------- *)
Lemma items_of_app : forall a b, items_of (a ++ b) = items_of a ++ items_of b.
Proof. intros. unfold items_of. apply flat_map_app. Qed.

Lemma items_of_loop_log : forall p items sc, items_of (loop_log p items sc) = items.
Proof.
  intros p items. induction items as [|[b|] items IH]; intros sc; cbn [loop_log]; [reflexivity| |].
  - change (items_of (EProcess p b :: bad_events (hd PROk sc) ++ loop_log p items (tl sc)))
      with (IFrame b :: items_of (bad_events (hd PROk sc) ++ loop_log p items (tl sc))).
    rewrite items_of_app, IH. destruct (hd PROk sc); reflexivity.
  - change (items_of (EReset p :: loop_log p items sc)) with (IClear :: items_of (loop_log p items sc)).
    rewrite IH. reflexivity.
Qed.

Lemma items_of_prelude : forall cfg parser, items_of (prelude_log cfg parser) = [].
Proof. intros. unfold prelude_log. destruct (c_throttle cfg), (c_const cfg); reflexivity. Qed.

Definition is_stop (e : cev) : bool := match e with EStop _ => true | _ => false end.

Lemma no_stop_loop_log : forall p items sc, filter is_stop (loop_log p items sc) = [].
Proof.
  intros p items. induction items as [|[b|] items IH]; intros sc; cbn [loop_log filter is_stop]; [reflexivity| |].
  - rewrite filter_app, IH. destruct (hd PROk sc); reflexivity.
  - apply IH.
Qed.
Lemma no_stop_prelude : forall cfg parser, filter is_stop (prelude_log cfg parser) = [].
Proof. intros. unfold prelude_log. destruct (c_throttle cfg), (c_const cfg); reflexivity. Qed.

Lemma end_err_cases : forall n fs cs, (total_len cs < n)%nat ->
  end_err n fs cs = ERR_EOF \/ end_err n fs cs = ERR_UEOF.
Proof.
  induction n as [|k IH]; intros fs cs Hn; [lia|]. cbn [end_err].
  destruct (take_c PROBE cs) as [[p rest]|] eqn:Ht.
  - pose proof (total_len_take _ _ _ _ Ht) as Hl. unfold PROBE in Hl.
    destruct (bytes_eqb p MARKER); [apply IH; lia|].
    destruct (take_c (fs - PROBE) rest) as [[q rest']|] eqn:Ht2.
    + pose proof (total_len_take _ _ _ _ Ht2) as Hl2. apply IH; lia.
    + unfold eof_code. destruct (concat rest); auto.
  - unfold eof_code. destruct (concat cs); auto.
Qed.

(* the frame loop on its own, started in any world in which the loop's variables mean what
   handleConn made them mean ([LoopInv]): with fuel S (total_len cs) or more, the Reset / Process
   entries it adds to the log are exactly the model's items for the stream still to come *)
Theorem tie_conn_loop : forall cfg fs rd fi1 fi2 buf P w tf fuel,
  (5 <= fs)%nat -> LoopInv fs rd fi1 fi2 buf P w -> (S (total_len (cw_in w)) <= fuel)%nat ->
  let cs := cw_in w in
  post (forever fuel (ConnLoop_fn_handleConn_loop1 (cext cfg) rd fi1 fi2 buf) tf w)
       (fun r w' =>
          r = Some (end_err (S (total_len cs)) fs cs) /\ cw_in w' = [] /\
          cw_log w' = cw_log w ++ loop_log P (frames_c (S (total_len cs)) fs cs) (cw_script w)).
Proof.
  intros cfg fs rd fi1 fi2 buf P w tf fuel Hfs Hinv Hfuel cs. subst cs.
  eapply post_mono; [apply (loop_run cfg fs rd fi1 fi2 buf P fuel w tf Hfs Hinv); lia|].
  intros r w' (Hr & Hi & Hlog).
  rewrite (frames_c_fuel fuel (S (total_len (cw_in w)))), (end_err_fuel fuel (S (total_len (cw_in w)))) in * by lia.
  auto.
Qed.

Corollary tie_conn_loop_items : forall cfg fs rd fi1 fi2 buf P w tf fuel,
  (5 <= fs)%nat -> LoopInv fs rd fi1 fi2 buf P w -> (S (total_len (cw_in w)) <= fuel)%nat ->
  post (forever fuel (ConnLoop_fn_handleConn_loop1 (cext cfg) rd fi1 fi2 buf) tf w)
       (fun r w' => exists added,
          cw_log w' = cw_log w ++ added /\
          items_of added = frames_c (S (total_len (cw_in w))) fs (cw_in w) /\
          (r = Some ERR_EOF \/ r = Some ERR_UEOF) /\ cw_in w' = []).
Proof.
  intros cfg fs rd fi1 fi2 buf P w tf fuel Hfs Hinv Hfuel.
  eapply post_mono; [apply (tie_conn_loop cfg fs rd fi1 fi2 buf P w tf fuel Hfs Hinv Hfuel)|].
  cbv beta zeta. intros r w' (Hr & Hi & Hlog). eexists. split; [exact Hlog|].
  split; [apply items_of_loop_log|]. split; [|exact Hi].
  rewrite Hr. destruct (end_err_cases (S (total_len (cw_in w))) fs (cw_in w)) as [E|E]; [lia| |]; rewrite E; auto.
Qed.

(* handleConn as a whole, against Socket.v's run_conn *)
Corollary tie_handleConn_items : forall cfg cs script i1 i2 fuel text rest h,
  header_c (S (total_len cs)) cs [] = Some (text, rest) ->
  c_decode cfg text = Some h ->
  parser_of (h_brand h) (h_model h) <> 0 ->
  5 <= h_fs h -> h_fps h <> 0 -> i1 <> 0 -> i2 <> 0 ->
  (S (total_len cs) <= fuel)%nat ->
  post (src_conn cfg fuel (conn_init cs script i1 i2))
    (fun r w' =>
       items_of (cw_log w') = cr_items (run_conn (Z.to_nat (h_fs h)) cs) /\
       (r = Some ERR_EOF \/ r = Some ERR_UEOF) /\ cw_in w' = []).
Proof.
  intros cfg cs script i1 i2 fuel text rest h Hhdr Hdec Hparser Hfs Hfps Hi1 Hi2 Hfuel.
  assert (Hrest : (total_len rest <= total_len cs)%nat).
  { pose proof (header_c_flat (S (total_len cs)) cs []) as F. rewrite Hhdr in F. cbn [flat] in F.
    assert (G : forall fuel b acc a r, header_f fuel b acc = Some (a, r) -> (List.length r <= List.length b)%nat).
    { induction fuel0 as [|k IH]; intros b acc a r H; [discriminate|]. cbn [header_f] in H.
      destruct (line_in b) as [[l rest0]|] eqn:E; [|discriminate].
      destruct (line_in_some _ _ _ E) as [Hb _]. subst b. rewrite app_length.
      destruct (is_blank l); [inversion H; subst; lia|]. apply IH in H. lia. }
    symmetry in F. apply G in F. exact F. }
  eapply post_mono; [apply (tie_handleConn cfg cs script i1 i2 fuel text rest h); try assumption; lia|].
  cbv beta. intros r w' (Hr & Hi & Hlog). split; [|split; [|exact Hi]].
  - rewrite Hlog, !items_of_app, items_of_prelude, items_of_loop_log. cbn [items_of flat_map item_of app].
    rewrite app_nil_r. unfold run_conn. rewrite Hhdr. reflexivity.
  - rewrite Hr. destruct (end_err_cases (S (total_len rest)) (Z.to_nat (h_fs h)) rest) as [E|E]; [lia| |]; rewrite E; auto.
Qed.

(* the deferred Stop of the motion recorder runs exactly once, and last *)
Corollary tie_handleConn_stop : forall cfg cs script i1 i2 fuel text rest h,
  header_c (S (total_len cs)) cs [] = Some (text, rest) ->
  c_decode cfg text = Some h ->
  parser_of (h_brand h) (h_model h) <> 0 ->
  5 <= h_fs h -> h_fps h <> 0 -> i1 <> 0 -> i2 <> 0 ->
  (total_len rest < fuel)%nat ->
  post (src_conn cfg fuel (conn_init cs script i1 i2))
    (fun r w' => exists before, cw_log w' = before ++ [EStop REC_TOK] /\ filter is_stop before = [] /\
                                hd_error before = Some (EAutoFFC true) /\ In (ENewRecorder REC_TOK) before).
Proof.
  intros cfg cs script i1 i2 fuel text rest h Hhdr Hdec Hparser Hfs Hfps Hi1 Hi2 Hfuel.
  eapply post_mono; [apply (tie_handleConn cfg cs script i1 i2 fuel text rest h); assumption|].
  cbv beta. intros r w' (Hr & Hi & Hlog). rewrite Hlog, app_assoc. eexists. split; [reflexivity|].
  split; [rewrite filter_app, no_stop_prelude, no_stop_loop_log; reflexivity|].
  unfold prelude_log. destruct (c_throttle cfg), (c_const cfg); cbn; auto.
Qed.

(* a bad frame: exactly one event and one restart right after the Process entry, then the loop goes on *)
Lemma loop_log_frame : forall p b items sc,
  loop_log p (IFrame b :: items) sc =
  EProcess p b :: (match hd PROk sc with PRBad => [EBadFrameEvent ERR_BAD; ERestart] | _ => [] end) ++ loop_log p items (tl sc).
Proof. reflexivity. Qed.

Lemma all_conn_functions_translated : untranslated_ConnLoop = [].
Proof. reflexivity. Qed.

(* ---------- non-vacuity: a concrete connection ---------- *)
Definition ex_cfg : ccfg :=
  mkCfg (fun _ => Some (mkHdr 6 9 (bytes_of_string "flir") (bytes_of_string "lepton3.5"))) true true 10 5.
(* header "A: 1", blank line, a frame 1..6, the marker, a frame of sevens (the script calls it bad),
   three bytes of a fourth item; cut into three reads *)
Definition ex_cs : list bytes := [[65;58;32;49;10;10;1;2]; [3;4;5;6;99;108;101]; [97;114;7;7;7;7;7;7;9;9;9]].

Example ex_conn :
  match src_conn ex_cfg 30 (conn_init ex_cs [PROk; PRBad] 15 300) with
  | Ok r w => (r, cw_log w, cw_in w)
  | Panicked _ => (None, [], [])
  end =
  (Some ERR_UEOF,
   [EAutoFFC true; ENewRecorder 3; ENewThrottle 3 15 4; ENewRecorder 5; ESetConstant 5; ENewRecorder 6;
    ENewProcessor PARSER_LEPTON 4 5 6 7;
    EProcess 7 [1; 2; 3; 4; 5; 6]; EReset 7; EProcess 7 [7; 7; 7; 7; 7; 7]; EBadFrameEvent ERR_BAD; ERestart;
    EStop 3],
   []).
Proof. vm_compute. reflexivity. Qed.

Example ex_conn_model :
  cr_items (run_conn 6 ex_cs) = [IFrame [1; 2; 3; 4; 5; 6]; IClear; IFrame [7; 7; 7; 7; 7; 7]].
Proof. vm_compute. reflexivity. Qed.
