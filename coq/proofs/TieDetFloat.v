(* Source tie for motion/motion.go, part 6 (optional, NOT axiom-free): the side condition
   [thresh_bounded_from] of proofs/TieDet.v always holds for configurations of at most 2^20
   pixels - the mean of 16-bit pixels, limited to 16-bit bounds, is a uint16.  This is a fact
   about float64 rounding; it is taken from the Flocq-based lemmas of proofs/FloatFacts.v
   (which rest on the axioms of the standard library's real numbers), and gives
   [tie_detector] exactly as first stated, for those configurations. *)
From Coq Require Import List ZArith Bool Arith Lia Reals Lra.
From Coq Require Import Floats.SpecFloat.
From Flocq Require Import Core IEEE754.BinarySingleNaN.
From TR Require Import model.Ring model.Detector model.DetSpec model.DetExt
     proofs.DetC15 proofs.FloatBridge proofs.FloatFacts
     proofs.TieDetBase proofs.TieDetLoops proofs.TieDetSim proofs.TieDet.
Import ListNotations.
Open Scope Z_scope.

#[local] Instance prec64' : Prec_gt_0 53 := eq_refl.
#[local] Instance pe64' : Prec_lt_emax 53 1024 := eq_refl.
Local Notation b64 := (binary_float 53 1024).

Lemma zsum_bounds vs : Forall pix_ok vs -> forall S, 0 <= S ->
  0 <= fold_left Z.add vs S <= S + 65535 * Z.of_nat (length vs).
Proof.
  induction 1 as [|v vs Hv Hvs IH]; intros S HS; cbn [fold_left length].
  - lia.
  - red in Hv. specialize (IH (S + v) ltac:(lia)). lia.
Qed.

Lemma mean_thresh_u16 vs tmin tmax :
  vs <> [] -> (length vs <= 1048576)%nat -> Forall pix_ok vs -> pix_ok tmin -> pix_ok tmax ->
  0 <= calc_thresh_gen tmin tmax (mean_fold vs) <= 65535.
Proof.
  intros Hne Hlen Hvs Hmin Hmax.
  set (N := Z.of_nat (length vs)).
  assert (HN : (1 <= N <= 1048576)%Z).
  { assert (Hbig : Z.of_nat 1048576 = 1048576%Z) by (vm_compute; reflexivity).
    apply Nat2Z.inj_le in Hlen. rewrite Hbig in Hlen. subst N.
    destruct vs; [congruence|]. simpl length in *. lia. }
  destruct (f64_of_Z_exact N) as (nf & En & Fn & Rn); [lia|].
  assert (Herr0 : (Rabs (B2R (B754_zero false : b64) - IZR 0 / IZR N) <= 2 * IZR 0 * eps64)%R).
  { simpl B2R. replace (0 - 0 / IZR N)%R with 0%R by (unfold Rdiv; ring). rewrite Rabs_R0. lra. }
  destruct (mean_fold_inv N HN nf Rn vs (B754_zero false) 0 0 eq_refl (Rle_refl 0))
    as (r & Er & Fr & Rr & Err); auto; try lia.
  assert (Em : mean_fold vs = B2SF r).
  { unfold mean_fold. fold N. rewrite En. exact Er. }
  rewrite Z.add_0_l in Err. fold N in Err.
  assert (Hes : (2 * IZR N * eps64 <= / 32768)%R).
  { assert (IZR N <= 1048576)%R by (apply IZR_le; lia).
    assert (0 < IZR N)%R by (apply IZR_lt; lia). unfold eps64. lra. }
  pose proof (zsum_bounds vs Hvs 0 ltac:(lia)) as HS. fold N in HS.
  set (S := fold_left Z.add vs 0) in *.
  assert (HNp : (0 < IZR N)%R) by (apply IZR_lt; lia).
  assert (Hq : (IZR S / IZR N <= 65535)%R).
  { apply Rle_trans with (65535 * IZR N / IZR N)%R; [|right; field; lra].
    apply Rmult_le_compat_r; [apply Rlt_le, Rinv_0_lt_compat; lra|].
    rewrite <- mult_IZR. apply IZR_le. lia. }
  apply Rabs_le_inv in Err.
  assert (Hx : (B2R r < 65536)%R) by lra.
  rewrite Em, calc_thresh_gen_floor by auto.
  pose proof (Zfloor_lb (B2R r)) as F1.
  assert (F0 : 0 <= Zfloor (B2R r)) by (apply Zfloor_lub; exact Rr).
  assert (F2 : Zfloor (B2R r) < 65536) by (apply lt_IZR; lra).
  unfold clampZ. red in Hmin, Hmax.
  destruct (Z.eqb_spec tmin 0), (Z.eqb_spec tmax 0); lia.
Qed.

(* ---------- the model's thresholds and background stay 16-bit ---------- *)
Definition minv (s : dstate) : Prop :=
  0 <= s_thresh s <= 65535 /\ forall y x, pix_ok (gget (s_bg s) y x).

Lemma bgi_pix' s f pf seed y x :
  (forall y x, pix_ok (gget (f_pix f) y x)) -> (forall y x, pix_ok (gget (s_bg s) y x)) ->
  pix_ok (DetC15.bgi s f pf seed y x).
Proof. intros Hf Hp. unfold DetC15.bgi. destruct (replaces _ _ _ _ _ _); [apply Hf | apply Hp]. Qed.

Lemma minv_detect c s f :
  (2 * d_edge c < d_w c)%nat -> (2 * d_edge c < d_h c)%nat -> (d_w c * d_h c <= 1048576)%nat ->
  pix_ok (d_tmin c) -> pix_ok (d_tmax c) ->
  (forall y x, pix_ok (gget (f_pix f) y x)) -> minv s -> minv (fst (detect c s f)).
Proof.
  intros Hw Hh Hsz Hmin Hmax Hf [Ht Hp].
  destruct (detect_fields c s f) as [E _]. cbv zeta in E.
  unfold minv.
  assert (G : 0 <= snd (dyn_part c s f) <= 65535 /\ forall y x, pix_ok (gget (fst (fst (fst (dyn_part c s f)))) y x)).
  { destruct (d_dynamic c && negb (affected_by_ffc f)) eqn:Ed.
    - apply andb_prop in Ed. destruct Ed as [Ed Ea]. apply negb_true_iff in Ea.
      destruct (dyn_part_dynamic c s f Ed Ea) as (ch & ->). cbn [fst snd]. split.
      + destruct ch; [|exact Ht]. apply mean_thresh_u16; try assumption.
        * unfold ivals. intros En. apply (f_equal (@length Z)) in En. rewrite map_length, length_icoords in En.
          cbn [length] in En. nia.
        * unfold ivals. rewrite map_length, length_icoords. nia.
        * unfold ivals. apply Forall_forall. intros v Hin. apply in_map_iff in Hin. destruct Hin as (yx & <- & _).
          apply bgi_pix'; assumption.
      + intros y x. unfold new_bg. rewrite DetC15.gget_gbuild.
        destruct (_ && _); [apply bgi_pix'; assumption | red; lia].
    - unfold dyn_part. rewrite Ed. cbn [fst snd]. split; assumption. }
  rewrite <- E in G. cbn [fst snd] in G. exact G.
Qed.

Lemma thresh_bounded c : dcfg_ok c -> (d_w c * d_h c <= 1048576)%nat ->
  forall evs s, minv s -> Forall (event_ok c) evs -> thresh_bounded_from c s evs = true.
Proof.
  intros (Hg & Hw & Hh & Ht0 & Hmin & Hmax & _) Hsz evs.
  induction evs as [|e evs IH]; intros s Hs Hev; [reflexivity|].
  inversion Hev as [|? ? He Hev']; subst. destruct e as [f|]; cbn [thresh_bounded_from].
  - cbn [event_ok] in He.
    pose proof (minv_detect c s f Hw Hh Hsz Hmin Hmax (grid_ok_bound _ _ He) Hs) as Hs'.
    destruct (detect c s f) as [s' m]. cbn [fst] in Hs'.
    rewrite (IH s' Hs' Hev'). destruct Hs' as [[H1 H2] _].
    apply Z.leb_le in H1. apply Z.leb_le in H2. rewrite H1, H2. reflexivity.
  - apply IH; [|exact Hev']. destruct Hs as [H1 H2]. split; [exact H1 | exact H2].
Qed.

(* the tie as first stated, for configurations of at most 2^20 pixels *)
Theorem tie_detector_u16 : forall c evs,
    dcfg_ok c -> (d_w c * d_h c <= 1048576)%nat ->
    Forall (event_ok c) evs -> weights_bounded_from c (dinit c) evs = true ->
    map (dproj c) (src_dtrace c evs) = model_dtrace c (dinit c) evs.
Proof.
  intros c evs Hc Hsz Hev Hwb. apply tie_detector; try assumption.
  apply thresh_bounded; try assumption.
  destruct Hc as (_ & _ & _ & Ht0 & _). split; [exact Ht0|].
  intros y x. unfold dinit. cbn [s_bg]. rewrite gget_zero_grid. red. lia.
Qed.
