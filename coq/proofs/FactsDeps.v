(* Constants and wiring expressions read from the Go sources on every run (coq/Extracted.v) agree
   with what the models assume: if one changes in the code, the equality below stops compiling and
   every property that imports this file is reported. (modelled dependency versions: go-cptv C10/C11, lepton3 C13, window C04) *)
From Coq Require Import ZArith List String.
From TR Require Import Extracted model.Ring.
Import ListNotations.
Open Scope Z_scope.

Lemma go_cptv_version_agrees : dep_go_cptv = "v0.0.0-20211109233846-8c32a5d161f7"%string.
Proof. reflexivity. Qed.
Lemma lepton3_version_agrees : dep_lepton3 = "v0.0.0-20210324024142-003e5546e30f"%string.
Proof. reflexivity. Qed.
Lemma window_version_agrees : dep_window = "v0.0.0-20200312071457-7fc8799fdce7"%string.
Proof. reflexivity. Qed.
