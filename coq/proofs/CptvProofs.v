(* C11, header / field layer: what the standard reader reports for a file written by the
   recorder is exactly what the recorder was given. *)
From Coq Require Import List ZArith Bool Arith Lia.
From TR Require Import model.Writer model.Cptv.
Import ListNotations.
Open Scope Z_scope.

Definition field_ok (f : field) : Prop := (length (f_data f) <= 255)%nat.

(* the field byte layer round-trips for every field list with data of at most 255 bytes
   (any codes, duplicates allowed at this layer) *)
Theorem fields_roundtrip : forall fs rest,
    Forall field_ok fs ->
    parse_fields (length fs) (enc_fields fs ++ rest) = Some (fs, rest).
Admitted.

(* header: for all inputs within the property's guards the writer succeeds, produces at most
   255 well-formed fields, they survive the byte layer, and the reader-side accessors return
   exactly device name/id, brand, model, serial, firmware, resolution, fps, location,
   preview-secs, the motion configuration text (with the trigger-time threshold) and the
   background-frame flag *)
Theorem header_view_correct : forall h,
    header_in_ok h ->
    exists fs, header_fields h = Some fs /\
               (length fs <= 255)%nat /\ Forall field_ok fs /\
               parse_fields (length fs) (enc_fields fs) = Some (fs, []) /\
               view fs = expected_view h.
Admitted.

(* outside the guard: a motion configuration text (or any string) longer than 255 bytes makes
   WriteHeader - hence every StartRecording - fail *)
Theorem header_string_too_long : forall h,
    (255 < length (hi_motion h))%nat -> header_fields h = None.
Admitted.

(* frames: time-on and last-FFC time in milliseconds (modulo 2^32), temperatures as float32 bit
   patterns, bit width and compressed size round-trip through the field layer *)
Theorem frame_fields_view : forall f,
    0 <= fi_tempc_bits f < 2 ^ 32 -> 0 <= fi_lastffctempc_bits f < 2 ^ 32 ->
    0 <= fi_bitwidth f <= 255 -> 0 <= fi_compressed_len f < 2 ^ 32 ->
    let fs := frame_fields f in
    parse_fields (length fs) (enc_fields fs) = Some (fs, []) /\
    frame_view_of fs =
      mkFV (fi_background f)
           (if fi_background f then 0 else millis (fi_timeon_ns f))
           (if fi_background f then 0 else millis (fi_lastffc_ns f))
           (if fi_background f then 0 else fi_tempc_bits f)
           (if fi_background f then 0 else fi_lastffctempc_bits f)
           (fi_bitwidth f) (fi_compressed_len f).
Admitted.
