(* C11, header / field layer: what the standard reader reports for a file written by the
   recorder is exactly what the recorder was given. *)
From Coq Require Import List ZArith Bool Arith Lia.
From TR Require Import model.Writer model.Cptv.
Import ListNotations.
Open Scope Z_scope.

Definition field_ok (f : field) : Prop := (length (f_data f) <= 255)%nat.


(* ---- byte layer helpers ---- *)
Lemma take_n_app : forall a b, take_n (length a) (a ++ b) = Some (a, b).
Proof.
  induction a as [|x a IH]; intros b; simpl.
  - reflexivity.
  - rewrite IH. reflexivity.
Qed.

(* the field byte layer round-trips for every field list with data of at most 255 bytes
   (any codes, duplicates allowed at this layer) *)
Theorem fields_roundtrip : forall fs rest,
    Forall field_ok fs ->
    parse_fields (length fs) (enc_fields fs ++ rest) = Some (fs, rest).
Proof.
  induction fs as [|f fs IH]; intros rest Hok.
  - reflexivity.
  - inversion Hok as [|f' fs' Hf Hfs]; subst.
    destruct f as [c d].
    cbn [length enc_fields flat_map enc_field f_code f_data app parse_fields].
    rewrite Nat2Z.id, <- app_assoc, take_n_app.
    fold (enc_fields fs). rewrite (IH rest Hfs). reflexivity.
Qed.

Corollary fields_roundtrip_nil : forall fs,
    Forall field_ok fs -> parse_fields (length fs) (enc_fields fs) = Some (fs, []).
Proof.
  intros fs Hok. pose proof (fields_roundtrip fs [] Hok) as H.
  rewrite app_nil_r in H. exact H.
Qed.

(* ---- little-endian integers ---- *)
Lemma le_bytes_length : forall n v, length (le_bytes n v) = n.
Proof. induction n as [|n IH]; intros v; simpl; [reflexivity | now rewrite IH]. Qed.

Lemma le_value_le_bytes : forall n v, le_value (le_bytes n v) = v mod 256 ^ Z.of_nat n.
Proof.
  induction n as [|n IH]; intros v.
  - simpl. now rewrite Z.mod_1_r.
  - cbn [le_bytes le_value]. rewrite IH, Nat2Z.inj_succ, Z.pow_succ_r by lia.
    rewrite Z.rem_mul_r by lia. reflexivity.
Qed.

Lemma le_value_le_bytes_small : forall n v,
    0 <= v < 256 ^ Z.of_nat n -> le_value (le_bytes n v) = v.
Proof. intros n v Hv. rewrite le_value_le_bytes. now apply Z.mod_small. Qed.

(* ---- find_field over list constructors (later fields win) ---- *)
Lemma find_app : forall (A : Type) (p : A -> bool) l1 l2,
    find p (l1 ++ l2) = match find p l1 with Some x => Some x | None => find p l2 end.
Proof.
  intros A p l1 l2. induction l1 as [|x l1 IH]; simpl; [reflexivity|].
  destruct (p x); [reflexivity | exact IH].
Qed.

Lemma find_field_nil : forall c, find_field c [] = None.
Proof. reflexivity. Qed.

Lemma find_field_app : forall c l1 l2,
    find_field c (l1 ++ l2) =
    match find_field c l2 with Some d => Some d | None => find_field c l1 end.
Proof.
  intros c l1 l2. unfold find_field. rewrite rev_app_distr, find_app.
  destruct (find _ (rev l2)); reflexivity.
Qed.

Lemma find_field_cons : forall c f l,
    find_field c (f :: l) =
    match find_field c l with
    | Some d => Some d
    | None => if f_code f =? c then Some (f_data f) else None
    end.
Proof.
  intros c f l. change (f :: l) with ([f] ++ l). rewrite find_field_app.
  unfold find_field at 2. cbn [rev app find]. destruct (f_code f =? c); reflexivity.
Qed.

Lemma find_field_opt : forall c b f,
    find_field c (opt b f) =
    if f_code f =? c then (if b then Some (f_data f) else None) else None.
Proof.
  intros c b f. destruct b; cbn [opt].
  - rewrite find_field_cons, find_field_nil. reflexivity.
  - rewrite find_field_nil. destruct (f_code f =? c); reflexivity.
Qed.

Lemma Forall_opt : forall (P : field -> Prop) b f, P f -> Forall P (opt b f).
Proof. intros P b f H. destruct b; cbn [opt]; auto. Qed.

Lemma opt_length_le : forall b f, (length (opt b f) <= 1)%nat.
Proof. intros b f. destruct b; cbn; lia. Qed.

Lemma too_long_false : forall s : bytes, (length s <= 255)%nat -> Nat.ltb 255 (length s) = false.
Proof. intros s H. apply Nat.ltb_ge. exact H. Qed.

Lemma empty_len : forall s : bytes, Nat.eqb (length s) 0 = true -> s = [].
Proof. intros s H. apply Nat.eqb_eq in H. destruct s; [reflexivity | discriminate]. Qed.

Lemma mkHV_eq : forall a1 a2 a3 a4 a5 a6 a7 a8 a9 a10 a11 a12 a13 a14 a15 a16 a17 a18 a19 b1 b2 b3 b4 b5 b6 b7 b8 b9 b10 b11 b12 b13 b14 b15 b16 b17 b18 b19,
    a1 = b1 -> a2 = b2 -> a3 = b3 -> a4 = b4 -> a5 = b5 -> a6 = b6 -> a7 = b7 -> a8 = b8 -> a9 = b9 -> a10 = b10 -> a11 = b11 -> a12 = b12 -> a13 = b13 -> a14 = b14 -> a15 = b15 -> a16 = b16 -> a17 = b17 -> a18 = b18 -> a19 = b19 ->
    mkHV a1 a2 a3 a4 a5 a6 a7 a8 a9 a10 a11 a12 a13 a14 a15 a16 a17 a18 a19 = mkHV b1 b2 b3 b4 b5 b6 b7 b8 b9 b10 b11 b12 b13 b14 b15 b16 b17 b18 b19.
Proof. intros; subst; reflexivity. Qed.

Lemma mkFV_eq : forall a1 a2 a3 a4 a5 a6 a7 b1 b2 b3 b4 b5 b6 b7,
    a1 = b1 -> a2 = b2 -> a3 = b3 -> a4 = b4 -> a5 = b5 -> a6 = b6 -> a7 = b7 ->
    mkFV a1 a2 a3 a4 a5 a6 a7 = mkFV b1 b2 b3 b4 b5 b6 b7.
Proof. intros; subst; reflexivity. Qed.

Ltac unfold_codes :=
  unfold u8, u16, u32, u64,
    C_NUMFRAMES, C_MAXTEMP, C_MINTEMP, C_TIMESTAMP, C_XRES, C_YRES, C_COMPRESSION, C_SERIAL,
    C_DEVNAME, C_FIRMWARE, C_MODEL, C_BRAND, C_FPS, C_DEVID, C_PREVIEW, C_MOTION, C_LAT, C_LONG,
    C_LOCTS, C_ALT, C_ACC, C_BACKGROUND, C_TIMEON, C_BITWIDTH, C_FRAMESIZE, C_LASTFFC, C_TEMPC,
    C_LASTFFCTEMP.

(* compute one accessor over a field list made of [::], [++] and [opt] with concrete codes *)
Ltac rd_compute :=
  unfold rd_u8, rd_u16, rd_u32, rd_u64, rd_str, get_n;
  rewrite ?find_field_app, ?find_field_opt, ?find_field_cons, ?find_field_nil;
  unfold_codes;
  cbn [f_code f_data Z.eqb Pos.eqb];
  repeat first
    [ progress (rewrite ?le_bytes_length; cbn [length Nat.eqb])
    | match goal with
      | |- context [if ?b then _ else _] =>
        lazymatch b with
        | Nat.eqb (length _) _ => fail
        | _ => let E := fresh "E" in destruct b eqn:E
        end
      end ];
  cbn [le_value negb];
  try reflexivity;
  try match goal with
      | E : negb (Nat.eqb (length ?s) 0) = false |- _ =>
        apply negb_false_iff in E; apply empty_len in E; rewrite E; reflexivity
      end;
  repeat match goal with E : (_ <? _) = true |- _ => apply Z.ltb_lt in E end;
  rewrite ?le_value_le_bytes_small by lia; rewrite ?Z.mod_small by lia;
  try reflexivity; try lia.

Ltac field_ok_tac :=
  repeat first [ apply Forall_nil | apply Forall_cons
               | apply Forall_app; split | apply Forall_opt ];
  unfold field_ok; unfold_codes; cbn [f_data]; rewrite ?le_bytes_length; cbn [length]; try lia.


(* header: for all inputs within the property's guards the writer succeeds, produces at most
   255 well-formed fields, they survive the byte layer, and the reader-side accessors return
   exactly device name/id, brand, model, serial, firmware, resolution, fps, location,
   preview-secs, the motion configuration text (with the trigger-time threshold) and the
   background-frame flag *)
Theorem header_view_correct : forall h,
    header_in_ok h ->
    exists fs, header_fields h = Some fs /\
               (length fs <= 255)%nat /\ Forall field_ok fs /\
               parse_fields (length fs) (enc_fields fs) = Some (fs, []) /\
               view fs = expected_view h.
Proof.
  intros h Hok.
  destruct Hok as (Hts & Hx & Hy & Hser & Hfps & Hdevid & Hprev & Hdn & Hfw & Hmo & Hbr & Hmot &
                   Hlat & Hlong & Halt & Hacc & Hlocts).
  unfold header_fields. cbv beta zeta.
  rewrite (too_long_false _ Hdn), (too_long_false _ Hfw), (too_long_false _ Hmo),
          (too_long_false _ Hbr), (too_long_false _ Hmot).
  cbn [orb].
  eexists. split; [reflexivity|].
  assert (Hfok : Forall field_ok
    ([u16 C_NUMFRAMES 0; u16 C_MAXTEMP 0; u16 C_MINTEMP 0;
     u64 C_TIMESTAMP (hi_timestamp_us h);
     u32 C_XRES (hi_resx h); u32 C_YRES (hi_resy h);
     u8 C_COMPRESSION 1;
     u32 C_SERIAL (hi_serial h)] ++
    opt (negb (Nat.eqb (length (hi_devname h)) 0)) (mkField C_DEVNAME (hi_devname h)) ++
    opt (negb (Nat.eqb (length (hi_firmware h)) 0)) (mkField C_FIRMWARE (hi_firmware h)) ++
    opt (negb (Nat.eqb (length (hi_model h)) 0)) (mkField C_MODEL (hi_model h)) ++
    opt (negb (Nat.eqb (length (hi_brand h)) 0)) (mkField C_BRAND (hi_brand h)) ++
    opt (0 <? hi_fps h) (u8 C_FPS (hi_fps h)) ++
    opt (0 <? hi_devid h) (u32 C_DEVID (hi_devid h)) ++
    [u8 C_PREVIEW (hi_preview h)] ++
    opt (negb (Nat.eqb (length (hi_motion h)) 0)) (mkField C_MOTION (hi_motion h)) ++
    opt (negb (hi_lat_zero h)) (u32 C_LAT (hi_lat_bits h)) ++
    opt (negb (hi_long_zero h)) (u32 C_LONG (hi_long_bits h)) ++
    opt (negb (hi_locts_zero h)) (u64 C_LOCTS (hi_locts_us h)) ++
    opt (hi_alt_nonneg h) (u32 C_ALT (hi_alt_bits h)) ++
    opt (negb (hi_acc_zero h)) (u32 C_ACC (hi_acc_bits h)) ++
    opt (hi_background h) (u8 C_BACKGROUND 1))) by field_ok_tac.
  split; [|split; [exact Hfok|split; [exact (fields_roundtrip_nil _ Hfok)|]]].
  - rewrite !app_length.
    repeat match goal with
           | |- context [length (opt ?b ?f)] =>
             generalize (opt_length_le b f); generalize (length (opt b f)); intros ? ?
           end.
    cbn [length]. lia.
  - clear Hfok. change (2 ^ 64) with (256 ^ Z.of_nat 8) in *.
    change (2 ^ 32) with (256 ^ Z.of_nat 4) in *.
    unfold view, expected_view. apply mkHV_eq; rd_compute.
Qed.

(* outside the guard: a motion configuration text (or any string) longer than 255 bytes makes
   WriteHeader - hence every StartRecording - fail *)
Theorem header_string_too_long : forall h,
    (255 < length (hi_motion h))%nat -> header_fields h = None.
Proof.
  intros h H. unfold header_fields. cbv beta zeta.
  apply Nat.ltb_lt in H. rewrite H, orb_true_r. reflexivity.
Qed.

(* frames: time-on and last-FFC time in milliseconds (modulo 2^32), temperatures as float32 bit
   patterns, bit width and compressed size round-trip through the field layer *)
Theorem frame_fields_view : forall f,
    0 <= fi_tempc_bits f < 2 ^ 32 -> 0 <= fi_lastffctempc_bits f < 2 ^ 32 ->
    0 <= fi_bitwidth f <= 255 -> 0 <= fi_compressed_len f < 2 ^ 32 ->
    let fs := frame_fields f in
    parse_fields (length fs) (enc_fields fs) = Some (fs, []) /\
    frame_view_of fs =
      mkFV (fi_background f)
           (if fi_background f then 0 else millis (fi_timeon_ns f))
           (if fi_background f then 0 else millis (fi_lastffc_ns f))
           (if fi_background f then 0 else fi_tempc_bits f)
           (if fi_background f then 0 else fi_lastffctempc_bits f)
           (fi_bitwidth f) (fi_compressed_len f).
Proof.
  intros f Htc Hlt Hbw Hlen fs.
  assert (Hfok : Forall field_ok fs).
  { unfold fs, frame_fields. destruct (fi_background f); field_ok_tac. }
  split; [exact (fields_roundtrip_nil _ Hfok)|].
  pose proof (Z.mod_pos_bound (fi_timeon_ns f / 1000000) (2 ^ 32) eq_refl) as Hton.
  pose proof (Z.mod_pos_bound (fi_lastffc_ns f / 1000000) (2 ^ 32) eq_refl) as Hffc.
  fold (millis (fi_timeon_ns f)) in Hton. fold (millis (fi_lastffc_ns f)) in Hffc.
  change (2 ^ 32) with (256 ^ Z.of_nat 4) in *.
  unfold fs, frame_fields, frame_view_of.
  destruct (fi_background f); apply mkFV_eq; rd_compute.
Qed.
