(* Source tie for motion/motion.go (the motion detector).

   coq/translated/MotionDetector.v is regenerated from the Go source on every run; model/DetExt.v
   gives the calls that leave it (frame pixels and telemetry, the float32 weights, every
   floating-point operation, debug tracker, logging) their meaning.  The theorem: run on any
   stream of frames and resets, the translated Detect / Reset produce, after every event,
   exactly the verdict, threshold, background-frame count, background and weights of the
   hand-written model model/Detector.v - the model the theorems of C07, C08, C09 and C15 are
   about.  A change to motion.go that changes what the detector computes on some stream
   therefore breaks this theorem, whether or not a generated input reaches it.

   The proof is in proofs/TieDetBase.v (float codes, grids, the world, the monad),
   proofs/TieDetLoops.v (the diff and count loops), proofs/TieDetBg.v (updateBackground),
   proofs/TieDetSim.v (the simulation relation; pixelsChanged, Detect, Reset) - compiled in this
   order - and the induction over the event list below.  All of it is axiom-free.
   proofs/TieDetFloat.v (optional, through Flocq) removes the side condition
   [thresh_bounded_from] for configurations of at most 2^20 pixels. *)
From Coq Require Import List ZArith Bool String Lia Arith.
From Coq Require Import Floats.SpecFloat.
From TR Require Import model.GoSem model.Ring model.Detector model.DetExt
     translated.FrameLoop translated.MotionDetector proofs.RingProofs proofs.TieRing
     proofs.TieDetBase proofs.TieDetLoops proofs.TieDetBg proofs.TieDetSim.
Import ListNotations.
Open Scope Z_scope.

(* what is compared after every event *)
Definition dview := (bool * Z * Z * grid * list (list f32))%type.

Definition dproj (c : dcfg) (x : bool * motionDetector * dworld) : dview :=
  let '(m, d, w) := x in
  (m, motionDetector_tempThresh d, motionDetector_backgroundFrames d, f_pix (dframe w (H_BG c)), dw_wts w).

Fixpoint model_dtrace (c : dcfg) (s : dstate) (evs : list dev) : list dview :=
  match evs with
  | [] => []
  | DFrame f :: t => let (s', m) := detect c s f in (m, s_thresh s', s_bgframes s', s_bg s', s_wts s') :: model_dtrace c s' t
  | DReset :: t => let s' := dreset s in (false, s_thresh s', s_bgframes s', s_bg s', s_wts s') :: model_dtrace c s' t
  end.

(* a frame of the configured resolution with 16-bit pixels *)
Definition grid_ok (c : dcfg) (g : grid) : Prop :=
  List.length g = d_h c /\ Forall (fun row => List.length row = d_w c /\ Forall (fun v => 0 <= v <= 65535) row) g.

Definition event_ok (c : dcfg) (e : dev) : Prop :=
  match e with DFrame f => grid_ok c (f_pix f) | DReset => True end.

(* configurations: a non-empty interior, a compare gap of at least one frame, 16-bit thresholds *)
Definition dcfg_ok (c : dcfg) : Prop :=
  1 <= d_gap c /\ (2 * d_edge c < d_w c)%nat /\ (2 * d_edge c < d_h c)%nat /\
  0 <= d_thresh0 c <= 65535 /\ 0 <= d_tmin c <= 65535 /\ 0 <= d_tmax c <= 65535 /\ 0 <= d_delta c <= 65535.

(* The Go code clamps a pixel's weight to math.MaxFloat32 when adding 0.1 overflows; the
   hand-written model has no such clamp (float32 addition of 0.1 stalls near 2^21, far below
   MaxFloat32, so the clamp is dead code - but that is a fact about rounding, kept out of this
   theorem): the tie is stated for runs in which no weight the model computes exceeds
   MaxFloat32, a decidable condition on the model's own run. *)
Fixpoint weights_bounded_from (c : dcfg) (s : dstate) (evs : list dev) : bool :=
  match evs with
  | [] => true
  | DFrame f :: t =>
    let (s', _) := detect c s f in
    forallb (forallb (fun w => negb (SFltb f32_max_float w))) (s_wts s') && weights_bounded_from c s' t
  | DReset :: t => weights_bounded_from c (dreset s) t
  end.

(* CORRECTED: a second decidable condition on the model's own run.  The translated code floors
   pixels with [wrap_u 16 tempThresh] (tempThresh is a uint16 in Go) where the model floors with
   its threshold as an unbounded integer; the external call "f64.to_uint16" (model/DetExt.v) returns
   the model's [f64_trunc], which does not wrap.  The two agree exactly when every threshold the
   model computes is a uint16.  (That it always is - the mean of 16-bit pixels clamped to 16-bit
   bounds - is a fact about float rounding; it is proved in proofs/TieDetFloat.v from the Flocq
   lemmas of proofs/FloatFacts.v, and kept out of this axiom-free file.) *)
Fixpoint thresh_bounded_from (c : dcfg) (s : dstate) (evs : list dev) : bool :=
  match evs with
  | [] => true
  | DFrame f :: t =>
    let (s', _) := detect c s f in
    (0 <=? s_thresh s') && (s_thresh s' <=? 65535) && thresh_bounded_from c s' t
  | DReset :: t => thresh_bounded_from c (dreset s) t
  end.

(* ---------- from the statement's vocabulary to the simulation's ---------- *)
Lemma grid_ok_dims c g : grid_ok c g -> tdims (d_h c) (d_w c) g.
Proof.
  intros [L F]. split; [exact L|]. intros y Hy. rewrite Forall_forall in F.
  apply (F (nth y g [])). apply nth_In. lia.
Qed.

Lemma grid_ok_bound c g : grid_ok c g -> gbound g.
Proof.
  intros [L F] y x. unfold gget. rewrite Forall_forall in F.
  destruct (Nat.lt_ge_cases y (List.length g)) as [Hy|Hy].
  - destruct (F (nth y g []) (nth_In _ _ Hy)) as [_ Fr]. rewrite Forall_forall in Fr.
    destruct (Nat.lt_ge_cases x (List.length (nth y g []))) as [Hx|Hx].
    + apply Fr. apply nth_In. exact Hx.
    + rewrite nth_overflow by exact Hx. lia.
  - rewrite (nth_overflow g) by exact Hy. destruct x; cbn; lia.
Qed.

Lemma forallb2_tget {A} (P : A -> bool) (d : A) h w t y x :
  forallb (forallb P) t = true -> tdims h w t -> (y < h)%nat -> (x < w)%nat -> P (tget d t y x) = true.
Proof.
  intros H [L R] Hy Hx. rewrite forallb_forall in H.
  assert (Hr : forallb P (nth y t []) = true) by (apply H; apply nth_In; lia).
  rewrite forallb_forall in Hr. apply Hr. unfold tget. apply nth_In. rewrite R by exact Hy. exact Hx.
Qed.

Lemma pix_step_wts c s1 f p : s_wts (fst (pix_step c s1 f p)) = s_wts s1.
Proof. unfold pix_step. cbv zeta. destruct (negb _); [reflexivity|]. destruct (_ || _); reflexivity. Qed.

Lemma pix_step_thresh c s1 f p : s_thresh (fst (pix_step c s1 f p)) = s_thresh s1.
Proof. unfold pix_step. cbv zeta. destruct (negb _); [reflexivity|]. destruct (_ || _); reflexivity. Qed.

(* the weights of the model's next state, where the background is updated on a later frame *)
Lemma next_wts c s f y x :
  d_dynamic c && negb (affected_by_ffc f) = true -> s_bgframes s + 1 <> 1 ->
  (y < d_h c)%nat -> (x < d_w c)%nat -> interior c y x = true -> replaces s f (s_affected s) false y x = false ->
  wget (s_wts (fst (detect c s f))) y x = f32_add (wget (s_wts s) y x) f32_tenth.
Proof.
  intros Hdyn Hn Hy Hx Hi Hr. rewrite detect_split, pix_step_wts. unfold pre_state. rewrite Hdyn. cbn [s_wts].
  unfold update_background. cbv zeta. cbn [fst snd].
  destruct (Z.eqb_spec (s_bgframes s + 1) 1) as [E|_]; [contradiction|].
  match goal with |- wget ?t _ _ = _ => change t with (tbuild (d_h c) (d_w c) (fun y x =>
      if interior c y x then if replaces s f (s_affected s) false y x then f32_zero else f32_add (wget (s_wts s) y x) f32_tenth
      else wget (s_wts s) y x)) end.
  rewrite wget_tget, tget_tbuild by assumption. rewrite Hi, Hr. reflexivity.
Qed.

Lemma run_ok c : cdims c -> 1 <= d_gap c -> forall evs d w s,
  sim c d w s -> Forall (event_ok c) evs ->
  weights_bounded_from c s evs = true -> thresh_bounded_from c s evs = true ->
  map (dproj c) (src_dtrace_from c (d, w) evs) = model_dtrace c s evs.
Proof.
  intros Hcfg Hgap evs. induction evs as [|e evs IH]; intros d w s S Hev Hwb Htb; [reflexivity|].
  inversion Hev as [|? ? He Hev']; subst. destruct e as [f|].
  - cbn [event_ok] in He.
    cbn [weights_bounded_from thresh_bounded_from model_dtrace src_dtrace_from] in *.
    destruct (detect c s f) as [s' m] eqn:Ed.
    apply andb_prop in Hwb. destruct Hwb as [Hw1 Hw2].
    apply andb_prop in Htb. destruct Htb as [Ht1 Ht3]. apply andb_prop in Ht1. destruct Ht1 as [Ht1 Ht2].
    assert (Es' : s' = fst (detect c s f)) by (rewrite Ed; reflexivity).
    assert (Em : m = snd (detect c s f)) by (rewrite Ed; reflexivity).
    destruct (Detect_ok c Hcfg Hgap d w s f S (grid_ok_dims _ _ He) (grid_ok_bound _ _ He)) as (d' & w' & E & S').
    + intros Hdyn Hn y x Hi Hr. pose proof Hi as Hi'. apply interior_true in Hi'.
      assert (Hy : (y < d_h c)%nat) by (clear - Hi'; lia). assert (Hx : (x < d_w c)%nat) by (clear - Hi'; lia).
      rewrite <- (next_wts c s f y x Hdyn Hn Hy Hx Hi Hr), <- Es'.
      assert (D' : tdims (d_h c) (d_w c) (s_wts s')).
      { rewrite Es', detect_split, pix_step_wts. unfold pre_state. rewrite Hdyn. cbn [s_wts].
        apply (ub_wts_ok c s f (s_affected s)); apply S. }
      pose proof (forallb2_tget _ f32_zero _ _ _ y x Hw1 D' Hy Hx) as Hp.
      cbv beta in Hp. rewrite wget_tget. revert Hp.
      destruct (SFltb f32_max_float (tget f32_zero (s_wts s') y x)); cbn [negb]; intros Hp; [discriminate | reflexivity].
    + rewrite <- (pix_step_thresh c (pre_state c s f) f (s_affected s)), <- detect_split, <- Es'. lia.
    + rewrite E. cbn [map]. rewrite <- Es' in S'. rewrite <- Em. f_equal.
      * unfold dproj. rewrite (sm_thresh _ _ _ _ S'), (sm_bgframes _ _ _ _ S'), <- (sm_bg _ _ _ _ S'), (sm_wts _ _ _ _ S').
        reflexivity.
      * apply IH; assumption.
  - cbn [weights_bounded_from thresh_bounded_from model_dtrace src_dtrace_from] in *.
    destruct (Reset_ok c d w s S) as (d' & E & S'). rewrite E. cbn [map]. f_equal.
    + unfold dproj. rewrite (sm_thresh _ _ _ _ S'), (sm_bgframes _ _ _ _ S'), <- (sm_bg _ _ _ _ S'), (sm_wts _ _ _ _ S').
      reflexivity.
    + apply IH; assumption.
Qed.

Theorem tie_detector : forall c evs,
    dcfg_ok c -> Forall (event_ok c) evs -> weights_bounded_from c (dinit c) evs = true ->
    thresh_bounded_from c (dinit c) evs = true ->      (* CORRECTED: see thresh_bounded_from *)
    map (dproj c) (src_dtrace c evs) = model_dtrace c (dinit c) evs.
Proof.
  intros c evs (Hg & Hw & Hh & Ht & _) Hev Hwb Htb. unfold src_dtrace.
  apply run_ok; try assumption.
  - split; assumption.
  - apply sim_init; [split; assumption | assumption | assumption].
Qed.

(* non-vacuity: the theorem applies to a 5x4 stream with a dynamic threshold, bounds, a reset
   and an FFC event (all four premises are checked, two of them by computation) *)
Definition ex_cfg : dcfg := mkD 5 4 1 1 false 5 1 false true 100 105 120 0.
Definition ex_frame (v t : Z) : dev := DFrame (mkF (repeat (repeat v 5) 4) t 0).
Definition ex_evs : list dev :=
  [ex_frame 100 100000000000; ex_frame 110 100000000000; ex_frame 90 100000000000; DReset;
   ex_frame 130 100000000000; ex_frame 140 5; ex_frame 150 100000000000].

Example tie_detector_applies :
  map (dproj ex_cfg) (src_dtrace ex_cfg ex_evs) = model_dtrace ex_cfg (dinit ex_cfg) ex_evs.
Proof.
  apply tie_detector.
  - unfold dcfg_ok, ex_cfg. cbn. lia.
  - unfold ex_evs, ex_frame, event_ok, grid_ok, ex_cfg. cbn. repeat (first [lia | constructor]).
  - vm_compute. reflexivity.
  - vm_compute. reflexivity.
Qed.

Lemma all_detector_methods_translated : untranslated_MotionDetector = [].
Proof. reflexivity. Qed.
