(* The constants the models use are the ones the Go sources have now (coq/Extracted.v is
   regenerated from /repo on every run): if a constant changes in the code, one of these
   equalities stops compiling and every property whose model uses it is reported. *)
From Coq Require Import ZArith List String.
From TR Require Import Extracted model.Ring model.Detector model.Processor model.LogLimiter.
Import ListNotations.
Open Scope Z_scope.

Lemma ffc_period_agrees : FFC_PERIOD = ffc_period_ns.
Proof. reflexivity. Qed.

Lemma no_oldest_agrees : @NO_OLDEST_SET = no_oldest_set.
Proof. reflexivity. Qed.

(* `mp.snapshotFrames > 20`: the model's SNAP_LAST and its `>?` *)
Lemma snapshot_limit_agrees : SNAP_LAST = snapshot_frames_limit /\ snapshot_frames_op = ">"%string.
Proof. split; reflexivity. Qed.

Lemma weight_increment_agrees : weight_increment = "0.1"%string.
Proof. reflexivity. Qed.

(* ring capacity, min/max frames as NewMotionProcessor computes them (the harness derives
   p_size / p_min / p_max from the configuration with exactly these expressions) *)
Lemma processor_wiring_agrees :
  wiring_frameLoop = "NewFrameLoop(recorderConf.PreviewSecs*c.FPS()+motionConf.TriggerFrames, c)"%string /\
  wiring_minFrames = "recorderConf.MinSecs * c.FPS()"%string /\
  wiring_maxFrames = "recorderConf.MaxSecs * c.FPS()"%string /\
  wiring_motionDetector = "NewMotionDetector(*motionConf, recorderConf.PreviewSecs*c.FPS(), c)"%string.
Proof. repeat split; reflexivity. Qed.

Lemma log_interval_agrees : min_log_interval_ns = 60000000000.
Proof. reflexivity. Qed.

(* the throttle's minimum recording length as wired in main.go *)
Lemma throttle_wiring_agrees :
  wiring_min_recording_length = "conf.Recorder.MinSecs + conf.Recorder.PreviewSecs"%string.
Proof. reflexivity. Qed.

(* the modelled dependency versions *)
Lemma dependency_versions_agree :
  dep_ratelimit = "v1.0.1"%string /\
  dep_go_cptv = "v0.0.0-20211109233846-8c32a5d161f7"%string /\
  dep_lepton3 = "v0.0.0-20210324024142-003e5546e30f"%string /\
  dep_window = "v0.0.0-20200312071457-7fc8799fdce7"%string.
Proof. repeat split; reflexivity. Qed.
