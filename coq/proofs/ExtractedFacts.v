(* All the agreement facts between coq/Extracted.v (regenerated from /repo on every run) and the
   models, by topic; each property imports the topics its models use. *)
From TR Require Export proofs.FactsRing proofs.FactsProc proofs.FactsDet proofs.FactsThrottle proofs.FactsDeps.
