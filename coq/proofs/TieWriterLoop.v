(* Source tie for thermal-writer's two goroutines (cmd/thermal-writer/main.go: handleConn with its frame
   loop, and writer), translated in coq/translated/WriterLoop.v and run in the outside world of
   model/WriterLoopExt.v: the steps of the Go code ARE the steps of model/Writer.v's transition system.

     Rel / RelF / SysRel         the simulation relation: channels = the model's queues (buffer b = byte slice
                                 base + b), queued buffers hold what the model says, the socket holds the model's
                                 remaining frames, one io.WriteCloser per file of the model
     reader_iteration(_eof)      one iteration of the translated reader loop = RTake; RFill; RSend  (RTake; REof)
     writer_frame / _finish / _rotate   one iteration of the translated writer loop = WRecv; WWrite; WReturn /
                                 WFinish / WRotate
     writer_begin, handleConn_prelude   the code before the loops; the translated functions ARE start ;; forever body
     writer_open_fail_panics, writer_write_fault_panics   what the Go code does outside the side conditions
     sys_step_sim, sys_run_sim   every scheduling step / schedule of the two goroutines
     source_all_schedules, source_no_panic, source_prefix, source_final(_parses)   the whole connection
     ex_writer_loop              5 frames, a lagging writer, a rotation, a truncated sixth frame (vm_compute)
   Convention on blocking and the granularity of the scheduler: see model/WriterLoopExt.v.
   All Qed, no axioms. *)
From Coq Require Import String List ZArith Bool Arith Lia Permutation.
From Coq Require Import ZifyBool ZifyNat.
From TR Require Import model.GoSem model.Writer model.Socket model.Cptv model.RawExt translated.ThermalRaw translated.WriterLoop.
From TR Require Import model.WriterLoopExt proofs.WriterProofs proofs.SocketProofs proofs.TieRaw proofs.TieWriterLoopBase.
Import ListNotations.
Open Scope Z_scope.

Lemma bind_assoc {W A B C} (m : M W A) (k1 : A -> M W B) (k2 : B -> M W C) w :
  bind (bind m k1) k2 w = bind m (fun a => bind (k1 a) k2) w.
Proof. unfold bind. destruct (m w); reflexivity. Qed.

(* ---- byte slices of the builder's world ---- *)
Lemma rbytes_set_eq r t b : 0 <= t -> (Z.to_nat t < List.length (rw_bytes r))%nat -> rbytes (set_bytes r t b) t = b.
Proof. intros _ H. unfold rbytes, set_bytes. cbn [rw_bytes with_bytes]. apply nth_list_upd_eq. exact H. Qed.

Lemma rbytes_set_neq r t t' b : Z.to_nat t' <> Z.to_nat t -> rbytes (set_bytes r t b) t' = rbytes r t'.
Proof. intros H. unfold rbytes, set_bytes. cbn [rw_bytes with_bytes]. apply nth_list_upd_neq. exact H. Qed.

Lemma set_bytes_length r t b : List.length (rw_bytes (set_bytes r t b)) = List.length (rw_bytes r).
Proof. unfold set_bytes. cbn [rw_bytes with_bytes]. apply length_list_upd. Qed.

(* ---- io.ReadFull ---- *)
Lemma readfull_ok w buf n :
  0 <= buf -> (Z.to_nat buf < List.length (rw_bytes (wl_raw w)))%nat ->
  List.length (rbytes (wl_raw w) buf) = n -> (n <= List.length (List.concat (wl_in w)))%nat ->
  exists rest,
    List.concat rest = skipn n (List.concat (wl_in w)) /\
    do_readfull w READER buf =
      (Z.of_nat n, with_pend (with_in (with_raw w (set_bytes (wl_raw w) buf (firstn n (List.concat (wl_in w))))) rest) 0).
Proof.
  intros H0 Hlt Hn Hlen. unfold do_readfull.
  replace (negb (READER =? READER) || (buf <? 0) || negb (Z.to_nat buf <? List.length (rw_bytes (wl_raw w)))%nat) with false by lia.
  rewrite Hn. pose proof (take_c_flat (wl_in w) n) as F. unfold take_f in F.
  destruct (Nat.ltb_spec (List.length (List.concat (wl_in w))) n) as [L|L]; [lia|].
  destruct (take_c n (wl_in w)) as [[h rest]|]; [|discriminate].
  cbn [flat] in F. injection F as -> Hr. exists rest. split; [exact Hr|reflexivity].
Qed.

Lemma readfull_short w buf n :
  0 <= buf -> (Z.to_nat buf < List.length (rw_bytes (wl_raw w)))%nat ->
  List.length (rbytes (wl_raw w) buf) = n -> (List.length (List.concat (wl_in w)) < n)%nat ->
  let d := List.concat (wl_in w) in
  exists e, e <> 0 /\ (e = WERR_EOF \/ e = WERR_UEOF) /\
    do_readfull w READER buf =
      (Z.of_nat (List.length d),
       with_pend (with_in (with_raw w (set_bytes (wl_raw w) buf (d ++ skipn (List.length d) (rbytes (wl_raw w) buf)))) []) e).
Proof.
  intros H0 Hlt Hn Hlen d. unfold do_readfull.
  replace (negb (READER =? READER) || (buf <? 0) || negb (Z.to_nat buf <? List.length (rw_bytes (wl_raw w)))%nat) with false by lia.
  rewrite Hn. pose proof (take_c_flat (wl_in w) n) as F. unfold take_f in F.
  destruct (Nat.ltb_spec (List.length (List.concat (wl_in w))) n) as [L|L]; [|lia].
  destruct (take_c n (wl_in w)) as [[h rest]|]; [discriminate|].
  fold d. eexists. split; [|split; [|reflexivity]];
    destruct d; unfold WERR_EOF, WERR_UEOF; auto; discriminate.
Qed.

(* ====================================================================================
   The simulation relation
   ==================================================================================== *)
Section Sim.
  Variables (nbuf base fs : nat) (p : rparams) (cfg0 : rcfg).
  Hypothesis fs_pos : (1 <= fs)%nat.
  Hypothesis p_reader : rp_reader p = READER.
  Hypothesis p_header : rp_header p = HDR.
  Hypothesis p_i1 : rp_i1 p <> 0.
  Hypothesis p_i2 : rp_i2 p <> 0.

  (* buffer b of model/Writer.v is the byte slice with token base + b *)
  Definition tokb (b : buf) : Z := Z.of_nat (base + b).

  Lemma tokb_nonneg b : 0 <= tokb b. Proof using base. clear. unfold tokb. lia. Qed.
  Lemma tokb_nat b : Z.to_nat (tokb b) = (base + b)%nat. Proof using base. clear. unfold tokb. lia. Qed.

  (* a CPTR file with these frames (the header's time stamp is whatever the clock said) *)
  Definition file_of (cfg : rcfg) (out : Writer.bytes) (frames : list Writer.bytes) : Prop :=
    exists t, out = enc_file (raw_header cfg t) frames.

  (* the files: one io.WriteCloser per file of the model, in order; the closed ones are exactly the
     model's closed files; the builder writes to the last one; the rotation timer is armed *)
  Definition RelF (w : wworld) (wt : wthread) (s : wstate) : Prop :=
    match wt with
    | WStart => rw_outs (wl_raw w) = [] /\ wl_closed w = [] /\ ws_files s = [] /\ ws_cur s = [] /\ ws_done s = false
    | WRun (b, _, tm) =>
      ws_done s = false /\
      Forall2 (file_of (rw_cfg (wl_raw w))) (rw_outs (wl_raw w)) (ws_files s ++ [ws_cur s]) /\
      wl_closed w = map Z.of_nat (seq 0 (List.length (ws_files s))) /\
      Builder_w b = Z.of_nat (List.length (ws_files s)) /\
      exists d, chan_at w tm = Some (CTimer d false)
    | WDone =>
      ws_done s = true /\
      Forall2 (file_of (rw_cfg (wl_raw w))) (rw_outs (wl_raw w)) (ws_files s) /\
      wl_closed w = map Z.of_nat (seq 0 (List.length (ws_files s)))
    | WPanic => False
    end.

  Record Rel (w : wworld) (s : wstate) : Prop := mkRel {
    rel_spent : chan_at w (rp_sf p) = Some (CFrames nbuf (map tokb (ws_spent s)) false);
    rel_queue : chan_at w (rp_wf p) = Some (CFrames nbuf (map tokb (ws_queue s)) (ws_closed s));
    rel_neq : rp_wf p <> rp_sf p;
    rel_bufs : (base + nbuf <= List.length (rw_bytes (wl_raw w)))%nat;
    rel_len : forall b, (b < nbuf)%nat -> List.length (rbytes (wl_raw w) (tokb b)) = fs;
    rel_cont : forall b, In b (ws_queue s) -> rbytes (wl_raw w) (tokb b) = ws_contents s b;
    rel_input : ws_input s = stream_frames fs (List.concat (wl_in w));
    rel_rhand : ws_closed s = false -> ws_rhand s = None;
    rel_whand : ws_whand s = None;
    rel_faults : rw_faults (wl_raw w) = [];
    rel_open : rw_open_fail (wl_raw w) = false;
    rel_cfg : cfg_ok (rw_cfg (wl_raw w));
    rel_bad : wl_bad w = false;
    rel_cfg0 : rw_cfg (wl_raw w) = cfg0
  }.

  (* Rel looks at the channels, the builder's world, the socket and the bad flag only *)
  Lemma Rel_fields w w' s :
    wl_chans w' = wl_chans w -> wl_raw w' = wl_raw w -> wl_in w' = wl_in w -> wl_bad w' = wl_bad w ->
    Rel w s -> Rel w' s.
  Proof.
    intros Hc Hr Hi Hb [].
    split; unfold chan_at in *; rewrite ?Hc, ?Hr, ?Hi, ?Hb; assumption.
  Qed.

  Lemma RelF_fields w w' wt s s' :
    rw_outs (wl_raw w') = rw_outs (wl_raw w) -> rw_cfg (wl_raw w') = rw_cfg (wl_raw w) -> wl_closed w' = wl_closed w ->
    (forall tm d, chan_at w tm = Some (CTimer d false) -> chan_at w' tm = Some (CTimer d false)) ->
    ws_files s' = ws_files s -> ws_cur s' = ws_cur s -> ws_done s' = ws_done s ->
    RelF w wt s -> RelF w' wt s'.
  Proof.
    intros Ho Hc Hcl Ht Hf Hcu Hd. unfold RelF. destruct wt as [|[[b e] tm]| |]; rewrite ?Ho, ?Hc, ?Hcl, ?Hf, ?Hcu, ?Hd; auto.
    intros (A & B & C & D & d & E). repeat split; auto. exists d. apply Ht. exact E.
  Qed.

  (* ---- facts from model/Writer.v's invariant ---- *)
  Lemma inv_range input s b : Inv nbuf input s ->
    In b (ws_spent s ++ hand_list (ws_rhand s) ++ ws_queue s ++ hand_list (ws_whand s)) -> (b < nbuf)%nat.
  Proof.
    intros HI Hin. apply (Permutation_in _ (inv_perm _ _ _ HI)) in Hin. apply in_seq in Hin. lia.
  Qed.

  Lemma inv_nodup input s : Inv nbuf input s ->
    NoDup (ws_spent s ++ hand_list (ws_rhand s) ++ ws_queue s ++ hand_list (ws_whand s)).
  Proof. intros HI. apply (Permutation_NoDup (Permutation_sym (inv_perm _ _ _ HI))), seq_NoDup. Qed.

  Lemma tokb_inj a b : tokb a = tokb b -> a = b.
  Proof using base. clear. unfold tokb. lia. Qed.

  (* the timers are not the two frame channels *)
  Lemma timer_kept w c ch tm d x : chan_at w c = Some (CFrames (fst x) (fst (snd x)) (snd (snd x))) ->
    chan_at w tm = Some (CTimer d false) -> chan_at (set_chan w c ch) tm = Some (CTimer d false).
  Proof.
    intros Hc Ht. rewrite chan_at_set_neq; [exact Ht|apply (chan_at_nonneg _ _ _ Hc)|].
    intros ->. rewrite Hc in Ht. discriminate.
  Qed.

  (* ====================================================================================
     One iteration of the reader loop
     ==================================================================================== *)
  Ltac wsimp :=
    unfold wstep; cbn [ws_input ws_spent ws_queue ws_rhand ws_whand ws_closed ws_done ws_contents ws_files ws_cur].

  Ltac rem_ok :=
    repeat match goal with
    | |- context [lift_opt (go_rem ?a ?b)] =>
      unfold go_rem at 1;
      let E := fresh "E" in
      destruct (b =? 0) eqn:E; [exfalso; lia|]; clear E; cbn [lift_opt]
    end.

  (* the calls of the logging code *)
  Ltac xlog :=
    lazymatch goal with
    | |- context [bind (call_ext wext ?n ?a) ?k ?w] =>
      lazymatch n with
      | "chan.send"%string => fail
      | _ => xcall1
      end
    | |- context [bind (ret _) _ _] => rewrite bind_ret_r; cbv beta
    end.

  Ltac ifs0 :=
    repeat first
      [ rewrite bind_assoc
      | xlog
      | progress rem_ok
      | match goal with
        | |- context [if ?c then _ else _] => destruct c
        end ].

  Ltac ifs :=
    repeat first
      [ xcall1
      | progress rem_ok
      | match goal with
        | |- context [if ?c then _ else _] => destruct c
        end ].

  Theorem reader_iteration : forall w wt s input st b sp,
      Rel w s -> RelF w wt s -> Inv nbuf input s -> ws_closed s = false -> ws_spent s = b :: sp ->
      (fs <= List.length (List.concat (wl_in w)))%nat ->
      let f := firstn fs (List.concat (wl_in w)) in
      exists st' w' s1 s2 s3,
        reader_body p st w = Ok (LCont st') w' /\
        wstep nbuf s RTake = Some s1 /\ wstep nbuf s1 RFill = Some s2 /\ wstep nbuf s2 RSend = Some s3 /\
        Rel w' s3 /\ RelF w' wt s3 /\
        ws_input s = f :: ws_input s3 /\ ws_queue s3 = ws_queue s ++ [b] /\ ws_contents s3 b = f /\
        ws_spent s3 = sp /\
        List.concat (wl_in w') = skipn fs (List.concat (wl_in w)) /\
        wl_timer w' = wl_timer w /\ ws_closed s3 = false.
  Proof.
    intros w wt s input [[tf cnt] t0] b sp HR HF HI Hcl Hsp Hlen f.
    pose proof (inv_nodup _ _ HI) as ND. pose proof (inv_count _ _ _ HI) as HC.
    assert (Hb : (b < nbuf)%nat) by (apply (inv_range _ _ _ HI); rewrite Hsp; left; reflexivity).
    destruct HR as [Rsp Rq Rne Rbufs Rlen Rcont Rin Rrh Rwh Rfa Rop Rcfg Rbad Rcfg0].
    destruct s as [inp sp0 q rh wh cl dn ct fl cu].
    cbn [ws_input ws_spent ws_queue ws_rhand ws_whand ws_closed ws_done ws_contents ws_files ws_cur] in *.
    subst cl sp0. specialize (Rrh eq_refl). subst rh wh. cbn [hand_list app length] in *. rewrite app_nil_r in ND.
    assert (Hq : (List.length q < nbuf)%nat) by lia.
    assert (Hbq : ~ In b q).
    { inversion ND as [|? ? N _]; subst. intros Hin. apply N. apply in_or_app. right. exact Hin. }
    (* the stream has a whole frame *)
    rewrite (stream_frames_cons fs _ fs_pos Hlen) in Rin. fold f in Rin.
    set (inp' := stream_frames fs (skipn fs (List.concat (wl_in w)))) in *.
    (* the code *)
    set (w1 := with_pend (set_chan w (rp_sf p) (CFrames nbuf (map tokb sp) false)) 1).
    assert (Hraw1 : wl_raw w1 = wl_raw w) by reflexivity.
    assert (Hin1 : wl_in w1 = wl_in w) by reflexivity.
    destruct (readfull_ok w1 (tokb b) fs (tokb_nonneg b)) as (rest & Hrest & RF).
    { rewrite Hraw1, tokb_nat. lia. }
    { rewrite Hraw1. apply Rlen. exact Hb. }
    { rewrite Hin1. exact Hlen. }
    rewrite Hraw1, Hin1 in RF. fold f in RF. rewrite Hin1 in Hrest.
    set (w2 := with_pend (with_in (with_raw w1 (set_bytes (wl_raw w) (tokb b) f)) rest) 0) in *.
    assert (Hq2 : chan_at w2 (rp_wf p) = Some (CFrames nbuf (map tokb q) false)).
    { change (chan_at w2 (rp_wf p)) with (chan_at (set_chan w (rp_sf p) (CFrames nbuf (map tokb sp) false)) (rp_wf p)).
      rewrite chan_at_set_neq; [exact Rq|apply (chan_at_nonneg _ _ _ Rsp)|exact Rne]. }
    set (wF := set_chan w2 (rp_wf p) (CFrames nbuf (map tokb q ++ [tokb b]) false)).
    assert (CODE : exists st' w', reader_body p (tf, cnt, t0) w = Ok (LCont st') w' /\
              wl_chans w' = wl_chans wF /\ wl_raw w' = wl_raw wF /\ wl_in w' = wl_in wF /\ wl_bad w' = wl_bad wF /\
              wl_closed w' = wl_closed wF /\ wl_timer w' = wl_timer wF).
    { unfold reader_body, WriterLoop_fn_handleConn_loop1. rewrite p_reader, ?p_header.
      xcall1. unfold do_recv. rewrite Rsp. cbn [map fst snd]. fold w1.
      xcall1. rewrite RF. cbn [fst snd]. xcall1. change (wl_pend w2) with 0. cbn [Z.eqb negb].
      cbv zeta.
      (* the logging conditions do not touch anything modelled; every path sends the frame *)
      assert (SEND : forall (B : Type) (k : Z -> M wworld B) wc, wl_chans wc = wl_chans w2 ->
                bind (call_ext wext "chan.send" [AInt (rp_wf p); AInt (tokb b)]) k wc =
                k 0 (set_chan wc (rp_wf p) (CFrames nbuf (map tokb q ++ [tokb b]) false))).
      { intros B k wc Hc. rewrite x_send. unfold do_send.
        replace (chan_at wc (rp_wf p)) with (chan_at w2 (rp_wf p)) by (unfold chan_at; rewrite Hc; reflexivity).
        rewrite Hq2. rewrite map_length. replace (List.length q <? nbuf)%nat with true by lia. reflexivity. }
      ifs0;
        (rewrite SEND by reflexivity); ifs0;
        (eexists _, _; split; [reflexivity|repeat split; reflexivity]). }
    destruct CODE as (st' & w' & E & Fch & Fraw & Fin & Fbad & Fcl & Ftm).
    (* the model's three steps *)
    exists st', w'. eexists _, _, _.
    split; [exact E|].
    split; [wsimp; reflexivity|split; [wsimp; rewrite Rin; reflexivity|
      split; [wsimp; replace (List.length q <? nbuf)%nat with true by lia; reflexivity|]]].
    cbn [ws_input ws_spent ws_queue ws_rhand ws_whand ws_closed ws_done ws_contents ws_files ws_cur].
    assert (RawF : wl_raw wF = set_bytes (wl_raw w) (tokb b) f) by reflexivity.
    assert (Hbt : (Z.to_nat (tokb b) < List.length (rw_bytes (wl_raw w)))%nat) by (rewrite tokb_nat; lia).
    assert (Hf : List.length f = fs) by (unfold f; rewrite firstn_length; lia).
    split; [|split].
    - apply (Rel_fields wF w'); auto. split;
        cbn [ws_input ws_spent ws_queue ws_rhand ws_whand ws_closed ws_done ws_contents ws_files ws_cur];
        try assumption; try reflexivity.
      + unfold wF. rewrite chan_at_set_neq; [|apply (chan_at_nonneg _ _ _ Rq)|auto].
        change (chan_at w2 (rp_sf p)) with (chan_at (set_chan w (rp_sf p) (CFrames nbuf (map tokb sp) false)) (rp_sf p)).
        apply (chan_at_set_eq _ _ _ _ Rsp).
      + unfold wF. rewrite map_app. apply (chan_at_set_eq _ _ _ _ Hq2).
      + rewrite RawF, set_bytes_length. exact Rbufs.
      + intros b' Hb'. rewrite RawF. destruct (Nat.eq_dec b' b) as [->|Hn].
        * rewrite rbytes_set_eq; auto using tokb_nonneg.
        * rewrite rbytes_set_neq by (rewrite !tokb_nat; lia). apply Rlen. exact Hb'.
      + intros b' Hin. rewrite RawF. unfold set_contents. apply in_app_or in Hin. destruct Hin as [Hin|[<-|[]]].
        * assert (b' <> b) by (intros ->; contradiction).
          rewrite rbytes_set_neq by (rewrite !tokb_nat; lia).
          destruct (Nat.eqb_spec b' b); [contradiction|]. apply Rcont. exact Hin.
        * rewrite Nat.eqb_refl. apply rbytes_set_eq; auto using tokb_nonneg.
      + change (wl_in wF) with rest. rewrite Hrest. reflexivity.
    - eapply (RelF_fields w w' wt); [..|exact HF]; try reflexivity.
      + rewrite Fraw, RawF. reflexivity.
      + rewrite Fraw, RawF. reflexivity.
      + exact Fcl.
      + intros tm d Htm. unfold chan_at. rewrite Fch. fold (chan_at wF tm). unfold wF.
        apply (timer_kept w2 (rp_wf p) _ tm d (nbuf, (map tokb q, false))); [exact Hq2|].
        change (chan_at w2 tm) with (chan_at (set_chan w (rp_sf p) (CFrames nbuf (map tokb sp) false)) tm).
        apply (timer_kept w (rp_sf p) _ tm d (nbuf, (map tokb (b :: sp), false))); [exact Rsp|exact Htm].
    - repeat split; auto.
      all: try (unfold set_contents; rewrite Nat.eqb_refl; reflexivity).
      all: try (rewrite Fin; change (wl_in wF) with rest; exact Hrest).
      all: try (rewrite Ftm; reflexivity).
  Qed.

  (* the connection ends inside (or before) a frame: close(writeFrames), return the error; the buffer
     taken from spentFrames is in no channel any more *)
  Theorem reader_iteration_eof : forall w wt s input st b sp,
      Rel w s -> RelF w wt s -> Inv nbuf input s -> ws_closed s = false -> ws_spent s = b :: sp ->
      (List.length (List.concat (wl_in w)) < fs)%nat ->
      exists e w' s1 s2,
        reader_body p st w = Ok (LRet e) w' /\ e <> 0 /\ (e = WERR_EOF \/ e = WERR_UEOF) /\
        wstep nbuf s RTake = Some s1 /\ wstep nbuf s1 REof = Some s2 /\
        Rel w' s2 /\ RelF w' wt s2 /\
        ws_input s = [] /\ ws_queue s2 = ws_queue s /\ ws_spent s2 = sp /\ ws_closed s2 = true /\
        ws_rhand s2 = Some (b, false) /\ wl_in w' = [] /\ wl_timer w' = wl_timer w.
  Proof.
    intros w wt s input [[tf cnt] t0] b sp HR HF HI Hcl Hsp Hlen.
    pose proof (inv_nodup _ _ HI) as ND.
    assert (Hb : (b < nbuf)%nat) by (apply (inv_range _ _ _ HI); rewrite Hsp; left; reflexivity).
    destruct HR as [Rsp Rq Rne Rbufs Rlen Rcont Rin Rrh Rwh Rfa Rop Rcfg Rbad Rcfg0].
    destruct s as [inp sp0 q rh wh cl dn ct fl cu].
    cbn [ws_input ws_spent ws_queue ws_rhand ws_whand ws_closed ws_done ws_contents ws_files ws_cur] in *.
    subst cl sp0. specialize (Rrh eq_refl). subst rh wh. cbn [hand_list app length] in *. rewrite app_nil_r in ND.
    assert (Hbq : ~ In b q).
    { inversion ND as [|? ? N _]; subst. intros Hin. apply N. apply in_or_app. right. exact Hin. }
    rewrite (stream_frames_short fs _ Hlen) in Rin. subst inp.
    set (w1 := with_pend (set_chan w (rp_sf p) (CFrames nbuf (map tokb sp) false)) 1).
    assert (Hraw1 : wl_raw w1 = wl_raw w) by reflexivity.
    assert (Hin1 : wl_in w1 = wl_in w) by reflexivity.
    destruct (readfull_short w1 (tokb b) fs (tokb_nonneg b)) as (e & He & Hee & RF).
    { rewrite Hraw1, tokb_nat. lia. }
    { rewrite Hraw1. apply Rlen. exact Hb. }
    { rewrite Hin1. exact Hlen. }
    rewrite Hraw1, Hin1 in RF.
    set (d := List.concat (wl_in w)) in *.
    set (nb := d ++ skipn (List.length d) (rbytes (wl_raw w) (tokb b))) in *.
    set (w2 := with_pend (with_in (with_raw w1 (set_bytes (wl_raw w) (tokb b) nb)) []) e) in *.
    assert (Hq2 : chan_at w2 (rp_wf p) = Some (CFrames nbuf (map tokb q) false)).
    { change (chan_at w2 (rp_wf p)) with (chan_at (set_chan w (rp_sf p) (CFrames nbuf (map tokb sp) false)) (rp_wf p)).
      rewrite chan_at_set_neq; [exact Rq|apply (chan_at_nonneg _ _ _ Rsp)|exact Rne]. }
    set (wF := set_chan w2 (rp_wf p) (CFrames nbuf (map tokb q) true)).
    assert (CODE : reader_body p (tf, cnt, t0) w = Ok (LRet e) wF).
    { unfold reader_body, WriterLoop_fn_handleConn_loop1. rewrite p_reader, ?p_header.
      xcall1. unfold do_recv. rewrite Rsp. cbn [map fst snd]. fold w1.
      xcall1. rewrite RF. cbn [fst snd]. xcall1. change (wl_pend w2) with e.
      destruct (Z.eqb_spec e 0) as [?|_]; [contradiction|]. cbn [negb].
      xcall1. unfold do_close. rewrite Hq2. reflexivity. }
    exists e, wF. eexists _, _.
    split; [exact CODE|]. split; [exact He|]. split; [exact Hee|].
    split; [wsimp; reflexivity|]. split; [wsimp; reflexivity|].
    cbn [ws_input ws_spent ws_queue ws_rhand ws_whand ws_closed ws_done ws_contents ws_files ws_cur].
    assert (RawF : wl_raw wF = set_bytes (wl_raw w) (tokb b) nb) by reflexivity.
    assert (Hbt : (Z.to_nat (tokb b) < List.length (rw_bytes (wl_raw w)))%nat) by (rewrite tokb_nat; lia).
    assert (Hnb : List.length nb = fs).
    { unfold nb. rewrite app_length, skipn_length, (Rlen b Hb). lia. }
    split; [|split].
    - split;
        cbn [ws_input ws_spent ws_queue ws_rhand ws_whand ws_closed ws_done ws_contents ws_files ws_cur];
        try assumption; try reflexivity.
      + unfold wF. rewrite chan_at_set_neq; [|apply (chan_at_nonneg _ _ _ Rq)|auto].
        change (chan_at w2 (rp_sf p)) with (chan_at (set_chan w (rp_sf p) (CFrames nbuf (map tokb sp) false)) (rp_sf p)).
        apply (chan_at_set_eq _ _ _ _ Rsp).
      + unfold wF. apply (chan_at_set_eq _ _ _ _ Hq2).
      + rewrite RawF, set_bytes_length. exact Rbufs.
      + intros b' Hb'. rewrite RawF. destruct (Nat.eq_dec b' b) as [->|Hn].
        * rewrite rbytes_set_eq; auto using tokb_nonneg.
        * rewrite rbytes_set_neq by (rewrite !tokb_nat; lia). apply Rlen. exact Hb'.
      + intros b' Hin. rewrite RawF. unfold set_contents.
        assert (b' <> b) by (intros ->; contradiction).
        rewrite rbytes_set_neq by (rewrite !tokb_nat; lia).
        destruct (Nat.eqb_spec b' b); [contradiction|]. apply Rcont. exact Hin.
      + discriminate.
    - eapply (RelF_fields w wF wt); [..|exact HF]; try reflexivity.
      intros tm d0 Htm. unfold wF.
      apply (timer_kept w2 (rp_wf p) _ tm d0 (nbuf, (map tokb q, false))); [exact Hq2|].
      change (chan_at w2 tm) with (chan_at (set_chan w (rp_sf p) (CFrames nbuf (map tokb sp) false)) tm).
      apply (timer_kept w (rp_sf p) _ tm d0 (nbuf, (map tokb (b :: sp), false))); [exact Rsp|exact Htm].
    - repeat split; auto.
  Qed.

  (* ====================================================================================
     One iteration of the writer loop
     ==================================================================================== *)
  Lemma enc_file_snoc h frames x : enc_file h (frames ++ [x]) = enc_file h frames ++ enc_frame x.
  Proof. unfold enc_file. rewrite flat_map_app. cbn [flat_map]. rewrite app_nil_r, app_assoc. reflexivity. Qed.

  Lemma forall2_len {A B} (R : A -> B -> Prop) l l' : Forall2 R l l' -> List.length l = List.length l'.
  Proof. induction 1; cbn; auto. Qed.

  Lemma files_split cfg outs files cur :
    Forall2 (file_of cfg) outs (files ++ [cur]) ->
    exists outs0 last, outs = outs0 ++ [last] /\ Forall2 (file_of cfg) outs0 files /\ file_of cfg last cur /\
                       List.length outs0 = List.length files.
  Proof.
    intros H. apply Forall2_app_inv_r in H. destruct H as (o0 & o1 & H0 & H1 & ->).
    inversion H1 as [|x y l l' Hx Hl]; subst. inversion Hl; subst.
    exists o0, x. repeat split; auto. apply (forall2_len _ _ _ H0).
  Qed.

  Lemma closed_snoc n : map Z.of_nat (seq 0 n) ++ [Z.of_nat n] = map Z.of_nat (seq 0 (S n)).
  Proof. rewrite seq_S, map_app. reflexivity. Qed.

  (* the operands of the select, whatever their order *)
  Ltac sel_tac Htm Hq :=
    repeat (cbn [find_timer find_frames]; rewrite ?Htm, ?Hq).

  (* a frame is waiting (and the timer does not fire at this select): receive the head of
     writeFrames, write exactly that buffer's bytes as one frame section, hand the buffer back *)
  Theorem writer_frame : forall w s input bld err tm b q,
      Rel w s -> RelF w (WRun (bld, err, tm)) s -> Inv nbuf input s ->
      hd false (wl_timer w) = false -> ws_queue s = b :: q ->
      let o := Builder_w bld in
      exists w' s1 s2 s3,
        writer_body p (bld, err, tm) w = Ok (LCont (bld, err, tm)) w' /\
        wstep nbuf s WRecv = Some s1 /\ wstep nbuf s1 WWrite = Some s2 /\ wstep nbuf s2 WReturn = Some s3 /\
        Rel w' s3 /\ RelF w' (WRun (bld, err, tm)) s3 /\
        ws_queue s3 = q /\ ws_spent s3 = ws_spent s ++ [b] /\ ws_cur s3 = ws_cur s ++ [ws_contents s b] /\
        ws_files s3 = ws_files s /\
        rout (wl_raw w') o = rout (wl_raw w) o ++ enc_frame (ws_contents s b) /\
        wl_timer w' = tl (wl_timer w) /\ wl_in w' = wl_in w /\ ws_closed s3 = ws_closed s.
  Proof.
    intros w s input [o] err tm b q HR HF HI Htimer Hqueue o'. subst o'. cbn [Builder_w].
    pose proof (inv_nodup _ _ HI) as ND. pose proof (inv_count _ _ _ HI) as HC.
    assert (Hb : (b < nbuf)%nat).
    { apply (inv_range _ _ _ HI). rewrite Hqueue. apply in_or_app. right. apply in_or_app. right. left. reflexivity. }
    destruct HR as [Rsp Rq Rne Rbufs Rlen Rcont Rin Rrh Rwh Rfa Rop Rcfg Rbad Rcfg0].
    destruct s as [inp sp q0 rh wh cl dn ct fl cu].
    cbn [ws_input ws_spent ws_queue ws_rhand ws_whand ws_closed ws_done ws_contents ws_files ws_cur] in *.
    subst q0 wh. cbn [RelF Builder_w ws_done ws_files ws_cur] in HF.
    destruct HF as (Hdn & Hfiles & Hclosed & Ho & d & Htm). subst dn o.
    destruct (files_split _ _ _ _ Hfiles) as (outs0 & last & Houts & Hf0 & Hlast & Hl0).
    cbn [hand_list app length map] in *.
    assert (Hsp : (List.length sp < nbuf)%nat).
    { cbn [length] in HC. lia. }
    assert (Hbt : (Z.to_nat (tokb b) < List.length (rw_bytes (wl_raw w)))%nat) by (rewrite tokb_nat; lia).
    assert (Hoin : oin (wl_raw w) (Z.of_nat (List.length fl))).
    { unfold oin. rewrite Houts, app_length, Nat2Z.id. cbn. lia. }
    (* the select *)
    set (w1 := with_timer w (tl (wl_timer w))).
    set (w2 := with_val (with_pend (set_chan w1 (rp_wf p) (CFrames nbuf (map tokb q) cl)) 1) (tokb b)).
    assert (Hraw2 : wl_raw w2 = wl_raw w) by reflexivity.
    destruct (w_writeFrame_ok w2 (Z.of_nat (List.length fl)) (tokb b)) as (r' & EW & ADV); try (rewrite Hraw2; assumption).
    rewrite Hraw2 in ADV.
    assert (Hsf2 : chan_at (with_raw w2 r') (rp_sf p) = Some (CFrames nbuf (map tokb sp) false)).
    { change (chan_at (with_raw w2 r') (rp_sf p)) with (chan_at (set_chan w (rp_wf p) (CFrames nbuf (map tokb q) cl)) (rp_sf p)).
      rewrite chan_at_set_neq; [exact Rsp|apply (chan_at_nonneg _ _ _ Rq)|auto]. }
    set (wF := set_chan (with_raw w2 r') (rp_sf p) (CFrames nbuf (map tokb sp ++ [tokb b]) false)).
    assert (CODE : writer_body p (mkBuilder (Z.of_nat (List.length fl)), err, tm) w =
                   Ok (LCont (mkBuilder (Z.of_nat (List.length fl)), err, tm)) wF).
    { unfold writer_body, WriterLoop_fn_writer_loop1.
      xcall1. unfold do_select. rewrite Htimer. sel_tac Htm Rq.
      unfold do_recv. change (chan_at (with_timer w (tl (wl_timer w))) (rp_wf p)) with (chan_at w (rp_wf p)).
      rewrite Rq. cbn [fst snd Z.eqb Z.add Pos.eqb Pos.add Pos.succ]. fold w1. fold w2.
      repeat xcall1. change (wl_val w2) with (tokb b). change (wl_pend w2) with 1.
      cbn [z_to_bool Z.eqb negb].
      unfold bind at 1. rewrite EW. cbv beta iota zeta. cbn [Z.eqb negb].
      xcall1. unfold do_send. rewrite Hsf2, map_length. replace (List.length sp <? nbuf)%nat with true by lia.
      reflexivity. }
    exists wF. eexists _, _, _.
    split; [exact CODE|]. split; [wsimp; reflexivity|]. split; [wsimp; reflexivity|].
    split; [wsimp; replace (List.length sp <? nbuf)%nat with true by lia; reflexivity|].
    cbn [ws_input ws_spent ws_queue ws_rhand ws_whand ws_closed ws_done ws_contents ws_files ws_cur].
    assert (RawF : wl_raw wF = r') by reflexivity.
    destruct ADV as (Acfg & Aopen & Afaults & Aouts & more & Abytes).
    assert (Hcontb : rbytes (wl_raw w) (tokb b) = ct b) by (apply Rcont; left; reflexivity).
    assert (Hrb : forall b', (b' < nbuf)%nat -> rbytes r' (tokb b') = rbytes (wl_raw w) (tokb b')).
    { intros b' Hb'. unfold rbytes. rewrite Abytes. apply app_nth1. rewrite tokb_nat. lia. }
    assert (Hrout : rout (wl_raw w) (Z.of_nat (List.length fl)) = last).
    { unfold rout. rewrite Houts, Nat2Z.id, <- Hl0. apply nth_last. }
    assert (Houts' : rw_outs r' = outs0 ++ [last ++ enc_frame (ct b)]).
    { rewrite Aouts, Hrout, Houts, Nat2Z.id, <- Hl0, Hcontb. apply list_upd_last. }
    split; [|split].
    - split;
        cbn [ws_input ws_spent ws_queue ws_rhand ws_whand ws_closed ws_done ws_contents ws_files ws_cur];
        rewrite ?RawF; try assumption; try reflexivity.
      + unfold wF. rewrite map_app. apply (chan_at_set_eq _ _ _ _ Hsf2).
      + unfold wF. rewrite chan_at_set_neq; [|apply (chan_at_nonneg _ _ _ Rsp)|auto].
        change (chan_at (with_raw w2 r') (rp_wf p)) with (chan_at (set_chan w (rp_wf p) (CFrames nbuf (map tokb q) cl)) (rp_wf p)).
        apply (chan_at_set_eq _ _ _ _ Rq).
      + rewrite Abytes, app_length. lia.
      + intros b' Hb'. rewrite Hrb by exact Hb'. apply Rlen. exact Hb'.
      + intros b' Hin. rewrite Hrb.
        * apply Rcont. right. exact Hin.
        * apply (inv_range _ _ _ HI). cbn [ws_spent ws_rhand ws_queue ws_whand hand_list].
          apply in_or_app. right. apply in_or_app. right. apply in_or_app. left. right. exact Hin.
      + congruence.
      + congruence.
      + congruence.
    - cbn [RelF Builder_w ws_done ws_files ws_cur]. rewrite RawF, Acfg, Houts'.
      split; [reflexivity|]. split; [|split; [exact Hclosed|split; [reflexivity|]]].
      + apply Forall2_app; [exact Hf0|]. constructor; [|constructor].
        destruct Hlast as (t & ->). exists t. symmetry. apply enc_file_snoc.
      + exists d. unfold wF.
        apply (timer_kept (with_raw w2 r') (rp_sf p) _ tm d (nbuf, (map tokb sp, false))); [exact Hsf2|].
        change (chan_at (with_raw w2 r') tm) with (chan_at (set_chan w (rp_wf p) (CFrames nbuf (map tokb q) cl)) tm).
        apply (timer_kept w (rp_wf p) _ tm d (nbuf, (map tokb (b :: q), cl))); [exact Rq|exact Htm].
    - repeat split; auto.
      rewrite RawF. unfold rout at 1. rewrite Houts', Hrout, Nat2Z.id, <- Hl0. apply nth_last.
  Qed.

  (* writeFrames is closed and drained: close the file, return *)
  Theorem writer_finish : forall w s input bld err tm,
      Rel w s -> RelF w (WRun (bld, err, tm)) s -> Inv nbuf input s ->
      hd false (wl_timer w) = false -> ws_queue s = [] -> ws_closed s = true ->
      exists w' s1,
        writer_body p (bld, err, tm) w = Ok (LRet tt) w' /\
        wstep nbuf s WFinish = Some s1 /\
        Rel w' s1 /\ RelF w' WDone s1 /\
        ws_files s1 = ws_files s ++ [ws_cur s] /\ ws_done s1 = true /\
        wl_closed w' = wl_closed w ++ [Builder_w bld] /\ wl_raw w' = wl_raw w /\ wl_in w' = wl_in w /\ ws_closed s1 = true.
  Proof.
    intros w s input [o] err tm HR HF HI Htimer Hqueue Hcl. cbn [Builder_w].
    destruct HR as [Rsp Rq Rne Rbufs Rlen Rcont Rin Rrh Rwh Rfa Rop Rcfg Rbad Rcfg0].
    destruct s as [inp sp q0 rh wh cl dn ct fl cu].
    cbn [ws_input ws_spent ws_queue ws_rhand ws_whand ws_closed ws_done ws_contents ws_files ws_cur] in *.
    subst q0 wh cl. cbn [RelF Builder_w ws_done ws_files ws_cur] in HF.
    destruct HF as (Hdn & Hfiles & Hclosed & Ho & d & Htm). subst dn o. cbn [map] in Rq.
    set (w1 := with_timer w (tl (wl_timer w))).
    set (w2 := with_val (with_pend w1 0) 0).
    set (wF := with_closed w2 (wl_closed w2 ++ [Z.of_nat (List.length fl)])).
    assert (CODE : writer_body p (mkBuilder (Z.of_nat (List.length fl)), err, tm) w = Ok (LRet tt) wF).
    { unfold writer_body, WriterLoop_fn_writer_loop1.
      xcall1. unfold do_select. rewrite Htimer. sel_tac Htm Rq.
      unfold do_recv. change (chan_at (with_timer w (tl (wl_timer w))) (rp_wf p)) with (chan_at w (rp_wf p)).
      rewrite Rq. cbn [fst snd Z.eqb Z.add Pos.eqb Pos.add Pos.succ]. fold w1. fold w2.
      repeat xcall1. change (wl_pend w2) with 0. cbn [z_to_bool Z.eqb negb].
      unfold Builder_Close. cbn [Builder_w]. repeat xcall1. reflexivity. }
    exists wF. eexists.
    split; [exact CODE|]. split; [wsimp; reflexivity|].
    cbn [ws_input ws_spent ws_queue ws_rhand ws_whand ws_closed ws_done ws_contents ws_files ws_cur].
    split; [|split].
    - split;
        cbn [ws_input ws_spent ws_queue ws_rhand ws_whand ws_closed ws_done ws_contents ws_files ws_cur map];
        try assumption; try reflexivity.
    - cbn [RelF ws_done ws_files]. split; [reflexivity|]. split; [exact Hfiles|].
      change (wl_closed wF) with (wl_closed w ++ [Z.of_nat (List.length fl)]).
      rewrite Hclosed, closed_snoc, app_length. cbn [length]. rewrite Nat.add_1_r. reflexivity.
    - repeat split; reflexivity.
  Qed.

  (* the rotation timer fires: close the file, open the next one, arm a new timer *)
  Theorem writer_rotate : forall w s input bld err tm,
      Rel w s -> RelF w (WRun (bld, err, tm)) s -> Inv nbuf input s ->
      hd false (wl_timer w) = true ->
      exists w' s1 bld' tm',
        writer_body p (bld, err, tm) w = Ok (LCont (bld', 0, tm')) w' /\
        wstep nbuf s WRotate = Some s1 /\
        Rel w' s1 /\ RelF w' (WRun (bld', 0, tm')) s1 /\
        ws_files s1 = ws_files s ++ [ws_cur s] /\ ws_cur s1 = [] /\ ws_queue s1 = ws_queue s /\ ws_spent s1 = ws_spent s /\
        wl_closed w' = wl_closed w ++ [Builder_w bld] /\ Builder_w bld' = Builder_w bld + 1 /\
        chan_at w' tm = Some (CTimer (match chan_at w tm with Some (CTimer d _) => d | _ => 0 end) true) /\
        tm' <> tm /\ wl_timer w' = tl (wl_timer w) /\ wl_in w' = wl_in w /\ ws_closed s1 = ws_closed s.
  Proof.
    intros w s input [o] err tm HR HF HI Htimer. cbn [Builder_w].
    destruct HR as [Rsp Rq Rne Rbufs Rlen Rcont Rin Rrh Rwh Rfa Rop Rcfg Rbad Rcfg0].
    destruct s as [inp sp q rh wh cl dn ct fl cu].
    cbn [ws_input ws_spent ws_queue ws_rhand ws_whand ws_closed ws_done ws_contents ws_files ws_cur] in *.
    subst wh. cbn [RelF Builder_w ws_done ws_files ws_cur] in HF.
    destruct HF as (Hdn & Hfiles & Hclosed & Ho & d & Htm). subst dn o.
    pose proof (forall2_len _ _ _ Hfiles) as Hlen. rewrite app_length in Hlen. cbn [length] in Hlen.
    set (w1 := set_chan (with_timer w (tl (wl_timer w))) tm (CTimer d true)).
    set (w2 := with_clock (with_closed w1 (wl_closed w1 ++ [Z.of_nat (List.length fl)])) (tl (wl_clock w1))).
    destruct (tie_newThermalRaw_ok (wl_raw w) (hd 0 (wl_clock w)) Rop Rcfg Rfa)
      as (r' & EN & Nouts & Nfaults & Ncfg & Nopen & more & Nbytes).
    set (w3 := with_raw w2 r') in *.
    set (tm' := Z.of_nat (List.length (wl_chans w3))).
    set (wF := with_chans w3 (wl_chans w3 ++ [CTimer 60000000000 false])).
    (* the code: the order of Close / time.Now / newThermalRaw / time.After among themselves does not matter *)
    assert (CODE : exists w', writer_body p (mkBuilder (Z.of_nat (List.length fl)), err, tm) w =
                   Ok (LCont (mkBuilder (Z.of_nat (List.length (rw_outs (wl_raw w)))), 0, tm')) w' /\
              wl_chans w' = wl_chans wF /\ wl_raw w' = wl_raw wF /\ wl_in w' = wl_in wF /\ wl_bad w' = wl_bad wF /\
              wl_closed w' = wl_closed wF /\ wl_timer w' = wl_timer wF).
    { unfold writer_body, WriterLoop_fn_writer_loop1.
      xcall1. unfold do_select. rewrite Htimer. sel_tac Htm Rq.
      cbn [fst snd Z.eqb Z.add Pos.eqb Pos.add Pos.succ]. fold w1.
      unfold Builder_Close. cbn [Builder_w].
      repeat first
        [ rewrite bind_assoc
        | xcall1
        | match goal with
          | |- context [bind (ThermalRaw_fn_newThermalRaw wext ?t) ?k ?ww] =>
            unfold bind at 1; rewrite (lifts_newThermalRaw t ww);
            change (wl_raw ww) with (wl_raw w); change t with (hd 0 (wl_clock w));
            rewrite EN; cbn [liftO]; cbv beta iota zeta; cbn [Z.eqb negb]
          end ].
      eexists. split; [reflexivity|repeat split; reflexivity]. }
    destruct CODE as (w' & CODE & Fch & Fraw & Fin & Fbad & Fcl & Ftm).
    assert (Htmw : chan_at (with_timer w (tl (wl_timer w))) tm = Some (CTimer d false)) by exact Htm.
    assert (Hne1 : rp_sf p <> tm) by (intros E; rewrite E, Htm in Rsp; discriminate).
    assert (Hne2 : rp_wf p <> tm) by (intros E; rewrite E, Htm in Rq; discriminate).
    assert (Hch : forall c x, c <> tm -> chan_at w c = Some x -> chan_at wF c = Some x).
    { intros c x Hc Hx. unfold wF. apply chan_at_new_old.
      change (chan_at w3 c) with (chan_at w1 c). unfold w1.
      rewrite chan_at_set_neq; [exact Hx|apply (chan_at_nonneg _ _ _ Htm)|exact Hc]. }
    assert (Hch' : forall c, chan_at w' c = chan_at wF c) by (intros c; unfold chan_at; rewrite Fch; reflexivity).
    exists w'. eexists. exists (mkBuilder (Z.of_nat (List.length (rw_outs (wl_raw w))))), tm'.
    split; [exact CODE|]. split; [wsimp; reflexivity|].
    cbn [ws_input ws_spent ws_queue ws_rhand ws_whand ws_closed ws_done ws_contents ws_files ws_cur].
    assert (RawF : wl_raw wF = r') by reflexivity.
    assert (Hrb : forall b', (b' < nbuf)%nat -> rbytes r' (tokb b') = rbytes (wl_raw w) (tokb b')).
    { intros b' Hb'. unfold rbytes. rewrite Nbytes. apply app_nth1. rewrite tokb_nat. lia. }
    split; [|split].
    - apply (Rel_fields wF w'); auto. split;
        cbn [ws_input ws_spent ws_queue ws_rhand ws_whand ws_closed ws_done ws_contents ws_files ws_cur];
        rewrite ?RawF; try assumption; try reflexivity.
      + apply Hch; auto.
      + apply Hch; auto.
      + rewrite Nbytes, app_length. lia.
      + intros b' Hb'. rewrite Hrb by exact Hb'. apply Rlen. exact Hb'.
      + intros b' Hin. rewrite Hrb.
        * apply Rcont. exact Hin.
        * apply (inv_range _ _ _ HI). cbn [ws_spent ws_rhand ws_queue ws_whand hand_list].
          apply in_or_app. right. apply in_or_app. right. apply in_or_app. left. exact Hin.
      + congruence.
      + congruence.
    - cbn [RelF Builder_w ws_done ws_files ws_cur]. rewrite Fraw, Fcl, Hch', RawF, Ncfg, Nouts.
      split; [reflexivity|]. split; [|split; [|split]].
      + apply Forall2_app; [exact Hfiles|]. constructor; [|constructor].
        eexists. unfold enc_file. cbn [flat_map]. rewrite app_nil_r. reflexivity.
      + change (wl_closed wF) with (wl_closed w ++ [Z.of_nat (List.length fl)]).
        rewrite Hclosed, closed_snoc, app_length. cbn [length]. rewrite Nat.add_1_r. reflexivity.
      + rewrite app_length. cbn [length]. rewrite Hlen. reflexivity.
      + exists 60000000000. unfold wF, tm'. apply chan_at_new.
    - rewrite Fcl, Ftm, Fin, Hch'. repeat split; try reflexivity.
      + cbn [Builder_w]. rewrite Hlen. lia.
      + rewrite Htm. unfold wF. apply chan_at_new_old. change (chan_at w3 tm) with (chan_at w1 tm).
        unfold w1. apply (chan_at_set_eq _ _ _ _ Htmw).
      + unfold tm'. pose proof (chan_at_lt _ _ _ Htm) as L. pose proof (chan_at_nonneg _ _ _ Htm).
        change (wl_chans w3) with (wl_chans w1). unfold w1, set_chan. cbn [wl_chans with_chans with_timer].
        rewrite length_list_upd. lia.
  Qed.

  (* ====================================================================================
     writer before its loop
     ==================================================================================== *)
  Definition after_loop {A} (r : option A) : M wworld (option A) :=
    match r with None => ret None | Some v => ret (Some v) end.

  (* the first file is created and gets its header, the timer is armed; the translated writer IS this
     start followed by the loop *)
  Theorem writer_begin : forall w s input,
      Rel w s -> RelF w WStart s -> Inv nbuf input s ->
      exists w' tm,
        writer_start p w = Ok (mkBuilder 0, 0, tm) w' /\
        (forall fuel, WriterLoop_fn_writer wext fuel (rp_wf p) (rp_sf p) w =
                      bind (forever fuel (writer_body p) (mkBuilder 0, 0, tm)) after_loop w') /\
        Rel w' s /\ RelF w' (WRun (mkBuilder 0, 0, tm)) s /\
        wl_timer w' = wl_timer w /\ wl_in w' = wl_in w /\
        exists t, rw_outs (wl_raw w') = [enc_header (raw_header (rw_cfg (wl_raw w)) t)].
  Proof.
    intros w s input HR HF HI.
    destruct HR as [Rsp Rq Rne Rbufs Rlen Rcont Rin Rrh Rwh Rfa Rop Rcfg Rbad Rcfg0].
    destruct HF as (Houts & Hclosed & Hfl & Hcu & Hdn).
    set (w1 := with_clock w (tl (wl_clock w))).
    assert (Hraw1 : wl_raw w1 = wl_raw w) by reflexivity.
    destruct (w_newThermalRaw_ok w1 (hd 0 (wl_clock w))) as (r' & EN & Nouts & Nfaults & Ncfg & Nopen & more & Nbytes);
      try (rewrite Hraw1; assumption).
    rewrite Hraw1 in *. rewrite Houts in *. cbn [length Z.of_nat app] in *.
    set (w2 := with_raw w1 r') in *.
    set (tm := Z.of_nat (List.length (wl_chans w2))).
    set (wF := with_chans w2 (wl_chans w2 ++ [CTimer 60000000000 false])).
    exists wF, tm.
    split; [|split].
    - unfold writer_start. xcall1. fold w1. unfold bind at 1. rewrite EN. cbv beta iota zeta. cbn [Z.eqb negb].
      fold w2. repeat xcall1. reflexivity.
    - intros fuel. unfold WriterLoop_fn_writer. xcall1. fold w1. unfold bind at 1. rewrite EN. cbv beta iota zeta.
      cbn [Z.eqb negb]. fold w2. xcall1. reflexivity.
    - assert (RawF : wl_raw wF = r') by reflexivity.
      assert (Hrb : forall b', (b' < nbuf)%nat -> rbytes r' (tokb b') = rbytes (wl_raw w) (tokb b')).
      { intros b' Hb'. unfold rbytes. rewrite Nbytes. apply app_nth1. rewrite tokb_nat. lia. }
      assert (Hch : forall c x, chan_at w c = Some x -> chan_at wF c = Some x).
      { intros c x Hx. unfold wF. apply chan_at_new_old. exact Hx. }
      split; [|split; [|split; [reflexivity|split; [reflexivity|]]]].
      + split; rewrite ?RawF; try assumption; auto.
        * rewrite Nbytes, app_length. lia.
        * intros b' Hb'. rewrite Hrb by exact Hb'. apply Rlen. exact Hb'.
        * intros b' Hin. rewrite Hrb; [apply Rcont; exact Hin|].
          apply (inv_range _ _ _ HI). apply in_or_app. right. apply in_or_app. right. apply in_or_app. left. exact Hin.
        * congruence.
        * congruence.
      + cbn [RelF Builder_w]. rewrite RawF, Ncfg, Nouts, Hfl, Hcu. cbn [length app seq map Z.of_nat].
        split; [exact Hdn|]. split; [|split; [exact Hclosed|split; [reflexivity|]]].
        * constructor; [|constructor]. eexists. unfold enc_file. cbn [flat_map]. rewrite app_nil_r. reflexivity.
        * exists 60000000000. unfold wF, tm. apply chan_at_new.
      + eexists. rewrite RawF. exact Nouts.
  Qed.

  (* SIDE CONDITIONS THE GO CODE FORCES.  nextFile fails: writer panics (the whole daemon dies) *)
  Theorem writer_open_fail_panics : forall w fuel,
      rw_open_fail (wl_raw w) = true ->
      exists w', WriterLoop_fn_writer wext fuel (rp_wf p) (rp_sf p) w = Panicked w' /\ writer_start p w = Panicked w'.
  Proof.
    intros w fuel H. eexists. split.
    - unfold WriterLoop_fn_writer. xcall1. unfold bind at 1.
      rewrite w_newThermalRaw_open_fail by exact H. reflexivity.
    - unfold writer_start. xcall1. unfold bind at 1.
      rewrite w_newThermalRaw_open_fail by exact H. reflexivity.
  Qed.

  (* a Write of a frame fails: writer panics *)
  Theorem writer_write_fault_panics : forall w bld err tm d cap v q cl f,
      chan_at w tm = Some (CTimer d false) -> chan_at w (rp_wf p) = Some (CFrames cap (v :: q) cl) ->
      hd false (wl_timer w) = false ->
      oin (wl_raw w) (Builder_w bld) -> (Z.to_nat v < List.length (rw_bytes (wl_raw w)))%nat ->
      rw_faults (wl_raw w) = true :: f ->
      exists w', writer_body p (bld, err, tm) w = Panicked w'.
  Proof.
    intros w [o] err tm d cap v q cl f Htm Hq Htimer Ho Hv Hf. cbn [Builder_w] in Ho.
    unfold writer_body, WriterLoop_fn_writer_loop1.
    xcall1. unfold do_select. rewrite Htimer. sel_tac Htm Hq.
    unfold do_recv. change (chan_at (with_timer w (tl (wl_timer w))) (rp_wf p)) with (chan_at w (rp_wf p)).
    rewrite Hq. cbn [fst snd Z.eqb Z.add Pos.eqb Pos.add Pos.succ].
    repeat xcall1. cbn [wl_val wl_pend with_val with_pend]. cbn [z_to_bool Z.eqb negb].
    set (w2 := with_val _ v).
    destruct (tie_writeFrame (wl_raw w2) o v Ho Hv) as (r' & E & _).
    change (rw_faults (wl_raw w2)) with (rw_faults (wl_raw w)) in E. rewrite Hf in E. cbn [write_seq hd tl fst snd frame_model_chunks] in E.
    unfold bind at 1. rewrite lifts_writeFrame, E. cbn [liftO]. cbv beta iota zeta. cbn [Z.eqb negb].
    eexists. reflexivity.
  Qed.

  (* ====================================================================================
     Every interleaving of reader and writer iterations
     ==================================================================================== *)
  Lemma wrun_app cap s l1 l2 : wrun cap s (l1 ++ l2) = wrun cap (wrun cap s l1) l2.
  Proof. revert s; induction l1 as [|l r IH]; intros s; cbn [app wrun]; [reflexivity|]. destruct (wstep cap s l); apply IH. Qed.

  Lemma wrun_step3 cap s a b c s1 s2 s3 :
    wstep cap s a = Some s1 -> wstep cap s1 b = Some s2 -> wstep cap s2 c = Some s3 -> wrun cap s [a; b; c] = s3.
  Proof. intros H1 H2 H3. cbn [wrun]. rewrite H1, H2, H3. reflexivity. Qed.

  Definition reader_ok (rt : rthread) (s : wstate) : Prop :=
    match rt with
    | RRun _ => ws_closed s = false
    | RDone e => ws_closed s = true /\ e <> 0
    | RPanic => False
    end.

  Record SysRel (input : list Writer.bytes) (x : sys) (s : wstate) : Prop := mkSysRel {
    sr_rel : Rel (sy_w x) s;
    sr_files : RelF (sy_w x) (sy_wr x) s;
    sr_inv : Inv nbuf input s;
    sr_reader : reader_ok (sy_r x) s
  }.

  Lemma inv_steps input s l s' : Inv nbuf input s -> wrun nbuf s l = s' -> Inv nbuf input s'.
  Proof. intros H <-. apply inv_run. exact H. Qed.

  (* one scheduling step of the translated code = a (possibly empty) sequence of enabled steps of
     model/Writer.v *)
  Theorem sys_step_sim : forall input x s c,
      SysRel input x s ->
      exists labels, SysRel input (sys_step p x c) (wrun nbuf s labels).
  Proof.
    intros input [w rt wt] s c [HR HF HI Hrd].
    cbn [sy_w sy_r sy_wr] in *.
    destruct c; cbn [sys_step sy_w sy_r sy_wr].
    - (* the reader *)
      destruct rt as [st|e|]; try (exists []; split; assumption).
      cbn [reader_ok] in Hrd.
      unfold r_enabled. rewrite (rel_spent _ _ HR).
      destruct (ws_spent s) as [|b sp] eqn:Hsp; [exists []; split; assumption|]. cbn [map].
      destruct (Nat.le_gt_cases fs (List.length (List.concat (wl_in w)))) as [L|L].
      + destruct (reader_iteration w wt s input st b sp HR HF HI Hrd Hsp L)
          as (st' & w' & s1 & s2 & s3 & E & S1 & S2 & S3 & HR' & HF' & _ & _ & _ & _ & _ & _ & Hcl').
        exists [RTake; RFill; RSend]. rewrite E. rewrite (wrun_step3 _ _ _ _ _ _ _ _ S1 S2 S3).
        split; cbn [sy_w sy_r sy_wr reader_ok]; auto.
        eapply inv_steps; [exact HI|]. apply (wrun_step3 _ _ _ _ _ _ _ _ S1 S2 S3).
      + destruct (reader_iteration_eof w wt s input st b sp HR HF HI Hrd Hsp L)
          as (e & w' & s1 & s2 & E & He & _ & S1 & S2 & HR' & HF' & _ & _ & _ & Hcl' & _).
        exists [RTake; REof]. rewrite E. cbn [wrun]. rewrite S1, S2.
        split; cbn [sy_w sy_r sy_wr reader_ok]; auto.
        eapply inv_step; [|exact S2]. eapply inv_step; [exact HI|exact S1].
    - (* the writer *)
      destruct wt as [|[[bld err] tm]| |]; try (exists []; split; assumption).
      + (* its start *)
        destruct (writer_begin w s input HR HF HI) as (w' & tm & E & _ & HR' & HF' & _).
        exists []. rewrite E. split; assumption.
      + cbn [snd]. unfold w_enabled, r_enabled.
        pose proof HF as HF0. cbn [RelF] in HF0. destruct HF0 as (_ & _ & _ & _ & d & Htm).
        rewrite Htm, (rel_queue _ _ HR).
        destruct (hd false (wl_timer w)) eqn:Ht; cbn [andb orb].
        * destruct (writer_rotate w s input bld err tm HR HF HI Ht)
            as (w' & s1 & bld' & tm' & E & S1 & HR' & HF' & _ & _ & _ & _ & _ & _ & _ & _ & _ & _ & Hcl').
          exists [WRotate]. rewrite E. cbn [wrun]. rewrite S1.
          split; cbn [sy_w sy_r sy_wr]; auto.
          all: first [ eapply inv_step; [exact HI|exact S1]
                     | destruct rt; cbn [reader_ok] in *; rewrite ?Hcl'; exact Hrd ].
        * destruct (ws_queue s) as [|b q] eqn:Hq; cbn [map].
          -- destruct (ws_closed s) eqn:Hcl; [|exists []; split; assumption].
             destruct (writer_finish w s input bld err tm HR HF HI Ht Hq Hcl)
               as (w' & s1 & E & S1 & HR' & HF' & _ & _ & _ & _ & _ & Hcl').
             exists [WFinish]. rewrite E. cbn [wrun]. rewrite S1.
             split; cbn [sy_w sy_r sy_wr]; auto.
             all: first [ eapply inv_step; [exact HI|exact S1]
                        | destruct rt; cbn [reader_ok] in *; rewrite ?Hcl'; auto; congruence ].
          -- destruct (writer_frame w s input bld err tm b q HR HF HI Ht Hq)
               as (w' & s1 & s2 & s3 & E & S1 & S2 & S3 & HR' & HF' & _ & _ & _ & _ & _ & _ & _ & Hcl').
             exists [WRecv; WWrite; WReturn]. rewrite E. rewrite (wrun_step3 _ _ _ _ _ _ _ _ S1 S2 S3).
             split; cbn [sy_w sy_r sy_wr]; auto.
             all: first [ eapply inv_steps; [exact HI|]; apply (wrun_step3 _ _ _ _ _ _ _ _ S1 S2 S3)
                        | destruct rt; cbn [reader_ok] in *; rewrite ?Hcl'; exact Hrd ].
  Qed.

  Theorem sys_run_sim : forall input sched x s,
      SysRel input x s ->
      exists labels, SysRel input (sys_run p x sched) (wrun nbuf s labels).
  Proof.
    intros input sched. induction sched as [|c r IH]; intros x s H.
    - exists []. exact H.
    - destruct (sys_step_sim input x s c H) as (l1 & H1).
      destruct (IH _ _ H1) as (l2 & H2).
      exists (l1 ++ l2). rewrite wrun_app. exact H2.
  Qed.

  (* what the relation says about the files, in plain terms *)
  Lemma sysrel_files : forall input x s,
      SysRel input x s -> sy_wr x <> WStart ->
      exists files,
        Forall2 (file_of (rw_cfg (wl_raw (sy_w x)))) (rw_outs (wl_raw (sy_w x))) files /\
        exists rest, List.concat files ++ rest = input.
  Proof.
    intros input [w rt wt] s [HR HF HI Hrd] Hns. cbn [sy_w sy_r sy_wr] in *.
    assert (P : exists rest, written s ++ rest = input).
    { destruct (ws_closed s) eqn:Hcl.
      - destruct (inv_closed _ _ _ HI Hcl) as (E & _). eexists. exact E.
      - pose proof (inv_open _ _ _ HI Hcl) as E. eexists. exact E. }
    destruct P as (rest & P). unfold written in P.
    destruct wt as [|[[bld err] tm]| |]; cbn [RelF] in HF; try contradiction.
    - destruct HF as (_ & F & _). exists (ws_files s ++ [ws_cur s]). split; [exact F|].
      exists rest. rewrite concat_app. cbn [List.concat]. rewrite app_nil_r. exact P.
    - destruct HF as (Hd & F & _). exists (ws_files s). split; [exact F|].
      destruct (inv_done _ _ _ HI Hd) as (_ & _ & _ & Hcu). rewrite Hcu, app_nil_r in P.
      exists rest. exact P.
  Qed.

  (* the writer has returned: every frame of the input is in the files, in order, once; all files are
     closed; and the reader had seen the end of the connection *)
  Lemma sysrel_final : forall input x s,
      SysRel input x s -> sy_wr x = WDone ->
      exists files,
        Forall2 (file_of (rw_cfg (wl_raw (sy_w x)))) (rw_outs (wl_raw (sy_w x))) files /\
        List.concat files = input /\
        wl_closed (sy_w x) = map Z.of_nat (seq 0 (List.length (rw_outs (wl_raw (sy_w x))))) /\
        (exists e, sy_r x = RDone e /\ e <> 0).
  Proof.
    intros input [w rt wt] s [HR HF HI Hrd] Hd. cbn [sy_w sy_r sy_wr] in *. subst wt.
    cbn [RelF] in HF. destruct HF as (Hdn & F & Hc).
    destruct (inv_done _ _ _ HI Hdn) as (Hcl & Hq & Hwh & Hcu).
    destruct (inv_closed _ _ _ HI Hcl) as (E & _).
    unfold written, whand_pending in E. rewrite Hcu, Hq, Hwh in E. cbn [map] in E. rewrite !app_nil_r in E.
    exists (ws_files s). split; [exact F|]. split; [exact E|]. split.
    - rewrite Hc, (forall2_len _ _ _ F). reflexivity.
    - destruct rt as [st|e|]; cbn [reader_ok] in Hrd; [congruence| |contradiction].
      exists e. split; [reflexivity|apply Hrd].
  Qed.
End Sim.

(* ====================================================================================
   handleConn before its loop: the header, the two channels, the pool of 256 buffers, the spawn
   ==================================================================================== *)
Lemma for_loop_states {W R} (body : Z -> unit -> M W (loopres unit R)) (PW : nat -> W) (N : nat) :
  (forall k i, (k < N)%nat -> body i tt (PW k) = Ok (LCont tt) (PW (S k))) ->
  forall n k i, (k + n = N)%nat -> for_loop n i body tt (PW k) = Ok (LCont tt) (PW N).
Proof.
  intros Hb. induction n as [|n IH]; intros k i Hk.
  - cbn [for_loop]. replace N with k by lia. reflexivity.
  - cbn [for_loop]. unfold bind. rewrite Hb by lia. apply IH. lia.
Qed.

Lemma map_tokb_seq base s n : map Z.of_nat (seq (base + s) n) = map (tokb base) (seq s n).
Proof.
  revert s; induction n as [|n IH]; intros s; [reflexivity|].
  cbn [seq map]. f_equal. replace (S (base + s)) with (base + S s)%nat by lia. apply IH.
Qed.

Section Conn.
  Variables (conf : wconf) (cfg : rcfg) (bytes0 : list Writer.bytes) (fws : list (list field)) (rpend : Z).
  Variables (input : list Socket.bytes) (pd vl : Z) (timer : list bool) (clock : list Z) (lfr : bool) (fs : nat).
  Hypothesis H_hdr : wc_hdr_err conf = 0.
  Hypothesis H_fs : wc_fs conf = Z.of_nat fs.

  (* a fresh connection: no channels, no files yet; byte slices and field writers may exist *)
  Definition w_fresh : wworld :=
    mkWW conf (mkRW cfg bytes0 fws [] [] false rpend) [] input pd vl timer clock [] [] false.

  Let base := List.length bytes0.
  Let zf := repeat 0 fs.

  Definition pool_world (k : nat) : wworld :=
    mkWW conf (mkRW cfg (bytes0 ++ repeat zf k) fws [] [] false rpend)
         [CFrames 256 [] false; CFrames 256 (map Z.of_nat (seq base k)) false]
         input 0 vl timer clock [] [] false.

  (* the world in which the frame loop starts *)
  Definition conn_start : wworld :=
    mkWW conf (mkRW cfg (bytes0 ++ repeat zf 256) fws [] [] false rpend)
         [CFrames 256 [] false; CFrames 256 (map Z.of_nat (seq base 256)) false]
         input 0 vl timer (tl clock) [] [(0, 1)] false.

  Definition conn_p : rparams := conn_params lfr conf cfg.

  Theorem handleConn_prelude : exists st0, forall fuel,
      WriterLoop_fn_handleConn wext fuel lfr w_fresh =
      bind (forever fuel (reader_body conn_p) st0) after_loop conn_start.
  Proof.
    eexists. intros fuel. unfold WriterLoop_fn_handleConn, w_fresh.
    do 3 xcall1. cbn [wl_pend with_pend wl_conf]. rewrite H_hdr. cbn [Z.eqb negb].
    repeat xcall1. cbn [wl_chans with_chans with_pend List.length app Z.of_nat Pos.of_succ_nat Pos.succ].
    unfold for_range. change (Z.to_nat (256 - 0)) with 256%nat.
    match goal with |- bind (for_loop _ _ ?body _) ?k ?w = _ =>
      assert (E0 : w = pool_world 0) by (unfold pool_world; cbn; rewrite app_nil_r; reflexivity);
      assert (LOOP : for_loop 256 0 body tt (pool_world 0) = Ok (LCont tt) (pool_world 256))
    end.
    { apply (for_loop_states _ pool_world 256); [|reflexivity].
      intros k i Hk. unfold pool_world.
      xcall1. cbn [wl_conf]. rewrite H_fs. xcall1. rewrite Nat2Z.id.
      xcall1. unfold do_send, chan_at. cbn [wl_chans with_raw Z.ltb Z.compare Z.to_nat Pos.to_nat Pos.iter_op Nat.add nth_error].
      change (Pos.to_nat 1) with 1%nat. cbn [nth_error].
      rewrite map_length, seq_length. replace (k <? 256)%nat with true by lia.
      change (Z.to_nat 1) with 1%nat.
      cbn [fst snd ret set_chan with_chans with_raw wl_chans list_upd Z.to_nat Pos.to_nat Pos.iter_op Nat.add
           wl_raw rw_bytes with_bytes List.length wl_conf wl_in wl_pend wl_val wl_timer wl_clock wl_closed wl_spawned wl_bad
           rw_cfg rw_fws rw_outs rw_faults rw_open_fail rw_pending].
      rewrite app_length, repeat_length. fold base.
      rewrite seq_S, map_app. cbn [map].
      replace (repeat zf k ++ [zf]) with (repeat zf (S k)) by (rewrite <- repeat_cons; reflexivity).
      rewrite <- app_assoc. cbn [app]. rewrite <- repeat_cons. reflexivity. }
    unfold bind at 1. rewrite E0, LOOP. cbv beta iota. unfold pool_world.
    repeat xcall1. cbn [wl_conf wl_raw rw_cfg with_spawned wl_clock]. reflexivity.
  Qed.
End Conn.

(* the header cannot be read: handleConn returns that error; no channel, no buffer, no goroutine *)
Theorem handleConn_header_error : forall conf cfg bytes0 fws rpend input pd vl timer clock lfr fuel,
    wc_hdr_err conf <> 0 ->
    WriterLoop_fn_handleConn wext fuel lfr (w_fresh conf cfg bytes0 fws rpend input pd vl timer clock) =
    Ok (Some (wc_hdr_err conf)) (with_pend (w_fresh conf cfg bytes0 fws rpend input pd vl timer clock) (wc_hdr_err conf)).
Proof.
  intros. unfold WriterLoop_fn_handleConn, w_fresh.
  do 3 xcall1. cbn [wl_pend with_pend wl_conf].
  destruct (Z.eqb_spec (wc_hdr_err conf) 0); [contradiction|]. reflexivity.
Qed.

(* ====================================================================================
   The whole connection: every schedule of the two translated goroutines
   ==================================================================================== *)
Section Final.
  Variables (conf : wconf) (cfg : rcfg) (bytes0 : list Writer.bytes) (fws : list (list field)) (rpend : Z).
  Variables (input : list Socket.bytes) (pd vl : Z) (timer : list bool) (clock : list Z) (lfr : bool) (fs : nat).
  Hypothesis H_hdr : wc_hdr_err conf = 0.
  Hypothesis H_fs : wc_fs conf = Z.of_nat fs.
  Hypothesis fs_pos : (1 <= fs)%nat.
  Hypothesis H_cfg : cfg_ok cfg.
  Hypothesis H_i1 : wc_int1 conf * rc_fps cfg <> 0.
  Hypothesis H_i2 : wc_int2 conf * rc_fps cfg <> 0.

  Let p := conn_p conf cfg lfr.
  Let base := List.length bytes0.
  (* the state in which handleConn enters its loop (handleConn_prelude), the writer spawned *)
  Variable st0 : Z * Z * Z.   (* the reader's loop variables (frame counters, t0): they influence log lines only *)
  Definition sys0 : sys := mkSys (conn_start conf cfg bytes0 fws rpend input vl timer clock fs) (RRun st0) WStart.
  (* the frames of the connection *)
  Definition conn_frames : list Writer.bytes := stream_frames fs (List.concat input).

  Lemma init_rel : SysRel 256 base fs p cfg conn_frames sys0 (ws_init 256 conn_frames).
  Proof.
    split; cbn [sys0 sy_w sy_r sy_wr].
    - split; cbn [ws_init ws_input ws_spent ws_queue ws_rhand ws_whand ws_closed ws_done ws_contents ws_files ws_cur];
        try reflexivity; try assumption; try discriminate.
      + change (rp_sf p) with 1. unfold chan_at, conn_start. cbn [Z.ltb Z.compare wl_chans].
        change (Z.to_nat 1) with 1%nat. cbn [nth_error].
        rewrite <- (map_tokb_seq base 0 256), Nat.add_0_r. reflexivity.
      + unfold conn_start. cbn [wl_raw rw_bytes]. rewrite app_length, repeat_length. fold base. lia.
      + intros b Hb. unfold rbytes, conn_start. cbn [wl_raw rw_bytes]. rewrite tokb_nat.
        rewrite app_nth2 by (fold base; lia). fold base. replace (base + b - base)%nat with b by lia.
        match goal with |- List.length ?x = _ => assert (Hin : In x (repeat (repeat 0 fs) 256)) end.
        { apply nth_In. rewrite repeat_length. exact Hb. }
        apply repeat_spec in Hin. rewrite Hin. apply repeat_length.
      + intros b [].
    - cbn [RelF]. repeat split; reflexivity.
    - apply inv_init.
    - reflexivity.
  Qed.

  (* MAIN THEOREM.  For every schedule - every interleaving of iterations of the translated reader loop
     and the translated writer loop, every lag, the rotation timer firing whenever its script says - the
     state reached is related to a state of model/Writer.v's transition system reached by a schedule of
     ITS steps from its initial state with the connection's frames as input. *)
  Theorem source_all_schedules : forall sched,
      exists labels, SysRel 256 base fs p cfg conn_frames (sys_run p sys0 sched) (reach 256 conn_frames labels).
  Proof.
    intros sched.
    destruct (sys_run_sim 256 base fs p cfg fs_pos eq_refl eq_refl H_i1 H_i2 conn_frames sched sys0 _ init_rel) as (labels & H).
    exists labels. exact H.
  Qed.

  (* neither goroutine panics, no channel operation is made that could not proceed, no send on / close
     of a closed channel *)
  Theorem source_no_panic : forall sched,
      let x := sys_run p sys0 sched in
      sy_r x <> RPanic /\ sy_wr x <> WPanic /\ wl_bad (sy_w x) = false.
  Proof.
    intros sched x. destruct (source_all_schedules sched) as (labels & [HR HF _ Hrd]). fold x in HR, HF, Hrd.
    split; [|split].
    - intros E. rewrite E in Hrd. exact Hrd.
    - intros E. rewrite E in HF. exact HF.
    - apply (rel_bad _ _ _ _ _ _ _ HR).
  Qed.

  (* at every moment the files hold a prefix of the connection's frames: each frame once, in order, as
     one frame section of a well-formed CPTR file *)
  Theorem source_prefix : forall sched,
      let x := sys_run p sys0 sched in
      sy_wr x <> WStart ->
      exists files,
        Forall2 (file_of cfg) (rw_outs (wl_raw (sy_w x))) files /\
        exists rest, List.concat files ++ rest = conn_frames.
  Proof.
    intros sched x Hns. destruct (source_all_schedules sched) as (labels & H). fold x in H.
    destruct (sysrel_files _ _ _ _ _ _ _ _ H Hns) as (files & F & R).
    exists files. split; [|exact R].
    rewrite (rel_cfg0 _ _ _ _ _ _ _ (sr_rel _ _ _ _ _ _ _ _ H)) in F. exact F.
  Qed.

  (* once the writer has returned: the reader had returned the connection's error before; the files,
     in order, hold exactly the connection's frames - every frame once, in order, byte for byte; every
     file has been closed (so everything that was queued was written before the last Close) *)
  Theorem source_final : forall sched,
      let x := sys_run p sys0 sched in
      sy_wr x = WDone ->
      exists files,
        Forall2 (file_of cfg) (rw_outs (wl_raw (sy_w x))) files /\
        List.concat files = conn_frames /\
        wl_closed (sy_w x) = map Z.of_nat (seq 0 (List.length (rw_outs (wl_raw (sy_w x))))) /\
        exists e, sy_r x = RDone e /\ e <> 0.
  Proof.
    intros sched x Hd. destruct (source_all_schedules sched) as (labels & H). fold x in H.
    destruct (sysrel_final _ _ _ _ _ _ _ _ H Hd) as (files & F & R).
    exists files. split; [|exact R].
    rewrite (rel_cfg0 _ _ _ _ _ _ _ (sr_rel _ _ _ _ _ _ _ _ H)) in F. exact F.
  Qed.

  (* and those files parse back (model/Writer.v's parser) to the frames *)
  Theorem source_final_parses : forall sched,
      let x := sys_run p sys0 sched in
      sy_wr x = WDone -> (Z.of_nat fs < 2 ^ 32) ->
      exists files,
        Forall2 (fun out frames => exists h, parse_file out = Some (h, frames)) (rw_outs (wl_raw (sy_w x))) files /\
        List.concat files = conn_frames.
  Proof.
    intros sched x Hd Hfs. destruct (source_final sched Hd) as (files & F & E & _). fold x in F.
    exists files. split; [|exact E].
    destruct (stream_frames_concat fs (List.concat input) fs_pos) as (tail & _ & _ & Hlen).
    fold conn_frames in Hlen. rewrite <- E in Hlen.
    assert (Hall : Forall (Forall (fun f => List.length f = fs)) files).
    { clear - Hlen. induction files as [|a l IH]; [constructor|].
      cbn [List.concat] in Hlen. apply Forall_app in Hlen. destruct Hlen. constructor; auto. }
    clear - F Hall Hfs H_cfg. induction F as [|out frames outs fl (t & ->) _ IH]; [constructor|].
    inversion Hall as [|? ? Ha Hl]; subst. constructor; [|apply IH; exact Hl].
    exists (raw_header cfg t). destruct H_cfg as (Hm & Hb & Hd).
    apply parse_roundtrip; [cbn; lia| |].
    - unfold raw_header, thermal_raw_header, str_field.
      repeat (apply Forall_cons; [unfold field_ok; cbn [f_data le_bytes List.length]; lia|]).
      apply Forall_nil.
    - eapply Forall_impl; [|exact Ha]. cbn. intros a ->. exact Hfs.
  Qed.
End Final.

(* the goroutine handleConn spawns is given writeFrames as its input and spentFrames as its output *)
Lemma spawned_channels : forall conf cfg bytes0 fws rpend input vl timer clock fs lfr,
    wl_spawned (conn_start conf cfg bytes0 fws rpend input vl timer clock fs) =
    [(rp_wf (conn_p conf cfg lfr), rp_sf (conn_p conf cfg lfr))].
Proof. reflexivity. Qed.

(* ====================================================================================
   Example (vm_compute): 256 buffers of 2 bytes; the connection delivers five frames and one byte of
   a sixth, cut into odd chunks.  The reader runs three iterations before the writer has even started
   (the writer lags); the writer writes two frames, then its timer fires (third select) and it rotates;
   the reader reads the last two frames and hits the truncated one (io.ErrUnexpectedEOF, writeFrames
   closed); the writer drains the three queued frames into the second file and closes it.
   ==================================================================================== *)
Definition ex_conf : wconf := mkWC 0 2 15 300.
Definition ex_input : list Socket.bytes := [[1; 2; 3]; [4]; [5; 6; 7; 8; 9]; [10; 11]].
Definition ex_world : wworld := w_fresh ex_conf ex_cfg [] [] 0 ex_input 0 0 [false; false; true] [1000; 2000; 3000; 4000] .
Definition ex_sched : list who :=
  [StepR; StepR; StepR; StepW; StepW; StepW; StepW; StepR; StepR; StepR; StepW; StepW; StepW; StepW; StepR; StepW].

Example ex_writer_loop :
  (* the translated handleConn up to its loop (fuel 0 stops it there) leaves the world conn_start *)
  match WriterLoop_fn_handleConn wext 0 false ex_world with
  | Ok None w1 =>
    w1 = conn_start ex_conf ex_cfg [] [] 0 ex_input 0 [false; false; true] [1000; 2000; 3000; 4000] 2 /\
    let x := sys_run (conn_p ex_conf ex_cfg false) (mkSys w1 (RRun (0, 0, 1000)) WStart) ex_sched in
    sy_r x = RDone WERR_UEOF /\ sy_wr x = WDone /\ wl_bad (sy_w x) = false /\
    rw_outs (wl_raw (sy_w x)) =
      [enc_file (raw_header ex_cfg 2000) [[1; 2]; [3; 4]];
       enc_file (raw_header ex_cfg 3000) [[5; 6]; [7; 8]; [9; 10]]] /\
    wl_closed (sy_w x) = [0; 1] /\ wl_spawned (sy_w x) = [(0, 1)] /\
    map (fun f => match parse_file f with Some (_, fr) => fr | None => [] end) (rw_outs (wl_raw (sy_w x))) =
      [[[1; 2]; [3; 4]]; [[5; 6]; [7; 8]; [9; 10]]]
  | _ => False
  end.
Proof. vm_compute. repeat split; reflexivity. Qed.
