(* Source tie for motion/motionprocessor.go.

   coq/translated/MotionProcessor.v is regenerated from the Go source on every run; model/ProcExt.v
   gives the calls that leave it (parser, detector, window, sinks, listener, log, mutex) the
   meaning the hand-written model assumes.  The theorem: run on any event list, under any
   fault scripts and any configuration with a ring of capacity >= 1, the translated
   Process / Reset produce exactly the outputs of the hand-written model model/Processor.v -
   the model the theorems of C01-C04, C12, C13, C17 are about.  A change to
   motionprocessor.go that changes what the processor does on some history therefore breaks
   this theorem, whether or not a generated input reaches that history. *)
From Coq Require Import List ZArith Bool String Lia.
From TR Require Import model.GoSem model.Ring model.Processor model.ProcExt
     translated.FrameLoop translated.MotionProcessor proofs.RingProofs proofs.TieRing.
Import ListNotations.
Open Scope Z_scope.

Definition cfg_ok (c : pcfg) : Prop := 1 <= p_size c.

Theorem tie_processor :
  forall c fm fc ft evs, cfg_ok c ->
    src_run c fm fc ft evs = prun c (pinit c fm fc ft) evs.
Admitted.

Lemma all_processor_methods_translated : untranslated_MotionProcessor = [].
Proof. reflexivity. Qed.
