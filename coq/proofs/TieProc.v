(* Source tie for motion/motionprocessor.go.

   coq/translated/MotionProcessor.v is regenerated from the Go source on every run; model/ProcExt.v
   gives the calls that leave it (parser, detector, window, sinks, listener, log, mutex) the
   meaning the hand-written model assumes.  The theorem: run on any event list, under any
   fault scripts and any configuration with a ring of capacity >= 1, the translated
   Process / Reset produce exactly the outputs of the hand-written model model/Processor.v -
   the model the theorems of C01-C04, C12, C13, C17 are about.  A change to
   motionprocessor.go that changes what the processor does on some history therefore breaks
   this theorem, whether or not a generated input reaches that history.

   How it is proved.  The model state is read off the Go struct and the world ([get_m],
   [get_c], [get_t]: the ring of the model holds the slot contents pw_slots, the ring of the
   struct the handles 0..size-1) and written back ([put_m], ...).  There is one lemma per
   translated method saying which model function it computes (stopRecording: stop_recording,
   recordPreTriggerFrames: write_pre, process: mprocess, processConstantRecorder: cprocess,
   processSnapshot: tprocess, Process / Reset: pstep), each proved by the same script: run
   the translated code symbolically ([crunch]) - evaluating the calls that leave it with
   [pext], replacing calls of translated methods by their lemmas, splitting on the tests the
   code and the model make - until both sides are explicit, then compare.  The frame loop is
   used only through proofs/TieRing.v.  The ring invariant of proofs/RingProofs.v, kept along
   the run, is what shows that GetHistory never panics. *)
From Coq Require Import List ZArith Bool String Lia ZifyBool.
From TR Require Import model.GoSem model.Ring model.RingSpec model.Processor model.ProcExt
     translated.FrameLoop translated.MotionProcessor proofs.RingProofs proofs.TieRing.
Import ListNotations.
Open Scope Z_scope.

Definition cfg_ok (c : pcfg) : Prop := 1 <= p_size c.

(* field updates compute as soon as they are applied (a setter missing from this list only
   makes the proofs slower: conversion then has to unfold it) *)
Local Arguments MotionProcessor_set_minFrames v s /.
Local Arguments MotionProcessor_set_maxFrames v s /.
Local Arguments MotionProcessor_set_framesWritten v s /.
Local Arguments MotionProcessor_set_frameLoop v s /.
Local Arguments MotionProcessor_set_isRecording v s /.
Local Arguments MotionProcessor_set_writeUntil v s /.
Local Arguments MotionProcessor_set_triggerFrames v s /.
Local Arguments MotionProcessor_set_triggered v s /.
Local Arguments MotionProcessor_set_constantRecording v s /.
Local Arguments MotionProcessor_set_crFrames v s /.
Local Arguments MotionProcessor_set_CurrentFrame v s /.
Local Arguments MotionProcessor_set_StartSnapshot v s /.
Local Arguments MotionProcessor_set_SnapshotRecording v s /.
Local Arguments MotionProcessor_set_snapshotFrames v s /.
Local Arguments FrameLoop_set_size v s /.
Local Arguments FrameLoop_set_currentIndex v s /.
Local Arguments FrameLoop_set_frames v s /.
Local Arguments FrameLoop_set_orderedFrames v s /.
Local Arguments FrameLoop_set_bufferFull v s /.
Local Arguments FrameLoop_set_oldest v s /.

(* ------------------------------------------------------------------ *)
(* lists, handles, rings of handles vs rings of contents                *)

Lemma map_nth_seq_gen : forall (l : list Z) k,
  map (fun i => nth (i - k) l 0) (seq k (List.length l)) = l.
Proof.
  induction l as [|a l IH]; intros k; [reflexivity|].
  cbn [List.length seq map]. rewrite Nat.sub_diag. cbn [nth]. f_equal.
  rewrite <- (IH (S k)) at 2. apply map_ext_in. intros i Hi.
  apply in_seq in Hi. replace (i - k)%nat with (S (i - S k)) by lia. reflexivity.
Qed.

Lemma handles_length : forall n, List.length (handles n) = Z.to_nat n.
Proof. intros n. unfold handles. rewrite map_length, seq_length. reflexivity. Qed.

Lemma handles_nth : forall n i d, (i < Z.to_nat n)%nat -> nth i (handles n) d = Z.of_nat i.
Proof.
  intros n i d Hi. unfold handles.
  rewrite (nth_indep _ d (Z.of_nat 0)) by (rewrite map_length, seq_length; exact Hi).
  rewrite map_nth, seq_nth by exact Hi. reflexivity.
Qed.

(* reading every handle's slot gives the slot contents *)
Lemma map_slot_handles : forall (l : list Z) n,
  Z.of_nat (List.length l) = n -> map (fun h => nth (Z.to_nat h) l 0) (handles n) = l.
Proof.
  intros l n Hn. unfold handles. rewrite map_map. subst n. rewrite Nat2Z.id.
  rewrite <- (map_nth_seq_gen l 0) at 2. apply map_ext. intros i.
  rewrite Nat2Z.id, Nat.sub_0_r. reflexivity.
Qed.

(* the ring model is parametric in the slot contents *)
Definition rmap {A B : Type} (f : A -> B) (r : ring A) : ring B :=
  mkRing (size r) (cur r) (full r) (oldest r) (map f (slots r)).

Lemma get_full_history_map : forall (A B : Type) (f : A -> B) (r : ring A),
  get_full_history (rmap f r) = map f (get_full_history r).
Proof.
  intros A B f r. unfold get_full_history, rmap, next_index_after.
  cbn [size cur full oldest slots].
  destruct (cur r =? size r - 1); [reflexivity|].
  destruct (negb (full r)).
  - rewrite firstn_map. reflexivity.
  - rewrite map_app, firstn_map, skipn_map. reflexivity.
Qed.

Lemma get_history_map : forall (A B : Type) (f : A -> B) (r : ring A),
  get_history (rmap f r) = option_map (map f) (get_history r).
Proof.
  intros A B f r. unfold get_history. rewrite get_full_history_map, map_length.
  unfold rmap. cbn [size cur full oldest slots].
  destruct (oldest r =? NO_OLDEST_SET); [reflexivity|].
  match goal with |- context [if ?b then _ else _] => destruct b end; [reflexivity|].
  cbn [option_map]. rewrite skipn_map. reflexivity.
Qed.

(* ------------------------------------------------------------------ *)
(* the ring lemmas of proofs/TieRing.v in functional form               *)

Definition fl_of (r : ring Z) (ord : list Z) : FrameLoop :=
  mkFrameLoop (size r) (cur r) (slots r) ord (full r) (oldest r).

Lemma fl_of_eq : forall fl r ord,
  ring_of fl = r -> FrameLoop_orderedFrames fl = ord -> fl = fl_of r ord.
Proof. intros fl r ord <- <-. destruct fl. reflexivity. Qed.

Lemma fl_wf_ord : forall sz ci fr ord ord' bf ol,
  fl_wf (mkFrameLoop sz ci fr ord bf ol) -> List.length ord' = List.length ord ->
  fl_wf (mkFrameLoop sz ci fr ord' bf ol).
Proof.
  unfold fl_wf. intros sz ci fr ord ord' bf ol H E.
  cbn [FrameLoop_size FrameLoop_frames FrameLoop_orderedFrames FrameLoop_currentIndex FrameLoop_oldest] in *.
  rewrite E. exact H.
Qed.

Section FL.
  Context {W : Type} (ext : string -> list arg -> W -> Z * W).

  Lemma Move_fn : forall fl w, fl_wf fl ->
    FrameLoop_Move ext fl w =
      Ok (fl_of (move (ring_of fl)) (FrameLoop_orderedFrames fl), current 0 (move (ring_of fl)))
         (after_ext ext "FrameLoop.mu.Unlock" [] (after_ext ext "FrameLoop.mu.Lock" [] w)).
  Proof.
    intros fl w H. destruct (tie_Move ext fl w 0 H) as (fl' & Heq & Hr & Ho & _).
    rewrite Heq, Hr. rewrite (fl_of_eq fl' _ _ Hr Ho). reflexivity.
  Qed.

  Lemma SetAsOldest_fn : forall fl w, fl_wf fl ->
    FrameLoop_SetAsOldest ext fl w =
      Ok (fl_of (set_as_oldest (ring_of fl)) (FrameLoop_orderedFrames fl),
          current 0 (set_as_oldest (ring_of fl))) w.
  Proof.
    intros fl w H. destruct (tie_SetAsOldest ext fl w 0 H) as (fl' & Heq & Hr & Ho & _).
    rewrite Heq, Hr. rewrite (fl_of_eq fl' _ _ Hr Ho). reflexivity.
  Qed.

  Lemma GetHistory_fn : forall fl w h, fl_wf fl -> get_history (ring_of fl) = Some h ->
    exists ord', List.length ord' = List.length (FrameLoop_orderedFrames fl) /\
      FrameLoop_GetHistory ext fl w = Ok (FrameLoop_set_orderedFrames ord' fl, h) w.
  Proof.
    intros fl w h H Hh. pose proof (tie_GetHistory ext fl w H) as T. rewrite Hh in T.
    destruct T as (fl' & Heq & (Hr & Hl) & _).
    exists (FrameLoop_orderedFrames fl'). split; [exact Hl|].
    rewrite Heq. rewrite (fl_of_eq fl' _ _ Hr eq_refl) at 1. destruct fl. reflexivity.
  Qed.
End FL.

Lemma Move_wf : forall fl, fl_wf fl ->
  fl_wf (fl_of (move (ring_of fl)) (FrameLoop_orderedFrames fl)).
Proof.
  intros fl H.
  destruct (tie_Move (fun _ _ (w : unit) => (0, w)) fl tt 0 H) as (fl' & _ & Hr & Ho & Hwf).
  rewrite (fl_of_eq fl' _ _ Hr Ho) in Hwf. exact Hwf.
Qed.

Lemma SetAsOldest_wf : forall fl, fl_wf fl ->
  fl_wf (fl_of (set_as_oldest (ring_of fl)) (FrameLoop_orderedFrames fl)).
Proof.
  intros fl H.
  destruct (tie_SetAsOldest (fun _ _ (w : unit) => (0, w)) fl tt 0 H) as (fl' & _ & Hr & Ho & Hwf).
  rewrite (fl_of_eq fl' _ _ Hr Ho) in Hwf. exact Hwf.
Qed.

(* ------------------------------------------------------------------ *)
(* the model state carried by a translated processor and its world     *)

Definition mring (mp : MotionProcessor) (w : pworld) : ring Z :=
  let fl := MotionProcessor_frameLoop mp in
  mkRing (FrameLoop_size fl) (FrameLoop_currentIndex fl) (FrameLoop_bufferFull fl)
         (FrameLoop_oldest fl) (pw_slots w).

Definition get_m (mp : MotionProcessor) (w : pworld) : mstate :=
  mkM (mring mp w) (MotionProcessor_isRecording mp) (MotionProcessor_framesWritten mp)
      (MotionProcessor_writeUntil mp) (MotionProcessor_triggered mp) (pw_fm w).
Definition get_c (mp : MotionProcessor) (w : pworld) : cstate :=
  mkC (MotionProcessor_crFrames mp) (pw_fc w).
Definition get_t (mp : MotionProcessor) (w : pworld) : tstate :=
  mkT (MotionProcessor_StartSnapshot mp) (MotionProcessor_SnapshotRecording mp)
      (MotionProcessor_snapshotFrames mp) (pw_ft w).
Definition abs (mp : MotionProcessor) (w : pworld) : pstate :=
  mkP (get_m mp w) (get_c mp w) (get_t mp w).

Definition cfg_of (mp : MotionProcessor) : pcfg :=
  mkCfg (FrameLoop_size (MotionProcessor_frameLoop mp)) (MotionProcessor_minFrames mp)
        (MotionProcessor_maxFrames mp) (MotionProcessor_triggerFrames mp)
        (MotionProcessor_constantRecording mp).

(* writing a model state back: the ring's indices and flags (never its slots or size:
   the processor only moves and marks), the control fields, the fault script, the outputs *)
Definition put_m (m : mstate) (mp : MotionProcessor) : MotionProcessor :=
  let fl := MotionProcessor_frameLoop mp in
  MotionProcessor_set_frameLoop
    (FrameLoop_set_currentIndex (cur (m_ring m))
      (FrameLoop_set_bufferFull (full (m_ring m))
        (FrameLoop_set_oldest (oldest (m_ring m)) fl)))
    (MotionProcessor_set_isRecording (m_rec m)
      (MotionProcessor_set_framesWritten (m_fw m)
        (MotionProcessor_set_writeUntil (m_wu m)
          (MotionProcessor_set_triggered (m_trig m) mp)))).
Definition put_c (s : cstate) (mp : MotionProcessor) : MotionProcessor :=
  MotionProcessor_set_crFrames (c_frames s) mp.
Definition put_t (s : tstate) (mp : MotionProcessor) : MotionProcessor :=
  MotionProcessor_set_StartSnapshot (t_start s)
    (MotionProcessor_set_SnapshotRecording (t_rec s)
      (MotionProcessor_set_snapshotFrames (t_frames s) mp)).
Definition set_ord (ord : list Z) (mp : MotionProcessor) : MotionProcessor :=
  MotionProcessor_set_frameLoop (FrameLoop_set_orderedFrames ord (MotionProcessor_frameLoop mp)) mp.

Definition putw_m (f : list bool) (o : list out) (w : pworld) : pworld :=
  mkPW (pw_slots w) (pw_id w) (pw_bad w) (pw_motion w) (pw_win w) f (pw_fc w) (pw_ft w) (pw_out w ++ o).
Definition putw_c (f : list bool) (o : list out) (w : pworld) : pworld :=
  mkPW (pw_slots w) (pw_id w) (pw_bad w) (pw_motion w) (pw_win w) (pw_fm w) f (pw_ft w) (pw_out w ++ o).
Definition putw_t (f : list bool) (o : list out) (w : pworld) : pworld :=
  mkPW (pw_slots w) (pw_id w) (pw_bad w) (pw_motion w) (pw_win w) (pw_fm w) (pw_fc w) f (pw_out w ++ o).

Definition put_p (s : pstate) (mp : MotionProcessor) : MotionProcessor :=
  put_t (p_t s) (put_c (p_c s) (put_m (p_m s) mp)).
Definition putw_p (s : pstate) (o : list out) (w : pworld) : pworld :=
  mkPW (pw_slots w) (pw_id w) (pw_bad w) (pw_motion w) (pw_win w)
       (m_faults (p_m s)) (c_faults (p_c s)) (t_faults (p_t s)) (pw_out w ++ o).

(* what is needed of the loop and the world for the ring lemmas to apply *)
Definition wf (mp : MotionProcessor) (w : pworld) : Prop :=
  let fl := MotionProcessor_frameLoop mp in
  fl_wf fl /\ FrameLoop_frames fl = handles (FrameLoop_size fl) /\
  Z.of_nat (List.length (pw_slots w)) = FrameLoop_size fl.

(* ------------------------------------------------------------------ *)
(* the pieces of mprocess that are separate Go methods                 *)

(* the error stopRecording() returns *)
Definition stop_err (m : mstate) : Z :=
  if m_rec m then bool_to_z (fst (pop (m_faults m))) else 0.

(* canStartWriting(): the window, then the sink *)
Definition can_start (win : bool) (f : list bool) : Z * list bool * list out :=
  if negb win then (1, f, [WinQ false])
  else let (cf, f1) := pop f in (bool_to_z cf, f1, [WinQ true; Call SMotion Check cf]).

(* startRecording() when GetHistory returns h: the new state, the error, the outputs *)
Definition start_rec (m : mstate) (h : list Z) : mstate * Z * list out :=
  let (sfail, f2) := pop (m_faults m) in
  if sfail then
    (mkM (m_ring m) (m_rec m) (m_fw m) (m_wu m) (m_trig m) f2, 1, [Call SMotion Start true])
  else
    let '(ok, f3, ow) := write_pre h f2 in
    (mkM (m_ring m) true (m_fw m) (m_wu m) (m_trig m) f3, if ok then 0 else 1,
     [Call SMotion Start false; LStarted] ++ ow).

(* GetHistory rewrites the loop's scratch slice orderedFrames (same length, other contents;
   no method reads them back): the methods that reach it are specified up to that slice.
   [upto res mp t]: started from mp, the run res ends in the state, result and world t,
   for some contents of the scratch slice. *)
Definition upto {R : Type} (res : outcome pworld (MotionProcessor * R))
           (mp : MotionProcessor) (t : MotionProcessor * R * pworld) : Prop :=
  exists ord',
    List.length ord' = List.length (FrameLoop_orderedFrames (MotionProcessor_frameLoop mp)) /\
    res = let '(mp', r, w') := t in Ok (set_ord ord' mp', r) w'.

(* indexing a Go slice inside its bounds *)
Lemma go_index_nth : forall (l : list Z) i h,
  nth_error l i = Some h -> go_index l (Z.of_nat i) = Some h.
Proof.
  intros l i h H. unfold go_index, go_len.
  assert (Hi : (i < List.length l)%nat) by (apply nth_error_Some; congruence).
  destruct ((Z.of_nat i <? 0) || (Z.of_nat i >=? Z.of_nat (List.length l))) eqn:E.
  - exfalso. apply orb_true_iff in E. destruct E as [E|E].
    + apply Z.ltb_lt in E. lia.
    + apply Z.geb_le in E. lia.
  - rewrite Nat2Z.id. exact H.
Qed.

(* a test whose two branches are the same (an error that is only logged) *)
Lemma if_same : forall (A : Type) (b : bool) (x : A), (if b then x else x) = x.
Proof. intros A b x. destruct b; reflexivity. Qed.

(* ------------------------------------------------------------------ *)
(* symbolic execution of translated code                               *)

Ltac destruct_records :=
  repeat match goal with
         | x : MotionProcessor |- _ => destruct x
         | x : FrameLoop |- _ => destruct x
         | x : pworld |- _ => destruct x
         | x : mstate |- _ => destruct x
         | x : cstate |- _ => destruct x
         | x : tstate |- _ => destruct x
         end.

(* a call that leaves the translated code, at a known name: what the handler answers *)
Ltac eval_pext :=
  repeat match goal with
         | |- context [pext ?n ?a ?w] =>
           let v := eval cbv beta iota zeta delta
                      [pext sink_ext sink_call strip emit set_slot slot BG TH
                       args_eqb arg_eqb String.eqb Ascii.eqb Bool.eqb String.prefix
                       String.substring String.length Nat.sub] in (pext n a w) in
           change (pext n a w) with v
         end.

(* the monad, the state accessors of this file and the model's dispatchers are unfolded;
   the methods (used through their lemmas only), the ring operations and integer arithmetic
   are left alone *)
Ltac mred :=
  cbv beta iota zeta delta
      [bind ret panic lift_opt call_ext slot after_ext
       put_m put_c put_t put_p putw_m putw_c putw_t putw_p get_m get_c get_t mring set_ord cfg_of abs
       pstep mstep cstep tstep put
       stop_err can_start start_rec stop_recording];
  cbn -[FrameLoop_Move FrameLoop_Current FrameLoop_SetAsOldest FrameLoop_GetHistory
        MotionProcessor_stopRecording MotionProcessor_canStartWriting MotionProcessor_fn_min
        MotionProcessor_recordPreTriggerFrames MotionProcessor_startRecording
        MotionProcessor_process MotionProcessor_processConstantRecorder
        MotionProcessor_processSnapshot MotionProcessor_stopConstantRecorder
        fl_of move set_as_oldest current ring_of get_history write_pre for_range
        mprocess cprocess tprocess
        Z.add Z.sub Z.mul Z.rem Z.quot Z.modulo Z.div Z.pow Z.min Z.max wrap_u];
  (* comparisons in one direction, so that the code and the model test the same term *)
  rewrite ?Z.gtb_ltb, ?Z.geb_leb.

(* fl_wf goals: the loop is, up to conversion, one the context knows to be well-formed,
   possibly moved and/or marked *)
Ltac solve_flwf :=
  match goal with
  | H : fl_wf ?fl |- fl_wf _ =>
    first [ exact H | exact (Move_wf fl H) | exact (SetAsOldest_wf fl H)
          | exact (SetAsOldest_wf _ (Move_wf fl H)) ]
  end.

(* after GetHistory: the loop with its new scratch slice is well-formed too *)
Ltac note_ord ord Hl :=
  cbn in Hl;
  match goal with
  | Hf : fl_wf (mkFrameLoop ?sz ?ci ?fr ?o ?bf ?ol) |- _ =>
    pose proof (fl_wf_ord sz ci fr o ord bf ol Hf Hl)
  end.

Ltac solve_wf :=
  unfold wf; cbn -[fl_wf handles fl_of move set_as_oldest ring_of];
  split; [solve_flwf
         | split; [first [reflexivity | assumption]
                  | rewrite ?(upd_length Z); assumption]].

(* calls of translated methods: extended below, as the lemmas about the callees are proved *)
Ltac call_step := fail.

(* one step: facts already known and calls whose lemma is available; then the next calls
   that leave the translated code; then, when nothing else moves, a case distinction *)
Ltac step :=
  first
  [ match goal with
    | H : pop ?f = _ |- context [pop ?f] => rewrite H
    | H : write_pre ?h ?f = _ |- context [write_pre ?h ?f] => rewrite H
    | H : get_history ?r = _ |- context [get_history ?r] => rewrite H
    | H : current 0 (ring_of ?fl) = _ |- context [current 0 (ring_of ?fl)] => rewrite H
    | H : forall v, nth ?n (upd ?l ?n v) 0 = v |- context [nth ?n (upd ?l ?n ?x) 0] =>
      rewrite (H x)
    | H : ?b = true |- context [if ?b then _ else _] => rewrite H
    | H : ?b = false |- context [if ?b then _ else _] => rewrite H
    | H : nth_error ?l ?i = Some ?h |- context [go_index ?l (Z.of_nat ?i)] =>
      rewrite (go_index_nth l i h H)
    | |- context [FrameLoop_SetAsOldest ?e ?fl ?w] => rewrite (SetAsOldest_fn e fl w) by solve_flwf
    | |- context [FrameLoop_Move ?e ?fl ?w] => rewrite (Move_fn e fl w) by solve_flwf
    | |- context [FrameLoop_Current ?e ?fl ?w] => rewrite (tie_Current e fl w 0) by solve_flwf
    end
  | call_step
  | progress eval_pext
  | match goal with
    | |- context [if ?b then ?x else ?x] => rewrite (if_same _ b x)
    | |- context [bool_to_z ?b] => is_var b; destruct b
    | |- context [if ?b then _ else _] => is_var b; destruct b
    | |- context [negb ?b] => is_var b; destruct b
    | |- context [pop ?f] => destruct (pop f) as [? ?] eqn:?
    | |- context [write_pre ?h ?f] => destruct (write_pre h f) as [[? ?] ?] eqn:?
    | |- context [get_history ?r] => destruct (get_history r) eqn:?
    | |- context [mprocess ?c ?m ?i ?a ?b] => destruct (mprocess c m i a b) as [? ?]
    | |- context [cprocess ?c ?m ?i] => destruct (cprocess c m i) as [? ?]
    | |- context [tprocess ?m ?i] => destruct (tprocess m i) as [? ?]
    | |- context [if ?b then _ else _] => destruct b eqn:?
    end ].

Ltac finish := rewrite <- ?app_assoc; cbn [app]; rewrite ?app_nil_r; reflexivity.

Ltac crunch := mred; repeat (step; mred).

(* goals [upto (Ok (mp, r) w) ...]: the witness is whatever the scratch slice holds now *)
Ltac finish_upto :=
  match goal with
  | |- upto (Ok (?mpf, _) _) _ _ =>
    exists (FrameLoop_orderedFrames (MotionProcessor_frameLoop mpf));
    split; [cbn; first [reflexivity | assumption] | finish]
  end.

Ltac prep_wf Hwf Hfl Hfr Hsl :=
  destruct Hwf as (Hfl & Hfr & Hsl); destruct_records;
  cbn -[fl_wf handles] in Hfl, Hfr, Hsl.

(* ------------------------------------------------------------------ *)
(* one lemma per translated method                                      *)

Lemma tie_stopRecording : forall mp w,
  fl_wf (MotionProcessor_frameLoop mp) ->
  MotionProcessor_stopRecording pext mp w =
    let '(m', o) := stop_recording (get_m mp w) in
    Ok (put_m m' mp, stop_err (get_m mp w)) (putw_m (m_faults m') o w).
Proof.
  intros mp w Hwf. destruct_records. cbn -[fl_wf] in Hwf.
  unfold MotionProcessor_stopRecording. crunch; finish.
Qed.

Lemma tie_stopConstantRecorder : forall mp w,
  MotionProcessor_stopConstantRecorder pext mp w =
    let '(c', o) := cstep (cfg_of mp) (get_c mp w) EBad in
    Ok (put_c c' mp, tt) (putw_c (c_faults c') o w).
Proof.
  intros mp w. destruct_records. unfold MotionProcessor_stopConstantRecorder.
  crunch; finish.
Qed.

Lemma tie_processConstantRecorder : forall mp frame w,
  MotionProcessor_processConstantRecorder pext mp frame w =
    let '(c', o) := cprocess (cfg_of mp) (get_c mp w) (slot w frame) in
    Ok (put_c c' mp, tt) (putw_c (c_faults c') o w).
Proof.
  intros mp frame w. destruct_records. unfold MotionProcessor_processConstantRecorder, cprocess.
  crunch; finish.
Qed.

Lemma tie_processSnapshot : forall mp frame w,
  MotionProcessor_processSnapshot pext mp frame w =
    let '(t', o) := tprocess (get_t mp w) (slot w frame) in
    Ok (put_t t' mp, tt) (putw_t (t_faults t') o w).
Proof.
  intros mp frame w. destruct_records. unfold MotionProcessor_processSnapshot, tprocess, SNAP_LAST.
  crunch; finish.
Qed.

Lemma tie_canStartWriting : forall mp w,
  MotionProcessor_canStartWriting pext mp w =
    let '(e, f, o) := can_start (pw_win w) (pw_fm w) in Ok (mp, e) (putw_m f o w).
Proof.
  intros mp w. destruct_records. unfold MotionProcessor_canStartWriting.
  crunch; finish.
Qed.

Lemma tie_fn_min : forall (W : Type) (ext : string -> list arg -> W -> Z * W) a b w,
  MotionProcessor_fn_min ext a b w = Ok (Z.min a b) w.
Proof.
  intros W ext a b w. unfold MotionProcessor_fn_min, ret.
  repeat match goal with |- context [if ?c then _ else _] => destruct c eqn:? end;
    f_equal; lia.
Qed.

(* ---- recordPreTriggerFrames(): the loop is write_pre ---- *)

Lemma putw_m_nil : forall w, putw_m (pw_fm w) [] w = w.
Proof. intros w. destruct w. unfold putw_m. cbn. rewrite app_nil_r. reflexivity. Qed.

Lemma putw_m_putw_m : forall f1 o1 f2 o2 w,
  putw_m f2 o2 (putw_m f1 o1 w) = putw_m f2 (o1 ++ o2) w.
Proof. intros. unfold putw_m. cbn. rewrite app_assoc. reflexivity. Qed.

Lemma pre_loop :
  forall (body : Z -> MotionProcessor * Z ->
                 M pworld (loopres (MotionProcessor * Z) (MotionProcessor * Z))) frames,
  (forall i h mp fr w, nth_error frames i = Some h ->
     body (Z.of_nat i) (mp, fr) w =
       let (f, r) := pop (pw_fm w) in
       Ok (if f then LRet (mp, 1) else LCont (mp, h))
          (putw_m r [Call SMotion (Write (slot w h)) f] w)) ->
  forall l pre mp fr w, frames = pre ++ l ->
    exists fr',
      for_loop (List.length l - 1) (Z.of_nat (List.length pre)) body (mp, fr) w =
        let '(ok, f', o) := write_pre (map (slot w) l) (pw_fm w) in
        Ok (if ok then LCont (mp, fr') else LRet (mp, 1)) (putw_m f' o w).
Proof.
  intros body frames Hbody. induction l as [|x l IH]; intros pre mp fr w Hfr.
  - exists fr. cbn. rewrite putw_m_nil. reflexivity.
  - destruct l as [|y l'].
    + exists fr. cbn. rewrite putw_m_nil. reflexivity.
    + replace (List.length (x :: y :: l') - 1)%nat with (S (List.length (y :: l') - 1))
        by (cbn [List.length]; lia).
      cbn [for_loop]. unfold bind at 1.
      rewrite (Hbody (List.length pre) x)
        by (rewrite Hfr, nth_error_app2, Nat.sub_diag by lia; reflexivity).
      change (write_pre (map (slot w) (x :: y :: l')) (pw_fm w)) with
        (let (failed, f') := pop (pw_fm w) in
         if failed then (false, f', [Call SMotion (Write (slot w x)) true])
         else let '(ok, f'', o) := write_pre (map (slot w) (y :: l')) f' in
              (ok, f'', Call SMotion (Write (slot w x)) false :: o)).
      destruct (pop (pw_fm w)) as [f r]. destruct f.
      * exists fr. reflexivity.
      * destruct (IH (pre ++ [x]) mp x
                     (putw_m r [Call SMotion (Write (slot w x)) false] w)) as [fr' E].
        { rewrite <- app_assoc. exact Hfr. }
        exists fr'.
        replace (Z.of_nat (List.length pre) + 1) with (Z.of_nat (List.length (pre ++ [x])))
          by (rewrite app_length; cbn [List.length]; lia).
        rewrite E.
        change (map (slot (putw_m r [Call SMotion (Write (slot w x)) false] w)))
          with (map (slot w)).
        change (pw_fm (putw_m r [Call SMotion (Write (slot w x)) false] w)) with r.
        destruct (write_pre (map (slot w) (y :: l')) r) as [[ok f''] o].
        rewrite putw_m_putw_m. reflexivity.
Qed.

(* the model's ring of contents is the loop's ring of handles, read through the world *)
Lemma mring_rmap : forall mp w, wf mp w ->
  mring mp w = rmap (slot w) (ring_of (MotionProcessor_frameLoop mp)).
Proof.
  intros mp w (_ & Hfr & Hsl). unfold mring, rmap, ring_of. cbn [size cur full oldest slots].
  rewrite Hfr. f_equal. symmetry. unfold slot. apply map_slot_handles. exact Hsl.
Qed.

Lemma tie_recordPreTriggerFrames : forall mp w h,
  wf mp w -> get_history (mring mp w) = Some h ->
  upto (MotionProcessor_recordPreTriggerFrames pext mp w) mp
       (let '(ok, f', o) := write_pre h (pw_fm w) in
        (mp, if ok then 0 else 1, putw_m f' o w)).
Proof.
  intros mp w h Hwf Hh. rewrite (mring_rmap mp w Hwf), get_history_map in Hh.
  destruct Hwf as (Hfl & _ & _).
  destruct (get_history (ring_of (MotionProcessor_frameLoop mp))) as [hh|] eqn:E; [|discriminate].
  injection Hh as <-.
  destruct (GetHistory_fn pext _ w hh Hfl E) as (ord' & Hlen & Heq).
  exists ord'. split; [exact Hlen|].
  unfold MotionProcessor_recordPreTriggerFrames. unfold bind at 1. rewrite Heq.
  cbv beta iota zeta.
  match goal with
  | |- context [for_range 0 _ ?body (?m0, ?f0)] =>
    destruct (pre_loop body hh) with (l := hh) (pre := @nil Z) (mp := m0) (fr := f0) (w := w)
      as [fr' Hloop]
  end.
  - (* one iteration *)
    intros i hd mp0 fr0 w0 Hn. destruct_records. crunch; finish.
  - reflexivity.
  - unfold for_range. unfold bind at 1.
    replace (Z.to_nat (go_len hh - 1 - 0)) with (List.length hh - 1)%nat by (unfold go_len; lia).
    change (Z.of_nat (List.length (@nil Z))) with 0 in Hloop. rewrite Hloop.
    destruct (write_pre (map (slot w) hh) (pw_fm w)) as [[ok f'] o].
    destruct ok; reflexivity.
Qed.

Ltac call_step ::=
  match goal with
  | |- context [MotionProcessor_fn_min ?e ?a ?b ?w] => rewrite (tie_fn_min _ e a b w)
  | |- context [MotionProcessor_canStartWriting pext ?mp ?w] => rewrite (tie_canStartWriting mp w)
  | |- context [MotionProcessor_stopRecording pext ?mp ?w] =>
    rewrite (tie_stopRecording mp w) by solve_flwf
  | |- context [MotionProcessor_stopConstantRecorder pext ?mp ?w] =>
    rewrite (tie_stopConstantRecorder mp w)
  | |- context [MotionProcessor_processConstantRecorder pext ?mp ?f ?w] =>
    rewrite (tie_processConstantRecorder mp f w)
  | |- context [MotionProcessor_processSnapshot pext ?mp ?f ?w] =>
    rewrite (tie_processSnapshot mp f w)
  | H : get_history _ = Some ?h |- context [MotionProcessor_recordPreTriggerFrames pext ?mp ?w] =>
    let ord := fresh "ord" in let Hl := fresh "Hl" in let He := fresh "He" in
    destruct (tie_recordPreTriggerFrames mp w h) as (ord & Hl & He);
    [solve_wf | exact H | rewrite He; clear He; note_ord ord Hl]
  end.

Lemma tie_startRecording : forall mp w h,
  wf mp w -> get_history (mring mp w) = Some h ->
  upto (MotionProcessor_startRecording pext mp w) mp
       (let '(m', e, o) := start_rec (get_m mp w) h in
        (put_m m' mp, e, putw_m (m_faults m') o w)).
Proof.
  intros mp w h Hwf Hh. prep_wf Hwf Hfl Hfr Hsl.
  unfold mring in Hh. cbn -[get_history] in Hh.
  unfold MotionProcessor_startRecording. crunch; finish_upto.
Qed.

Ltac call_step ::=
  match goal with
  | |- context [MotionProcessor_fn_min ?e ?a ?b ?w] => rewrite (tie_fn_min _ e a b w)
  | |- context [MotionProcessor_canStartWriting pext ?mp ?w] => rewrite (tie_canStartWriting mp w)
  | |- context [MotionProcessor_stopRecording pext ?mp ?w] =>
    rewrite (tie_stopRecording mp w) by solve_flwf
  | H : get_history _ = Some ?h |- context [MotionProcessor_startRecording pext ?mp ?w] =>
    let ord := fresh "ord" in let Hl := fresh "Hl" in let He := fresh "He" in
    destruct (tie_startRecording mp w h) as (ord & Hl & He);
    [solve_wf | exact H | rewrite He; clear He; note_ord ord Hl]
  end.

Lemma tie_process : forall mp frame w,
  wf mp w -> get_history (mring mp w) <> None ->
  upto (MotionProcessor_process pext mp frame w) mp
       (let '(m', o) :=
          mprocess (cfg_of mp) (get_m mp w) (slot w frame) (pw_motion w) (pw_win w) in
        (put_m m' mp, tt, putw_m (m_faults m') o w)).
Proof.
  intros mp frame w Hwf Hh.
  destruct (get_history (mring mp w)) as [h|] eqn:Hh'; [clear Hh|congruence].
  prep_wf Hwf Hfl Hfr Hsl.
  unfold mring in Hh'. cbn -[get_history] in Hh'.
  unfold MotionProcessor_process, mprocess. crunch; finish_upto.
Qed.

Ltac call_step ::=
  match goal with
  | |- context [MotionProcessor_stopRecording pext ?mp ?w] =>
    rewrite (tie_stopRecording mp w) by solve_flwf
  | |- context [MotionProcessor_stopConstantRecorder pext ?mp ?w] =>
    rewrite (tie_stopConstantRecorder mp w)
  | |- context [MotionProcessor_processConstantRecorder pext ?mp ?f ?w] =>
    rewrite (tie_processConstantRecorder mp f w)
  | |- context [MotionProcessor_processSnapshot pext ?mp ?f ?w] =>
    rewrite (tie_processSnapshot mp f w)
  | Hh : forall v, get_history _ <> None |- context [MotionProcessor_process pext ?mp ?f ?w] =>
    let ord := fresh "ord" in let Hl := fresh "Hl" in let He := fresh "He" in
    destruct (tie_process mp f w) as (ord & Hl & He);
    [solve_wf | exact (Hh _) | rewrite He; clear He; note_ord ord Hl]
  end.

Lemma tie_Reset : forall mp w,
  fl_wf (MotionProcessor_frameLoop mp) ->
  MotionProcessor_Reset pext mp w =
    let '(s', o) := pstep (cfg_of mp) (abs mp w) EReset in
    Ok (put_p s' mp, tt) (putw_p s' o w).
Proof.
  intros mp w Hfl. destruct_records. cbn -[fl_wf] in Hfl.
  unfold MotionProcessor_Reset. crunch; finish.
Qed.

(* the handle Current() returns is the index of its slot; parseFrame fills that slot *)
Lemma current_handles : forall fl,
  fl_wf fl -> FrameLoop_frames fl = handles (FrameLoop_size fl) ->
  current 0 (ring_of fl) = FrameLoop_currentIndex fl.
Proof.
  intros fl (_ & _ & _ & Hc & _) Hfr. unfold current, ring_of, zth. cbn [slots cur].
  rewrite Hfr, handles_nth by lia. lia.
Qed.

Lemma slot_set_slot : forall mp w v,
  wf mp w ->
  slot (set_slot (FrameLoop_currentIndex (MotionProcessor_frameLoop mp)) v w)
       (FrameLoop_currentIndex (MotionProcessor_frameLoop mp)) = v.
Proof.
  intros mp w v ((_ & _ & _ & Hc & _) & _ & Hsl). unfold slot, set_slot. cbn [pw_slots].
  apply (upd_nth_same Z). lia.
Qed.

(* Process(): one event of the model - EBad when the parser rejects the frame *)
Lemma tie_Process : forall mp w,
  wf mp w -> (forall v, get_history (put (mring mp w) v) <> None) ->
  upto (MotionProcessor_Process pext mp w) mp
       (let '(s', o) :=
          pstep (cfg_of mp) (abs mp w)
                (if pw_bad w then EBad else EFrame (pw_id w) (pw_motion w) (pw_win w)) in
        (put_p s' (if pw_bad w then mp
                   else MotionProcessor_set_CurrentFrame
                          (wrap_u 32 (MotionProcessor_CurrentFrame mp + 1)) mp),
         if pw_bad w then 1 else 0,
         putw_p s' o (set_slot (FrameLoop_currentIndex (MotionProcessor_frameLoop mp))
                               (if pw_bad w then BAD_ID else pw_id w) w))).
Proof.
  intros mp w Hwf Hh.
  pose proof (fun v => slot_set_slot mp w v Hwf) as Hnth.
  pose proof (current_handles _ (proj1 Hwf) (proj1 (proj2 Hwf))) as Hcur.
  prep_wf Hwf Hfl Hfr Hsl.
  unfold mring in Hh. cbn -[get_history put] in Hh.
  unfold slot, set_slot in Hnth. cbn in Hnth. cbn -[current ring_of] in Hcur.
  unfold MotionProcessor_Process. crunch; finish_upto.
Qed.

(* ------------------------------------------------------------------ *)
(* the ring invariant along a run of the model                          *)

Definition rinv (sz : Z) (r : ring Z) : Prop := exists g, RInv Z 0 sz r g.

Lemma rinv_step : forall sz r o, rinv sz r -> rinv sz (rstep r o).
Proof. intros sz r o [g H]. eexists. apply RInv_step. exact H. Qed.

Lemma rinv_history : forall sz r, rinv sz r -> get_history r <> None.
Proof. intros sz r [g H]. rewrite (RInv_history Z 0 sz r g H). discriminate. Qed.

Lemma rinv_wf : forall sz r, rinv sz r ->
  size r = sz /\ 1 <= sz /\ Z.of_nat (List.length (slots r)) = sz /\
  0 <= cur r < sz /\ (oldest r = -1 \/ 0 <= oldest r < sz).
Proof.
  intros sz r [g H]. destruct (RInv_cur_range Z 0 sz r g H) as (Hc & _ & _).
  destruct H as (Hsz & Hpos & Hlen & _ & _ & _ & _ & Hold).
  repeat (split; [assumption|]).
  destruct (Z.of_nat (since_mark g) <? sz).
  - right. rewrite Hold. apply Z.mod_pos_bound. lia.
  - left. exact Hold.
Qed.

(* what an event does to the ring before the processor runs: parseFrame fills the slot *)
Definition pre_ring (e : ev) (r : ring Z) : ring Z :=
  match e with
  | EFrame id _ _ => put r id
  | EBad => put r BAD_ID
  | _ => r
  end.

Lemma stop_ring : forall m,
  m_ring (fst (stop_recording m)) = set_as_oldest (m_ring m) \/
  m_ring (fst (stop_recording m)) = m_ring m.
Proof.
  intros m. destruct_records. crunch; first [left; reflexivity | right; reflexivity].
Qed.

Lemma mprocess_ring : forall c m id motion win,
  m_ring (fst (mprocess c m id motion win)) = set_as_oldest (move (m_ring m)) \/
  m_ring (fst (mprocess c m id motion win)) = move (m_ring m).
Proof.
  intros c m id motion win. destruct_records. unfold mprocess.
  crunch; first [left; reflexivity | right; reflexivity].
Qed.

Lemma mstep_ring : forall c m e,
  let r0 := pre_ring e (m_ring m) in
  let r' := m_ring (fst (mstep c m e)) in
  size r' = size r0 /\ slots r' = slots r0 /\ (forall sz, rinv sz r0 -> rinv sz r').
Proof.
  intros c m e.
  assert (Hmark : forall sz r, rinv sz r -> rinv sz (set_as_oldest r))
    by (intros sz r H; exact (rinv_step sz r OMark H)).
  assert (Hmove : forall sz r, rinv sz r -> rinv sz (move r))
    by (intros sz r H; exact (rinv_step sz r OMove H)).
  destruct e as [id motion win | | |]; cbn [mstep pre_ring].
  - match goal with |- context [mprocess c ?m0 id motion win] =>
      destruct (mprocess_ring c m0 id motion win) as [E|E]; rewrite E end;
      cbn [m_ring]; repeat split; auto.
  - match goal with |- context [stop_recording ?m0] =>
      destruct (stop_ring m0) as [E|E]; rewrite E end;
      cbn [m_ring]; repeat split; auto.
  - destruct (stop_ring m) as [E|E]; rewrite E; repeat split; auto.
  - cbn [fst]. repeat split; auto.
Qed.

Lemma pstep_m : forall c s e, p_m (fst (pstep c s e)) = fst (mstep c (p_m s) e).
Proof.
  intros c s e. unfold pstep. destruct (mstep c (p_m s) e), (cstep c (p_c s) e), (tstep (p_t s) e).
  reflexivity.
Qed.

(* ------------------------------------------------------------------ *)
(* the simulation                                                       *)

Definition Inv (c : pcfg) (mp : MotionProcessor) (w : pworld) : Prop :=
  cfg_of mp = c /\
  FrameLoop_frames (MotionProcessor_frameLoop mp) = handles (p_size c) /\
  Z.of_nat (List.length (FrameLoop_orderedFrames (MotionProcessor_frameLoop mp))) = p_size c /\
  rinv (p_size c) (mring mp w).

Lemma Inv_wf : forall c mp w, Inv c mp w -> wf mp w.
Proof.
  intros c mp w (Hc & Hfr & Hord & Hr).
  destruct (rinv_wf _ _ Hr) as (Hsz & Hpos & Hlen & Hcur & Hold).
  assert (Hs : FrameLoop_size (MotionProcessor_frameLoop mp) = p_size c) by (rewrite <- Hc; reflexivity).
  unfold mring in *. cbn [size cur full oldest slots] in *.
  unfold wf, fl_wf. rewrite Hfr, handles_length, Hs. repeat split; try assumption; lia.
Qed.

(* writing a model state back and reading it again *)
Lemma Inv_put_p : forall c mp mp1 w1 s' o ord,
  cfg_of mp = c ->
  FrameLoop_frames (MotionProcessor_frameLoop mp) = handles (p_size c) ->
  cfg_of mp1 = cfg_of mp -> MotionProcessor_frameLoop mp1 = MotionProcessor_frameLoop mp ->
  Z.of_nat (List.length ord) = p_size c ->
  size (m_ring (p_m s')) = p_size c -> slots (m_ring (p_m s')) = pw_slots w1 ->
  rinv (p_size c) (m_ring (p_m s')) ->
  abs (set_ord ord (put_p s' mp1)) (putw_p s' o w1) = s' /\
  Inv c (set_ord ord (put_p s' mp1)) (putw_p s' o w1).
Proof.
  intros c mp mp1 w1 s' o ord Hc Hfr Hc1 Hfl1 Hord Hsz Hsl Hr.
  assert (Ha : abs (set_ord ord (put_p s' mp1)) (putw_p s' o w1) = s').
  { destruct s' as [[r rc fw wu tg fm] [cf fc] [ts tr tf ft]]. destruct r as [rs rcur rf ro rsl].
    cbn [p_m m_ring size slots] in Hsz, Hsl.
    assert (Hs1 : FrameLoop_size (MotionProcessor_frameLoop mp1) = p_size c)
      by (rewrite Hfl1, <- Hc; reflexivity).
    destruct mp1. cbn in Hs1.
    match goal with fl : FrameLoop |- _ => destruct fl end.
    cbn in Hs1. subst. reflexivity. }
  split; [exact Ha|].
  unfold Inv. replace (mring (set_ord ord (put_p s' mp1)) (putw_p s' o w1)) with (m_ring (p_m s'))
    by (rewrite <- Ha at 1; reflexivity).
  assert (Hst : cfg_of (set_ord ord (put_p s' mp1)) = cfg_of mp1 /\
                FrameLoop_frames (MotionProcessor_frameLoop (set_ord ord (put_p s' mp1))) =
                  FrameLoop_frames (MotionProcessor_frameLoop mp1) /\
                FrameLoop_orderedFrames (MotionProcessor_frameLoop (set_ord ord (put_p s' mp1))) = ord).
  { destruct mp1. repeat split. }
  destruct Hst as (E1 & E2 & E3). rewrite E1, E2, E3, Hc1, Hfl1.
  repeat split; assumption.
Qed.

Lemma set_ord_same : forall s mp,
  set_ord (FrameLoop_orderedFrames (MotionProcessor_frameLoop mp)) (put_p s mp) = put_p s mp.
Proof.
  intros s mp. destruct_records. unfold set_ord, put_p, put_t, put_c, put_m. cbn. reflexivity.
Qed.

Lemma src_step_sim : forall c mp w e,
  Inv c mp w ->
  exists mp' w',
    src_step (mp, w) e = ((mp', w'), snd (pstep c (abs mp w) e)) /\
    abs mp' w' = fst (pstep c (abs mp w) e) /\
    Inv c mp' w'.
Proof.
  intros c mp w e HI.
  pose proof (Inv_wf c mp w HI) as Hwf.
  destruct HI as (Hc & Hfr & Hord & Hr).
  pose proof (mstep_ring c (p_m (abs mp w)) e) as Hring.
  rewrite <- pstep_m in Hring. cbv zeta in Hring. destruct Hring as (Hsz & Hsl & Hri).
  assert (Hsize : size (mring mp w) = p_size c) by (rewrite <- Hc; reflexivity).
  assert (Hput : forall v, rinv (p_size c) (put (mring mp w) v))
    by (intros v; exact (rinv_step _ _ (OPut v) Hr)).
  destruct (pstep c (abs mp w) e) as [s' o] eqn:Hp. cbn [fst snd] in *.
  destruct e as [id motion win | | |]; cbn [src_step].
  - (* an accepted frame *)
    set (w0 := feed w id false motion win).
    destruct (tie_Process mp w0) as (ord & Hl & He).
    { exact Hwf. }
    { intros v. apply (rinv_history (p_size c)). exact (Hput v). }
    cbn [pw_bad pw_id pw_motion pw_win w0 feed] in He. rewrite Hc in He.
    change (abs mp w0) with (abs mp w) in He. rewrite Hp in He. cbv beta iota in He.
    rewrite He.
    destruct (Inv_put_p c mp
                (MotionProcessor_set_CurrentFrame (wrap_u 32 (MotionProcessor_CurrentFrame mp + 1)) mp)
                (set_slot (FrameLoop_currentIndex (MotionProcessor_frameLoop mp)) id w0)
                s' o ord) as (Ha & HI');
      try assumption; try reflexivity.
    { rewrite Hl. exact Hord. }
    { rewrite Hsz. exact Hsize. }
    { apply Hri. exact (Hput id). }
    eexists. eexists. split; [reflexivity|]. split; [exact Ha|exact HI'].
  - (* a frame the parser rejects *)
    set (w0 := feed w 0 true false false).
    destruct (tie_Process mp w0) as (ord & Hl & He).
    { exact Hwf. }
    { intros v. apply (rinv_history (p_size c)). exact (Hput v). }
    cbn [pw_bad pw_id pw_motion pw_win w0 feed] in He. rewrite Hc in He.
    change (abs mp w0) with (abs mp w) in He. rewrite Hp in He. cbv beta iota in He.
    rewrite He.
    destruct (Inv_put_p c mp mp
                (set_slot (FrameLoop_currentIndex (MotionProcessor_frameLoop mp)) BAD_ID w0)
                s' o ord) as (Ha & HI');
      try assumption; try reflexivity.
    { rewrite Hl. exact Hord. }
    { rewrite Hsz. exact Hsize. }
    { apply Hri. exact (Hput BAD_ID). }
    eexists. eexists. split; [reflexivity|]. split; [exact Ha|exact HI'].
  - (* Reset *)
    set (w0 := feed w 0 false false false).
    rewrite (tie_Reset mp w0 (proj1 Hwf)). rewrite Hc.
    change (abs mp w0) with (abs mp w). rewrite Hp.
    destruct (Inv_put_p c mp mp w0 s' o
                (FrameLoop_orderedFrames (MotionProcessor_frameLoop mp))) as (Ha & HI');
      try assumption; try reflexivity.
    { rewrite Hsz. exact Hsize. }
    { apply Hri. exact Hr. }
    rewrite set_ord_same in Ha, HI'.
    eexists. eexists. split; [reflexivity|]. split; [exact Ha|exact HI'].
  - (* a test recording is requested *)
    unfold pstep in Hp. cbn [mstep cstep tstep] in Hp. injection Hp as <- <-.
    eexists. eexists. split; [reflexivity|]. split.
    + destruct mp. reflexivity.
    + unfold Inv. destruct mp. repeat split; assumption.
Qed.

Lemma src_run_sim : forall c evs mp w,
  Inv c mp w -> src_run_from (mp, w) evs = prun c (abs mp w) evs.
Proof.
  intros c evs. induction evs as [|e evs IH]; intros mp w HI; [reflexivity|].
  cbn [src_run_from prun].
  destruct (src_step_sim c mp w e HI) as (mp' & w' & Hs & Ha & HI').
  rewrite Hs. destruct (pstep c (abs mp w) e) as [s' o]. cbn [fst snd] in Ha |- *.
  subst s'. f_equal. apply IH. exact HI'.
Qed.

Lemma Inv_init : forall c fm fc ft, cfg_ok c -> Inv c (mp_init c) (pw_init c fm fc ft).
Proof.
  intros c fm fc ft Hok. unfold cfg_ok in Hok. unfold Inv.
  split; [destruct c; reflexivity|]. split; [reflexivity|]. split.
  - cbn. rewrite repeat_length. lia.
  - exists (ghost0 Z). exact (RInv_init Z 0 (p_size c) 0 Hok).
Qed.

Theorem tie_processor :
  forall c fm fc ft evs, cfg_ok c ->
    src_run c fm fc ft evs = prun c (pinit c fm fc ft) evs.
Proof.
  intros c fm fc ft evs Hok. unfold src_run.
  rewrite (src_run_sim c evs _ _ (Inv_init c fm fc ft Hok)). reflexivity.
Qed.

Lemma all_processor_methods_translated : untranslated_MotionProcessor = [].
Proof. reflexivity. Qed.

Print Assumptions tie_processor.
