(* C06 for the throttled recorder model: transparency within budget, paired base calls,
   throttle-cut files hold at least the minimum length, one event per suppressed start / cut. *)
From Coq Require Import List ZArith Bool Arith Lia ZifyBool.
From TR Require Import model.Throttle model.ThrottleSpec proofs.ThrottleProofs.
Import ListNotations.
Open Scope Z_scope.

(* ------------------------------------------------------------------ *)
(* token bucket: invariant relative to the last clock reading [lo]     *)

Definition binv (b : bucket) (lo : Z) : Prop :=
  1 <= b_q b /\ 1 <= b_fi b /\ 0 <= b_avail b <= b_cap b /\
  b_latest b <= current_tick b lo /\ 0 <= lo.

Lemma tick_mono : forall b lo t, 1 <= b_fi b -> lo <= t -> current_tick b lo <= current_tick b t.
Proof.
  intros b lo t Hfi Hle. unfold current_tick. apply Z.quot_le_mono; lia.
Qed.

Lemma binv_mono : forall b lo t, binv b lo -> lo <= t -> binv b t.
Proof.
  unfold binv. intros b lo t (Hq & Hfi & Hav & Hl & Hlo) Hle.
  pose proof (tick_mono b lo t Hfi Hle). repeat split; lia.
Qed.

Lemma adjust_spec : forall b lo t,
    binv b lo -> lo <= t ->
    binv (adjust b (current_tick b t)) t /\ b_avail b <= b_avail (adjust b (current_tick b t)).
Proof.
  intros b lo t Hb Hle. pose proof (binv_mono b lo t Hb Hle) as Hb'.
  unfold binv in Hb'. destruct Hb' as (Hq & Hfi & Hav & Hl & Hlo).
  unfold adjust. destruct (b_avail b >=? b_cap b) eqn:Hfull.
  - split; [unfold binv; repeat split; lia | lia].
  - assert (Hfull' : b_avail b < b_cap b) by lia.
    assert (Hd : 0 <= (current_tick b t - b_latest b) * b_q b)
      by (apply Z.mul_nonneg_nonneg; lia).
    remember (current_tick b t) as tk eqn:Htk.
    destruct (b_avail b + (tk - b_latest b) * b_q b >? b_cap b) eqn:Hov.
    + unfold binv, current_tick in *. cbn [b_cap b_q b_fi b_avail b_latest]. subst tk.
      split; [repeat split; lia | lia].
    + assert (Hov' : b_avail b + (tk - b_latest b) * b_q b <= b_cap b) by lia.
      unfold binv, current_tick in *. cbn [b_cap b_q b_fi b_avail b_latest]. subst tk.
      split; [repeat split; lia | lia].
Qed.

Lemma available_spec : forall b lo t b1 av,
    binv b lo -> lo <= t -> available b t = (b1, av) ->
    binv b1 t /\ av = b_avail b1 /\ b_avail b <= av.
Proof.
  intros b lo t b1 av Hb Hle H. unfold available in H. inversion H; subst; clear H.
  destruct (adjust_spec b lo t Hb Hle) as [H1 H2].
  split; [exact H1 | split; [reflexivity | exact H2]].
Qed.

Lemma take1_spec : forall b lo t b2 k,
    binv b lo -> lo <= t -> take1 b t = (b2, k) ->
    binv b2 t /\
    ((k = 0 /\ b_avail b <= b_avail b2 /\ b_avail b2 <= 0) \/
     (k = 1 /\ b_avail b <= b_avail b2 + 1)).
Proof.
  intros b lo t b2 k Hb Hle H. unfold take1 in H.
  destruct (adjust_spec b lo t Hb Hle) as [H1 H2].
  remember (adjust b (current_tick b t)) as b1 eqn:Hb1. clear Hb1.
  destruct (b_avail b1 <=? 0) eqn:Hz; inversion H; subst; clear H.
  - apply Z.leb_le in Hz. split; [exact H1 | left; lia].
  - apply Z.leb_gt in Hz. split; [| right; cbn [b_avail]; lia].
    unfold binv, current_tick in *. cbn [b_cap b_q b_fi b_avail b_latest]. lia.
Qed.

(* ------------------------------------------------------------------ *)
(* shape of the recorder's helper operations                            *)

Lemma maybe_start_shape : forall s bg th t s1 o1 err,
    maybe_start s bg th t = (s1, o1, err) ->
    th_b s1 = fst (available (th_b s) t) /\ th_min s1 = th_min s /\
    ((o1 = [BStart bg th true] /\ err = true /\ th_rec s1 = th_rec s /\
      th_min s <= snd (available (th_b s) t)) \/
     (o1 = [BStart bg th false] /\ err = false /\ th_rec s1 = true /\
      th_min s <= snd (available (th_b s) t)) \/
     (o1 = [] /\ err = false /\ th_rec s1 = th_rec s)).
Proof.
  intros s bg th t s1 o1 err H. unfold maybe_start in H.
  destruct (available (th_b s) t) as [b1 av] eqn:Hav. cbn [fst snd].
  destruct (av >=? th_min s) eqn:Hge.
  - assert (Hge' : th_min s <= av) by lia.
    destruct (tpop (th_faults s)) as [failed f'] eqn:Hp.
    destruct failed; inversion H; subst; clear H; cbn [th_b th_min th_rec]; auto 10.
  - inversion H; subst; clear H; cbn [th_b th_min th_rec]; auto 10.
Qed.

Lemma maybe_start_spec : forall s bg th t lo s1 o1 err,
    binv (th_b s) lo -> lo <= t ->
    maybe_start s bg th t = (s1, o1, err) ->
    binv (th_b s1) t /\ th_min s1 = th_min s /\
    ((o1 = [BStart bg th true] /\ err = true /\ th_rec s1 = th_rec s) \/
     (o1 = [BStart bg th false] /\ err = false /\ th_rec s1 = true /\
      th_min s <= b_avail (th_b s1)) \/
     (o1 = [] /\ err = false /\ th_rec s1 = th_rec s)).
Proof.
  intros s bg th t lo s1 o1 err Hb Hle H.
  apply maybe_start_shape in H. destruct H as (Hb1 & Hmin & Hc).
  destruct (available (th_b s) t) as [b1 av] eqn:Hav. cbn [fst snd] in *.
  destruct (available_spec _ _ _ _ _ Hb Hle Hav) as (Hi & Hav' & Hmono).
  rewrite Hb1. split; [exact Hi|]. split; [exact Hmin|].
  destruct Hc as [(-> & -> & Hr & Hm) | [(-> & -> & Hr & Hm) | (-> & -> & Hr)]]; auto 10.
  right; left. repeat split; auto. lia.
Qed.

Lemma th_stop_shape : forall s s1 o1 err,
    th_stop s = (s1, o1, err) ->
    th_b s1 = th_b s /\ th_min s1 = th_min s /\ th_rec s1 = false /\
    ((th_rec s = true /\ o1 = [BStop err]) \/ (th_rec s = false /\ o1 = [])).
Proof.
  intros s s1 o1 err H. unfold th_stop in H. destruct (th_rec s) eqn:Hr.
  - destruct (tpop (th_faults s)) as [failed f'].
    inversion H; subst; clear H; cbn [th_b th_min th_rec]; auto 10.
  - inversion H; subst; clear H; auto 10.
Qed.

(* ------------------------------------------------------------------ *)
(* conforming automaton, one step at a time                             *)

Definition allowed (started : bool) (u : ucall) : bool :=
  match u with UCheck | UStart _ _ _ => negb started | _ => started end.

Definition next_started (started : bool) (u : ucall) (o : list tout) : bool :=
  match u with
  | UCheck => started
  | UStart _ _ _ => negb (ret_err o)
  | UWrite _ _ _ => started
  | UStop => false
  end.

Lemma conforming_cons : forall started u o r,
    conforming_from started ((u, o) :: r) =
    allowed started u && conforming_from (next_started started u o) r.
Proof. intros started u o r. destruct u; reflexivity. Qed.

(* ------------------------------------------------------------------ *)
(* main invariant and its preservation                                  *)

Definition Inv (minlen : Z) (s : thstate) (st : s06) (started : bool) (lo : Z) : Prop :=
  binv (th_b s) lo /\ th_min s = minlen /\ s06_open st = th_rec s /\ s06_ok st = true /\
  (th_rec s = true -> started = true /\ minlen <= s06_n st + b_avail (th_b s)).

Lemma step_inv : forall minlen s st started lo u rest s' o,
    Inv minlen s st started lo ->
    allowed started u = true ->
    sorted_from lo (readings u ++ rest) = true ->
    thstep s u = (s', o) ->
    S06e_step (u, o) = true /\
    exists lo', Inv minlen s' (s06_step minlen st (u, o)) (next_started started u o) lo' /\
                sorted_from lo' rest = true.
Proof.
  intros minlen s st started lo u rest s' o (Hb & Hmin & Hopen & Hok & Hrec) Hal Hso Hst.
  destruct u as [|bg th t1|id t1 t2|]; cbn [allowed next_started readings app sorted_from] in *.
  - (* UCheck *)
    unfold thstep in Hst. destruct (tpop (th_faults s)) as [failed f'].
    inversion Hst; subst; clear Hst. split; [reflexivity|].
    exists lo. split; [|exact Hso].
    unfold Inv, s06_step. cbn [fst snd fold_left s06_out th_b th_min th_rec]. auto.
  - (* UStart *)
    apply negb_true_iff in Hal. subst started.
    assert (Hr : th_rec s = false).
    { destruct (th_rec s); [destruct (Hrec eq_refl); discriminate | reflexivity]. }
    apply andb_true_iff in Hso. destruct Hso as [Hle Hso]. apply Z.leb_le in Hle.
    unfold thstep in Hst.
    destruct (maybe_start s bg th t1) as [[s1 o1] err] eqn:Hms.
    destruct (maybe_start_spec _ _ _ _ _ _ _ _ Hb Hle Hms) as (Hb1 & Hmin1 & Hc).
    destruct Hc as [(-> & -> & Hr1) | [(-> & -> & Hr1 & Hm) | (-> & -> & Hr1)]].
    + (* base start failed *)
      inversion Hst; subst; clear Hst. split; [reflexivity|].
      exists t1. split; [|exact Hso].
      unfold Inv, s06_step. cbn [fst snd fold_left s06_out app s06_open s06_ok s06_n negb].
      split; [exact Hb1|]. split; [congruence|]. split; [congruence|].
      split; [rewrite Hok, Hopen, Hr; reflexivity|]. intros Habs. congruence.
    + (* base start succeeded *)
      rewrite Hr1 in Hst. inversion Hst; subst; clear Hst. split; [reflexivity|].
      exists t1. split; [|exact Hso].
      unfold Inv, s06_step.
      cbn [fst snd fold_left s06_out app s06_open s06_ok s06_n negb th_b th_rec th_min].
      split; [exact Hb1|]. split; [congruence|]. split; [congruence|].
      split; [rewrite Hok, Hopen, Hr; reflexivity|]. intros _. split; [reflexivity|]. lia.
    + (* suppressed start *)
      rewrite Hr1, Hr in Hst. inversion Hst; subst; clear Hst. split; [reflexivity|].
      exists t1. split; [|exact Hso].
      unfold Inv, s06_step.
      cbn [fst snd fold_left s06_out app s06_open s06_ok s06_n negb th_b th_rec th_min].
      split; [exact Hb1|]. split; [congruence|]. split; [congruence|].
      split; [exact Hok|]. intros Habs. congruence.
  - (* UWrite *)
    subst started.
    apply andb_true_iff in Hso. destruct Hso as [Hle1 Hso]. apply Z.leb_le in Hle1.
    apply andb_true_iff in Hso. destruct Hso as [Hle2 Hso]. apply Z.leb_le in Hle2.
    unfold thstep in Hst. destruct (th_rec s) eqn:Hr; cbn [negb] in Hst.
    + (* already recording *)
      destruct (Hrec eq_refl) as [_ Hacc].
      destruct (take1 (th_b s) t1) as [b2 k] eqn:Htk.
      destruct (take1_spec _ _ _ _ _ Hb Hle1 Htk) as (Hb2 & Hk).
      apply (binv_mono _ _ t2) in Hb2; [|exact Hle2].
      cbn [th_faults th_rec th_min th_b th_bg th_thresh] in Hst.
      destruct Hk as [(-> & Hk1 & Hk2) | (-> & Hk1)].
      * (* cut *)
        change (0 >? 0) with false in Hst. cbv iota in Hst.
        match type of Hst with context [th_stop ?x] =>
          destruct (th_stop x) as [[s3 o3] serr] eqn:Hts end.
        apply th_stop_shape in Hts. cbn [th_b th_min th_rec] in Hts.
        destruct Hts as (Hb3 & Hmin3 & Hr3 & Hc).
        destruct Hc as [(_ & ->) | (Habs & _)]; [|congruence].
        inversion Hst; subst s' o; clear Hst. split; [reflexivity|].
        exists t2. split; [|exact Hso].
        unfold Inv, s06_step.
        cbn [fst snd fold_left s06_out app s06_open s06_ok s06_n negb orb].
        rewrite Hb3. split; [exact Hb2|]. split; [congruence|]. split; [congruence|].
        split; [|intros Habs; congruence].
        rewrite Hok, Hopen. cbn [andb]. apply Z.leb_le. lia.
      * (* forwarded *)
        change (1 >? 0) with true in Hst. cbv iota in Hst.
        destruct (tpop (th_faults s)) as [failed f'].
        inversion Hst; subst s' o; clear Hst. split; [reflexivity|].
        exists t2. split; [|exact Hso].
        unfold Inv, s06_step.
        cbn [fst snd fold_left s06_out app s06_open s06_ok s06_n negb orb th_b th_rec th_min].
        split; [exact Hb2|]. split; [congruence|]. split; [congruence|].
        split; [rewrite Hok, Hopen; reflexivity|]. intros _. split; [reflexivity|]. lia.
    + (* idle: try to restart with the remembered arguments *)
      destruct (maybe_start s (th_bg s) (th_thresh s) t1) as [[s1 o1] err] eqn:Hms.
      destruct (maybe_start_spec _ _ _ _ _ _ _ _ Hb Hle1 Hms) as (Hb1 & Hmin1 & Hc).
      destruct Hc as [(-> & -> & Hr1) | [(-> & -> & Hr1 & Hm) | (-> & -> & Hr1)]].
      * (* base start failed *)
        cbv iota in Hst. inversion Hst; subst s' o; clear Hst. split; [reflexivity|].
        exists t2. split; [|exact Hso].
        apply (binv_mono _ _ t2) in Hb1; [|exact Hle2].
        unfold Inv, s06_step.
        cbn [fst snd fold_left s06_out app s06_open s06_ok s06_n negb orb].
        split; [exact Hb1|]. split; [congruence|]. split; [congruence|].
        split; [rewrite Hok, Hopen; reflexivity|]. intros Habs. congruence.
      * (* restarted *)
        rewrite Hr1 in Hst. cbv iota in Hst. cbn [negb] in Hst.
        destruct (take1 (th_b s1) t2) as [b2 k] eqn:Htk.
        destruct (take1_spec _ _ _ _ _ Hb1 Hle2 Htk) as (Hb2 & Hk).
        cbn [th_faults th_rec th_min th_b th_bg th_thresh] in Hst.
        destruct Hk as [(-> & Hk1 & Hk2) | (-> & Hk1)].
        -- (* immediate cut (only possible when minlen <= 0) *)
           change (0 >? 0) with false in Hst. cbv iota in Hst.
           match type of Hst with context [th_stop ?x] =>
             destruct (th_stop x) as [[s3 o3] serr] eqn:Hts end.
           apply th_stop_shape in Hts. cbn [th_b th_min th_rec] in Hts.
           destruct Hts as (Hb3 & Hmin3 & Hr3 & Hc).
           destruct Hc as [(_ & ->) | (Habs & _)]; [|congruence].
           inversion Hst; subst s' o; clear Hst. split; [reflexivity|].
           exists t2. split; [|exact Hso].
           unfold Inv, s06_step.
           cbn [fst snd fold_left s06_out app s06_open s06_ok s06_n negb orb].
           rewrite Hb3. split; [exact Hb2|]. split; [congruence|]. split; [congruence|].
           split; [|intros Habs; congruence].
           rewrite Hok, Hopen. cbn [andb negb]. apply Z.leb_le. lia.
        -- (* forwarded *)
           change (1 >? 0) with true in Hst. cbv iota in Hst.
           destruct (tpop (th_faults s1)) as [failed f'].
           inversion Hst; subst s' o; clear Hst. split; [reflexivity|].
           exists t2. split; [|exact Hso].
           unfold Inv, s06_step.
           cbn [fst snd fold_left s06_out app s06_open s06_ok s06_n negb orb th_b th_rec th_min].
           split; [exact Hb2|]. split; [congruence|]. split; [congruence|].
           split; [rewrite Hok, Hopen; reflexivity|]. intros _. split; [reflexivity|]. lia.
      * (* still out of budget *)
        rewrite Hr1, Hr in Hst. cbv iota in Hst. cbn [negb] in Hst.
        inversion Hst; subst s' o; clear Hst. split; [reflexivity|].
        exists t2. split; [|exact Hso].
        apply (binv_mono _ _ t2) in Hb1; [|exact Hle2].
        unfold Inv, s06_step.
        cbn [fst snd fold_left s06_out app s06_open s06_ok s06_n negb orb].
        split; [exact Hb1|]. split; [congruence|]. split; [congruence|].
        split; [exact Hok|]. intros Habs. congruence.
  - (* UStop *)
    subst started. unfold thstep in Hst.
    destruct (th_stop s) as [[s1 o1] err] eqn:Hts.
    apply th_stop_shape in Hts. destruct Hts as (Hb1 & Hmin1 & Hr1 & Hc).
    inversion Hst; subst s' o; clear Hst.
    destruct Hc as [(Hr & ->) | (Hr & ->)].
    + split; [reflexivity|]. exists lo. split; [|exact Hso].
      unfold Inv, s06_step.
      cbn [fst snd fold_left s06_out app s06_open s06_ok s06_n negb orb].
      rewrite Hb1. split; [exact Hb|]. split; [congruence|]. split; [congruence|].
      split; [rewrite Hok, Hopen, Hr; reflexivity|]. intros Habs. congruence.
    + split; [reflexivity|]. exists lo. split; [|exact Hso].
      unfold Inv, s06_step.
      cbn [fst snd fold_left s06_out app s06_open s06_ok s06_n negb orb].
      rewrite Hb1. split; [exact Hb|]. split; [congruence|]. split; [congruence|].
      split; [exact Hok|]. intros Habs. congruence.
Qed.

(* ------------------------------------------------------------------ *)
(* (a): while nothing has been throttled, upstream and base recorder agree *)

Lemma step_a : forall s started u s' o,
    started = th_rec s ->
    allowed started u = true ->
    thstep s u = (s', o) ->
    has_throttled o = true \/
    (transparent_step (u, o) = true /\ next_started started u o = th_rec s').
Proof.
  intros s started u s' o -> Hal Hst.
  destruct u as [|bg th t1|id t1 t2|]; cbn [allowed next_started] in *.
  - unfold thstep in Hst. destruct (tpop (th_faults s)) as [failed f'].
    inversion Hst; subst; clear Hst. right. cbn [transparent_step th_rec].
    split; [apply eqb_reflx | reflexivity].
  - apply negb_true_iff in Hal. unfold thstep in Hst.
    destruct (maybe_start s bg th t1) as [[s1 o1] err] eqn:Hms.
    apply maybe_start_shape in Hms. destruct Hms as (_ & _ & Hc).
    destruct Hc as [(-> & -> & Hr1 & _) | [(-> & -> & Hr1 & _) | (-> & -> & Hr1)]].
    + inversion Hst; subst; clear Hst. right. cbn [transparent_step app].
      rewrite !Z.eqb_refl. split; [reflexivity|]. cbn. congruence.
    + rewrite Hr1 in Hst. inversion Hst; subst; clear Hst. right.
      cbn [transparent_step app th_rec]. rewrite !Z.eqb_refl. split; reflexivity.
    + rewrite Hr1, Hal in Hst. inversion Hst; subst; clear Hst. left. reflexivity.
  - unfold thstep in Hst. rewrite Hal in Hst. cbn [negb] in Hst. cbv iota in Hst.
    destruct (take1 (th_b s) t1) as [b2 k].
    cbn [th_faults th_rec th_min th_b th_bg th_thresh] in Hst.
    destruct (k >? 0).
    + destruct (tpop (th_faults s)) as [failed f'].
      inversion Hst; subst; clear Hst. right. cbn [transparent_step app th_rec].
      rewrite Z.eqb_refl, eqb_reflx. split; [reflexivity | congruence].
    + match type of Hst with context [th_stop ?x] =>
        destruct (th_stop x) as [[s3 o3] serr] end.
      inversion Hst; subst; clear Hst. left. reflexivity.
  - unfold thstep in Hst. destruct (th_stop s) as [[s1 o1] err] eqn:Hts.
    apply th_stop_shape in Hts. destruct Hts as (_ & _ & Hr1 & Hc).
    inversion Hst; subst; clear Hst.
    destruct Hc as [(_ & ->) | (Hr & _)]; [|congruence].
    right. cbn [transparent_step app]. rewrite eqb_reflx. split; [reflexivity | congruence].
Qed.

(* ------------------------------------------------------------------ *)
(* induction over the run                                               *)

Lemma run_a : forall us s started,
    started = th_rec s ->
    conforming_from started (combine us (thrun s us)) = true ->
    existsb (fun x => has_throttled (snd x)) (combine us (thrun s us))
    || forallb transparent_step (combine us (thrun s us)) = true.
Proof.
  induction us as [|u us IH]; intros s started Hs Hc; [reflexivity|].
  cbn [thrun] in *. destruct (thstep s u) as [s' o] eqn:Hst.
  cbn [combine existsb forallb snd] in *.
  rewrite conforming_cons in Hc. apply andb_true_iff in Hc. destruct Hc as [Hal Hc].
  destruct (step_a _ _ _ _ _ Hs Hal Hst) as [Ht | [Ht Hn]].
  - rewrite Ht. reflexivity.
  - rewrite Ht. specialize (IH s' _ Hn Hc).
    apply orb_true_iff in IH. destruct IH as [IH | IH]; rewrite IH.
    + rewrite orb_true_r. reflexivity.
    + cbn [andb]. apply orb_true_r.
Qed.

Lemma run_bde : forall minlen us s st started lo,
    Inv minlen s st started lo ->
    sorted_from lo (flat_map readings us) = true ->
    conforming_from started (combine us (thrun s us)) = true ->
    s06_ok (fold_left (s06_step minlen) (combine us (thrun s us)) st) = true /\
    forallb S06e_step (combine us (thrun s us)) = true.
Proof.
  induction us as [|u us IH]; intros s st started lo Hinv Hso Hc.
  - cbn. split; [|reflexivity]. destruct Hinv as (_ & _ & _ & Hok & _). exact Hok.
  - cbn [thrun flat_map] in *. destruct (thstep s u) as [s' o] eqn:Hst.
    cbn [combine fold_left forallb] in *.
    rewrite conforming_cons in Hc. apply andb_true_iff in Hc. destruct Hc as [Hal Hc].
    destruct (step_inv _ _ _ _ _ _ _ _ _ Hinv Hal Hso Hst) as (He & lo' & Hinv' & Hso').
    destruct (IH _ _ _ _ Hinv' Hso' Hc) as [H1 H2].
    rewrite He, H2. split; [exact H1 | reflexivity].
Qed.

(* (f): the remembered pair is the latest successful upstream start's, and every base start uses it *)
Lemma maybe_start_args : forall s bg th t s1 o1 err,
    maybe_start s bg th t = (s1, o1, err) ->
    bstart_args_ok bg th o1 = true /\ th_bg s1 = th_bg s /\ th_thresh s1 = th_thresh s.
Proof.
  intros s bg th t s1 o1 err H. unfold maybe_start in H.
  destruct (available (th_b s) t) as [b1 av].
  destruct (av >=? th_min s).
  - destruct (tpop (th_faults s)) as [failed f']. destruct failed; inversion H; subst; clear H;
      cbn [bstart_args_ok forallb th_bg th_thresh]; rewrite !Z.eqb_refl; auto.
  - inversion H; subst; clear H. cbn. auto.
Qed.

Lemma bstart_args_app : forall bg th a b,
    bstart_args_ok bg th (a ++ b) = bstart_args_ok bg th a && bstart_args_ok bg th b.
Proof. intros. unfold bstart_args_ok. apply forallb_app. Qed.

Lemma th_stop_args : forall s s1 o1 err bg th,
    th_stop s = (s1, o1, err) ->
    bstart_args_ok bg th o1 = true /\ th_bg s1 = th_bg s /\ th_thresh s1 = th_thresh s.
Proof.
  intros s s1 o1 err bg th H. unfold th_stop in H. destruct (th_rec s).
  - destruct (tpop (th_faults s)) as [failed f']. inversion H; subst. cbn. auto.
  - inversion H; subst. cbn. auto.
Qed.

Lemma ret_err_app_false : forall o, ret_err o = false -> ret_err (o ++ [Ret false]) = false.
Proof. intros o H. unfold ret_err in *. rewrite existsb_app, H. reflexivity. Qed.

Lemma ret_err_app_true : forall o, ret_err (o ++ [Ret true]) = true.
Proof. intros o. unfold ret_err. rewrite existsb_app. cbn. apply orb_true_r. Qed.

Lemma maybe_start_no_ret : forall s bg th t s1 o1 err,
    maybe_start s bg th t = (s1, o1, err) -> ret_err o1 = false.
Proof.
  intros s bg th t s1 o1 err H. unfold maybe_start in H.
  destruct (available (th_b s) t) as [b1 av]. destruct (av >=? th_min s).
  - destruct (tpop (th_faults s)) as [failed f']. destruct failed; inversion H; reflexivity.
  - inversion H; reflexivity.
Qed.

Ltac fin_f :=
  unfold bstart_args_ok in *;
  repeat (rewrite ?forallb_app; cbn [forallb app andb th_bg th_thresh] in * );
  repeat match goal with H : forallb _ _ = true |- _ => rewrite H; clear H end;
  cbn [andb];
  repeat match goal with
         | H : th_bg _ = _ |- _ => rewrite H; clear H
         | H : th_thresh _ = _ |- _ => rewrite H; clear H
         end;
  auto.

Lemma step_f : forall s u s' o,
    thstep s u = (s', o) ->
    match u with
    | UStart bg th _ => bstart_args_ok bg th o = true /\
                        (th_bg s', th_thresh s') = (if ret_err o then (th_bg s, th_thresh s) else (bg, th))
    | _ => bstart_args_ok (th_bg s) (th_thresh s) o = true /\ (th_bg s', th_thresh s') = (th_bg s, th_thresh s)
    end.
Proof.
  intros s u s' o H. destruct u as [|bg th t1|id t1 t2|]; cbn [thstep] in H.
  - destruct (tpop (th_faults s)) as [failed f']. inversion H; subst. cbn. auto.
  - destruct (maybe_start s bg th t1) as [[s1 o1] err] eqn:Hm.
    pose proof (maybe_start_no_ret _ _ _ _ _ _ _ Hm) as Hnr.
    destruct (maybe_start_args _ _ _ _ _ _ _ Hm) as (Ha & Hb & Ht).
    destruct err; inversion H; subst; clear H.
    + rewrite ret_err_app_true. fin_f.
    + assert (Hr : ret_err (o1 ++ (if th_rec s1 then [] else [Throttled]) ++ [Ret false]) = false).
      { unfold ret_err in *. rewrite !existsb_app, Hnr. destruct (th_rec s1); reflexivity. }
      rewrite Hr. destruct (th_rec s1); fin_f.
  - destruct (negb (th_rec s)) eqn:Hrec.
    + destruct (maybe_start s (th_bg s) (th_thresh s) t1) as [[s1 o1] err] eqn:Hm.
      destruct (maybe_start_args _ _ _ _ _ _ _ Hm) as (Ha & Hb & Ht).
      destruct err.
      * inversion H; subst. fin_f.
      * destruct (negb (th_rec s1)) eqn:Hr1.
        -- inversion H; subst. fin_f.
        -- destruct (take1 (th_b s1) t2) as [b2 k]. cbn [th_rec th_min th_bg th_thresh th_faults th_b] in H.
           destruct (k >? 0).
           ++ destruct (tpop (th_faults s1)) as [failed f']. inversion H; subst. fin_f.
           ++ destruct (th_stop (mkTh b2 (th_rec s1) (th_min s1) (th_bg s1) (th_thresh s1) (th_faults s1))) as [[s3 o3] serr] eqn:Hs.
              destruct (th_stop_args _ _ _ _ (th_bg s) (th_thresh s) Hs) as (Hc & Hd & He).
              inversion H; subst. fin_f.
    + destruct (take1 (th_b s) t1) as [b2 k]. cbn [th_rec th_min th_bg th_thresh th_faults th_b negb] in H.
      destruct (k >? 0).
      * destruct (tpop (th_faults s)) as [failed f']. inversion H; subst. fin_f.
      * destruct (th_stop (mkTh b2 (th_rec s) (th_min s) (th_bg s) (th_thresh s) (th_faults s))) as [[s3 o3] serr] eqn:Hs.
        destruct (th_stop_args _ _ _ _ (th_bg s) (th_thresh s) Hs) as (Hc & Hd & He).
        inversion H; subst. fin_f.
  - destruct (th_stop s) as [[s1 o1] err] eqn:Hs.
    destruct (th_stop_args _ _ _ _ (th_bg s) (th_thresh s) Hs) as (Hc & Hd & He).
    inversion H; subst. fin_f.
Qed.

Lemma run_f : forall us s,
    S06f_from (th_bg s, th_thresh s) (combine us (thrun s us)) = true.
Proof.
  induction us as [|u us IH]; intros s; [reflexivity|].
  cbn [thrun]. destruct (thstep s u) as [s' o] eqn:Hst. cbn [combine S06f_from].
  pose proof (step_f _ _ _ _ Hst) as Hf.
  destruct u as [|bg th t1|id t1 t2|]; destruct Hf as [Ha Hb]; cbn [fst snd]; rewrite Ha; cbn [andb];
    rewrite <- Hb; apply IH.
Qed.

(* C06: conforming upstream sequences, non-decreasing clock, base start/write/stop failing anywhere *)
Theorem S06_holds : forall cap q fi minlen faults us,
    1 <= cap -> 1 <= q -> 1 <= fi ->
    monotone us = true ->
    conforming (thsteps cap q fi minlen faults us) = true ->
    S06 minlen (thsteps cap q fi minlen faults us) = true.
Proof.
  intros cap q fi minlen faults us Hcap Hq Hfi Hmono Hconf.
  unfold thsteps, conforming, monotone, S06, S06a, S06bd, S06e, S06f in *.
  assert (Hinv : Inv minlen (th_init cap q fi minlen faults) (mk06 false 0 true) false 0).
  { unfold Inv, th_init, bucket_new, binv, current_tick.
    cbn [th_b th_min th_rec s06_open s06_ok s06_n b_cap b_q b_fi b_avail b_latest].
    rewrite Z.quot_0_l by lia.
    repeat split; try lia; discriminate. }
  destruct (run_bde _ _ _ _ _ _ Hinv Hmono Hconf) as [Hbd He].
  rewrite (run_a us (th_init cap q fi minlen faults) false eq_refl Hconf), Hbd, He.
  exact (run_f us (th_init cap q fi minlen faults)).
Qed.
