(* Source ties for throttle/throttled_recorder.go and loglimiter/loglimiter.go.

   coq/translated/ThrottledRecorder.v and coq/translated/LogLimiter.v are regenerated from the Go
   sources on every run; model/ThrExt.v gives their external calls (token bucket, wrapped
   recorder, listener, clock, log.Print) the meaning the hand-written models assume.
   The theorems: on every call sequence / message history the translated code produces
   exactly the outputs of the hand-written models model/Throttle.v (C05, C06) and
   model/LogLimiter.v (C20). *)
From Coq Require Import List ZArith Bool String Lia.
From TR Require Import model.GoSem model.Throttle model.LogLimiter model.ThrExt
     translated.ThrottledRecorder translated.LogLimiter.
Import ListNotations.
Open Scope Z_scope.

(* ------------------------------------------------------------------ *)
(* generic automation                                                   *)

(* the translator's error idiom: err != nil on a scripted result *)
Lemma bool_to_z_eqb0 : forall f, (bool_to_z f =? 0) = negb f.
Proof. destruct f; reflexivity. Qed.
Lemma z_to_bool_to_z : forall f, z_to_bool (bool_to_z f) = f.
Proof. destruct f; reflexivity. Qed.

(* String.eqb on closed strings (the names of external calls) *)
Ltac eval_streqb :=
  repeat match goal with
  | |- context [String.eqb ?a ?b] =>
    let v := eval vm_compute in (String.eqb a b) in
    lazymatch v with true => idtac | false => idtac end;
    change (String.eqb a b) with v
  end.

(* everything that may be unfolded / computed: monad, handlers, translated code, setters,
   record projections, comparisons of closed strings.  Z arithmetic, the bucket operations
   and tpop are NOT in the list, so they stay folded. *)
Ltac go_red :=
  cbv beta iota zeta delta
      [bind ret call_ext panic lift_opt fst snd
       text base_call next_reading tw_emit with_clock ret_of
       tw_b tw_clock tw_take tw_faults tw_out
       lext lw_now lw_printed
       ThrottledRecorder_CheckCanRecord ThrottledRecorder_maybeStartRecording
       ThrottledRecorder_StartRecording ThrottledRecorder_StopRecording
       ThrottledRecorder_WriteFrame
       ThrottledRecorder_recording ThrottledRecorder_minRecordingLength
       ThrottledRecorder_tempThresh ThrottledRecorder_backgroundFrame
       ThrottledRecorder_set_recording ThrottledRecorder_set_minRecordingLength
       ThrottledRecorder_set_tempThresh ThrottledRecorder_set_backgroundFrame
       LogLimiter_Print LogLimiter_interval LogLimiter_previousEntry LogLimiter_previousTime
       LogLimiter_set_interval LogLimiter_set_previousEntry LogLimiter_set_previousTime
       th_b th_rec th_min th_bg th_thresh th_faults
       prev_entry prev_time];
  eval_streqb;
  cbv beta iota;
  rewrite ?bool_to_z_eqb0, ?z_to_bool_to_z, ?Bool.negb_involutive;
  cbn [negb app].

(* destruct an innermost scrutinee of the goal *)
Ltac break_one :=
  match goal with
  | |- context [match ?x with _ => _ end] =>
    lazymatch x with
    | context [match _ with _ => _ end] => fail
    | _ => destruct x eqn:?
    end
  end.

Ltac inv_pairs :=
  repeat match goal with
  | H : (_, _) = (_, _) |- _ => inversion H; clear H; subst
  end.

(* contradictory Z comparisons among the hypotheses (the same test written two ways) *)
Ltac zbool_contra :=
  exfalso;
  repeat match goal with
  | H : (_ >=? _) = _ |- _ => rewrite Z.geb_leb in H
  | H : (_ >? _) = _ |- _ => rewrite Z.gtb_ltb in H
  | H : (_ <=? _) = true |- _ => apply Z.leb_le in H
  | H : (_ <=? _) = false |- _ => apply Z.leb_gt in H
  | H : (_ <? _) = true |- _ => apply Z.ltb_lt in H
  | H : (_ <? _) = false |- _ => apply Z.ltb_ge in H
  | H : (_ =? _) = true |- _ => apply Z.eqb_eq in H
  | H : (_ =? _) = false |- _ => apply Z.eqb_neq in H
  end;
  lia.

Ltac go_crush fin :=
  go_red;
  repeat (break_one; inv_pairs; go_red);
  try discriminate; try (solve [zbool_contra]); fin.

(* ------------------------------------------------------------------ *)
(* throttled recorder                                                   *)

(* simulation relation; tw_clock / tw_out are reset at every call and tw_take is written
   before it is read, so they are unconstrained *)
Definition thR (tw : ThrottledRecorder * tworld) (s : thstate) : Prop :=
  tw_b (snd tw) = th_b s /\
  ThrottledRecorder_recording (fst tw) = th_rec s /\
  ThrottledRecorder_minRecordingLength (fst tw) = th_min s /\
  ThrottledRecorder_backgroundFrame (fst tw) = th_bg s /\
  ThrottledRecorder_tempThresh (fst tw) = th_thresh s /\
  tw_faults (snd tw) = th_faults s.

Ltac thR_intro :=
  match goal with
  | H : thR (?th, ?w) ?s |- _ =>
    destruct th as [rc mn tt bf], w as [wb wc wt wf wo], s as [sb sr sm sg st sf];
    unfold thR in H;
    cbn [fst snd tw_b tw_faults tw_clock tw_take tw_out
         ThrottledRecorder_recording ThrottledRecorder_minRecordingLength
         ThrottledRecorder_tempThresh ThrottledRecorder_backgroundFrame
         th_b th_rec th_min th_bg th_thresh th_faults] in *;
    decompose [and] H; clear H; subst
  end.

Ltac thR_fin :=
  unfold thR; cbn [fst snd]; go_red; repeat split; try reflexivity; try congruence.

Lemma tie_maybeStart : forall th w s bg thresh t c,
  thR (th, w) s -> tw_clock w = t :: c ->
  let '(s', o, e) := maybe_start s bg thresh t in
  match ThrottledRecorder_maybeStartRecording text th bg thresh w with
  | Ok (th', z) w' => thR (th', w') s' /\ tw_out w' = tw_out w ++ o /\ z = bool_to_z e
                      /\ tw_clock w' = c /\ tw_take w' = tw_take w
  | Panicked _ => False
  end.
Proof.
  intros th w s bg thresh t c H Hc. thR_intro. subst. unfold maybe_start.
  go_crush ltac:(rewrite ?app_nil_r; thR_fin).
Qed.

Lemma tie_stop : forall th w s,
  thR (th, w) s ->
  let '(s', o, e) := th_stop s in
  match ThrottledRecorder_StopRecording text th w with
  | Ok (th', z) w' => thR (th', w') s' /\ tw_out w' = tw_out w ++ o /\ z = bool_to_z e
  | Panicked _ => False
  end.
Proof.
  intros th w s H. thR_intro. unfold th_stop.
  go_crush ltac:(rewrite ?app_nil_r; thR_fin).
Qed.

(* the four exported methods, each against its case of [thstep] *)
Definition step_ok (r : (ThrottledRecorder * tworld) * list tout) (r' : thstate * list tout) : Prop :=
  thR (fst r) (fst r') /\ snd r = snd r'.

Ltac meth_tie :=
  intros;
  thR_intro;
  unfold step_ok, src_thstep, thstep, maybe_start, th_stop;
  go_crush ltac:(rewrite ?app_nil_r; thR_fin).

Lemma tie_CheckCanRecord : forall th w s,
  thR (th, w) s ->
  step_ok (ret_of (ThrottledRecorder_CheckCanRecord text th (with_clock w [])) th) (thstep s UCheck).
Proof. meth_tie. Qed.

Lemma tie_StartRecording : forall th w s bg thresh t1,
  thR (th, w) s ->
  step_ok (ret_of (ThrottledRecorder_StartRecording text th bg thresh (with_clock w [t1])) th)
          (thstep s (UStart bg thresh t1)).
Proof. meth_tie. Qed.

Lemma tie_WriteFrame : forall th w s id t1 t2,
  thR (th, w) s ->
  step_ok (ret_of (ThrottledRecorder_WriteFrame text th id (with_clock w [t1; t2])) th)
          (thstep s (UWrite id t1 t2)).
Proof. meth_tie. Qed.

Lemma tie_StopRecording : forall th w s,
  thR (th, w) s ->
  step_ok (ret_of (ThrottledRecorder_StopRecording text th (with_clock w [])) th) (thstep s UStop).
Proof. meth_tie. Qed.

Lemma tie_thstep : forall tw s u,
  thR tw s -> step_ok (src_thstep tw u) (thstep s u).
Proof.
  intros [th w] s u H.
  destruct u; cbn [src_thstep];
    [ apply tie_CheckCanRecord | apply tie_StartRecording
    | apply tie_WriteFrame | apply tie_StopRecording ]; exact H.
Qed.

Lemma tie_thrun_from : forall us tw s,
  thR tw s -> src_thrun_from tw us = thrun s us.
Proof.
  induction us as [|u us IH]; intros tw s H; [reflexivity|].
  cbn [src_thrun_from thrun].
  pose proof (tie_thstep tw s u H) as Hs.
  destruct (src_thstep tw u) as [tw' o], (thstep s u) as [s' o'].
  destruct Hs as [HR Ho]. cbn [fst snd] in HR, Ho. subst o'. f_equal. apply IH, HR.
Qed.

Theorem tie_throttle :
  forall cap q fi minlen faults us,
    src_thrun cap q fi minlen faults us = thrun (th_init cap q fi minlen faults) us.
Proof.
  intros. unfold src_thrun. apply tie_thrun_from.
  unfold thR, thr_init, th_init; cbn; repeat split.
Qed.

(* ------------------------------------------------------------------ *)
(* log limiter                                                          *)

(* package time's saturating Sub, as translated and as modelled *)
Lemma go_time_sub_sat_sub : forall a b, go_time_sub a b = sat_sub a b.
Proof.
  intros a b. unfold go_time_sub, sat_sub, MAX_DUR, MIN_DUR, min_duration, max_duration.
  change (2 ^ 63) with 9223372036854775808.
  cbv zeta.
  destruct (Z.gtb_spec (a - b) 9223372036854775807);
  destruct (Z.ltb_spec (a - b) (-9223372036854775808)); lia.
Qed.

Lemma enc_eqb : forall (enc : Z -> string), (forall a b, enc a = enc b -> a = b) ->
  forall a b, String.eqb (enc a) (enc b) = (a =? b).
Proof.
  intros enc inj a b. destruct (Z.eqb_spec a b) as [->|ne].
  - apply String.eqb_refl.
  - apply String.eqb_neq. intro e. apply ne, inj, e.
Qed.

Definition lR (enc : Z -> string) (interval : Z) (l : LogLimiter) (s : lstate) : Prop :=
  LogLimiter_interval l = interval /\
  LogLimiter_previousEntry l = enc (prev_entry s) /\
  LogLimiter_previousTime l = prev_time s.

Lemma tie_Print : forall (enc : Z -> string), (forall a b, enc a = enc b -> a = b) ->
  forall interval l s m t,
  lR enc interval l s ->
  lR enc interval (fst (src_lstep enc l (m, t))) (fst (lstep interval s (m, t))) /\
  snd (lstep interval s (m, t)) = (match snd (src_lstep enc l (m, t)) with [] => false | _ => true end) /\
  (snd (src_lstep enc l (m, t)) = [] \/ snd (src_lstep enc l (m, t)) = [enc m]).
Proof.
  intros enc inj interval l s m t H.
  destruct l as [li le lt], s as [pe pt]. unfold lR in H.
  cbn [LogLimiter_interval LogLimiter_previousEntry LogLimiter_previousTime prev_entry prev_time] in H.
  decompose [and] H; clear H; subst.
  unfold src_lstep, lstep, lR. go_red.
  rewrite ?go_time_sub_sat_sub, ?(enc_eqb enc inj).
  repeat (break_one; inv_pairs; go_red); try discriminate;
    cbn [fst snd LogLimiter_interval LogLimiter_previousEntry LogLimiter_previousTime prev_entry prev_time];
    auto.
Qed.

Lemma tie_lrun : forall (enc : Z -> string), (forall a b, enc a = enc b -> a = b) ->
  forall interval h l s,
  lR enc interval l s ->
  map (fun o => match o with [] => false | _ => true end) (src_lrun enc l h) = lrun interval s h
  /\ Forall2 (fun o mt => o = [] \/ o = [enc (fst mt)]) (src_lrun enc l h) h.
Proof.
  intros enc inj interval h. induction h as [|[m t] h IH]; intros l s H.
  - split; [reflexivity | constructor].
  - cbn [src_lrun lrun].
    destruct (tie_Print enc inj interval l s m t H) as (HR & Hb & Ho).
    destruct (src_lstep enc l (m, t)) as [l' o], (lstep interval s (m, t)) as [s' b].
    cbn [fst snd] in HR, Hb, Ho.
    destruct (IH l' s' HR) as [IH1 IH2].
    split.
    + cbn [map]. rewrite IH1, Hb. reflexivity.
    + constructor; [exact Ho | exact IH2].
Qed.

(* Messages are strings in the Go code and integers in the model: any injective naming of
   the model's messages that maps 0 to the empty string (previousEntry's zero value). *)
Theorem tie_loglimiter :
  forall (enc : Z -> string), (forall a b, enc a = enc b -> a = b) -> enc 0 = ""%string ->
  forall interval h,
    map (fun o => match o with [] => false | _ => true end) (src_lrun enc (ll_init interval) h)
      = lrun interval linit h
    /\ (* a printed line is the message itself, printed once *)
    Forall2 (fun o mt => o = [] \/ o = [enc (fst mt)]) (src_lrun enc (ll_init interval) h) h.
Proof.
  intros enc inj e0 interval h. apply tie_lrun; [exact inj|].
  unfold lR, ll_init, linit; cbn. rewrite e0. repeat split.
Qed.

Lemma all_throttle_methods_translated : untranslated_ThrottledRecorder = [].
Proof. reflexivity. Qed.
Lemma all_loglimiter_methods_translated : untranslated_LogLimiter = [].
Proof. reflexivity. Qed.
