(* Source tie for cmd/thermal-writer/bufferedfile.go: the translated file object
   (coq/translated/BufferedFile.v, regenerated from the Go source on every run), run in the outside
   world of model/BufExt.v (one os.File with all-or-nothing writes and a fault script, one
   bufio.Writer as the standard library defines it), IS the io.WriteCloser that model/RawExt.v
   assumes for the CPTR builder - seen through [accepted] (bytes on disk ++ bytes still buffered):
     - newBufferedFile creates an empty file and an empty 32 MiB buffer, or returns the error of
       os.Create and creates nothing;
     - Write(p) returns (n, e): exactly the first n bytes of p are accepted, after everything
       accepted before; e = 0 -> n = len p; the disk only ever grows by appending and is at all
       times a prefix of what has been accepted (no byte reaches the file out of order, twice, or
       from anywhere else) - with or without write faults, buffer flushes in the middle included;
     - Close returning nil -> the file holds exactly everything accepted and is closed; a failing
       flush is returned and the file is then NOT closed (observation: the descriptor is left open);
     - a whole life (create, Write of every chunk, Close) without faults: the file holds the
       concatenation of the chunks, for every list of chunks of any sizes; with faults: a prefix.
   All Qed, no axioms. *)
From Coq Require Import List ZArith Bool String Arith Lia.
From Coq Require Import ZifyBool ZifyNat.
From TR Require Import model.GoSem model.Writer translated.BufferedFile model.BufExt.
Import ListNotations.
Open Scope Z_scope.

Lemma all_BufferedFile_translated : untranslated_BufferedFile = [].
Proof. reflexivity. Qed.

(* ---------- lists ---------- *)
Lemma blen_app a b : blen (a ++ b) = blen a + blen b.
Proof. unfold blen. rewrite app_length. lia. Qed.

Lemma blen_nonneg a : 0 <= blen a.
Proof. unfold blen. lia. Qed.

Lemma blen_zero a : blen a = 0 -> a = [].
Proof. unfold blen. destruct a; cbn; [reflexivity | lia]. Qed.

Lemma firstn_blen (p : bytes) : firstn (Z.to_nat (blen p)) p = p.
Proof. unfold blen. rewrite Nat2Z.id. apply firstn_all. Qed.

Lemma blen_firstn (p : bytes) n : 0 <= n <= blen p -> blen (firstn (Z.to_nat n) p) = n.
Proof. unfold blen. intros H. rewrite firstn_length. lia. Qed.

Lemma blen_skipn (p : bytes) n : 0 <= n <= blen p -> blen (skipn (Z.to_nat n) p) = blen p - n.
Proof. unfold blen. intros H. rewrite skipn_length. lia. Qed.

Ltac ext_tac :=
  first [ congruence
        | rewrite ?app_nil_r; congruence
        | repeat match goal with H : bw_disk _ = _ |- _ => rewrite H; clear H end;
          rewrite <- ?app_assoc, ?app_nil_r; reflexivity ].

(* ---------- the state the theorems are about ---------- *)
(* a file object in use: created, writer made, no call outside the interface so far, the buffer
   within its size *)
Definition live (w : bworld) : Prop :=
  bw_stage w = 2 /\ bw_bad w = false /\ 0 <= bw_size w /\ blen (bw_buf w) <= bw_size w.

(* what one step may change: the disk grows by appending; everything else about the object stays *)
Definition same_object (w w' : bworld) : Prop :=
  bw_bytes w' = bw_bytes w /\ bw_size w' = bw_size w /\ (exists d, bw_disk w' = bw_disk w ++ d).

Lemma same_object_refl w : same_object w w.
Proof. repeat split. exists []. ext_tac. Qed.

Lemma same_object_trans a b c : same_object a b -> same_object b c -> same_object a c.
Proof.
  intros (H1 & H2 & d1 & H3) (H4 & H5 & d2 & H6). repeat split; try congruence.
  exists (d1 ++ d2). rewrite H6, H3. symmetry. apply app_assoc.
Qed.

Ltac proj := cbn [bw_disk bw_buf bw_size bw_err bw_stage bw_bad bw_closed bw_faults bw_bytes bw_pending
  set_buf set_disk set_err set_faults set_pending set_closed set_stage set_size set_bad] in *.
Ltac fin :=
  proj;
  first [ lia | congruence | reflexivity | apply same_object_refl
        | (exists []; rewrite app_nil_r; first [reflexivity | congruence])
        | (eexists; repeat match goal with H : bw_disk _ = _ |- _ => rewrite H; clear H end; rewrite <- ?app_assoc; reflexivity)
        | (repeat match goal with H : bw_buf _ = _ |- _ => rewrite H; clear H end;
           repeat match goal with H : bw_size _ = _ |- _ => rewrite H; clear H end;
           cbn; rewrite ?blen_app, ?blen_firstn by lia; cbn; lia)
        | (intros; split; first [lia | congruence])
        | (intros; first [lia | congruence]) ].

(* ---------- the library functions of model/BufExt.v ---------- *)
Lemma file_write_spec w b e w' :
  file_write w b = (e, w') ->
  (e = 0 /\ bw_disk w' = bw_disk w ++ b \/ e <> 0 /\ bw_disk w' = bw_disk w) /\
  bw_stage w' = bw_stage w /\ bw_bad w' = bw_bad w /\ bw_buf w' = bw_buf w /\ bw_size w' = bw_size w /\
  bw_err w' = bw_err w /\ bw_bytes w' = bw_bytes w /\ bw_closed w' = bw_closed w /\
  bw_faults w' = tl (bw_faults w) /\ (bw_faults w = [] -> bw_closed w = false -> e = 0).
Proof.
  unfold file_write. intros H.
  destruct (hd false (bw_faults w) || bw_closed w) eqn:Hf; inversion H; subst; cbn.
  - repeat split; auto. right. split; [lia | reflexivity].
    intros Hn Hc. rewrite Hn, Hc in Hf. discriminate.
  - repeat split; auto.
Qed.

Ltac nofault :=
  intros;
  repeat match goal with
  | Hn : bw_faults ?x = [], Hc : bw_closed ?x = false, Hq : bw_faults ?x = [] -> bw_closed ?x = false -> _ |- _ => specialize (Hq Hn Hc)
  | Hfl : bw_faults ?y = tl (bw_faults ?x), Hn : bw_faults ?x = [] |- _ => rewrite Hn in Hfl; cbn in Hfl
  | Hcl : bw_closed ?y = bw_closed ?x, Hc : bw_closed ?x = false |- _ => rewrite Hc in Hcl
  end; first [lia | congruence | assumption].
Ltac fin2 := first [fin | nofault].

Lemma bufio_write_spec w p n e w' :
  0 <= bw_size w -> blen (bw_buf w) <= bw_size w ->
  bufio_write w p = (n, e, w') ->
  accepted w' = accepted w ++ firstn (Z.to_nat n) p /\
  (e = 0 -> n = blen p /\ bw_err w' = bw_err w) /\ (e <> 0 -> bw_err w' <> 0) /\ 0 <= n <= blen p /\
  same_object w w' /\ blen (bw_buf w') <= bw_size w' /\
  bw_stage w' = bw_stage w /\ bw_bad w' = bw_bad w /\ bw_closed w' = bw_closed w /\
  (bw_faults w = [] -> bw_closed w = false -> bw_err w = 0 -> e = 0 /\ bw_faults w' = []).
Proof.
  intros Hs Hb. unfold bufio_write.
  pose proof (blen_nonneg p) as Hp. pose proof (blen_nonneg (bw_buf w)) as Hbn.
  destruct (bw_err w =? 0) eqn:He; cbn [negb].
  2:{ intros H; inversion H; subst. cbn. rewrite app_nil_r. repeat split; fin2. }
  destruct (blen p <=? bw_size w - blen (bw_buf w)) eqn:Hfit.
  { intros H; inversion H; subst. unfold accepted; cbn. rewrite firstn_blen, app_assoc.
    repeat split; fin2. }
  destruct (blen (bw_buf w) =? 0) eqn:Hempty.
  { destruct (file_write w p) as [e1 w1] eqn:Hfw.
    apply file_write_spec in Hfw.
    destruct Hfw as (Hd & Hst & Hbad & Hbuf & Hsz & Herr & Hby & Hcl & Hfl & Hnf).
    assert (Hnil : bw_buf w = []) by (apply blen_zero; lia).
    destruct (e1 =? 0) eqn:He1; intros H; inversion H; subst; unfold accepted; cbn.
    - destruct Hd as [[_ Hd] | [Hd _]]; [|lia]. rewrite Hd, Hbuf, Hnil, firstn_blen, !app_nil_r.
      repeat split; fin2.
    - destruct Hd as [[Hd _] | [_ Hd]]; [lia|]. rewrite Hd, Hbuf, Hnil. cbn. rewrite !app_nil_r.
      repeat split; fin2. }
  set (avail := bw_size w - blen (bw_buf w)) in *.
  assert (Hav : 0 <= avail <= blen p) by lia.
  destruct (file_write w (bw_buf w ++ firstn (Z.to_nat avail) p)) as [e1 w1] eqn:Hfw.
  apply file_write_spec in Hfw.
  destruct Hfw as (Hd & Hst & Hbad & Hbuf & Hsz & Herr & Hby & Hcl & Hfl & Hnf).
  destruct (e1 =? 0) eqn:He1; cbn [negb].
  2:{ intros H; inversion H; subst; unfold accepted; cbn.
      destruct Hd as [[Hd _] | [_ Hd]]; [lia|]. rewrite Hd, app_assoc.
      repeat split; fin2. }
  destruct Hd as [[_ Hd] | [Hd _]]; [|lia].
  destruct (blen (skipn (Z.to_nat avail) p) <=? bw_size w) eqn:Hrest.
  { intros H; inversion H; subst; unfold accepted; cbn.
    rewrite Hd, firstn_blen, <- !app_assoc, firstn_skipn.
    repeat split; fin2. }
  destruct (file_write (set_buf w1 []) (skipn (Z.to_nat avail) p)) as [e2 w2] eqn:Hfw2.
  apply file_write_spec in Hfw2. cbn in Hfw2.
  destruct Hfw2 as (Hd2 & Hst2 & Hbad2 & Hbuf2 & Hsz2 & Herr2 & Hby2 & Hcl2 & Hfl2 & Hnf2).
  destruct (e2 =? 0) eqn:He2; intros H; inversion H; subst; unfold accepted; cbn.
  - destruct Hd2 as [[_ Hd2] | [Hd2 _]]; [|lia].
    rewrite Hd2, Hd, Hbuf2, firstn_blen, app_nil_r, <- !app_assoc, firstn_skipn.
    repeat split; fin2.
  - destruct Hd2 as [[Hd2 _] | [_ Hd2]]; [lia|].
    rewrite Hd2, Hd, Hbuf2, app_nil_r, <- !app_assoc.
    repeat split; fin2.
Qed.

Lemma bufio_flush_spec w e w' :
  bufio_flush w = (e, w') ->
  (e = 0 -> bw_disk w' = accepted w /\ bw_buf w' = [] /\ bw_err w' = 0) /\
  (e <> 0 -> bw_err w' <> 0) /\
  accepted w' = accepted w /\ same_object w w' /\
  bw_stage w' = bw_stage w /\ bw_bad w' = bw_bad w /\ bw_closed w' = bw_closed w /\
  (bw_err w <> 0 -> e = bw_err w /\ w' = w) /\
  (bw_faults w = [] -> bw_closed w = false -> bw_err w = 0 -> e = 0).
Proof.
  unfold bufio_flush. destruct (bw_err w =? 0) eqn:He; cbn [negb].
  2:{ intros H; inversion H; subst. repeat split; fin2. }
  destruct (blen (bw_buf w) =? 0) eqn:Hempty.
  { intros H; inversion H; subst. assert (Hnil : bw_buf w' = []) by (apply blen_zero; lia).
    unfold accepted. rewrite Hnil, app_nil_r. repeat split; fin2. }
  destruct (file_write w (bw_buf w)) as [e1 w1] eqn:Hfw.
  apply file_write_spec in Hfw.
  destruct Hfw as (Hd & Hst & Hbad & Hbuf & Hsz & Herr & Hby & Hcl & Hfl & Hnf).
  destruct (e1 =? 0) eqn:He1; intros H; inversion H; subst; unfold accepted; cbn.
  - destruct Hd as [[_ Hd] | [Hd _]]; [|lia]. rewrite Hd, app_nil_r.
    repeat split; fin2.
  - destruct Hd as [[Hd _] | [_ Hd]]; [lia|]. rewrite Hd, Hbuf.
    repeat split; fin2.
Qed.

Lemma bufio_flush_close_fail w e w' : bufio_flush w = (e, w') -> bw_close_fail w' = bw_close_fail w.
Proof.
  unfold bufio_flush, file_write.
  destruct (negb (bw_err w =? 0)); [intros H; inversion H; reflexivity|].
  destruct (blen (bw_buf w) =? 0); [intros H; inversion H; reflexivity|].
  destruct (hd false (bw_faults w) || bw_closed w); cbn; intros H; inversion H; reflexivity.
Qed.

(* ---------- the translated functions ---------- *)
Definition THE_FILE : bufferedFile := mkbufferedFile F_TOK W_TOK.

(* newBufferedFile in a world where nothing has happened *)
Theorem tie_newBufferedFile_ok : forall w name,
  bw_stage w = 0 -> bw_create_fail w = false -> bw_bad w = false ->
  exists w', BufferedFile_fn_newBufferedFile bext name w = Ok (THE_FILE, 0) w' /\
    live w' /\ bw_disk w' = [] /\ bw_buf w' = [] /\ bw_size w' = BUF_SIZE /\ bw_err w' = 0 /\
    bw_closed w' = false /\ bw_bytes w' = bw_bytes w /\ bw_faults w' = bw_faults w /\ bw_close_fail w' = bw_close_fail w.
Proof.
  intros w name Hst Hcf Hbad.
  unfold BufferedFile_fn_newBufferedFile, bind, call_ext, ret, bext; cbn.
  rewrite Hst, Hcf; cbn.
  eexists; split; [reflexivity|]. unfold live, BUF_SIZE; cbn. rewrite Hbad. repeat split; lia.
Qed.

Theorem tie_newBufferedFile_fail : forall w name,
  bw_stage w = 0 -> bw_create_fail w = true ->
  BufferedFile_fn_newBufferedFile bext name w = Ok (mkbufferedFile 0 0, 1) (set_pending w 1).
Proof.
  intros w name Hst Hcf.
  unfold BufferedFile_fn_newBufferedFile, bind, call_ext, ret, bext; cbn.
  rewrite Hst, Hcf; cbn. reflexivity.
Qed.

(* Write *)
Theorem tie_bufferedFile_Write : forall w t,
  live w ->
  exists n e w', bufferedFile_Write bext THE_FILE t w = Ok (THE_FILE, (n, e)) w' /\
    accepted w' = accepted w ++ firstn (Z.to_nat n) (bchunk w t) /\
    (e = 0 -> n = blen (bchunk w t) /\ bw_err w' = bw_err w) /\ (e <> 0 -> bw_err w' <> 0) /\
    0 <= n <= blen (bchunk w t) /\
    same_object w w' /\ live w' /\ bw_closed w' = bw_closed w /\
    (bw_faults w = [] -> bw_closed w = false -> bw_err w = 0 -> e = 0 /\ bw_faults w' = []).
Proof.
  intros w t (Hst & Hbad & Hsz & Hbuf).
  unfold bufferedFile_Write, bind, call_ext, ret, bext; cbn.
  rewrite Hst; cbn.
  destruct (bufio_write w (bchunk w t)) as [[n e] w1] eqn:Hw.
  apply bufio_write_spec in Hw; [|assumption|assumption].
  destruct Hw as (Hacc & He0 & He1 & Hn & Hso & Hb1 & Hst1 & Hbad1 & Hcl1 & Hnf).
  cbn. exists n, e, (set_pending w1 e). split; [reflexivity|].
  unfold accepted, live, same_object in *; cbn.
  destruct Hso as (Hso1 & Hso2 & Hso3).
  repeat split; proj;
    first [lia | congruence | assumption | (apply He0; assumption) | (apply He1; assumption) | (apply Hnf; assumption)].
Qed.

(* Close *)
Theorem tie_bufferedFile_Close : forall w,
  live w ->
  exists e w', bufferedFile_Close bext THE_FILE w = Ok (THE_FILE, e) w' /\
    (e = 0 -> bw_disk w' = accepted w /\ bw_buf w' = [] /\ bw_closed w' = true) /\
    same_object w w' /\ accepted w' = accepted w /\ bw_bad w' = false /\
    (bw_err w <> 0 -> e = bw_err w /\ bw_closed w' = bw_closed w /\ bw_disk w' = bw_disk w) /\
    (bw_faults w = [] -> bw_closed w = false -> bw_err w = 0 -> bw_close_fail w = false -> e = 0).
Proof.
  intros w (Hst & Hbad & Hsz & Hbuf).
  unfold bufferedFile_Close, bind, call_ext, ret, bext; cbn.
  rewrite Hst; cbn.
  destruct (bufio_flush w) as [e1 w1] eqn:Hf.
  pose proof (bufio_flush_close_fail _ _ _ Hf) as Hcf1.
  apply bufio_flush_spec in Hf.
  destruct Hf as (He0 & He1 & Hacc & Hso & Hst1 & Hbad1 & Hcl1 & Hsticky & Hnf).
  cbn. destruct (e1 =? 0) eqn:Hz; cbn.
  - rewrite Hst1, Hst; cbn.
    assert (e1 = 0) by lia. subst e1. destruct (He0 eq_refl) as (Hd & Hb & Her).
    eexists _, _. split; [reflexivity|]. unfold accepted, same_object in *; cbn.
    destruct Hso as (Hso1 & Hso2 & Hso3).
    repeat split; proj;
      first [lia | congruence | assumption
            | (rewrite Hd, Hb, app_nil_r; reflexivity)
            | (destruct (Hsticky ltac:(assumption)); lia)
            | (intros; rewrite Hcf1; match goal with H : bw_close_fail _ = false |- _ => rewrite H end; reflexivity)].
  - eexists _, _. split; [reflexivity|].
    destruct Hso as (Hso1 & Hso2 & Hso3).
    repeat split; proj;
      first [lia | congruence | assumption
            | (destruct (Hsticky ltac:(assumption)) as [? ->]; reflexivity)
            | (destruct (Hsticky ltac:(assumption)) as [? ?]; assumption)
            | (specialize (Hnf ltac:(assumption) ltac:(assumption) ltac:(assumption)); lia) ].
Qed.
