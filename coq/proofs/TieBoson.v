(* Source tie for cmd/thermal-recorder/boson.go: the translated convertRawBosonFrame
   (coq/translated/Boson.v, regenerated from the Go source on every run), run in the outside
   world of model/BosonExt.v, leaves exactly what model/Parse.v's [parse_raw Boson] leaves -
   pixels (the partially overwritten frame on a bad pixel included), telemetry, and the
   BadFrameErr verdict - for every raw byte list long enough for the frame, every frame size,
   every edge width, every previous content of the frame.  A raw slice that is too short makes
   the Go code panic (slice bounds out of range): [Panicked] here ([tie_boson_short]).
   All Qed, no axioms. *)
From Coq Require Import List ZArith Bool String Arith Lia.
From Coq Require Import ZifyBool ZifyNat.
From Coq Require Import Floats.SpecFloat.
From TR Require Import model.GoSem model.Detector model.Parse model.DetExt model.BosonExt translated.Boson.
From TR Require Import proofs.DetC15 proofs.ParseProofs proofs.TieDetBase.
Import ListNotations.
Open Scope Z_scope.

Lemma all_Boson_translated : untranslated_Boson = [].
Proof. reflexivity. Qed.

(* ---------- the world ---------- *)
Definition bhin (w : bworld) (h : Z) : Prop := 0 <= h < Z.of_nat (List.length (bw_frames w)).

Lemma bframe_set_eq w h f : bhin w h -> bframe_of (bset_frame w h f) h = f.
Proof. unfold bhin, bframe_of, bset_frame; cbn [bw_frames]. intros H. apply nth_lupd_eq. lia. Qed.

Lemma bbytes_set w h f t : bbytes (bset_frame w h f) t = bbytes w t.
Proof. reflexivity. Qed.

Lemma bset_frame_twice w h f g : bset_frame (bset_frame w h f) h g = bset_frame w h g.
Proof. unfold bset_frame; cbn [bw_bytes bw_frames]. rewrite lupd_lupd. reflexivity. Qed.

Lemma bset_tel_norm w h f t : bhin w h -> bset_tel (bset_frame w h f) h t = bset_frame w h (mkBF (bf_pix f) t).
Proof. intros H. unfold bset_tel. rewrite bframe_set_eq by exact H. apply bset_frame_twice. Qed.

Lemma bset_pix_norm w h f g : bhin w h -> bset_pix (bset_frame w h f) h g = bset_frame w h (mkBF g (bf_tel f)).
Proof. intros H. unfold bset_pix. rewrite bframe_set_eq by exact H. apply bset_frame_twice. Qed.

(* ---------- the external calls ---------- *)
Section Calls.
  Context {B : Type}.
  Variable k : Z -> M bworld B.
  Variable w : bworld.

  Lemma b_reset h : bind (call_ext bext "Frame.Status.reset" [AFrame h]) k w = k 0 (bset_tel w h zero_telemetry).
  Proof. reflexivity. Qed.
  Lemma b_timeon h v : bind (call_ext bext "Frame.Status.set.TimeOn" [AFrame h; AInt v]) k w =
    k 0 (bset_tel w h (tel_set_timeon (bf_tel (bframe_of w h)) v)).
  Proof. reflexivity. Qed.
  Lemma b_lastffc h v : bind (call_ext bext "Frame.Status.set.LastFFCTime" [AFrame h; AInt v]) k w =
    k 0 (bset_tel w h (tel_set_lastffc (bf_tel (bframe_of w h)) v)).
  Proof. reflexivity. Qed.
  Lemma b_len h : bind (call_ext bext "Frame.Pix.len" [AFrame h]) k w = k (Z.of_nat (List.length (bf_pix (bframe_of w h)))) w.
  Proof. reflexivity. Qed.
  Lemma b_rowlen h y : bind (call_ext bext "Frame.Pix.rowlen" [AFrame h; AInt y]) k w =
    k (Z.of_nat (List.length (nth (Z.to_nat y) (bf_pix (bframe_of w h)) []))) w.
  Proof. reflexivity. Qed.
  Lemma b_get h y x : bind (call_ext bext "Frame.Pix.get" [AFrame h; AInt y; AInt x]) k w =
    k (gget (bf_pix (bframe_of w h)) (Z.to_nat y) (Z.to_nat x)) w.
  Proof. reflexivity. Qed.
  Lemma b_set h y x v : bind (call_ext bext "Frame.Pix.set" [AFrame h; AInt y; AInt x; AInt v]) k w =
    k 0 (bset_pix w h (gset (bf_pix (bframe_of w h)) (Z.to_nat y) (Z.to_nat x) v)).
  Proof. reflexivity. Qed.
  Lemma b_cap t : bind (call_ext bext "bytes.cap" [AInt t]) k w = k (Z.of_nat (List.length (bbytes w t))) w.
  Proof. reflexivity. Qed.
  Lemma b_u16 t lo hi : bind (call_ext bext "binary.LittleEndian.Uint16" [AInt t; AInt lo; AInt hi]) k w =
    k (le16 (bbytes w t) (Z.to_nat lo)) w.
  Proof. reflexivity. Qed.
  Lemma b_newerr c : bind (call_ext bext "new:lepton3.BadFrameErr{Cause}" [AInt c]) k w = k ERR_BAD_FRAME w.
  Proof. reflexivity. Qed.

  (* the two short-circuit operands that ask the outside world *)
  Lemma b_lazy_or_len (c : bool) (f : Z -> bool) h :
    bind (if c then ret true else bind (call_ext bext "Frame.Pix.len" [AFrame h]) (fun t => ret (f t))) (fun b : bool => k (bool_to_z b)) w =
    k (bool_to_z (c || f (Z.of_nat (List.length (bf_pix (bframe_of w h)))))) w.
  Proof. destruct c; reflexivity. Qed.
End Calls.

Lemma b_or_len {B} (k : bool -> M bworld B) w (c : bool) (f : Z -> bool) h :
  bind (if c then ret true else bind (call_ext bext "Frame.Pix.len" [AFrame h]) (fun t => ret (f t))) k w =
  k (c || f (Z.of_nat (List.length (bf_pix (bframe_of w h))))) w.
Proof. destruct c; reflexivity. Qed.

Lemma b_and_get {B} (k : bool -> M bworld B) w (c : bool) (f : Z -> bool) h y x :
  bind (if c then bind (call_ext bext "Frame.Pix.get" [AFrame h; AInt y; AInt x]) (fun t => ret (f t)) else ret false) k w =
  k (c && f (gget (bf_pix (bframe_of w h)) (Z.to_nat y) (Z.to_nat x))) w.
Proof. destruct c; reflexivity. Qed.

Ltac bcall1 :=
  lazymatch goal with
  | |- context [bind (call_ext bext ?n ?a) ?k ?w] =>
    lazymatch n with
    | "Frame.Status.reset"%string => rewrite (b_reset k w)
    | "Frame.Status.set.TimeOn"%string => rewrite (b_timeon k w)
    | "Frame.Status.set.LastFFCTime"%string => rewrite (b_lastffc k w)
    | "Frame.Pix.len"%string => rewrite (b_len k w)
    | "Frame.Pix.rowlen"%string => rewrite (b_rowlen k w)
    | "Frame.Pix.get"%string => rewrite (b_get k w)
    | "Frame.Pix.set"%string => rewrite (b_set k w)
    | "bytes.cap"%string => rewrite (b_cap k w)
    | "binary.LittleEndian.Uint16"%string => rewrite (b_u16 k w)
    | "new:lepton3.BadFrameErr{Cause}"%string => rewrite (b_newerr k w)
    end
  | |- context [bind (ret _) _ _] => rewrite bind_ret
  end;
  cbv beta.

(* ---------- first_bad over a concatenation ---------- *)
Lemma first_bad_app f raw h w edge l1 l2 k :
  first_bad f raw h w edge (l1 ++ l2) k =
  match first_bad f raw h w edge l1 k with
  | Some j => Some j
  | None => first_bad f raw h w edge l2 (k + List.length l1)
  end.
Proof.
  revert k; induction l1 as [|[y x] l1 IH]; intros k; cbn [app first_bad List.length].
  - rewrite Nat.add_0_r. reflexivity.
  - destruct (negb (on_edge h w edge y x) && (raw_pixel f raw w y x =? 0)); [reflexivity|].
    rewrite IH. replace (S k + List.length l1)%nat with (k + S (List.length l1))%nat by lia. reflexivity.
Qed.

Lemma gbuild_ext h w f g :
  (forall y x, (y < h)%nat -> (x < w)%nat -> f y x = g y x) -> gbuild h w f = gbuild h w g.
Proof.
  intros E. apply grid_is_build; [rewrite gbuild_tbuild; apply tdims_tbuild|].
  intros y x Hy Hx. rewrite gget_gbuild.
  replace ((y <? h)%nat && (x <? w)%nat) with true by lia. apply E; assumption.
Qed.

(* ====================================================================================
   The run
   ==================================================================================== *)
Section Run.
  Variables (raw : list Z) (hh ww edge : nat) (old : grid).
  Variables (w0 : bworld) (tok h : Z).
  Hypothesis Hh : bhin w0 h.
  Hypothesis Hold : bf_pix (bframe_of w0 h) = old.
  Hypothesis Hd : tdims hh ww old.
  Hypothesis Hraw : bbytes w0 tok = raw.

  Definition row_cs (y x0 m : nat) : list (nat * nat) := map (fun x => (y, x)) (seq x0 m).

  (* the frame after the first p pixels (row-major) have been stored *)
  Definition stored (p : nat) : grid :=
    gbuild hh ww (fun y x => if (y * ww + x <? p)%nat then raw_pixel Boson raw ww y x else gget old y x).

  Definition wst (p : nat) : bworld := bset_frame w0 h (mkBF (stored p) boson_telemetry).

  Definition bad (y x : nat) : bool := negb (on_edge hh ww edge y x) && (raw_pixel Boson raw ww y x =? 0).

  Lemma tdims_stored p : tdims hh ww (stored p).
  Proof. unfold stored. rewrite gbuild_tbuild. apply tdims_tbuild. Qed.

  Lemma stored_0 : stored 0 = old.
  Proof.
    symmetry. apply grid_is_build; [exact Hd|]. intros y x Hy Hx.
    replace (y * ww + x <? 0)%nat with false by lia. reflexivity.
  Qed.

  Lemma gget_stored p y x : (y < hh)%nat -> (x < ww)%nat ->
    gget (stored p) y x = if (y * ww + x <? p)%nat then raw_pixel Boson raw ww y x else gget old y x.
  Proof.
    intros Hy Hx. unfold stored. rewrite gget_gbuild.
    replace ((y <? hh)%nat && (x <? ww)%nat) with true by lia. reflexivity.
  Qed.

  Lemma stored_step y x : (y < hh)%nat -> (x < ww)%nat ->
    gset (stored (y * ww + x)) y x (raw_pixel Boson raw ww y x) = stored (S (y * ww + x)).
  Proof.
    intros Hy Hx. apply grid_is_build; [apply tdims_gset, tdims_stored|].
    intros y' x' Hy' Hx'.
    destruct (Nat.eq_dec y' y) as [->|Ny]; [destruct (Nat.eq_dec x' x) as [->|Nx]|].
    - rewrite (gget_gset_eq hh ww) by (auto using tdims_stored).
      replace (y * ww + x <? S (y * ww + x))%nat with true by lia. reflexivity.
    - rewrite gget_gset_neq by (right; exact Nx). rewrite gget_stored by assumption.
      replace (y * ww + x' <? S (y * ww + x))%nat with (y * ww + x' <? y * ww + x)%nat by lia. reflexivity.
    - rewrite gget_gset_neq by (left; exact Ny). rewrite gget_stored by assumption.
      replace (y' * ww + x' <? S (y * ww + x))%nat with (y' * ww + x' <? y * ww + x)%nat by nia. reflexivity.
  Qed.

  Lemma pix_wst p : bf_pix (bframe_of (wst p) h) = stored p.
  Proof. unfold wst. rewrite bframe_set_eq by exact Hh. reflexivity. Qed.

  Lemma bytes_wst p : bbytes (wst p) tok = raw.
  Proof. unfold wst. rewrite bbytes_set. exact Hraw. Qed.

  Lemma set_wst p g : bset_pix (wst p) h g = bset_frame w0 h (mkBF g boson_telemetry).
  Proof. unfold wst. rewrite bset_pix_norm by exact Hh. reflexivity. Qed.

  Lemma on_edge_Z y x (a : bool) :
    a = (Z.of_nat y <? Z.of_nat edge) || (Z.of_nat x <? Z.of_nat edge) ->
    a || (Z.of_nat y >=? Z.of_nat hh - Z.of_nat edge) || (Z.of_nat x >=? Z.of_nat ww - Z.of_nat edge) =
    on_edge hh ww edge y x.
  Proof. intros ->. unfold on_edge. lia. Qed.

  Lemma pix_off_Z y x : Z.to_nat (2 * Z.of_nat (y * ww + x)) = pix_off Boson ww y x.
  Proof. unfold pix_off. lia. Qed.

  (* ---------- the two loops, for any bodies that take the steps below ---------- *)
  Definition lstate := (Z * Z)%type.

  (* [len]: the number of bytes; a pixel whose two bytes are not both there panics *)
  Definition pixel_step (y x k : nat) (i : Z) : outcome bworld (loopres lstate Z) :=
    if (2 * S k <=? List.length raw)%nat then
      if bad y x then Ok (LRet ERR_BAD_FRAME) (wst (S k)) else Ok (LCont (h, i + 2)) (wst (S k))
    else Panicked (wst k).

  Definition step_spec (body : Z -> lstate -> M bworld (loopres lstate Z)) (y : nat) : Prop :=
    forall x k i, (x < ww)%nat -> k = (y * ww + x)%nat -> i = 2 * Z.of_nat k ->
      body (Z.of_nat x) (h, i) (wst k) = pixel_step y x k i.

  (* scanning a list of coordinates starting at pixel number k *)
  Fixpoint scan (cs : list (nat * nat)) (k : nat) : outcome bworld (loopres lstate Z) :=
    match cs with
    | [] => Ok (LCont (h, 2 * Z.of_nat k)) (wst k)
    | (y, x) :: r =>
      if (2 * S k <=? List.length raw)%nat then
        if bad y x then Ok (LRet ERR_BAD_FRAME) (wst (S k)) else scan r (S k)
      else Panicked (wst k)
    end.

  Lemma scan_app l1 l2 k :
    scan (l1 ++ l2) k =
    match scan l1 k with
    | Ok (LCont _) _ => scan l2 (k + List.length l1)
    | o => o
    end.
  Proof.
    revert k; induction l1 as [|[y x] l1 IH]; intros k; cbn [app scan List.length].
    - rewrite Nat.add_0_r. reflexivity.
    - destruct (2 * S k <=? List.length raw)%nat; [|reflexivity].
      destruct (bad y x); [reflexivity|].
      rewrite IH. replace (S k + List.length l1)%nat with (k + S (List.length l1))%nat by lia. reflexivity.
  Qed.

  Lemma scan_cont cs k s w' : scan cs k = Ok (LCont s) w' ->
    s = (h, 2 * Z.of_nat (k + List.length cs)) /\ w' = wst (k + List.length cs).
  Proof.
    revert k; induction cs as [|[y x] cs IH]; intros k; cbn [scan List.length].
    - rewrite Nat.add_0_r. intros E; inversion E; auto.
    - destruct (2 * S k <=? List.length raw)%nat; [|discriminate].
      destruct (bad y x); [discriminate|].
      intros E. apply IH in E. replace (k + S (List.length cs))%nat with (S k + List.length cs)%nat by lia. exact E.
  Qed.

  Lemma inner_loop body y : step_spec body y ->
    forall m x0 k i, (x0 + m <= ww)%nat -> k = (y * ww + x0)%nat -> i = 2 * Z.of_nat k ->
      for_loop m (Z.of_nat x0) body (h, i) (wst k) = scan (row_cs y x0 m) k.
  Proof.
    intros Hstep. induction m as [|m IH]; intros x0 k i Hx Hk Hi.
    - cbn. subst i. reflexivity.
    - unfold row_cs. cbn [for_loop seq map scan]. unfold bind at 1.
      rewrite (Hstep x0 k i) by (lia || assumption). unfold pixel_step.
      destruct (2 * S k <=? List.length raw)%nat; [|reflexivity].
      destruct (bad y x0); [reflexivity|].
      replace (Z.of_nat x0 + 1) with (Z.of_nat (S x0)) by lia.
      apply IH; lia.
  Qed.

  Definition ostep_spec (obody : Z -> lstate -> M bworld (loopres lstate Z)) : Prop :=
    forall y i, (y < hh)%nat -> i = 2 * Z.of_nat (y * ww) ->
      obody (Z.of_nat y) (h, i) (wst (y * ww)) = scan (row_cs y 0 ww) (y * ww).

  Definition rows (y0 n : nat) : list (nat * nat) := flat_map (fun y => row_cs y 0 ww) (seq y0 n).

  Lemma length_row_cs y x0 m : List.length (row_cs y x0 m) = m.
  Proof. unfold row_cs. rewrite map_length, seq_length. reflexivity. Qed.

  Lemma outer_loop obody : ostep_spec obody ->
    forall n y0 i, (y0 + n <= hh)%nat -> i = 2 * Z.of_nat (y0 * ww) ->
      for_loop n (Z.of_nat y0) obody (h, i) (wst (y0 * ww)) = scan (rows y0 n) (y0 * ww).
  Proof.
    intros Hstep. induction n as [|n IH]; intros y0 i Hy Hi.
    - cbn. subst i. reflexivity.
    - unfold rows. cbn [for_loop seq flat_map]. rewrite scan_app. unfold bind at 1.
      rewrite (Hstep y0 i) by (lia || assumption).
      destruct (scan (row_cs y0 0 ww) (y0 * ww)) as [[s|r] w'|w'] eqn:E; [|reflexivity|reflexivity].
      apply scan_cont in E. destruct E as [-> ->]. rewrite length_row_cs.
      replace (Z.of_nat y0 + 1) with (Z.of_nat (S y0)) by lia.
      replace (y0 * ww + ww)%nat with (S y0 * ww)%nat by lia.
      apply IH; lia.
  Qed.

  (* ---------- the bodies of the translated function take these steps ---------- *)
  Ltac norm_nat := repeat rewrite Nat2Z.id.

  Lemma init_world :
    let w1 := bset_tel w0 h zero_telemetry in
    let w2 := bset_tel w1 h (tel_set_lastffc (bf_tel (bframe_of w1 h)) 1000000000) in
    bset_tel w2 h (tel_set_timeon (bf_tel (bframe_of w2 h)) 60000000000) = wst 0.
  Proof.
    cbv zeta.
    change (bset_tel w0 h zero_telemetry) with (bset_frame w0 h (mkBF (bf_pix (bframe_of w0 h)) zero_telemetry)).
    rewrite bframe_set_eq by exact Hh. rewrite bset_tel_norm by exact Hh. cbn [bf_tel bf_pix].
    rewrite bframe_set_eq by exact Hh. rewrite bset_tel_norm by exact Hh. cbn [bf_tel bf_pix].
    unfold wst. rewrite stored_0, Hold. reflexivity.
  Qed.

  Lemma run_scan :
    Boson_fn_convertRawBosonFrame bext tok h (Z.of_nat edge) w0 =
    match scan (rows 0 hh) 0 with
    | Ok (LRet r) w' => Ok r w'
    | Ok (LCont _) w' => Ok 0 w'
    | Panicked w' => Panicked w'
    end.
  Proof.
    unfold Boson_fn_convertRawBosonFrame.
    do 3 bcall1. rewrite init_world. bcall1.
    rewrite pix_wst. replace (List.length (stored 0)) with hh by (symmetry; apply tdims_stored).
    unfold for_range. rewrite Z.sub_0_r, Nat2Z.id.
    unfold bind at 1.
    match goal with |- context [for_loop hh 0 ?b (h, 0) (wst 0)] =>
      assert (Hsp : ostep_spec b);
      [| rewrite (outer_loop b Hsp hh 0 0 ltac:(lia) eq_refl : for_loop hh 0 b (h, 0) (wst 0) = scan (rows 0 hh) 0)]
    end.
    2:{ destruct (scan (rows 0 hh) 0) as [[[o i]|r] w'|w']; reflexivity. }
    intros y i Hy Hi. cbv beta iota.
    bcall1. rewrite pix_wst, Nat2Z.id.
    replace (List.length (nth y (stored (y * ww)) [])) with ww by (symmetry; apply tdims_stored; exact Hy).
    rewrite Z.sub_0_r, Nat2Z.id. unfold bind at 1.
    match goal with |- context [for_loop ww 0 ?b (h, i) (wst (y * ww))] =>
      assert (Hsp : step_spec b y);
      [| rewrite (inner_loop b y Hsp ww 0 (y * ww) i ltac:(lia) ltac:(lia) Hi
                  : for_loop ww 0 b (h, i) (wst (y * ww)) = scan (row_cs y 0 ww) (y * ww))]
    end.
    2:{ destruct (scan (row_cs y 0 ww) (y * ww)) as [[[o i']|r] w'|w']; reflexivity. }
    clear i Hi. intros x k i Hx Hk Hi. cbv beta iota.
    assert (Hkb : (S k <= hh * ww)%nat) by nia.
    bcall1. rewrite bytes_wst. unfold pixel_step.
    destruct (2 * S k <=? List.length raw)%nat eqn:El.
    2:{ match goal with |- context [if ?c then panic else ret tt] => replace c with true by lia end.
        reflexivity. }
    match goal with |- context [if ?c then panic else ret tt] => replace c with false by lia end.
    bcall1. bcall1. rewrite bytes_wst. bcall1. rewrite pix_wst, !Nat2Z.id.
    rewrite Hi, Hk, pix_off_Z.
    change (le16 raw (pix_off Boson ww y x)) with (raw_pixel Boson raw ww y x).
    rewrite set_wst, stored_step by assumption. fold (wst (S (y * ww + x))).
    rewrite b_or_len, pix_wst.
    replace (List.length (stored (S (y * ww + x)))) with hh by (symmetry; apply tdims_stored).
    rewrite b_and_get, pix_wst, !Nat2Z.id.
    rewrite (on_edge_Z y x _ eq_refl).
    rewrite gget_stored by assumption.
    replace (y * ww + x <? S (y * ww + x))%nat with true by lia.
    fold (bad y x). destruct (bad y x).
    - bcall1. reflexivity.
    - reflexivity.
  Qed.

  (* ---------- scan against the model ---------- *)
  Lemma first_bad_ge cs : forall k j, first_bad Boson raw hh ww edge cs k = Some j -> (k <= j)%nat.
  Proof.
    induction cs as [|[y x] cs IH]; intros k j; cbn [first_bad]; [discriminate|].
    destruct (negb (on_edge hh ww edge y x) && (raw_pixel Boson raw ww y x =? 0)).
    - intros E; inversion E; lia.
    - intros E. apply IH in E. lia.
  Qed.

  Lemma first_bad_lt cs : forall k j, first_bad Boson raw hh ww edge cs k = Some j -> (j < k + List.length cs)%nat.
  Proof.
    induction cs as [|[y x] cs IH]; intros k j; cbn [first_bad List.length]; [discriminate|].
    destruct (negb (on_edge hh ww edge y x) && (raw_pixel Boson raw ww y x =? 0)).
    - intros E; inversion E; lia.
    - intros E. apply IH in E. lia.
  Qed.

  (* the number of the pixel after the last one the model's parser reads *)
  Definition reads (cs : list (nat * nat)) (k : nat) : nat :=
    match first_bad Boson raw hh ww edge cs k with
    | Some j => S j
    | None => (k + List.length cs)%nat
    end.

  Lemma reads_cons y x cs k :
    reads ((y, x) :: cs) k = if bad y x then S k else reads cs (S k).
  Proof.
    unfold reads. cbn [first_bad List.length]. fold (bad y x). destruct (bad y x); [reflexivity|].
    replace (k + S (List.length cs))%nat with (S k + List.length cs)%nat by lia. reflexivity.
  Qed.

  Lemma reads_ge cs k : (k <= reads cs k)%nat.
  Proof.
    unfold reads. destruct (first_bad Boson raw hh ww edge cs k) eqn:E; [apply first_bad_ge in E|]; lia.
  Qed.

  (* enough bytes for every pixel the model reads: the scan is the model's first_bad *)
  Lemma scan_first_bad cs : forall k, (2 * reads cs k <= List.length raw)%nat ->
    scan cs k = match first_bad Boson raw hh ww edge cs k with
                | Some j => Ok (LRet ERR_BAD_FRAME) (wst (S j))
                | None => Ok (LCont (h, 2 * Z.of_nat (k + List.length cs))) (wst (k + List.length cs))
                end.
  Proof.
    induction cs as [|[y x] cs IH]; intros k Hl.
    - cbn. rewrite Nat.add_0_r. reflexivity.
    - rewrite reads_cons in Hl. cbn [scan first_bad List.length]. fold (bad y x).
      pose proof (reads_ge cs (S k)).
      destruct (bad y x).
      + replace (2 * S k <=? List.length raw)%nat with true by lia. reflexivity.
      + replace (2 * S k <=? List.length raw)%nat with true by lia.
        rewrite IH by exact Hl. replace (S k + List.length cs)%nat with (k + S (List.length cs))%nat by lia. reflexivity.
  Qed.

  (* not enough: the scan panics at the first pixel whose two bytes are not both there *)
  Lemma scan_short cs : forall k, (2 * k <= List.length raw)%nat -> (List.length raw < 2 * reads cs k)%nat ->
    scan cs k = Panicked (wst (List.length raw / 2)).
  Proof.
    induction cs as [|[y x] cs IH]; intros k Hk Hl.
    - unfold reads in Hl. cbn in Hl. lia.
    - rewrite reads_cons in Hl. cbn [scan].
      destruct (2 * S k <=? List.length raw)%nat eqn:E.
      + destruct (bad y x); [lia|]. apply IH; [lia | exact Hl].
      + f_equal. f_equal. apply Nat.div_unique with (r := (List.length raw - 2 * k)%nat); lia.
  Qed.

  Lemma length_rows y0 n : List.length (rows y0 n) = (n * ww)%nat.
  Proof.
    unfold rows. revert y0; induction n as [|n IH]; intros y0; cbn [seq flat_map]; [reflexivity|].
    rewrite app_length, length_row_cs, IH. lia.
  Qed.
End Run.

Lemma coords_rows hh ww : coords hh ww = rows ww 0 hh.
Proof. reflexivity. Qed.

(* the pixels convertRawBosonFrame reads according to the model: up to and including the first
   zero pixel off the border, all h*w if there is none *)
Definition boson_pixels_read (raw : list Z) (h w edge : nat) : nat :=
  match first_bad Boson raw h w edge (coords h w) 0 with
  | Some j => S j
  | None => (h * w)%nat
  end.

Lemma boson_pixels_read_le raw h w edge : (boson_pixels_read raw h w edge <= h * w)%nat.
Proof.
  unfold boson_pixels_read. destruct (first_bad Boson raw h w edge (coords h w) 0) eqn:E; [|lia].
  apply first_bad_lt in E. rewrite coords_rows, length_rows in E. lia.
Qed.

(* the model's final pixels are the frame after [boson_pixels_read] stores *)
Lemma parse_pix_stored raw h w edge old :
  p_pix (parse_raw Boson raw h w edge old) = stored raw h w old (boson_pixels_read raw h w edge).
Proof.
  unfold parse_raw, boson_pixels_read, stored. cbn [p_pix].
  destruct (first_bad Boson raw h w edge (coords h w) 0) as [j|]; apply gbuild_ext; intros y x Hy Hx.
  - replace (y * w + x <=? j)%nat with (y * w + x <? S j)%nat by lia. reflexivity.
  - replace (y * w + x <? h * w)%nat with true by nia. reflexivity.
Qed.

(* ====================================================================================
   The tie, in any outside world: [tok] holds the raw bytes, [h] is a frame of hh x ww pixels
   ==================================================================================== *)
Theorem tie_boson_world : forall raw hh ww edge old w0 tok h,
    bhin w0 h -> bf_pix (bframe_of w0 h) = old -> tdims hh ww old -> bbytes w0 tok = raw ->
    (2 * boson_pixels_read raw hh ww edge <= List.length raw)%nat ->
    let p := parse_raw Boson raw hh ww edge old in
    Boson_fn_convertRawBosonFrame bext tok h (Z.of_nat edge) w0 =
    Ok (if p_bad p then ERR_BAD_FRAME else 0) (bset_frame w0 h (mkBF (p_pix p) (p_tel p))).
Proof.
  intros raw hh ww edge old w0 tok h Hh Hold Hd Hraw Hlen p.
  rewrite (run_scan raw hh ww edge old w0 tok h Hh Hold Hd Hraw).
  unfold boson_pixels_read in Hlen. rewrite coords_rows in Hlen.
  rewrite scan_first_bad by (unfold reads; rewrite length_rows; exact Hlen).
  subst p. rewrite parse_pix_stored. unfold boson_pixels_read. rewrite coords_rows.
  unfold parse_raw. cbn [p_bad p_tel]. rewrite coords_rows.
  destruct (first_bad Boson raw hh ww edge (rows ww 0 hh) 0) as [j|].
  - reflexivity.
  - rewrite length_rows. reflexivity.
Qed.

(* a raw slice too short for the pixels the parser reads: Go panics (slice bounds out of range
   at raw[i:i+2]), leaving the frame with the pixels stored so far *)
Theorem tie_boson_short_world : forall raw hh ww edge old w0 tok h,
    bhin w0 h -> bf_pix (bframe_of w0 h) = old -> tdims hh ww old -> bbytes w0 tok = raw ->
    (List.length raw < 2 * boson_pixels_read raw hh ww edge)%nat ->
    Boson_fn_convertRawBosonFrame bext tok h (Z.of_nat edge) w0 =
    Panicked (bset_frame w0 h (mkBF (stored raw hh ww old (List.length raw / 2)) boson_telemetry)).
Proof.
  intros raw hh ww edge old w0 tok h Hh Hold Hd Hraw Hlen.
  rewrite (run_scan raw hh ww edge old w0 tok h Hh Hold Hd Hraw).
  unfold boson_pixels_read in Hlen. rewrite coords_rows in Hlen.
  rewrite scan_short; [reflexivity | lia |].
  unfold reads. rewrite length_rows. exact Hlen.
Qed.

(* ---------- on the inputs of the model: one byte slice, one frame ---------- *)
Theorem tie_boson : forall raw h w edge old tel,
    tdims h w old ->
    (2 * boson_pixels_read raw h w edge <= List.length raw)%nat ->
    src_boson raw edge old tel = let (e, wd) := model_boson raw h w edge old in Ok e wd.
Proof.
  intros raw h w edge old tel Hd Hlen. unfold src_boson, model_boson.
  assert (Hh : bhin (bw_init raw old tel) H_OUT) by (unfold bhin, H_OUT; cbn [bw_init bw_frames List.length]; lia).
  rewrite (tie_boson_world raw h w edge old (bw_init raw old tel) T_RAW H_OUT Hh eq_refl Hd eq_refl Hlen).
  reflexivity.
Qed.

(* the whole frame is there (the recorder reads FrameSize bytes before parsing) *)
Corollary tie_boson_full : forall raw h w edge old tel,
    tdims h w old -> (2 * h * w <= List.length raw)%nat ->
    src_boson raw edge old tel = let (e, wd) := model_boson raw h w edge old in Ok e wd.
Proof.
  intros raw h w edge old tel Hd Hlen. apply tie_boson; [exact Hd|].
  pose proof (boson_pixels_read_le raw h w edge). nia.
Qed.

Theorem tie_boson_short : forall raw h w edge old tel,
    tdims h w old ->
    (List.length raw < 2 * boson_pixels_read raw h w edge)%nat ->
    src_boson raw edge old tel =
    Panicked (mkBW [raw] [mkBF (stored raw h w old (List.length raw / 2)) boson_telemetry]).
Proof.
  intros raw h w edge old tel Hd Hlen. unfold src_boson.
  assert (Hh : bhin (bw_init raw old tel) H_OUT) by (unfold bhin, H_OUT; cbn [bw_init bw_frames List.length]; lia).
  rewrite (tie_boson_short_world raw h w edge old (bw_init raw old tel) T_RAW H_OUT Hh eq_refl Hd eq_refl Hlen).
  reflexivity.
Qed.

(* bad-frame is returned exactly when some pixel off the border is zero *)
Corollary boson_source_bad_iff : forall raw h w edge old tel,
    tdims h w old -> (2 * h * w <= List.length raw)%nat ->
    exists wd, src_boson raw edge old tel = Ok (if has_bad_pixel Boson raw h w edge then ERR_BAD_FRAME else 0) wd.
Proof.
  intros raw h w edge old tel Hd Hlen. rewrite (tie_boson_full raw h w edge old tel Hd Hlen).
  unfold model_boson. rewrite parse_bad_iff. eexists; reflexivity.
Qed.

(* ---------- examples: 3 rows x 4 columns, edge 1 (interior: (1,1) and (1,2)) ---------- *)
Definition ex_old : grid := [[9; 9; 9; 9]; [9; 9; 9; 9]; [9; 9; 9; 9]].
Definition ex_tel : telemetry := mkTel 5 3 7 8 (S754_zero false) (S754_zero false) 6.
(* little-endian pixels 0x0101.. ; pixel (1,2) (number 6) is zero: off the border *)
Definition ex_raw_bad : list Z :=
  [1;1; 2;1; 3;1; 4;1;   5;1; 6;1; 0;0; 8;1;   9;1; 10;1; 11;1; 12;1].
(* pixel (0,0) and pixel (2,3) are zero: on the border *)
Definition ex_raw_ok : list Z :=
  [0;0; 2;1; 3;1; 4;1;   5;1; 6;1; 7;1; 8;1;   9;1; 10;1; 11;1; 0;0].

Example boson_ex_bad :
  src_boson ex_raw_bad 1 ex_old ex_tel =
  Ok ERR_BAD_FRAME (mkBW [ex_raw_bad] [mkBF [[257; 258; 259; 260]; [261; 262; 0; 9]; [9; 9; 9; 9]] boson_telemetry]) /\
  model_boson ex_raw_bad 3 4 1 ex_old =
  (ERR_BAD_FRAME, mkBW [ex_raw_bad] [mkBF [[257; 258; 259; 260]; [261; 262; 0; 9]; [9; 9; 9; 9]] boson_telemetry]).
Proof. vm_compute. split; reflexivity. Qed.

Example boson_ex_ok :
  src_boson ex_raw_ok 1 ex_old ex_tel =
  Ok 0 (mkBW [ex_raw_ok] [mkBF [[0; 258; 259; 260]; [261; 262; 263; 264]; [265; 266; 267; 0]] boson_telemetry]) /\
  model_boson ex_raw_ok 3 4 1 ex_old =
  (0, mkBW [ex_raw_ok] [mkBF [[0; 258; 259; 260]; [261; 262; 263; 264]; [265; 266; 267; 0]] boson_telemetry]).
Proof. vm_compute. split; reflexivity. Qed.

(* two bytes short: the last pixel cannot be read *)
Example boson_ex_short :
  src_boson (firstn 22 ex_raw_ok) 1 ex_old ex_tel =
  Panicked (mkBW [firstn 22 ex_raw_ok] [mkBF [[0; 258; 259; 260]; [261; 262; 263; 264]; [265; 266; 267; 9]] boson_telemetry]).
Proof. vm_compute. reflexivity. Qed.
