(* C09: no detection during / directly after an FFC period; with a fixed threshold, verdicts
   after the start of an FFC period, or after a reset, do not depend on earlier frame content. *)
From Coq Require Import List ZArith Bool Arith Lia.
From TR Require Import model.Ring model.RingSpec model.Detector model.DetSpec proofs.RingProofs proofs.DetC07.
Import ListNotations.
Open Scope Z_scope.

(* ------------------------------------------------------------------------------------ *)
(* Stream plumbing: runs over appended streams                                           *)
(* ------------------------------------------------------------------------------------ *)

Lemma drun_frame : forall c s f t,
    drun c s (DFrame f :: t) =
    (snd (detect c s f), s_thresh (fst (detect c s f))) :: drun c (fst (detect c s f)) t.
Proof. intros c s f t. cbn [drun]. destruct (detect c s f) as [s' m]. reflexivity. Qed.

Lemma drun_reset : forall c s t,
    drun c s (DReset :: t) = (false, s_thresh (dreset s)) :: drun c (dreset s) t.
Proof. reflexivity. Qed.

Lemma drun_app : forall c a b s,
    drun c s (a ++ b) = drun c s a ++ drun c (dfinal c s a) b.
Proof.
  intros c a b. induction a as [|e a IH]; intros s; [reflexivity|].
  destruct e as [f|].
  - rewrite <- app_comm_cons, !drun_frame. cbn [dfinal app]. now rewrite IH.
  - rewrite <- app_comm_cons, !drun_reset. cbn [dfinal app]. now rewrite IH.
Qed.

Lemma drun_length : forall c evs s, length (drun c s evs) = length evs.
Proof.
  intros c evs. induction evs as [|e t IH]; intros s; [reflexivity|].
  destruct e as [f|].
  - rewrite drun_frame. cbn [length]. now rewrite IH.
  - rewrite drun_reset. cbn [length]. now rewrite IH.
Qed.

Lemma verdicts_skip : forall c pre evs,
    skipn (length pre) (verdicts c (pre ++ evs)) =
    map fst (drun c (dfinal c (dinit c) pre) evs).
Proof.
  intros c pre evs. unfold verdicts. rewrite drun_app, map_app, skipn_app.
  rewrite map_length, drun_length, Nat.sub_diag. cbn [skipn].
  rewrite skipn_all2; [reflexivity|]. now rewrite map_length, drun_length.
Qed.

(* ------------------------------------------------------------------------------------ *)
(* Field-wise description of [detect]                                                    *)
(* ------------------------------------------------------------------------------------ *)

(* any configuration: the verdict is suppressed around FFC, and the flag is recorded *)
Lemma detect_affected : forall c s f,
    s_affected (fst (detect c s f)) = affected_by_ffc f.
Proof.
  intros c s f. unfold detect.
  destruct (d_dynamic c && negb (affected_by_ffc f)).
  - destruct (update_background c s f (s_affected s)) as [[[bg' wts'] avg] changed].
    destruct (s_firstdiff s); cbn [negb]; [|reflexivity].
    destruct (affected_by_ffc f || s_affected s); reflexivity.
  - destruct (s_firstdiff s); cbn [negb]; [|reflexivity].
    destruct (affected_by_ffc f || s_affected s); reflexivity.
Qed.

Lemma detect_suppressed : forall c s f,
    affected_by_ffc f || s_affected s = true -> snd (detect c s f) = false.
Proof.
  intros c s f H. unfold detect.
  destruct (d_dynamic c && negb (affected_by_ffc f)).
  - destruct (update_background c s f (s_affected s)) as [[[bg' wts'] avg] changed].
    destruct (s_firstdiff s); cbn [negb]; [|reflexivity].
    rewrite H. reflexivity.
  - destruct (s_firstdiff s); cbn [negb]; [|reflexivity].
    rewrite H. reflexivity.
Qed.

Lemma S09_supp_gen : forall c evs s,
    S09_supp (s_affected s) evs (map fst (drun c s evs)) = true.
Proof.
  intros c evs. induction evs as [|e t IH]; intros s; [reflexivity|].
  destruct e as [f|].
  - rewrite drun_frame. cbn [map fst S09_supp].
    rewrite <- (detect_affected c s f) at 2. rewrite IH, andb_true_r.
    destruct (affected_by_ffc f || s_affected s) eqn:E; [|reflexivity].
    rewrite (detect_suppressed c s f E). reflexivity.
  - rewrite drun_reset. cbn [map fst S09_supp negb andb].
    change (s_affected s) with (s_affected (dreset s)). apply IH.
Qed.

(* every configuration, fixed or dynamic threshold, any stream *)
Theorem S09_supp_holds : forall c evs,
    S09_supp false evs (verdicts c evs) = true.
Proof. intros c evs. exact (S09_supp_gen c evs (dinit c)). Qed.

(* ------------------------------------------------------------------------------------ *)
(* Fixed threshold: field-wise description of [detect]                                   *)
(* ------------------------------------------------------------------------------------ *)

(* the frame takes the "FFC branch" (marks itself as the oldest frame to compare against) *)
Definition ffc_branch (s : dstate) (f : frame) : bool :=
  s_firstdiff s && (affected_by_ffc f || s_affected s).

Definition cmp_frame (c : dcfg) (s : dstate) (f : frame) : frame :=
  oldest_slot (blank_frame c) (put (s_floored s) f).

Definition new_diff (c : dcfg) (s : dstate) (f : frame) : grid :=
  diff_grid c (s_thresh s) (f_pix f) (f_pix (cmp_frame c s f)).

Lemma detect_fixed_floored : forall c s f, d_dynamic c = false ->
    s_floored (fst (detect c s f)) =
    if ffc_branch s f then move (set_as_oldest (put (s_floored s) f))
    else move (put (s_floored s) f).
Proof.
  intros c s f Hd. unfold detect, ffc_branch. rewrite Hd. cbn [andb].
  destruct (s_firstdiff s); cbn [negb andb]; [|reflexivity].
  destruct (affected_by_ffc f || s_affected s); reflexivity.
Qed.

Lemma detect_fixed_diffs : forall c s f, d_dynamic c = false ->
    s_diffs (fst (detect c s f)) = move (put (s_diffs s) (new_diff c s f)).
Proof.
  intros c s f Hd. unfold detect, new_diff, cmp_frame. rewrite Hd. cbn [andb].
  destruct (s_firstdiff s); cbn [negb andb]; [|reflexivity].
  destruct (affected_by_ffc f || s_affected s); reflexivity.
Qed.

Lemma detect_fixed_firstdiff : forall c s f, d_dynamic c = false ->
    s_firstdiff (fst (detect c s f)) = negb (ffc_branch s f).
Proof.
  intros c s f Hd. unfold detect, ffc_branch. rewrite Hd. cbn [andb].
  destruct (s_firstdiff s); cbn [negb andb]; [|reflexivity].
  destruct (affected_by_ffc f || s_affected s); reflexivity.
Qed.

Lemma detect_fixed_thresh : forall c s f, d_dynamic c = false ->
    s_thresh (fst (detect c s f)) = s_thresh s.
Proof.
  intros c s f Hd. unfold detect. rewrite Hd. cbn [andb].
  destruct (s_firstdiff s); cbn [negb andb]; [|reflexivity].
  destruct (affected_by_ffc f || s_affected s); reflexivity.
Qed.

Lemma detect_fixed_verdict : forall c s f, d_dynamic c = false ->
    snd (detect c s f) =
    s_firstdiff s && negb (affected_by_ffc f || s_affected s) &&
    has_motion c (new_diff c s f)
               (current (zero_grid c) (move (put (s_diffs s) (new_diff c s f)))).
Proof.
  intros c s f Hd. unfold detect, new_diff, cmp_frame. rewrite Hd. cbn [andb].
  destruct (s_firstdiff s); cbn [negb andb]; [|reflexivity].
  destruct (affected_by_ffc f || s_affected s); reflexivity.
Qed.

(* ------------------------------------------------------------------------------------ *)
(* Lists, grids                                                                          *)
(* ------------------------------------------------------------------------------------ *)

Lemma len_upd : forall A (l : list A) n v, length (upd l n v) = length l.
Proof. induction l as [|h t IH]; intros [|n] v; cbn; auto. Qed.

Lemma nth_upd : forall A (d : A) (l : list A) n m v,
    (n < length l)%nat ->
    nth m (upd l n v) d = if Nat.eqb m n then v else nth m l d.
Proof.
  induction l as [|h t IH]; intros [|n] [|m] v H; cbn in *; try lia; try reflexivity.
  apply IH. lia.
Qed.

Lemma zth_upd : forall A (d : A) (l : list A) n c i v,
    length l = Z.to_nat n -> 0 <= c < n -> 0 <= i ->
    zth d (upd l (Z.to_nat c) v) i = if i =? c then v else zth d l i.
Proof.
  intros A d l n c i v Hl Hc Hi. unfold zth. rewrite nth_upd by lia.
  destruct (Z.eqb_spec i c) as [->|Hne].
  - now rewrite Nat.eqb_refl.
  - destruct (Nat.eqb_spec (Z.to_nat i) (Z.to_nat c)) as [E|E]; [lia|reflexivity].
Qed.

Lemma rem_next : forall n c, 0 <= c < n ->
    Z.rem (c + 1) n = if c + 1 =? n then 0 else c + 1.
Proof.
  intros n c Hc. destruct (Z.eqb_spec (c + 1) n) as [E|E].
  - rewrite E. apply Z.rem_same. lia.
  - apply Z.rem_small. lia.
Qed.

Definition gnonneg (g : grid) : Prop := forall y x, 0 <= gget g y x.

Lemma gget_gbuild : forall h w f y x,
    gget (gbuild h w f) y x = if (Nat.ltb y h && Nat.ltb x w)%bool then f y x else 0.
Proof.
  intros h w f y x. unfold gget, gbuild.
  destruct (Nat.ltb_spec y h) as [Hy|Hy].
  - rewrite (nth_indep _ [] (map (fun x0 => f 0%nat x0) (seq 0 w))) by (now rewrite map_length, seq_length).
    rewrite (map_nth (fun y0 => map (fun x0 => f y0 x0) (seq 0 w)) (seq 0 h) 0%nat y).
    rewrite seq_nth by assumption. cbn [Nat.add andb].
    destruct (Nat.ltb_spec x w) as [Hx|Hx].
    + rewrite (nth_indep _ 0 (f y 0%nat)) by (now rewrite map_length, seq_length).
      rewrite (map_nth (fun x0 => f y x0) (seq 0 w) 0%nat x).
      now rewrite seq_nth by assumption.
    + apply nth_overflow. now rewrite map_length, seq_length.
  - cbn [andb]. rewrite (nth_overflow _ []) by (now rewrite map_length, seq_length).
    now destruct x.
Qed.

Lemma zero_grid_nonneg : forall c, gnonneg (zero_grid c).
Proof.
  intros c y x. unfold zero_grid. rewrite gget_gbuild.
  destruct (_ && _)%bool; lia.
Qed.

Lemma diff_grid_nonneg : forall c t a b, gnonneg (diff_grid c t a b).
Proof.
  intros c t a b y x. unfold diff_grid. rewrite gget_gbuild.
  destruct (_ && _)%bool; [|lia].
  destruct (interior c y x); [|lia].
  destruct (d_warmer c).
  - unfold warmer_diff. destruct (Z.ltb_spec (floor_to t (gget a y x) - floor_to t (gget b y x)) 0); lia.
  - unfold abs_diff. lia.
Qed.

Lemma diff_grid_self : forall c t a y x, gget (diff_grid c t a a) y x = 0.
Proof.
  intros c t a y x. unfold diff_grid. rewrite gget_gbuild.
  destruct (_ && _)%bool; [|reflexivity].
  destruct (interior c y x); [|reflexivity].
  destruct (d_warmer c).
  - unfold warmer_diff. rewrite Z.sub_diag. reflexivity.
  - unfold abs_diff. rewrite Z.sub_diag. reflexivity.
Qed.

Lemma icount_ext : forall c p q,
    (forall y x, p y x = q y x) -> icount c p = icount c q.
Proof.
  intros c p q H. unfold icount. generalize 0 as n. generalize (icoords c) as l.
  induction l as [|yx l IH]; intros n; [reflexivity|].
  cbn [fold_left]. rewrite H. apply IH.
Qed.

(* comparing a frame against itself: the stale previous diff grid is irrelevant *)
Lemma has_motion_self : forall c dg p1 p2,
    (forall y x, gget dg y x = 0) -> gnonneg p1 -> gnonneg p2 ->
    has_motion c dg p1 = has_motion c dg p2.
Proof.
  intros c dg p1 p2 Hz H1 H2. unfold has_motion.
  destruct (d_one c); [reflexivity|].
  f_equal. apply icount_ext. intros y x. rewrite Hz.
  destruct (Z.ltb_spec (d_delta c) 0) as [Hlt|Hge]; [|reflexivity].
  cbn [andb]. specialize (H1 y x). specialize (H2 y x).
  destruct (Z.ltb_spec (d_delta c) (gget p1 y x)); destruct (Z.ltb_spec (d_delta c) (gget p2 y x)); try reflexivity; lia.
Qed.

Lemma has_motion_one : forall c dg p1 p2, d_one c = true ->
    has_motion c dg p1 = has_motion c dg p2.
Proof. intros c dg p1 p2 H. unfold has_motion. now rewrite H. Qed.

(* ------------------------------------------------------------------------------------ *)
(* Rings: well-formedness, equal control fields, clean slots                             *)
(* ------------------------------------------------------------------------------------ *)

Section RingRel.
  Variable A : Type.
  Variable d : A.

  (* well-formed ring of capacity n *)
  Definition rwf (n : Z) (r : ring A) : Prop :=
    size r = n /\ 0 <= cur r < n /\ -1 <= oldest r < n /\ length (slots r) = Z.to_nat n.

  (* equal control fields (everything but the slot contents) *)
  Definition rceq (r1 r2 : ring A) : Prop :=
    size r1 = size r2 /\ cur r1 = cur r2 /\ full r1 = full r2 /\ oldest r1 = oldest r2.

  Lemma rwf_new : forall n b, 2 <= n -> rwf n (new_ring n b).
  Proof.
    intros n b Hn. unfold rwf, new_ring. cbn [size cur oldest slots].
    rewrite repeat_length. lia.
  Qed.

  Lemma rwf_put : forall n r v, rwf n r -> rwf n (put r v).
  Proof.
    intros n r v (Hs & Hc & Ho & Hl). unfold rwf, put. cbn [size cur oldest slots].
    rewrite len_upd. auto.
  Qed.

  Lemma rwf_mark : forall n r, rwf n r -> rwf n (set_as_oldest r).
  Proof.
    intros n r (Hs & Hc & Ho & Hl). unfold rwf, set_as_oldest. cbn [size cur oldest slots].
    repeat split; auto; lia.
  Qed.

  Lemma rwf_move : forall n r, rwf n r -> rwf n (move r).
  Proof.
    intros n r (Hs & Hc & Ho & Hl). unfold rwf, move, next_index_after.
    cbn [size cur oldest slots]. rewrite Hs, rem_next by assumption.
    unfold NO_OLDEST_SET.
    destruct (Z.eqb_spec (cur r + 1) n);
      match goal with |- context [?a =? oldest r] => destruct (Z.eqb_spec a (oldest r)) end;
      repeat split; auto; lia.
  Qed.

  Lemma rwf_reset : forall n r, rwf n r -> rwf n (reset r).
  Proof.
    intros n r (Hs & Hc & Ho & Hl). unfold rwf, reset. cbn [size cur oldest slots].
    repeat split; auto; lia.
  Qed.

  Lemma rceq_refl : forall r, rceq r r.
  Proof. intros r. unfold rceq. auto. Qed.

  Lemma rceq_put : forall r1 r2 v1 v2, rceq r1 r2 -> rceq (put r1 v1) (put r2 v2).
  Proof. intros r1 r2 v1 v2 H. exact H. Qed.

  Lemma rceq_mark : forall r1 r2, rceq r1 r2 -> rceq (set_as_oldest r1) (set_as_oldest r2).
  Proof.
    intros r1 r2 (Hs & Hc & Hf & Ho). unfold rceq, set_as_oldest. cbn [size cur full oldest].
    auto.
  Qed.

  Lemma rceq_move : forall r1 r2, rceq r1 r2 -> rceq (move r1) (move r2).
  Proof.
    intros r1 r2 (Hs & Hc & Hf & Ho). unfold rceq, move, next_index_after.
    cbn [size cur full oldest]. rewrite Hs, Hc, Hf, Ho. auto.
  Qed.

  Lemma rceq_reset : forall r1 r2, rceq r1 r2 -> rceq (reset r1) (reset r2).
  Proof.
    intros r1 r2 (Hs & Hc & Hf & Ho). unfold rceq, reset. cbn [size cur full oldest]. auto.
  Qed.

  (* how long ago slot i was written, in moves: 0 for the current slot *)
  Definition age (n c i : Z) : Z := if i <=? c then c - i else c - i + n.

  (* Every slot (other than the current one, which the next frame overwrites before anything
     is read) that is at most as old as the marked slot holds the same data in both rings;
     without a mark, every slot other than the current one does. *)
  Definition fclean (r1 r2 : ring A) : Prop :=
    forall i, 0 <= i < size r1 -> i <> cur r1 ->
      (oldest r1 = -1 \/ age (size r1) (cur r1) i <= age (size r1) (cur r1) (oldest r1)) ->
      zth d (slots r1) i = zth d (slots r2) i.

  Lemma oldest_put_eq : forall n r1 r2 v, 2 <= n ->
      rwf n r1 -> rwf n r2 -> rceq r1 r2 -> fclean r1 r2 ->
      oldest_slot d (put r1 v) = oldest_slot d (put r2 v).
  Proof.
    intros n r1 r2 v Hn (Hs1 & Hc1 & Ho1 & Hl1) (Hs2 & Hc2 & Ho2 & Hl2) (Hs & Hc & Hf & Ho) Hcl.
    unfold oldest_slot, put, next_index_after. cbn [size cur oldest slots].
    rewrite <- Hs, <- Hc, <- Ho, Hs1. unfold NO_OLDEST_SET.
    destruct (Z.eqb_spec (oldest r1) (-1)) as [E|E]; cbn [negb].
    - rewrite rem_next by assumption.
      rewrite !(zth_upd A d _ n) by (destruct (Z.eqb_spec (cur r1 + 1) n); auto; lia).
      destruct (Z.eqb_spec (cur r1 + 1) n) as [E1|E1].
      + destruct (Z.eqb_spec 0 (cur r1)); [reflexivity|]. apply Hcl; auto; lia.
      + destruct (Z.eqb_spec (cur r1 + 1) (cur r1)); [reflexivity|]. apply Hcl; auto; lia.
    - rewrite !(zth_upd A d _ n) by (auto; lia).
      destruct (Z.eqb_spec (oldest r1) (cur r1)); [reflexivity|].
      apply Hcl; auto; lia.
  Qed.

  Lemma oldest_put_self : forall n r v, rwf n r -> oldest r = cur r ->
      oldest_slot d (put r v) = v.
  Proof.
    intros n r v (Hs & Hc & Ho & Hl) E.
    unfold oldest_slot, put. cbn [size cur oldest slots]. rewrite E. unfold NO_OLDEST_SET.
    destruct (Z.eqb_spec (cur r) (-1)); [lia|]. cbn [negb].
    rewrite (zth_upd A d _ n) by (auto; lia). now rewrite Z.eqb_refl.
  Qed.

  Lemma fclean_step : forall n r1 r2 v, 2 <= n ->
      rwf n r1 -> rwf n r2 -> rceq r1 r2 -> fclean r1 r2 ->
      fclean (move (put r1 v)) (move (put r2 v)).
  Proof.
    intros n r1 r2 v Hn (Hs1 & Hc1 & Ho1 & Hl1) (Hs2 & Hc2 & Ho2 & Hl2) (Hs & Hc & Hf & Ho) Hcl.
    unfold fclean, move, put, next_index_after. cbn [size cur oldest slots].
    rewrite <- Hc, Hs1, rem_next by assumption. unfold NO_OLDEST_SET.
    intros i Hi Hne Hage.
    rewrite !(zth_upd A d _ n) by (auto; lia).
    destruct (Z.eqb_spec i (cur r1)) as [Ei|Ei]; [reflexivity|].
    apply Hcl; [lia|assumption|]. rewrite Hs1.
    destruct (Z.eqb_spec (oldest r1) (-1)) as [Eo|Eo]; [now left|right].
    revert Hne Hage. unfold age.
    destruct (Z.eqb_spec (cur r1 + 1) n) as [E1|E1];
      match goal with |- context [?a =? oldest r1] => destruct (Z.eqb_spec a (oldest r1)) as [E2|E2] end;
      repeat match goal with |- context [?a <=? ?b] => destruct (Z.leb_spec a b) end; lia.
  Qed.

  Lemma fclean_mark : forall n r1 r2 v, 2 <= n ->
      rwf n r1 -> rwf n r2 -> rceq r1 r2 ->
      fclean (move (set_as_oldest (put r1 v))) (move (set_as_oldest (put r2 v))).
  Proof.
    intros n r1 r2 v Hn (Hs1 & Hc1 & Ho1 & Hl1) (Hs2 & Hc2 & Ho2 & Hl2) (Hs & Hc & Hf & Ho).
    unfold fclean, move, set_as_oldest, put, next_index_after. cbn [size cur oldest slots].
    rewrite <- Hc, Hs1, rem_next by assumption. unfold NO_OLDEST_SET.
    intros i Hi Hne Hage.
    rewrite !(zth_upd A d _ n) by (auto; lia).
    destruct (Z.eqb_spec i (cur r1)) as [Ei|Ei]; [reflexivity|]. exfalso.
    revert Hne Hage. unfold age.
    destruct (Z.eqb_spec (cur r1 + 1) n) as [E1|E1];
      match goal with |- context [?a =? cur r1] => destruct (Z.eqb_spec a (cur r1)) as [E2|E2] end;
      repeat match goal with |- context [?a <=? ?b] => destruct (Z.leb_spec a b) end; lia.
  Qed.

  Lemma fclean_reset : forall r1 r2, fclean (reset r1) (reset r2).
  Proof.
    intros r1 r2. unfold fclean, reset. cbn [size cur oldest slots].
    intros i Hi Hne Hage. exfalso. revert Hage. unfold age.
    repeat match goal with |- context [?a <=? ?b] => destruct (Z.leb_spec a b) end; lia.
  Qed.
End RingRel.

Arguments rwf {A} n r.
Arguments rceq {A} r1 r2.
Arguments fclean {A} d r1 r2.

(* ------------------------------------------------------------------------------------ *)
(* Control state: evolves independently of pixel data                                    *)
(* ------------------------------------------------------------------------------------ *)

(* well-formed diff ring: capacity 2, non-negative entries *)
Definition dwf (c : dcfg) (r : ring grid) : Prop :=
  rwf 2 r /\ gnonneg (zth (zero_grid c) (slots r) 0) /\ gnonneg (zth (zero_grid c) (slots r) 1).

Record ctrl_eq (c : dcfg) (s1 s2 : dstate) : Prop := mkCE {
  ce_fwf1 : rwf (d_gap c + 1) (s_floored s1);
  ce_fwf2 : rwf (d_gap c + 1) (s_floored s2);
  ce_feq : rceq (s_floored s1) (s_floored s2);
  ce_dwf1 : dwf c (s_diffs s1);
  ce_dwf2 : dwf c (s_diffs s2);
  ce_deq : rceq (s_diffs s1) (s_diffs s2);
  ce_first : s_firstdiff s1 = s_firstdiff s2;
  ce_aff : s_affected s1 = s_affected s2;
  ce_thresh : s_thresh s1 = s_thresh s2
}.

Lemma dwf_new : forall c, dwf c (new_ring 2 (zero_grid c)).
Proof.
  intros c. split; [apply rwf_new; lia|].
  split; apply zero_grid_nonneg.
Qed.

Lemma dwf_step : forall c r t a b, dwf c r -> dwf c (move (put r (diff_grid c t a b))).
Proof.
  intros c r t a b (Hw & H0 & H1). split; [now apply rwf_move, rwf_put|].
  destruct Hw as (Hs & Hc & Ho & Hl).
  unfold move, put. cbn [slots cur].
  rewrite !(zth_upd _ (zero_grid c) _ 2) by (auto; lia).
  split.
  - destruct (0 =? cur r); [apply diff_grid_nonneg|exact H0].
  - destruct (1 =? cur r); [apply diff_grid_nonneg|exact H1].
Qed.

Lemma dwf_reset : forall c r, dwf c r -> dwf c (reset r).
Proof. intros c r (Hw & H0 & H1). split; [now apply rwf_reset|]. split; assumption. Qed.

Lemma ctrl_eq_init : forall c, 1 <= d_gap c -> ctrl_eq c (dinit c) (dinit c).
Proof.
  intros c Hg. unfold dinit. constructor; cbn [s_floored s_diffs s_firstdiff s_affected s_thresh];
    try reflexivity; try apply rceq_refl; try apply dwf_new; apply rwf_new; lia.
Qed.

Lemma ctrl_eq_detect : forall c s1 s2 f g,
    d_dynamic c = false -> ctrl_eq c s1 s2 ->
    affected_by_ffc f = affected_by_ffc g ->
    ctrl_eq c (fst (detect c s1 f)) (fst (detect c s2 g)).
Proof.
  intros c s1 s2 f g Hd [Hw1 Hw2 He Hd1 Hd2 Hde Hf Ha Ht] Hfg.
  assert (Hb : ffc_branch s1 f = ffc_branch s2 g) by (unfold ffc_branch; now rewrite Hf, Ha, Hfg).
  constructor.
  - rewrite detect_fixed_floored by assumption.
    destruct (ffc_branch s1 f); auto using rwf_move, rwf_mark, rwf_put.
  - rewrite detect_fixed_floored by assumption.
    destruct (ffc_branch s2 g); auto using rwf_move, rwf_mark, rwf_put.
  - rewrite !detect_fixed_floored by assumption. rewrite <- Hb.
    destruct (ffc_branch s1 f); auto using rceq_move, rceq_mark, rceq_put.
  - rewrite detect_fixed_diffs by assumption. now apply dwf_step.
  - rewrite detect_fixed_diffs by assumption. now apply dwf_step.
  - rewrite !detect_fixed_diffs by assumption. now apply rceq_move, rceq_put.
  - rewrite !detect_fixed_firstdiff by assumption. now rewrite Hb.
  - now rewrite !detect_affected.
  - now rewrite !detect_fixed_thresh.
Qed.

Lemma ctrl_eq_reset : forall c s1 s2, ctrl_eq c s1 s2 -> ctrl_eq c (dreset s1) (dreset s2).
Proof.
  intros c s1 s2 [Hw1 Hw2 He Hd1 Hd2 Hde Hf Ha Ht]. unfold dreset.
  constructor; cbn [s_floored s_diffs s_firstdiff s_affected s_thresh];
    auto using rwf_reset, rceq_reset, dwf_reset.
Qed.

(* ------------------------------------------------------------------------------------ *)
(* The relation between two runs that have entered the common suffix                     *)
(* ------------------------------------------------------------------------------------ *)

(* The diff grid the next frame reads as "previous diff" is the same in both runs, or is not
   looked at (one diff only), or the next frame is compared against itself (first frame after
   a reset), which makes its own diff grid zero. *)
Definition dinv (c : dcfg) (s1 s2 : dstate) : Prop :=
  d_one c = true \/
  zth (zero_grid c) (slots (s_diffs s1)) (1 - cur (s_diffs s1)) =
  zth (zero_grid c) (slots (s_diffs s2)) (1 - cur (s_diffs s1)) \/
  oldest (s_floored s1) = cur (s_floored s1).

Record related (c : dcfg) (s1 s2 : dstate) : Prop := mkRel {
  rel_ctrl : ctrl_eq c s1 s2;
  (* the floored ring is clean, or the next frame takes the FFC branch (and cleans it) *)
  rel_floor : fclean (blank_frame c) (s_floored s1) (s_floored s2) \/
              (s_firstdiff s1 = true /\ s_affected s1 = true);
  (* the diff ring is clean, or the next frame returns false without looking *)
  rel_diff : dinv c s1 s2 \/ s_firstdiff s1 = false \/ s_affected s1 = true
}.

(* the diff slot read as "previous diff" *)
Lemma prev_diff_slot : forall c r g, rwf 2 r ->
    current (zero_grid c) (move (put r g)) = zth (zero_grid c) (slots r) (1 - cur r).
Proof.
  intros c r g (Hs & Hc & Ho & Hl). unfold current, move, put, next_index_after.
  cbn [size cur slots]. rewrite Hs, rem_next by assumption.
  rewrite (zth_upd _ (zero_grid c) _ 2) by (auto; destruct (Z.eqb_spec (cur r + 1) 2); lia).
  assert (E : cur r = 0 \/ cur r = 1) by lia. destruct E as [E|E]; rewrite E; reflexivity.
Qed.

(* the diff slot written by this frame is the one the next frame reads *)
Lemma next_prev_diff_slot : forall c r g, rwf 2 r ->
    zth (zero_grid c) (slots (move (put r g))) (1 - cur (move (put r g))) = g.
Proof.
  intros c r g (Hs & Hc & Ho & Hl). unfold move, put, next_index_after.
  cbn [size cur slots]. rewrite Hs, rem_next by assumption.
  rewrite (zth_upd _ (zero_grid c) _ 2) by (auto; destruct (Z.eqb_spec (cur r + 1) 2); lia).
  assert (E : cur r = 0 \/ cur r = 1) by lia. destruct E as [E|E]; rewrite E; reflexivity.
Qed.

Lemma new_diff_eq : forall c s1 s2 f, 1 <= d_gap c ->
    ctrl_eq c s1 s2 -> fclean (blank_frame c) (s_floored s1) (s_floored s2) ->
    new_diff c s1 f = new_diff c s2 f.
Proof.
  intros c s1 s2 f Hg [Hw1 Hw2 He Hd1 Hd2 Hde Hf Ha Ht] Hcl.
  unfold new_diff, cmp_frame. rewrite Ht.
  rewrite (oldest_put_eq _ (blank_frame c) (d_gap c + 1) (s_floored s1) (s_floored s2)) by (auto; lia).
  reflexivity.
Qed.

Lemma related_detect : forall c s1 s2 f,
    d_dynamic c = false -> 1 <= d_gap c -> related c s1 s2 ->
    related c (fst (detect c s1 f)) (fst (detect c s2 f)) /\
    snd (detect c s1 f) = snd (detect c s2 f).
Proof.
  intros c s1 s2 f Hd Hg [Hce Hfl Hdf].
  assert (Hce' := ctrl_eq_detect c s1 s2 f f Hd Hce eq_refl).
  pose proof Hce as Hce0.
  destruct Hce as [Hw1 Hw2 He Hd1 Hd2 Hde Hf Ha Ht].
  assert (Hb : ffc_branch s1 f = ffc_branch s2 f) by (unfold ffc_branch; now rewrite Hf, Ha).
  split; [constructor|].
  - exact Hce'.
  - left. rewrite !detect_fixed_floored by assumption. rewrite <- Hb.
    destruct (ffc_branch s1 f) eqn:Eb.
    + apply (fclean_mark _ _ (d_gap c + 1)); auto; lia.
    + destruct Hfl as [Hcl|[H1 H2]].
      * apply (fclean_step _ _ (d_gap c + 1)); auto; lia.
      * unfold ffc_branch in Eb. rewrite H1, H2, orb_true_r in Eb. discriminate.
  - destruct Hfl as [Hcl|[H1 H2]].
    + left. right. left.
      rewrite !detect_fixed_diffs by assumption.
      rewrite (next_prev_diff_slot c (s_diffs s1)) by apply Hd1.
      pose proof (rceq_move _ _ _ (rceq_put _ _ _ (new_diff c s1 f) (new_diff c s2 f) Hde))
        as (_ & Hc' & _).
      rewrite Hc'. rewrite (next_prev_diff_slot c (s_diffs s2)) by apply Hd2.
      apply new_diff_eq; auto.
    + right. left. rewrite detect_fixed_firstdiff by assumption.
      unfold ffc_branch. rewrite H1, H2, orb_true_r. reflexivity.
  - rewrite !detect_fixed_verdict by assumption. rewrite <- Hf, <- Ha.
    destruct (s_firstdiff s1) eqn:E1; [|reflexivity].
    destruct (affected_by_ffc f || s_affected s1) eqn:E2; [reflexivity|]. cbn [negb andb].
    apply orb_false_elim in E2. destruct E2 as [E2 E3].
    destruct Hfl as [Hcl|[_ H2]]; [|congruence].
    destruct Hdf as [Hdi|[H|H]]; [|congruence|congruence].
    assert (Hnd : new_diff c s1 f = new_diff c s2 f).
    { apply new_diff_eq; auto. }
    rewrite <- Hnd.
    rewrite !prev_diff_slot by (apply Hd1 || apply Hd2).
    destruct Hde as (_ & Hdc & _). rewrite <- Hdc.
    destruct Hdi as [Hone|[Hsl|Hself]].
    + now apply has_motion_one.
    + now rewrite Hsl.
    + apply has_motion_self.
      * intros y x. unfold new_diff, cmp_frame.
        rewrite (oldest_put_self _ (blank_frame c) (d_gap c + 1)) by assumption.
        apply diff_grid_self.
      * destruct Hd1 as ((_ & Hc1 & _) & H0 & H1).
        assert (E : cur (s_diffs s1) = 0 \/ cur (s_diffs s1) = 1) by lia.
        destruct E as [E|E]; rewrite E; assumption.
      * destruct Hd1 as ((_ & Hc1 & _) & _). destruct Hd2 as (_ & H0 & H1).
        assert (E : cur (s_diffs s1) = 0 \/ cur (s_diffs s1) = 1) by lia.
        destruct E as [E|E]; rewrite E; assumption.
Qed.

Lemma related_reset : forall c s1 s2, ctrl_eq c s1 s2 -> related c (dreset s1) (dreset s2).
Proof.
  intros c s1 s2 Hce. constructor.
  - now apply ctrl_eq_reset.
  - left. unfold dreset. cbn [s_floored]. apply fclean_reset.
  - left. right. right. reflexivity.
Qed.

(* entering at an FFC-affected frame, from equal control states and arbitrary data *)
Lemma related_enter_ffc : forall c s1 s2 f,
    d_dynamic c = false -> 1 <= d_gap c -> ctrl_eq c s1 s2 -> affected_by_ffc f = true ->
    related c (fst (detect c s1 f)) (fst (detect c s2 f)) /\
    snd (detect c s1 f) = snd (detect c s2 f).
Proof.
  intros c s1 s2 f Hd Hg Hce Haf.
  assert (Hce' := ctrl_eq_detect c s1 s2 f f Hd Hce eq_refl).
  split; [constructor|].
  - exact Hce'.
  - destruct Hce as [Hw1 Hw2 He Hd1 Hd2 Hde Hf Ha Ht].
    destruct (s_firstdiff s1) eqn:E1.
    + left. rewrite !detect_fixed_floored by assumption.
      unfold ffc_branch. rewrite <- Hf, E1, Haf. cbn [andb orb].
      apply (fclean_mark _ _ (d_gap c + 1)); auto; lia.
    + right. rewrite detect_fixed_firstdiff, detect_affected by assumption.
      unfold ffc_branch. rewrite E1. auto.
  - right. right. now rewrite detect_affected.
  - rewrite !detect_suppressed by (now rewrite Haf). reflexivity.
Qed.

Lemma related_run : forall c evs s1 s2,
    d_dynamic c = false -> 1 <= d_gap c -> related c s1 s2 ->
    map fst (drun c s1 evs) = map fst (drun c s2 evs).
Proof.
  intros c evs. induction evs as [|e t IH]; intros s1 s2 Hd Hg Hr; [reflexivity|].
  destruct e as [f|].
  - rewrite !drun_frame. cbn [map fst].
    destruct (related_detect c s1 s2 f Hd Hg Hr) as [Hr' Hv].
    rewrite Hv. f_equal. now apply IH.
  - rewrite !drun_reset. cbn [map fst]. f_equal. apply IH; auto.
    apply related_reset, Hr.
Qed.

(* same shape: resets at the same positions, frames FFC-affected at the same positions *)
Definition same_shape (a b : list dev) : Prop :=
  Forall2 (fun x y => match x, y with
                      | DReset, DReset => True
                      | DFrame f, DFrame g => affected_by_ffc f = affected_by_ffc g
                      | _, _ => False end) a b.

(* streams of the same shape lead to the same control state *)
Lemma ctrl_eq_dfinal : forall c a b, d_dynamic c = false -> same_shape a b ->
    forall s1 s2, ctrl_eq c s1 s2 -> ctrl_eq c (dfinal c s1 a) (dfinal c s2 b).
Proof.
  intros c a b Hd H. induction H as [|x y a b Hxy Hab IH]; intros s1 s2 Hce; [exact Hce|].
  destruct x as [f|], y as [g|]; try contradiction; cbn [dfinal]; apply IH.
  - now apply ctrl_eq_detect.
  - now apply ctrl_eq_reset.
Qed.

(* two streams of the same shape that agree from an FFC-affected frame [f] on give the
   same verdicts from that frame on *)
Theorem ffc_independent : forall c pre1 pre2 f post,
    d_dynamic c = false -> 1 <= d_count c -> 1 <= d_gap c ->
    same_shape pre1 pre2 -> affected_by_ffc f = true ->
    skipn (length pre1) (verdicts c (pre1 ++ DFrame f :: post)) =
    skipn (length pre2) (verdicts c (pre2 ++ DFrame f :: post)).
Proof.
  intros c pre1 pre2 f post Hd _ Hg Hsh Haf. rewrite !verdicts_skip.
  assert (Hce := ctrl_eq_dfinal c pre1 pre2 Hd Hsh _ _ (ctrl_eq_init c Hg)).
  rewrite !drun_frame. cbn [map fst].
  destruct (related_enter_ffc c _ _ f Hd Hg Hce Haf) as [Hr Hv].
  rewrite Hv. f_equal. now apply related_run.
Qed.

(* ... and the same after a camera reset *)
Theorem reset_independent : forall c pre1 pre2 post,
    d_dynamic c = false -> 1 <= d_count c -> 1 <= d_gap c ->
    same_shape pre1 pre2 ->
    skipn (length pre1) (verdicts c (pre1 ++ DReset :: post)) =
    skipn (length pre2) (verdicts c (pre2 ++ DReset :: post)).
Proof.
  intros c pre1 pre2 post Hd _ Hg Hsh. rewrite !verdicts_skip.
  assert (Hce := ctrl_eq_dfinal c pre1 pre2 Hd Hsh _ _ (ctrl_eq_init c Hg)).
  rewrite !drun_reset. cbn [map fst]. f_equal.
  apply related_run; auto. now apply related_reset.
Qed.
