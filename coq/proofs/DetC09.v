(* C09: no detection during / directly after an FFC period; with a fixed threshold, verdicts
   after the start of an FFC period, or after a reset, do not depend on earlier frame content. *)
From Coq Require Import List ZArith Bool Arith Lia.
From TR Require Import model.Ring model.RingSpec model.Detector model.DetSpec proofs.RingProofs proofs.DetC07.
Import ListNotations.
Open Scope Z_scope.

(* every configuration, fixed or dynamic threshold, any stream *)
Theorem S09_supp_holds : forall c evs,
    S09_supp false evs (verdicts c evs) = true.
Admitted.

(* same shape: resets at the same positions, frames FFC-affected at the same positions *)
Definition same_shape (a b : list dev) : Prop :=
  Forall2 (fun x y => match x, y with
                      | DReset, DReset => True
                      | DFrame f, DFrame g => affected_by_ffc f = affected_by_ffc g
                      | _, _ => False end) a b.

(* two streams of the same shape that agree from an FFC-affected frame [f] on give the
   same verdicts from that frame on *)
Theorem ffc_independent : forall c pre1 pre2 f post,
    d_dynamic c = false -> 1 <= d_count c -> 1 <= d_gap c ->
    same_shape pre1 pre2 -> affected_by_ffc f = true ->
    skipn (length pre1) (verdicts c (pre1 ++ DFrame f :: post)) =
    skipn (length pre2) (verdicts c (pre2 ++ DFrame f :: post)).
Admitted.

(* ... and the same after a camera reset *)
Theorem reset_independent : forall c pre1 pre2 post,
    d_dynamic c = false -> 1 <= d_count c -> 1 <= d_gap c ->
    same_shape pre1 pre2 ->
    skipn (length pre1) (verdicts c (pre1 ++ DReset :: post)) =
    skipn (length pre2) (verdicts c (pre2 ++ DReset :: post)).
Admitted.
