(* Source tie for the throttle's event sink: ThrottledEventRecorder.WhenThrottled
   (throttle/throttled_event_recorder.go), the listener the throttled recorder calls once per suppressed start
   and once per cut (translated/ThrottledRecorder.v: "ThrottledRecorder.listener.WhenThrottled"; model/Throttle.v:
   the [Throttled] entries of the throttle's trace, counted by S06e).

   coq/translated/ThrottleEvents.v is regenerated from the Go source on every run (translate/daemon.go);
   model/EventsExt.v gives the calls that leave it their meaning: a clock script, scripts for the results of
   json.Marshal, dbus.SystemBus and the D-Bus call, a table of the values made on the way, and a LOG of every
   clock reading, Marshal, SystemBus, D-Bus call made and log line.

   Every theorem is for EVERY state of that world (no side condition: the code is loop-free, the handler total):
     tie_WhenThrottled         the function never panics, returns nothing (its Go type has no result: no error can
                               reach the throttle), and result world and added log are [when_world] / [when_log],
                               by the outcomes of Marshal, SystemBus and the call;
     when_at_most_one          at most one D-Bus call per WhenThrottled;
     when_exactly_one_iff      exactly one iff neither json.Marshal nor dbus.SystemBus fails;
     when_queue_shape          that call is org.cacophony.Events.Queue on (org.cacophony.Events,
                               /org/cacophony/Events), flags 0, details {"description": {"type": "throttle"}},
                               time stamp = the clock reading taken at ENTRY (before anything could fail or block);
     when_failure_logged       each of the three failures is reported by exactly one log line carrying that error,
                               and by nothing else;
     when_n / when_n_healthy   n calls in a row never panic; with no Marshal and no SystemBus failure scripted they
                               make exactly n Queue calls, stamped with the first n clock readings in order;
     events_per_incident       for the throttle's own trace (model/Throttle.v): one WhenThrottled per [Throttled]
                               entry gives exactly [count_throttled] Queue calls.
   No axioms. *)
From Coq Require Import String List ZArith Bool Arith Lia.
From TR Require Import model.GoSem translated.ThrottleEvents model.EventsExt.
Import ListNotations.
Open Scope Z_scope.

(* ---------- what is translated ---------- *)
Lemma events_untranslated : untranslated_ThrottleEvents = [].
Proof. reflexivity. Qed.

(* every name under which the unit leaves the translation has a clause in the handler *)
Lemma events_ext_names_known : forallb (fun n => existsb (String.eqb n) eext_names) ext_names_ThrottleEvents = true.
Proof. vm_compute. reflexivity. Qed.

(* ---------- the description of one call ---------- *)
Definition DETAILS : list (string * jval) := [("description"%string, JMap [("type"%string, JStr "throttle")])].
Definition MSG : string := "Could not record throttle event: %s".
Definition EV_DEST : string := "org.cacophony.Events".
Definition EV_PATH : string := "/org/cacophony/Events".
Definition EV_METHOD : string := "org.cacophony.Events.Queue".

(* the Queue call with time stamp ts whose *dbus.Call carries the error e *)
Definition queue_ev (ts e : Z) : xev := XCall EV_DEST EV_PATH EV_METHOD 0 DETAILS ts e.

Definition now_of (w : eworld) : Z := hd 0 (ew_clock w).
Definition marshal_of (w : eworld) : option positive := hd None (ew_marshal w).
Definition bus_of (w : eworld) : option positive := hd None (ew_bus w).
Definition call_of (w : eworld) : option positive := hd None (ew_call w).

Definition when_log (w : eworld) : list xev :=
  match marshal_of w with
  | Some e => [XNow (now_of w); XMarshal false; XLogLine MSG (Zpos e)]
  | None =>
    match bus_of w with
    | Some e => [XNow (now_of w); XMarshal true; XBus false; XLogLine MSG (Zpos e)]
    | None =>
      match call_of w with
      | Some e => [XNow (now_of w); XMarshal true; XBus true; queue_ev (now_of w) (Zpos e); XLogLine MSG (Zpos e)]
      | None => [XNow (now_of w); XMarshal true; XBus true; queue_ev (now_of w) 0]
      end
    end
  end.

(* the values made on the way, latest first, n the first fresh token *)
Definition when_vals (w : eworld) : list (Z * xval) :=
  let n := ew_next w in
  let maps := [(n + 1 + 1, XVMap DETAILS); (n + 1, XVMap [("type"%string, JStr "throttle")]); (n, XVTime (now_of w))] in
  match marshal_of w with
  | Some _ => maps
  | None =>
    match bus_of w with
    | Some _ => (n + 1 + 1 + 1, XVJson DETAILS) :: maps
    | None =>
      [(n + 1 + 1 + 1 + 1 + 1 + 1, XVCall (xerr (call_of w))); (n + 1 + 1 + 1 + 1 + 1, XVObj EV_DEST EV_PATH);
       (n + 1 + 1 + 1 + 1, XVConn); (n + 1 + 1 + 1, XVJson DETAILS)] ++ maps
    end
  end.

Definition when_world (w : eworld) : eworld :=
  match marshal_of w with
  | Some e =>
    mkEW (tl (ew_clock w)) (tl (ew_marshal w)) (ew_bus w) (ew_call w) (when_vals w ++ ew_vals w) (ew_next w + 1 + 1 + 1)
         (Zpos e) (ew_log w ++ when_log w)
  | None =>
    match bus_of w with
    | Some e =>
      mkEW (tl (ew_clock w)) (tl (ew_marshal w)) (tl (ew_bus w)) (ew_call w) (when_vals w ++ ew_vals w)
           (ew_next w + 1 + 1 + 1 + 1) (Zpos e) (ew_log w ++ when_log w)
    | None =>
      mkEW (tl (ew_clock w)) (tl (ew_marshal w)) (tl (ew_bus w)) (tl (ew_call w)) (when_vals w ++ ew_vals w)
           (ew_next w + 1 + 1 + 1 + 1 + 1 + 1 + 1) 0 (ew_log w ++ when_log w)
    end
  end.

(* ---------- proof machinery ---------- *)
Ltac eunfold :=
  cbv beta iota zeta delta [bind ret call_ext eext String.eqb Ascii.eqb Bool.eqb
      do_now do_unixnano do_map_lit map_entries do_marshal do_bus do_object do_call do_field_err do_printf xbad
      xlog xalloc xset_pend xset_clock xset_marshal xset_bus xset_call xget xnext vget xerr
      ew_clock ew_marshal ew_bus ew_call ew_vals ew_next ew_pend ew_log fst snd andb negb].

(* token comparisons: decided by arithmetic *)
Ltac zcmp :=
  repeat match goal with
         | |- context [?a =? ?b] =>
           first [ replace (a =? b) with true by (symmetry; apply Z.eqb_eq; lia)
                 | replace (a =? b) with false by (symmetry; apply Z.eqb_neq; lia) ]
         end.

Ltac estep := repeat progress (eunfold; zcmp).

Ltac lognorm := repeat rewrite <- app_assoc; rewrite ?app_nil_r; cbn [app].

Theorem tie_WhenThrottled : forall w, src_when w = Ok tt (when_world w).
Proof.
  intros [clock ms bs cs vals next pend log].
  unfold src_when, ThrottledEventRecorder_WhenThrottled, when_world, when_log, when_vals, queue_ev,
    now_of, marshal_of, bus_of, call_of, DETAILS, MSG, EV_DEST, EV_PATH, EV_METHOD.
  estep.
  destruct (hd None ms) as [e|]; estep.
  { lognorm. reflexivity. }
  destruct (hd None bs) as [e|]; estep.
  { lognorm. reflexivity. }
  destruct (hd None cs) as [e|]; estep; lognorm; reflexivity.
Qed.

(* ---------- what one call does ---------- *)
Lemma when_log_since : forall w, elog_since w (when_world w) = when_log w.
Proof.
  intros w. unfold elog_since.
  assert (E : ew_log (when_world w) = ew_log w ++ when_log w).
  { unfold when_world. destruct (marshal_of w); [reflexivity|]. destruct (bus_of w); reflexivity. }
  rewrite E. clear E. induction (ew_log w) as [|a l IH]; [reflexivity|exact IH].
Qed.

(* the added log, spelt out *)
Lemma when_log_unfolded : forall w,
  elog_since w (when_world w) = when_log w /\
  when_log w =
    match marshal_of w with
    | Some e => [XNow (now_of w); XMarshal false; XLogLine MSG (Zpos e)]
    | None =>
      match bus_of w with
      | Some e => [XNow (now_of w); XMarshal true; XBus false; XLogLine MSG (Zpos e)]
      | None =>
        match call_of w with
        | Some e => [XNow (now_of w); XMarshal true; XBus true; queue_ev (now_of w) (Zpos e); XLogLine MSG (Zpos e)]
        | None => [XNow (now_of w); XMarshal true; XBus true; queue_ev (now_of w) 0]
        end
      end
    end.
Proof. intros w; split; [exact (when_log_since w)|reflexivity]. Qed.

(* at most one D-Bus call *)
Theorem when_at_most_one : forall w, (List.length (queue_calls (when_log w)) <= 1)%nat.
Proof.
  intros w. unfold when_log. destruct (marshal_of w); [cbn; lia|]. destruct (bus_of w); [cbn; lia|].
  destruct (call_of w); cbn; lia.
Qed.

(* exactly one iff neither json.Marshal nor dbus.SystemBus fails - whatever the call itself answers *)
Theorem when_exactly_one_iff : forall w,
  List.length (queue_calls (when_log w)) = 1%nat <-> marshal_of w = None /\ bus_of w = None.
Proof.
  intros w. unfold when_log. destruct (marshal_of w) as [e|].
  { cbn. split; [discriminate|]. intros [H _]; discriminate. }
  destruct (bus_of w) as [e|].
  { cbn. split; [discriminate|]. intros [_ H]; discriminate. }
  destruct (call_of w); cbn; split; auto.
Qed.

(* the call that is made: Queue on the events service, type "throttle", stamped with the reading taken at entry *)
Theorem when_queue_shape : forall w e,
  In e (queue_calls (when_log w)) -> e = queue_ev (now_of w) (xerr (call_of w)).
Proof.
  intros w e. unfold when_log. destruct (marshal_of w); [cbn; tauto|]. destruct (bus_of w); [cbn; tauto|].
  destruct (call_of w); cbn; intros [H|[]]; subst; reflexivity.
Qed.

(* the clock is read first, once: before anything that can fail *)
Theorem when_reads_clock_first : forall w,
  exists rest, when_log w = XNow (now_of w) :: rest /\
               forallb (fun e => match e with XNow _ => false | _ => true end) rest = true.
Proof.
  intros w. unfold when_log. destruct (marshal_of w); [eexists; split; reflexivity|].
  destruct (bus_of w); [eexists; split; reflexivity|]. destruct (call_of w); eexists; split; reflexivity.
Qed.

(* the first thing that fails *)
Definition when_failure (w : eworld) : option positive :=
  match marshal_of w with
  | Some e => Some e
  | None => match bus_of w with Some e => Some e | None => call_of w end
  end.
Definition is_line (e : xev) : bool := match e with XLogLine _ _ => true | _ => false end.

(* a failure is reported by exactly one log line carrying that error - and by nothing else (the function has no
   result); no failure: no line *)
Theorem when_failure_logged : forall w,
  filter is_line (when_log w) = match when_failure w with Some e => [XLogLine MSG (Zpos e)] | None => [] end.
Proof.
  intros w. unfold when_log, when_failure. destruct (marshal_of w); [reflexivity|]. destruct (bus_of w); [reflexivity|].
  destruct (call_of w); reflexivity.
Qed.

Theorem when_no_bad : forall w, filter is_xbad (when_log w) = [].
Proof.
  intros w. unfold when_log. destruct (marshal_of w); [reflexivity|]. destruct (bus_of w); [reflexivity|].
  destruct (call_of w); reflexivity.
Qed.

(* ---------- n calls in a row ---------- *)
Fixpoint when_n_world (n : nat) (w : eworld) : eworld :=
  match n with O => w | S k => when_n_world k (when_world w) end.
Fixpoint when_n_log (n : nat) (w : eworld) : list xev :=
  match n with O => [] | S k => when_log w ++ when_n_log k (when_world w) end.

(* never a panic *)
Theorem when_n : forall n w, src_when_n n w = Some (when_n_world n w).
Proof.
  induction n as [|n IH]; intros w; cbn [src_when_n when_n_world]; [reflexivity|].
  rewrite tie_WhenThrottled. apply IH.
Qed.

Lemma when_world_log : forall w, ew_log (when_world w) = ew_log w ++ when_log w.
Proof. intros w. unfold when_world. destruct (marshal_of w); [reflexivity|]. destruct (bus_of w); reflexivity. Qed.

Lemma when_n_world_log : forall n w, ew_log (when_n_world n w) = ew_log w ++ when_n_log n w.
Proof.
  induction n as [|n IH]; intros w; cbn [when_n_world when_n_log]; [rewrite app_nil_r; reflexivity|].
  rewrite IH, when_world_log, <- app_assoc. reflexivity.
Qed.

Lemma queue_calls_app : forall a b, queue_calls (a ++ b) = queue_calls a ++ queue_calls b.
Proof. intros; unfold queue_calls; apply filter_app. Qed.

(* never more Queue calls than incidents *)
Theorem when_n_at_most : forall n w, (List.length (queue_calls (when_n_log n w)) <= n)%nat.
Proof.
  induction n as [|n IH]; intros w; cbn [when_n_log]; [cbn; lia|].
  rewrite queue_calls_app, app_length. pose proof (when_at_most_one w). pose proof (IH (when_world w)). lia.
Qed.

(* the Queue calls of n healthy deliveries: one per call, stamped with the clock readings in order *)
Fixpoint expected_queue (n : nat) (clock : list Z) (calls : list (option positive)) : list xev :=
  match n with
  | O => []
  | S k => queue_ev (hd 0 clock) (xerr (hd None calls)) :: expected_queue k (tl clock) (tl calls)
  end.

Definition healthy (l : list (option positive)) : Prop := Forall (fun o => o = None) l.

Lemma healthy_hd : forall l, healthy l -> hd None l = None.
Proof. intros [|a l] H; [reflexivity|]. inversion H; subst. reflexivity. Qed.
Lemma healthy_tl : forall l, healthy l -> healthy (tl l).
Proof. intros [|a l] H; [exact H|]. inversion H; subst. assumption. Qed.

Theorem when_n_healthy : forall n w,
  healthy (ew_marshal w) -> healthy (ew_bus w) ->
  queue_calls (when_n_log n w) = expected_queue n (ew_clock w) (ew_call w).
Proof.
  induction n as [|n IH]; intros w Hm Hb; cbn [when_n_log expected_queue]; [reflexivity|].
  rewrite queue_calls_app.
  assert (M : marshal_of w = None) by (apply healthy_hd; exact Hm).
  assert (B : bus_of w = None) by (apply healthy_hd; exact Hb).
  assert (W : when_world w = mkEW (tl (ew_clock w)) (tl (ew_marshal w)) (tl (ew_bus w)) (tl (ew_call w)) (when_vals w ++ ew_vals w)
                                  (ew_next w + 1 + 1 + 1 + 1 + 1 + 1 + 1) 0 (ew_log w ++ when_log w)).
  { unfold when_world. rewrite M, B. reflexivity. }
  rewrite IH; rewrite W; cbn [ew_marshal ew_bus ew_clock ew_call]; try (apply healthy_tl; assumption).
  unfold when_log. rewrite M, B. unfold call_of, now_of. destruct (hd None (ew_call w)); reflexivity.
Qed.

Lemma expected_queue_length : forall n clock calls, List.length (expected_queue n clock calls) = n.
Proof. induction n as [|n IH]; intros; cbn [expected_queue List.length]; [reflexivity|]. rewrite IH. reflexivity. Qed.

(* ---------- examples (evaluated) ---------- *)
Definition show_when (o : option eworld) : option (list xev) :=
  match o with Some w => Some (ew_log w) | None => None end.

(* three incidents: delivered; the bus is down; delivered but the events service answers with an error *)
Example ex_when :
  show_when (src_when_n 3 (ew_init [1000; 2000; 3000] [] [None; Some 7%positive] [None; Some 9%positive])) =
    Some [XNow 1000; XMarshal true; XBus true; queue_ev 1000 0;
          XNow 2000; XMarshal true; XBus false; XLogLine MSG 7;
          XNow 3000; XMarshal true; XBus true; queue_ev 3000 9; XLogLine MSG 9].
Proof. vm_compute. reflexivity. Qed.

Example ex_when_marshal_fails :
  show_when (src_when_n 1 (ew_init [5] [Some 4%positive] [] [])) = Some [XNow 5; XMarshal false; XLogLine MSG 4].
Proof. vm_compute. reflexivity. Qed.

(* ---------- the throttle's incidents ---------- *)
(* The throttled recorder calls listener.WhenThrottled() once per [Throttled] entry of its trace (model/Throttle.v;
   proofs/TieThrottle.v ties the translated recorder to that trace, S06e counts the entries: one per suppressed start and
   per cut).  Delivering one translated WhenThrottled per entry: *)
From TR Require model.Throttle model.ThrottleSpec.

Definition is_incident (x : Throttle.tout) : bool := match x with Throttle.Throttled => true | _ => false end.
Definition incidents (tr : list (list Throttle.tout)) : nat := List.length (filter is_incident (concat tr)).

Lemma count_throttled_filter : forall o, ThrottleSpec.count_throttled o = Z.of_nat (List.length (filter is_incident o)).
Proof.
  intros o. unfold ThrottleSpec.count_throttled.
  assert (G : forall l a, fold_left (fun n x => match x with Throttle.Throttled => n + 1 | _ => n end) l a
                          = a + Z.of_nat (List.length (filter is_incident l))).
  { induction l as [|x l IH]; intros a; cbn [fold_left filter List.length]; [lia|].
    rewrite IH. destruct x; cbn [is_incident List.length]; lia. }
  rewrite G. lia.
Qed.

Lemma incidents_sum : forall tr, Z.of_nat (incidents tr) = fold_right Z.add 0 (map ThrottleSpec.count_throttled tr).
Proof.
  unfold incidents. induction tr as [|o tr IH]; [reflexivity|].
  cbn [concat map fold_right]. rewrite filter_app, app_length, Nat2Z.inj_add, IH, count_throttled_filter. reflexivity.
Qed.

(* with json.Marshal and the system bus working: exactly one Queue call per incident of the throttle's trace, none
   otherwise, stamped with the clock readings in order; in every case never more, and never a panic *)
Theorem events_per_incident : forall tr w,
  src_when_n (incidents tr) w = Some (when_n_world (incidents tr) w) /\
  elog_since w (when_n_world (incidents tr) w) = when_n_log (incidents tr) w /\
  (Z.of_nat (List.length (queue_calls (when_n_log (incidents tr) w))) <= fold_right Z.add 0 (map ThrottleSpec.count_throttled tr)) /\
  (healthy (ew_marshal w) -> healthy (ew_bus w) ->
   queue_calls (when_n_log (incidents tr) w) = expected_queue (incidents tr) (ew_clock w) (ew_call w) /\
   Z.of_nat (List.length (queue_calls (when_n_log (incidents tr) w))) = fold_right Z.add 0 (map ThrottleSpec.count_throttled tr)).
Proof.
  intros tr w. split; [apply when_n|]. split.
  { unfold elog_since. rewrite when_n_world_log. induction (ew_log w) as [|a l IH]; [reflexivity|exact IH]. }
  split.
  { rewrite <- incidents_sum. pose proof (when_n_at_most (incidents tr) w). lia. }
  intros Hm Hb. rewrite (when_n_healthy _ _ Hm Hb). split; [reflexivity|].
  rewrite expected_queue_length. apply incidents_sum.
Qed.
