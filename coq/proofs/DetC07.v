(* C07: with a fixed threshold and an FFC-free stream (resets anywhere), the detector's
   verdicts are exactly the ones specified over the frame history (model/DetSpec.v). *)
From Coq Require Import List ZArith Bool Arith Lia.
From TR Require Import model.Ring model.RingSpec model.Detector model.DetSpec proofs.RingProofs.
Import ListNotations.
Open Scope Z_scope.

Definition verdicts (c : dcfg) (evs : list dev) : list bool := map fst (drun c (dinit c) evs).

(* ====================================================================== *)
(* fixed threshold: the threshold never changes                            *)
(* ====================================================================== *)

Lemma detect_thresh_fixed : forall c s f,
    d_dynamic c = false -> s_thresh (fst (detect c s f)) = s_thresh s.
Proof.
  intros c s f Hd. unfold detect. rewrite Hd. cbn [andb].
  destruct (negb (s_firstdiff s)); [reflexivity|].
  destruct (affected_by_ffc f || s_affected s); reflexivity.
Qed.

Lemma drun_thresh_fixed : forall c evs s,
    d_dynamic c = false -> Forall (fun o => snd o = s_thresh s) (drun c s evs).
Proof.
  intros c evs. induction evs as [|e t IH]; intros s Hd; cbn [drun].
  - constructor.
  - destruct e as [f|].
    + pose proof (detect_thresh_fixed c s f Hd) as Ht.
      destruct (detect c s f) as [s' m]. cbn [fst] in Ht.
      constructor.
      * cbn [snd]. exact Ht.
      * rewrite <- Ht. apply IH. exact Hd.
    + constructor.
      * reflexivity.
      * apply (IH (dreset s) Hd).
Qed.

(* ====================================================================== *)
(* grids, interior coordinates, counting                                   *)
(* ====================================================================== *)

Lemma nth_map_seq : forall (B : Type) (F : nat -> B) n i d,
    (i < n)%nat -> nth i (map F (seq 0 n)) d = F i.
Proof.
  intros B F n i d Hi.
  rewrite (nth_indep (map F (seq 0 n)) d (F 0%nat)) by (rewrite map_length, seq_length; exact Hi).
  rewrite (map_nth F). rewrite seq_nth by exact Hi. reflexivity.
Qed.

Lemma gget_gbuild : forall h w f y x,
    (y < h)%nat -> (x < w)%nat -> gget (gbuild h w f) y x = f y x.
Proof.
  intros h w f y x Hy Hx. unfold gget, gbuild.
  rewrite (nth_map_seq (list Z) (fun y0 => map (fun x0 => f y0 x0) (seq 0 w)) h y [] Hy).
  apply (nth_map_seq Z (fun x0 => f y x0) w x 0 Hx).
Qed.

Lemma icoords_in : forall c y x,
    In (y, x) (icoords c) -> interior c y x = true /\ (y < d_h c)%nat /\ (x < d_w c)%nat.
Proof.
  intros c y x H. unfold icoords in H. apply in_flat_map in H.
  destruct H as (y0 & Hy0 & H). apply in_map_iff in H. destruct H as (x0 & Heq & Hx0).
  inversion Heq; subst y0 x0. apply in_seq in Hy0. apply in_seq in Hx0.
  unfold interior.
  assert (E1 : Nat.leb (d_edge c) y = true) by (apply Nat.leb_le; lia).
  assert (E2 : Nat.ltb y (d_h c - d_edge c) = true) by (apply Nat.ltb_lt; lia).
  assert (E3 : Nat.leb (d_edge c) x = true) by (apply Nat.leb_le; lia).
  assert (E4 : Nat.ltb x (d_w c - d_edge c) = true) by (apply Nat.ltb_lt; lia).
  rewrite E1, E2, E3, E4. repeat split; lia.
Qed.

Lemma floor_to_max : forall t v, floor_to t v = Z.max v t.
Proof. intros t v. unfold floor_to. destruct (Z.ltb_spec v t); lia. Qed.

Lemma warmer_diff_max : forall a b, warmer_diff a b = Z.max 0 (a - b).
Proof. intros a b. unfold warmer_diff. destruct (Z.ltb_spec (a - b) 0); lia. Qed.

(* the detector's "changed by more than delta" test on a diff grid D is the spec's
   "hot pixel" test on H, on every interior coordinate *)
Definition drel (c : dcfg) (D H : grid) : Prop :=
  forall yx, In yx (icoords c) ->
    (d_delta c <? gget D (fst yx) (snd yx)) = (gget H (fst yx) (snd yx) =? 1).

Lemma diff_hot : forall c t a b, drel c (diff_grid c t a b) (hot c t a b).
Proof.
  intros c t a b [y x] H. cbn [fst snd]. apply icoords_in in H. destruct H as (Hi & Hy & Hx).
  unfold diff_grid, hot. rewrite !gget_gbuild by assumption. rewrite Hi. cbv zeta.
  rewrite !floor_to_max, warmer_diff_max. unfold abs_diff.
  destruct (d_warmer c);
    match goal with |- context [if ?b then 1 else 0] => destruct b end; reflexivity.
Qed.

Lemma hot_self_zero : forall c t a yx,
    0 <= d_delta c -> In yx (icoords c) -> gget (hot c t a a) (fst yx) (snd yx) = 0.
Proof.
  intros c t a [y x] Hd H. cbn [fst snd]. apply icoords_in in H. destruct H as (Hi & Hy & Hx).
  unfold hot. rewrite gget_gbuild by assumption. rewrite Hi. cbv zeta.
  destruct (d_warmer c);
    match goal with |- context [if ?b then 1 else 0] => destruct b eqn:E end;
    try reflexivity; apply Z.ltb_lt in E; lia.
Qed.

Lemma zero_grid_zero : forall c yx,
    In yx (icoords c) -> gget (zero_grid c) (fst yx) (snd yx) = 0.
Proof.
  intros c [y x] H. cbn [fst snd]. apply icoords_in in H. destruct H as (Hi & Hy & Hx).
  unfold zero_grid. rewrite gget_gbuild by assumption. reflexivity.
Qed.

Lemma fold_count_ext : forall (l : list (nat * nat)) (p q : nat * nat -> bool) n,
    (forall yx, In yx l -> p yx = q yx) ->
    fold_left (fun n yx => if p yx then n + 1 else n) l n =
    fold_left (fun n yx => if q yx then n + 1 else n) l n.
Proof.
  induction l as [|a l IH]; intros p q n H; cbn [fold_left]; [reflexivity|].
  rewrite (H a (or_introl eq_refl)). apply IH. intros yx Hin. apply H. right. exact Hin.
Qed.

Lemma fold_count_zero : forall (l : list (nat * nat)) (p : nat * nat -> bool) n,
    (forall yx, In yx l -> p yx = false) ->
    fold_left (fun n yx => if p yx then n + 1 else n) l n = n.
Proof.
  induction l as [|a l IH]; intros p n H; cbn [fold_left]; [reflexivity|].
  rewrite (H a (or_introl eq_refl)). apply IH. intros yx Hin. apply H. right. exact Hin.
Qed.

Lemma icount_one : forall c D H,
    drel c D H -> icount c (fun y x => d_delta c <? gget D y x) = count_both c H H.
Proof.
  intros c D H R. unfold icount, count_both.
  apply (fold_count_ext (icoords c)
           (fun yx => d_delta c <? gget D (fst yx) (snd yx))
           (fun yx => (gget H (fst yx) (snd yx) =? 1) && (gget H (fst yx) (snd yx) =? 1))).
  intros yx Hin. rewrite (R yx Hin). destruct (gget H (fst yx) (snd yx) =? 1); reflexivity.
Qed.

Lemma icount_two : forall c D1 D2 H1 H2,
    drel c D1 H1 -> drel c D2 H2 ->
    icount c (fun y x => (d_delta c <? gget D1 y x) && (d_delta c <? gget D2 y x)) =
    count_both c H1 H2.
Proof.
  intros c D1 D2 H1 H2 R1 R2. unfold icount, count_both.
  apply (fold_count_ext (icoords c)
           (fun yx => (d_delta c <? gget D1 (fst yx) (snd yx)) && (d_delta c <? gget D2 (fst yx) (snd yx)))
           (fun yx => (gget H1 (fst yx) (snd yx) =? 1) && (gget H2 (fst yx) (snd yx) =? 1))).
  intros yx Hin. rewrite (R1 yx Hin), (R2 yx Hin). reflexivity.
Qed.

Lemma count_both_zero_l : forall c H1 H2,
    (forall yx, In yx (icoords c) -> gget H1 (fst yx) (snd yx) = 0) -> count_both c H1 H2 = 0.
Proof.
  intros c H1 H2 Hz. unfold count_both.
  apply (fold_count_zero (icoords c)
           (fun yx => (gget H1 (fst yx) (snd yx) =? 1) && (gget H2 (fst yx) (snd yx) =? 1))).
  intros yx Hin. rewrite (Hz yx Hin). reflexivity.
Qed.

Lemma icount_zero_l : forall c D1 H1 (q : nat -> nat -> bool),
    drel c D1 H1 ->
    (forall yx, In yx (icoords c) -> gget H1 (fst yx) (snd yx) = 0) ->
    icount c (fun y x => (d_delta c <? gget D1 y x) && q y x) = 0.
Proof.
  intros c D1 H1 q R Hz. unfold icount.
  apply (fold_count_zero (icoords c)
           (fun yx => (d_delta c <? gget D1 (fst yx) (snd yx)) && q (fst yx) (snd yx))).
  intros yx Hin. rewrite (R yx Hin), (Hz yx Hin). reflexivity.
Qed.

(* ====================================================================== *)
(* the specification on an epoch extended by one frame                     *)
(* ====================================================================== *)

Lemma epoch_hot_snoc : forall c ep g,
    epoch_hot c (ep ++ [g]) =
    hot c (d_thresh0 c) g (nth (length ep - Z.to_nat (d_gap c)) (ep ++ [g]) []).
Proof.
  intros c ep g. unfold epoch_hot. cbv zeta. rewrite app_length. cbn [length].
  rewrite Nat.add_1_r. cbv beta iota.
  rewrite (@app_nth2 _ ep [g] [] (length ep)) by lia. rewrite Nat.sub_diag. reflexivity.
Qed.

Lemma epoch_hot_single_zero : forall c g yx,
    0 <= d_delta c -> In yx (icoords c) -> gget (epoch_hot c [g]) (fst yx) (snd yx) = 0.
Proof.
  intros c g yx Hd Hin. change [g] with ([] ++ [g]). rewrite epoch_hot_snoc.
  cbn [length Nat.sub app nth]. apply hot_self_zero; assumption.
Qed.

Lemma spec_verdict_snoc : forall c ep g,
    spec_verdict c (ep ++ [g]) =
    (d_count c <=?
     (if d_one c then count_both c (epoch_hot c (ep ++ [g])) (epoch_hot c (ep ++ [g]))
      else count_both c (epoch_hot c (ep ++ [g]))
             (match ep with [] => zero_grid c | _ => epoch_hot c ep end))).
Proof.
  intros c ep g. unfold spec_verdict. cbv zeta.
  assert (Hhp : match ep ++ [g] with
                | [] | [_] => zero_grid c
                | _ => epoch_hot c (removelast (ep ++ [g]))
                end = match ep with [] => zero_grid c | _ => epoch_hot c ep end).
  { rewrite removelast_last. destruct ep as [|a [|b ep]]; reflexivity. }
  rewrite Hhp. reflexivity.
Qed.

(* ====================================================================== *)
(* one Detect call without FFC                                             *)
(* ====================================================================== *)

Lemma detect_nonffc : forall c s f,
    d_dynamic c = false -> affected_by_ffc f = false -> s_affected s = false ->
    detect c s f =
    (mkDS (move (put (s_floored s) f))
          (move (put (s_diffs s)
                     (diff_grid c (s_thresh s) (f_pix f)
                                (f_pix (oldest_slot (blank_frame c) (put (s_floored s) f))))))
          true false (s_thresh s) (s_bg s) (s_wts s) (s_bgframes s),
     if s_firstdiff s
     then has_motion c
            (diff_grid c (s_thresh s) (f_pix f)
                       (f_pix (oldest_slot (blank_frame c) (put (s_floored s) f))))
            (current (zero_grid c)
               (move (put (s_diffs s)
                          (diff_grid c (s_thresh s) (f_pix f)
                                     (f_pix (oldest_slot (blank_frame c) (put (s_floored s) f)))))))
     else false).
Proof.
  intros c s f Hd Ha Hs. unfold detect. rewrite Hd, Ha, Hs. cbn [andb orb].
  destruct (s_firstdiff s); reflexivity.
Qed.

(* the two-slot diff ring: after put-then-move, Current() is the other slot (what was written
   one frame earlier) and the slot just written becomes "the other slot" *)
Lemma diffs_step : forall (z : grid) (r : ring grid) X,
    size r = 2 -> length (slots r) = 2%nat -> (cur r = 0 \/ cur r = 1) ->
    size (move (put r X)) = 2 /\
    length (slots (move (put r X))) = 2%nat /\
    (cur (move (put r X)) = 0 \/ cur (move (put r X)) = 1) /\
    current z (move (put r X)) = zth z (slots r) (1 - cur r) /\
    zth z (slots (move (put r X))) (1 - cur (move (put r X))) = X.
Proof.
  intros z [sz cu fu ol sl] X Hs Hl Hc. cbn [size slots cur] in Hs, Hl, Hc. subst sz.
  destruct sl as [|a [|b [|e sl]]]; cbn [length] in Hl; try discriminate Hl.
  destruct Hc; subst cu; cbv; auto.
Qed.

(* flooredFrames.Oldest() right after the new frame was copied into Current() *)
Lemma oldest_spec : forall c (r : ring frame) fs f,
    1 <= d_gap c ->
    RInv frame (blank_frame c) (d_gap c + 1) r (mkGhost fs (length fs)) ->
    current (blank_frame c) r = f ->
    f_pix (oldest_slot (blank_frame c) r) =
    nth (length fs - Z.to_nat (d_gap c)) (map f_pix (fs ++ [f])) [].
Proof.
  intros c r fs f Hg HR Hc.
  rewrite (RInv_oldest _ _ _ _ _ HR), Hc. unfold spec_oldest, spec_history.
  cbn [committed since_mark]. rewrite hd_lastn. rewrite app_length. cbn [length].
  replace (length fs + 1 - Nat.min (Z.to_nat (d_gap c + 1)) (S (length fs)))%nat
    with (length fs - Z.to_nat (d_gap c))%nat by lia.
  rewrite <- (map_nth f_pix). apply nth_indep.
  rewrite map_length, app_length. cbn [length]. lia.
Qed.

(* coupling invariant between the detector state and the frames [fs] of the current epoch *)
Record DInv (c : dcfg) (s : dstate) (fs : list frame) : Prop := mkDInv {
  I_fl : RInv frame (blank_frame c) (d_gap c + 1) (s_floored s) (mkGhost fs (length fs));
  I_aff : s_affected s = false;
  I_th : s_thresh s = d_thresh0 c;
  I_first : s_firstdiff s = false -> fs = [];
  I_dsize : size (s_diffs s) = 2;
  I_dlen : length (slots (s_diffs s)) = 2%nat;
  I_dcur : cur (s_diffs s) = 0 \/ cur (s_diffs s) = 1;
  I_dprev : fs <> [] ->
            drel c (zth (zero_grid c) (slots (s_diffs s)) (1 - cur (s_diffs s)))
                 (epoch_hot c (map f_pix fs))
}.

Lemma DInv_init : forall c, 1 <= d_gap c -> DInv c (dinit c) [].
Proof.
  intros c Hg. constructor; cbn [dinit s_floored s_diffs s_affected s_thresh s_firstdiff].
  - apply (RInv_init frame (blank_frame c) (d_gap c + 1) (blank_frame c)). lia.
  - reflexivity.
  - reflexivity.
  - reflexivity.
  - reflexivity.
  - reflexivity.
  - left. reflexivity.
  - intros H. exfalso. apply H. reflexivity.
Qed.

Lemma DInv_reset : forall c s fs, DInv c s fs -> DInv c (dreset s) [].
Proof.
  intros c s fs [Ifl Iaff Ith Ifirst Idsz Idlen Idcur Idprev].
  constructor; cbn [dreset s_floored s_diffs s_affected s_thresh s_firstdiff].
  - exact (RInv_step _ _ _ _ _ OReset Ifl).
  - exact Iaff.
  - exact Ith.
  - reflexivity.
  - exact Idsz.
  - exact Idlen.
  - left. reflexivity.
  - intros H. exfalso. apply H. reflexivity.
Qed.

Lemma detect_step : forall c s fs f,
    d_dynamic c = false -> 0 <= d_delta c -> 1 <= d_count c -> 1 <= d_gap c ->
    affected_by_ffc f = false -> DInv c s fs ->
    snd (detect c s f) = spec_verdict c (map f_pix fs ++ [f_pix f]) /\
    DInv c (fst (detect c s f)) (fs ++ [f]).
Proof.
  intros c s fs f Hdyn Hdel Hcnt Hgap Hffc [Ifl Iaff Ith Ifirst Idsz Idlen Idcur Idprev].
  rewrite (detect_nonffc c s f Hdyn Hffc Iaff). cbn [fst snd]. rewrite Ith.
  pose proof (RInv_step _ _ _ _ _ (OPut f) Ifl) as H1. cbn [rstep gstep] in H1.
  pose proof (RInv_put_current _ _ _ _ _ f Ifl) as Hc.
  pose proof (RInv_step _ _ _ _ _ OMove H1) as H2.
  cbn [rstep gstep committed since_mark] in H2. rewrite Hc in H2.
  pose proof (oldest_spec c _ fs f Hgap H1 Hc) as Hcmp.
  set (dg := diff_grid c (d_thresh0 c) (f_pix f)
                       (f_pix (oldest_slot (blank_frame c) (put (s_floored s) f)))).
  assert (Hdg : drel c dg (epoch_hot c (map f_pix fs ++ [f_pix f]))).
  { unfold dg. rewrite epoch_hot_snoc, Hcmp, map_app, map_length. cbn [map]. apply diff_hot. }
  destruct (diffs_step (zero_grid c) (s_diffs s) dg Idsz Idlen Idcur) as (Ds & Dl & Dc & Dcur & Dprev).
  split.
  - rewrite spec_verdict_snoc. destruct (s_firstdiff s) eqn:Hfd.
    + unfold has_motion. f_equal. destruct (d_one c).
      * apply icount_one. exact Hdg.
      * rewrite Dcur. destruct fs as [|f0 fs'].
        -- cbn [map app]. cbn [map app] in Hdg.
           rewrite (icount_zero_l c dg _ _ Hdg (fun yx => epoch_hot_single_zero c (f_pix f) yx Hdel)).
           symmetry. apply count_both_zero_l. intros yx Hin.
           apply epoch_hot_single_zero; assumption.
        -- apply icount_two; [exact Hdg|]. apply Idprev. discriminate.
    + rewrite (Ifirst eq_refl). cbn [map app]. symmetry.
      assert (Hz : forall H2, count_both c (epoch_hot c [f_pix f]) H2 = 0).
      { intros H2'. apply count_both_zero_l. intros yx Hin.
        apply epoch_hot_single_zero; assumption. }
      rewrite !Hz. destruct (d_one c); apply Z.leb_gt; lia.
  - constructor; cbn [s_floored s_diffs s_affected s_thresh s_firstdiff].
    + rewrite app_length. cbn [length]. rewrite Nat.add_1_r. exact H2.
    + reflexivity.
    + reflexivity.
    + intros H. discriminate H.
    + exact Ds.
    + exact Dl.
    + exact Dc.
    + intros _. fold dg. rewrite Dprev, map_app. exact Hdg.
Qed.

Lemma drun_spec : forall c evs s fs,
    d_dynamic c = false -> 0 <= d_delta c -> 1 <= d_count c -> 1 <= d_gap c ->
    ffc_free evs = true -> DInv c s fs ->
    map fst (drun c s evs) = spec07_run c (map f_pix fs) evs.
Proof.
  intros c evs. induction evs as [|e t IH]; intros s fs Hdyn Hdel Hcnt Hgap Hff HI;
    [reflexivity|].
  unfold ffc_free in Hff. cbn [forallb] in Hff. apply andb_true_iff in Hff.
  destruct Hff as [He Ht]. destruct e as [f|]; cbn [drun spec07_run].
  - apply negb_true_iff in He.
    destruct (detect_step c s fs f Hdyn Hdel Hcnt Hgap He HI) as [Hv HI'].
    destruct (detect c s f) as [s' m]. cbn [fst snd] in Hv, HI'. cbn [map fst]. cbv zeta.
    rewrite Hv. f_equal.
    rewrite (IH s' (fs ++ [f]) Hdyn Hdel Hcnt Hgap Ht HI'). rewrite map_app. reflexivity.
  - cbn [map fst]. f_equal.
    apply (IH (dreset s) [] Hdyn Hdel Hcnt Hgap Ht (DInv_reset c s fs HI)).
Qed.

(* C07 for a non-negative DeltaThresh *)
Theorem S07_holds_nonneg_delta : forall c evs,
    d_dynamic c = false -> 0 <= d_delta c -> 1 <= d_count c -> 1 <= d_gap c ->
    ffc_free evs = true ->
    verdicts c evs = spec07_run c [] evs.
Proof.
  intros c evs Hdyn Hdel Hcnt Hgap Hff. unfold verdicts.
  apply (drun_spec c evs (dinit c) [] Hdyn Hdel Hcnt Hgap Hff (DInv_init c Hgap)).
Qed.

(* The statement of S07_holds below (no constraint on d_delta) is FALSE: with a negative
   DeltaThresh every interior pixel of a frame compared with itself is "changed", so the
   specification reports motion for the first frame of an epoch while the detector does not
   (one-diff mode), and in two-diff mode the detector consults the stale diff frame left in
   the other slot before a Reset. *)
Theorem S07_statement_refuted :
  ~ (forall c evs,
        d_dynamic c = false -> 1 <= d_count c -> 1 <= d_gap c ->
        ffc_free evs = true ->
        verdicts c evs = spec07_run c [] evs).
Proof.
  intros H.
  pose (c := mkD 3 3 0 1 true (-1) 1 false false 0 0 0 0).
  pose (evs := [DFrame (mkF [[0;0;0];[0;0;0];[0;0;0]] 100000000000 0)]).
  assert (E : verdicts c evs = spec07_run c [] evs).
  { apply H; [reflexivity | cbn; lia | cbn; lia | reflexivity]. }
  vm_compute in E. discriminate E.
Qed.

(* DeltaThresh is a uint16 in the Go configuration, hence the guard 0 <= d_delta c; without it
   the statement is false (S07_statement_refuted above). *)
Theorem S07_holds : forall c evs,
    d_dynamic c = false -> 1 <= d_count c -> 1 <= d_gap c -> 0 <= d_delta c ->
    ffc_free evs = true ->
    verdicts c evs = spec07_run c [] evs.
Proof. intros; apply S07_holds_nonneg_delta; assumption. Qed.

(* the threshold never changes with a fixed threshold *)
Theorem fixed_threshold_constant : forall c evs,
    d_dynamic c = false ->
    Forall (fun o => snd o = d_thresh0 c) (drun c (dinit c) evs).
Proof.
  intros c evs Hd. exact (drun_thresh_fixed c evs (dinit c) Hd).
Qed.
