(* C07: with a fixed threshold and an FFC-free stream (resets anywhere), the detector's
   verdicts are exactly the ones specified over the frame history (model/DetSpec.v). *)
From Coq Require Import List ZArith Bool Arith Lia.
From TR Require Import model.Ring model.RingSpec model.Detector model.DetSpec proofs.RingProofs.
Import ListNotations.
Open Scope Z_scope.

Definition verdicts (c : dcfg) (evs : list dev) : list bool := map fst (drun c (dinit c) evs).

Theorem S07_holds : forall c evs,
    d_dynamic c = false -> 1 <= d_count c -> 1 <= d_gap c ->
    ffc_free evs = true ->
    verdicts c evs = spec07_run c [] evs.
Admitted.

(* the threshold never changes with a fixed threshold *)
Theorem fixed_threshold_constant : forall c evs,
    d_dynamic c = false ->
    Forall (fun o => snd o = d_thresh0 c) (drun c (dinit c) evs).
Admitted.
