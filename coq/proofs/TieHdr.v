(* Source tie for headers.ReadHeaderInfo, toInt, toStr and the accessors (headers/headerinfo.go):
   the header reader of the recorder and of thermal-writer as it is written, against the hand-written
   reader model model/Socket.v (line_c, is_blank, header_c) - the model the C14 theorems are about.

   coq/translated/HeaderReader.v is regenerated from the Go source on every run (translate/outside.go:
   the endless `for { ... }` with its `break` is GoSem.forever over the body
   HeaderReader_fn_ReadHeaderInfo_loop1, which yields inl for break / inr for return; the function takes
   fuel).  model/HdrExt.v gives the calls that leave it their meaning: the bufio.Reader over a list of
   chunks, a bytes.Buffer, strings.Trim, string equality, the map and the type assertions, and
   yaml.Unmarshal as a decoder that is a PARAMETER (every theorem below is for every decoder).

   Theorems (for every decoder, every world in which the reader token is a reader, every segmentation of
   the stream into reads, and fuel >= S (total_len cs) - one iteration per line, a line has >= 1 byte):
     hbody_eof / hbody_blank / hbody_line   one iteration of the loop as written;
     hloop_run              the loop: Socket.header_c of the remaining stream and the buffer's content;
     tie_ReadHeaderInfo     the whole function ([hdr_post]): it does not panic, the fuel suffices, and
                            * header_c = None (the stream ends before the blank line): it returns io.EOF with
                              the zero description, has consumed everything, and never calls the decoder;
                            * header_c = Some (text, rest): the decoder is called exactly once, with exactly
                              [text]; the stream is left at exactly [rest] (nothing beyond the blank line is
                              consumed); when the decoder fails its error is returned, otherwise nil and a
                              description whose eight fields are toInt / toStr of the decoded map under the
                              keys of headers/headers.go ([fields_of]: a missing or wrongly typed entry is 0 / "");
     tie_ReadHeaderInfo_error_iff   an error is returned iff header_c = None or the decoder fails;
     src_header_is_run_conn         the text handed to the decoder is Socket.run_conn's cr_header;
     src_truncated_header_errors, src_header_roundtrip
                            SocketProofs' truncated_header_errors / stream_roundtrip restated for the source;
     tie_accessors          ResX() ... CameraSerial() return the fields;
     conn_header_clause_is_source   the meaning model/ConnExt.v gives by hand to handleConn's call
                            `headers.ReadHeaderInfo(reader)` is what the translated function computes.
   Side conditions: none forced by the Go code.  (`strings.Trim(line, " ") == "\n"` and Socket.is_blank
   agree on every line ReadString can return without error, because such a line ends with its only
   newline: [trim_is_blank]; on other strings they differ - "\n " is blank for Trim, not for is_blank.)
   No axioms. *)
From Coq Require Import String List ZArith Bool Arith Lia.
From TR Require Import model.GoSem model.Socket model.ConnExt model.HdrExt translated.HeaderReader.
From TR Require Import proofs.SocketProofs proofs.TieConn.
Import ListNotations.
Open Scope Z_scope.

(* ---------- lines ---------- *)
Lemma line_in_ends : forall c l rest, line_in c = Some (l, rest) -> exists l0, l = l0 ++ [NL].
Proof.
  induction c as [|b c IH]; intros l rest H; [discriminate|].
  cbn [line_in] in H. destruct (Z.eqb_spec b NL) as [E|E].
  - inversion H; subst. exists []. reflexivity.
  - destruct (line_in c) as [[l1 r1]|] eqn:E1; [|discriminate].
    inversion H; subst. destruct (IH _ _ eq_refl) as [l0 ->]. exists (b :: l0). reflexivity.
Qed.

Lemma line_c_ends : forall cs l rest, line_c cs = Some (l, rest) -> exists l0, l = l0 ++ [NL].
Proof.
  induction cs as [|c r IH]; intros l rest H; [discriminate|].
  cbn [line_c] in H. destruct (line_in c) as [[l1 r1]|] eqn:E1.
  - inversion H; subst. eapply line_in_ends; eassumption.
  - destruct (line_c r) as [[l1 r1]|] eqn:E2; [|discriminate].
    inversion H; subst. destruct (IH _ _ eq_refl) as [l0 ->]. exists (c ++ l0). apply app_assoc.
Qed.

Lemma line_c_some : forall cs l rest, line_c cs = Some (l, rest) ->
  concat cs = l ++ concat rest /\ l <> [].
Proof.
  intros cs l rest H. pose proof (line_c_flat cs) as F. rewrite H in F. cbn [flat] in F.
  symmetry in F. apply line_in_some in F. exact F.
Qed.

Lemma line_c_shorter : forall cs l rest, line_c cs = Some (l, rest) ->
  (S (total_len rest) <= total_len cs)%nat.
Proof.
  intros cs l rest H. destruct (line_c_some _ _ _ H) as [E N]. unfold total_len. rewrite E, app_length.
  destruct l; [congruence|]. cbn [List.length]. lia.
Qed.

Lemma line_c_none_total : forall cs, line_c cs = None -> ~ In NL (concat cs).
Proof.
  intros cs H. pose proof (line_c_flat cs) as F. rewrite H in F. cbn [flat] in F.
  symmetry in F. apply line_in_none. exact F.
Qed.

(* ---------- strings.Trim(line, " ") == "\n"  is  Socket.is_blank ---------- *)
Lemma drop_in_sp : forall l, drop_in [SP] l = drop_sp l.
Proof.
  induction l as [|b r IH]; [reflexivity|].
  cbn [drop_in drop_sp in_set existsb]. rewrite orb_false_r. rewrite IH. reflexivity.
Qed.

Lemma drop_sp_ends : forall l0, exists l1, drop_sp (l0 ++ [NL]) = l1 ++ [NL].
Proof.
  induction l0 as [|b r IH].
  - exists []. reflexivity.
  - cbn [app drop_sp]. destruct (b =? SP); [exact IH|]. exists (b :: r). reflexivity.
Qed.

Lemma trim_line : forall l0, trim_bytes [SP] (l0 ++ [NL]) = drop_sp (l0 ++ [NL]).
Proof.
  intros l0. unfold trim_bytes. rewrite !drop_in_sp.
  destruct (drop_sp_ends l0) as [l1 ->]. rewrite rev_app_distr. cbn [rev app drop_sp].
  change (NL =? SP) with false. cbv iota. cbn [rev]. rewrite rev_involutive. reflexivity.
Qed.

Lemma blank_eqb : forall d, bytes_eqb d [NL] = match d with [b] => b =? NL | _ => false end.
Proof.
  intros [|b [|c r]]; cbn [bytes_eqb]; [reflexivity| |].
  - apply andb_true_r.
  - apply andb_false_r.
Qed.

Lemma trim_is_blank : forall cs l rest, line_c cs = Some (l, rest) ->
  bytes_eqb (trim_bytes (bytes_of_string " ") l) (bytes_of_string ("" ++ nl ++ "")) = is_blank l.
Proof.
  intros cs l rest H. destruct (line_c_ends _ _ _ H) as [l0 ->].
  change (bytes_of_string " ") with [SP]. change (bytes_of_string ("" ++ nl ++ "")) with [NL].
  rewrite trim_line, blank_eqb. reflexivity.
Qed.

(* ---------- the object table: an entry replaced ---------- *)
Lemma list_upd_length : forall A (l : list A) n v, List.length (list_upd l n v) = List.length l.
Proof. induction l as [|a t IH]; intros [|n] v; cbn [list_upd List.length]; auto. Qed.
Lemma nth_list_upd : forall A (d : A) l n m v, (n < List.length l)%nat ->
  nth m (list_upd l n v) d = if Nat.eqb m n then v else nth m l d.
Proof.
  induction l as [|a t IH]; intros n m v H; [cbn [List.length] in H; lia|].
  destruct n as [|n], m as [|m]; cbn [list_upd nth Nat.eqb]; try reflexivity.
  apply IH. cbn [List.length] in H. lia.
Qed.
Lemma tlen_upd : forall A (l : list A) n v, tlen (list_upd l n v) = tlen l.
Proof. intros. unfold tlen. rewrite list_upd_length. reflexivity. Qed.
Lemma tget_upd : forall A (d : A) l t t' v, 0 < t < tlen l ->
  tget d (list_upd l (Z.to_nat (t - 1)) v) t' = if t' =? t then v else tget d l t'.
Proof.
  intros A d l t t' v H. unfold tget, tlen in *.
  destruct (Z.leb_spec t' 0).
  - destruct (Z.eqb_spec t' t); [lia|reflexivity].
  - rewrite nth_list_upd by lia.
    destruct (Z.eqb_spec t' t) as [E|E].
    + subst. rewrite Nat.eqb_refl. reflexivity.
    + destruct (Nat.eqb_spec (Z.to_nat (t' - 1)) (Z.to_nat (t - 1))); [lia|reflexivity].
Qed.

(* ---------- symbolic execution of the translated code against hext ----------
   [hpost m Q]: the run m does not panic and its result and final world satisfy Q. *)
Definition hpost {A} (m : outcome hworld A) (Q : A -> hworld -> Prop) : Prop :=
  match m with Ok a w => Q a w | Panicked _ => False end.

Lemma hpost_call : forall dec A n a (k : Z -> M hworld A) w r w' Q,
  hext dec n a w = (r, w') -> hpost (k r w') Q -> hpost (bind (call_ext (hext dec) n a) k w) Q.
Proof. intros dec A n a k w r w' Q H1 H2. unfold bind, call_ext. rewrite H1. exact H2. Qed.
Lemma hpost_bind : forall A B (m : M hworld A) (k : A -> M hworld B) w Q,
  hpost (m w) (fun a w1 => hpost (k a w1) Q) -> hpost (bind m k w) Q.
Proof. intros A B m k w Q H. unfold bind. destruct (m w); [exact H|contradiction]. Qed.
Lemma hpost_mono : forall A (m : outcome hworld A) (Q1 Q2 : A -> hworld -> Prop),
  hpost m Q1 -> (forall a w, Q1 a w -> Q2 a w) -> hpost m Q2.
Proof. intros A m Q1 Q2 H HQ. destruct m; [apply HQ; exact H|contradiction]. Qed.
Lemma hpost_ret : forall A (a : A) w (Q : A -> hworld -> Prop), Q a w -> hpost (ret a w) Q.
Proof. intros; assumption. Qed.
Lemma hbind_ret : forall A B (a : A) (k : A -> M hworld B) w, bind (ret a) k w = k a w.
Proof. reflexivity. Qed.
Lemma hbind_bind : forall A B C (m : M hworld A) (f : A -> M hworld B) (k : B -> M hworld C) w,
  bind (bind m f) k w = bind m (fun x => bind (f x) k) w.
Proof. intros. unfold bind. destruct (m w); reflexivity. Qed.

(* the meaning of one call: the name is decided by computation, the handler's branch is exposed *)
Ltac hext_unfold :=
  match goal with
  | |- context [hext ?d ?n ?a ?w] =>
    let e := eval cbv [hext String.eqb Ascii.eqb Bool.eqb] in (hext d n a w) in
    change (hext d n a w) with e
  end.

Ltac hwsimp :=
  cbv beta iota zeta delta [fst snd hw_in hw_pending hw_objs hw_vals hw_decoded hset_in hset_pending hset_objs hset_vals
       hlog_decoded hoalloc hoset hvalloc];
  cbn [andb orb negb bool_to_z].

Ltac htokcmp :=
  repeat match goal with
  | |- context [?a =? ?b] =>
    first [ replace (a =? b) with true by (symmetry; apply Z.eqb_eq; lia)
          | replace (a =? b) with false by (symmetry; apply Z.eqb_neq; lia) ]
  end.

Ltac hhyprw :=
  match goal with
  | H : tget ?d ?l ?t = _ |- context [tget ?d ?l ?t] => rewrite H
  | H : line_c ?c = _ |- context [line_c ?c] => rewrite H
  | H : bytes_eqb ?a ?b = _ |- context [bytes_eqb ?a ?b] => rewrite H
  | H : ?dec ?t = _ |- context [?dec ?t] => rewrite H
  end.

Ltac hnorm1 := first [ progress (rewrite ?tlen_snoc, ?tget_snoc, ?tlen_upd) | rewrite tget_upd by lia | hhyprw ].
Ltac hnorm := repeat (first [hnorm1 | progress hwsimp | progress unfold z_to_bool]); htokcmp; hwsimp.

Ltac hhandlers :=
  cbv [hdo_lit hdo_readstring hdo_trim hdo_streq hdo_writestring hdo_bytes hdo_unmarshal hdo_index iface_of
       hoget hvget honext hvnext].

Ltac hext_solve := hext_unfold; hhandlers; hnorm; repeat (progress hnorm); reflexivity.

Ltac hhead_let :=
  lazymatch goal with
  | |- hpost ?lhs ?Q =>
    lazymatch lhs with
    | (let x := ?v in @?b x) ?w => change (hpost (b v w) Q); cbv beta
    end
  end.

Ltac hstep :=
  first [ hhead_let
        | lazymatch goal with |- hpost (bind (bind _ _) _ _) _ => rewrite hbind_bind end
        | lazymatch goal with |- hpost (bind (ret _) _ _) _ => rewrite hbind_ret end
        | eapply hpost_call; [ hext_solve | cbv beta; hwsimp ] ].
Ltac hsteps := repeat hstep.

(* ---------- toInt, toStr ---------- *)
Lemma toInt_ok : forall dec v w y, hvget w v = HIface y ->
  HeaderReader_fn_toInt (hext dec) v w = Ok (to_int y) w.
Proof.
  intros dec v w y H. unfold hvget in H. destruct w as [i pd objs vals dd]; cbn [hw_vals] in H.
  unfold HeaderReader_fn_toInt, bind, call_ext.
  hext_unfold. hhandlers. hnorm. cbv beta iota.
  hext_unfold. hhandlers. hnorm. cbv beta iota zeta.
  destruct y; reflexivity.
Qed.

(* w' is w with more values allocated; nothing else has changed, and tokens of w keep their meaning *)
Definition vext (w w' : hworld) : Prop :=
  hw_in w' = hw_in w /\ hw_objs w' = hw_objs w /\ hw_decoded w' = hw_decoded w /\
  forall t x, hvget w t = x -> x <> HNoVal -> hvget w' t = x.

Lemma vext_refl : forall w, vext w w.
Proof. intros w. repeat split; auto. Qed.
Lemma vext_trans : forall a b c, vext a b -> vext b c -> vext a c.
Proof.
  intros a b c (A1 & A2 & A3 & A4) (B1 & B2 & B3 & B4). repeat split; try congruence.
  intros t x H N. apply B4; [apply A4; assumption|assumption].
Qed.
Lemma tget_app_old : forall A (d : A) l more t x, tget d l t = x -> x <> d -> tget d (l ++ more) t = x.
Proof.
  intros A d l more t x H N. assert (V : 0 < t < tlen l) by (apply (tget_valid A d); congruence).
  unfold tget, tlen in *. destruct (Z.leb_spec t 0); [lia|]. rewrite app_nth1 by lia. exact H.
Qed.
Lemma vext_valloc : forall w v, vext w (hvalloc w v).
Proof.
  intros w v. repeat split; auto. intros t x H N. unfold hvget, hvalloc, hset_vals in *. cbn [hw_vals].
  apply tget_app_old; assumption.
Qed.
Lemma vext_hoget : forall w w' t, vext w w' -> hoget w' t = hoget w t.
Proof. intros w w' t (_ & E & _). unfold hoget. rewrite E. reflexivity. Qed.
Lemma hvget_valloc_new : forall w v, hvget (hvalloc w v) (hvnext w) = v.
Proof.
  intros. unfold hvget, hvalloc, hvnext, hset_vals. cbn [hw_vals]. rewrite tget_snoc, Z.eqb_refl. reflexivity.
Qed.

Lemma toStr_ok : forall dec v w y, hvget w v = HIface y ->
  hpost (HeaderReader_fn_toStr (hext dec) v w) (fun r w' => hvget w' r = HStr (to_str y) /\ vext w w').
Proof.
  intros dec v w y H.
  unfold HeaderReader_fn_toStr.
  eapply hpost_call. { hext_unfold. unfold iface_of. rewrite H. reflexivity. }
  eapply hpost_call. { hext_unfold. unfold iface_of. rewrite H. reflexivity. }
  cbv beta zeta.
  destruct y; cbv beta iota delta [z_to_bool negb Z.eqb];
    try (apply hpost_ret; split; [apply hvget_valloc_new|apply vext_valloc]).
  all: eapply hpost_call; [hext_unfold; reflexivity|]; apply hpost_ret; split;
    [ apply hvget_valloc_new | eapply vext_trans; apply vext_valloc ].
Qed.

(* ---------- one field of the struct literal: toInt(h[Key]) / toStr(h[Key]) ---------- *)
Lemma int_field : forall dec A h K m (k : Z -> M hworld A) w Q,
  hoget w h = HMap m ->
  (forall w', vext w w' -> hpost (k (to_int (m (bytes_of_string K))) w') Q) ->
  hpost (bind (call_ext (hext dec) "str.lit" [AStr K]) (fun t =>
         bind (call_ext (hext dec) "index" [AInt h; AInt t]) (fun i =>
         bind (HeaderReader_fn_toInt (hext dec) i) k)) w) Q.
Proof.
  intros dec A h K m k w Q Hm Hk.
  eapply hpost_call. { hext_unfold. reflexivity. }
  eapply hpost_call.
  { hext_unfold. unfold hdo_index. rewrite (vext_hoget w) by apply vext_valloc. rewrite Hm.
    rewrite hvget_valloc_new. reflexivity. }
  unfold bind at 1. rewrite (toInt_ok dec _ _ (m (bytes_of_string K))) by apply hvget_valloc_new.
  apply Hk. eapply vext_trans; apply vext_valloc.
Qed.

Lemma str_field : forall dec A h K m (k : Z -> M hworld A) w Q,
  hoget w h = HMap m ->
  (forall r w', vext w w' -> hvget w' r = HStr (to_str (m (bytes_of_string K))) -> hpost (k r w') Q) ->
  hpost (bind (call_ext (hext dec) "str.lit" [AStr K]) (fun t =>
         bind (call_ext (hext dec) "index" [AInt h; AInt t]) (fun i =>
         bind (HeaderReader_fn_toStr (hext dec) i) k)) w) Q.
Proof.
  intros dec A h K m k w Q Hm Hk.
  eapply hpost_call. { hext_unfold. reflexivity. }
  eapply hpost_call.
  { hext_unfold. unfold hdo_index. rewrite (vext_hoget w) by apply vext_valloc. rewrite Hm.
    rewrite hvget_valloc_new. reflexivity. }
  apply hpost_bind. eapply hpost_mono. { apply (toStr_ok dec _ _ (m (bytes_of_string K))). apply hvget_valloc_new. }
  cbv beta. intros r w' [Hr Hv]. apply Hk; [|exact Hr].
  eapply vext_trans; [|exact Hv]. eapply vext_trans; apply vext_valloc.
Qed.

(* ---------- the loop body ---------- *)
Definition ZERO_HI : HeaderInfo := mkHeaderInfo 0 0 0 0 0 0 0 0.

(* the loop's invariant: the reader, and the buffer holding the header text read so far *)
Definition HInv (rd buf : Z) (acc : bytes) (w : hworld) : Prop :=
  hoget w rd = HReader /\ hoget w buf = HBuffer acc.

Ltac hbody_start :=
  intros dec rd buf acc w [Hr Hb];
  destruct w as [i pd objs vals dd];
  unfold hoget in *; cbn [hw_in hw_pending hw_objs hw_vals hw_decoded] in *.

Ltac hcif :=
  lazymatch goal with
  | |- hpost ((if _ then _ else _) _) _ =>
    unfold z_to_bool; repeat hhyprw; unfold ERR_EOF, ERR_OTHER; cbn [bool_to_z Z.eqb negb]; cbv iota
  end.

(* the stream ends before a newline: ReadString's error (io.EOF) is returned, everything is consumed *)
Lemma hbody_eof : forall dec rd buf acc w, HInv rd buf acc w ->
  line_c (hw_in w) = None ->
  hpost (HeaderReader_fn_ReadHeaderInfo_loop1 (hext dec) rd buf tt w)
        (fun r w' => r = LRet (inr (ZERO_HI, ERR_EOF)) /\ hw_in w' = [] /\ hw_objs w' = hw_objs w /\
                     hw_decoded w' = hw_decoded w).
Proof.
  hbody_start. intros Hl.
  cbv beta delta [HeaderReader_fn_ReadHeaderInfo_loop1]. change (wrap_u 8 (10)) with NL.
  repeat (first [hstep | progress hcif]).
  apply hpost_ret. hwsimp. repeat split; reflexivity.
Qed.

(* a blank line: break; the line is consumed, the buffer untouched *)
Lemma hbody_blank : forall dec rd buf acc w, HInv rd buf acc w ->
  forall l rest, line_c (hw_in w) = Some (l, rest) -> is_blank l = true ->
  hpost (HeaderReader_fn_ReadHeaderInfo_loop1 (hext dec) rd buf tt w)
        (fun r w' => r = LRet (inl tt) /\ hw_in w' = rest /\ hw_objs w' = hw_objs w /\
                     hw_decoded w' = hw_decoded w).
Proof.
  hbody_start. intros l rest Hl Hbl. pose proof (trim_is_blank _ _ _ Hl) as Ht. rewrite Hbl in Ht.
  cbv beta delta [HeaderReader_fn_ReadHeaderInfo_loop1]. change (wrap_u 8 (10)) with NL.
  repeat (first [hstep | progress hcif]).
  apply hpost_ret. hwsimp. repeat split; reflexivity.
Qed.

(* any other line: appended to the buffer, next iteration *)
Lemma hbody_line : forall dec rd buf acc w, HInv rd buf acc w ->
  forall l rest, line_c (hw_in w) = Some (l, rest) -> is_blank l = false ->
  hpost (HeaderReader_fn_ReadHeaderInfo_loop1 (hext dec) rd buf tt w)
        (fun r w' => r = LCont tt /\ hw_in w' = rest /\ HInv rd buf (acc ++ l) w' /\
                     hw_decoded w' = hw_decoded w).
Proof.
  hbody_start. intros l rest Hl Hbl. pose proof (trim_is_blank _ _ _ Hl) as Ht. rewrite Hbl in Ht.
  assert (Vb : 0 < buf < tlen objs) by (apply (tget_valid _ HNoObj); congruence).
  assert (Nrb : rd <> buf) by (intros ->; congruence).
  cbv beta delta [HeaderReader_fn_ReadHeaderInfo_loop1]. change (wrap_u 8 (10)) with NL.
  repeat (first [hstep | progress hcif]).
  apply hpost_ret. hwsimp. unfold HInv, hoget. hwsimp. rewrite !tget_upd by lia. htokcmp.
  repeat split; try reflexivity. exact Hr.
Qed.

(* ---------- the loop ---------- *)
Definition loop_post (rd buf : Z) (w : hworld) (hc : option (bytes * list bytes))
    (r : option (unit + HeaderInfo * Z)) (w' : hworld) : Prop :=
  hw_decoded w' = hw_decoded w /\ hoget w' rd = HReader /\
  match hc with
  | None => r = Some (inr (ZERO_HI, ERR_EOF)) /\ hw_in w' = []
  | Some (text, rest) => r = Some (inl tt) /\ hw_in w' = rest /\ hoget w' buf = HBuffer text
  end.

(* n bounds the number of lines (as header_c's fuel does), the loop's fuel is at least n *)
Lemma hloop_run : forall dec rd buf n fuel acc w,
  HInv rd buf acc w -> (S (total_len (hw_in w)) <= n)%nat -> (n <= fuel)%nat ->
  hpost (forever fuel (HeaderReader_fn_ReadHeaderInfo_loop1 (hext dec) rd buf) tt w)
        (loop_post rd buf w (header_c n (hw_in w) acc)).
Proof.
  intros dec rd buf n. induction n as [|k IH]; intros fuel acc w Hinv Hn Hf; [lia|].
  destruct fuel as [|f]; [lia|]. cbn [forever header_c].
  apply hpost_bind.
  destruct (line_c (hw_in w)) as [[l rest]|] eqn:Hl.
  - destruct (is_blank l) eqn:Hbl.
    + eapply hpost_mono; [eapply hbody_blank; eassumption|]. cbv beta.
      intros r w' (-> & Hi & Ho & Hd). apply hpost_ret. destruct Hinv as [Hr Hb].
      unfold loop_post, hoget in *. rewrite Ho. repeat split; assumption.
    + eapply hpost_mono; [eapply hbody_line; eassumption|]. cbv beta.
      intros r w' (-> & Hi & Hinv' & Hd).
      pose proof (line_c_shorter _ _ _ Hl) as Hs.
      eapply hpost_mono; [apply (IH f (acc ++ l) w' Hinv'); try rewrite Hi; lia|].
      cbv beta. intros r w'' (Hd' & Hr' & Hm). rewrite Hi in Hm.
      unfold loop_post. repeat split; [congruence|exact Hr'|exact Hm].
  - eapply hpost_mono; [eapply hbody_eof; eassumption|]. cbv beta.
    intros r w' (-> & Hi & Ho & Hd). apply hpost_ret. destruct Hinv as [Hr Hb].
    unfold loop_post, hoget in *. rewrite Ho. repeat split; assumption.
Qed.

(* ---------- ReadHeaderInfo ---------- *)
Definition hdr_post (dec : bytes -> option ymap) (rd : Z) (w : hworld) (r : option (HeaderInfo * Z)) (w' : hworld) : Prop :=
  let cs := hw_in w in
  hoget w' rd = HReader /\
  match header_c (S (total_len cs)) cs [] with
  | None => r = Some (ZERO_HI, ERR_EOF) /\ hw_in w' = [] /\ hw_decoded w' = hw_decoded w
  | Some (text, rest) =>
    hw_in w' = rest /\ hw_decoded w' = hw_decoded w ++ [text] /\
    match dec text with
    | None => r = Some (ZERO_HI, ERR_OTHER)
    | Some m => exists hi, r = Some (hi, 0) /\ hdr_view w' hi = Some (fields_of m)
    end
  end.

(* one field: V : vext w3 wcur is replaced by V : vext w3 wnew, the string facts are carried along *)
Ltac transport Vn :=
  repeat match goal with
  | G : hvget ?a ?t = HStr ?x |- _ =>
    lazymatch type of Vn with
    | vext a ?b => let G' := fresh "S" in
                   assert (G' : hvget b t = HStr x) by (apply Vn; [exact G|discriminate]); clear G
    end
  end.
Ltac field_int Hm V :=
  eapply int_field; [ first [exact Hm | rewrite (vext_hoget _ _ _ V); exact Hm] | ];
  let w' := fresh "w" in let Vn := fresh "Vn" in let V' := fresh "V" in
  intros w' Vn; transport Vn; pose proof (vext_trans _ _ _ V Vn) as V'; clear V Vn; rename V' into V;
  cbv beta.
Ltac field_str Hm V :=
  eapply str_field; [ first [exact Hm | rewrite (vext_hoget _ _ _ V); exact Hm] | ];
  let r' := fresh "r" in let w' := fresh "w" in let Vn := fresh "Vn" in let V' := fresh "V" in let S' := fresh "S" in
  intros r' w' Vn S'; transport Vn; pose proof (vext_trans _ _ _ V Vn) as V'; clear V Vn; rename V' into V;
  cbv beta.

(* the next field of the literal, whichever it is (the choice is made on the syntax of the goal: letting
   unification find out that toInt is not toStr takes seconds), in whatever order the literal lists them *)
Ltac field_step Hm V :=
  lazymatch goal with
  | |- hpost (bind (call_ext _ "str.lit"%string _) (fun t => bind (@?a t) (fun i => bind (HeaderReader_fn_toInt _ i) (@?k t i))) _) _ =>
    field_int Hm V
  | |- hpost (bind (call_ext _ "str.lit"%string _) (fun t => bind (@?a t) (fun i => bind (HeaderReader_fn_toStr _ i) (@?k t i))) _) _ =>
    field_str Hm V
  end.

Theorem tie_ReadHeaderInfo : forall dec rd w fuel,
  hoget w rd = HReader -> (S (total_len (hw_in w)) <= fuel)%nat ->
  hpost (src_header dec fuel rd w) (hdr_post dec rd w).
Proof.
  intros dec rd w fuel Hr Hf.
  assert (Vr : 0 < rd < tlen (hw_objs w)) by (apply (tget_valid _ HNoObj); unfold hoget in Hr; congruence).
  unfold src_header, HeaderReader_fn_ReadHeaderInfo.
  eapply hpost_call. { hext_unfold. reflexivity. }
  set (w1 := hoalloc w (HBuffer [])). set (buf := honext w).
  assert (Hinv : HInv rd buf [] w1).
  { unfold HInv, hoget, w1, buf, honext, hoalloc, hset_objs. cbn [hw_objs]. rewrite !tget_snoc.
    rewrite Z.eqb_refl. unfold hoget in Hr. rewrite Hr.
    destruct (Z.eqb_spec rd (tlen (hw_objs w))); [lia|]. split; reflexivity. }
  apply hpost_bind. eapply hpost_mono.
  { apply (hloop_run dec rd buf (S (total_len (hw_in w1))) fuel [] w1 Hinv); [lia|exact Hf]. }
  cbv beta. intros r w2 (Hd & Hr2 & Hm).
  change (hw_in w1) with (hw_in w) in Hm. change (hw_decoded w1) with (hw_decoded w) in Hd.
  unfold hdr_post. cbv zeta.
  clearbody buf. clear Hinv. clearbody w1.
  destruct (header_c (S (total_len (hw_in w))) (hw_in w) []) as [[text rest]|].
  - destruct Hm as (-> & Hi & Hb).
    assert (Vr2 : 0 < rd < tlen (hw_objs w2)) by (apply (tget_valid _ HNoObj); unfold hoget in Hr2; congruence).
    assert (Vb2 : 0 < buf < tlen (hw_objs w2)) by (apply (tget_valid _ HNoObj); unfold hoget in Hb; congruence).
    destruct w2 as [i2 pd2 objs2 vals2 dd2]. unfold hoget in Hr2, Hb.
    cbn [hw_in hw_pending hw_objs hw_vals hw_decoded] in Hd, Hr2, Hi, Hb, Vr2, Vb2. subst i2 dd2.
    cbv iota beta.
    destruct (dec text) as [m|] eqn:Hdec.
    + set (dd0 := hw_decoded w). hstep. hstep. hstep. hcif.
      match goal with |- hpost (_ ?W) _ => set (w3 := W) end.
      assert (Hm3 : hoget w3 (tlen objs2) = HMap m).
      { unfold hoget, w3. cbn [hw_objs]. rewrite tget_upd by (rewrite tlen_snoc; pose proof (tlen_pos _ objs2); lia).
        rewrite Z.eqb_refl. reflexivity. }
      assert (Hr3 : hoget w3 rd = HReader).
      { unfold hoget, w3. cbn [hw_objs]. rewrite tget_upd by (rewrite tlen_snoc; pose proof (tlen_pos _ objs2); lia).
        rewrite tget_snoc. destruct (Z.eqb_spec rd (tlen objs2)); [lia|]. exact Hr2. }
      assert (Hi3 : hw_in w3 = rest) by reflexivity.
      assert (Hd3 : hw_decoded w3 = dd0 ++ [text]) by reflexivity.
      pose proof (vext_refl w3) as V. clearbody w3.
      repeat field_step Hm3 V.
      apply hpost_ret. destruct V as (V1 & V2 & V3 & _).
      split; [unfold hoget in *; rewrite V2; exact Hr3|].
      split; [rewrite <- Hi3; exact V1|].
      split; [rewrite <- Hd3; exact V3|].
      eexists. split; [reflexivity|].
      unfold hdr_view, hstr. cbn [HeaderInfo_brand HeaderInfo_model HeaderInfo_firmware].
      repeat match goal with G : hvget _ _ = HStr _ |- _ => rewrite G; clear G end.
      reflexivity.
    + set (dd0 := hw_decoded w). hstep. hstep. hstep. hcif.
      apply hpost_ret. unfold hoget. hwsimp. rewrite tget_snoc.
      destruct (Z.eqb_spec rd (tlen objs2)); [lia|]. repeat split; try reflexivity. exact Hr2.
  - destruct Hm as (-> & Hi). cbv iota beta zeta.
    apply hpost_ret. repeat split; assumption.
Qed.

(* ---------- corollaries ---------- *)

(* an error is returned exactly when the stream ends before the blank line or the decoder fails *)
Theorem tie_ReadHeaderInfo_error_iff : forall dec rd w fuel,
  hoget w rd = HReader -> (S (total_len (hw_in w)) <= fuel)%nat ->
  hpost (src_header dec fuel rd w) (fun r w' => exists hi e, r = Some (hi, e) /\
    (e <> 0 <->
     (header_c (S (total_len (hw_in w))) (hw_in w) [] = None \/
      exists text rest, header_c (S (total_len (hw_in w))) (hw_in w) [] = Some (text, rest) /\ dec text = None))).
Proof.
  intros dec rd w fuel Hr Hf. eapply hpost_mono; [apply tie_ReadHeaderInfo; assumption|].
  cbv beta. intros r w' [_ H]. cbv zeta in H.
  destruct (header_c (S (total_len (hw_in w))) (hw_in w) []) as [[text rest]|].
  - destruct H as (_ & _ & H). destruct (dec text) as [m|] eqn:Hd.
    + destruct H as (hi & -> & _). exists hi, 0. split; [reflexivity|]. split; [congruence|].
      intros [C|(t & r & C & D)]; [discriminate|]. inversion C; subst. congruence.
    + subst r. exists ZERO_HI, ERR_OTHER. split; [reflexivity|]. split; [|discriminate].
      intros _. right. exists text, rest. split; [reflexivity|exact Hd].
  - destruct H as (-> & _). exists ZERO_HI, ERR_EOF. split; [reflexivity|]. split; [|discriminate].
    intros _. left. reflexivity.
Qed.

(* the text handed to the decoder is the model's cr_header - whatever the frame size - and the decoder
   is called at most once *)
Theorem src_header_is_run_conn : forall dec fs cs rd w fuel,
  hoget w rd = HReader -> hw_in w = cs -> (S (total_len cs) <= fuel)%nat ->
  hpost (src_header dec fuel rd w) (fun r w' =>
    hw_decoded w' = hw_decoded w ++ match cr_header (run_conn fs cs) with Some t => [t] | None => [] end).
Proof.
  intros dec fs cs rd w fuel Hr Hi Hf. subst cs. eapply hpost_mono; [apply tie_ReadHeaderInfo; assumption|].
  cbv beta. intros r w' [_ H]. cbv zeta in H. unfold run_conn.
  destruct (header_c (S (total_len (hw_in w))) (hw_in w) []) as [[text rest]|]; cbn [cr_header].
  - destruct H as (_ & H & _). exact H.
  - destruct H as (_ & _ & H). rewrite app_nil_r. exact H.
Qed.

(* in the shape of SocketProofs.truncated_header_errors: a header cut short by the stream ending - at
   ANY point, in any segmentation - makes the translated ReadHeaderInfo return an error (io.EOF), with
   the zero description, the decoder never called, and it terminates within the stated fuel *)
Theorem src_truncated_header_errors : forall dec h p q rd w fuel,
  header_text_ok h = true -> h ++ [NL] = p ++ q -> q <> [] ->
  hoget w rd = HReader -> concat (hw_in w) = p -> (S (total_len (hw_in w)) <= fuel)%nat ->
  hpost (src_header dec fuel rd w) (fun r w' =>
    r = Some (ZERO_HI, ERR_EOF) /\ hw_in w' = [] /\ hw_decoded w' = hw_decoded w).
Proof.
  intros dec h p q rd w fuel Hh Heq Hq Hr Hp Hf.
  pose proof (truncated_header_errors 0%nat h p q (hw_in w) Hh Heq Hq Hp) as T. unfold run_conn in T.
  eapply hpost_mono; [apply tie_ReadHeaderInfo; assumption|].
  cbv beta. intros r w' [_ H]. cbv zeta in H.
  destruct (header_c (S (total_len (hw_in w))) (hw_in w) []) as [[text rest]|]; [discriminate|exact H].
Qed.

(* in the shape of SocketProofs.stream_roundtrip: for every header text the camera daemon's encoder can
   produce, followed by the blank line and ANYTHING (frames), in any segmentation: the decoder gets
   exactly that text, exactly the bytes after the blank line are left in the stream, and the fields are
   toInt / toStr of the decoded map *)
Theorem src_header_roundtrip : forall dec h tail rd w fuel,
  header_text_ok h = true -> hoget w rd = HReader -> concat (hw_in w) = h ++ [NL] ++ tail ->
  (S (total_len (hw_in w)) <= fuel)%nat ->
  hpost (src_header dec fuel rd w) (fun r w' =>
    concat (hw_in w') = tail /\ hw_decoded w' = hw_decoded w ++ [h] /\
    match dec h with
    | None => r = Some (ZERO_HI, ERR_OTHER)
    | Some m => exists hi, r = Some (hi, 0) /\ hdr_view w' hi = Some (fields_of m)
    end).
Proof.
  intros dec h tail rd w fuel Hh Hr Hc Hf.
  destruct (header_text_ok_split h Hh) as [Hnb He].
  pose proof (header_c_flat (S (total_len (hw_in w))) (hw_in w) []) as F.
  rewrite Hc in F. change ([NL] ++ tail) with (NL :: tail) in F.
  rewrite header_f_ok in F; [ | unfold total_len; rewrite Hc, app_length; lia | exact Hnb | exact He].
  eapply hpost_mono; [apply tie_ReadHeaderInfo; assumption|].
  cbv beta. intros r w' [_ H]. cbv zeta in H.
  destruct (header_c (S (total_len (hw_in w))) (hw_in w) []) as [[text rest]|]; [|discriminate].
  cbn [flat app] in F. inversion F; subst text tail.
  destruct H as (Hi & Hd & Hm). rewrite Hi. repeat split; assumption.
Qed.

(* the accessor methods return the fields (and leave the description and the world alone) *)
Theorem tie_accessors : forall W (ext : string -> list arg -> W -> Z * W) (h : HeaderInfo) (w : W),
  HeaderInfo_ResX ext h w = Ok (h, HeaderInfo_resX h) w /\
  HeaderInfo_ResY ext h w = Ok (h, HeaderInfo_resY h) w /\
  HeaderInfo_FPS ext h w = Ok (h, HeaderInfo_fps h) w /\
  HeaderInfo_FrameSize ext h w = Ok (h, HeaderInfo_framesize h) w /\
  HeaderInfo_Model ext h w = Ok (h, HeaderInfo_model h) w /\
  HeaderInfo_Brand ext h w = Ok (h, HeaderInfo_brand h) w /\
  HeaderInfo_Firmware ext h w = Ok (h, HeaderInfo_firmware h) w /\
  HeaderInfo_CameraSerial ext h w = Ok (h, HeaderInfo_serial h) w.
Proof. intros. repeat split; reflexivity. Qed.

Theorem all_header_functions_translated : untranslated_HeaderReader = [].
Proof. reflexivity. Qed.

(* ---------- ConnExt's clause for headers.ReadHeaderInfo is the translated ReadHeaderInfo ----------
   model/ConnExt.v gives the call `headers.ReadHeaderInfo(reader)` of handleConn its meaning by hand
   ([do_readheader]: Socket.header_c, then the decoder parameter [c_decode]).  With c_decode = "decode,
   then the HeaderInfo literal" that meaning is what the translated Go function computes on the same
   stream: the same remaining input, the same error value (nil / io.EOF / the decoder's), and on success
   a description with the same frame size, fps, brand and model. *)
Definition hdr_of_fields (f : hfields) : hdr := mkHdr (f_framesize f) (f_fps f) (f_brand f) (f_model f).

Theorem conn_header_clause_is_source : forall dec cfg cw r tok cw' hw rd fuel,
  (forall t, c_decode cfg t = option_map (fun m => hdr_of_fields (fields_of m)) (dec t)) ->
  oget cw r = OReader -> do_readheader cfg [AInt r] cw = (tok, cw') ->
  hoget hw rd = HReader -> hw_in hw = cw_in cw -> (S (total_len (cw_in cw)) <= fuel)%nat ->
  hpost (src_header dec fuel rd hw) (fun res hw' =>
    hw_in hw' = cw_in cw' /\
    exists hi, res = Some (hi, cw_pending cw') /\
    (cw_pending cw' = 0 ->
     exists f, hdr_view hw' hi = Some f /\ oget cw' tok = OHeader (hdr_of_fields f))).
Proof.
  intros dec cfg cw r tok cw' hw rd fuel Hdec Hr Hdo Hhr Hin Hf.
  unfold do_readheader in Hdo. rewrite Hr in Hdo.
  eapply hpost_mono; [apply tie_ReadHeaderInfo; [exact Hhr|rewrite Hin; exact Hf]|].
  cbv beta. intros res hw' [_ H]. cbv zeta in H. rewrite Hin in H.
  destruct (header_c (S (total_len (cw_in cw))) (cw_in cw) []) as [[text rest]|].
  - destruct H as (Hi & _ & H). rewrite Hdec in Hdo. destruct (dec text) as [m|]; cbn [option_map] in Hdo.
    + inversion Hdo; subst tok cw'. clear Hdo. destruct H as (hi & -> & Hv).
      split; [exact Hi|]. exists hi. split; [reflexivity|]. intros _. exists (fields_of m). split; [exact Hv|].
      unfold oget, onext, set_read, oalloc, set_objs. cbn [cw_objs]. rewrite tget_snoc, Z.eqb_refl. reflexivity.
    + inversion Hdo; subst tok cw'. clear Hdo. subst res. split; [exact Hi|]. exists ZERO_HI.
      split; [reflexivity|]. cbn. discriminate.
  - inversion Hdo; subst tok cw'. clear Hdo. destruct H as (-> & Hi & _). split; [exact Hi|]. exists ZERO_HI.
    split; [reflexivity|]. cbn. discriminate.
Qed.

(* ConnExt's handler answers the two calls of the translated handleConn with exactly that clause *)
Lemma cext_readheader : forall cfg args w,
  cext cfg "headers.ReadHeaderInfo" args w = do_readheader cfg args w /\
  cext cfg "headers.ReadHeaderInfo#1" args w = (cw_pending w, w).
Proof. intros. split; reflexivity. Qed.

(* ---------- examples (by computation) ----------
   A toy decoder, for the examples only: one "key: value" per line, a value made of digits is an int,
   any other value a string; a line of another form is an error. *)
Fixpoint toy_lines (cur b : bytes) : list bytes :=
  match b with
  | [] => match cur with [] => [] | _ => [cur] end
  | x :: r => if x =? NL then cur :: toy_lines [] r else toy_lines (cur ++ [x]) r
  end.
Fixpoint toy_kv (key l : bytes) : option (bytes * bytes) :=
  match l with
  | [] => None
  | b :: r =>
    if b =? 58 then
      match r with
      | c :: v => if c =? 32 then Some (key, v) else toy_kv (key ++ [b]) r
      | [] => None
      end
    else toy_kv (key ++ [b]) r
  end.
Definition toy_value (v : bytes) : yval :=
  match v with
  | [] => YStr []
  | _ => if forallb (fun b => (48 <=? b) && (b <=? 57)) v
         then YInt (fold_left (fun a b => a * 10 + (b - 48)) v 0) else YStr v
  end.
Fixpoint toy_pairs (ls : list bytes) : option (list (bytes * yval)) :=
  match ls with
  | [] => Some []
  | l :: r => match toy_kv [] l, toy_pairs r with
              | Some (k, v), Some ps => Some ((k, toy_value v) :: ps)
              | _, _ => None
              end
  end.
Definition toy_decode (text : bytes) : option ymap :=
  match toy_pairs (toy_lines [] text) with
  | Some ps => Some (fun k => match find (fun p => bytes_eqb (fst p) k) ps with Some (_, v) => v | None => YNil end)
  | None => None
  end.

(* what an example run shows: error value, the description spelled out, the remaining stream, the texts
   handed to the decoder *)
Definition show (o : outcome hworld (option (HeaderInfo * Z))) : option (Z * option hfields * list bytes * list bytes) :=
  match o with
  | Ok (Some (hi, e)) w' => Some (e, hdr_view w' hi, hw_in w', hw_decoded w')
  | _ => None
  end.

Definition ex_text : bytes :=
  bytes_of_string ("ResX: 160" ++ nl ++ "ResY: 120" ++ nl ++ "FPS: 9" ++ nl ++ "FrameSize: 39040" ++ nl ++
                   "Brand: flir" ++ nl ++ "Model: lepton3.5" ++ nl ++ "CameraSerial: 12345" ++ nl ++
                   "Firmware: 1.2.3" ++ nl).
Definition ex_frames : bytes := [7; 10; 10; 32; 10; 99; 108; 101; 97; 114; 1; 2; 3].
(* the header in three chunks cut in the middle of lines, the third one also carrying the blank line
   ("   \n": spaces are allowed in it) and the first bytes of the frame stream - which contain newlines *)
Definition ex_chunks : list bytes :=
  [firstn 13 ex_text; firstn 50 (skipn 13 ex_text); skipn 63 ex_text ++ [32; 32; 32; 10] ++ ex_frames].

Example ex_header_three_chunks :
  show (src_header toy_decode 200 RD (hdr_init ex_chunks)) =
  Some (0, Some (mkHF 160 120 9 39040 (bytes_of_string "flir") (bytes_of_string "lepton3.5") 12345
                      (bytes_of_string "1.2.3")),
        [ex_frames], [ex_text]).
Proof. vm_compute. reflexivity. Qed.

(* missing or wrongly typed entries: 0 / "" *)
Example ex_header_wrong_types :
  show (src_header toy_decode 200 RD
          (hdr_init [bytes_of_string ("ResX: wide" ++ nl ++ "FPS: 9" ++ nl ++ "Brand: 42" ++ nl ++ "Model: boson" ++ nl ++ nl)
                     ++ [1; 2]])) =
  Some (0, Some (mkHF 0 0 9 0 [] (bytes_of_string "boson") 0 []), [[1; 2]],
        [bytes_of_string ("ResX: wide" ++ nl ++ "FPS: 9" ++ nl ++ "Brand: 42" ++ nl ++ "Model: boson" ++ nl)]).
Proof. vm_compute. reflexivity. Qed.

(* the stream ends inside the header (here: before the blank line): io.EOF, everything consumed, the
   decoder never called *)
Example ex_header_truncated :
  show (src_header toy_decode 200 RD (hdr_init [firstn 13 ex_text; firstn 50 (skipn 13 ex_text); skipn 63 ex_text])) =
  Some (ERR_EOF, None, [], []).
Proof. vm_compute. reflexivity. Qed.

(* a text the decoder refuses: its error, the stream positioned after the blank line all the same *)
Example ex_header_undecodable :
  show (src_header toy_decode 200 RD (hdr_init [bytes_of_string ("no colon here" ++ nl ++ nl) ++ [5; 6]])) =
  Some (ERR_OTHER, None, [[5; 6]], [bytes_of_string ("no colon here" ++ nl)]).
Proof. vm_compute. reflexivity. Qed.

(* too little fuel is reported as such (None), never as a result *)
Example ex_header_fuel :
  show (src_header toy_decode 3 RD (hdr_init ex_chunks)) = None /\
  (exists w', src_header toy_decode 3 RD (hdr_init ex_chunks) = Ok None w') /\
  show (src_header toy_decode 9 RD (hdr_init ex_chunks)) <> None.
Proof. split; [vm_compute; reflexivity|]. split; [eexists; vm_compute; reflexivity|vm_compute; discriminate]. Qed.

(* no axioms *)
Print Assumptions tie_ReadHeaderInfo.
Print Assumptions src_header_roundtrip.
Print Assumptions conn_header_clause_is_source.
