(* Source tie for motion/motion.go, part 2: the pixel loops of the translated detector
   (absDiffFrames, warmerDiffFrames, CountPixels, CountPixelsTwoCompare) computed in closed
   form.  The code is traversed by tactics (no fragment of the generated file is repeated
   here); what each loop body does to the world is stated in lemmas about worlds. *)
From Coq Require Import List ZArith Bool String Lia Arith.
From Coq Require Import Floats.SpecFloat.
From TR Require Import model.GoSem model.Ring model.Detector model.DetExt
     translated.FrameLoop translated.MotionDetector proofs.TieDetBase.
Import ListNotations.
Open Scope Z_scope.

(* ====================================================================================
   The configuration as the translated detector holds it
   ==================================================================================== *)
Definition npix (c : dcfg) : f64 :=
  f64_of_Z (Z.of_nat ((d_h c - d_edge c - d_edge c) * (d_w c - d_edge c - d_edge c))).

Record dconf (c : dcfg) (d : motionDetector) : Prop := {
  dc_start : motionDetector_start d = Z.of_nat (d_edge c);
  dc_rowStop : motionDetector_rowStop d = Z.of_nat (d_h c - d_edge c);
  dc_colStop : motionDetector_columnStop d = Z.of_nat (d_w c - d_edge c);
  dc_dyn : motionDetector_dynamicThresh d = d_dynamic c;
  dc_one : motionDetector_useOneDiff d = d_one c;
  dc_tmax : motionDetector_tempThreshMax d = d_tmax c;
  dc_tmin : motionDetector_tempThreshMin d = d_tmin c;
  dc_delta : motionDetector_deltaThresh d = d_delta c;
  dc_count : motionDetector_countThresh d = d_count c;
  dc_warmer : motionDetector_warmerOnly d = d_warmer c;
  dc_bg : motionDetector_background d = H_BG c;
  dc_preview : motionDetector_previewFrames d = d_preview c;
  dc_npix : motionDetector_numPixels d = fenc (npix c)
}.

Ltac conf H :=
  rewrite ?(dc_start _ _ H), ?(dc_rowStop _ _ H), ?(dc_colStop _ _ H), ?(dc_dyn _ _ H), ?(dc_one _ _ H),
    ?(dc_tmax _ _ H), ?(dc_tmin _ _ H), ?(dc_delta _ _ H), ?(dc_count _ _ H), ?(dc_warmer _ _ H),
    ?(dc_bg _ _ H), ?(dc_preview _ _ H), ?(dc_npix _ _ H).

Ltac conf_in H E :=
  rewrite ?(dc_start _ _ H), ?(dc_rowStop _ _ H), ?(dc_colStop _ _ H), ?(dc_dyn _ _ H), ?(dc_one _ _ H),
    ?(dc_tmax _ _ H), ?(dc_tmin _ _ H), ?(dc_delta _ _ H), ?(dc_count _ _ H), ?(dc_warmer _ _ H),
    ?(dc_bg _ _ H), ?(dc_preview _ _ H), ?(dc_npix _ _ H) in E.

(* all setters computed away, whichever fields the code assigns *)
Ltac md_norm :=
  cbv beta iota zeta delta
    [motionDetector_set_flooredFrames motionDetector_set_diffFrames motionDetector_set_firstDiff
     motionDetector_set_dynamicThresh motionDetector_set_useOneDiff motionDetector_set_tempThresh
     motionDetector_set_tempThreshMax motionDetector_set_tempThreshMin motionDetector_set_deltaThresh
     motionDetector_set_countThresh motionDetector_set_warmerOnly motionDetector_set_start
     motionDetector_set_rowStop motionDetector_set_columnStop motionDetector_set_count
     motionDetector_set_background motionDetector_set_backgroundFrames motionDetector_set_previewFrames
     motionDetector_set_numPixels motionDetector_set_affectedByFCC motionDetector_set_framesHz];
  cbn [motionDetector_flooredFrames motionDetector_diffFrames motionDetector_firstDiff motionDetector_dynamicThresh
       motionDetector_useOneDiff motionDetector_tempThresh motionDetector_tempThreshMax motionDetector_tempThreshMin
       motionDetector_deltaThresh motionDetector_countThresh motionDetector_warmerOnly motionDetector_start
       motionDetector_rowStop motionDetector_columnStop motionDetector_count motionDetector_background
       motionDetector_backgroundFrames motionDetector_previewFrames motionDetector_numPixels
       motionDetector_affectedByFCC motionDetector_framesHz].

Definition cdims (c : dcfg) : Prop := (2 * d_edge c < d_w c)%nat /\ (2 * d_edge c < d_h c)%nat.

(* 16-bit grids (reads outside a grid give 0) *)
Definition gbound (g : grid) : Prop := forall y x, 0 <= gget g y x <= 65535.

Lemma wrap_u_small x : 0 <= x <= 65535 -> wrap_u 16 x = x.
Proof. intros H. unfold wrap_u. change (2 ^ 16) with 65536. apply Z.mod_small. lia. Qed.

Lemma interior_true c y x :
  interior c y x = true <-> (d_edge c <= y < d_h c - d_edge c)%nat /\ (d_edge c <= x < d_w c - d_edge c)%nat.
Proof.
  unfold interior. rewrite !andb_true_iff, !Nat.leb_le, !Nat.ltb_lt. lia.
Qed.

Lemma interior_false c y x :
  interior c y x = false <-> ~ ((d_edge c <= y < d_h c - d_edge c)%nat /\ (d_edge c <= x < d_w c - d_edge c)%nat).
Proof. rewrite <- interior_true. destruct (interior c y x); intuition congruence. Qed.

(* ====================================================================================
   Row-major sweeps over the interior
   ==================================================================================== *)

(* (y', x') comes before (y, x) *)
Definition donep (y x y' x' : nat) : bool := (y' <? y)%nat || ((y' =? y)%nat && (x' <? x)%nat).

Lemma donep_true y x y' x' : donep y x y' x' = true <-> (y' < y)%nat \/ (y' = y /\ x' < x)%nat.
Proof. unfold donep. rewrite orb_true_iff, andb_true_iff, !Nat.ltb_lt, Nat.eqb_eq. tauto. Qed.

Lemma donep_false y x y' x' : donep y x y' x' = false <-> ~ ((y' < y)%nat \/ (y' = y /\ x' < x)%nat).
Proof. rewrite <- donep_true. destruct (donep y x y' x'); intuition congruence. Qed.

(* interior coordinates before (y, x), in row-major order *)
Definition ipre (c : dcfg) (y x : nat) : list (nat * nat) :=
  flat_map (fun y' => map (fun x' => (y', x')) (seq (d_edge c) (d_w c - d_edge c - d_edge c)))
           (seq (d_edge c) (y - d_edge c))
  ++ map (fun x' => (y, x')) (seq (d_edge c) (x - d_edge c)).

Lemma ipre_start c y : ipre c (d_edge c) y = map (fun x' => (d_edge c, x')) (seq (d_edge c) (y - d_edge c)).
Proof. unfold ipre. rewrite Nat.sub_diag. reflexivity. Qed.

Lemma ipre_start0 c : ipre c (d_edge c) (d_edge c) = [].
Proof. rewrite ipre_start, Nat.sub_diag. reflexivity. Qed.

Lemma ipre_step c y x : (d_edge c <= x)%nat -> ipre c y (S x) = ipre c y x ++ [(y, x)].
Proof.
  intros H. unfold ipre. replace (S x - d_edge c)%nat with (S (x - d_edge c)) by lia.
  rewrite seq_S, map_app, app_assoc. cbn [map]. repeat f_equal. lia.
Qed.

Lemma ipre_row c y : (d_edge c <= y)%nat -> ipre c y (d_w c - d_edge c) = ipre c (S y) (d_edge c).
Proof.
  intros H. unfold ipre. replace (S y - d_edge c)%nat with (S (y - d_edge c)) by lia.
  rewrite seq_S, flat_map_app. cbn [flat_map]. rewrite Nat.sub_diag. cbn [seq map]. rewrite !app_nil_r.
  replace (d_edge c + (y - d_edge c))%nat with y by lia. reflexivity.
Qed.

Lemma ipre_end c : ipre c (d_h c - d_edge c) (d_edge c) = icoords c.
Proof. unfold ipre, icoords. rewrite Nat.sub_diag. cbn [seq map]. apply app_nil_r. Qed.

(* a table being rewritten on the interior in row-major order: position (y, x) reached *)
Definition swept {A} (dflt : A) (c : dcfg) (y x : nat) (newv : nat -> nat -> A) (t0 t : list (list A)) : Prop :=
  tdims (d_h c) (d_w c) t /\
  forall y' x', (y' < d_h c)%nat -> (x' < d_w c)%nat ->
    tget dflt t y' x' = if interior c y' x' && donep y x y' x' then newv y' x' else tget dflt t0 y' x'.

Lemma swept_init {A} (dflt : A) c newv t0 : tdims (d_h c) (d_w c) t0 -> swept dflt c (d_edge c) (d_edge c) newv t0 t0.
Proof.
  intros D. split; [exact D|]. intros y' x' Hy Hx.
  destruct (interior c y' x') eqn:Ei; cbn [andb]; [|reflexivity].
  apply interior_true in Ei. destruct (donep (d_edge c) (d_edge c) y' x') eqn:Ed; [|reflexivity].
  apply donep_true in Ed. lia.
Qed.

Lemma swept_step {A} (dflt : A) c y x newv t0 t :
  swept dflt c y x newv t0 t -> interior c y x = true ->
  swept dflt c y (S x) newv t0 (tset t y x (newv y x)).
Proof.
  intros [D P] Ei. split; [apply tdims_tset; exact D|]. intros y' x' Hy Hx.
  pose proof Ei as Ei'. apply interior_true in Ei'.
  destruct (Nat.eq_dec y' y) as [->|Ny]; [destruct (Nat.eq_dec x' x) as [->|Nx]|].
  - rewrite (tget_tset_eq dflt _ _ _ _ _ _ D) by lia. rewrite Ei. cbn [andb].
    replace (donep y (S x) y x) with true; [reflexivity|]. symmetry. apply donep_true. lia.
  - rewrite tget_tset_neq by (right; exact Nx). rewrite P by assumption.
    replace (donep y (S x) y x') with (donep y x y x'); [reflexivity|].
    destruct (donep y x y x') eqn:E1; symmetry; [apply donep_true in E1; apply donep_true | apply donep_false in E1; apply donep_false]; lia.
  - rewrite tget_tset_neq by (left; exact Ny). rewrite P by assumption.
    replace (donep y (S x) y' x') with (donep y x y' x'); [reflexivity|].
    destruct (donep y x y' x') eqn:E1; symmetry; [apply donep_true in E1; apply donep_true | apply donep_false in E1; apply donep_false]; lia.
Qed.

Lemma swept_row {A} (dflt : A) c y newv t0 t :
  swept dflt c y (d_w c - d_edge c) newv t0 t -> swept dflt c (S y) (d_edge c) newv t0 t.
Proof.
  intros [D P]. split; [exact D|]. intros y' x' Hy Hx. rewrite P by assumption.
  destruct (interior c y' x') eqn:Ei; cbn [andb]; [|reflexivity]. apply interior_true in Ei.
  replace (donep (S y) (d_edge c) y' x') with (donep y (d_w c - d_edge c) y' x'); [reflexivity|].
  destruct (donep y (d_w c - d_edge c) y' x') eqn:E1; symmetry;
    [apply donep_true in E1; apply donep_true | apply donep_false in E1; apply donep_false]; lia.
Qed.

Lemma swept_end {A} (dflt : A) c newv t0 t :
  swept dflt c (d_h c - d_edge c) (d_edge c) newv t0 t ->
  t = tbuild (d_h c) (d_w c) (fun y x => if interior c y x then newv y x else tget dflt t0 y x).
Proof.
  intros [D P]. apply (table_is_build dflt); [exact D|]. intros y x Hy Hx. rewrite P by assumption.
  destruct (interior c y x) eqn:Ei; cbn [andb]; [|reflexivity]. apply interior_true in Ei.
  replace (donep (d_h c - d_edge c) (d_edge c) y x) with true; [reflexivity|]. symmetry. apply donep_true. lia.
Qed.

(* ====================================================================================
   Running a loop of the translated code with an invariant
   ==================================================================================== *)

(* the goal runs [for_range (Z.of_nat lo) (Z.of_nat hi) body s] first; afterwards it continues from a
   state and world that satisfy [I hi].  Leaves: lo <= hi, I lo now, the step, the continuation. *)
Ltac run_loop I s' w' HI :=
  match goal with
  | |- context [bind (for_range (Z.of_nat ?lo) (Z.of_nat ?hi) ?body ?s) ?k ?w] =>
    let E := fresh "E" in
    destruct (for_range_inv I body lo hi s w) as (s' & w' & E & HI);
    [ | | | rewrite (bind_ok _ k w _ _ E); clear E; cbv beta iota ]
  end.

Lemma of_nat_0 : 0 = Z.of_nat 0. Proof. reflexivity. Qed.

(* ====================================================================================
   absDiffFrames / warmerDiffFrames
   ==================================================================================== *)
Section Diff.
  Variable c : dcfg.
  Variable d : motionDetector.
  Hypothesis Hc : dconf c d.
  Hypothesis Hd : cdims c.
  Hypothesis Ht : 0 <= motionDetector_tempThresh d <= 65535.

  Lemma absDiff_ok {B} a b (k : Z -> M dworld B) w : 0 <= a <= 65535 -> 0 <= b <= 65535 ->
    bind (MotionDetector_fn_absDiff dext a b) k w = k (abs_diff a b) w.
  Proof.
    intros Ha Hb. unfold MotionDetector_fn_absDiff, abs_diff.
    destruct (Z.ltb_spec (a - b) 0); rewrite bind_ret, wrap_u_small by lia; f_equal; lia.
  Qed.

  Lemma warmerDiff_ok {B} a b (k : Z -> M dworld B) w : 0 <= a <= 65535 -> 0 <= b <= 65535 ->
    bind (MotionDetector_fn_warmerDiff dext a b) k w = k (warmer_diff a b) w.
  Proof.
    intros Ha Hb. unfold MotionDetector_fn_warmerDiff, warmer_diff.
    destruct (Z.ltb_spec (a - b) 0); rewrite bind_ret; [reflexivity|]. rewrite wrap_u_small by lia. reflexivity.
  Qed.

  Lemma floor_bound t v : 0 <= t <= 65535 -> 0 <= v <= 65535 -> 0 <= floor_to t v <= 65535.
  Proof. intros. unfold floor_to. destruct (v <? t); lia. Qed.

  Variables (w0 : dworld) (a b out : Z).
  Hypothesis Hout : hin w0 out.
  Hypothesis Ha : 0 <= a.
  Hypothesis Hb : 0 <= b.
  Hypothesis Nao : a <> out.
  Hypothesis Nbo : b <> out.
  Hypothesis Dout : tdims (d_h c) (d_w c) (pixof w0 out).
  Hypothesis Ba : gbound (pixof w0 a).
  Hypothesis Bb : gbound (pixof w0 b).

  Let t := motionDetector_tempThresh d.

  Definition dinv (newv : nat -> nat -> Z) (y x : nat) (s : motionDetector * Z) (w : dworld) : Prop :=
    s = (d, out) /\ exists g, w = set_pix w0 out g /\ swept 0 c y x newv (pixof w0 out) g.

  Let absv (y x : nat) : Z := abs_diff (floor_to t (gget (pixof w0 a) y x)) (floor_to t (gget (pixof w0 b) y x)).
  Let warmv (y x : nat) : Z := warmer_diff (floor_to t (gget (pixof w0 a) y x)) (floor_to t (gget (pixof w0 b) y x)).

  Lemma dinv_start newv : dinv newv (d_edge c) (d_edge c) (d, out) w0.
  Proof.
    split; [reflexivity|]. exists (pixof w0 out). split; [symmetry; apply set_pix_id | apply swept_init; exact Dout].
  Qed.

  Lemma dinv_end newv s w : dinv newv (d_h c - d_edge c) (d_edge c) s w ->
    s = (d, out) /\
    w = set_pix w0 out (gbuild (d_h c) (d_w c) (fun y x => if interior c y x then newv y x else gget (pixof w0 out) y x)).
  Proof.
    intros (-> & g & -> & Hs). split; [reflexivity|]. f_equal. apply (swept_end 0); exact Hs.
  Qed.

  (* one pixel *)
  Lemma dinv_pixel newv y x g :
    swept 0 c y x newv (pixof w0 out) g -> (d_edge c <= y < d_h c - d_edge c)%nat -> (d_edge c <= x < d_w c - d_edge c)%nat ->
    dinv newv y (S x) (d, out)
      (set_pix (set_pix w0 out g) out (gset (pixof (set_pix w0 out g) out) (Z.to_nat (Z.of_nat y)) (Z.to_nat (Z.of_nat x)) (newv y x))).
  Proof.
    intros Hs Hy Hx. split; [reflexivity|].
    rewrite pixof_set_pix_eq, set_pix_set_pix, !Nat2Z.id by exact Hout.
    eexists. split; [reflexivity|]. rewrite gset_tset. apply swept_step; [exact Hs|]. apply interior_true. lia.
  Qed.

  Ltac floor_case t d v E :=
    assert (E : floor_to t v = if v <? motionDetector_tempThresh d then motionDetector_tempThresh d else v) by reflexivity;
    revert E; destruct (v <? motionDetector_tempThresh d); intros E.

  (* the body of the inner loop, for either difference: the reads, the debug call and the two floors in
     whatever order the code has them, then the difference and the write *)
  Ltac diff_pixel t d opok newv y x Hout Ht Ba Bb lem :=
    cbv beta iota zeta; rewrite !(wrap_u_small _ Ht);
    repeat first
      [ rewrite c_get; cbv beta; rewrite pixof_set_pix_neq, !Nat2Z.id by (assumption || apply Hout)
      | rewrite c_debug; cbv beta
      | match goal with |- context [if ?v <? _ then _ else _] => let E := fresh "Ef" in floor_case t d v E end ];
    (rewrite opok by (first [exact Ht | apply Ba | apply Bb]); rewrite c_set; cbv beta; rewrite ?bind_ret;
     eexists; eexists; split; [reflexivity|];
     match goal with |- context [gset _ _ _ ?v] =>
       replace v with (newv y x)
         by (cbv beta delta [newv];
             repeat match goal with E : floor_to _ ?u = _ |- context [floor_to _ ?u] => rewrite E end;
             reflexivity) end;
     apply lem; assumption).

  Theorem absDiffFrames_ok :
    motionDetector_absDiffFrames dext d a b out w0 =
    Ok (d, out) (set_pix w0 out (gbuild (d_h c) (d_w c) (fun y x =>
           if interior c y x then absv y x else gget (pixof w0 out) y x))).
  Proof.
    unfold motionDetector_absDiffFrames. conf Hc.
    destruct Hd as [Hd1 Hd2].
    run_loop (fun y => dinv absv y (d_edge c)) s1 w1 H1.
    - lia.
    - apply dinv_start.
    - intros y s w Hy (-> & g & -> & Hs). cbv beta iota. conf Hc.
      run_loop (dinv absv y) s2 w2 H2.
      + lia.
      + split; [reflexivity|]. exists g. split; [reflexivity | exact Hs].
      + clear g Hs. intros x s w Hx (-> & g & -> & Hs).
        diff_pixel t d @absDiff_ok absv y x Hout Ht Ba Bb dinv_pixel.
      + destruct H2 as (-> & g2 & -> & Hs2). cbv beta iota.
        eexists; eexists; split; [reflexivity|]. split; [reflexivity|]. exists g2. split; [reflexivity|].
        apply swept_row; exact Hs2.
    - apply dinv_end in H1. destruct H1 as [-> ->]. reflexivity.
  Qed.

  Theorem warmerDiffFrames_ok :
    motionDetector_warmerDiffFrames dext d a b out w0 =
    Ok (d, out) (set_pix w0 out (gbuild (d_h c) (d_w c) (fun y x =>
           if interior c y x then warmv y x else gget (pixof w0 out) y x))).
  Proof.
    unfold motionDetector_warmerDiffFrames. conf Hc.
    destruct Hd as [Hd1 Hd2].
    run_loop (fun y => dinv warmv y (d_edge c)) s1 w1 H1.
    - lia.
    - apply dinv_start.
    - intros y s w Hy (-> & g & -> & Hs). cbv beta iota. conf Hc.
      run_loop (dinv warmv y) s2 w2 H2.
      + lia.
      + split; [reflexivity|]. exists g. split; [reflexivity | exact Hs].
      + clear g Hs. intros x s w Hx (-> & g & -> & Hs).
        diff_pixel t d @warmerDiff_ok warmv y x Hout Ht Ba Bb dinv_pixel.
      + destruct H2 as (-> & g2 & -> & Hs2). cbv beta iota.
        eexists; eexists; split; [reflexivity|]. split; [reflexivity|]. exists g2. split; [reflexivity|].
        apply swept_row; exact Hs2.
    - apply dinv_end in H1. destruct H1 as [-> ->]. reflexivity.
  Qed.

End Diff.

(* ====================================================================================
   CountPixels / CountPixelsTwoCompare / hasMotion
   ==================================================================================== *)
Lemma fold_ipre_step {A} (F : A -> nat * nat -> A) c y x a : (d_edge c <= x)%nat ->
  fold_left F (ipre c y (S x)) a = F (fold_left F (ipre c y x) a) (y, x).
Proof. intros H. rewrite ipre_step by exact H. rewrite fold_left_app. reflexivity. Qed.

Section Count.
  Variable c : dcfg.
  Variable d : motionDetector.
  Hypothesis Hc : dconf c d.
  Hypothesis Hd : cdims c.
  Variable w0 : dworld.

  Definition cstep (p : nat -> nat -> bool) (n : Z) (yx : nat * nat) : Z := if p (fst yx) (snd yx) then n + 1 else n.

  Definition cinv (p : nat -> nat -> bool) (y x : nat) (s : motionDetector * Z) (w : dworld) : Prop :=
    w = w0 /\ s = (d, fold_left (cstep p) (ipre c y x) 0).

  Ltac count_loops p :=
    conf Hc; destruct Hd as [Hd1 Hd2];
    let s1 := fresh "s" in let w1 := fresh "w" in let H1 := fresh "H" in
    run_loop (fun y => cinv p y (d_edge c)) s1 w1 H1;
    [ lia
    | split; [reflexivity|]; rewrite ipre_start0; reflexivity
    | let y := fresh "y" in let Hy := fresh "Hy" in
      intros y ? ? Hy (-> & ->); cbv beta iota; conf Hc;
      let s2 := fresh "s" in let w2 := fresh "w" in let H2 := fresh "H" in
      run_loop (cinv p y) s2 w2 H2;
      [ lia
      | split; reflexivity
      | let x := fresh "x" in let Hx := fresh "Hx" in
        intros x ? ? Hx (-> & ->); cbv beta iota; rewrite !c_get; cbv beta; rewrite ?c_debug; cbv beta;
        rewrite !Nat2Z.id; conf Hc;
        match goal with |- exists s' w', (if ?b then _ else _) _ = _ /\ _ =>
          exists (d, cstep p (fold_left (cstep p) (ipre c y x) 0) (y, x)), w0; split;
          [ let Eb := fresh "Eb" in
            let b0 := lazymatch b with negb ?b' => constr:(b') | _ => constr:(b) end in
            destruct b0 eqn:Eb; cbn [negb]; cbv beta delta [cstep]; cbn [fst snd];
            rewrite <- ?Z.gtb_ltb, ?Eb; reflexivity
          | split; [reflexivity | rewrite fold_ipre_step by lia; reflexivity] ]
        end
      | destruct H2 as (-> & ->); cbv beta iota; eexists; eexists; split; [reflexivity|];
        split; [reflexivity|]; rewrite <- ipre_row by lia; reflexivity ]
    | destruct H1 as (-> & ->); cbv beta iota; rewrite ipre_end; reflexivity ].

  Theorem CountPixels_ok f1 :
    motionDetector_CountPixels dext d f1 w0 =
    Ok (d, icount c (fun y x => d_delta c <? gget (pixof w0 f1) y x)) w0.
  Proof.
    unfold motionDetector_CountPixels, icount. fold (cstep (fun y x => d_delta c <? gget (pixof w0 f1) y x)).
    count_loops (fun y x => d_delta c <? gget (pixof w0 f1) y x).
  Qed.

  Theorem CountPixelsTwoCompare_ok f1 f2 :
    motionDetector_CountPixelsTwoCompare dext d f1 f2 w0 =
    Ok (d, icount c (fun y x => (d_delta c <? gget (pixof w0 f1) y x) && (d_delta c <? gget (pixof w0 f2) y x))) w0.
  Proof.
    unfold motionDetector_CountPixelsTwoCompare, icount.
    fold (cstep (fun y x => (d_delta c <? gget (pixof w0 f1) y x) && (d_delta c <? gget (pixof w0 f2) y x))).
    count_loops (fun y x => (d_delta c <? gget (pixof w0 f1) y x) && (d_delta c <? gget (pixof w0 f2) y x)).
  Qed.

  (* whichever count the code calls, in whichever branch of whichever test of useOneDiff *)
  Theorem hasMotion_ok f1 f2 :
    exists n, motionDetector_hasMotion dext d f1 f2 w0 = Ok (d, (has_motion c (pixof w0 f1) (pixof w0 f2), n)) w0.
  Proof.
    unfold motionDetector_hasMotion, has_motion. cbv zeta. conf Hc.
    destruct (d_one c); cbn [negb]; cbv iota; eexists;
      repeat match goal with
             | |- context [bind (motionDetector_CountPixels dext d ?g) ?k ?w] =>
               rewrite (bind_ok _ k w _ _ (CountPixels_ok g)); cbv beta iota zeta; conf Hc
             | |- context [bind (motionDetector_CountPixelsTwoCompare dext d ?g ?h) ?k ?w] =>
               rewrite (bind_ok _ k w _ _ (CountPixelsTwoCompare_ok g h)); cbv beta iota zeta; conf Hc
             end;
      rewrite ?Z.geb_leb; reflexivity.
  Qed.
End Count.
