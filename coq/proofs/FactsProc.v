(* Constants and wiring expressions read from the Go sources on every run (coq/Extracted.v) agree
   with what the models assume: if one changes in the code, the equality below stops compiling and
   every property that imports this file is reported. (motion processor: C01-C04, C12, C13, C17) *)
From Coq Require Import ZArith List String.
From TR Require Import Extracted model.Processor.
Import ListNotations.
Open Scope Z_scope.

(* `mp.snapshotFrames > 20`: the model's SNAP_LAST and its `>?` *)
Lemma snapshot_limit_agrees : SNAP_LAST = snapshot_frames_limit /\ snapshot_frames_op = ">"%string.
Proof. split; reflexivity. Qed.

(* ring capacity, min/max frames as NewMotionProcessor computes them (the harness derives
   p_size / p_min / p_max from the configuration with exactly these expressions) *)
Lemma processor_wiring_agrees :
  wiring_frameLoop = "NewFrameLoop(recorderConf.PreviewSecs*c.FPS()+motionConf.TriggerFrames, c)"%string /\
  wiring_minFrames = "recorderConf.MinSecs * c.FPS()"%string /\
  wiring_maxFrames = "recorderConf.MaxSecs * c.FPS()"%string /\
  wiring_motionDetector = "NewMotionDetector(*motionConf, recorderConf.PreviewSecs*c.FPS(), c)"%string.
Proof. repeat split; reflexivity. Qed.

Lemma log_interval_agrees : min_log_interval_ns = 60000000000.
Proof. reflexivity. Qed.
