(* Facts about the wiring that handleConn builds, read off the log that proofs/TieConn.v proves the
   translated handleConn produces ([tie_handleConn]: the log is prelude_log ++ loop_log ++ [Stop]).
   Used by the properties that depend on WHICH recorder the processor is given for what. *)
From Coq Require Import String List ZArith Bool Arith Lia.
From TR Require Import model.GoSem model.Socket model.ConnExt translated.ConnLoop proofs.TieConn.
Import ListNotations.
Open Scope Z_scope.

(* the processor is built exactly once, with
   - the parser chosen by frameParser,
   - as motion recorder: the file recorder whose Stop is deferred (REC_TOK), wrapped by the throttle
     (minimum length min-secs + preview-secs) exactly when the throttle is activated,
   - as continuous recorder: a file recorder of its own, set as constant recorder, exactly when configured
     (0 = the typed nil otherwise),
   - as test-recording recorder: a plain file recorder of its own - not the motion recorder, not the
     continuous recorder, never wrapped by a throttle, never set as constant recorder *)
Theorem wiring_facts : forall cfg parser,
  let l := prelude_log cfg parser in
  exists rec const snap tok,
    filter (fun e => match e with ENewProcessor _ _ _ _ _ => true | _ => false end) l =
      [ENewProcessor parser rec const snap tok] /\
    In (ENewRecorder snap) l /\ snap <> REC_TOK /\ snap <> rec /\ snap <> const /\
    ~ In (ESetConstant snap) l /\ (forall m t, ~ In (ENewThrottle snap m t) l) /\
    (if c_throttle cfg then In (ENewThrottle REC_TOK (c_minsecs cfg + c_preview cfg) rec) l else rec = REC_TOK) /\
    (if c_const cfg then In (ENewRecorder const) l /\ In (ESetConstant const) l /\ const <> REC_TOK /\ const <> rec
     else const = 0) /\
    hd_error l = Some (EAutoFFC true).
Proof.
  intros cfg parser. unfold prelude_log, REC_TOK.
  destruct (c_throttle cfg), (c_const cfg); cbn [filter];
    do 4 eexists; (split; [reflexivity|]);
    repeat split; cbn [In]; try lia; try tauto;
    try (intros; intro H; repeat (destruct H as [H|H]; [discriminate H || (inversion H; lia)|]); exact H);
    try (intro H; repeat (destruct H as [H|H]; [discriminate H || (inversion H; lia)|]); exact H).
Qed.

Print Assumptions wiring_facts.
