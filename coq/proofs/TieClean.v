(* Source tie for the start-up clean-up deleteTempFiles and the constant recorder's space reclaim
   deleteExcessRecordings (cmd/thermal-recorder/cptvfilerecorder.go).

   coq/translated/FileCleanup.v is regenerated from the Go source on every run; model/CleanExt.v
   gives the calls that leave it (string functions, path.Join, filepath.Glob, os.Remove, Statfs)
   their meaning on a directory tree whose recorder files are model/FileRec.v's file system and
   which holds any other files besides.  Theorems (for every rendering of time stamps, every tree
   in which no directory lists a name twice, every os.Remove fault script):
   (1) tie_deleteTempFiles: the translated function - three nested range loops with an early
       return - computes clean_model: per directory, per pattern, os.Remove of the sorted matches,
       leaving at the first error; clean_model_flat: that is one os.Remove per element of
       [temp_matches t], the matches of the tree it was started on, in one fixed order;
   (2) tie_clean_all: no remove fails - nil, and the recorder's files left are FileRec.v's
       [recover true true] of those found (every .cptv.temp / .cptv.temp.tmp of BOTH directories
       gone, every .cptv untouched, whatever else is there); of the other files exactly those
       with such a name are gone;  tie_clean_kth_fails: the (k+1)-th remove fails - its error is
       returned, exactly the first k matches are gone;
   (3) cleanup_after_kill: with FileRecProofs - after a kill at any point of any well-formed call
       sequence and the translated clean-up only complete recordings remain, none is lost;
   (4) tie_deleteExcessRecordings: for every fuel and every sequence of Statfs answers the
       translated function computes excess_model (it panics exactly on a file system of 0 blocks);
       excess_reclaims / tie_excess_reclaims: k rounds of short space remove the k
       lexicographically first *.cptv* names (glob_head_least), one per round;
       excess_unlinks_unfinished_first: a latent finding - an unfinished <T>.cptv.temp that sorts
       first is what gets unlinked.
   Examples at the end are evaluated. *)
From Coq Require Import List ZArith Bool String Lia Permutation.
From TR Require Import model.GoSem model.FileRec model.CleanExt translated.FileCleanup proofs.FileRecProofs.
Import ListNotations.
Open Scope Z_scope.

(* ====================================================================================== *)
(* 1. What the two functions are claimed to compute (pure functions on the tree)            *)
(* ====================================================================================== *)

(* the part of the world the functions change: tree, os.Remove fault script, log *)
Definition cst := (ctree * list bool * list cev)%type.
Definition st_of (w : cworld) : cst := (cw_tree w, cw_rmfail w, cw_log w).
Definition st_tree (s : cst) : ctree := fst (fst s).

(* a sequence of steps, left as soon as one returns an error *)
Fixpoint seq_exit {A S : Type} (f : A -> S -> option Z * S) (xs : list A) (s : S) : option Z * S :=
  match xs with
  | [] => (None, s)
  | x :: r => match f x s with
              | (Some e, s') => (Some e, s')
              | (None, s') => seq_exit f r s'
              end
  end.

(* one os.Remove(dir/n) *)
Definition rm_one (d : fdir) (n : fname) (s : cst) : option Z * cst :=
  let '(t, sc, lg) := s in
  if hd false sc || negb (tree_has t d n) then (Some ERR_REMOVE, (t, tl sc, lg ++ [CRm d n false]))
  else (None, (tree_remove t d n, tl sc, lg ++ [CRm d n true])).

Definition m_temp (s : string) : bool := ends_with s ".cptv.temp".
Definition m_temptmp (s : string) : bool := ends_with s ".cptv.temp.tmp".
Definition m_anycptv (s : string) : bool := contains s ".cptv".

(* deleteTempFiles: per directory, per pattern, the sorted matches of the tree AS IT IS THEN, one by one *)
Definition clean_pat (render : Z -> string) (d : fdir) (m : string -> bool) (s : cst) : option Z * cst :=
  seq_exit (rm_one d) (glob_pred render (st_tree s) d m) s.
Definition clean_dir (render : Z -> string) (d : fdir) (s : cst) : option Z * cst :=
  seq_exit (clean_pat render d) [m_temp; m_temptmp] s.
Definition clean_model (render : Z -> string) (s : cst) : option Z * cst :=
  seq_exit (clean_dir render) [DOut; DConst] s.

Definition err_code (e : option Z) : Z := match e with None => 0 | Some e => e end.

(* ====================================================================================== *)
(* 2. The string table                                                                      *)
(* ====================================================================================== *)
Definition ntok (w : cworld) : Z := Z.of_nat (List.length (cw_strs w)) + 1.
Definition walloc (w : cworld) (v : cval) : cworld := cwith_strs w (cw_strs w ++ [v]).

Lemma ntok_walloc : forall w v, ntok (walloc w v) = ntok w + 1.
Proof. intros; unfold ntok, walloc; cbn [cw_strs cwith_strs]. rewrite app_length; cbn [List.length]. lia. Qed.

Lemma cget_walloc : forall w v t, cget (walloc w v) t = if t =? ntok w then v else cget w t.
Proof.
  intros. unfold cget, walloc, ntok; cbn [cw_strs cwith_strs].
  destruct (Z.leb_spec t 0).
  - destruct (Z.eqb_spec t (Z.of_nat (List.length (cw_strs w)) + 1)); [lia|reflexivity].
  - destruct (Z.eqb_spec t (Z.of_nat (List.length (cw_strs w)) + 1)).
    + subst. replace (Z.to_nat (Z.of_nat (List.length (cw_strs w)) + 1 - 1)) with (List.length (cw_strs w)) by lia.
      rewrite app_nth2 by lia. rewrite Nat.sub_diag. reflexivity.
    + destruct (Z.ltb_spec t (Z.of_nat (List.length (cw_strs w)) + 1)).
      * rewrite app_nth1 by lia. reflexivity.
      * rewrite !nth_overflow; [reflexivity| lia |]. rewrite app_length; cbn [List.length]; lia.
Qed.

Lemma cget_valid : forall w t, cget w t <> VOther -> 0 < t < ntok w.
Proof.
  intros w t H. unfold cget, ntok in *. destruct (Z.leb_spec t 0); [congruence|].
  destruct (Z.ltb_spec t (Z.of_nat (List.length (cw_strs w)) + 1)); [lia|].
  exfalso; apply H. apply nth_overflow. lia.
Qed.

(* tokens stay what they are *)
Definition mono (w w' : cworld) : Prop := forall t, cget w t <> VOther -> cget w' t = cget w t.
Lemma mono_refl : forall w, mono w w.
Proof. intros w t _. reflexivity. Qed.
Lemma mono_trans : forall a b c, mono a b -> mono b c -> mono a c.
Proof. intros a b c H1 H2 t Ht. rewrite H2 by (rewrite H1; assumption). apply H1; assumption. Qed.
Lemma mono_walloc : forall w v, mono w (walloc w v).
Proof.
  intros w v t Ht. rewrite cget_walloc. apply cget_valid in Ht.
  destruct (Z.eqb_spec t (ntok w)); [lia | reflexivity].
Qed.
Lemma mono_get : forall w w' t v, mono w w' -> cget w t = v -> v <> VOther -> cget w' t = v.
Proof. intros w w' t v Hm Hg Hv. rewrite Hm; [exact Hg | rewrite Hg; exact Hv]. Qed.

(* world updates that leave the table alone *)
Lemma cget_pending : forall w p t, cget (cset_pending w p) t = cget w t. Proof. reflexivity. Qed.
Lemma cget_rm : forall w tr e t, cget (cset_rm w tr e) t = cget w t. Proof. reflexivity. Qed.
Lemma cget_statfs : forall w sf c t, cget (cset_statfs w sf c) t = cget w t. Proof. reflexivity. Qed.
Lemma ntok_pending : forall w p, ntok (cset_pending w p) = ntok w. Proof. reflexivity. Qed.
Lemma ntok_rm : forall w tr e, ntok (cset_rm w tr e) = ntok w. Proof. reflexivity. Qed.
Lemma ntok_statfs : forall w sf c, ntok (cset_statfs w sf c) = ntok w. Proof. reflexivity. Qed.

(* ====================================================================================== *)
(* 3. The calls that leave the translated code                                              *)
(* ====================================================================================== *)
Section Calls.
Variable render : Z -> string.

Lemma cext_lit : forall s w, cext render "str.lit" [AStr s] w = (ntok w, walloc w (VLit s)).
Proof. reflexivity. Qed.
Lemma cext_concat : forall a b x y w, cget w a = VLit x -> cget w b = VLit y ->
  cext render "str.concat" [AInt a; AInt b] w = (ntok w, walloc w (VLit (x ++ y))).
Proof. intros a b x y w Ha Hb. change (cext render "str.concat" [AInt a; AInt b] w) with
  (match cget w a, cget w b with VLit x, VLit y => calloc w (VLit (String.append x y)) | _, _ => calloc w VOther end).
  rewrite Ha, Hb. reflexivity. Qed.
Lemma cext_pjoin : forall a b w, cext render "path.Join" [AInt a; AInt b] w = (ntok w, walloc w (join_val w a b)).
Proof. reflexivity. Qed.
Lemma cext_fjoin : forall a b w, cext render "filepath.Join" [AInt a; AInt b] w = (ntok w, walloc w (join_val w a b)).
Proof. reflexivity. Qed.
Lemma cext_glob : forall p d pat ns w, cget w p = VPat d pat -> glob render (cw_tree w) d pat = Some ns ->
  cext render "filepath.Glob" [AInt p] w = (ntok w, cset_pending (walloc w (VList (map (VFile d) ns))) 0).
Proof. intros p d pat ns w Hp Hg. change (cext render "filepath.Glob" [AInt p] w) with
  (match cget w p with
   | VPat d pat => match glob render (cw_tree w) d pat with
                   | Some ns => let (tok, w1) := calloc w (VList (map (VFile d) ns)) in (tok, cset_pending w1 0)
                   | None => (0, cset_pending w 1)
                   end
   | _ => (0, cset_pending w 1)
   end).
  rewrite Hp, Hg. reflexivity. Qed.
Lemma cext_glob1 : forall w, cext render "filepath.Glob#1" [] w = (cw_pending w, w).
Proof. reflexivity. Qed.
Lemma cext_len : forall l vs w, cget w l = VList vs -> cext render "list.len" [AInt l] w = (Z.of_nat (List.length vs), w).
Proof. intros l vs w H. change (cext render "list.len" [AInt l] w) with
  (match cget w l with VList vs => (Z.of_nat (List.length vs), w) | _ => (0, w) end). rewrite H. reflexivity. Qed.
Lemma cext_at : forall l vs i w, cget w l = VList vs -> 0 <= i < Z.of_nat (List.length vs) ->
  cext render "list.at" [AInt l; AInt i] w = (ntok w, walloc w (nth (Z.to_nat i) vs VOther)).
Proof. intros l vs i w H Hi. change (cext render "list.at" [AInt l; AInt i] w) with
  (match cget w l with
   | VList vs => if (i <? 0) || (i >=? Z.of_nat (List.length vs)) then (0, w) else calloc w (nth (Z.to_nat i) vs VOther)
   | _ => (0, w)
   end).
  rewrite H. destruct (Z.ltb_spec i 0); [lia|]. destruct (Z.geb_spec i (Z.of_nat (List.length vs))); [lia|]. reflexivity. Qed.
Lemma cext_remove : forall a d n w, cget w a = VFile d n ->
  cext render "os.Remove" [AInt a] w =
    if hd false (cw_rmfail w) || negb (tree_has (cw_tree w) d n)
    then (ERR_REMOVE, cset_rm w (cw_tree w) (CRm d n false))
    else (0, cset_rm w (tree_remove (cw_tree w) d n) (CRm d n true)).
Proof. intros a d n w H. change (cext render "os.Remove" [AInt a] w) with
  (match cget w a with
   | VFile d n => if hd false (cw_rmfail w) || negb (tree_has (cw_tree w) d n)
                  then (ERR_REMOVE, cset_rm w (cw_tree w) (CRm d n false))
                  else (0, cset_rm w (tree_remove (cw_tree w) d n) (CRm d n true))
   | _ => (ERR_REMOVE, w)
   end). rewrite H. reflexivity. Qed.
Lemma cext_statfs : forall a w, cext render "syscall.Statfs" a w =
  match cw_statfs w with
  | [] => (ERR_STATFS, w)
  | (true, _) :: r => (ERR_STATFS, cset_statfs w r (cw_cur w))
  | (false, cur) :: r => (0, cset_statfs w r cur)
  end.
Proof. reflexivity. Qed.
Lemma cext_bavail : forall w, cext render "read:fs.Bavail" [] w = (fst (cw_cur w), w).
Proof. reflexivity. Qed.
Lemma cext_blocks : forall w, cext render "read:fs.Blocks" [] w = (snd (cw_cur w), w).
Proof. reflexivity. Qed.
Lemma cext_errnew : forall a w, cext render "errors.New" a w = (ERR_NOTHING_LEFT, w).
Proof. reflexivity. Qed.
Lemma cext_println : forall a w, cext render "log.Println" a w = (0, w).
Proof. reflexivity. Qed.

(* ====================================================================================== *)
(* 4. Running translated code: [runs m w Q] - m does not panic from w and ends in Q         *)
(* ====================================================================================== *)
Definition runs {A : Type} (m : M cworld A) (w : cworld) (Q : A -> cworld -> Prop) : Prop :=
  exists a w', m w = Ok a w' /\ Q a w'.

Lemma runs_ret : forall A (a : A) w (Q : A -> cworld -> Prop), Q a w -> runs (ret a) w Q.
Proof. intros. exists a, w. split; [reflexivity | assumption]. Qed.
Lemma runs_bind : forall A B (m : M cworld A) (k : A -> M cworld B) w Q,
  runs m w (fun a w1 => runs (k a) w1 Q) -> runs (bind m k) w Q.
Proof.
  intros A B m k w Q (a & w1 & Hm & (b & w2 & Hk & HQ)). exists b, w2. split; [|exact HQ].
  unfold bind. rewrite Hm. exact Hk.
Qed.
Lemma runs_call : forall A n a (k : Z -> M cworld A) w r w1 Q,
  cext render n a w = (r, w1) -> runs (k r) w1 Q -> runs (bind (call_ext (cext render) n a) k) w Q.
Proof.
  intros A n a k w r w1 Q H (b & w2 & Hk & HQ). exists b, w2. split; [|exact HQ].
  unfold bind, call_ext. rewrite H. exact Hk.
Qed.
Lemma runs_call_last : forall n a w r w1 (Q : Z -> cworld -> Prop),
  cext render n a w = (r, w1) -> Q r w1 -> runs (call_ext (cext render) n a) w Q.
Proof. intros n a w r w1 Q H HQ. exists r, w1. split; [|exact HQ]. unfold call_ext. rewrite H. reflexivity. Qed.
Lemma runs_some : forall A B (a : A) (k : A -> M cworld B) w Q,
  runs (k a) w Q -> runs (bind (lift_opt (Some a)) k) w Q.
Proof. intros A B a k w Q H. exact H. Qed.
Lemma runs_conseq : forall A (m : M cworld A) w (Q Q' : A -> cworld -> Prop),
  runs m w Q -> (forall a w', Q a w' -> Q' a w') -> runs m w Q'.
Proof. intros A m w Q Q' (a & w' & H & HQ) Himp. exists a, w'. split; [exact H | apply Himp, HQ]. Qed.

(* a counting loop without loop state whose k-th iteration performs step [f x_k] on the state,
   under a frame condition G that every iteration keeps *)
Definition loop_post (e : option Z) : loopres unit Z := match e with None => LCont tt | Some e => LRet e end.

Lemma runs_for_seq : forall (A : Type) (f : A -> cst -> option Z * cst) (G : cworld -> Prop)
    (body : Z -> unit -> M cworld (loopres unit Z)) (xs : list A) (i0 : Z),
  (forall k x w, nth_error xs k = Some x -> G w ->
     runs (body (i0 + Z.of_nat k) tt) w
          (fun r w' => G w' /\ st_of w' = snd (f x (st_of w)) /\ r = loop_post (fst (f x (st_of w))))) ->
  forall w, G w ->
    runs (for_loop (List.length xs) i0 body tt) w
         (fun r w' => G w' /\ st_of w' = snd (seq_exit f xs (st_of w)) /\ r = loop_post (fst (seq_exit f xs (st_of w)))).
Proof.
  intros A f G body xs. induction xs as [|x xs IH]; intros i0 Hbody w HG.
  - cbn. apply runs_ret. auto.
  - cbn [List.length for_loop seq_exit]. apply runs_bind.
    pose proof (Hbody 0%nat x w eq_refl HG) as H0. rewrite Z.add_0_r in H0.
    eapply runs_conseq; [exact H0|]. intros r w1 (HG1 & Hst & Hr). cbv beta.
    destruct (f x (st_of w)) as [[e|] s1] eqn:Ef; cbn [fst snd] in Hst, Hr; subst r; cbn [loop_post].
    + apply runs_ret. cbn [fst snd loop_post]. auto.
    + assert (Hb' : forall k y w', nth_error xs k = Some y -> G w' ->
                runs (body (i0 + 1 + Z.of_nat k) tt) w'
                     (fun r w'' => G w'' /\ st_of w'' = snd (f y (st_of w')) /\ r = loop_post (fst (f y (st_of w'))))).
      { intros k y w' Hk HG'. replace (i0 + 1 + Z.of_nat k) with (i0 + Z.of_nat (S k)) by lia. apply Hbody; assumption. }
      specialize (IH (i0 + 1) Hb' w1 HG1). rewrite Hst in IH. exact IH.
Qed.

End Calls.

Lemma for_range_list : forall (A : Type) (xs : list A) (l : list Z) (body : Z -> unit -> M cworld (loopres unit Z)),
  List.length l = List.length xs -> for_range 0 (go_len l) body tt = for_loop (List.length xs) 0 body tt.
Proof. intros A xs l body H. unfold for_range, go_len. rewrite H. f_equal. lia. Qed.

Lemma pat_pred_not_const : forall pat m, pat_pred pat = Some m -> String.eqb pat CONST_DIR_NAME = false.
Proof.
  unfold pat_pred. intros pat m H.
  destruct (String.eqb_spec pat PAT_TEMP); [subst; reflexivity|].
  destruct (String.eqb_spec pat PAT_TEMPTMP); [subst; reflexivity|].
  destruct (String.eqb_spec pat PAT_ANYCPTV); [subst; reflexivity|]. discriminate.
Qed.
Lemma join_pat : forall w dt pt d pat m, cget w dt = VDir d -> cget w pt = VLit pat -> pat_pred pat = Some m ->
  join_val w dt pt = VPat d pat.
Proof.
  intros w dt pt d pat m Hd Hp Hm. unfold join_val. rewrite Hd, Hp, (pat_pred_not_const _ _ Hm). destruct d; reflexivity.
Qed.
Lemma runs_call_pair : forall render A n a (k : Z -> M cworld A) w Q,
  runs (k (fst (cext render n a w))) (snd (cext render n a w)) Q -> runs (bind (call_ext (cext render) n a) k) w Q.
Proof. intros. destruct (cext render n a w) eqn:E. eapply runs_call; eauto. Qed.
Ltac tokcmp :=
  repeat match goal with
  | |- context [?a =? ?b] =>
    first [ replace (a =? b) with true by (symmetry; apply Z.eqb_eq; lia)
          | replace (a =? b) with false by (symmetry; apply Z.eqb_neq; lia) ]
  end.
Ltac cgn := repeat first [ rewrite cget_walloc | rewrite cget_pending | rewrite cget_rm | rewrite cget_statfs
                         | rewrite ntok_walloc | rewrite ntok_pending | rewrite ntok_rm | rewrite ntok_statfs ].
Ltac cg := cgn; tokcmp; try reflexivity.
Ltac rcall lem := eapply runs_call; [ lem | cbv beta ].
(* calls that only allocate a string or do nothing (a literal, a log line) *)
Ltac rquiet := first [ rcall ltac:(apply cext_lit) | rcall ltac:(apply cext_println) ].
(* [mono w w'] for a w' that is w after allocations and updates that leave the table alone *)
Ltac mono_tac := let t := fresh "t" in let Ht := fresh "Ht" in intros t Ht; apply cget_valid in Ht; cg; cg.

(* ====================================================================================== *)
(* 5. deleteTempFiles as translated computes clean_model                                    *)
(* ====================================================================================== *)
Theorem tie_deleteTempFiles : forall render root w0,
  cget w0 root = VDir DOut ->
  runs (FileCleanup_fn_deleteTempFiles (cext render) root) w0
       (fun r w' => st_of w' = snd (clean_model render (st_of w0)) /\ r = err_code (fst (clean_model render (st_of w0)))).
Proof.
  intros render root w0 Hroot.
  assert (Hv : 0 < root < ntok w0) by (apply cget_valid; rewrite Hroot; discriminate).
  unfold FileCleanup_fn_deleteTempFiles.
  rcall ltac:(apply cext_lit). rcall ltac:(apply cext_pjoin).
  set (w1 := walloc w0 (VLit "constant-recordings")).
  set (t2 := ntok w1).
  assert (Ht2 : t2 = ntok w0 + 1) by (unfold t2, w1; apply ntok_walloc).
  assert (Hj : join_val w1 root (ntok w0) = VDir DConst).
  { unfold join_val, w1. rewrite !cget_walloc. rewrite Z.eqb_refl.
    destruct (Z.eqb_spec root (ntok w0)); [lia|]. rewrite Hroot. reflexivity. }
  rewrite Hj. set (w2 := walloc w1 (VDir DConst)).
  assert (Hr2 : cget w2 root = VDir DOut).
  { unfold w2, w1. rewrite !cget_walloc, ntok_walloc.
    destruct (Z.eqb_spec root (ntok w0 + 1)); [lia|]. destruct (Z.eqb_spec root (ntok w0)); [lia|]. exact Hroot. }
  assert (Hc2 : cget w2 t2 = VDir DConst).
  { unfold w2. rewrite cget_walloc. fold t2. rewrite Z.eqb_refl. reflexivity. }
  assert (Hs2 : st_of w2 = st_of w0) by reflexivity.
  clearbody w2 t2. clear Hj w1 Ht2.
  apply runs_bind. rewrite (for_range_list fdir [DOut; DConst]) by reflexivity.
  eapply runs_conseq.
  - apply (runs_for_seq fdir (clean_dir render) (fun w => mono w2 w)); [|apply mono_refl].
    intros k d w Hk HG. cbv beta.
    assert (Hd : exists dt, go_index [root; t2] (0 + Z.of_nat k) = Some dt /\ cget w dt = VDir d).
    { destruct k as [|[|k]]; cbn in Hk.
      - injection Hk as <-. exists root. split; [reflexivity|]. eapply mono_get; eauto. discriminate.
      - injection Hk as <-. exists t2. split; [reflexivity|]. eapply mono_get; eauto. discriminate.
      - destruct k; discriminate. }
    destruct Hd as (dt & -> & Hdt). apply runs_some.
    assert (Hvd : 0 < dt < ntok w) by (apply cget_valid; rewrite Hdt; discriminate).
    repeat first [ rquiet | rcall ltac:(eapply cext_concat; cg) ].
    match goal with |- runs _ ?W _ => set (w3 := W) end.
    match goal with |- context [go_len [?a; ?b]] => set (p1 := a); set (p2 := b) end.
    assert (Hp1 : cget w3 p1 = VLit PAT_TEMP) by (unfold w3, p1; cg).
    assert (Hp2 : cget w3 p2 = VLit PAT_TEMPTMP) by (unfold w3, p2; cg).
    assert (Hd3 : cget w3 dt = VDir d) by (unfold w3; cg; exact Hdt).
    assert (Hm3 : mono w2 w3).
    { eapply mono_trans; [exact HG|]. unfold w3. mono_tac. }
    assert (Hs3 : st_of w3 = st_of w) by reflexivity.
    clearbody w3 p1 p2. rewrite <- Hs3. clear Hs3 Hdt Hvd HG w.
    apply runs_bind. rewrite (for_range_list _ [m_temp; m_temptmp]) by reflexivity.
    eapply runs_conseq.
    + apply (runs_for_seq _ (clean_pat render d) (fun w => mono w3 w)); [|apply mono_refl].
      intros j m w Hj HG. cbv beta.
      assert (Hp : exists pt pat, go_index [p1; p2] (0 + Z.of_nat j) = Some pt /\ cget w pt = VLit pat /\ pat_pred pat = Some m).
      { destruct j as [|[|j]]; cbn in Hj.
        - injection Hj as <-. exists p1, PAT_TEMP. split; [reflexivity|]. split; [|reflexivity]. eapply mono_get; eauto. discriminate.
        - injection Hj as <-. exists p2, PAT_TEMPTMP. split; [reflexivity|]. split; [|reflexivity]. eapply mono_get; eauto. discriminate.
        - destruct j; discriminate. }
      destruct Hp as (pt & pat & -> & Hpt & Hpat). apply runs_some.
      assert (Hdw : cget w dt = VDir d) by (eapply mono_get; eauto; discriminate).
      assert (Hvd : 0 < dt < ntok w) by (apply cget_valid; rewrite Hdw; discriminate).
      assert (Hvp : 0 < pt < ntok w) by (apply cget_valid; rewrite Hpt; discriminate).
      rcall ltac:(apply cext_fjoin).
      rewrite (join_pat _ _ _ _ _ _ Hdw Hpt Hpat).
      rcall ltac:(eapply cext_glob; [cg | unfold glob; rewrite Hpat; reflexivity]).
      rcall ltac:(apply cext_glob1).
      rcall ltac:(eapply cext_len; cg).
      change (cw_tree (walloc w (VPat d pat))) with (cw_tree w).
      set (ns := glob_pred render (cw_tree w) d m).
      match goal with |- runs _ ?W _ => set (w4 := W) end.
      set (l := ntok (walloc w (VPat d pat))).
      assert (Hl : cget w4 l = VList (map (VFile d) ns)) by (unfold w4, l; cg).
      assert (Hm4 : mono w3 w4).
      { eapply mono_trans; [exact HG|]. unfold w4. mono_tac. }
      assert (Hs4 : st_of w4 = st_of w) by reflexivity.
      unfold clean_pat. change (st_tree (st_of w)) with (cw_tree w). fold ns. rewrite <- Hs4.
      clearbody w4 l. clear Hs4 Hdw Hvd Hvp Hpt HG.
      apply runs_bind. unfold for_range. rewrite map_length, Z.sub_0_r, Nat2Z.id.
      eapply runs_conseq.
      * apply (runs_for_seq _ (rm_one d) (fun w => mono w4 w)); [|apply mono_refl].
        intros i n w' Hi HG'. cbv beta. rewrite Z.add_0_l.
        assert (Hlw : cget w' l = VList (map (VFile d) ns)) by (eapply mono_get; eauto; discriminate).
        assert (Hvl : 0 < l < ntok w') by (apply cget_valid; rewrite Hlw; discriminate).
        assert (Hil : (i < List.length ns)%nat) by (apply nth_error_Some; rewrite Hi; discriminate).
        rcall ltac:(eapply cext_at; [exact Hlw | rewrite map_length; lia]).
        rewrite Nat2Z.id. rewrite (nth_indep _ VOther (VFile d n)) by (rewrite map_length; exact Hil).
        rewrite map_nth. rewrite (nth_error_nth _ _ _ Hi).
        apply runs_call_pair. rewrite (cext_remove render _ d n) by cg.
        change (cw_rmfail (walloc w' (VFile d n))) with (cw_rmfail w').
        change (cw_tree (walloc w' (VFile d n))) with (cw_tree w').
        unfold rm_one, st_of at 2 3.
        assert (Hvw : 0 < ntok w') by (unfold ntok; lia).
        destruct (hd false (cw_rmfail w') || negb (tree_has (cw_tree w') d n)); cbn [fst snd negb Z.eqb ERR_REMOVE loop_post];
          repeat rquiet; apply runs_ret; (split; [|split; reflexivity]).
        all: eapply mono_trans; [exact HG'|]; mono_tac.
      * intros a w' (HG' & Hst & ->). 
        destruct (fst (seq_exit (rm_one d) ns (st_of w4))); cbn [loop_post]; apply runs_ret;
          (split; [eapply mono_trans; eauto | split; [exact Hst | reflexivity]]).
    + intros a w' (HG' & Hst & ->). fold (clean_dir render d (st_of w3)) in *.
      destruct (fst (clean_dir render d (st_of w3))); cbn [loop_post]; apply runs_ret;
        (split; [eapply mono_trans; eauto | split; [exact Hst | reflexivity]]).
  - rewrite Hs2. intros a w' (HG' & Hst & ->). fold (clean_model render (st_of w0)) in *.
    destruct (fst (clean_model render (st_of w0))); cbn [loop_post err_code]; apply runs_ret; split; auto.
Qed.

(* ====================================================================================== *)
(* 6. deleteExcessRecordings                                                                *)
(* ====================================================================================== *)
Inductive xres := XRet (err : Z) | XPanic | XFuel.
Inductive xstep := XDone (r : xres) | XNext.

(* one round of the loop: the Statfs answers left, the state *)
Definition excess_step (render : Z -> string) (d : fdir) (sf : list (bool * (Z * Z))) (s : cst)
  : xstep * cst * list (bool * (Z * Z)) :=
  match sf with
  | [] => (XDone (XRet ERR_STATFS), s, [])
  | (true, _) :: sf' => (XDone (XRet ERR_STATFS), s, sf')
  | (false, (bavail, blocks)) :: sf' =>
    if blocks =? 0 then (XDone XPanic, s, sf')                          (* integer division by zero *)
    else if Z.quot (bavail * 100) blocks >? 30 then (XDone (XRet 0), s, sf')
    else match glob_pred render (st_tree s) d m_anycptv with
         | [] => (XDone (XRet ERR_NOTHING_LEFT), s, sf')
         | n :: _ => match rm_one d n s with
                     | (Some e, s') => (XDone (XRet e), s', sf')
                     | (None, s') => (XNext, s', sf')
                     end
         end
  end.

Fixpoint excess_model (render : Z -> string) (fuel : nat) (d : fdir) (sf : list (bool * (Z * Z))) (s : cst) : xres * cst :=
  match fuel with
  | O => (XFuel, s)
  | S fuel' => match excess_step render d sf s with
               | (XDone r, s', _) => (r, s')
               | (XNext, s', sf') => excess_model render fuel' d sf' s'
               end
  end.

Definition ends {A : Type} (m : M cworld A) (w : cworld) (Q : outcome cworld A -> Prop) : Prop := Q (m w).
Lemma ends_call : forall render A n a (k : Z -> M cworld A) w r w1 Q,
  cext render n a w = (r, w1) -> ends (k r) w1 Q -> ends (bind (call_ext (cext render) n a) k) w Q.
Proof. intros render A n a k w r w1 Q H HQ. unfold ends, bind, call_ext in *. rewrite H. exact HQ. Qed.
Lemma ends_call_pair : forall render A n a (k : Z -> M cworld A) w Q,
  ends (k (fst (cext render n a w))) (snd (cext render n a w)) Q -> ends (bind (call_ext (cext render) n a) k) w Q.
Proof. intros. destruct (cext render n a w) eqn:E. eapply ends_call; eauto. Qed.
Lemma ends_some : forall A B (a : A) (k : A -> M cworld B) w Q, ends (k a) w Q -> ends (bind (lift_opt (Some a)) k) w Q.
Proof. intros. exact H. Qed.
Lemma ends_none : forall A B (k : A -> M cworld B) w (Q : outcome cworld B -> Prop), Q (Panicked w) -> ends (bind (lift_opt None) k) w Q.
Proof. intros. exact H. Qed.
Lemma ends_ret : forall A (a : A) w (Q : outcome cworld A -> Prop), Q (Ok a w) -> ends (ret a) w Q.
Proof. intros. exact H. Qed.
Lemma ends_bind_ret : forall A B (a : A) (k : A -> M cworld B) w Q, ends (k a) w Q -> ends (bind (ret a) k) w Q.
Proof. intros. exact H. Qed.

Lemma ends_intro : forall A (m : M cworld A) w (Q : outcome cworld A -> Prop), Q (m w) -> ends m w Q.
Proof. intros. exact H. Qed.
Lemma ends_elim : forall A (m : M cworld A) w (Q : outcome cworld A -> Prop), ends m w Q -> Q (m w).
Proof. intros. exact H. Qed.
#[local] Opaque ends.
Definition step_out (x : xstep) (w' : cworld) : outcome cworld (loopres unit Z) :=
  match x with
  | XDone (XRet e) => Ok (LRet e) w'
  | XDone XPanic => Panicked w'
  | XDone XFuel | XNext => Ok (LCont tt) w'
  end.

Ltac ecall lem := eapply ends_call; [ lem | cbv beta ].
(* calls that change nothing but the string table: a literal, a log line, len(l) and l[i] of a list that is known
   (the index check of l[i] is decided on the way) *)
Ltac ebounds :=
  match goal with
  | |- context [(?i <? 0) || (?i >=? ?n)] =>
    replace ((i <? 0) || (i >=? n)) with false
      by (symmetry; apply orb_false_iff; split; [apply Z.ltb_ge; lia | destruct (Z.geb_spec i n); [lia | reflexivity]])
  end.
Ltac equiet :=
  first [ ecall ltac:(apply cext_lit) | ecall ltac:(apply cext_println)
        | ecall ltac:(eapply cext_len; cg); rewrite ?map_length; cbn [List.length]; rewrite ?map_length
        | ebounds
        | ecall ltac:(eapply cext_at; [cg | rewrite ?map_length; cbn [List.length]; rewrite ?map_length; lia]) ].

Lemma loop1_spec : forall render d dt w, cget w dt = VDir d ->
  exists w',
    FileCleanup_fn_deleteExcessRecordings_loop1 (cext render) dt tt w =
      step_out (fst (fst (excess_step render d (cw_statfs w) (st_of w)))) w' /\
    st_of w' = snd (fst (excess_step render d (cw_statfs w) (st_of w))) /\
    cw_statfs w' = snd (excess_step render d (cw_statfs w) (st_of w)) /\
    mono w w'.
Proof.
  intros render d dt w Hdt.
  assert (Hvd : 0 < dt < ntok w) by (apply cget_valid; rewrite Hdt; discriminate).
  apply (ends_elim _ (FileCleanup_fn_deleteExcessRecordings_loop1 (cext render) dt tt) w
            (fun o => exists w', o = step_out (fst (fst (excess_step render d (cw_statfs w) (st_of w)))) w' /\
                      st_of w' = snd (fst (excess_step render d (cw_statfs w) (st_of w))) /\
                      cw_statfs w' = snd (excess_step render d (cw_statfs w) (st_of w)) /\ mono w w')).
  unfold FileCleanup_fn_deleteExcessRecordings_loop1, excess_step.
  destruct (cw_statfs w) as [|[[|] [ba bl]] sf'] eqn:Esf.
  - apply ends_call_pair. rewrite cext_statfs, Esf. cbn [fst snd ERR_STATFS Z.eqb negb].
    apply ends_ret. cbn [fst snd step_out]. eexists. split; [reflexivity|]. repeat split; auto using mono_refl.
  - apply ends_call_pair. rewrite cext_statfs, Esf. cbn [fst snd ERR_STATFS Z.eqb negb].
    apply ends_ret. cbn [fst snd step_out]. eexists. split; [reflexivity|]. repeat split.
  - apply ends_call_pair. rewrite cext_statfs, Esf. cbn [fst snd Z.eqb negb].
    set (w1 := cset_statfs w sf' (ba, bl)).
    assert (Hd1 : cget w1 dt = VDir d) by exact Hdt.
    ecall ltac:(apply cext_bavail). ecall ltac:(apply cext_blocks).
    change (fst (cw_cur w1)) with ba. change (snd (cw_cur w1)) with bl.
    unfold go_quot. destruct (bl =? 0) eqn:Ebl.
    + apply ends_none. exists w1. cbn [fst snd step_out]. repeat split.
    + apply ends_some. destruct (Z.quot (ba * 100) bl >? 30) eqn:Epc.
      * apply ends_ret. exists w1. cbn [fst snd step_out]. repeat split.
      * ecall ltac:(apply cext_lit). ecall ltac:(apply cext_pjoin).
        assert (Hvd1 : 0 < dt < ntok w1) by exact Hvd.
        rewrite (join_pat _ dt (ntok w1) d PAT_ANYCPTV m_anycptv) by (cg; try exact Hd1; reflexivity).
        ecall ltac:(eapply (cext_glob _ _ d PAT_ANYCPTV (glob_pred render (cw_tree (walloc (walloc w1 (VLit "*.cptv*")) (VPat d PAT_ANYCPTV))) d m_anycptv)); [cg | reflexivity]).
        ecall ltac:(apply cext_glob1). cbn [cw_pending cset_pending Z.eqb negb].
        ecall ltac:(eapply cext_len; cg). rewrite map_length.
        change (cw_tree (walloc (walloc w1 (VLit "*.cptv*")) (VPat d PAT_ANYCPTV))) with (cw_tree w).
        change (st_tree (st_of w)) with (cw_tree w).
        destruct (glob_pred render (cw_tree w) d m_anycptv) as [|n ns] eqn:Eg.
        -- cbn [List.length Z.of_nat Z.eqb]. ecall ltac:(apply cext_lit). ecall ltac:(apply cext_errnew).
           apply ends_ret. eexists. cbn [fst snd step_out]. split; [reflexivity|]. repeat split.
           intros t Ht; apply cget_valid in Ht; unfold w1; cg; cg.
        -- cbn [List.length]. replace (Z.of_nat (S (List.length ns)) =? 0) with false by (symmetry; apply Z.eqb_neq; lia).
           repeat equiet. cbn [Z.to_nat map nth].
           apply ends_call_pair. rewrite (cext_remove render _ d n) by cg.
           match goal with |- context [cw_rmfail ?W] => change (cw_rmfail W) with (cw_rmfail w) end.
           match goal with |- context [cw_tree ?W] => change (cw_tree W) with (cw_tree w) end.
           set (c := hd false (cw_rmfail w) || negb (tree_has (cw_tree w) d n)).
           assert (Hrm : rm_one d n (st_of w) =
                         if c then (Some ERR_REMOVE, (cw_tree w, tl (cw_rmfail w), cw_log w ++ [CRm d n false]))
                         else (None, (tree_remove (cw_tree w) d n, tl (cw_rmfail w), cw_log w ++ [CRm d n true]))) by reflexivity.
           rewrite Hrm. clear Hrm. destruct c; cbn [fst snd negb Z.eqb ERR_REMOVE]; repeat equiet;
             apply ends_ret; eexists; cbn [fst snd step_out]; (split; [reflexivity|]); repeat split;
             intros t Ht; apply cget_valid in Ht; unfold w1; cg; cg.
Qed.

Definition xout (r : xres) (w' : cworld) : outcome cworld (option Z) :=
  match r with XRet e => Ok (Some e) w' | XFuel => Ok None w' | XPanic => Panicked w' end.

Lemma excess_step_not_fuel : forall render d sf s, fst (fst (excess_step render d sf s)) <> XDone XFuel.
Proof.
  intros render d sf s. unfold excess_step.
  destruct sf as [|[[|] [ba bl]] sf']; cbn [fst]; try discriminate.
  destruct (bl =? 0); [discriminate|]. destruct (_ >? 30); [discriminate|].
  destruct (glob_pred _ _ _ _); [discriminate|]. destruct (rm_one _ _ _) as [[e|] s']; discriminate.
Qed.

Lemma forever_excess : forall render d dt fuel w, cget w dt = VDir d ->
  exists w',
    forever fuel (FileCleanup_fn_deleteExcessRecordings_loop1 (cext render) dt) tt w =
      xout (fst (excess_model render fuel d (cw_statfs w) (st_of w))) w' /\
    st_of w' = snd (excess_model render fuel d (cw_statfs w) (st_of w)) /\ mono w w'.
Proof.
  intros render d dt fuel. induction fuel as [|fuel IH]; intros w Hdt.
  - exists w. cbn. repeat split.
  - destruct (loop1_spec render d dt w Hdt) as (w1 & Hrun & Hst & Hsf & Hm).
    cbn [forever excess_model]. unfold bind at 1. rewrite Hrun.
    pose proof (excess_step_not_fuel render d (cw_statfs w) (st_of w)) as Hnf.
    destruct (excess_step render d (cw_statfs w) (st_of w)) as [[x s1] sf1]. cbn [fst snd] in *.
    destruct x as [[e| |]|]; cbn [step_out xout fst snd].
    + exists w1. repeat split; assumption.
    + exists w1. repeat split; assumption.
    + congruence.
    + assert (Hd1 : cget w1 dt = VDir d) by (eapply mono_get; eauto; discriminate).
      destruct (IH w1 Hd1) as (w2 & Hrun2 & Hst2 & Hm2). rewrite Hsf, Hst in *.
      exists w2. split; [exact Hrun2|]. split; [exact Hst2|]. eapply mono_trans; eauto.
Qed.

(* deleteExcessRecordings as translated computes excess_model: for every fuel, directory, tree,
   fault script and sequence of Statfs answers; it panics exactly when Statfs reports a file
   system of 0 blocks (integer division by zero in the Go code) *)
Theorem tie_deleteExcessRecordings : forall render fuel d dt w, cget w dt = VDir d ->
  exists w',
    FileCleanup_fn_deleteExcessRecordings (cext render) fuel dt w =
      xout (fst (excess_model render fuel d (cw_statfs w) (st_of w))) w' /\
    st_of w' = snd (excess_model render fuel d (cw_statfs w) (st_of w)) /\ mono w w'.
Proof.
  intros render fuel d dt w Hdt.
  destruct (forever_excess render d dt fuel w Hdt) as (w' & Hrun & Hst & Hm).
  exists w'. split; [|split; assumption].
  unfold FileCleanup_fn_deleteExcessRecordings, bind. rewrite Hrun.
  destruct (fst (excess_model render fuel d (cw_statfs w) (st_of w))); reflexivity.
Qed.

(* ====================================================================================== *)
(* 7. Texts and patterns                                                                    *)
(* ====================================================================================== *)
Lemma ends_with_app : forall r a, ends_with (r ++ a) a = true.
Proof.
  induction r as [|c r IH]; intros a.
  - cbn [String.append]. destruct a; cbn [ends_with]; rewrite String.eqb_refl; reflexivity.
  - cbn [String.append ends_with]. rewrite IH. apply orb_true_r.
Qed.
Lemma ends_with_true : forall s a, ends_with s a = true -> exists r, s = (r ++ a)%string.
Proof.
  induction s as [|c s IH]; intros a H; cbn [ends_with] in H.
  - rewrite orb_false_r in H. apply String.eqb_eq in H. subst. exists ""%string. reflexivity.
  - apply orb_true_iff in H. destruct H as [H|H].
    + apply String.eqb_eq in H. subst. exists ""%string. reflexivity.
    + destruct (IH a H) as [r ->]. exists (String c r). reflexivity.
Qed.
(* two suffixes neither of which is a suffix of the other exclude each other *)
Lemma ends_with_excl : forall a b, ends_with b a = false -> ends_with a b = false ->
  forall r, ends_with (r ++ a) b = false.
Proof.
  intros a b Hba Hab. induction r as [|c r IH].
  - exact Hab.
  - cbn [String.append ends_with]. rewrite IH, orb_false_r.
    destruct (String.eqb_spec (String c (r ++ a)) b) as [E|]; [|reflexivity].
    exfalso. change (String c (r ++ a)) with ((String c r) ++ a)%string in E.
    rewrite <- E, ends_with_app in Hba. discriminate.
Qed.
Lemma contains_app : forall r a p, contains a p = true -> contains (r ++ a) p = true.
Proof.
  induction r as [|c r IH]; intros a p H; [exact H|].
  cbn [String.append contains]. rewrite (IH a p H). apply orb_true_r.
Qed.

Lemma temp_not_temptmp : forall s, m_temp s = true -> m_temptmp s = false.
Proof. unfold m_temp, m_temptmp. intros s H. apply ends_with_true in H. destruct H as [r ->]. apply ends_with_excl; reflexivity. Qed.

Lemma text_rec_temp : forall render ts e, m_temp (text render (NRec ts e)) = match e with Temp => true | _ => false end.
Proof.
  intros render ts e. unfold m_temp, text. destruct e; cbn [ext_text].
  - apply ends_with_excl; reflexivity.
  - apply ends_with_app.
  - apply ends_with_excl; reflexivity.
Qed.
Lemma text_rec_temptmp : forall render ts e, m_temptmp (text render (NRec ts e)) = match e with TempTmp => true | _ => false end.
Proof.
  intros render ts e. unfold m_temptmp, text. destruct e; cbn [ext_text].
  - apply ends_with_excl; reflexivity.
  - apply ends_with_excl; reflexivity.
  - apply ends_with_app.
Qed.
Lemma text_rec_anycptv : forall render ts e, m_anycptv (text render (NRec ts e)) = true.
Proof. intros render ts e. unfold m_anycptv, text. apply contains_app. destruct e; reflexivity. Qed.

(* ====================================================================================== *)
(* 8. Directory listings, removal, sorting                                                  *)
(* ====================================================================================== *)
Lemma fname_eqb_refl : forall n, fname_eqb n n = true.
Proof. intros [ts e|s]; cbn; [rewrite Z.eqb_refl; destruct e; reflexivity | apply String.eqb_refl]. Qed.
Lemma fname_eqb_eq : forall a b, fname_eqb a b = true -> a = b.
Proof.
  intros [t1 e1|s1] [t2 e2|s2] H; cbn in H; try discriminate.
  - apply andb_true_iff in H. destruct H as [Ht He]. apply Z.eqb_eq in Ht. subst.
    destruct e1, e2; try discriminate; reflexivity.
  - apply String.eqb_eq in H. subst. reflexivity.
Qed.
Lemma fname_eqb_neq : forall a b, a <> b -> fname_eqb a b = false.
Proof. intros a b H. destruct (fname_eqb a b) eqn:E; [apply fname_eqb_eq in E; contradiction | reflexivity]. Qed.
Lemma dir_eqb_refl : forall d, dir_eqb d d = true. Proof. intros []; reflexivity. Qed.
Lemma dir_eqb_eq : forall a b, dir_eqb a b = true -> a = b. Proof. intros [] [] H; try discriminate; reflexivity. Qed.
Lemma dir_eqb_neq : forall a b, a <> b -> dir_eqb a b = false.
Proof. intros [] [] H; try reflexivity; contradiction. Qed.

Lemma filter_filter : forall (A : Type) (p q : A -> bool) l, filter p (filter q l) = filter (fun x => q x && p x) l.
Proof.
  intros A p q. induction l as [|x l IH]; [reflexivity|]. cbn [filter].
  destruct (q x); cbn [filter andb]; [destruct (p x)|]; rewrite IH; reflexivity.
Qed.
Lemma filter_map_comm : forall (A B : Type) (f : A -> B) (p : B -> bool) l, filter p (map f l) = map f (filter (fun x => p (f x)) l).
Proof.
  intros A B f p. induction l as [|x l IH]; [reflexivity|]. cbn [map filter].
  destruct (p (f x)); cbn [map]; rewrite IH; reflexivity.
Qed.

(* the listing after a removal *)
Lemma dir_names_remove : forall t d n d2,
  dir_names (tree_remove t d n) d2 =
    if dir_eqb d d2 then filter (fun x => negb (fname_eqb x n)) (dir_names t d2) else dir_names t d2.
Proof.
  intros t d n d2. unfold dir_names. destruct n as [ts e|s]; cbn [tree_remove tr_fs tr_other].
  - unfold fs_remove. rewrite filter_filter.
    destruct (dir_eqb d d2) eqn:Ed.
    + apply dir_eqb_eq in Ed. subst d2. rewrite filter_app, !filter_map_comm. f_equal.
      * f_equal. rewrite filter_filter. apply filter_ext. intros [[d' ts' e'] st]. cbn [fst n_dir n_ts n_ext fname_eqb].
        unfold name_eqb. cbn [n_dir n_ts n_ext]. destruct (dir_eqb d' d), (ts' =? ts), (ext_eqb e' e); reflexivity.
      * f_equal. rewrite filter_filter. apply filter_ext. intros [d' s']. cbn [fst snd fname_eqb]. rewrite andb_true_r. reflexivity.
    + f_equal. f_equal. apply filter_ext. intros [[d' ts' e'] st]. cbn [fst n_dir]. unfold name_eqb. cbn [n_dir n_ts n_ext].
      destruct d, d2, d'; try discriminate; cbn [dir_eqb andb negb]; rewrite ?andb_false_r, ?andb_true_r; reflexivity.
  - rewrite filter_filter. destruct (dir_eqb d d2) eqn:Ed.
    + apply dir_eqb_eq in Ed. subst d2. rewrite filter_app, !filter_map_comm. f_equal.
      * f_equal. rewrite filter_filter. apply filter_ext. intros [[d' ts' e'] st]. cbn [fst fname_eqb negb]. rewrite andb_true_r. reflexivity.
      * f_equal. rewrite filter_filter. apply filter_ext. intros [d' s']. cbn [fst snd fname_eqb].
        destruct (dir_eqb d' d), (String.eqb s' s); reflexivity.
    + f_equal. f_equal. apply filter_ext. intros [d' s']. cbn [fst snd].
      destruct d, d2, d'; try discriminate; cbn; try reflexivity; destruct (String.eqb s' s); reflexivity.
Qed.

Lemma insert_perm : forall key x l, Permutation (insert_by key x l) (x :: l).
Proof.
  intros key x. induction l as [|y l IH]; cbn [insert_by]; [apply Permutation_refl|].
  destruct (String.leb (key x) (key y)); [apply Permutation_refl|].
  eapply Permutation_trans; [apply perm_skip, IH | apply perm_swap].
Qed.
Lemma sort_perm : forall key l, Permutation (sort_by key l) l.
Proof.
  intros key. induction l as [|x l IH]; cbn [sort_by fold_right]; [apply Permutation_refl|].
  eapply Permutation_trans; [apply insert_perm | apply perm_skip, IH].
Qed.

Lemma glob_in : forall render t d m n,
  In n (glob_pred render t d m) <-> In n (dir_names t d) /\ m (text render n) = true.
Proof.
  intros render t d m n. unfold glob_pred. split.
  - intros H. apply (Permutation_in _ (sort_perm _ _)) in H. apply filter_In in H. exact H.
  - intros H. apply (Permutation_in _ (Permutation_sym (sort_perm _ _))). apply filter_In. exact H.
Qed.

Definition tree_wf (t : ctree) : Prop := forall d, NoDup (dir_names t d).

Lemma glob_nodup : forall render t d m, tree_wf t -> NoDup (glob_pred render t d m).
Proof.
  intros render t d m Hwf. unfold glob_pred.
  eapply Permutation_NoDup; [apply Permutation_sym, sort_perm|]. apply NoDup_filter, Hwf.
Qed.

Lemma tree_has_in : forall t d n, tree_has t d n = true <-> In n (dir_names t d).
Proof.
  intros t d n. unfold tree_has. rewrite existsb_exists. split.
  - intros (x & Hx & He). apply fname_eqb_eq in He. subst. exact Hx.
  - intros H. exists n. split; [exact H | apply fname_eqb_refl].
Qed.

Lemma tree_has_remove : forall t d n d2 n2, (d, n) <> (d2, n2) ->
  tree_has (tree_remove t d n) d2 n2 = tree_has t d2 n2.
Proof.
  intros t d n d2 n2 Hne. apply eq_true_iff_eq. rewrite !tree_has_in, dir_names_remove.
  destruct (dir_eqb d d2) eqn:Ed; [|reflexivity]. apply dir_eqb_eq in Ed. subst d2.
  rewrite filter_In. split; [tauto|]. intros H. split; [exact H|].
  apply negb_true_iff, fname_eqb_neq. congruence.
Qed.

(* the globs that are not yet due are not disturbed by a removal *)
Lemma glob_remove_other : forall render t d n d2 m2, (d <> d2 \/ m2 (text render n) = false) ->
  glob_pred render (tree_remove t d n) d2 m2 = glob_pred render t d2 m2.
Proof.
  intros render t d n d2 m2 H. unfold glob_pred. rewrite dir_names_remove.
  destruct (dir_eqb d d2) eqn:Ed; [|reflexivity]. apply dir_eqb_eq in Ed. subst d2.
  destruct H as [H|H]; [contradiction|]. f_equal. rewrite filter_filter. apply filter_ext_in.
  intros x _. destruct (fname_eqb x n) eqn:E; [|reflexivity]. apply fname_eqb_eq in E. subst x. rewrite H. reflexivity.
Qed.

Definition remove_list (t : ctree) (dns : list (fdir * fname)) : ctree :=
  fold_left (fun t dn => tree_remove t (fst dn) (snd dn)) dns t.
Definition rm1 (dn : fdir * fname) : cst -> option Z * cst := rm_one (fst dn) (snd dn).

Lemma glob_remove_list : forall render dns t d2 m2,
  (forall dn, In dn dns -> fst dn <> d2 \/ m2 (text render (snd dn)) = false) ->
  glob_pred render (remove_list t dns) d2 m2 = glob_pred render t d2 m2.
Proof.
  intros render. induction dns as [|[d n] dns IH]; intros t d2 m2 H; [reflexivity|].
  cbn [remove_list fold_left fst snd]. change (fold_left _ dns ?t0) with (remove_list t0 dns).
  rewrite IH by (intros dn Hdn; apply H; right; exact Hdn).
  apply glob_remove_other. apply (H (d, n)). left. reflexivity.
Qed.

Lemma seq_exit_app : forall (A S : Type) (f : A -> S -> option Z * S) xs ys s,
  seq_exit f (xs ++ ys) s = match seq_exit f xs s with (Some e, s') => (Some e, s') | (None, s') => seq_exit f ys s' end.
Proof.
  intros A S f. induction xs as [|x xs IH]; intros ys s; cbn [app seq_exit]; [reflexivity|].
  destruct (f x s) as [[e|] s']; [reflexivity | apply IH].
Qed.
Lemma seq_exit_map : forall d ns s, seq_exit (rm_one d) ns s = seq_exit rm1 (map (pair d) ns) s.
Proof.
  intros d. induction ns as [|n ns IH]; intros s; cbn [map seq_exit]; [reflexivity|].
  unfold rm1 at 1. cbn [fst snd]. destruct (rm_one d n s) as [[e|] s']; [reflexivity | apply IH].
Qed.
Lemma seq_none_tree : forall dns s s', seq_exit rm1 dns s = (None, s') -> st_tree s' = remove_list (st_tree s) dns.
Proof.
  induction dns as [|[d n] dns IH]; intros s s' H; cbn [seq_exit] in H.
  - injection H as <-. reflexivity.
  - destruct (rm1 (d, n) s) as [[e|] s1] eqn:E; [discriminate|].
    rewrite (IH _ _ H). cbn [remove_list fold_left fst snd]. f_equal.
    destruct s as [[t sc] lg]. unfold rm1, rm_one in E. cbn [fst snd] in E.
    destruct (hd false sc || negb (tree_has t d n)); [discriminate|]. injection E as <-. reflexivity.
Qed.

(* ====================================================================================== *)
(* 9. deleteTempFiles removes the matches of the tree it was started on, in one fixed order  *)
(* ====================================================================================== *)
Definition job := (fdir * (string -> bool))%type.
Definition job_matches (render : Z -> string) (t : ctree) (j : job) : list (fdir * fname) :=
  map (pair (fst j)) (glob_pred render t (fst j) (snd j)).
Definition temp_jobs : list job := [(DOut, m_temp); (DOut, m_temptmp); (DConst, m_temp); (DConst, m_temptmp)].

(* all matches: directory by directory, pattern by pattern, sorted by name *)
Definition temp_matches (render : Z -> string) (t : ctree) : list (fdir * fname) :=
  flat_map (job_matches render t) temp_jobs.

Definition job_run (render : Z -> string) (j : job) (s : cst) : option Z * cst := clean_pat render (fst j) (snd j) s.

Lemma clean_model_jobs : forall render s, clean_model render s = seq_exit (job_run render) temp_jobs s.
Proof.
  intros render s. unfold clean_model, clean_dir, temp_jobs, job_run. cbn [seq_exit fst snd].
  destruct (clean_pat render DOut m_temp s) as [[e|] s1]; [reflexivity|].
  destruct (clean_pat render DOut m_temptmp s1) as [[e|] s2]; [reflexivity|].
  destruct (clean_pat render DConst m_temp s2) as [[e|] s3]; [reflexivity|].
  destruct (clean_pat render DConst m_temptmp s3) as [[e|] s4]; reflexivity.
Qed.

(* no match of an earlier job is a match of a later one *)
Definition excl (render : Z -> string) (dn : fdir * fname) (j : job) : Prop :=
  fst dn <> fst j \/ snd j (text render (snd dn)) = false.
Fixpoint compat (render : Z -> string) (t : ctree) (js : list job) : Prop :=
  match js with
  | [] => True
  | j :: r => (forall j2 dn, In j2 r -> In dn (job_matches render t j) -> excl render dn j2) /\ compat render t r
  end.

Lemma jobs_flat : forall render t js pre s0 s',
  st_tree s0 = t -> seq_exit rm1 pre s0 = (None, s') ->
  (forall j dn, In j js -> In dn pre -> excl render dn j) -> compat render t js ->
  seq_exit (job_run render) js s' = seq_exit rm1 (flat_map (job_matches render t) js) s'.
Proof.
  intros render t. induction js as [|j js IH]; intros pre s0 s' Ht Hpre Hex Hc; [reflexivity|].
  cbn [seq_exit flat_map]. rewrite seq_exit_app.
  assert (Hj : job_run render j s' = seq_exit rm1 (job_matches render t j) s').
  { unfold job_run, clean_pat, job_matches. rewrite seq_exit_map. f_equal. f_equal.
    rewrite (seq_none_tree _ _ _ Hpre), Ht. apply glob_remove_list.
    intros dn Hdn. apply (Hex j dn); [left; reflexivity | exact Hdn]. }
  rewrite Hj. destruct (seq_exit rm1 (job_matches render t j) s') as [[e|] s''] eqn:E; [reflexivity|].
  destruct Hc as [Hc1 Hc2].
  apply (IH (pre ++ job_matches render t j) s0 s''); [exact Ht | | | exact Hc2].
  - rewrite seq_exit_app, Hpre. exact E.
  - intros j2 dn Hj2 Hdn. apply in_app_or in Hdn. destruct Hdn as [Hdn|Hdn].
    + apply Hex; [right; exact Hj2 | exact Hdn].
    + apply (Hc1 j2 dn Hj2 Hdn).
Qed.

Lemma job_matches_in : forall render t j dn,
  In dn (job_matches render t j) <-> fst dn = fst j /\ In (snd dn) (dir_names t (fst j)) /\ snd j (text render (snd dn)) = true.
Proof.
  intros render t [d m] [d' n]. unfold job_matches. cbn [fst snd]. rewrite in_map_iff. split.
  - intros (x & E & Hx). injection E as <- <-. apply glob_in in Hx. tauto.
  - intros (-> & H1 & H2). exists n. split; [reflexivity|]. apply glob_in. tauto.
Qed.

Lemma temp_jobs_compat : forall render t, compat render t temp_jobs.
Proof.
  intros render t. unfold temp_jobs. cbn [compat].
  repeat split; try exact I; intros j2 dn Hj2 Hdn; apply job_matches_in in Hdn; cbn [fst snd] in Hdn;
    destruct Hdn as (Hd & _ & Hm); unfold excl; cbn [In] in Hj2;
    repeat (destruct Hj2 as [<-|Hj2]; cbn [fst snd];
            [ first [ left; rewrite Hd; discriminate | right; apply temp_not_temptmp; exact Hm ] | ]);
    try contradiction.
Qed.

Theorem clean_model_flat : forall render t sc lg,
  clean_model render (t, sc, lg) = seq_exit rm1 (temp_matches render t) (t, sc, lg).
Proof.
  intros render t sc lg. rewrite clean_model_jobs. unfold temp_matches.
  apply (jobs_flat render t temp_jobs [] (t, sc, lg)); [reflexivity | reflexivity | | apply temp_jobs_compat].
  intros j dn _ [].
Qed.

(* ---------- the flat run, by the fault script ---------- *)
Definition rm_ok (dn : fdir * fname) : cev := CRm (fst dn) (snd dn) true.

Lemma hd_nth0 : forall (sc : list bool), hd false sc = nth 0 sc false.
Proof. intros [|b sc]; reflexivity. Qed.
Lemma nth_tl : forall (sc : list bool) i, nth i (tl sc) false = nth (S i) sc false.
Proof. intros [|b sc] i; [destruct i; reflexivity | reflexivity]. Qed.
Lemma skipn_tl : forall (A : Type) (l : list A) n, skipn n (tl l) = skipn (S n) l.
Proof. intros A [|x l] n; [destruct n; reflexivity | reflexivity]. Qed.

Lemma rm1_ok : forall d n t sc lg, nth 0 sc false = false -> tree_has t d n = true ->
  rm1 (d, n) (t, sc, lg) = (None, (tree_remove t d n, tl sc, lg ++ [CRm d n true])).
Proof. intros d n t sc lg H0 Hh. unfold rm1, rm_one. cbn [fst snd]. rewrite hd_nth0, H0, Hh. reflexivity. Qed.
Lemma rm1_fail : forall d n t sc lg, nth 0 sc false = true ->
  rm1 (d, n) (t, sc, lg) = (Some ERR_REMOVE, (t, tl sc, lg ++ [CRm d n false])).
Proof. intros d n t sc lg H0. unfold rm1, rm_one. cbn [fst snd]. rewrite hd_nth0, H0. reflexivity. Qed.

Lemma run_all_ok : forall ms t sc lg,
  NoDup ms -> (forall dn, In dn ms -> tree_has t (fst dn) (snd dn) = true) ->
  (forall i, (i < List.length ms)%nat -> nth i sc false = false) ->
  seq_exit rm1 ms (t, sc, lg) = (None, (remove_list t ms, skipn (List.length ms) sc, lg ++ map rm_ok ms)).
Proof.
  induction ms as [|[d n] ms IH]; intros t sc lg Hnd Hin Hsc.
  - cbn. rewrite app_nil_r. reflexivity.
  - cbn [seq_exit]. rewrite rm1_ok; [| apply Hsc; cbn; lia | apply (Hin (d, n)); left; reflexivity].
    inversion Hnd as [|x l Hnotin Hnd']; subst.
    rewrite IH; [| exact Hnd' | | ].
    + cbn [remove_list fold_left fst snd List.length map]. rewrite skipn_tl, <- app_assoc. reflexivity.
    + intros dn Hdn. rewrite tree_has_remove; [apply Hin; right; exact Hdn|].
      intros E. apply Hnotin. destruct dn. cbn [fst snd] in E. rewrite E. exact Hdn.
    + intros i Hi. rewrite nth_tl. apply Hsc. cbn. lia.
Qed.

Lemma run_kth_fails : forall ms t sc lg k d n,
  NoDup ms -> (forall dn, In dn ms -> tree_has t (fst dn) (snd dn) = true) ->
  nth_error ms k = Some (d, n) ->
  (forall i, (i < k)%nat -> nth i sc false = false) -> nth k sc false = true ->
  seq_exit rm1 ms (t, sc, lg) =
    (Some ERR_REMOVE, (remove_list t (firstn k ms), skipn (S k) sc, lg ++ map rm_ok (firstn k ms) ++ [CRm d n false])).
Proof.
  induction ms as [|[d0 n0] ms IH]; intros t sc lg k d n Hnd Hin Hk Hsc Hf.
  - destruct k; discriminate.
  - destruct k as [|k].
    + injection Hk as -> ->. cbn [seq_exit]. rewrite rm1_fail by exact Hf. reflexivity.
    + cbn [nth_error] in Hk. cbn [seq_exit].
      rewrite rm1_ok; [| apply Hsc; lia | apply (Hin (d0, n0)); left; reflexivity].
      inversion Hnd as [|x l Hnotin Hnd']; subst.
      rewrite (IH _ _ _ k d n Hnd'); [| | exact Hk | | ].
      * cbn [remove_list firstn fold_left fst snd map]. rewrite skipn_tl, <- app_assoc. reflexivity.
      * intros dn Hdn. rewrite tree_has_remove; [apply Hin; right; exact Hdn|].
        intros E. apply Hnotin. destruct dn. cbn [fst snd] in E. rewrite E. exact Hdn.
      * intros i Hi. rewrite nth_tl. apply Hsc. lia.
      * rewrite nth_tl. exact Hf.
Qed.

(* ---------- the matches are distinct and present ---------- *)
Lemma NoDup_app_disj : forall (A : Type) (l1 l2 : list A),
  NoDup l1 -> NoDup l2 -> (forall x, In x l1 -> ~ In x l2) -> NoDup (l1 ++ l2).
Proof.
  intros A. induction l1 as [|x l1 IH]; intros l2 H1 H2 Hd; [exact H2|].
  inversion H1 as [|y l Hn H1']; subst. cbn. constructor.
  - intros Hin. apply in_app_or in Hin. destruct Hin as [Hin|Hin]; [contradiction|]. apply (Hd x); [left; reflexivity | exact Hin].
  - apply IH; [exact H1' | exact H2 |]. intros z Hz. apply Hd. right. exact Hz.
Qed.

Lemma job_matches_nodup : forall render t j, tree_wf t -> NoDup (job_matches render t j).
Proof.
  intros render t [d m] Hwf. unfold job_matches. cbn [fst snd].
  apply FinFun.Injective_map_NoDup; [|apply glob_nodup, Hwf]. intros a b E. injection E as ->. reflexivity.
Qed.

Lemma flat_nodup : forall render t js, tree_wf t -> compat render t js -> NoDup (flat_map (job_matches render t) js).
Proof.
  intros render t js Hwf. induction js as [|j js IH]; intros Hc; [constructor|].
  destruct Hc as [Hc1 Hc2]. cbn [flat_map]. apply NoDup_app_disj; [apply job_matches_nodup, Hwf | apply IH, Hc2 |].
  intros dn H1 H2. apply in_flat_map in H2. destruct H2 as (j2 & Hj2 & H2).
  destruct (Hc1 j2 dn Hj2 H1) as [E|E]; apply job_matches_in in H2; destruct H2 as (Ha & _ & Hb); congruence.
Qed.

Lemma temp_matches_nodup : forall render t, tree_wf t -> NoDup (temp_matches render t).
Proof. intros render t Hwf. apply flat_nodup; [exact Hwf | apply temp_jobs_compat]. Qed.

Lemma temp_matches_present : forall render t dn, In dn (temp_matches render t) -> tree_has t (fst dn) (snd dn) = true.
Proof.
  intros render t dn H. unfold temp_matches in H. apply in_flat_map in H. destruct H as (j & _ & H).
  apply job_matches_in in H. destruct H as (E & Hin & _). apply tree_has_in. rewrite E. exact Hin.
Qed.

(* ---------- what removing all matches leaves ---------- *)
Definition hit_fs (dn : fdir * fname) (nm : name) : bool :=
  match snd dn with NRec ts e => name_eqb nm (mkName (fst dn) ts e) | NOther _ => false end.
Definition hit_other (dn : fdir * fname) (e : fdir * string) : bool :=
  match snd dn with NRec _ _ => false | NOther s => dir_eqb (fst e) (fst dn) && String.eqb (snd e) s end.

Lemma filter_true : forall (A : Type) (l : list A), filter (fun _ => true) l = l.
Proof. intros A. induction l as [|x l IH]; [reflexivity|]. cbn. rewrite IH. reflexivity. Qed.

Lemma tr_fs_remove_list : forall dns t,
  tr_fs (remove_list t dns) = filter (fun e => negb (existsb (fun dn => hit_fs dn (fst e)) dns)) (tr_fs t).
Proof.
  induction dns as [|[d n] dns IH]; intros t.
  - cbn. rewrite filter_true. reflexivity.
  - cbn [remove_list fold_left fst snd]. change (fold_left _ dns ?t0) with (remove_list t0 dns). rewrite IH.
    destruct n as [ts e|s]; cbn [tree_remove tr_fs].
    + unfold fs_remove. rewrite filter_filter. apply filter_ext. intros x. cbn [existsb]. unfold hit_fs at 2. cbn [fst snd].
      rewrite negb_orb. reflexivity.
    + apply filter_ext. intros x. cbn [existsb]. unfold hit_fs at 2. cbn [fst snd orb]. reflexivity.
Qed.

Lemma tr_other_remove_list : forall dns t,
  tr_other (remove_list t dns) = filter (fun e => negb (existsb (fun dn => hit_other dn e) dns)) (tr_other t).
Proof.
  induction dns as [|[d n] dns IH]; intros t.
  - cbn. rewrite filter_true. reflexivity.
  - cbn [remove_list fold_left fst snd]. change (fold_left _ dns ?t0) with (remove_list t0 dns). rewrite IH.
    destruct n as [ts e|s]; cbn [tree_remove tr_other].
    + apply filter_ext. intros x. cbn [existsb]. unfold hit_other at 2. cbn [fst snd orb]. reflexivity.
    + rewrite filter_filter. apply filter_ext. intros x. cbn [existsb]. unfold hit_other at 2. cbn [fst snd].
      rewrite negb_orb. reflexivity.
Qed.

Lemma in_dir_names_rec : forall t d ts e, In (NRec ts e) (dir_names t d) <-> exists st, In (mkName d ts e, st) (tr_fs t).
Proof.
  intros t d ts e. unfold dir_names. rewrite in_app_iff, !in_map_iff. split.
  - intros [((nm & st) & E & H)|(x & E & _)]; [|discriminate].
    apply filter_In in H. destruct H as [H Hd]. cbn [fst] in *. apply dir_eqb_eq in Hd.
    destruct nm as [d' ts' e']. cbn in *. injection E as <- <-. subst d'. exists st. exact H.
  - intros (st & H). left. exists (mkName d ts e, st). split; [reflexivity|]. apply filter_In. split; [exact H|].
    cbn. apply dir_eqb_refl.
Qed.
Lemma in_dir_names_other : forall t d s, In (NOther s) (dir_names t d) <-> In (d, s) (tr_other t).
Proof.
  intros t d s. unfold dir_names. rewrite in_app_iff, !in_map_iff. split.
  - intros [(x & E & _)|((d' & s') & E & H)]; [discriminate|].
    apply filter_In in H. destruct H as [H Hd]. cbn [fst snd] in *. apply dir_eqb_eq in Hd. injection E as <-. subst d'. exact H.
  - intros H. right. exists (d, s). split; [reflexivity|]. apply filter_In. split; [exact H|]. cbn. apply dir_eqb_refl.
Qed.

Lemma temp_matches_in : forall render t d n,
  In (d, n) (temp_matches render t) <->
  In n (dir_names t d) /\ (m_temp (text render n) = true \/ m_temptmp (text render n) = true).
Proof.
  intros render t d n. unfold temp_matches. rewrite in_flat_map. split.
  - intros (j & Hj & H). apply job_matches_in in H. cbn [fst snd] in H. destruct H as (-> & Hin & Hm).
    split; [exact Hin|]. unfold temp_jobs in Hj. cbn [In] in Hj.
    destruct Hj as [<-|[<-|[<-|[<-|[]]]]]; cbn [snd] in Hm; tauto.
  - intros (Hin & Hm). destruct Hm as [Hm|Hm].
    + exists (d, m_temp). split; [unfold temp_jobs; destruct d; cbn; tauto|]. apply job_matches_in. cbn [fst snd]. tauto.
    + exists (d, m_temptmp). split; [unfold temp_jobs; destruct d; cbn; tauto|]. apply job_matches_in. cbn [fst snd]. tauto.
Qed.

(* the recorder's files: exactly FileRec.v's recovery step, with the scratch-file pattern and the
   constant-recordings directory covered *)
Theorem remove_matches_is_recover : forall render t,
  tr_fs (remove_list t (temp_matches render t)) = recover true true (tr_fs t).
Proof.
  intros render t. rewrite tr_fs_remove_list. unfold recover. apply filter_ext_in.
  intros [[d ts e] st] Hin. cbn [fst n_dir n_ext]. f_equal.
  replace (match d with DOut => true | DConst => true end) with true by (destruct d; reflexivity). cbn [andb].
  apply eq_true_iff_eq. rewrite existsb_exists. split.
  - intros ((d' & n') & Hm & Hh). unfold hit_fs in Hh. cbn [fst snd] in Hh. destruct n' as [ts' e'|s']; [|discriminate].
    apply name_eqb_eq in Hh. injection Hh as <- <- <-. apply temp_matches_in in Hm. destruct Hm as (_ & Hm).
    rewrite text_rec_temp, text_rec_temptmp in Hm. destruct e; try reflexivity. destruct Hm; discriminate.
  - intros He. exists (d, NRec ts e). split.
    + apply temp_matches_in. split; [apply in_dir_names_rec; exists st; exact Hin|].
      rewrite text_rec_temp, text_rec_temptmp. destruct e; [discriminate | left | right]; reflexivity.
    + unfold hit_fs. cbn [fst snd]. apply name_eqb_refl.
Qed.

(* every other file: those named *.cptv.temp or *.cptv.temp.tmp are gone, the rest is untouched *)
Theorem remove_matches_other : forall render t,
  tr_other (remove_list t (temp_matches render t)) =
  filter (fun e => negb (m_temp (snd e) || m_temptmp (snd e))) (tr_other t).
Proof.
  intros render t. rewrite tr_other_remove_list. apply filter_ext_in.
  intros [d s] Hin. cbn [snd]. f_equal. apply eq_true_iff_eq. rewrite existsb_exists, orb_true_iff. split.
  - intros ((d' & n') & Hm & Hh). unfold hit_other in Hh. cbn [fst snd] in Hh. destruct n' as [ts' e'|s']; [discriminate|].
    apply andb_true_iff in Hh. destruct Hh as [Hd Hs]. apply String.eqb_eq in Hs. subst s'.
    apply temp_matches_in in Hm. destruct Hm as (_ & Hm). exact Hm.
  - intros Hm. exists (d, NOther s). split.
    + apply temp_matches_in. split; [apply in_dir_names_other; exact Hin | exact Hm].
    + unfold hit_other. cbn [fst snd]. rewrite dir_eqb_refl, String.eqb_refl. reflexivity.
Qed.

(* ====================================================================================== *)
(* 10. The theorems about the translated deleteTempFiles                                    *)
(* ====================================================================================== *)
Lemma src_clean_model : forall render t sc,
  exists w', src_clean render t sc = Ok (err_code (fst (clean_model render (t, sc, [])))) w' /\
             st_of w' = snd (clean_model render (t, sc, [])).
Proof.
  intros render t sc.
  destruct (tie_deleteTempFiles render ROOT_TOK (cworld_init t sc []) eq_refl) as (r & w' & Hrun & Hst & Hr).
  exists w'. unfold src_clean. rewrite Hrun, Hr. split; [reflexivity | exact Hst].
Qed.

(* no os.Remove fails: nil is returned; the recorder's files are FileRec.v's [recover true true] of
   what was there - every *.cptv.temp and *.cptv.temp.tmp of BOTH directories is gone, every
   .cptv is untouched, whatever else the directories hold and in whatever order; of the other files exactly
   those named *.cptv.temp / *.cptv.temp.tmp are gone; one os.Remove per match, in the order
   directory, pattern, name *)
Theorem tie_clean_all : forall render t sc,
  tree_wf t -> (forall i, (i < List.length (temp_matches render t))%nat -> nth i sc false = false) ->
  exists w',
    src_clean render t sc = Ok 0 w' /\
    tr_fs (cw_tree w') = recover true true (tr_fs t) /\
    tr_other (cw_tree w') = filter (fun e => negb (m_temp (snd e) || m_temptmp (snd e))) (tr_other t) /\
    cw_log w' = map rm_ok (temp_matches render t).
Proof.
  intros render t sc Hwf Hsc. destruct (src_clean_model render t sc) as (w' & Hrun & Hst).
  rewrite clean_model_flat in Hrun, Hst.
  rewrite (run_all_ok _ t sc [] (temp_matches_nodup render t Hwf) (temp_matches_present render t) Hsc) in Hrun, Hst.
  cbn [fst snd err_code] in Hrun, Hst. exists w'. split; [exact Hrun|].
  unfold st_of in Hst. injection Hst as Ht _ Hl. rewrite Ht, Hl.
  split; [apply remove_matches_is_recover | split; [apply remove_matches_other | reflexivity]].
Qed.

(* the (k+1)-th os.Remove fails (the first k do not): its error is returned; exactly the first k
   matches - in the order directory, pattern, sorted name - are gone, nothing else was touched or tried *)
Theorem tie_clean_kth_fails : forall render t sc k d n,
  tree_wf t -> nth_error (temp_matches render t) k = Some (d, n) ->
  (forall i, (i < k)%nat -> nth i sc false = false) -> nth k sc false = true ->
  exists w',
    src_clean render t sc = Ok ERR_REMOVE w' /\
    cw_tree w' = remove_list t (firstn k (temp_matches render t)) /\
    cw_log w' = map rm_ok (firstn k (temp_matches render t)) ++ [CRm d n false].
Proof.
  intros render t sc k d n Hwf Hk Hsc Hf. destruct (src_clean_model render t sc) as (w' & Hrun & Hst).
  rewrite clean_model_flat in Hrun, Hst.
  rewrite (run_kth_fails _ t sc [] k d n (temp_matches_nodup render t Hwf) (temp_matches_present render t) Hk Hsc Hf) in Hrun, Hst.
  cbn [fst snd err_code] in Hrun, Hst. exists w'. split; [exact Hrun|].
  unfold st_of in Hst. injection Hst as Ht _ Hl. split; assumption.
Qed.

(* what [remove_list] leaves, entry by entry: an entry stays (same state) unless it is one of the removed *)
Lemma remove_list_fs_in : forall t dns nm st,
  In (nm, st) (tr_fs (remove_list t dns)) <->
  In (nm, st) (tr_fs t) /\ ~ In (n_dir nm, NRec (n_ts nm) (n_ext nm)) dns.
Proof.
  intros t dns nm st. rewrite tr_fs_remove_list, filter_In. cbn [fst].
  assert (H : existsb (fun dn => hit_fs dn nm) dns = true <-> In (n_dir nm, NRec (n_ts nm) (n_ext nm)) dns).
  { rewrite existsb_exists. split.
    - intros ((d & n) & Hin & Hh). unfold hit_fs in Hh. cbn [fst snd] in Hh. destruct n as [ts e|s]; [|discriminate].
      apply name_eqb_eq in Hh. subst nm. exact Hin.
    - intros Hin. eexists. split; [exact Hin|]. unfold hit_fs. cbn [fst snd]. destruct nm. apply name_eqb_refl. }
  rewrite negb_true_iff. split; intros [H1 H2]; (split; [exact H1|]).
  - intros Hc. apply H in Hc. congruence.
  - destruct (existsb _ dns); [exfalso; apply H2, H; reflexivity | reflexivity].
Qed.
Lemma remove_list_other_in : forall t dns d s,
  In (d, s) (tr_other (remove_list t dns)) <-> In (d, s) (tr_other t) /\ ~ In (d, NOther s) dns.
Proof.
  intros t dns d s. rewrite tr_other_remove_list, filter_In.
  assert (H : existsb (fun dn => hit_other dn (d, s)) dns = true <-> In (d, NOther s) dns).
  { rewrite existsb_exists. split.
    - intros ((d' & n) & Hin & Hh). unfold hit_other in Hh. cbn [fst snd] in Hh. destruct n as [ts e|s']; [discriminate|].
      apply andb_true_iff in Hh. destruct Hh as [Hd Hs]. apply dir_eqb_eq in Hd. apply String.eqb_eq in Hs. subst. exact Hin.
    - intros Hin. eexists. split; [exact Hin|]. unfold hit_other. cbn [fst snd]. rewrite dir_eqb_refl, String.eqb_refl. reflexivity. }
  rewrite negb_true_iff. split; intros [H1 H2]; (split; [exact H1|]).
  - intros Hc. apply H in Hc. congruence.
  - destruct (existsb _ dns); [exfalso; apply H2, H; reflexivity | reflexivity].
Qed.

(* ====================================================================================== *)
(* 11. With FileRecProofs: after a kill at any point and the TRANSLATED clean-up              *)
(* ====================================================================================== *)
(* the step model keeps one entry per name *)
Definition fs_wf (d : fs) : Prop := NoDup (map fst d).

Lemma NoDup_map_filter : forall (A B : Type) (f : A -> B) (p : A -> bool) l, NoDup (map f l) -> NoDup (map f (filter p l)).
Proof.
  intros A B f p. induction l as [|x l IH]; intros H; [constructor|]. cbn [map] in H. inversion H as [|y m Hn H']; subst.
  cbn [filter]. destruct (p x); [|apply IH, H']. cbn [map]. constructor; [|apply IH, H'].
  intros Hin. apply Hn. apply in_map_iff in Hin. destruct Hin as (z & E & Hz). apply filter_In in Hz.
  apply in_map_iff. exists z. tauto.
Qed.
Lemma fs_remove_wf : forall d n, fs_wf d -> fs_wf (fs_remove d n).
Proof. intros d n H. unfold fs_wf, fs_remove. apply NoDup_map_filter, H. Qed.
Lemma fs_set_wf : forall d n s, fs_wf d -> fs_wf (fs_set d n s).
Proof.
  intros d n s H. unfold fs_set, fs_wf. cbn [map fst]. constructor; [|apply fs_remove_wf, H].
  intros Hin. apply in_map_iff in Hin. destruct Hin as ((m & s') & E & Hin). cbn [fst] in E. subst m.
  apply in_remove in Hin. destruct Hin as [_ Hne]. cbn [fst] in Hne. rewrite name_eqb_refl in Hne. discriminate.
Qed.
Lemma fop_apply_wf : forall d o, fs_wf d -> fs_wf (fop_apply d o).
Proof.
  intros d o H. destruct o as [n | n frames | a b | n]; cbn [fop_apply].
  - apply fs_set_wf, H.
  - destruct (fs_get d n); [apply fs_set_wf, H | exact H].
  - destruct (fs_get d a); [apply fs_set_wf, fs_remove_wf, H | exact H].
  - apply fs_remove_wf, H.
Qed.
Lemma fops_apply_wf : forall ops d, fs_wf d -> fs_wf (fops_apply d ops).
Proof.
  induction ops as [|o ops IH]; intros d H; [exact H|]. unfold fops_apply. cbn [fold_left].
  apply IH, fop_apply_wf, H.
Qed.

Lemma NoDup_map_on : forall (A B C : Type) (f : A -> B) (g : A -> C) l,
  (forall x y, In x l -> In y l -> g x = g y -> f x = f y) -> NoDup (map f l) -> NoDup (map g l).
Proof.
  intros A B C f g. induction l as [|x l IH]; intros Hinj Hn; [constructor|]. cbn [map] in *.
  inversion Hn as [|y m Hnot Hn']; subst. constructor.
  - intros Hin. apply Hnot. apply in_map_iff in Hin. destruct Hin as (z & E & Hz). apply in_map_iff. exists z.
    split; [|exact Hz]. apply Hinj; [right; exact Hz | left; reflexivity | exact E].
  - apply IH; [|exact Hn']. intros a b Ha Hb. apply Hinj; right; assumption.
Qed.

Lemma tree_wf_intro : forall f others, fs_wf f -> NoDup others -> tree_wf (mkTree f others).
Proof.
  intros f others Hf Ho d. unfold dir_names. cbn [tr_fs tr_other]. apply NoDup_app_disj.
  - apply (NoDup_map_on _ _ _ fst); [|apply NoDup_map_filter, Hf].
    intros x y Hx Hy E. apply filter_In in Hx. apply filter_In in Hy. destruct Hx as [_ Hx]. destruct Hy as [_ Hy].
    apply dir_eqb_eq in Hx. apply dir_eqb_eq in Hy. injection E as E1 E2.
    destruct (fst x) as [dx tx ex], (fst y) as [dy ty ey]. cbn in *. congruence.
  - apply (NoDup_map_on _ _ _ (fun e => e)); [|rewrite map_id; apply NoDup_filter, Ho].
    intros x y Hx Hy E. apply filter_In in Hx. apply filter_In in Hy. destruct Hx as [_ Hx]. destruct Hy as [_ Hy].
    apply dir_eqb_eq in Hx. apply dir_eqb_eq in Hy. injection E as E. destruct x, y. cbn in *. congruence.
  - intros x H1 H2. apply in_map_iff in H1. apply in_map_iff in H2. destruct H1 as (a & <- & _). destruct H2 as (b & E & _). discriminate.
Qed.

(* C10 about the source: take ANY well-formed sequence of recorder calls, kill the process after ANY prefix of
   its primitive steps, let the directories hold any other files, and run the translated deleteTempFiles
   (no os.Remove failing): it returns nil; what is left of the recorder's files is exactly [recover true true]
   of the crash state; every remaining recorder file is named .cptv and holds a complete recording; no
   finished recording is lost *)
Theorem cleanup_after_kill : forall render cs p others sc,
  wf_calls None (-1) cs = true -> (exists q, p ++ q = expand_all cs) -> NoDup others ->
  let t := mkTree (fops_apply [] p) others in
  (forall i, (i < List.length (temp_matches render t))%nat -> nth i sc false = false) ->
  exists w',
    src_clean render t sc = Ok 0 w' /\
    tr_fs (cw_tree w') = recover true true (fops_apply [] p) /\
    (forall n s, In (n, s) (tr_fs (cw_tree w')) -> n_ext n = Cptv /\ exists frames, s = Complete frames) /\
    (forall n s, In (n, s) (fops_apply [] p) -> n_ext n = Cptv -> In (n, s) (tr_fs (cw_tree w'))).
Proof.
  intros render cs p others sc Hwf Hp Ho t Hsc.
  assert (Ht : tree_wf t) by (apply tree_wf_intro; [apply fops_apply_wf; constructor | exact Ho]).
  destruct (tie_clean_all render t sc Ht Hsc) as (w' & Hrun & Hfs & _ & _).
  exists w'. split; [exact Hrun|]. split; [exact Hfs|]. rewrite Hfs. cbn [t tr_fs]. split.
  - intros n s Hin. pose proof (recovery_clean _ _ _ Hin) as He. split; [exact He|].
    unfold recover in Hin. apply filter_In in Hin. destruct Hin as [Hin _].
    exact (names_complete cs p Hwf Hp n s Hin He).
  - intros n s Hin He. apply recovery_keeps_recordings; assumption.
Qed.

From Coq Require Import Sorted Ascii NArith.

(* ====================================================================================== *)
(* 12. deleteExcessRecordings: which file goes                                              *)
(* ====================================================================================== *)
Lemma ascii_compare_refl : forall a, Ascii.compare a a = Eq.
Proof. intros a. unfold Ascii.compare. apply N.compare_refl. Qed.

Lemma str_leb_trans : forall a b c, String.leb a b = true -> String.leb b c = true -> String.leb a c = true.
Proof.
  unfold String.leb. induction a as [|x a IH]; intros b c H1 H2.
  - destruct c; reflexivity.
  - destruct b as [|y b]; [discriminate|]. destruct c as [|z c]; [discriminate|].
    cbn [String.compare] in *.
    destruct (Ascii.compare x y) eqn:Exy; [| |discriminate].
    + apply Ascii.compare_eq_iff in Exy. subst y.
      destruct (Ascii.compare x z) eqn:Exz; [|reflexivity|discriminate].
      apply (IH b c); assumption.
    + destruct (Ascii.compare y z) eqn:Eyz; [| |discriminate].
      * apply Ascii.compare_eq_iff in Eyz. subst z. rewrite Exy. reflexivity.
      * unfold Ascii.compare in *. rewrite N.compare_lt_iff in Exy, Eyz.
        replace (N_of_ascii x ?= N_of_ascii z)%N with Lt; [reflexivity|]. symmetry. apply N.compare_lt_iff. lia.
Qed.

Section Sorting.
Variable key : fname -> string.
Definition kle (a b : fname) : Prop := String.leb (key a) (key b) = true.

Lemma insert_sorted : forall x l, StronglySorted kle l -> StronglySorted kle (insert_by key x l).
Proof.
  intros x. induction l as [|y l IH]; intros Hs; cbn [insert_by].
  - constructor; constructor.
  - inversion Hs as [|y' l' Hs' Hall]; subst.
    destruct (String.leb (key x) (key y)) eqn:E.
    + constructor; [exact Hs|]. constructor; [exact E|].
      eapply Forall_impl; [|exact Hall]. intros z Hz. unfold kle in *. eapply str_leb_trans; eassumption.
    + constructor; [apply IH, Hs'|].
      assert (Hyx : kle y x).
      { unfold kle. destruct (String.leb_total (key x) (key y)) as [H|H]; [congruence | exact H]. }
      eapply Permutation_Forall; [apply Permutation_sym, insert_perm|]. constructor; assumption.
Qed.
Lemma sort_sorted : forall l, StronglySorted kle (sort_by key l).
Proof. induction l as [|x l IH]; cbn [sort_by fold_right]; [constructor | apply insert_sorted, IH]. Qed.

(* the first of the sorted list is least *)
Lemma sort_head_least : forall l n ns, sort_by key l = n :: ns -> forall n', In n' ns -> kle n n'.
Proof.
  intros l n ns E n' Hin. pose proof (sort_sorted l) as Hs. rewrite E in Hs.
  inversion Hs as [|y l' _ Hall]; subst. rewrite Forall_forall in Hall. apply Hall, Hin.
Qed.

Lemma insert_least : forall x l, Forall (kle x) l -> insert_by key x l = x :: l.
Proof. intros x [|y l] H; [reflexivity|]. cbn [insert_by]. inversion H; subst. unfold kle in *. rewrite H2. reflexivity. Qed.

Lemma filter_insert : forall p x l, StronglySorted kle l ->
  filter p (insert_by key x l) = if p x then insert_by key x (filter p l) else filter p l.
Proof.
  intros p x. induction l as [|y l IH]; intros Hs.
  - cbn. destruct (p x); reflexivity.
  - inversion Hs as [|y' l' Hs' Hall]; subst. cbn [insert_by].
    destruct (String.leb (key x) (key y)) eqn:E.
    + cbn [filter]. destruct (p x) eqn:Px; [|reflexivity].
      destruct (p y) eqn:Py.
      * cbn [insert_by]. rewrite E. reflexivity.
      * symmetry. apply insert_least. apply Forall_forall. intros z Hz. apply filter_In in Hz. destruct Hz as [Hz _].
        rewrite Forall_forall in Hall. unfold kle. eapply str_leb_trans; [exact E | apply Hall, Hz].
    + cbn [filter]. rewrite (IH Hs'). destruct (p y) eqn:Py.
      * destruct (p x); [|reflexivity]. cbn [insert_by]. rewrite E. reflexivity.
      * reflexivity.
Qed.
Lemma filter_sort : forall p l, filter p (sort_by key l) = sort_by key (filter p l).
Proof.
  intros p. induction l as [|x l IH]; [reflexivity|]. cbn [sort_by fold_right filter].
  change (fold_right (insert_by key) [] l) with (sort_by key l).
  rewrite filter_insert by apply sort_sorted. rewrite IH. destruct (p x); reflexivity.
Qed.
End Sorting.

Lemma filter_all : forall (A : Type) (p : A -> bool) l, (forall x, In x l -> p x = true) -> filter p l = l.
Proof.
  intros A p. induction l as [|x l IH]; intros H; [reflexivity|]. cbn [filter].
  rewrite (H x (or_introl eq_refl)), IH; [reflexivity|]. intros y Hy. apply H. right. exact Hy.
Qed.

(* the listing offered to the next round: the previous one without its first name *)
Lemma glob_remove_head : forall render t d m n ns, tree_wf t ->
  glob_pred render t d m = n :: ns -> glob_pred render (tree_remove t d n) d m = ns.
Proof.
  intros render t d m n ns Hwf E. pose proof (glob_nodup render t d m Hwf) as Hnd. rewrite E in Hnd.
  unfold glob_pred in *. rewrite dir_names_remove, dir_eqb_refl, filter_filter.
  replace (filter (fun x => negb (fname_eqb x n) && m (text render x)) (dir_names t d))
    with (filter (fun x => negb (fname_eqb x n)) (filter (fun x => m (text render x)) (dir_names t d)))
    by (rewrite filter_filter; apply filter_ext; intros x; apply andb_comm).
  rewrite <- filter_sort, E. cbn [filter]. rewrite fname_eqb_refl. cbn [negb].
  inversion Hnd as [|x l Hnot Hnd']; subst.
  apply filter_all. intros x Hx. apply negb_true_iff, fname_eqb_neq. intros ->. contradiction.
Qed.

Lemma tree_remove_wf : forall t d n, tree_wf t -> tree_wf (tree_remove t d n).
Proof. intros t d n H d2. rewrite dir_names_remove. destruct (dir_eqb d d2); [apply NoDup_filter|]; apply H. Qed.

Lemma glob_head_least : forall render t d m n ns, glob_pred render t d m = n :: ns ->
  forall n', In n' ns -> String.leb (text render n) (text render n') = true.
Proof. intros render t d m n ns E n' Hin. unfold glob_pred in E. exact (sort_head_least _ _ _ _ E n' Hin). Qed.

(* the three names of one recording sort .cptv < .cptv.temp < .cptv.temp.tmp, whatever the time stamp looks like *)
Lemma leb_app_l : forall r a b, String.leb (r ++ a) (r ++ b) = String.leb a b.
Proof.
  unfold String.leb. induction r as [|c r IH]; intros a b; [reflexivity|].
  cbn [String.append String.compare]. rewrite ascii_compare_refl. apply IH.
Qed.
Lemma rec_names_order : forall render ts,
  String.leb (text render (NRec ts Cptv)) (text render (NRec ts Temp)) = true /\
  String.leb (text render (NRec ts Temp)) (text render (NRec ts TempTmp)) = true.
Proof. intros render ts. unfold text. rewrite !leb_app_l. split; reflexivity. Qed.

(* a Statfs answer with at most / more than 30 % of the blocks available (the Go code computes
   bavail * 100 / blocks in integers: "more than 30 %" means at least 31 %) *)
Definition low_space (a : Z * Z) : Prop := snd a <> 0 /\ Z.quot (fst a * 100) (snd a) <= 30.
Definition enough_space (a : Z * Z) : Prop := snd a <> 0 /\ Z.quot (fst a * 100) (snd a) > 30.
Definition answer (a : Z * Z) : bool * (Z * Z) := (false, a).

(* Space is short for the first k Statfs readings and sufficient at the next; the directory holds at least k
   names matching *.cptv*; no os.Remove fails; fuel > k.  Then nil is returned after exactly k removals: the k
   lexicographically first *.cptv* names of the directory as it was, one per round, in that order. *)
Theorem excess_reclaims : forall render d low hi rest t sc lg fuel,
  tree_wf t ->
  (List.length low <= List.length (glob_pred render t d m_anycptv))%nat -> (List.length low < fuel)%nat ->
  Forall low_space low -> enough_space hi ->
  (forall i, (i < List.length low)%nat -> nth i sc false = false) ->
  let gone := map (pair d) (firstn (List.length low) (glob_pred render t d m_anycptv)) in
  excess_model render fuel d (map answer low ++ answer hi :: rest) (t, sc, lg) =
    (XRet 0, (remove_list t gone, skipn (List.length low) sc, lg ++ map rm_ok gone)).
Proof.
  intros render d. induction low as [|[ba bl] low IH]; intros hi rest t sc lg fuel Hwf Hlen Hfuel Hlow Hhi Hsc.
  - destruct fuel as [|fuel]; [cbn in Hfuel; lia|]. destruct hi as [ba bl]. destruct Hhi as [Hb Hq]. cbn [fst snd] in *.
    cbn [List.length firstn map app excess_model excess_step answer].
    replace (bl =? 0) with false by (symmetry; apply Z.eqb_neq; exact Hb).
    replace (ba * 100 ÷ bl >? 30) with true by (destruct (Z.gtb_spec (ba * 100 ÷ bl) 30); [reflexivity | lia]).
    cbn [remove_list fold_left skipn]. rewrite app_nil_r. reflexivity.
  - destruct fuel as [|fuel]; [cbn in Hfuel; lia|].
    inversion Hlow as [|a l [Hb Hq] Hlow']; subst. cbn [fst snd] in *.
    destruct (glob_pred render t d m_anycptv) as [|n ns] eqn:Eg; [cbn in Hlen; lia|].
    cbn [List.length firstn map app excess_model excess_step answer]. change (st_tree (t, sc, lg)) with t. rewrite Eg.
    replace (bl =? 0) with false by (symmetry; apply Z.eqb_neq; exact Hb).
    replace (ba * 100 ÷ bl >? 30) with false by (destruct (Z.gtb_spec (ba * 100 ÷ bl) 30); [lia | reflexivity]).
    assert (Hhas : tree_has t d n = true).
    { apply tree_has_in. assert (Hin : In n (glob_pred render t d m_anycptv)) by (rewrite Eg; left; reflexivity).
      apply glob_in in Hin. tauto. }
    change (rm_one d n (t, sc, lg)) with (rm1 (d, n) (t, sc, lg)).
    rewrite rm1_ok; [| apply Hsc; cbn; lia | exact Hhas].
    rewrite (IH hi rest (tree_remove t d n) (tl sc) (lg ++ [CRm d n true]) fuel).
    + rewrite (glob_remove_head render t d _ n ns Hwf Eg).
      cbn [remove_list fold_left fst snd map]. rewrite skipn_tl, <- app_assoc. reflexivity.
    + apply tree_remove_wf, Hwf.
    + rewrite (glob_remove_head render t d _ n ns Hwf Eg). cbn in Hlen. lia.
    + cbn in Hfuel. lia.
    + exact Hlow'.
    + exact Hhi.
    + intros i Hi. rewrite nth_tl. apply Hsc. cbn. lia.
Qed.

(* FINDING (latent).  The pattern *.cptv* does not tell finished recordings from the files of one that is still
   being written: when the first name of the directory is an unfinished <T>.cptv.temp (or its scratch file),
   that file is what deleteExcessRecordings unlinks.  Whatever is written to it afterwards is lost and the
   rename at StopRecording fails.  Not reachable today: only the constant recorder writes to
   constant-recordings, it calls deleteExcessRecordings BEFORE creating its own file, and what a crash leaves
   there is removed at start-up (deleteTempFiles covers that directory now). *)
Theorem excess_unlinks_unfinished_first : forall render d t ts ns ba bl sf sc lg,
  glob_pred render t d m_anycptv = NRec ts Temp :: ns ->
  bl <> 0 -> Z.quot (ba * 100) bl <= 30 -> nth 0 sc false = false ->
  excess_step render d ((false, (ba, bl)) :: sf) (t, sc, lg) =
    (XNext, (tree_remove t d (NRec ts Temp), tl sc, lg ++ [CRm d (NRec ts Temp) true]), sf).
Proof.
  intros render d t ts ns ba bl sf sc lg Eg Hb Hq Hsc. unfold excess_step. change (st_tree (t, sc, lg)) with t. rewrite Eg.
  replace (bl =? 0) with false by (symmetry; apply Z.eqb_neq; exact Hb).
  replace (ba * 100 ÷ bl >? 30) with false by (destruct (Z.gtb_spec (ba * 100 ÷ bl) 30); [lia | reflexivity]).
  assert (Hhas : tree_has t d (NRec ts Temp) = true).
  { apply tree_has_in. assert (Hin : In (NRec ts Temp) (glob_pred render t d m_anycptv)) by (rewrite Eg; left; reflexivity).
    apply glob_in in Hin. tauto. }
  change (rm_one d (NRec ts Temp) (t, sc, lg)) with (rm1 (d, NRec ts Temp) (t, sc, lg)).
  rewrite rm1_ok by assumption. reflexivity.
Qed.

(* a file system that reports 0 blocks makes the Go code divide by zero *)
Theorem excess_panics_on_zero_blocks : forall render d ba sf s,
  excess_step render d ((false, (ba, 0)) :: sf) s = (XDone XPanic, s, sf).
Proof. reflexivity. Qed.


(* the same about the translated function *)
Theorem tie_excess_reclaims : forall render d low hi rest t sc fuel,
  tree_wf t ->
  (List.length low <= List.length (glob_pred render t d m_anycptv))%nat -> (List.length low < fuel)%nat ->
  Forall low_space low -> enough_space hi ->
  (forall i, (i < List.length low)%nat -> nth i sc false = false) ->
  let gone := map (pair d) (firstn (List.length low) (glob_pred render t d m_anycptv)) in
  exists w',
    src_excess render fuel d t sc (map answer low ++ answer hi :: rest) = Ok (Some 0) w' /\
    cw_tree w' = remove_list t gone /\ cw_log w' = map rm_ok gone.
Proof.
  intros render d low hi rest t sc fuel Hwf Hlen Hfuel Hlow Hhi Hsc gone.
  assert (Hd : cget (cworld_init t sc (map answer low ++ answer hi :: rest)) (dir_tok d) = VDir d) by (destruct d; reflexivity).
  destruct (tie_deleteExcessRecordings render fuel d _ _ Hd) as (w' & Hrun & Hst & _).
  change (cw_statfs (cworld_init t sc (map answer low ++ answer hi :: rest))) with (map answer low ++ answer hi :: rest) in *.
  change (st_of (cworld_init t sc (map answer low ++ answer hi :: rest))) with (t, sc, @nil cev) in *.
  rewrite (excess_reclaims render d low hi rest t sc [] fuel Hwf Hlen Hfuel Hlow Hhi Hsc) in Hrun, Hst.
  cbn [fst snd xout] in *. exists w'. split; [exact Hrun|]. unfold st_of in Hst. injection Hst as Ht _ Hl. split; assumption.
Qed.

(* ====================================================================================== *)
(* 13. Examples (evaluated)                                                                 *)
(* ====================================================================================== *)
(* time stamps rendered as three digits *)
Definition digit (n : Z) : string := String (Ascii.ascii_of_nat (48 + Z.to_nat n)) EmptyString.
Definition render3 (ts : Z) : string := (digit (ts / 100 mod 10) ++ digit (ts / 10 mod 10) ++ digit (ts mod 10))%string.

(* an UNFINISHED recording (3) that is OLDER than a finished one (5), its scratch file, an unfinished constant
   recording (7), finished ones, and other files - two of them with names the patterns match *)
Definition ex_tree : ctree :=
  mkTree [(mkName DOut 5 Cptv, Complete [51; 52]); (mkName DOut 3 Temp, Partial); (mkName DOut 3 TempTmp, Partial);
          (mkName DConst 7 Temp, Partial); (mkName DConst 2 Cptv, Complete [21])]
         [(DOut, "notes.txt"%string); (DOut, "zz.cptv.temp"%string); (DConst, "old.cptv.bak"%string); (DConst, "a.cptv.temp.tmp"%string)].

Definition show_clean (o : outcome cworld Z) : option (Z * ctree * list cev) :=
  match o with Ok r w => Some (r, cw_tree w, cw_log w) | Panicked _ => None end.

Example ex_clean_all :
  show_clean (src_clean render3 ex_tree []) =
  Some (0,
        mkTree [(mkName DOut 5 Cptv, Complete [51; 52]); (mkName DConst 2 Cptv, Complete [21])]
               [(DOut, "notes.txt"%string); (DConst, "old.cptv.bak"%string)],
        [CRm DOut (NRec 3 Temp) true; CRm DOut (NOther "zz.cptv.temp") true; CRm DOut (NRec 3 TempTmp) true;
         CRm DConst (NRec 7 Temp) true; CRm DConst (NOther "a.cptv.temp.tmp") true])
  /\ tr_fs ex_tree <> recover true true (tr_fs ex_tree)
  /\ recover true true (tr_fs ex_tree) = [(mkName DOut 5 Cptv, Complete [51; 52]); (mkName DConst 2 Cptv, Complete [21])].
Proof. split; [vm_compute; reflexivity | split; [discriminate | reflexivity]]. Qed.

(* the third os.Remove fails: its error comes back, the first two matches are gone, everything else is still there *)
Example ex_clean_third_fails :
  show_clean (src_clean render3 ex_tree [false; false; true]) =
  Some (ERR_REMOVE,
        mkTree [(mkName DOut 5 Cptv, Complete [51; 52]); (mkName DOut 3 TempTmp, Partial);
                (mkName DConst 7 Temp, Partial); (mkName DConst 2 Cptv, Complete [21])]
               [(DOut, "notes.txt"%string); (DConst, "old.cptv.bak"%string); (DConst, "a.cptv.temp.tmp"%string)],
        [CRm DOut (NRec 3 Temp) true; CRm DOut (NOther "zz.cptv.temp") true; CRm DOut (NRec 3 TempTmp) false]).
Proof. vm_compute. reflexivity. Qed.

Definition show_excess (o : outcome cworld (option Z)) : option (option Z * ctree * list cev) :=
  match o with Ok r w => Some (r, cw_tree w, cw_log w) | Panicked _ => None end.

(* deleteExcessRecordings on the output directory of ex_tree, space short twice: the two first names are the
   unfinished recording 3 and its scratch file - they go, the finished recording 5 stays *)
Example ex_excess_takes_unfinished :
  show_excess (src_excess render3 5 DOut ex_tree [] [answer (10, 100); answer (30, 100); answer (31, 100)]) =
  Some (Some 0,
        mkTree [(mkName DOut 5 Cptv, Complete [51; 52]); (mkName DConst 7 Temp, Partial); (mkName DConst 2 Cptv, Complete [21])]
               [(DOut, "notes.txt"%string); (DOut, "zz.cptv.temp"%string); (DConst, "old.cptv.bak"%string); (DConst, "a.cptv.temp.tmp"%string)],
        [CRm DOut (NRec 3 Temp) true; CRm DOut (NRec 3 TempTmp) true]).
Proof. vm_compute. reflexivity. Qed.

(* out of fuel / nothing left to delete / a file system of 0 blocks *)
Example ex_excess_corner_cases :
  show_excess (src_excess render3 1 DConst ex_tree [] [answer (10, 100); answer (31, 100)]) =
    Some (None, tree_remove ex_tree DConst (NRec 2 Cptv), [CRm DConst (NRec 2 Cptv) true]) /\
  show_excess (src_excess render3 9 DConst (mkTree [] []) [] [answer (10, 100)]) = Some (Some ERR_NOTHING_LEFT, mkTree [] [], []) /\
  show_excess (src_excess render3 9 DConst ex_tree [] [answer (10, 0)]) = None.
Proof. vm_compute. repeat split. Qed.
