(* The IEEE-754 facts C15 rests on, for the SpecFloat operations the detector model uses
   (binary32 for weights, binary64 for the mean). *)
From Coq Require Import List ZArith Bool Arith Lia.
From Coq Require Import Floats.SpecFloat.
From TR Require Import model.Ring model.Detector model.DetSpec proofs.DetC15.
Import ListNotations.
Open Scope Z_scope.

(* a background weight: +0 or a positive finite binary32 number *)
Definition wt_ok (w : f32) : Prop :=
  match w with
  | S754_zero false => True
  | S754_finite false m e => SpecFloat.bounded 24 128 m e = true
  | _ => False
  end.

Theorem wt_ok_zero : wt_ok f32_zero.
Admitted.

Theorem wt_ok_step : forall w, wt_ok w -> wt_ok (f32_add w f32_tenth).
Admitted.

Theorem f32_sub_not_below : forall nw bg w,
    pix_ok nw -> pix_ok bg -> wt_ok w ->
    SFltb (f32_sub (f32_of_Z nw) w) (f32_of_Z bg) = false -> bg <= nw.
Admitted.

Theorem mean_threshold_bound : forall vs tmin tmax,
    vs <> [] -> (length vs <= 1048576)%nat -> Forall pix_ok vs -> pix_ok tmin -> pix_ok tmax ->
    let t := calc_thresh_gen tmin tmax (mean_fold vs) in
    let m := clampZ tmin tmax (zsum vs / Z.of_nat (length vs)) in
    Z.abs (t - m) <= 1 /\ (tmin = 0 \/ tmin <= t) /\ (tmax = 0 \/ t <= tmax).
Admitted.
