(* The IEEE-754 facts C15 rests on, for the SpecFloat operations the detector model uses
   (binary32 for weights, binary64 for the mean).  The SpecFloat terms of the model are moved
   to Flocq's binary_float through proofs/FloatBridge.v and from there to real numbers. *)
From Coq Require Import List ZArith Bool Arith Lia Reals Lra.
From Coq Require Import Floats.SpecFloat.
From Flocq Require Import Core IEEE754.BinarySingleNaN.
From TR Require Import model.Ring model.Detector model.DetSpec proofs.DetC15 proofs.FloatBridge.
Import ListNotations.
Open Scope Z_scope.

(* a background weight: +0 or a positive finite binary32 number *)
Definition wt_ok (w : f32) : Prop :=
  match w with
  | S754_zero false => True
  | S754_finite false m e => SpecFloat.bounded 24 128 m e = true
  | _ => False
  end.

(* ------------------------------------------------------------------ *)
(* binary32                                                             *)
(* ------------------------------------------------------------------ *)
#[local] Instance prec32 : Prec_gt_0 24 := eq_refl.
#[local] Instance pe32 : Prec_lt_emax 24 128 := eq_refl.
#[local] Instance prec64 : Prec_gt_0 53 := eq_refl.
#[local] Instance pe64 : Prec_lt_emax 53 1024 := eq_refl.

Local Notation b32 := (binary_float 24 128).
Local Notation b64 := (binary_float 53 1024).
Local Notation fexp32 := (SpecFloat.fexp 24 128).
Local Notation fexp64 := (SpecFloat.fexp 53 1024).
Local Notation rnd32 := (round radix2 fexp32 ZnearestE).
Local Notation rnd64 := (round radix2 fexp64 ZnearestE).

(* wt_ok in terms of Flocq floats: finite, sign bit clear *)
Lemma wt_ok_b32 w : wt_ok w <->
  exists b : b32, w = B2SF b /\ is_finite b = true /\ Bsign b = false.
Proof.
  split.
  - destruct w as [[|]|s| |[|] m e]; simpl; try contradiction; intros H.
    + now exists (B754_zero false).
    + now exists (B754_finite false m e H).
  - intros ([s|s| |s m e Hb] & -> & Hf & Hs); simpl in *; try discriminate; subst; auto.
Qed.

Lemma b32_nonneg (b : b32) : is_finite b = true -> Bsign b = false -> (0 <= B2R b)%R.
Proof.
  destruct b as [s|s| |s m e Hb]; simpl; try discriminate; intros _ Hs; [lra|].
  subst s. apply F2R_ge_0. simpl. lia.
Qed.

Theorem wt_ok_zero : wt_ok f32_zero.
Proof. exact I. Qed.

Definition tenth32 : b32 := @B754_finite 24 128 false 13421773 (-27) (eq_refl true).

Lemma tenth32_val : B2R tenth32 = (13421773 / 134217728)%R.
Proof. unfold tenth32, B2R, F2R; simpl. lra. Qed.

(* x + 0.1 never overflows: below 2^22 the sum is below 2^23, above 2^22 the sum rounds
   back to x because 0.1 is less than half an ulp *)
Lemma rnd32_add_tenth_big (x : R) :
  generic_format radix2 fexp32 x -> (bpow radix2 22 <= x)%R ->
  rnd32 (x + B2R tenth32) = x.
Proof.
  intros Fx Hx. rewrite tenth32_val.
  assert (H0 : (0 <= x)%R) by (pose proof (bpow_ge_0 radix2 22); lra).
  assert (Hu : (/ 2 <= ulp radix2 fexp32 x)%R).
  { apply Rle_trans with (ulp radix2 fexp32 (bpow radix2 22)).
    - rewrite ulp_bpow. simpl. lra.
    - apply ulp_le_pos; auto with typeclass_instances. apply bpow_ge_0. }
  rewrite round_N_eq_DN; auto with typeclass_instances.
  - apply round_DN_plus_eps_pos; auto with typeclass_instances. lra.
  - rewrite round_DN_plus_eps_pos, round_UP_plus_eps_pos; auto with typeclass_instances; lra.
Qed.

Lemma rnd32_add_tenth_no_overflow (b : b32) :
  is_finite b = true -> (0 <= B2R b)%R ->
  (Rabs (rnd32 (B2R b + B2R tenth32)) < bpow radix2 128)%R.
Proof.
  intros Hf H0.
  destruct (Rle_or_lt (bpow radix2 22) (B2R b)) as [Hbig|Hsmall].
  - rewrite rnd32_add_tenth_big; auto.
    + now apply abs_B2R_lt_emax.
    + apply generic_format_B2R.
  - assert (Hlo : (0 <= rnd32 (B2R b + B2R tenth32))%R).
    { apply Rle_trans with (rnd32 0); [rewrite (rnd_0 24 128); lra|].
      apply (rnd_le 24 128). rewrite tenth32_val. lra. }
    assert (Hhi : (rnd32 (B2R b + B2R tenth32) <= bpow radix2 23)%R).
    { rewrite <- (round_generic radix2 fexp32 ZnearestE (bpow radix2 23)).
      - apply (rnd_le 24 128). rewrite tenth32_val.
        change (bpow radix2 22) with 4194304%R in Hsmall.
        change (bpow radix2 23) with 8388608%R. lra.
      - apply generic_format_bpow. compute. discriminate. }
    rewrite Rabs_pos_eq by exact Hlo.
    apply Rle_lt_trans with (1 := Hhi). apply bpow_lt. lia.
Qed.

Theorem wt_ok_step : forall w, wt_ok w -> wt_ok (f32_add w f32_tenth).
Proof.
  intros w Hw. apply wt_ok_b32 in Hw. destruct Hw as (b & -> & Hf & Hs).
  pose proof (b32_nonneg b Hf Hs) as H0.
  change f32_tenth with (B2SF tenth32). unfold f32_add.
  destruct (SFadd_real 24 128 b tenth32 Hf eq_refl
              (rnd32_add_tenth_no_overflow b Hf H0)) as (z & -> & Fz & _ & Sz).
  apply wt_ok_b32. exists z. repeat split; auto.
  rewrite Sz. rewrite Rcompare_Gt; auto. rewrite tenth32_val. lra.
Qed.

(* 16-bit integers convert exactly *)
Lemma f32_of_Z_exact v : pix_ok v ->
  exists b : b32, f32_of_Z v = B2SF b /\ is_finite b = true /\ B2R b = IZR v.
Proof. intros Hv. apply (of_Z_exact 24 128). red in Hv. change (2 ^ 24) with 16777216. lia. Qed.

Theorem f32_sub_not_below : forall nw bg w,
    pix_ok nw -> pix_ok bg -> wt_ok w ->
    SFltb (f32_sub (f32_of_Z nw) w) (f32_of_Z bg) = false -> bg <= nw.
Proof.
  intros nw bg w Hnw Hbg Hw.
  apply wt_ok_b32 in Hw. destruct Hw as (b & -> & Hf & Hs).
  pose proof (b32_nonneg b Hf Hs) as H0.
  destruct (f32_of_Z_exact nw Hnw) as (x & -> & Fx & Rx).
  destruct (f32_of_Z_exact bg Hbg) as (y & -> & Fy & Ry).
  (* -w <= x (-) w <= x *)
  assert (Hhi : (rnd32 (B2R x - B2R b) <= B2R x)%R).
  { rewrite <- (rnd_B2R 24 128 x) at 2. apply (rnd_le 24 128). lra. }
  assert (Hlo : (- B2R b <= rnd32 (B2R x - B2R b))%R).
  { rewrite <- B2R_Bopp, <- (rnd_B2R 24 128 (Bopp b)). apply (rnd_le 24 128). rewrite B2R_Bopp.
    rewrite Rx. red in Hnw. assert (0 <= IZR nw)%R by (apply IZR_le; lia). lra. }
  assert (Hov : (Rabs (rnd32 (B2R x - B2R b)) < bpow radix2 128)%R).
  { pose proof (abs_B2R_lt_emax 24 128 x) as Hx. pose proof (abs_B2R_lt_emax 24 128 b) as Hb.
    apply Rabs_lt. apply Rabs_lt_inv in Hx. apply Rabs_lt_inv in Hb. lra. }
  unfold f32_sub.
  destruct (SFsub_real 24 128 x b Fx Hf Hov) as (d & -> & Fd & Rd).
  rewrite (SFltb_real 24 128 d y Fd Fy).
  destruct (Rlt_bool_spec (B2R d) (B2R y)) as [|Hle]; [discriminate|intros _].
  apply le_IZR. rewrite <- Rx, <- Ry. lra.
Qed.

(* ------------------------------------------------------------------ *)
(* binary64: the running mean                                           *)
(* ------------------------------------------------------------------ *)
Local Open Scope R_scope.

Lemma f64_of_Z_exact v : (0 <= v <= 1048576)%Z ->
  exists b : b64, f64_of_Z v = B2SF b /\ is_finite b = true /\ B2R b = IZR v.
Proof.
  intros Hv. apply (of_Z_exact 53 1024). change (2 ^ 53)%Z with 9007199254740992%Z. lia.
Qed.

(* one rounding of a number in [0, 2^17] costs at most 2^-36 *)
Definition eps64 : R := / 68719476736.

Lemma rnd64_err x : 0 <= x <= 131072 -> Rabs (rnd64 x - x) <= eps64.
Proof.
  intros Hx.
  apply Rle_trans with (1 := error_le_half_ulp radix2 fexp64 (fun n => negb (Z.even n)) x).
  assert (Hu : ulp radix2 fexp64 x <= / 34359738368).
  { apply Rle_trans with (ulp radix2 fexp64 (bpow radix2 17)).
    - apply ulp_le_pos; auto with typeclass_instances; [lra|].
      change (bpow radix2 17) with 131072. lra.
    - rewrite ulp_bpow. change (fexp64 (17 + 1)) with (-35)%Z.
      change (bpow radix2 (-35)) with (/ 34359738368). lra. }
  unfold eps64. lra.
Qed.

Lemma rnd64_range x lo hi :
  (Z.abs lo < 2 ^ 53)%Z -> (Z.abs hi < 2 ^ 53)%Z ->
  IZR lo <= x <= IZR hi -> IZR lo <= rnd64 x <= IZR hi.
Proof.
  intros Hlo Hhi Hx. split.
  - rewrite <- (rnd_IZR 53 1024 lo Hlo). apply (rnd_le 53 1024). lra.
  - rewrite <- (rnd_IZR 53 1024 hi Hhi). apply (rnd_le 53 1024). lra.
Qed.

Lemma small_lt_emax64 x : 0 <= x <= 131072 -> Rabs x < bpow radix2 1024.
Proof.
  intros Hx. rewrite Rabs_pos_eq by lra.
  apply Rle_lt_trans with (bpow radix2 17); [change (bpow radix2 17) with 131072; lra|].
  apply bpow_lt. lia.
Qed.

Section Mean.
  Variable N : Z.
  Hypothesis HN : (1 <= N <= 1048576)%Z.
  Variable nf : b64.
  Hypothesis Rnf : B2R nf = IZR N.

  Let step (a : f64) (v : Z) : f64 := f64_add a (f64_div (f64_of_Z v) (B2SF nf)).

  Lemma N_pos : 1 <= IZR N.
  Proof. apply IZR_le. lia. Qed.

  (* one step of the fold: two roundings *)
  Lemma mean_step (acc : b64) (v : Z) :
    is_finite acc = true -> 0 <= B2R acc <= 65537 -> pix_ok v ->
    exists r : b64, step (B2SF acc) v = B2SF r /\ is_finite r = true /\ 0 <= B2R r /\
      Rabs (B2R r - (B2R acc + IZR v / IZR N)) <= 2 * eps64.
  Proof.
    intros Facc Racc Hv. pose proof N_pos as HNp.
    assert (Hv' : 0 <= IZR v <= 65535) by (red in Hv; split; apply IZR_le; lia).
    assert (Hq : 0 <= IZR v / IZR N <= 65535).
    { split.
      - apply Rmult_le_pos; [lra|]. apply Rlt_le, Rinv_0_lt_compat. lra.
      - apply Rle_trans with (IZR v / 1); [|lra].
        apply Rmult_le_compat_l; [lra|]. apply Rinv_le; lra. }
    destruct (f64_of_Z_exact v) as (vf & Ev & Fv & Rv); [red in Hv; lia|].
    (* the quotient *)
    assert (Ht : 0 <= rnd64 (IZR v / IZR N) <= 65535).
    { apply (rnd64_range _ 0 65535); [now compute | now compute | exact Hq]. }
    destruct (SFdiv_real 53 1024 vf nf Fv) as (t & Et & Ft & Rt).
    { rewrite Rnf. lra. }
    { rewrite Rv, Rnf. apply small_lt_emax64. lra. }
    rewrite Rv, Rnf in Rt.
    (* the sum *)
    assert (Hs : 0 <= B2R acc + B2R t <= 131072) by (rewrite Rt; lra).
    assert (Hrs : 0 <= rnd64 (B2R acc + B2R t) <= 131072).
    { apply (rnd64_range _ 0 131072); [now compute | now compute | exact Hs]. }
    destruct (SFadd_real 53 1024 acc t Facc Ft) as (r & Er & Fr & Rr & _).
    { apply small_lt_emax64. exact Hrs. }
    exists r. split; [|split; [exact Fr|split]].
    - unfold step, f64_add, f64_div. rewrite Ev, Et. exact Er.
    - rewrite Rr. apply Hrs.
    - pose proof (rnd64_err (B2R acc + B2R t) Hs) as E1.
      pose proof (rnd64_err (IZR v / IZR N)) as E2.
      rewrite <- Rr in E1. rewrite <- Rt in E2.
      assert (E2' : Rabs (B2R t - IZR v / IZR N) <= eps64) by (apply E2; lra).
      replace (B2R r - (B2R acc + IZR v / IZR N))
        with ((B2R r - (B2R acc + B2R t)) + (B2R t - IZR v / IZR N)) by ring.
      apply Rle_trans with (1 := Rabs_triang _ _). lra.
  Qed.

  Lemma eps64_small : 2 * IZR N * eps64 <= / 32768.
  Proof.
    assert (IZR N <= 1048576) by (apply IZR_le; lia). pose proof N_pos. unfold eps64. lra.
  Qed.

  (* the fold: after k values with exact sum S the accumulator is within 2 k eps of S / N *)
  Lemma mean_fold_inv : forall (vs : list Z) (acc : b64) (k S : Z),
      is_finite acc = true -> 0 <= B2R acc ->
      (0 <= k)%Z -> (0 <= S <= 65535 * k)%Z -> (k + Z.of_nat (length vs) <= N)%Z ->
      Rabs (B2R acc - IZR S / IZR N) <= 2 * IZR k * eps64 ->
      Forall pix_ok vs ->
      exists r : b64, fold_left step vs (B2SF acc) = B2SF r /\ is_finite r = true /\ 0 <= B2R r /\
        Rabs (B2R r - IZR (fold_left Z.add vs S) / IZR N)
          <= 2 * IZR (k + Z.of_nat (length vs)) * eps64.
  Proof.
    induction vs as [|v vs IH]; intros acc k S Facc Racc Hk HS Hlen Herr Hvs.
    - exists acc. simpl. rewrite Z.add_0_r. auto.
    - inversion Hvs as [|? ? Hv Hvs']; subst.
      pose proof N_pos as HNp. pose proof eps64_small as Hes.
      assert (Heps : 0 < eps64) by (unfold eps64; lra).
      simpl length in Hlen. rewrite Nat2Z.inj_succ in Hlen.
      assert (HkN : IZR k <= IZR N) by (apply IZR_le; lia).
      assert (Hk0 : 0 <= IZR k) by (apply IZR_le; lia).
      assert (HSq : IZR S / IZR N <= 65535).
      { apply Rle_trans with (65535 * IZR N / IZR N); [|right; field; lra].
        apply Rmult_le_compat_r; [apply Rlt_le, Rinv_0_lt_compat; lra|].
        apply Rle_trans with (65535 * IZR k); [|apply Rmult_le_compat_l; lra].
        rewrite <- mult_IZR. apply IZR_le. lia. }
      assert (Hacc : 0 <= B2R acc <= 65537).
      { split; [exact Racc|]. apply Rabs_le_inv in Herr.
        assert (2 * IZR k * eps64 <= 2 * IZR N * eps64).
        { apply Rmult_le_compat_r; [lra|]. lra. }
        lra. }
      destruct (mean_step acc v Facc Hacc Hv) as (r1 & E1 & F1 & R1 & Err1).
      simpl fold_left. rewrite E1.
      destruct (IH r1 (k + 1)%Z (S + v)%Z F1 R1) as (r & Er & Fr & Rr & Err); auto.
      + lia.
      + red in Hv. lia.
      + lia.
      + rewrite !plus_IZR.
        replace (B2R r1 - (IZR S + IZR v) / IZR N)
          with ((B2R r1 - (B2R acc + IZR v / IZR N)) + (B2R acc - IZR S / IZR N))
          by (field; lra).
        apply Rle_trans with (1 := Rabs_triang _ _). simpl IZR. lra.
      + exists r. split; [exact Er|split; [exact Fr|split; [exact Rr|]]].
        simpl length. rewrite Nat2Z.inj_succ.
        replace (k + Z.succ (Z.of_nat (length vs)))%Z with (k + 1 + Z.of_nat (length vs))%Z by lia.
        exact Err.
  Qed.
End Mean.

(* truncation of a non-negative finite binary64 number is the floor of its value *)
Lemma f64_trunc_floor (r : b64) :
  is_finite r = true -> 0 <= B2R r -> f64_trunc (B2SF r) = Zfloor (B2R r).
Proof.
  destruct r as [s|s| |s m e Hb]; cbn [f64_trunc B2SF B2R is_finite]; try discriminate; intros _ Hr.
  - symmetry. apply (Zfloor_IZR 0).
  - destruct s.
    + exfalso. assert (F2R (Float radix2 (Zneg m) e) < 0) by (apply F2R_lt_0; simpl; lia).
      cbn [cond_Zopp Z.opp] in Hr. lra.
    + cbn [cond_Zopp]. unfold F2R. cbn [Fnum Fexp]. destruct e as [|p|p].
      * rewrite Z.shiftl_0_r. cbn [bpow]. rewrite Rmult_1_r. symmetry. apply Zfloor_IZR.
      * rewrite Z.shiftl_mul_pow2 by lia. rewrite <- IZR_Zpower by lia.
        rewrite <- mult_IZR, Zfloor_IZR. reflexivity.
      * rewrite Z.shiftr_div_pow2 by lia. symmetry.
        apply (Zfloor_div (Zpos m) (Z.pow_pos 2 p)).
        change (Z.pow_pos 2 p) with (2 ^ Zpos p)%Z. lia.
Qed.

Lemma Zfloor_Rmax x a : Zfloor (Rmax x (IZR a)) = Z.max (Zfloor x) a.
Proof.
  destruct (Rle_or_lt x (IZR a)) as [H|H].
  - rewrite Rmax_right by lra. rewrite Zfloor_IZR.
    apply Zfloor_le in H. rewrite Zfloor_IZR in H. lia.
  - rewrite Rmax_left by lra. assert (a <= Zfloor x)%Z by (apply Zfloor_lub; lra). lia.
Qed.

Lemma Zfloor_Rmin x a : Zfloor (Rmin x (IZR a)) = Z.min (Zfloor x) a.
Proof.
  destruct (Rle_or_lt x (IZR a)) as [H|H].
  - rewrite Rmin_left by lra. apply Zfloor_le in H. rewrite Zfloor_IZR in H. lia.
  - rewrite Rmin_right by lra. rewrite Zfloor_IZR.
    assert (a <= Zfloor x)%Z by (apply Zfloor_lub; lra). lia.
Qed.

Lemma f64_max_real (a b : b64) : is_finite a = true -> is_finite b = true ->
  exists r : b64, f64_max (B2SF a) (B2SF b) = B2SF r /\ is_finite r = true /\
                  B2R r = Rmax (B2R a) (B2R b).
Proof.
  intros Fa Fb. unfold f64_max. rewrite (SFltb_real 53 1024 a b Fa Fb).
  destruct (Rlt_bool_spec (B2R a) (B2R b)).
  - exists b. rewrite Rmax_right by lra. auto.
  - exists a. rewrite Rmax_left by lra. auto.
Qed.

Lemma f64_min_real (a b : b64) : is_finite a = true -> is_finite b = true ->
  exists r : b64, f64_min (B2SF a) (B2SF b) = B2SF r /\ is_finite r = true /\
                  B2R r = Rmin (B2R a) (B2R b).
Proof.
  intros Fa Fb. unfold f64_min. rewrite (SFltb_real 53 1024 b a Fb Fa).
  destruct (Rlt_bool_spec (B2R b) (B2R a)).
  - exists b. rewrite Rmin_right by lra. auto.
  - exists a. rewrite Rmin_left by lra. auto.
Qed.

(* calculateThreshold on a non-negative finite average is the integer clamp of its floor *)
Lemma calc_thresh_gen_floor (r : b64) tmin tmax :
  is_finite r = true -> 0 <= B2R r -> pix_ok tmin -> pix_ok tmax ->
  calc_thresh_gen tmin tmax (B2SF r) = clampZ tmin tmax (Zfloor (B2R r)).
Proof.
  intros Fr Rr Hmin Hmax. unfold calc_thresh_gen, clampZ. cbv zeta. unfold f64.
  destruct (f64_of_Z_exact tmin) as (lo & Elo & Flo & Rlo); [red in Hmin; lia|].
  destruct (f64_of_Z_exact tmax) as (hi & Ehi & Fhi & Rhi); [red in Hmax; lia|].
  assert (Hlo0 : 0 <= IZR tmin) by (apply IZR_le; red in Hmin; lia).
  assert (Hhi0 : 0 <= IZR tmax) by (apply IZR_le; red in Hmax; lia).
  rewrite Elo, Ehi.
  assert (H1 : exists r1 : b64,
             (if (tmin =? 0)%Z then B2SF r else f64_max (B2SF r) (B2SF lo)) = B2SF r1 /\
             is_finite r1 = true /\ 0 <= B2R r1 /\
             Zfloor (B2R r1) = (if (tmin =? 0)%Z then Zfloor (B2R r)
                                else Z.max (Zfloor (B2R r)) tmin)).
  { destruct (tmin =? 0)%Z.
    - exists r. auto.
    - destruct (f64_max_real r lo Fr Flo) as (r1 & E1 & F1 & R1).
      exists r1. rewrite R1, Rlo. repeat split; auto.
      + apply Rle_trans with (1 := Rr). apply Rmax_l.
      + apply Zfloor_Rmax. }
  destruct H1 as (r1 & -> & F1 & R1 & <-).
  destruct (tmax =? 0)%Z.
  - now apply f64_trunc_floor.
  - destruct (f64_min_real r1 hi F1 Fhi) as (r2 & -> & F2 & R2).
    rewrite f64_trunc_floor; auto.
    + rewrite R2, Rhi. apply Zfloor_Rmin.
    + rewrite R2, Rhi. apply Rmin_glb; lra.
Qed.

(* Without an ordering premise on the bounds the threshold need not respect the minimum
   (the upper bound is applied last and wins), so mean_threshold_bound as first stated --
   without the premise [tmax = 0 \/ tmin <= tmax] -- is false. *)
Example mean_threshold_needs_order :
  let t := calc_thresh_gen 200 150 (mean_fold [100%Z]) in ~ (200 = 0 \/ 200 <= t)%Z.
Proof. vm_compute. intros [H|H]; [discriminate|]. now apply H. Qed.

Theorem mean_threshold_bound : forall vs tmin tmax,
    vs <> [] -> (length vs <= 1048576)%nat -> Forall pix_ok vs -> pix_ok tmin -> pix_ok tmax ->
    (tmax = 0 \/ tmin <= tmax)%Z ->
    let t := calc_thresh_gen tmin tmax (mean_fold vs) in
    let m := clampZ tmin tmax (zsum vs / Z.of_nat (length vs)) in
    (Z.abs (t - m) <= 1 /\ (tmin = 0 \/ tmin <= t) /\ (tmax = 0 \/ t <= tmax))%Z.
Proof.
  intros vs tmin tmax Hne Hlen Hvs Hmin Hmax Hord.
  set (N := Z.of_nat (length vs)).
  assert (HN : (1 <= N <= 1048576)%Z).
  { assert (Hbig : Z.of_nat 1048576 = 1048576%Z) by (vm_compute; reflexivity).
    apply Nat2Z.inj_le in Hlen. rewrite Hbig in Hlen. subst N.
    destruct vs; [congruence|]. simpl length in *. lia. }
  destruct (f64_of_Z_exact N) as (nf & En & Fn & Rn); [lia|].
  assert (Herr0 : Rabs (B2R (B754_zero false : b64) - IZR 0 / IZR N) <= 2 * IZR 0 * eps64).
  { simpl B2R. replace (0 - 0 / IZR N) with 0 by (unfold Rdiv; ring). rewrite Rabs_R0. lra. }
  destruct (mean_fold_inv N HN nf Rn vs (B754_zero false) 0 0 eq_refl (Rle_refl 0))
    as (r & Er & Fr & Rr & Err); auto; try lia.
  assert (Em : mean_fold vs = B2SF r).
  { unfold mean_fold. fold N. rewrite En. exact Er. }
  fold (zsum vs) in Err. fold N in Err. rewrite Z.add_0_l in Err.
  assert (Hes : 2 * IZR N * eps64 <= / 32768).
  { assert (IZR N <= 1048576) by (apply IZR_le; lia).
    assert (0 < IZR N) by (apply IZR_lt; lia). unfold eps64. lra. }
  intros t m. subst t m. rewrite Em, calc_thresh_gen_floor by auto. fold N.
  (* the floor of the float mean is within 1 of the integer quotient *)
  set (x := B2R r) in *. set (y := IZR (zsum vs) / IZR N) in *.
  assert (Hq : Zfloor y = (zsum vs / N)%Z) by (apply Zfloor_div; lia).
  pose proof (Zfloor_lb y) as Hy1. pose proof (Zfloor_ub y) as Hy2.
  pose proof (Zfloor_lb x) as Hx1. pose proof (Zfloor_ub x) as Hx2.
  rewrite Hq in Hy1, Hy2. set (q := (zsum vs / N)%Z) in *. set (f := Zfloor x) in *.
  apply Rabs_le_inv in Err.
  assert (Hf1 : (f < q + 2)%Z) by (apply lt_IZR; rewrite plus_IZR; lra).
  assert (Hf2 : (q - 2 < f)%Z) by (apply lt_IZR; rewrite minus_IZR; lra).
  unfold clampZ. red in Hmin, Hmax.
  clearbody f q. clear -Hf1 Hf2 Hmin Hmax Hord.
  destruct (Z.eqb_spec tmin 0) as [E1|E1], (Z.eqb_spec tmax 0) as [E2|E2];
    repeat split; try (apply Z.abs_le); lia.
Qed.
