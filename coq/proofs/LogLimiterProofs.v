From Coq Require Import List ZArith Bool Arith Lia.
From TR Require Import model.LogLimiter.
Import ListNotations.
Open Scope Z_scope.

Lemma all_upto_spec n f : all_upto n f = true <-> forall k, (k < n)%nat -> f k = true.
Proof.
  induction n as [|n IH]; cbn [all_upto].
  - split; [intros _ k Hk; lia | reflexivity].
  - rewrite andb_true_iff, IH. split.
    + intros [H1 H2] k Hk. destruct (Nat.eq_dec k n) as [->|Hne]; [exact H1|apply H2; lia].
    + intros H. split; [apply H; lia | intros k Hk; apply H; lia].
Qed.

Lemma lrun_length interval s h : length (lrun interval s h) = length h.
Proof.
  revert s; induction h as [|mt h IH]; intros s; cbn [lrun]; [reflexivity|].
  destruct (lstep interval s mt) as [s' b]. cbn [length]. now rewrite IH.
Qed.

(* Generalised statement: running from state s, where s = (last printed message, its time). *)
Lemma lrun_must_print_gen interval h : forall s n m t,
    nth_error h n = Some (m, t) ->
    let bits := lrun interval s h in
    let lp := last_printed (prev_entry s, prev_time s) (firstn n h) (firstn n bits) in
    nth n bits true = negb ((m =? fst lp) && (sat_sub t (snd lp) <? interval)).
Proof.
  induction h as [|[m0 t0] h IH]; intros s n m t Hn; [destruct n; discriminate|].
  cbn [lrun]. destruct (lstep interval s (m0, t0)) as [s' b] eqn:Hstep.
  destruct n as [|n].
  - cbn in Hn. injection Hn as -> ->. cbn [firstn last_printed nth fst snd].
    unfold lstep in Hstep.
    destruct ((sat_sub t (prev_time s) <? interval) && (m =? prev_entry s)) eqn:E;
      injection Hstep as <- <-; rewrite andb_comm in E; rewrite E; reflexivity.
  - cbn [nth_error] in Hn. cbn [firstn last_printed nth].
    specialize (IH s' n m t Hn). cbn zeta in IH. rewrite IH.
    unfold lstep in Hstep.
    destruct ((sat_sub t0 (prev_time s) <? interval) && (m0 =? prev_entry s)) eqn:E;
      injection Hstep as <- <-; destruct s; reflexivity.
Qed.

Theorem lrun_must_print interval h n :
  (n < length h)%nat ->
  nth n (lrun interval linit h) true = must_print interval h (lrun interval linit h) n.
Proof.
  intros Hn. unfold must_print.
  destruct (nth_error h n) as [[m t]|] eqn:E.
  - exact (lrun_must_print_gen interval h linit n m t E).
  - apply nth_error_None in E. lia.
Qed.

Theorem lrun_spec interval h : spec_log interval h (lrun interval linit h) = true.
Proof.
  unfold spec_log. rewrite lrun_length, Nat.eqb_refl. cbn [andb].
  apply all_upto_spec. intros k Hk. rewrite lrun_must_print by exact Hk.
  apply eqb_reflx.
Qed.

(* a message different from the last printed one is never dropped *)
Theorem distinct_never_dropped interval h n m t :
  nth_error h n = Some (m, t) ->
  let bits := lrun interval linit h in
  m <> fst (last_printed (0, 0) (firstn n h) (firstn n bits)) ->
  nth n bits true = true.
Proof.
  intros Hn bits Hne.
  pose proof (lrun_must_print_gen interval h linit n m t Hn) as H. cbn zeta in H.
  fold bits in H. cbn [linit prev_entry prev_time] in H. rewrite H.
  apply Z.eqb_neq in Hne. rewrite Hne. reflexivity.
Qed.

(* a repeat arriving at or after the interval is printed again *)
Theorem repeat_after_interval_printed interval h n m t :
  nth_error h n = Some (m, t) ->
  let bits := lrun interval linit h in
  interval <= sat_sub t (snd (last_printed (0, 0) (firstn n h) (firstn n bits))) ->
  nth n bits true = true.
Proof.
  intros Hn bits Hge.
  pose proof (lrun_must_print_gen interval h linit n m t Hn) as H. cbn zeta in H.
  fold bits in H. cbn [linit prev_entry prev_time] in H. rewrite H.
  apply Z.ltb_ge in Hge. rewrite Hge, andb_false_r. reflexivity.
Qed.

(* an exact repeat inside the interval is suppressed, and suppression does not move the window:
   the reference time stays that of the last *printed* occurrence (by definition of last_printed) *)
Theorem repeat_inside_interval_suppressed interval h n m t :
  nth_error h n = Some (m, t) ->
  let bits := lrun interval linit h in
  let lp := last_printed (0, 0) (firstn n h) (firstn n bits) in
  m = fst lp -> sat_sub t (snd lp) < interval ->
  nth n bits true = false.
Proof.
  intros Hn bits lp Hm Hlt.
  pose proof (lrun_must_print_gen interval h linit n m t Hn) as H. cbn zeta in H.
  fold bits in H. cbn [linit prev_entry prev_time] in H. fold lp in H. rewrite H.
  apply Z.eqb_eq in Hm. apply Z.ltb_lt in Hlt. rewrite Hm, Hlt. reflexivity.
Qed.

(* two prints of the same message with no other print in between are at least one
   interval apart: a condition recurring on every frame gives at most one line per interval *)
Theorem same_message_prints_spaced interval h n m t :
  nth_error h n = Some (m, t) ->
  let bits := lrun interval linit h in
  let lp := last_printed (0, 0) (firstn n h) (firstn n bits) in
  nth n bits true = true -> m = fst lp ->
  interval <= sat_sub t (snd lp).
Proof.
  intros Hn bits lp Hp Hm.
  destruct (Z.lt_ge_cases (sat_sub t (snd lp)) interval) as [Hlt|Hge]; [|exact Hge].
  pose proof (repeat_inside_interval_suppressed interval h n m t Hn Hm Hlt) as Hs.
  cbn zeta in Hs. fold bits in Hs. rewrite Hs in Hp. discriminate.
Qed.

(* with a real clock (every arrival at least one interval after Go's zero time) the
   first message is always printed *)
Theorem first_message_printed interval m t h :
  interval <= sat_sub t 0 ->
  nth 0 (lrun interval linit ((m, t) :: h)) true = true.
Proof.
  intros H. apply (repeat_after_interval_printed interval ((m, t) :: h) 0 m t eq_refl).
  cbn. exact H.
Qed.
