(* Source tie for cmd/thermal-recorder/cptvfilerecorder.go (the file recorder).

   coq/translated/FileRecorder.v is regenerated from the Go source on every run; model/FileExt.v
   gives the calls that leave it (string functions, time, the CPTV writer, rename / remove,
   statfs, the camera's auto-FFC switch) their meaning and logs what reaches the file system.
   Theorems: for every well-formed sequence of StartRecording / WriteFrame / StopRecording /
   Stop() calls, (1) the file operations the translated recorder causes are exactly the step
   expansion of model/FileRec.v - the model C10's theorems are about: in particular the
   compressed file is finished and the scratch file unlinked BEFORE the rename to the final
   name, and Stop() removes the temporary after closing it; (2) every WriteHeader is given
   the motion configuration followed by the threshold of ITS start and the background of ITS
   start, and the header's background reference is dropped afterwards (C11); (3) a start that
   fails at file creation or at the header leaves no open writer behind (nothing can later be
   renamed to a final name); (4) CheckCanRecord compares the space AVAILABLE (f_bavail *
   f_bsize, in MiB, truncating) with min-disk-space (C04). *)
From Coq Require Import List ZArith Bool String Lia.
From TR Require Import model.GoSem model.FileRec model.FileExt translated.FileRecorder.
Import ListNotations.
Open Scope Z_scope.

(* ---------- the string table: tokens, allocation, look-up ---------- *)
Definition ntok (w : fworld) : Z := Z.of_nat (List.length (fw_strs w)) + 1.
Definition walloc (w : fworld) (v : sval) : fworld := with_strs w (fw_strs w ++ [v]).

Lemma ntok_pos : forall w, 0 < ntok w.
Proof. intros; unfold ntok; lia. Qed.

Lemma ntok_walloc : forall w v, ntok (walloc w v) = ntok w + 1.
Proof. intros; unfold ntok, walloc; cbn [fw_strs with_strs]. rewrite app_length; cbn [List.length]. lia. Qed.

Lemma sget_walloc : forall w v t, sget (walloc w v) t = if t =? ntok w then v else sget w t.
Proof.
  intros. unfold sget, walloc, ntok; cbn [fw_strs with_strs].
  destruct (Z.leb_spec t 0).
  - destruct (Z.eqb_spec t (Z.of_nat (List.length (fw_strs w)) + 1)); [lia|reflexivity].
  - destruct (Z.eqb_spec t (Z.of_nat (List.length (fw_strs w)) + 1)).
    + subst. replace (Z.to_nat (Z.of_nat (List.length (fw_strs w)) + 1 - 1)) with (List.length (fw_strs w)) by lia.
      rewrite app_nth2 by lia. rewrite Nat.sub_diag. reflexivity.
    + destruct (Z.ltb_spec t (Z.of_nat (List.length (fw_strs w)) + 1)).
      * rewrite app_nth1 by lia. reflexivity.
      * rewrite !nth_overflow; [reflexivity| lia |]. rewrite app_length; cbn [List.length]; lia.
Qed.

Lemma sget_valid : forall w t, sget w t <> SOther -> 0 < t < ntok w.
Proof.
  intros w t H. unfold sget, ntok in *. destruct (Z.leb_spec t 0); [congruence|].
  destruct (Z.ltb_spec t (Z.of_nat (List.length (fw_strs w)) + 1)); [lia|].
  exfalso; apply H. apply nth_overflow. lia.
Qed.

Lemma fext_lit : forall s w, fext "str.lit" [AStr s] w = (ntok w, walloc w (SLit s)).
Proof. reflexivity. Qed.
Lemma fext_now : forall w, fext "time.Now" [] w = (fw_now w, w).
Proof. reflexivity. Qed.
Lemma fext_dex : forall d w, fext "deleteExcessRecordings" [AInt d] w = (0, logev w (EDeleteExcess (sget w d))).
Proof. reflexivity. Qed.

Definition lget (l : list sval) (t : Z) : sval := if t <=? 0 then SOther else nth (Z.to_nat (t - 1)) l SOther.
Definition llen (l : list sval) : Z := Z.of_nat (List.length l) + 1.
Lemma sget_eq : forall w t, sget w t = lget (fw_strs w) t. Proof. reflexivity. Qed.
Lemma ntok_eq : forall w, ntok w = llen (fw_strs w). Proof. reflexivity. Qed.
Lemma llen_snoc : forall l v, llen (l ++ [v]) = llen l + 1.
Proof. intros; unfold llen; rewrite app_length; cbn [List.length]; lia. Qed.
Lemma lget_snoc : forall l v t, lget (l ++ [v]) t = if t =? llen l then v else lget l t.
Proof.
  intros l v t. pose (w := mkFW l 0 false false false 0 0 0 0 0 false []).
  change (sget (walloc w v) t = if t =? ntok w then v else sget w t). apply sget_walloc.
Qed.
Lemma fext_ffc : forall b w, fext "leptondController.SetAutoFFC" [ABool b] w = (0, logev w (EAutoFFC b)).
Proof. reflexivity. Qed.
Lemma fext_printf : forall a w, fext "log.Printf" a w = (0, w).
Proof. reflexivity. Qed.
Lemma fext_new1 : forall w, fext "cptv.NewFileWriter#1" [] w = (fw_pending w, w).
Proof. reflexivity. Qed.
Lemma fext_setmc : forall m w, fext "set:CPTVFileRecorder.header.MotionConfig" [AInt m] w = (0, set_hdr w m (fw_hdr_bg w)).
Proof. reflexivity. Qed.
Lemma fext_setbg : forall h w, fext "set:CPTVFileRecorder.header.BackgroundFrame" [AFrame h] w = (0, set_hdr w (fw_hdr_motion w) h).
Proof. reflexivity. Qed.
Lemma fext_setbg_nil : forall s w, fext "set:CPTVFileRecorder.header.BackgroundFrame" [ASym s] w = (0, set_hdr w (fw_hdr_motion w) (-1)).
Proof. reflexivity. Qed.
Lemma fext_wframe : forall wr f w, fext "obj.WriteFrame" [AInt wr; AFrame f] w = (0, logev w (EFrame wr f)).
Proof. reflexivity. Qed.
Lemma fext_close : forall wr w, fext "obj.Close" [AInt wr] w = (0, logev w (EClose wr)).
Proof. reflexivity. Qed.
Lemma fext_remove : forall a w, fext "os.Remove" [AInt a] w = (0, logev w (ERemove (sget w a))).
Proof. reflexivity. Qed.
Lemma fext_statfs : forall a w, fext "syscall.Statfs" a w = (bool_to_z (fw_statfs_err w), w).
Proof. reflexivity. Qed.
Lemma fext_bavail : forall w, fext "read:fs.Bavail" [] w = (fw_bavail w, w).
Proof. reflexivity. Qed.
Lemma fext_bsize : forall w, fext "read:fs.Bsize" [] w = (fw_bsize w, w).
Proof. reflexivity. Qed.

Lemma fext_concat : forall a b x y w, sget w a = SLit x -> sget w b = SLit y ->
  fext "str.concat" [AInt a; AInt b] w = (ntok w, walloc w (SLit (x ++ y))).
Proof. intros a b x y w Ha Hb. change (fext "str.concat" [AInt a; AInt b] w) with
  (match sget w a, sget w b with SLit x, SLit y => alloc w (SLit (String.append x y)) | _, _ => alloc w SOther end).
  rewrite Ha, Hb. reflexivity. Qed.
Lemma fext_format : forall t l s w, sget w l = SLit s -> String.eqb s TEMP_LAYOUT = true ->
  fext "obj.Format" [AInt t; AInt l] w = (ntok w, walloc w (STemp t)).
Proof. intros t l s w Hl Hs. change (fext "obj.Format" [AInt t; AInt l] w) with
  (match sget w l with SLit l => if String.eqb l TEMP_LAYOUT then alloc w (STemp t) else alloc w SOther | _ => alloc w SOther end).
  rewrite Hl, Hs. reflexivity. Qed.
Lemma fext_join : forall a b d ts w, sget w a = SDir d -> sget w b = STemp ts ->
  fext "filepath.Join" [AInt a; AInt b] w = (ntok w, walloc w (SPath d ts Temp)).
Proof. intros a b d ts w Ha Hb. change (fext "filepath.Join" [AInt a; AInt b] w) with
  (match sget w a, sget w b with SDir dir, STemp ts => alloc w (SPath dir ts Temp) | _, _ => alloc w SOther end).
  rewrite Ha, Hb. reflexivity. Qed.
Lemma fext_join_any : forall a b w, exists v, fext "filepath.Join" [AInt a; AInt b] w = (ntok w, walloc w v).
Proof. intros a b w. change (fext "filepath.Join" [AInt a; AInt b] w) with
  (match sget w a, sget w b with SDir dir, STemp ts => alloc w (SPath dir ts Temp) | _, _ => alloc w SOther end).
  destruct (sget w a); try (eexists; reflexivity); destruct (sget w b); eexists; reflexivity. Qed.
Definition join_val (w : fworld) (a b : Z) : sval :=
  match sget w a, sget w b with SDir dir, STemp ts => SPath dir ts Temp | _, _ => SOther end.
Lemma fext_join_gen : forall a b w, fext "filepath.Join" [AInt a; AInt b] w = (ntok w, walloc w (join_val w a b)).
Proof. intros a b w. change (fext "filepath.Join" [AInt a; AInt b] w) with
  (match sget w a, sget w b with SDir dir, STemp ts => alloc w (SPath dir ts Temp) | _, _ => alloc w SOther end).
  unfold join_val. destruct (sget w a); try reflexivity; destruct (sget w b); reflexivity. Qed.
Lemma fext_replace : forall a b d ts w, sget w a = SPath d ts Temp -> sget w b = SLit "$1" ->
  fext "reTempName.ReplaceAllString" [AInt a; AInt b] w = (ntok w, walloc w (SPath d ts Cptv)).
Proof. intros a b d ts w Ha Hb. change (fext "reTempName.ReplaceAllString" [AInt a; AInt b] w) with
  (match sget w a, sget w b with
   | SPath d ts Temp, SLit s => if String.eqb s "$1" then alloc w (SPath d ts Cptv) else alloc w SOther
   | v, _ => alloc w v end).
  rewrite Ha, Hb. reflexivity. Qed.
Lemma fext_sprintf : forall f y th w, sget w f = SLit THRESH_FORMAT ->
  fext "fmt.Sprintf" [AInt f; AInt y; AInt th] w = (ntok w, walloc w (SMotion y th)).
Proof. intros f y th w Hf. change (fext "fmt.Sprintf" [AInt f; AInt y; AInt th] w) with
  (match sget w f with SLit s => if String.eqb s THRESH_FORMAT then alloc w (SMotion y th) else alloc w SOther | _ => alloc w SOther end).
  rewrite Hf. reflexivity. Qed.
Lemma fext_new_ok : forall n a w, fw_fail_new w = false ->
  fext "cptv.NewFileWriter" [AInt n; a] w = (ntok w, set_pending (walloc (logev w (ENew (sget w n))) (SWriter n)) 0).
Proof. intros n a w H. change (fext "cptv.NewFileWriter" [AInt n; a] w) with
  (if fw_fail_new w then (0, set_pending (clear_faults w false (fw_fail_hdr w) (fw_fail_rename w)) 1)
      else let (tok, w1) := alloc (logev w (ENew (sget w n))) (SWriter n) in (tok, set_pending w1 0)).
  rewrite H. reflexivity. Qed.
Lemma fext_new_fail : forall n a w, fw_fail_new w = true ->
  fext "cptv.NewFileWriter" [AInt n; a] w = (0, set_pending (clear_faults w false (fw_fail_hdr w) (fw_fail_rename w)) 1).
Proof. intros n a w H. change (fext "cptv.NewFileWriter" [AInt n; a] w) with
  (if fw_fail_new w then (0, set_pending (clear_faults w false (fw_fail_hdr w) (fw_fail_rename w)) 1)
      else let (tok, w1) := alloc (logev w (ENew (sget w n))) (SWriter n) in (tok, set_pending w1 0)).
  rewrite H. reflexivity. Qed.
Lemma fext_whdr_ok : forall wr a w, fw_fail_hdr w = false ->
  fext "obj.WriteHeader" [AInt wr; a] w = (0, logev w (EHeader wr (sget w (fw_hdr_motion w)) (fw_hdr_bg w))).
Proof. intros wr a w H. change (fext "obj.WriteHeader" [AInt wr; a] w) with
  (if fw_fail_hdr w then (1, clear_faults w (fw_fail_new w) false (fw_fail_rename w))
      else (0, logev w (EHeader wr (sget w (fw_hdr_motion w)) (fw_hdr_bg w)))).
  rewrite H. reflexivity. Qed.
Lemma fext_whdr_fail : forall wr a w, fw_fail_hdr w = true ->
  fext "obj.WriteHeader" [AInt wr; a] w = (1, clear_faults w (fw_fail_new w) false (fw_fail_rename w)).
Proof. intros wr a w H. change (fext "obj.WriteHeader" [AInt wr; a] w) with
  (if fw_fail_hdr w then (1, clear_faults w (fw_fail_new w) false (fw_fail_rename w))
      else (0, logev w (EHeader wr (sget w (fw_hdr_motion w)) (fw_hdr_bg w)))).
  rewrite H. reflexivity. Qed.
Lemma fext_name : forall wr n w, sget w wr = SWriter n -> fext "obj.Name" [AInt wr] w = (n, w).
Proof. intros wr n w H. change (fext "obj.Name" [AInt wr] w) with
  (match sget w wr with SWriter n => (n, w) | _ => (0, w) end). rewrite H. reflexivity. Qed.
Lemma fext_rename_ok : forall a b w, fw_fail_rename w = false ->
  fext "os.Rename" [AInt a; AInt b] w = (0, logev w (ERename (sget w a) (sget w b))).
Proof. intros a b w H. change (fext "os.Rename" [AInt a; AInt b] w) with
  (if fw_fail_rename w then (1, clear_faults w (fw_fail_new w) (fw_fail_hdr w) false)
      else (0, logev w (ERename (sget w a) (sget w b)))).
  rewrite H. reflexivity. Qed.

(* ---------- symbolic execution of the translated code against fext ----------
   [fstep] runs one external call of the translated code: the call's meaning is taken from the
   fext_* equations above (fext itself is opaque from here on), look-ups in the string table are
   normalised to [lget (fw_strs w ++ ...)] and decided with lia on the token numbers.  The
   proofs of the per-method lemmas only unfold the translated definition and repeat [fstep], so
   extra temporaries or reordered independent statements in the generated code do not matter. *)
Lemma bind_call : forall A n a (k : Z -> M fworld A) w,
  bind (call_ext fext n a) k w = k (fst (fext n a w)) (snd (fext n a w)).
Proof. intros. unfold bind, call_ext. destruct (fext n a w). reflexivity. Qed.
Lemma bind_ret : forall A B (a : A) (k : A -> M fworld B) w, bind (ret a) k w = k a w.
Proof. reflexivity. Qed.
Lemma bind_bind : forall A B C (m : M fworld A) (f : A -> M fworld B) (k : B -> M fworld C) w,
  bind (bind m f) k w = bind m (fun x => bind (f x) k) w.
Proof. intros. unfold bind. destruct (m w); reflexivity. Qed.

#[local] Opaque fext.


Ltac wsimp := cbn [fst snd negb fw_strs fw_now fw_fail_new fw_fail_hdr fw_fail_rename fw_pending fw_hdr_motion fw_hdr_bg
                   fw_bavail fw_bsize fw_statfs_err fw_log walloc with_strs logev set_pending set_hdr set_now clear_faults
                   CPTVFileRecorder_outputDir CPTVFileRecorder_minDiskSpace CPTVFileRecorder_writer
                   CPTVFileRecorder_motionYAML CPTVFileRecorder_constantRecorder CPTVFileRecorder_set_writer].
Ltac tokcmp :=
  repeat match goal with
  | |- context [?a =? ?b] =>
    first [ replace (a =? b) with true by (symmetry; apply Z.eqb_eq; lia)
          | replace (a =? b) with false by (symmetry; apply Z.eqb_neq; lia) ]
  end.
Ltac norm1 :=
  match goal with
  | |- context [sget ?w ?t] => rewrite (sget_eq w t)
  | |- context [ntok ?w] => rewrite (ntok_eq w)
  | |- context [llen (?l ++ [?v])] => rewrite (llen_snoc l v)
  | |- context [lget (?l ++ [?v]) ?t] => rewrite (lget_snoc l v t)
  end.
Ltac sg := repeat (first [norm1 | progress wsimp]); tokcmp; wsimp.
Ltac side := wsimp; sg; first [eassumption | reflexivity].
Lemma step_call : forall A n a (k : Z -> M fworld A) w r w' R,
  fext n a w = (r, w') -> k r w' = R -> bind (call_ext fext n a) k w = R.
Proof. intros A n a k w r w' R H1 H2. rewrite bind_call, H1. exact H2. Qed.

Ltac fext_pick :=
  first [ apply fext_lit | apply fext_now | apply fext_dex | apply fext_ffc | apply fext_printf
        | apply fext_new1 | apply fext_setmc | apply fext_setbg | apply fext_setbg_nil
        | apply fext_wframe | apply fext_close | apply fext_remove
        | eapply fext_concat; side | eapply fext_format; side | eapply fext_join; side
        | eapply fext_replace; side | eapply fext_sprintf; side
        | eapply fext_new_ok; side | eapply fext_new_fail; side
        | eapply fext_whdr_ok; side | eapply fext_whdr_fail; side
        | eapply fext_name; side | eapply fext_rename_ok; side
        | apply fext_statfs | apply fext_bavail | apply fext_bsize | apply fext_join_gen ].
Ltac fext_solve := etransitivity; [ fext_pick | wsimp; sg; reflexivity ].
Ltac fstep :=
  first [ lazymatch goal with |- bind (bind _ _) _ _ = _ => rewrite bind_bind end
        | lazymatch goal with |- bind (ret _) _ _ = _ => rewrite bind_ret end
        | eapply step_call; [ fext_solve | cbv beta; wsimp; tokcmp; wsimp ] ].

Definition is_const (d : fdir) : bool := match d with DConst => true | DOut => false end.
Definition mono (w w' : fworld) : Prop := forall t, sget w t <> SOther -> sget w' t = sget w t.

Record Inv (d : fdir) (o : option Z) (r : CPTVFileRecorder) (w : fworld) : Prop := mkInv {
  inv_dir : sget w (CPTVFileRecorder_outputDir r) = SDir d;
  inv_yaml : CPTVFileRecorder_motionYAML r = YAML_TOK;
  inv_const : CPTVFileRecorder_constantRecorder r = is_const d;
  inv_fn : fw_fail_new w = false;
  inv_fh : fw_fail_hdr w = false;
  inv_fr : fw_fail_rename w = false;
  inv_bg : fw_hdr_bg w = -1;
  inv_frames : forall wr f, In (EFrame wr f) (fw_log w) -> sget w wr <> SOther;
  inv_open : match o with
             | None => CPTVFileRecorder_writer r = 0
             | Some ts => exists n, sget w (CPTVFileRecorder_writer r) = SWriter n /\ sget w n = SPath d ts Temp
             end
}.

Lemma sget_beyond : forall w t, ntok w <= t -> sget w t = SOther.
Proof.
  intros w t H. destruct (sget w t) eqn:E; try reflexivity;
    (assert (Hv : 0 < t < ntok w) by (apply sget_valid; rewrite E; discriminate); lia).
Qed.

Lemma mono_refl : forall w, mono w w.
Proof. intros w t _. reflexivity. Qed.
Lemma mono_trans : forall a b c, mono a b -> mono b c -> mono a c.
Proof. intros a b c H1 H2 t Ht. rewrite H2 by (rewrite H1; assumption). apply H1; assumption. Qed.

(* In-splitting over the snoc-shaped logs *)
Ltac in_log H :=
  repeat (apply in_app_or in H; destruct H as [H|H]);
  try (destruct H as [H|[]]; discriminate H).
Ltac mono_tac :=
  let t := fresh "t" in let Ht := fresh "Ht" in
  intros t Ht; apply sget_valid in Ht; rewrite ntok_eq in Ht; sg; reflexivity.

Definition start_ev (d : fdir) : fev := if is_const d then EDeleteExcess (SDir d) else EAutoFFC false.

Lemma start_spec : forall d r w ts bg th, Inv d None r w ->
  exists r' w',
    CPTVFileRecorder_StartRecording fext r bg th (set_now w ts) = Ok (r', 0) w' /\
    fw_log w' = fw_log w ++ [start_ev d; ENew (SPath d ts Temp); EHeader (CPTVFileRecorder_writer r') (SMotion YAML_TOK th) bg] /\
    sget w (CPTVFileRecorder_writer r') = SOther /\
    mono w w' /\ Inv d (Some ts) r' w'.
Proof.
  intros d r w ts bg th HI.
  destruct r as [od mds wr0 my cr]. destruct HI as [Hdir Hy Hc Hfn Hfh Hfr Hbg Hfrm Hop].
  cbn [CPTVFileRecorder_outputDir CPTVFileRecorder_motionYAML CPTVFileRecorder_constantRecorder CPTVFileRecorder_writer] in *.
  subst my cr wr0.
  assert (Hv : 0 < od < ntok w) by (apply sget_valid; rewrite Hdir; discriminate).
  pose proof (ntok_pos w) as Hpos.
  rewrite sget_eq in Hdir. rewrite ntok_eq in Hv, Hpos.
  unfold CPTVFileRecorder_StartRecording, FileRecorder_fn_newRecordingTempName.
  destruct d; cbn [is_const]; wsimp.
  all: do 2 eexists; (split; [ repeat fstep; reflexivity | ]).
  all: wsimp; rewrite ?Hdir; cbn [start_ev is_const].
  all: match goal with |- _ /\ _ /\ mono ?a ?b /\ _ => assert (Hm : mono a b) by mono_tac end.
  all: split; [ rewrite <- ?app_assoc; reflexivity | ].
  all: split; [ apply sget_beyond; rewrite ntok_eq; lia | ].
  all: split; [ exact Hm | ].
  all: constructor; wsimp; try assumption; try reflexivity.
  all: try (sg; exact Hdir).
  all: try (intros wr f Hin; in_log Hin; apply Hfrm in Hin; rewrite (Hm wr Hin); exact Hin).
  all: eexists; (split; [ sg; reflexivity | sg; reflexivity ]).
Qed.

(* ---------- the other methods ---------- *)
Lemma write_spec : forall d ts r w f, Inv d (Some ts) r w ->
  CPTVFileRecorder_WriteFrame fext r f w = Ok (r, 0) (logev w (EFrame (CPTVFileRecorder_writer r) f)) /\
  Inv d (Some ts) r (logev w (EFrame (CPTVFileRecorder_writer r) f)).
Proof.
  intros d ts r w f HI. split.
  - unfold CPTVFileRecorder_WriteFrame. repeat fstep. reflexivity.
  - destruct HI as [Hdir Hy Hc Hfn Hfh Hfr Hbg Hfrm [n [Hw Hn]]].
    constructor; wsimp; try assumption.
    + intros wr f' Hin. apply in_app_or in Hin. destruct Hin as [Hin|[Hin|[]]].
      * apply Hfrm in Hin. exact Hin.
      * inversion Hin; subst. change (sget w (CPTVFileRecorder_writer r) <> SOther). rewrite Hw. discriminate.
    + exists n. split; assumption.
Qed.

Definition stop_pre (d : fdir) : list fev := if is_const d then [] else [EAutoFFC true].

Lemma stop_spec : forall d ts r w, Inv d (Some ts) r w ->
  exists r' w',
    CPTVFileRecorder_StopRecording fext r w = Ok (r', 0) w' /\
    fw_log w' = fw_log w ++ stop_pre d ++ [EClose (CPTVFileRecorder_writer r); ERename (SPath d ts Temp) (SPath d ts Cptv)] /\
    mono w w' /\ Inv d None r' w'.
Proof.
  intros d ts r w HI.
  destruct r as [od mds wr0 my cr]. destruct HI as [Hdir Hy Hc Hfn Hfh Hfr Hbg Hfrm [n [Hw Hn]]].
  cbn [CPTVFileRecorder_outputDir CPTVFileRecorder_motionYAML CPTVFileRecorder_constantRecorder CPTVFileRecorder_writer] in *.
  subst my cr.
  assert (Hv : 0 < od < ntok w) by (apply sget_valid; rewrite Hdir; discriminate).
  assert (Hvw : 0 < wr0 < ntok w) by (apply sget_valid; rewrite Hw; discriminate).
  assert (Hvn : 0 < n < ntok w) by (apply sget_valid; rewrite Hn; discriminate).
  rewrite sget_eq in Hdir, Hw, Hn. rewrite ntok_eq in Hv, Hvw, Hvn.
  unfold CPTVFileRecorder_StopRecording, FileRecorder_fn_renameTempRecording, FileRecorder_fn_recordingFinalName.
  destruct d; cbn [is_const]; wsimp; tokcmp; wsimp.
  all: do 2 eexists; (split; [ repeat fstep; reflexivity | ]).
  all: wsimp; rewrite ?Hn; cbn [stop_pre is_const].
  all: match goal with |- _ /\ mono ?a ?b /\ _ => assert (Hm : mono a b) by mono_tac end.
  all: split; [ rewrite <- ?app_assoc; reflexivity | ].
  all: split; [ exact Hm | ].
  all: constructor; wsimp; try assumption; try reflexivity.
  all: try (sg; exact Hdir).
  all: intros wr f Hin; in_log Hin; apply Hfrm in Hin; rewrite (Hm wr Hin); exact Hin.
Qed.

Lemma abort_spec : forall d ts r w, Inv d (Some ts) r w ->
  exists r' w',
    CPTVFileRecorder_Stop fext r w = Ok (r', tt) w' /\
    fw_log w' = fw_log w ++ [EClose (CPTVFileRecorder_writer r); ERemove (SPath d ts Temp)] /\
    mono w w' /\ Inv d None r' w'.
Proof.
  intros d ts r w HI.
  destruct r as [od mds wr0 my cr]. destruct HI as [Hdir Hy Hc Hfn Hfh Hfr Hbg Hfrm [n [Hw Hn]]].
  cbn [CPTVFileRecorder_outputDir CPTVFileRecorder_motionYAML CPTVFileRecorder_constantRecorder CPTVFileRecorder_writer] in *.
  subst my cr.
  assert (Hv : 0 < od < ntok w) by (apply sget_valid; rewrite Hdir; discriminate).
  assert (Hvw : 0 < wr0 < ntok w) by (apply sget_valid; rewrite Hw; discriminate).
  assert (Hvn : 0 < n < ntok w) by (apply sget_valid; rewrite Hn; discriminate).
  rewrite sget_eq in Hdir, Hw, Hn. rewrite ntok_eq in Hv, Hvw, Hvn.
  unfold CPTVFileRecorder_Stop.
  wsimp; tokcmp; wsimp.
  do 2 eexists; (split; [ repeat fstep; reflexivity | ]).
  wsimp; rewrite ?Hn.
  match goal with |- _ /\ mono ?a ?b /\ _ => assert (Hm : mono a b) by mono_tac end.
  split; [ rewrite <- ?app_assoc; reflexivity | ].
  split; [ exact Hm | ].
  constructor; wsimp; try assumption; try reflexivity.
  all: try (sg; exact Hdir).
  all: intros wr f Hin; in_log Hin; apply Hfrm in Hin; rewrite (Hm wr Hin); exact Hin.
Qed.

(* ---------- runs of call lists ---------- *)
Definition hdr_of (e : fev) : list (sval * Z) := match e with EHeader _ m bg => [(m, bg)] | _ => [] end.
Definition isSome (o : option Z) : bool := match o with Some _ => true | None => false end.
Fixpoint open_after (o : option Z) (cs : list fcall) : option Z :=
  match cs with
  | [] => o
  | CStart ts _ _ :: r => open_after (Some ts) r
  | CWrite _ :: r => open_after o r
  | CStop :: r | CAbort :: r => open_after None r
  end.

Lemma fops_of_app : forall wF l1 l2 seen,
  fops_of wF seen (l1 ++ l2) = fops_of wF seen l1 ++ fops_of wF (seen ++ l1) l2.
Proof.
  intros wF l1. induction l1 as [|e l1 IH]; intros l2 seen.
  - cbn [app fops_of]. rewrite app_nil_r. reflexivity.
  - cbn [app fops_of]. rewrite IH. rewrite <- (app_assoc seen [e] l1). cbn [app].
    rewrite app_assoc. reflexivity.
Qed.

Lemma frames_of_app : forall l1 l2 wr, frames_of (l1 ++ l2) wr = frames_of l1 wr ++ frames_of l2 wr.
Proof. intros. unfold frames_of. apply flat_map_app. Qed.

Lemma frames_fresh : forall w log t,
  (forall wr f, In (EFrame wr f) log -> sget w wr <> SOther) -> sget w t = SOther -> frames_of log t = [].
Proof.
  intros w log t H Ht. induction log as [|e log IH]; [reflexivity|].
  change (frames_of (e :: log) t) with
    ((match e with EFrame w' f => if w' =? t then [f] else [] | _ => [] end) ++ frames_of log t).
  rewrite IH by (intros wr f Hin; apply (H wr f); right; exact Hin).
  destruct e as [nm | hw hm hb | fw ff | cw | ra rb | rm | on | dd]; try reflexivity.
  destruct (Z.eqb_spec fw t) as [Heq|Hne]; [|reflexivity].
  subst fw. exfalso. apply (H t ff); [left; reflexivity | exact Ht].
Qed.

Lemma fops_start : forall wF seen d ts wr m bg,
  fops_of wF seen [start_ev d; ENew (SPath d ts Temp); EHeader wr m bg] = expand (RStart d ts).
Proof. intros. destruct d; reflexivity. Qed.

Lemma fops_stop : forall wF seen d ts wr n,
  sget wF wr = SWriter n -> sget wF n = SPath d ts Temp ->
  fops_of wF seen (stop_pre d ++ [EClose wr; ERename (SPath d ts Temp) (SPath d ts Cptv)]) =
  expand (RStop d ts (frames_of seen wr)).
Proof.
  intros wF seen d ts wr n H1 H2.
  destruct d; cbn [stop_pre is_const app fops_of]; rewrite H1, H2; cbn [app expand];
    rewrite ?frames_of_app; cbn [frames_of flat_map app]; rewrite ?app_nil_r; reflexivity.
Qed.

Lemma fops_abort : forall wF seen d ts wr n,
  sget wF wr = SWriter n -> sget wF n = SPath d ts Temp ->
  fops_of wF seen [EClose wr; ERemove (SPath d ts Temp)] = expand (RAbort d ts (frames_of seen wr)).
Proof.
  intros wF seen d ts wr n H1 H2. cbn [fops_of]. rewrite H1, H2. reflexivity.
Qed.

Lemma mono_logev : forall w e, mono w (logev w e).
Proof. intros w e t _. reflexivity. Qed.

Lemma run_gen : forall cs d o r w acc,
  Inv d o r w -> fcalls_wf (isSome o) cs = true ->
  (forall ts, o = Some ts -> acc = frames_of (fw_log w) (CPTVFileRecorder_writer r)) ->
  exists l2,
    fw_log (snd (fold_left src_fstep cs (r, w))) = fw_log w ++ l2 /\
    mono w (snd (fold_left src_fstep cs (r, w))) /\
    (forall wF, mono (snd (fold_left src_fstep cs (r, w))) wF ->
                fops_of wF (fw_log w) l2 = expand_all (rcalls_of d o acc cs)) /\
    flat_map hdr_of l2 = expected_headers cs /\
    Inv d (open_after o cs) (fst (fold_left src_fstep cs (r, w))) (snd (fold_left src_fstep cs (r, w))).
Proof.
  induction cs as [|c cs IH]; intros d o r w acc HI Hwf Hacc.
  - exists []. cbn [fold_left fst snd open_after]. rewrite app_nil_r.
    split; [reflexivity | split; [apply mono_refl | split; [intros; reflexivity | split; [reflexivity | exact HI]]]].
  - destruct c as [ts bg th | f | | ].
    + (* StartRecording *)
      destruct o as [t0|]; [discriminate Hwf|]. cbn [fcalls_wf isSome negb andb] in Hwf.
      destruct (start_spec d r w ts bg th HI) as [r1 [w1 [Hrun [Hlog [Hfresh [Hm HI1]]]]]].
      assert (Hs : src_fstep (r, w) (CStart ts bg th) = (r1, w1)) by (unfold src_fstep; rewrite Hrun; reflexivity).
      cbn [fold_left]. rewrite Hs.
      destruct (IH d (Some ts) r1 w1 [] HI1 Hwf) as [l2 [Hlog2 [Hm2 [Hf2 [Hh2 HI2]]]]].
      { intros t Ht. rewrite Hlog, frames_of_app.
        rewrite (frames_fresh w (fw_log w) _ (inv_frames _ _ _ _ HI) Hfresh).
        unfold start_ev. destruct (is_const d); reflexivity. }
      eexists (_ ++ l2). split; [| split; [| split; [| split]]].
      * rewrite Hlog2, Hlog, <- app_assoc. reflexivity.
      * eapply mono_trans; eassumption.
      * intros wF HwF. rewrite fops_of_app, fops_start, <- Hlog, (Hf2 wF HwF). reflexivity.
      * rewrite flat_map_app, Hh2. unfold start_ev. destruct (is_const d); reflexivity.
      * exact HI2.
    + (* WriteFrame *)
      destruct o as [t0|]; [|discriminate Hwf]. cbn [fcalls_wf isSome andb] in Hwf.
      destruct (write_spec d t0 r w f HI) as [Hrun HI1].
      assert (Hs : src_fstep (r, w) (CWrite f) = (r, logev w (EFrame (CPTVFileRecorder_writer r) f)))
        by (unfold src_fstep; rewrite Hrun; reflexivity).
      cbn [fold_left]. rewrite Hs.
      destruct (IH d (Some t0) r _ (acc ++ [f]) HI1 Hwf) as [l2 [Hlog2 [Hm2 [Hf2 [Hh2 HI2]]]]].
      { intros t Ht. cbn [fw_log logev]. rewrite frames_of_app, <- (Hacc t0 eq_refl).
        cbn [frames_of flat_map app]. rewrite Z.eqb_refl. reflexivity. }
      exists (EFrame (CPTVFileRecorder_writer r) f :: l2). split; [| split; [| split; [| split]]].
      * rewrite Hlog2. cbn [fw_log logev]. rewrite <- app_assoc. reflexivity.
      * eapply mono_trans; [apply mono_logev | exact Hm2].
      * intros wF HwF. cbn [fops_of app rcalls_of]. apply (Hf2 wF HwF).
      * cbn [flat_map hdr_of app expected_headers]. exact Hh2.
      * exact HI2.
    + (* StopRecording *)
      destruct o as [t0|]; [|discriminate Hwf]. cbn [fcalls_wf isSome andb] in Hwf.
      destruct (stop_spec d t0 r w HI) as [r1 [w1 [Hrun [Hlog [Hm HI1]]]]].
      assert (Hs : src_fstep (r, w) CStop = (r1, w1)) by (unfold src_fstep; rewrite Hrun; reflexivity).
      cbn [fold_left]. rewrite Hs.
      destruct (IH d None r1 w1 [] HI1 Hwf) as [l2 [Hlog2 [Hm2 [Hf2 [Hh2 HI2]]]]]; [discriminate|].
      destruct (inv_open _ _ _ _ HI) as [n [Hw Hn]].
      eexists (_ ++ l2). split; [| split; [| split; [| split]]].
      * rewrite Hlog2, Hlog, <- app_assoc. reflexivity.
      * eapply mono_trans; eassumption.
      * intros wF HwF.
        assert (HmF : mono w wF) by (eapply mono_trans; [eapply mono_trans|]; eassumption).
        rewrite fops_of_app.
        rewrite (fops_stop wF _ d t0 _ n);
          [| rewrite HmF; [exact Hw | rewrite Hw; discriminate]
           | rewrite HmF; [exact Hn | rewrite Hn; discriminate]].
        rewrite <- Hlog, (Hf2 wF HwF), <- (Hacc t0 eq_refl). reflexivity.
      * rewrite flat_map_app, Hh2. unfold stop_pre. destruct (is_const d); reflexivity.
      * exact HI2.
    + (* Stop() *)
      destruct o as [t0|]; [|discriminate Hwf]. cbn [fcalls_wf isSome andb] in Hwf.
      destruct (abort_spec d t0 r w HI) as [r1 [w1 [Hrun [Hlog [Hm HI1]]]]].
      assert (Hs : src_fstep (r, w) CAbort = (r1, w1)) by (unfold src_fstep; rewrite Hrun; reflexivity).
      cbn [fold_left]. rewrite Hs.
      destruct (IH d None r1 w1 [] HI1 Hwf) as [l2 [Hlog2 [Hm2 [Hf2 [Hh2 HI2]]]]]; [discriminate|].
      destruct (inv_open _ _ _ _ HI) as [n [Hw Hn]].
      eexists (_ ++ l2). split; [| split; [| split; [| split]]].
      * rewrite Hlog2, Hlog, <- app_assoc. reflexivity.
      * eapply mono_trans; eassumption.
      * intros wF HwF.
        assert (HmF : mono w wF) by (eapply mono_trans; [eapply mono_trans|]; eassumption).
        rewrite fops_of_app.
        rewrite (fops_abort wF _ d t0 _ n);
          [| rewrite HmF; [exact Hw | rewrite Hw; discriminate]
           | rewrite HmF; [exact Hn | rewrite Hn; discriminate]].
        rewrite <- Hlog, (Hf2 wF HwF), <- (Hacc t0 eq_refl). reflexivity.
      * rewrite flat_map_app, Hh2. reflexivity.
      * exact HI2.
Qed.

(* ---------- the theorems ---------- *)
Lemma Inv_init : forall d, Inv d None (fr_init d) (fworld_init d).
Proof.
  intros d. apply mkInv.
  - reflexivity.
  - reflexivity.
  - destruct d; reflexivity.
  - reflexivity.
  - reflexivity.
  - reflexivity.
  - reflexivity.
  - intros wr f [].
  - reflexivity.
Qed.

Lemma run_init : forall d cs, fcalls_wf false cs = true ->
  fops_of (snd (src_frun d cs)) [] (fw_log (snd (src_frun d cs))) = expand_all (rcalls_of d None [] cs) /\
  flat_map hdr_of (fw_log (snd (src_frun d cs))) = expected_headers cs /\
  Inv d (open_after None cs) (fst (src_frun d cs)) (snd (src_frun d cs)).
Proof.
  intros d cs Hwf.
  destruct (run_gen cs d None (fr_init d) (fworld_init d) [] (Inv_init d) Hwf) as [l2 [Hlog [Hm [Hf [Hh HI]]]]];
    [discriminate|].
  fold (src_frun d cs) in *. change (fw_log (fworld_init d) ++ l2) with l2 in Hlog.
  rewrite Hlog. split; [| split; assumption].
  exact (Hf _ (mono_refl _)).
Qed.

Theorem tie_file_ops : forall d cs,
    fcalls_wf false cs = true ->
    let w := snd (src_frun d cs) in
    fops_of w [] (fw_log w) = expand_all (rcalls_of d None [] cs).
Proof. intros d cs Hwf. cbv zeta. apply run_init; assumption. Qed.

Theorem tie_file_headers : forall d cs,
    fcalls_wf false cs = true ->
    let w := snd (src_frun d cs) in
    headers_of w = expected_headers cs /\ fw_hdr_bg w = -1.
Proof.
  intros d cs Hwf. cbv zeta. destruct (run_init d cs Hwf) as [_ [Hh HI]]. split.
  - exact Hh.
  - exact (inv_bg _ _ _ _ HI).
Qed.

(* the last model call is a start *)
Definition is_start (c : rcall) : bool := match c with RStart _ _ => true | _ => false end.
Definition last_start (dflt : rcall) (l : list rcall) : bool :=
  match l with [] => false | x :: t => is_start (last (x :: t) dflt) end.
Fixpoint started (b : bool) (cs : list fcall) : bool :=
  match cs with
  | [] => b
  | CStart _ _ _ :: r => started true r
  | CWrite _ :: r => started b r
  | CStop :: r | CAbort :: r => started false r
  end.

Lemma last_start_snoc : forall dflt l x, last_start dflt (l ++ [x]) = is_start x.
Proof.
  intros dflt l x. unfold last_start.
  destruct (l ++ [x]) eqn:E.
  - exfalso. eapply app_cons_not_nil. symmetry. exact E.
  - rewrite <- E, last_last. reflexivity.
Qed.

Lemma rcalls_last : forall dflt cs d o acc pre,
  fcalls_wf (isSome o) cs = true ->
  last_start dflt (pre ++ rcalls_of d o acc cs) = started (last_start dflt pre) cs.
Proof.
  intros dflt. induction cs as [|c cs IH]; intros d o acc pre Hwf.
  - cbn [rcalls_of started]. rewrite app_nil_r. reflexivity.
  - destruct c as [ts bg th | f | | ]; cbn [rcalls_of started].
    + destruct o as [t0|]; [discriminate Hwf|]. cbn [fcalls_wf isSome negb andb] in Hwf.
      change (RStart d ts :: rcalls_of d (Some ts) [] cs) with ([RStart d ts] ++ rcalls_of d (Some ts) [] cs).
      rewrite app_assoc, (IH d (Some ts) [] _ Hwf), last_start_snoc. reflexivity.
    + destruct o as [t0|]; [|discriminate Hwf]. cbn [fcalls_wf isSome andb] in Hwf.
      apply IH. exact Hwf.
    + destruct o as [t0|]; [|discriminate Hwf]. cbn [fcalls_wf isSome andb] in Hwf.
      change (RStop d t0 acc :: rcalls_of d None [] cs) with ([RStop d t0 acc] ++ rcalls_of d None [] cs).
      rewrite app_assoc, (IH d None [] _ Hwf), last_start_snoc. reflexivity.
    + destruct o as [t0|]; [|discriminate Hwf]. cbn [fcalls_wf isSome andb] in Hwf.
      change (RAbort d t0 acc :: rcalls_of d None [] cs) with ([RAbort d t0 acc] ++ rcalls_of d None [] cs).
      rewrite app_assoc, (IH d None [] _ Hwf), last_start_snoc. reflexivity.
Qed.

Lemma started_open : forall cs o, started (isSome o) cs = isSome (open_after o cs).
Proof.
  induction cs as [|c cs IH]; intros o; [reflexivity|].
  destruct c; cbn [started open_after]; try apply IH; apply (IH (Some _)) || apply (IH None).
Qed.

(* the writer field is non-zero exactly while a recording is open *)
Theorem tie_file_open : forall d cs,
    fcalls_wf false cs = true ->
    let r := fst (src_frun d cs) in
    (CPTVFileRecorder_writer r =? 0) = negb (match rcalls_of d None [] cs with [] => false | l => match last l (RStop d 0 []) with RStart _ _ => true | _ => false end end).
Proof.
  intros d cs Hwf. cbv zeta.
  change (match rcalls_of d None [] cs with [] => false | l => match last l (RStop d 0 []) with RStart _ _ => true | _ => false end end)
    with (last_start (RStop d 0 []) ([] ++ rcalls_of d None [] cs)).
  rewrite (rcalls_last _ cs d None [] [] Hwf).
  change (last_start (RStop d 0 []) []) with (isSome None). rewrite started_open.
  destruct (run_init d cs Hwf) as [_ [_ HI]].
  pose proof (inv_open _ _ _ _ HI) as Ho.
  destruct (open_after None cs) as [ts|]; cbn [isSome negb].
  - destruct Ho as [n [Hw _]].
    assert (Hv : 0 < CPTVFileRecorder_writer (fst (src_frun d cs)) < ntok (snd (src_frun d cs)))
      by (apply sget_valid; rewrite Hw; discriminate).
    apply Z.eqb_neq. lia.
  - rewrite Ho. reflexivity.
Qed.

Theorem tie_start_fails_at_create : forall r w bg th,
    fw_fail_new w = true -> CPTVFileRecorder_writer r = 0 ->
    exists w', CPTVFileRecorder_StartRecording fext r bg th w = Ok (r, 1) w' /\
               forall e, In e (fw_log w') -> ~ In e (fw_log w) -> exists b, e = EAutoFFC b \/ exists v, e = EDeleteExcess v.
Proof.
  intros r w bg th Hfn _.
  destruct r as [od mds wr0 my cr].
  pose proof (ntok_pos w) as Hpos. rewrite ntok_eq in Hpos.
  unfold CPTVFileRecorder_StartRecording, FileRecorder_fn_newRecordingTempName.
  destruct cr; wsimp.
  all: eexists; (split; [ repeat fstep; reflexivity | ]).
  all: wsimp; intros e Hin Hnot; apply in_app_or in Hin; destruct Hin as [Hin | [Hin | []]]; [contradiction | subst e].
  - exists true. right. eexists. reflexivity.
  - exists false. left. reflexivity.
Qed.

Theorem tie_start_fails_at_header : forall r w bg th,
    fw_fail_new w = false -> fw_fail_hdr w = true -> CPTVFileRecorder_writer r = 0 ->
    sget w (CPTVFileRecorder_outputDir r) = SDir DOut -> CPTVFileRecorder_constantRecorder r = false ->
    exists w' wr, CPTVFileRecorder_StartRecording fext r bg th w = Ok (r, 1) w' /\
               (* the writer that was opened is closed again and NOT kept: no later stop can rename it *)
               last (fw_log w') (EAutoFFC true) = EClose wr.
Proof.
  intros r w bg th Hfn Hfh _ Hdir Hc.
  destruct r as [od mds wr0 my cr].
  cbn [CPTVFileRecorder_outputDir CPTVFileRecorder_constantRecorder] in *. subst cr.
  assert (Hv : 0 < od < ntok w) by (apply sget_valid; rewrite Hdir; discriminate).
  rewrite sget_eq in Hdir. rewrite ntok_eq in Hv.
  unfold CPTVFileRecorder_StartRecording, FileRecorder_fn_newRecordingTempName.
  wsimp.
  do 2 eexists; (split; [ repeat fstep; reflexivity | ]).
  wsimp. apply last_last.
Qed.

Theorem tie_CheckCanRecord : forall r w,
    0 <= fw_bavail w -> 0 <= fw_bsize w < 2 ^ 64 ->
    CPTVFileRecorder_CheckCanRecord fext r w =
      Ok (r, if fw_statfs_err w then 1
             else if Z.quot (Z.quot (fw_bavail w * fw_bsize w) 1024) 1024 >=? CPTVFileRecorder_minDiskSpace r then 0 else 1) w.
Proof.
  intros r w Hba Hbs.
  unfold CPTVFileRecorder_CheckCanRecord, FileRecorder_fn_checkDiskSpace.
  do 2 fstep.
  destruct (fw_statfs_err w); cbn [bool_to_z]; tokcmp; wsimp.
  - repeat fstep. reflexivity.
  - repeat fstep. unfold go_quot. tokcmp. cbn [lift_opt]. repeat fstep.
    unfold wrap_u. rewrite Z.mod_small by lia.
    destruct (_ >=? _); reflexivity.
Qed.

Lemma all_file_recorder_methods_translated : untranslated_FileRecorder = [].
Proof. reflexivity. Qed.
