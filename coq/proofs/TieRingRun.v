(* Trace-level source tie for motion/frameloop.go: the translated FrameLoop
   (coq/translated/FrameLoop.v) run on any sequence of put / move / set-as-oldest / reset
   operations, with frame contents kept outside (model/RingExt.v), shows after every operation
   exactly the observations of the hand-written ring model model/Ring.v - GetHistory, Oldest,
   CopyRecent, Current - for every capacity >= 1. *)
From Coq Require Import List ZArith Bool String Lia.
From TR Require Import model.GoSem model.Ring model.RingExt translated.FrameLoop proofs.RingProofs proofs.TieRing.
Import ListNotations.
Open Scope Z_scope.

(* what is observed of the model after an operation (-99 where the Go code would panic) *)
Definition observe4 (r : ring Z) : list Z * Z * Z * Z :=
  (match get_history r with Some h => h | None => [-99] end, oldest_slot 0 r, recent 0 r, current 0 r).

Fixpoint model_trace4 (r : ring Z) (ops : list (rop Z)) : list (list Z * Z * Z * Z) :=
  match ops with
  | [] => []
  | o :: t => let r' := rstep r o in observe4 r' :: model_trace4 r' t
  end.

(* ---------- handles ---------- *)
Definition hs (n : nat) : list Z := map Z.of_nat (seq 0 n).

Lemma hs_length n : List.length (hs n) = n.
Proof. unfold hs. rewrite map_length, seq_length. reflexivity. Qed.

Lemma hs_nth n i d : (i < n)%nat -> nth i (hs n) d = Z.of_nat i.
Proof.
  intros H. unfold hs.
  rewrite (nth_indep _ d (Z.of_nat 0)) by (rewrite map_length, seq_length; exact H).
  rewrite map_nth, seq_nth by exact H. reflexivity.
Qed.

Lemma map_nth_seq {A} (l : list A) d :
  map (fun i => nth i l d) (seq 0 (List.length l)) = l.
Proof.
  induction l as [| a l IH].
  - reflexivity.
  - cbn [List.length]. rewrite <- cons_seq, <- seq_shift. cbn [map nth].
    rewrite map_map. cbn [nth]. rewrite IH. reflexivity.
Qed.

Lemma content_hs w : map (content w) (hs (List.length w)) = w.
Proof.
  unfold hs, content. rewrite map_map.
  rewrite (map_ext _ (fun i => nth i w 0)).
  - apply map_nth_seq.
  - intros i. rewrite Nat2Z.id. reflexivity.
Qed.

(* the default handle: outside the world, so its content is the default content 0 *)
Lemma content_default w : content w (Z.of_nat (List.length w)) = 0.
Proof. unfold content. rewrite Nat2Z.id. apply nth_overflow. apply Nat.le_refl. Qed.

(* ---------- the same ring with other slots; the model is natural in the slots ---------- *)
Definition reslot {A B} (r : ring A) (l : list B) : ring B :=
  mkRing (size r) (cur r) (full r) (oldest r) l.

Lemma zth_map {A B} (f : A -> B) d l i : zth (f d) (map f l) i = f (zth d l i).
Proof. unfold zth. apply map_nth. Qed.

Lemma current_nat {A B} (f : A -> B) d (r : ring A) :
  current (f d) (reslot r (map f (slots r))) = f (current d r).
Proof. unfold current, reslot. cbn [slots cur]. apply zth_map. Qed.

Lemma recent_nat {A B} (f : A -> B) d (r : ring A) :
  recent (f d) (reslot r (map f (slots r))) = f (recent d r).
Proof. unfold recent, recent_index, reslot. cbn [slots cur size]. apply zth_map. Qed.

Lemma oldest_nat {A B} (f : A -> B) d (r : ring A) :
  oldest_slot (f d) (reslot r (map f (slots r))) = f (oldest_slot d r).
Proof.
  unfold oldest_slot, next_index_after, reslot. cbn [slots cur size oldest].
  destruct (negb (oldest r =? NO_OLDEST_SET)); apply zth_map.
Qed.

Lemma full_history_nat {A B} (f : A -> B) (r : ring A) :
  get_full_history (reslot r (map f (slots r))) = map f (get_full_history r).
Proof.
  unfold get_full_history, next_index_after, reslot. cbn [slots cur size full].
  destruct (cur r =? size r - 1); [reflexivity |].
  destruct (negb (full r)).
  - apply firstn_map.
  - rewrite map_app, firstn_map, skipn_map. reflexivity.
Qed.

Lemma history_nat {A B} (f : A -> B) (r : ring A) :
  get_history (reslot r (map f (slots r))) = option_map (map f) (get_history r).
Proof.
  unfold get_history. rewrite full_history_nat.
  unfold reslot. cbn [cur size oldest].
  rewrite map_length.
  destruct (oldest r =? NO_OLDEST_SET); [reflexivity |].
  match goal with |- context [if ?c then _ else _] => destruct c end; [reflexivity |].
  cbn [option_map]. rewrite skipn_map. reflexivity.
Qed.

(* ---------- the relation between the translated loop with its world and the model ---------- *)
Definition rw (fl : FrameLoop) (w : list Z) : ring Z := reslot (ring_of fl) w.

Definition Inv (fl : FrameLoop) (w : list Z) : Prop :=
  fl_wf fl /\ FrameLoop_frames fl = hs (List.length w).

Lemma rw_nat fl w : Inv fl w -> rw fl w = reslot (ring_of fl) (map (content w) (slots (ring_of fl))).
Proof.
  intros [_ Hf]. unfold rw, ring_of at 3. cbn [slots]. rewrite Hf, content_hs. reflexivity.
Qed.

Lemma Inv_length fl w : Inv fl w -> Z.of_nat (List.length w) = FrameLoop_size fl.
Proof.
  intros [Hwf Hf]. destruct Hwf as (_ & Hl & _). rewrite Hf, hs_length in Hl. exact Hl.
Qed.

Lemma Inv_ring fl fl' w :
  Inv fl w -> fl_wf fl' -> slots (ring_of fl') = slots (ring_of fl) -> Inv fl' w.
Proof.
  intros [_ Hf] Hwf Hs. split; [exact Hwf |].
  unfold ring_of in Hs. cbn [slots] in Hs. rewrite Hs. exact Hf.
Qed.

(* the mutex and CreateCopy as [rext] reads them *)
Lemma rext_lock w : after_ext rext "FrameLoop.mu.Lock" [] w = w.
Proof. reflexivity. Qed.
Lemma rext_unlock w : after_ext rext "FrameLoop.mu.Unlock" [] w = w.
Proof. reflexivity. Qed.
Lemma rext_copy h w : rext "Frame.CreateCopy" [AFrame h] w = (h, w).
Proof. reflexivity. Qed.

(* ---------- observations ---------- *)
Lemma tie_observe fl w : Inv fl w -> src_observe fl w = observe4 (rw fl w).
Proof.
  intros HI. pose proof HI as [Hwf Hf].
  set (d := Z.of_nat (List.length w)).
  assert (Hd : content w d = 0) by apply content_default.
  unfold src_observe, observe4. rewrite (rw_nat fl w HI).
  rewrite history_nat.
  replace (@oldest_slot Z 0) with (@oldest_slot Z (content w d)) by (rewrite Hd; reflexivity).
  replace (@recent Z 0) with (@recent Z (content w d)) by (rewrite Hd; reflexivity).
  replace (@current Z 0) with (@current Z (content w d)) by (rewrite Hd; reflexivity).
  rewrite oldest_nat, recent_nat, current_nat.
  rewrite (tie_Oldest rext fl w d Hwf), (tie_Current rext fl w d Hwf).
  pose proof (tie_CopyRecent rext fl w d Hwf) as Hc. cbv zeta in Hc.
  rewrite rext_lock, rext_copy in Hc. cbn [fst snd] in Hc. rewrite rext_unlock in Hc.
  rewrite Hc.
  pose proof (tie_GetHistory rext fl w Hwf) as Hh.
  destruct (get_history (ring_of fl)) as [h |].
  - destruct Hh as (fl1 & Hh & _). rewrite Hh. reflexivity.
  - rewrite Hh. reflexivity.
Qed.

(* ---------- operations ---------- *)
Lemma tie_rstep fl w o :
  Inv fl w ->
  Inv (fst (src_rstep (fl, w) o)) (snd (src_rstep (fl, w) o)) /\
  rw (fst (src_rstep (fl, w) o)) (snd (src_rstep (fl, w) o)) = rstep (rw fl w) o.
Proof.
  intros HI. pose proof HI as [Hwf Hf].
  destruct o as [v | | |]; unfold src_rstep, rstep.
  - (* put *)
    rewrite (tie_Current rext fl w 0 Hwf). cbn [fst snd].
    assert (Hc : current 0 (ring_of fl) = FrameLoop_currentIndex fl).
    { unfold current, zth, ring_of. cbn [slots cur]. rewrite Hf.
      pose proof (Inv_length fl w HI) as Hl.
      destruct Hwf as (_ & _ & _ & Hcur & _).
      rewrite hs_nth by lia. apply Z2Nat.id. lia. }
    rewrite Hc. split.
    + split; [exact Hwf |]. rewrite upd_length. exact Hf.
    + reflexivity.
  - (* move *)
    destruct (tie_Move rext fl w 0 Hwf) as (fl' & E & Hr & _ & Hwf').
    rewrite rext_lock, rext_unlock in E. rewrite E. cbn [fst snd]. split.
    + apply (Inv_ring fl fl' w HI Hwf'). rewrite Hr. reflexivity.
    + unfold rw. rewrite Hr. reflexivity.
  - (* set as oldest *)
    destruct (tie_SetAsOldest rext fl w 0 Hwf) as (fl' & E & Hr & _ & Hwf').
    rewrite E. cbn [fst snd]. split.
    + apply (Inv_ring fl fl' w HI Hwf'). rewrite Hr. reflexivity.
    + unfold rw. rewrite Hr. reflexivity.
  - (* reset *)
    destruct (tie_Reset rext fl w) as (fl' & E & Hr & _).
    pose proof (Reset_wf rext fl w fl' tt w Hwf E) as Hwf'.
    rewrite E. cbn [fst snd]. split.
    + apply (Inv_ring fl fl' w HI Hwf'). rewrite Hr. reflexivity.
    + unfold rw. rewrite Hr. reflexivity.
Qed.

Lemma tie_ring_trace ops : forall fl w,
    Inv fl w -> src_ring_trace (fl, w) ops = model_trace4 (rw fl w) ops.
Proof.
  induction ops as [| o t IH]; intros fl w HI.
  - reflexivity.
  - cbn [src_ring_trace model_trace4]. cbv zeta.
    destruct (tie_rstep fl w o HI) as [HI' Hr].
    destruct (src_rstep (fl, w) o) as [fl' w'] eqn:E. cbn [fst snd] in *.
    rewrite (tie_observe fl' w' HI'), (IH fl' w' HI'), Hr. reflexivity.
Qed.

Lemma Inv_init sz : 1 <= sz -> Inv (fl_init sz) (repeat 0 (Z.to_nat sz)).
Proof.
  intros H. unfold Inv, fl_init, fl_wf.
  cbn [FrameLoop_size FrameLoop_currentIndex FrameLoop_frames FrameLoop_orderedFrames
       FrameLoop_bufferFull FrameLoop_oldest].
  rewrite map_length, seq_length, !repeat_length.
  repeat split; try lia.
Qed.

Theorem tie_ring_run : forall sz ops,
    1 <= sz ->
    src_ring_run sz ops = model_trace4 (new_ring sz 0) ops.
Proof.
  intros sz ops H. unfold src_ring_run.
  rewrite (tie_ring_trace ops _ _ (Inv_init sz H)). reflexivity.
Qed.
