(* C18: thermal-writer stores every frame once, in order, in well-formed CPTR files. *)
From Coq Require Import List ZArith Bool Arith Lia Permutation.
From TR Require Import model.Writer.
Import ListNotations.
Open Scope Z_scope.

(* ---- byte format ---- *)
Definition field_ok (f : field) : Prop := (length (f_data f) <= 255)%nat.

Lemma take_n_app : forall a b, take_n (length a) (a ++ b) = Some (a, b).
Proof.
  induction a as [|x a IH]; intros b; [reflexivity|].
  cbn [length app take_n]. rewrite IH. reflexivity.
Qed.

Lemma parse_fields_enc : forall fs rest,
    parse_fields (length fs) (enc_fields fs ++ rest) = Some (fs, rest).
Proof.
  induction fs as [|f fs IH]; intros rest; [reflexivity|].
  unfold enc_fields in *. cbn [flat_map length].
  unfold enc_field at 1. rewrite <- app_assoc. cbn [app parse_fields].
  rewrite Nat2Z.id, take_n_app, IH.
  destruct f; reflexivity.
Qed.

Lemma le_value_le_bytes : forall n v,
    le_value (le_bytes n v) = v mod 256 ^ Z.of_nat n.
Proof.
  induction n as [|n IH]; intros v.
  - cbn [le_bytes le_value]. change (256 ^ Z.of_nat 0) with 1. now rewrite Z.mod_1_r.
  - cbn [le_bytes le_value]. rewrite IH, Nat2Z.inj_succ, Z.pow_succ_r by lia.
    rewrite Z.rem_mul_r; [reflexivity|lia|]. apply Z.pow_pos_nonneg; lia.
Qed.

Lemma le_value_le_bytes4 : forall v, 0 <= v < 2 ^ 32 -> le_value (le_bytes 4 v) = v.
Proof.
  intros v Hv. rewrite le_value_le_bytes. change (256 ^ Z.of_nat 4) with (2 ^ 32).
  now apply Z.mod_small.
Qed.

Lemma enc_frame_length : forall d, length (enc_frame d) = (8 + length d)%nat.
Proof. intros d. reflexivity. Qed.

Lemma parse_frames_enc : forall frames fuel,
    Forall (fun fr => Z.of_nat (length fr) < 2 ^ 32) frames ->
    (length (flat_map enc_frame frames) <= fuel)%nat ->
    parse_frames fuel (flat_map enc_frame frames) = Some frames.
Proof.
  induction frames as [|d frames IH]; intros fuel HF Hfuel.
  - destruct fuel; reflexivity.
  - inversion HF as [|? ? Hd HF']; subst.
    cbn [flat_map] in *. rewrite app_length, enc_frame_length in Hfuel.
    destruct fuel as [|k]; [lia|].
    unfold enc_frame at 1.
    set (fld := mkField CODE_FRAMESIZE (le_bytes 4 (Z.of_nat (length d)))).
    change (([SEC_FRAME; 1] ++ enc_field fld ++ d) ++ flat_map enc_frame frames)
      with (SEC_FRAME :: 1 :: (enc_field fld ++ d) ++ flat_map enc_frame frames).
    replace ((enc_field fld ++ d) ++ flat_map enc_frame frames)
      with (enc_fields [fld] ++ (d ++ flat_map enc_frame frames)).
    2:{ unfold enc_fields. cbn [flat_map]. now rewrite app_nil_r, app_assoc. }
    cbn [parse_frames]. change (SEC_FRAME =? SEC_FRAME) with true. cbn [negb].
    change (Z.to_nat 1) with (length [fld]). rewrite parse_fields_enc.
    change (find_field CODE_FRAMESIZE [fld]) with (Some (le_bytes 4 (Z.of_nat (length d)))).
    cbv iota beta.
    rewrite le_value_le_bytes4 by lia. rewrite Nat2Z.id, take_n_app, IH; auto. lia.
Qed.

(* well-formed CPTR files parse back to exactly their header fields and frames, byte for
   byte, for all frame sizes below 2^32 (frame contents arbitrary) *)
Theorem parse_roundtrip : forall hdr frames,
    (length hdr <= 255)%nat -> Forall field_ok hdr ->
    Forall (fun fr => Z.of_nat (length fr) < 2 ^ 32) frames ->
    parse_file (enc_file hdr frames) = Some (hdr, frames).
Proof.
  intros hdr frames Hlen _ HF.
  unfold enc_file, enc_header, CPTR_MAGIC. cbn [app].
  unfold parse_file.
  change (negb _) with false. cbv iota.
  rewrite Z.mod_small by lia. rewrite Nat2Z.id, parse_fields_enc.
  rewrite parse_frames_enc; auto.
Qed.

(* ---- transition system ---- *)
Definition hand_list (h : option (buf * bool)) : list buf :=
  match h with Some (b, _) => [b] | None => [] end.

(* frames that have been read from the socket but not yet written: in the writer's hand
   (not yet written), in the queue, in the reader's hand (filled) *)
Definition whand_pending (s : wstate) : list bytes :=
  match ws_whand s with Some (b, false) => [ws_contents s b] | _ => [] end.
Definition rhand_pending (s : wstate) : list bytes :=
  match ws_rhand s with Some (b, true) => [ws_contents s b] | _ => [] end.

Definition reach (nbuf : nat) (input : list bytes) (sched : list wlabel) : wstate :=
  wrun nbuf (ws_init nbuf input) sched.

(* ---- invariant ---- *)
Record Inv (nbuf : nat) (input : list bytes) (s : wstate) : Prop := mkInv {
  inv_perm : Permutation (ws_spent s ++ hand_list (ws_rhand s) ++ ws_queue s ++ hand_list (ws_whand s)) (seq 0 nbuf);
  inv_open : ws_closed s = false ->
    written s ++ whand_pending s ++ map (ws_contents s) (ws_queue s) ++ rhand_pending s ++ ws_input s = input;
  inv_closed : ws_closed s = true ->
    written s ++ whand_pending s ++ map (ws_contents s) (ws_queue s) = input /\
    ws_input s = [] /\ exists b, ws_rhand s = Some (b, false);
  inv_done : ws_done s = true ->
    ws_closed s = true /\ ws_queue s = [] /\ ws_whand s = None /\ ws_cur s = []
}.

Lemma inv_init : forall nbuf input, Inv nbuf input (ws_init nbuf input).
Proof.
  intros nbuf input. split; unfold ws_init, written, whand_pending, rhand_pending; cbn.
  - now rewrite app_nil_r.
  - reflexivity.
  - discriminate.
  - discriminate.
Qed.

Lemma map_set_contents_notin : forall c b v q,
    ~ In b q -> map (set_contents c b v) q = map c q.
Proof.
  intros c b v q Hn. apply map_ext_in. intros x Hx. unfold set_contents.
  destruct (Nat.eqb_spec x b); [subst; contradiction|reflexivity].
Qed.

(* the buffer in the reader's hand is nowhere else *)
Lemma rhand_fresh : forall nbuf sp b fl q wh,
    Permutation (sp ++ hand_list (Some (b, fl)) ++ q ++ hand_list wh) (seq 0 nbuf) ->
    ~ In b q /\ ~ In b (hand_list wh).
Proof.
  intros nbuf sp b fl q wh HP.
  assert (ND : NoDup (sp ++ b :: q ++ hand_list wh)).
  { apply (Permutation_NoDup (Permutation_sym HP)), seq_NoDup. }
  apply NoDup_remove_2 in ND.
  split; intros Hin; apply ND; rewrite !in_app_iff; auto.
Qed.

Lemma concat_snoc : forall (A : Type) (l : list (list A)) x, concat (l ++ [x]) = concat l ++ x.
Proof. intros. rewrite concat_app. cbn. now rewrite app_nil_r. Qed.

Lemma inv_step : forall nbuf input s l s',
    Inv nbuf input s -> wstep nbuf s l = Some s' -> Inv nbuf input s'.
Proof.
  intros nbuf input s l s' [HP HO HC HD] Hstep.
  destruct s as [inp sp q rh wh cl dn ct fl cu].
  unfold written, whand_pending, rhand_pending in *.
  cbn [ws_input ws_spent ws_queue ws_rhand ws_whand ws_closed ws_done ws_contents ws_files ws_cur] in *.
  destruct l; unfold wstep in Hstep;
  cbn [ws_input ws_spent ws_queue ws_rhand ws_whand ws_closed ws_done ws_contents ws_files ws_cur] in Hstep.
  - (* RTake *)
    destruct rh as [[? ?]|]; [discriminate|]. destruct sp as [|b r]; [discriminate|].
    destruct cl; [discriminate|]. injection Hstep as <-.
    split; unfold written, whand_pending, rhand_pending;
    cbn [ws_input ws_spent ws_queue ws_rhand ws_whand ws_closed ws_done ws_contents ws_files ws_cur hand_list app] in *.
    + rewrite <- HP. apply Permutation_sym, Permutation_middle.
    + auto.
    + discriminate.
    + auto.
  - (* RFill *)
    destruct rh as [[b [|]]|]; try discriminate. destruct inp as [|f r]; [discriminate|].
    injection Hstep as <-.
    destruct (rhand_fresh _ _ _ _ _ _ HP) as [Hq Hw].
    split; unfold written, whand_pending, rhand_pending;
    cbn [ws_input ws_spent ws_queue ws_rhand ws_whand ws_closed ws_done ws_contents ws_files ws_cur hand_list app] in *.
    + exact HP.
    + intros Hcl. rewrite map_set_contents_notin by assumption.
      rewrite <- (HO Hcl).
      replace (set_contents ct b f b) with f by (unfold set_contents; now rewrite Nat.eqb_refl).
      destruct wh as [[b' [|]]|]; cbn [hand_list] in *; try reflexivity.
      replace (set_contents ct b f b') with (ct b'); [reflexivity|].
      unfold set_contents. destruct (Nat.eqb_spec b' b); [subst; exfalso; apply Hw; now left|reflexivity].
    + intros Hcl. destruct (HC Hcl) as (_ & Hi & _). discriminate.
    + auto.
  - (* REof *)
    destruct rh as [[b [|]]|]; try discriminate. destruct inp as [|f r]; [|discriminate].
    destruct cl; [discriminate|]. injection Hstep as <-.
    destruct (rhand_fresh _ _ _ _ _ _ HP) as [Hq Hw].
    split; unfold written, whand_pending, rhand_pending;
    cbn [ws_input ws_spent ws_queue ws_rhand ws_whand ws_closed ws_done ws_contents ws_files ws_cur hand_list app] in *.
    + exact HP.
    + discriminate.
    + intros _. split; [|split; [reflexivity|eauto]].
      rewrite map_set_contents_notin by assumption.
      rewrite <- (HO eq_refl), !app_nil_r.
      destruct wh as [[b' [|]]|]; cbn [hand_list] in *; try reflexivity.
      replace (set_contents ct b [] b') with (ct b'); [reflexivity|].
      unfold set_contents. destruct (Nat.eqb_spec b' b); [subst; exfalso; apply Hw; now left|reflexivity].
    + intros Hd. destruct (HD Hd) as [? _]. discriminate.
  - (* RSend *)
    destruct rh as [[b [|]]|]; try discriminate.
    destruct (Nat.ltb (length q) nbuf); [|discriminate]. injection Hstep as <-.
    split; unfold written, whand_pending, rhand_pending;
    cbn [ws_input ws_spent ws_queue ws_rhand ws_whand ws_closed ws_done ws_contents ws_files ws_cur hand_list app] in *.
    + rewrite <- HP. apply Permutation_app_head. rewrite <- app_assoc.
      apply Permutation_sym, (Permutation_middle q (hand_list wh) b).
    + intros Hcl. rewrite <- (HO Hcl), map_app, <- !app_assoc. reflexivity.
    + intros Hcl. destruct (HC Hcl) as (_ & _ & b' & Hb'). discriminate.
    + intros Hd. destruct (HD Hd) as (Hcl & _). destruct (HC Hcl) as (_ & _ & b' & Hb'). discriminate.
  - (* WRecv *)
    destruct wh as [[? ?]|]; [discriminate|]. destruct q as [|b r]; [discriminate|].
    destruct dn; [discriminate|]. injection Hstep as <-.
    split; unfold written, whand_pending, rhand_pending;
    cbn [ws_input ws_spent ws_queue ws_rhand ws_whand ws_closed ws_done ws_contents ws_files ws_cur hand_list app map] in *.
    + rewrite <- HP. rewrite app_nil_r.
      apply Permutation_app_head, Permutation_app_head.
      change (b :: r) with ([b] ++ r). apply Permutation_app_comm.
    + exact HO.
    + exact HC.
    + discriminate.
  - (* WWrite *)
    destruct wh as [[b [|]]|]; try discriminate. injection Hstep as <-.
    split; unfold written, whand_pending, rhand_pending;
    cbn [ws_input ws_spent ws_queue ws_rhand ws_whand ws_closed ws_done ws_contents ws_files ws_cur hand_list app map] in *.
    + exact HP.
    + intros Hcl. rewrite <- (HO Hcl), <- !app_assoc. reflexivity.
    + intros Hcl. destruct (HC Hcl) as (H1 & H2 & H3). split; [|auto].
      rewrite <- H1, <- !app_assoc. reflexivity.
    + intros Hd. destruct (HD Hd) as (_ & _ & ? & _). discriminate.
  - (* WReturn *)
    destruct wh as [[b [|]]|]; try discriminate.
    destruct (Nat.ltb (length sp) nbuf); [|discriminate]. injection Hstep as <-.
    split; unfold written, whand_pending, rhand_pending;
    cbn [ws_input ws_spent ws_queue ws_rhand ws_whand ws_closed ws_done ws_contents ws_files ws_cur hand_list app map] in *.
    + rewrite <- HP. rewrite app_nil_r, <- app_assoc.
      apply Permutation_app_head.
      rewrite (app_assoc (hand_list rh) q [b]). apply Permutation_app_comm.
    + exact HO.
    + exact HC.
    + intros Hd. destruct (HD Hd) as (_ & _ & ? & _). discriminate.
  - (* WRotate *)
    destruct wh as [[? ?]|]; [discriminate|]. destruct dn; [discriminate|]. injection Hstep as <-.
    split; unfold written, whand_pending, rhand_pending;
    cbn [ws_input ws_spent ws_queue ws_rhand ws_whand ws_closed ws_done ws_contents ws_files ws_cur hand_list app map] in *.
    + exact HP.
    + intros Hcl. rewrite concat_snoc, app_nil_r. auto.
    + intros Hcl. rewrite concat_snoc, app_nil_r. auto.
    + discriminate.
  - (* WFinish *)
    destruct wh as [[? ?]|]; [discriminate|]. destruct q as [|? ?]; [|discriminate].
    destruct cl; [|discriminate]. destruct dn; [discriminate|]. injection Hstep as <-.
    split; unfold written, whand_pending, rhand_pending;
    cbn [ws_input ws_spent ws_queue ws_rhand ws_whand ws_closed ws_done ws_contents ws_files ws_cur hand_list app map] in *.
    + exact HP.
    + discriminate.
    + intros Hcl. rewrite concat_snoc, app_nil_r. auto.
    + auto.
Qed.

Lemma inv_run : forall nbuf input sched s,
    Inv nbuf input s -> Inv nbuf input (wrun nbuf s sched).
Proof.
  induction sched as [|l r IH]; intros s HI; cbn [wrun]; [exact HI|].
  destruct (wstep nbuf s l) as [s'|] eqn:E; [|auto].
  apply IH. eapply inv_step; eauto.
Qed.

Lemma inv_reach : forall nbuf input sched, Inv nbuf input (reach nbuf input sched).
Proof. intros. apply inv_run, inv_init. Qed.

Lemma inv_count : forall nbuf input s, Inv nbuf input s ->
    (length (ws_spent s) + (length (hand_list (ws_rhand s)) + (length (ws_queue s) + length (hand_list (ws_whand s)))) = nbuf)%nat.
Proof.
  intros nbuf input s HI. pose proof (Permutation_length (inv_perm _ _ _ HI)) as HL.
  rewrite !app_length, seq_length in HL. exact HL.
Qed.

(* ownership: in every reachable state (every schedule = every interleaving of reader and
   writer, every lag) each of the nbuf buffers is in exactly one of {spent channel, reader's
   hand, write queue, writer's hand}; in particular a recycled buffer never aliases a frame
   still waiting to be written, and at most nbuf frames are in flight *)
Theorem ownership : forall nbuf input sched,
    let s := reach nbuf input sched in
    Permutation (ws_spent s ++ hand_list (ws_rhand s) ++ ws_queue s ++ hand_list (ws_whand s)) (seq 0 nbuf) /\
    (length (ws_queue s) <= nbuf)%nat.
Proof.
  intros nbuf input sched s. pose proof (inv_reach nbuf input sched) as HI. fold s in HI.
  split; [apply (inv_perm _ _ _ HI)|]. pose proof (inv_count _ _ _ HI). lia.
Qed.

(* conservation: what has reached the files, followed by what is in flight (in order),
   followed by what has not arrived yet, is exactly the input - every frame exactly once, in
   arrival order, byte for byte, at every moment *)
Theorem conservation : forall nbuf input sched,
    let s := reach nbuf input sched in
    ws_closed s = false ->
    written s ++ whand_pending s ++ map (ws_contents s) (ws_queue s) ++ rhand_pending s ++ ws_input s = input.
Proof. intros nbuf input sched s. apply (inv_open _ _ _ (inv_reach nbuf input sched)). Qed.

(* after the connection ended (reader saw EOF) nothing is lost either: the frames not yet
   written are still queued *)
Theorem conservation_closed : forall nbuf input sched,
    let s := reach nbuf input sched in
    ws_closed s = true ->
    written s ++ whand_pending s ++ map (ws_contents s) (ws_queue s) = input.
Proof.
  intros nbuf input sched s Hcl.
  apply (inv_closed _ _ _ (inv_reach nbuf input sched) Hcl).
Qed.

Lemma inv_quiescent : forall nbuf input s,
    (1 <= nbuf)%nat -> Inv nbuf input s -> quiescent nbuf s = true ->
    ws_done s = true /\ concat (ws_files s) = input /\ ws_cur s = [].
Proof.
  intros nbuf input s Hn HI HQ.
  pose proof (inv_count _ _ _ HI) as HL.
  destruct HI as [HP HO HC HD].
  unfold quiescent, all_labels in HQ. cbn [forallb] in HQ.
  rewrite !andb_true_iff in HQ.
  destruct HQ as (QTake & QFill & QEof & QSend & QRecv & QWrite & QReturn & _ & QFinish & _).
  destruct s as [inp sp q rh wh cl dn ct fl cu].
  unfold written, whand_pending, rhand_pending, wstep in *.
  cbn [ws_input ws_spent ws_queue ws_rhand ws_whand ws_closed ws_done ws_contents ws_files ws_cur] in *.
  (* the writer's hand is empty *)
  destruct wh as [[b [|]]|]; cbn [hand_list length] in HL.
  { destruct (Nat.ltb_spec (length sp) nbuf); [discriminate|lia]. }
  { discriminate. }
  destruct dn.
  - destruct (HD eq_refl) as (Hcl & Hq & _ & Hcu). subst.
    destruct (HC eq_refl) as (HW & _). cbn [map] in HW. rewrite !app_nil_r in HW. auto.
  - exfalso.
    destruct q as [|b q]; [|discriminate].
    destruct cl; [discriminate|].
    destruct rh as [[b [|]]|]; cbn [hand_list length] in HL.
    + destruct (Nat.ltb_spec (@length buf []) nbuf); [discriminate|]. cbn [length] in *. lia.
    + destruct inp; discriminate.
    + destruct sp; [cbn [length] in HL; lia|discriminate].
Qed.

(* flush: every maximal run ends with all frames in the files and the last file closed:
   a reachable state in which no step (other than a file rotation) is enabled has everything
   written and the writer finished; the final contents do not depend on the schedule *)
Theorem flush : forall nbuf input sched,
    (1 <= nbuf)%nat ->
    let s := reach nbuf input sched in
    quiescent nbuf s = true ->
    ws_done s = true /\ concat (ws_files s) = input /\ ws_cur s = [].
Proof.
  intros nbuf input sched Hn s HQ.
  exact (inv_quiescent nbuf input s Hn (inv_reach nbuf input sched) HQ).
Qed.

(* non-vacuity: 2 buffers, 5 frames, a schedule in which the writer lags *)
Example writer_ex :
  let s := reach 2 [[1]; [2]; [3]; [4]; [5]]
             [RTake; RFill; RSend; RTake; RFill; RSend; RTake; WRecv; WWrite; WRotate; WReturn; RTake; RFill; RSend;
              WRecv; WWrite; WReturn; RTake; RFill; RSend; WRecv; WWrite; WReturn; WRotate; RTake; RFill; RSend;
              WRecv; WWrite; WReturn; WRecv; WWrite; WReturn; RTake; REof; WFinish] in
  quiescent 2 s = true /\ ws_files s = [[[1]; [2]; [3]]; [[4]; [5]]].
Proof. vm_compute. auto. Qed.
