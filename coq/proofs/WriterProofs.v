(* C18: thermal-writer stores every frame once, in order, in well-formed CPTR files. *)
From Coq Require Import List ZArith Bool Arith Lia Permutation.
From TR Require Import model.Writer.
Import ListNotations.
Open Scope Z_scope.

(* ---- byte format ---- *)
Definition field_ok (f : field) : Prop := (length (f_data f) <= 255)%nat.

(* well-formed CPTR files parse back to exactly their header fields and frames, byte for
   byte, for all frame sizes below 2^32 (frame contents arbitrary) *)
Theorem parse_roundtrip : forall hdr frames,
    (length hdr <= 255)%nat -> Forall field_ok hdr ->
    Forall (fun fr => Z.of_nat (length fr) < 2 ^ 32) frames ->
    parse_file (enc_file hdr frames) = Some (hdr, frames).
Admitted.

(* ---- transition system ---- *)
Definition hand_list (h : option (buf * bool)) : list buf :=
  match h with Some (b, _) => [b] | None => [] end.

(* frames that have been read from the socket but not yet written: in the writer's hand
   (not yet written), in the queue, in the reader's hand (filled) *)
Definition whand_pending (s : wstate) : list bytes :=
  match ws_whand s with Some (b, false) => [ws_contents s b] | _ => [] end.
Definition rhand_pending (s : wstate) : list bytes :=
  match ws_rhand s with Some (b, true) => [ws_contents s b] | _ => [] end.

Definition reach (nbuf : nat) (input : list bytes) (sched : list wlabel) : wstate :=
  wrun nbuf (ws_init nbuf input) sched.

(* ownership: in every reachable state (every schedule = every interleaving of reader and
   writer, every lag) each of the nbuf buffers is in exactly one of {spent channel, reader's
   hand, write queue, writer's hand}; in particular a recycled buffer never aliases a frame
   still waiting to be written, and at most nbuf frames are in flight *)
Theorem ownership : forall nbuf input sched,
    let s := reach nbuf input sched in
    Permutation (ws_spent s ++ hand_list (ws_rhand s) ++ ws_queue s ++ hand_list (ws_whand s)) (seq 0 nbuf) /\
    (length (ws_queue s) <= nbuf)%nat.
Admitted.

(* conservation: what has reached the files, followed by what is in flight (in order),
   followed by what has not arrived yet, is exactly the input - every frame exactly once, in
   arrival order, byte for byte, at every moment *)
Theorem conservation : forall nbuf input sched,
    let s := reach nbuf input sched in
    ws_closed s = false ->
    written s ++ whand_pending s ++ map (ws_contents s) (ws_queue s) ++ rhand_pending s ++ ws_input s = input.
Admitted.

(* after the connection ended (reader saw EOF) nothing is lost either: the frames not yet
   written are still queued *)
Theorem conservation_closed : forall nbuf input sched,
    let s := reach nbuf input sched in
    ws_closed s = true ->
    written s ++ whand_pending s ++ map (ws_contents s) (ws_queue s) = input.
Admitted.

(* flush: every maximal run ends with all frames in the files and the last file closed:
   a reachable state in which no step (other than a file rotation) is enabled has everything
   written and the writer finished; the final contents do not depend on the schedule *)
Theorem flush : forall nbuf input sched,
    (1 <= nbuf)%nat ->
    let s := reach nbuf input sched in
    quiescent nbuf s = true ->
    ws_done s = true /\ concat (ws_files s) = input /\ ws_cur s = [].
Admitted.

(* non-vacuity: 2 buffers, 5 frames, a schedule in which the writer lags *)
Example writer_ex :
  let s := reach 2 [[1]; [2]; [3]; [4]; [5]]
             [RTake; RFill; RSend; RTake; RFill; RSend; RTake; WRecv; WWrite; WRotate; WReturn; RTake; RFill; RSend;
              WRecv; WWrite; WReturn; RTake; RFill; RSend; WRecv; WWrite; WReturn; WRotate; RTake; RFill; RSend;
              WRecv; WWrite; WReturn; WRecv; WWrite; WReturn; RTake; REof; WFinish] in
  quiescent 2 s = true /\ ws_files s = [[[1]; [2]; [3]]; [[4]; [5]]].
Proof. vm_compute. auto. Qed.
