(* The concrete motion machine (ring buffer with frameloop.go's index arithmetic) produces
   exactly the outputs of the abstract machine of model/ProcAbs.v, for every well-formed
   event list, every configuration with capacity >= 1 and every fault script; and the
   processor's per-event output is the concatenation of the three machines' outputs. *)
From Coq Require Import List ZArith Bool Arith Lia.
From TR Require Import model.Ring model.RingSpec model.Processor model.ProcAbs model.ProcSpec proofs.RingProofs.
Import ListNotations.
Open Scope Z_scope.

(* simulation relation: same control state; the ring refines
   (committed = ids 0..n-1, since_mark = n - mark) *)
Definition Sim (c : pcfg) (m : mstate) (a : astate) : Prop :=
  m_rec m = a_rec a /\ m_fw m = a_fw a /\ m_wu m = a_wu a /\ m_trig m = a_trig a /\
  m_faults m = a_faults a /\
  0 <= a_mark a <= a_n a /\
  RInv Z 0 (p_size c) (m_ring m) (mkGhost (zseq 0 (Z.to_nat (a_n a))) (Z.to_nat (a_n a - a_mark a))).

Theorem Sim_init : forall c fm, 1 <= p_size c -> Sim c (minit c fm) (ainit fm).
Admitted.

(* one step: for the event that carries the next id (or a bad frame / reset / request) *)
Theorem Sim_step : forall c m a e,
    Sim c m a ->
    match e with EFrame id _ _ => id = a_n a | _ => True end ->
    snd (mstep c m e) = snd (astep c a e) /\ Sim c (fst (mstep c m e)) (fst (astep c a e)).
Admitted.

Theorem an_step : forall c a e,
    a_n (fst (astep c a e)) = match e with EFrame id _ _ => id + 1 | _ => a_n a end.
Admitted.

Theorem mrun_arun_gen : forall c evs m a,
    Sim c m a -> wf_ids (a_n a) evs -> mrun c m evs = arun c a evs.
Admitted.

Theorem mrun_arun : forall c fm evs,
    1 <= p_size c -> wf_ids 0 evs ->
    mrun c (minit c fm) evs = arun c (ainit fm) evs.
Admitted.

(* the processor is the per-event concatenation of its three machines *)
Theorem prun_zip3 : forall c evs m cs t,
    prun c (mkP m cs t) evs = zip3 (mrun c m evs) (crun c cs evs) (trun t evs).
Admitted.

Theorem run_lengths : forall c evs m cs t,
    length (mrun c m evs) = length evs /\ length (crun c cs evs) = length evs /\
    length (trun t evs) = length evs.
Admitted.

Theorem arun_length : forall c evs a, length (arun c a evs) = length evs.
Admitted.

(* each machine only produces outputs of its own kind *)
Theorem astep_outs_motion : forall c a e, forallb is_motion_out (snd (astep c a e)) = true.
Admitted.
Theorem cstep_outs_const : forall c s e, forallb is_const_out (snd (cstep c s e)) = true.
Admitted.
Theorem tstep_outs_test : forall s e, forallb is_test_out (snd (tstep s e)) = true.
Admitted.

(* the abstract machine never panics (hence, by mrun_arun, neither does the concrete one:
   GetHistory's slice expression is always in range) *)
Theorem astep_no_panic : forall c a e,
    forallb (fun x => match x with Panic => false | _ => true end) (snd (astep c a e)) = true.
Admitted.
