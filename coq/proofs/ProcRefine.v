(* The concrete motion machine (ring buffer with frameloop.go's index arithmetic) produces
   exactly the outputs of the abstract machine of model/ProcAbs.v, for every well-formed
   event list, every configuration with capacity >= 1 and every fault script; and the
   processor's per-event output is the concatenation of the three machines' outputs. *)
From Coq Require Import List ZArith Bool Arith Lia ZifyBool ZifyNat.
From TR Require Import model.Ring model.RingSpec model.Processor model.ProcAbs model.ProcSpec proofs.RingProofs.
Import ListNotations.
Open Scope Z_scope.

(* ---------- id sequences and the history they give ---------- *)
Lemma zseq_length : forall k lo, length (zseq lo k) = k.
Proof. induction k as [|k IH]; intros lo; cbn [zseq length]; [reflexivity|]. rewrite IH. reflexivity. Qed.

Lemma zseq_snoc : forall k lo, zseq lo k ++ [lo + Z.of_nat k] = zseq lo (S k).
Proof.
  induction k as [|k IH]; intros lo.
  - cbn [zseq app]. f_equal. lia.
  - change (zseq lo (S (S k))) with (lo :: zseq (lo + 1) (S k)).
    change (zseq lo (S k)) with (lo :: zseq (lo + 1) k).
    cbn [app]. f_equal.
    replace (lo + Z.of_nat (S k)) with ((lo + 1) + Z.of_nat k) by lia.
    apply IH.
Qed.

Lemma zseq_skipn : forall j k lo, skipn j (zseq lo k) = zseq (lo + Z.of_nat j) (k - j).
Proof.
  induction j as [|j IH]; intros k lo.
  - cbn [skipn]. rewrite Nat.sub_0_r. f_equal. lia.
  - destruct k as [|k]; [reflexivity|].
    change (zseq lo (S k)) with (lo :: zseq (lo + 1) k).
    cbn [skipn]. rewrite IH. f_equal; lia.
Qed.

Lemma hist_eq : forall c n mark, 1 <= p_size c -> 0 <= mark <= n ->
  spec_history (Z.to_nat (p_size c)) (mkGhost (zseq 0 (Z.to_nat n)) (Z.to_nat (n - mark))) n
  = ahistory c mark n.
Proof.
  intros c n mark Hsz Hm. unfold spec_history, lastn, ahistory.
  cbn [committed since_mark]. cbv zeta.
  assert (E : zseq 0 (Z.to_nat n) ++ [n] = zseq 0 (S (Z.to_nat n))).
  { rewrite <- zseq_snoc. f_equal. f_equal. lia. }
  rewrite E, zseq_length, zseq_skipn. f_equal; lia.
Qed.

(* ---------- the concrete machine computes the abstract one ---------- *)

(* the abstract state carried by a concrete control state, given the two counters *)
Definition abs (n mark : Z) (m : mstate) : astate :=
  mkA n mark (m_rec m) (m_fw m) (m_wu m) (m_trig m) (m_faults m).

Ltac proj :=
  cbn [m_ring m_rec m_fw m_wu m_trig m_faults a_n a_mark a_rec a_fw a_wu a_trig a_faults
       fst snd negb andb abs].

Ltac step :=
  match goal with
  | |- context [pop ?f] => is_var f; destruct (pop f) as [? ?]
  | |- context [write_pre ?h ?f] => is_var f; destruct (write_pre h f) as [[? ?] ?]
  | |- context [if ?b then _ else _] => is_var b; destruct b
  | |- context [if negb ?b then _ else _] => is_var b; destruct b
  | |- context [if ?x >=? ?y then _ else _] => destruct (x >=? y)
  | |- context [if ?x <? ?y then _ else _] => destruct (x <? y)
  end; proj.

Lemma stop_abs : forall n mark m,
  exists stopped : bool,
    m_ring (fst (stop_recording m)) =
      (if stopped then set_as_oldest (m_ring m) else m_ring m) /\
    astop (abs n mark m) =
      (abs n (if stopped then n else mark) (fst (stop_recording m)), snd (stop_recording m)).
Proof.
  intros n mark [r rc fw wu tg f]. unfold stop_recording, astop. proj.
  repeat step; first [exists true; split; reflexivity | exists false; split; reflexivity].
Qed.

Lemma mprocess_abs : forall c m n mark id motion win,
  get_history (m_ring m) = Some (ahistory c mark id) ->
  exists stopped : bool,
    m_ring (fst (mprocess c m id motion win)) =
      (if stopped then set_as_oldest (move (m_ring m)) else move (m_ring m)) /\
    aprocess c (abs n mark m) id motion win =
      (abs (id + 1) (if stopped then id + 1 else mark) (fst (mprocess c m id motion win)),
       snd (mprocess c m id motion win)).
Proof.
  intros c [r rc fw wu tg f] n mark id motion win Hh.
  cbn [m_ring] in Hh.
  unfold mprocess, aprocess, stop_recording, astop. proj. rewrite Hh.
  repeat step; first [exists true; split; reflexivity | exists false; split; reflexivity].
Qed.

(* simulation relation: same control state; the ring refines
   (committed = ids 0..n-1, since_mark = n - mark) *)
Definition Sim (c : pcfg) (m : mstate) (a : astate) : Prop :=
  m_rec m = a_rec a /\ m_fw m = a_fw a /\ m_wu m = a_wu a /\ m_trig m = a_trig a /\
  m_faults m = a_faults a /\
  0 <= a_mark a <= a_n a /\
  RInv Z 0 (p_size c) (m_ring m) (mkGhost (zseq 0 (Z.to_nat (a_n a))) (Z.to_nat (a_n a - a_mark a))).

Lemma Sim_abs_eq : forall c m a, Sim c m a -> a = abs (a_n a) (a_mark a) m.
Proof.
  intros c m [n mk rc fw wu tg f] H. unfold Sim in H. unfold abs.
  cbn [a_n a_mark a_rec a_fw a_wu a_trig a_faults] in *.
  destruct H as (<- & <- & <- & <- & <- & _). reflexivity.
Qed.

Lemma Sim_of_abs : forall c n mark m,
  0 <= mark <= n ->
  RInv Z 0 (p_size c) (m_ring m) (mkGhost (zseq 0 (Z.to_nat n)) (Z.to_nat (n - mark))) ->
  Sim c m (abs n mark m).
Proof.
  intros c n mark m Hm HR. unfold Sim, abs. proj. repeat (split; [reflexivity|]).
  split; [exact Hm|exact HR].
Qed.

(* ghost steps on the (ids 0..n-1, n - mark) ghost *)
Lemma RInv_put : forall sz r g v, RInv Z 0 sz r g -> RInv Z 0 sz (put r v) g.
Proof. intros sz r g v H. exact (RInv_step Z 0 sz r g (OPut v) H). Qed.

Lemma RInv_move_id : forall sz r n mark,
  0 <= mark <= n -> current 0 r = n ->
  RInv Z 0 sz r (mkGhost (zseq 0 (Z.to_nat n)) (Z.to_nat (n - mark))) ->
  RInv Z 0 sz (move r) (mkGhost (zseq 0 (Z.to_nat (n + 1))) (Z.to_nat (n + 1 - mark))).
Proof.
  intros sz r n mark Hm Hc H.
  pose proof (RInv_step Z 0 sz r _ OMove H) as H'.
  cbn [rstep gstep committed since_mark] in H'. rewrite Hc in H'.
  replace (zseq 0 (Z.to_nat (n + 1))) with (zseq 0 (Z.to_nat n) ++ [n]).
  2:{ replace (Z.to_nat (n + 1)) with (S (Z.to_nat n)) by lia.
      rewrite <- zseq_snoc. f_equal. f_equal. lia. }
  replace (Z.to_nat (n + 1 - mark)) with (S (Z.to_nat (n - mark))) by lia.
  exact H'.
Qed.

Lemma RInv_mark : forall sz r l k n,
  RInv Z 0 sz r (mkGhost l k) ->
  RInv Z 0 sz (set_as_oldest r) (mkGhost l (Z.to_nat (n - n))).
Proof.
  intros sz r l k n H.
  pose proof (RInv_step Z 0 sz r _ OMark H) as H'.
  cbn [rstep gstep committed since_mark] in H'.
  replace (Z.to_nat (n - n)) with 0%nat by lia. exact H'.
Qed.

Theorem Sim_init : forall c fm, 1 <= p_size c -> Sim c (minit c fm) (ainit fm).
Proof.
  intros c fm Hsz. unfold Sim, minit, ainit. proj.
  repeat (split; [reflexivity|]). split; [lia|].
  change (Z.to_nat 0) with 0%nat. change (Z.to_nat (0 - 0)) with 0%nat.
  cbn [zseq]. apply (RInv_init Z 0 (p_size c) 0 Hsz).
Qed.

Lemma Sim_stop : forall c m a,
  Sim c m a ->
  snd (stop_recording m) = snd (astop a) /\ Sim c (fst (stop_recording m)) (fst (astop a)).
Proof.
  intros c m a HS. pose proof HS as (_ & _ & _ & _ & _ & Hm & HR).
  rewrite (Sim_abs_eq c m a HS).
  set (n := a_n a) in *. set (mark := a_mark a) in *.
  destruct (stop_abs n mark m) as (stopped & Hring & Heq).
  rewrite Heq. cbn [fst snd]. split; [reflexivity|].
  apply Sim_of_abs.
  - destruct stopped; lia.
  - rewrite Hring. destruct stopped; [|exact HR].
    apply RInv_mark with (k := Z.to_nat (n - mark)). exact HR.
Qed.

(* one step: for the event that carries the next id (or a bad frame / reset / request) *)
Theorem Sim_step : forall c m a e,
    Sim c m a ->
    match e with EFrame id _ _ => id = a_n a | _ => True end ->
    snd (mstep c m e) = snd (astep c a e) /\ Sim c (fst (mstep c m e)) (fst (astep c a e)).
Proof.
  intros c m a e HS He. destruct e as [id motion win | | |].
  - (* frame *)
    pose proof HS as (_ & _ & _ & _ & _ & Hm & HR).
    pose proof HR as (_ & Hsz & _).
    pose proof (Sim_abs_eq c m a HS) as Ea.
    set (n := a_n a) in *. set (mark := a_mark a) in *.
    clearbody n mark. clear HS. subst a id.
    cbn [mstep astep].
    set (m0 := mkM (put (m_ring m) n) (m_rec m) (m_fw m) (m_wu m) (m_trig m) (m_faults m)).
    change (abs n mark m) with (abs n mark m0).
    assert (HR0 : RInv Z 0 (p_size c) (m_ring m0)
                    (mkGhost (zseq 0 (Z.to_nat n)) (Z.to_nat (n - mark)))).
    { apply RInv_put. exact HR. }
    assert (Hcur : current 0 (m_ring m0) = n).
    { exact (RInv_put_current Z 0 _ _ _ n HR). }
    assert (Hh : get_history (m_ring m0) = Some (ahistory c mark n)).
    { rewrite (RInv_history Z 0 _ _ _ HR0), Hcur. f_equal. apply hist_eq; assumption. }
    destruct (mprocess_abs c m0 n mark n motion win Hh) as (stopped & Hring & Heq).
    rewrite Heq. cbn [fst snd]. split; [reflexivity|].
    pose proof (RInv_move_id _ _ _ _ Hm Hcur HR0) as HRm.
    apply Sim_of_abs.
    + destruct stopped; lia.
    + rewrite Hring. destruct stopped; [|exact HRm].
      eapply RInv_mark. exact HRm.
  - (* bad frame *)
    cbn [mstep astep]. apply Sim_stop.
    destruct HS as (H1 & H2 & H3 & H4 & H5 & Hm & HR).
    unfold Sim. proj. repeat (split; [assumption|]). apply RInv_put. exact HR.
  - cbn [mstep astep]. apply Sim_stop. exact HS.
  - cbn [mstep astep fst snd]. split; [reflexivity|exact HS].
Qed.

Lemma astop_n : forall s, a_n (fst (astop s)) = a_n s.
Proof.
  intros s. unfold astop. destruct (a_rec s); cbn [negb fst]; [|reflexivity].
  destruct (pop (a_faults s)) as [failed f']. reflexivity.
Qed.

Theorem an_step : forall c a e,
    a_n (fst (astep c a e)) = match e with EFrame id _ _ => id + 1 | _ => a_n a end.
Proof.
  intros c a e. destruct e as [id motion win | | |]; cbn [astep].
  - unfold aprocess.
    match goal with |- context [let '(s1, o1) := ?X in _] => destruct X as [s1 o1] end.
    match goal with |- context [let '(s2, o2) := ?X in _] => destruct X as [s2 o2] end.
    match goal with |- context [if ?b then astop ?s else _] =>
      destruct b; [pose proof (astop_n s) as Hn; destruct (astop s) as [s4 o4]|] end.
    + cbn [fst a_n] in *. exact Hn.
    + reflexivity.
  - apply astop_n.
  - apply astop_n.
  - reflexivity.
Qed.

Theorem mrun_arun_gen : forall c evs m a,
    Sim c m a -> wf_ids (a_n a) evs -> mrun c m evs = arun c a evs.
Proof.
  intros c evs. induction evs as [|e t IH]; intros m a HS Hwf; [reflexivity|].
  cbn [mrun arun].
  assert (He : match e with EFrame id _ _ => id = a_n a | _ => True end).
  { destruct e; cbn [wf_ids] in Hwf; [apply Hwf|exact I|exact I|exact I]. }
  destruct (Sim_step c m a e HS He) as (Ho & HS').
  pose proof (an_step c a e) as Hn.
  destruct (mstep c m e) as [m' o]. destruct (astep c a e) as [a' o'].
  cbn [fst snd] in Ho, HS', Hn. subst o'. f_equal.
  apply IH; [exact HS'|]. rewrite Hn.
  destruct e; cbn [wf_ids] in Hwf; try exact Hwf.
  destruct Hwf as (-> & Hwf). exact Hwf.
Qed.

Theorem mrun_arun : forall c fm evs,
    1 <= p_size c -> wf_ids 0 evs ->
    mrun c (minit c fm) evs = arun c (ainit fm) evs.
Proof.
  intros c fm evs Hsz Hwf. apply mrun_arun_gen; [apply Sim_init; exact Hsz|exact Hwf].
Qed.

(* the processor is the per-event concatenation of its three machines *)
Theorem prun_zip3 : forall c evs m cs t,
    prun c (mkP m cs t) evs = zip3 (mrun c m evs) (crun c cs evs) (trun t evs).
Proof.
  intros c evs. induction evs as [|e evs IH]; intros m cs t; [reflexivity|].
  cbn [prun mrun crun trun]. unfold pstep. cbn [p_m p_c p_t].
  destruct (mstep c m e) as [m' om]. destruct (cstep c cs e) as [c' oc].
  destruct (tstep t e) as [t' ot]. cbn [zip3]. f_equal. apply IH.
Qed.

Theorem run_lengths : forall c evs m cs t,
    length (mrun c m evs) = length evs /\ length (crun c cs evs) = length evs /\
    length (trun t evs) = length evs.
Proof.
  intros c evs. induction evs as [|e evs IH]; intros m cs t; [repeat split; reflexivity|].
  cbn [mrun crun trun].
  destruct (mstep c m e) as [m' om]. destruct (cstep c cs e) as [c' oc].
  destruct (tstep t e) as [t' ot]. cbn [length].
  destruct (IH m' c' t') as (H1 & H2 & H3). rewrite H1, H2, H3. repeat split; reflexivity.
Qed.

Theorem arun_length : forall c evs a, length (arun c a evs) = length evs.
Proof.
  intros c evs. induction evs as [|e evs IH]; intros a; [reflexivity|].
  cbn [arun]. destruct (astep c a e) as [a' o]. cbn [length]. rewrite IH. reflexivity.
Qed.

(* outputs of the abstract machine, for any predicate that accepts the motion machine's
   non-Panic outputs *)
Section Outs.
  Variable P : out -> bool.
  Hypothesis P_call : forall x b, P (Call SMotion x b) = true.
  Hypothesis P_motion : P LMotion = true.
  Hypothesis P_started : P LStarted = true.
  Hypothesis P_ended : P LEnded = true.
  Hypothesis P_win : forall b, P (WinQ b) = true.

  Lemma write_pre_outs : forall ids f, forallb P (snd (write_pre ids f)) = true.
  Proof.
    induction ids as [|id rest IH]; intros f; [reflexivity|].
    destruct rest as [|id2 rest]; [reflexivity|].
    change (write_pre (id :: id2 :: rest) f) with
      (let (failed, f') := pop f in
       if failed then (false, f', [Call SMotion (Write id) true])
       else let '(ok, f'', o) := write_pre (id2 :: rest) f' in
            (ok, f'', Call SMotion (Write id) false :: o)).
    destruct (pop f) as [failed f']. destruct failed.
    - cbn [snd forallb]. rewrite P_call. reflexivity.
    - specialize (IH f'). destruct (write_pre (id2 :: rest) f') as [[ok f''] o].
      cbn [snd forallb] in *. rewrite P_call, IH. reflexivity.
  Qed.

  Lemma astop_outs : forall s, forallb P (snd (astop s)) = true.
  Proof.
    intros s. unfold astop. destruct (a_rec s); cbn [negb]; [|reflexivity].
    destruct (pop (a_faults s)) as [failed f']. cbn [snd forallb].
    rewrite P_ended, P_call. reflexivity.
  Qed.

  Ltac ostep P :=
    first
      [ match goal with
        | |- context [write_pre ?h ?f] =>
          is_var f; generalize (write_pre_outs h f);
          destruct (write_pre h f) as [[? ?] ?]; cbn [snd]; intros ?Hw
        end
      | step ].

  Lemma aprocess_outs : forall c a id motion win,
    forallb P (snd (aprocess c a id motion win)) = true.
  Proof.
    intros c [n mk rc fw wu tg f] id motion win.
    unfold aprocess, astop. proj.
    repeat ostep P;
      cbn [snd app forallb];
      rewrite ?forallb_app, ?P_call, ?P_motion, ?P_started, ?P_ended, ?P_win;
      cbn [forallb andb];
      rewrite ?P_call, ?P_motion, ?P_started, ?P_ended, ?P_win; cbn [andb];
      repeat match goal with H : forallb P _ = true |- _ => rewrite H; clear H end;
      reflexivity.
  Qed.

  Lemma astep_outs : forall c a e, forallb P (snd (astep c a e)) = true.
  Proof.
    intros c a e. destruct e as [id motion win | | |]; cbn [astep].
    - apply aprocess_outs.
    - apply astop_outs.
    - apply astop_outs.
    - reflexivity.
  Qed.
End Outs.

(* each machine only produces outputs of its own kind *)
Theorem astep_outs_motion : forall c a e, forallb is_motion_out (snd (astep c a e)) = true.
Proof. intros c a e. apply astep_outs; intros; reflexivity. Qed.

Theorem cstep_outs_const : forall c s e, forallb is_const_out (snd (cstep c s e)) = true.
Proof.
  intros c [n f] e. destruct e as [id motion win | | |]; cbn [cstep]; try reflexivity.
  - unfold cprocess. cbn [c_frames c_faults].
    destruct (p_const c); cbn [negb]; [|reflexivity].
    destruct (n =? 0).
    + destruct (pop f) as [failed f1]. destruct failed; cbn [negb]; [reflexivity|].
      destruct (pop f1) as [wfailed f2]. destruct (n + 1 >? p_max c).
      * destruct (pop f2) as [sfailed f3]. reflexivity.
      * reflexivity.
    + cbn [negb]. destruct (pop f) as [wfailed f2]. destruct (n + 1 >? p_max c).
      * destruct (pop f2) as [sfailed f3]. reflexivity.
      * reflexivity.
  - cbn [c_faults]. destruct (p_const c); cbn [negb]; [|reflexivity].
    destruct (pop f) as [failed f']. reflexivity.
Qed.

Theorem tstep_outs_test : forall s e, forallb is_test_out (snd (tstep s e)) = true.
Proof.
  intros [st rc n f] e. destruct e as [id motion win | | |]; cbn [tstep]; try reflexivity.
  unfold tprocess. cbn [t_start t_rec t_frames t_faults].
  destruct st.
  - destruct rc.
    + cbn [t_start t_rec t_frames t_faults negb].
      destruct (pop f) as [wfailed f2]. destruct (n + 1 >? SNAP_LAST).
      * destruct (pop f2) as [sfailed f3]. reflexivity.
      * reflexivity.
    + destruct (pop f) as [failed f']. destruct failed; [reflexivity|].
      cbn [t_start t_rec t_frames t_faults negb].
      destruct (pop f') as [wfailed f2]. destruct (n + 1 >? SNAP_LAST).
      * destruct (pop f2) as [sfailed f3]. reflexivity.
      * reflexivity.
  - cbn [t_start t_rec t_frames t_faults]. destruct rc; cbn [negb]; [|reflexivity].
    destruct (pop f) as [wfailed f2]. destruct (n + 1 >? SNAP_LAST).
    + destruct (pop f2) as [sfailed f3]. reflexivity.
    + reflexivity.
Qed.

(* the abstract machine never panics (hence, by mrun_arun, neither does the concrete one:
   GetHistory's slice expression is always in range) *)
Theorem astep_no_panic : forall c a e,
    forallb (fun x => match x with Panic => false | _ => true end) (snd (astep c a e)) = true.
Proof. intros c a e. apply astep_outs; intros; reflexivity. Qed.

Print Assumptions mrun_arun.
Print Assumptions prun_zip3.
