(* Source tie for motion/motion.go, part 4: the simulation between the translated detector
   with its world and the hand-written model, one event at a time. *)
From Coq Require Import List ZArith Bool String Lia Arith.
From Coq Require Import Floats.SpecFloat.
From TR Require Import model.GoSem model.Ring model.Detector model.DetExt
     translated.FrameLoop translated.MotionDetector proofs.TieRing
     proofs.TieDetBase proofs.TieDetLoops proofs.TieDetBg.
Import ListNotations.
Open Scope Z_scope.

(* ====================================================================================
   Handle ranges and rings of handles
   ==================================================================================== *)
Lemma hrange_length lo n : List.length (hrange lo n) = Z.to_nat n.
Proof. unfold hrange. rewrite map_length, seq_length. reflexivity. Qed.

Lemma hrange_nth lo n k d : (k < Z.to_nat n)%nat -> nth k (hrange lo n) d = lo + Z.of_nat k.
Proof. intros H. unfold hrange. apply (nth_map_seq0 (fun k => lo + Z.of_nat k)). exact H. Qed.

Lemma hrange_in lo n h : In h (hrange lo n) -> lo <= h < lo + n.
Proof. unfold hrange. rewrite in_map_iff. intros (k & <- & Hk). apply in_seq in Hk. lia. Qed.

Lemma upd_map_seq {A} (F : nat -> A) N k v :
  upd (map F (seq 0 N)) k v = map (fun i => if (i =? k)%nat then v else F i) (seq 0 N).
Proof.
  rewrite <- lupd_upd. apply (list_ext v).
  - rewrite length_lupd, !map_length. reflexivity.
  - intros i Hi. rewrite length_lupd, map_length, seq_length in Hi.
    rewrite (nth_map_seq0 (fun i => if (i =? k)%nat then v else F i)) by exact Hi.
    destruct (Nat.eqb_spec i k) as [->|N0].
    + apply nth_lupd_eq. rewrite map_length, seq_length. exact Hi.
    + rewrite nth_lupd_neq by exact N0. apply nth_map_seq0. exact Hi.
Qed.

(* an observation of the handles after one handle's content changed *)
Lemma map_obs_upd {B} (obs obs' : Z -> B) lo n k v :
  (k < Z.to_nat n)%nat -> obs' (lo + Z.of_nat k) = v ->
  (forall i, (i < Z.to_nat n)%nat -> i <> k -> obs' (lo + Z.of_nat i) = obs (lo + Z.of_nat i)) ->
  map obs' (hrange lo n) = upd (map obs (hrange lo n)) k v.
Proof.
  intros Hk Hv Ho. unfold hrange. rewrite !map_map. rewrite upd_map_seq.
  apply map_ext_in. intros i Hi. apply in_seq in Hi. destruct (Nat.eqb_spec i k) as [->|N0]; [exact Hv|].
  apply Ho; lia.
Qed.

Lemma map_obs_same {B} (obs obs' : Z -> B) l :
  (forall h, In h l -> obs' h = obs h) -> map obs' l = map obs l.
Proof. intros H. apply map_ext_in. exact H. Qed.

(* the same ring with other slots *)
Definition reslot {A B} (r : ring A) (l : list B) : ring B :=
  mkRing (size r) (cur r) (full r) (oldest r) l.

Lemma put_reslot {A B} (r : ring A) (l : list B) v : put (reslot r l) v = reslot r (upd l (Z.to_nat (cur r)) v).
Proof. reflexivity. Qed.
Lemma move_reslot {A B} (r : ring A) (l : list B) : move (reslot r l) = reslot (move r) l.
Proof. reflexivity. Qed.
Lemma sao_reslot {A B} (r : ring A) (l : list B) : set_as_oldest (reslot r l) = reslot (set_as_oldest r) l.
Proof. reflexivity. Qed.
Lemma reset_reslot {A B} (r : ring A) (l : list B) : reset (reslot r l) = reslot (reset r) l.
Proof. reflexivity. Qed.

Lemma zth_map_in {A B} (obs : A -> B) d d' l i :
  0 <= i < Z.of_nat (List.length l) -> zth d' (map obs l) i = obs (zth d l i).
Proof.
  intros H. unfold zth. rewrite (nth_indep _ d' (obs d)) by (rewrite map_length; lia). apply map_nth.
Qed.

(* a well-formed frame loop over the handles lo .. lo+n-1 *)
Definition fl_on (fl : FrameLoop) (lo n : Z) : Prop :=
  fl_wf fl /\ FrameLoop_frames fl = hrange lo n /\ FrameLoop_size fl = n.

Lemma fl_on_cur fl lo n : fl_on fl lo n -> 0 <= FrameLoop_currentIndex fl < n.
Proof. intros ((_ & _ & _ & H & _) & _ & <-). exact H. Qed.

Lemma fl_on_size fl lo n : fl_on fl lo n -> 1 <= n.
Proof. intros ((H & _) & _ & <-). exact H. Qed.

Lemma rem_range a b : 0 <= a -> 0 < b -> 0 <= Z.rem a b < b.
Proof. intros. apply Z.rem_bound_pos; lia. Qed.

(* the index Oldest() reads *)
Definition oldest_index (r : ring Z) : Z :=
  if negb (oldest r =? NO_OLDEST_SET) then oldest r else next_index_after r (cur r).

Lemma oldest_index_range fl lo n : fl_on fl lo n -> 0 <= oldest_index (ring_of fl) < n.
Proof.
  intros ((H1 & H2 & H3 & H4 & H5) & Hf & Hs). unfold oldest_index, ring_of, next_index_after. cbn [oldest cur size].
  unfold NO_OLDEST_SET. destruct (Z.eqb_spec (FrameLoop_oldest fl) (-1)) as [E|E]; cbn [negb].
  - rewrite Hs in *. apply rem_range; lia.
  - lia.
Qed.

Lemma oldest_slot_index {A} (d : A) (r : ring Z) (l : list A) :
  oldest_slot d (reslot r l) = zth d l (oldest_index r).
Proof. unfold oldest_slot, oldest_index, reslot, next_index_after. cbn [oldest cur size slots]. destruct (negb _); reflexivity. Qed.

Lemma zth_hrange lo n i d : 0 <= i < n -> zth d (hrange lo n) i = lo + i.
Proof. intros H. unfold zth. rewrite hrange_nth by lia. lia. Qed.

Lemma fl_current fl lo n d : fl_on fl lo n -> current d (ring_of fl) = lo + FrameLoop_currentIndex fl.
Proof.
  intros H. pose proof (fl_on_cur _ _ _ H). destruct H as (_ & Hf & _).
  unfold current, ring_of. cbn [slots cur]. rewrite Hf. apply zth_hrange. assumption.
Qed.

Lemma fl_oldest fl lo n d : fl_on fl lo n -> oldest_slot d (ring_of fl) = lo + oldest_index (ring_of fl).
Proof.
  intros H. pose proof (oldest_index_range _ _ _ H). destruct H as (_ & Hf & _).
  change (ring_of fl) with (reslot (ring_of fl) (FrameLoop_frames fl)) at 1.
  rewrite oldest_slot_index, Hf. apply zth_hrange. assumption.
Qed.

(* the model's ring for a loop of handles observed through obs *)
Definition mring {B} (obs : Z -> B) (fl : FrameLoop) : ring B := reslot (ring_of fl) (map obs (FrameLoop_frames fl)).

Lemma mring_current {B} (obs : Z -> B) fl lo n dB : fl_on fl lo n ->
  current dB (mring obs fl) = obs (lo + FrameLoop_currentIndex fl).
Proof.
  intros H. pose proof (fl_on_cur _ _ _ H). rewrite <- (fl_current fl lo n 0 H). destruct H as (_ & Hf & _).
  unfold current, mring, reslot, ring_of. cbn [slots cur].
  apply zth_map_in. rewrite Hf, hrange_length. lia.
Qed.

Lemma mring_oldest {B} (obs : Z -> B) fl lo n dB : fl_on fl lo n ->
  oldest_slot dB (mring obs fl) = obs (lo + oldest_index (ring_of fl)).
Proof.
  intros H. pose proof (oldest_index_range _ _ _ H). rewrite <- (fl_oldest fl lo n 0 H). destruct H as (_ & Hf & _).
  unfold mring. rewrite oldest_slot_index.
  change (ring_of fl) with (reslot (ring_of fl) (FrameLoop_frames fl)) at 2. rewrite oldest_slot_index.
  apply zth_map_in. rewrite Hf, hrange_length. lia.
Qed.

(* writing into the current slot *)
Lemma mring_put {B} (obs obs' : Z -> B) fl lo n v : fl_on fl lo n ->
  obs' (lo + FrameLoop_currentIndex fl) = v ->
  (forall h, lo <= h < lo + n -> h <> lo + FrameLoop_currentIndex fl -> obs' h = obs h) ->
  put (mring obs fl) v = mring obs' fl.
Proof.
  intros H Hv Ho. pose proof (fl_on_cur _ _ _ H) as Hc. destruct H as (_ & Hf & _).
  unfold mring. rewrite put_reslot. f_equal. rewrite Hf. symmetry.
  unfold ring_of; cbn [cur].
  apply map_obs_upd.
  - lia.
  - rewrite Z2Nat.id by lia. exact Hv.
  - intros i Hi Ni. apply Ho; lia.
Qed.

Lemma mring_same {B} (obs obs' : Z -> B) fl lo n : fl_on fl lo n ->
  (forall h, lo <= h < lo + n -> obs' h = obs h) -> mring obs' fl = mring obs fl.
Proof.
  intros (_ & Hf & _) Ho. unfold mring. f_equal. apply map_obs_same. intros h Hin. rewrite Hf in Hin.
  apply hrange_in in Hin. apply Ho. exact Hin.
Qed.

(* a method that changes only the indices *)
Lemma mring_step {B} (obs : Z -> B) fl fl' (op : forall A, ring A -> ring A) :
  (forall A C (r : ring A) (l : list C), op C (reslot r l) = reslot (op A r) l) ->
  ring_of fl' = op Z (ring_of fl) -> slots (op Z (ring_of fl)) = FrameLoop_frames fl ->
  mring obs fl' = op B (mring obs fl).
Proof.
  intros Hop E Es. unfold mring. rewrite Hop, <- E.
  assert (FrameLoop_frames fl' = FrameLoop_frames fl) as ->; [|reflexivity].
  rewrite <- Es, <- E. reflexivity.
Qed.

Lemma fl_on_step fl fl' lo n (op : ring Z -> ring Z) :
  fl_on fl lo n -> fl_wf fl' -> ring_of fl' = op (ring_of fl) ->
  slots (op (ring_of fl)) = FrameLoop_frames fl -> size (op (ring_of fl)) = FrameLoop_size fl ->
  fl_on fl' lo n.
Proof.
  intros (_ & Hf & Hs) Hwf E E1 E2. split; [exact Hwf|]. split.
  - rewrite <- Hf, <- E1, <- E. reflexivity.
  - rewrite <- Hs, <- E2, <- E. reflexivity.
Qed.

Lemma after_lock w : after_ext dext "FrameLoop.mu.Unlock" [] (after_ext dext "FrameLoop.mu.Lock" [] w) = w.
Proof. reflexivity. Qed.

(* Move, on a loop of handles *)
Lemma Move_on {B} (obs : Z -> B) fl lo n w : fl_on fl lo n ->
  exists fl', FrameLoop_Move dext fl w = Ok (fl', lo + FrameLoop_currentIndex fl') w /\
              fl_on fl' lo n /\ mring obs fl' = move (mring obs fl).
Proof.
  intros H. destruct (tie_Move dext fl w 0 (proj1 H)) as (fl' & E & Er & _ & Hwf).
  rewrite after_lock in E.
  assert (H' : fl_on fl' lo n) by (apply (fl_on_step fl fl' lo n (@move Z) H Hwf Er); reflexivity).
  exists fl'. split; [|split].
  - rewrite E. rewrite (fl_current fl' lo n 0 H'). reflexivity.
  - exact H'.
  - apply (mring_step obs fl fl' (@move)); [reflexivity | exact Er | reflexivity].
Qed.

Lemma SetAsOldest_on {B} (obs : Z -> B) fl lo n w : fl_on fl lo n ->
  exists fl' r, FrameLoop_SetAsOldest dext fl w = Ok (fl', r) w /\
              fl_on fl' lo n /\ mring obs fl' = set_as_oldest (mring obs fl).
Proof.
  intros H. destruct (tie_SetAsOldest dext fl w 0 (proj1 H)) as (fl' & E & Er & _ & Hwf).
  assert (H' : fl_on fl' lo n) by (apply (fl_on_step fl fl' lo n (@set_as_oldest Z) H Hwf Er); reflexivity).
  exists fl'. eexists. split; [exact E|]. split; [exact H'|].
  apply (mring_step obs fl fl' (@set_as_oldest)); [reflexivity | exact Er | reflexivity].
Qed.

Lemma Reset_on {B} (obs : Z -> B) fl lo n w : fl_on fl lo n ->
  exists fl', FrameLoop_Reset dext fl w = Ok (fl', tt) w /\
              fl_on fl' lo n /\ mring obs fl' = reset (mring obs fl).
Proof.
  intros H. destruct (tie_Reset dext fl w) as (fl' & E & Er & _).
  pose proof (Reset_wf dext fl w fl' tt w (proj1 H) E) as Hwf.
  assert (H' : fl_on fl' lo n) by (apply (fl_on_step fl fl' lo n (@reset Z) H Hwf Er); reflexivity).
  exists fl'. split; [exact E|]. split; [exact H'|].
  apply (mring_step obs fl fl' (@reset)); [reflexivity | exact Er | reflexivity].
Qed.

(* The same three facts for every observation of the handles at once: the symbolic execution
   below does not have to know which observation (frames / pixel grids) a loop is used with. *)
Lemma Move_all fl lo n w : fl_on fl lo n ->
  exists fl', FrameLoop_Move dext fl w = Ok (fl', lo + FrameLoop_currentIndex fl') w /\
              fl_on fl' lo n /\ forall B (obs : Z -> B), mring obs fl' = move (mring obs fl).
Proof.
  intros H. destruct (tie_Move dext fl w 0 (proj1 H)) as (fl' & E & Er & _ & Hwf).
  rewrite after_lock in E.
  assert (H' : fl_on fl' lo n) by (apply (fl_on_step fl fl' lo n (@move Z) H Hwf Er); reflexivity).
  exists fl'. split; [|split].
  - rewrite E. rewrite (fl_current fl' lo n 0 H'). reflexivity.
  - exact H'.
  - intros B obs. apply (mring_step obs fl fl' (@move)); [reflexivity | exact Er | reflexivity].
Qed.

Lemma SetAsOldest_all fl lo n w : fl_on fl lo n ->
  exists fl' r, FrameLoop_SetAsOldest dext fl w = Ok (fl', r) w /\
              fl_on fl' lo n /\ forall B (obs : Z -> B), mring obs fl' = set_as_oldest (mring obs fl).
Proof.
  intros H. destruct (tie_SetAsOldest dext fl w 0 (proj1 H)) as (fl' & E & Er & _ & Hwf).
  assert (H' : fl_on fl' lo n) by (apply (fl_on_step fl fl' lo n (@set_as_oldest Z) H Hwf Er); reflexivity).
  exists fl'. eexists. split; [exact E|]. split; [exact H'|].
  intros B obs. apply (mring_step obs fl fl' (@set_as_oldest)); [reflexivity | exact Er | reflexivity].
Qed.

Lemma Reset_all fl lo n w : fl_on fl lo n ->
  exists fl', FrameLoop_Reset dext fl w = Ok (fl', tt) w /\
              fl_on fl' lo n /\ forall B (obs : Z -> B), mring obs fl' = reset (mring obs fl).
Proof.
  intros H. destruct (tie_Reset dext fl w) as (fl' & E & Er & _).
  pose proof (Reset_wf dext fl w fl' tt w (proj1 H) E) as Hwf.
  assert (H' : fl_on fl' lo n) by (apply (fl_on_step fl fl' lo n (@reset Z) H Hwf Er); reflexivity).
  exists fl'. split; [exact E|]. split; [exact H'|].
  intros B obs. apply (mring_step obs fl fl' (@reset)); [reflexivity | exact Er | reflexivity].
Qed.

Lemma Current_on fl lo n w : fl_on fl lo n ->
  FrameLoop_Current dext fl w = Ok (fl, lo + FrameLoop_currentIndex fl) w.
Proof. intros H. rewrite (tie_Current dext fl w 0 (proj1 H)), (fl_current fl lo n 0 H). reflexivity. Qed.

Lemma Oldest_on fl lo n w : fl_on fl lo n ->
  FrameLoop_Oldest dext fl w = Ok (fl, lo + oldest_index (ring_of fl)) w.
Proof. intros H. rewrite (tie_Oldest dext fl w 0 (proj1 H)), (fl_oldest fl lo n 0 H). reflexivity. Qed.

(* ====================================================================================
   The model's Detect in two steps: background / threshold, then pixelsChanged
   ==================================================================================== *)
Definition pre_state (c : dcfg) (s : dstate) (f : frame) : dstate :=
  let aff := affected_by_ffc f in
  if d_dynamic c && negb aff then
    let ub := update_background c s f (s_affected s) in
    let n := s_bgframes s + 1 in
    mkDS (s_floored s) (s_diffs s) (s_firstdiff s) aff
         (if snd ub && (d_preview c <? n) then calc_threshold c (snd (fst ub)) else s_thresh s)
         (fst (fst (fst ub))) (snd (fst (fst ub))) n
  else mkDS (s_floored s) (s_diffs s) (s_firstdiff s) aff (s_thresh s) (s_bg s) (s_wts s) (s_bgframes s).

Definition pix_step (c : dcfg) (s1 : dstate) (f : frame) (prev_ffc : bool) : dstate * bool :=
  let aff := s_affected s1 in
  let fl1 := put (s_floored s1) f in
  let cmp := oldest_slot (blank_frame c) fl1 in
  let dg := diff_grid c (s_thresh s1) (f_pix f) (f_pix cmp) in
  let df1 := put (s_diffs s1) dg in
  let df2 := move df1 in
  let prev_diff := current (zero_grid c) df2 in
  if negb (s_firstdiff s1) then
    (mkDS (move fl1) df2 true aff (s_thresh s1) (s_bg s1) (s_wts s1) (s_bgframes s1), false)
  else if aff || prev_ffc then
    (mkDS (move (set_as_oldest fl1)) df2 false aff (s_thresh s1) (s_bg s1) (s_wts s1) (s_bgframes s1), false)
  else
    (mkDS (move fl1) df2 true aff (s_thresh s1) (s_bg s1) (s_wts s1) (s_bgframes s1), has_motion c dg prev_diff).

Lemma detect_split c s f : detect c s f = pix_step c (pre_state c s f) f (s_affected s).
Proof.
  unfold detect, pre_state, pix_step. cbv zeta.
  destruct (d_dynamic c && negb (affected_by_ffc f)).
  - destruct (update_background c s f (s_affected s)) as [[[bg' wts'] avg] ch]. reflexivity.
  - reflexivity.
Qed.

(* ====================================================================================
   The simulation relation
   ==================================================================================== *)
Definition zero_border (c : dcfg) (g : grid) : Prop :=
  forall y x, (y < d_h c)%nat -> (x < d_w c)%nat -> interior c y x = false -> gget g y x = 0.

Record sim (c : dcfg) (d : motionDetector) (w : dworld) (s : dstate) : Prop := {
  sm_conf : dconf c d;
  sm_len : Z.of_nat (List.length (dw_frames w)) = d_gap c + 5;
  sm_fl : fl_on (motionDetector_flooredFrames d) 0 (d_gap c + 1);
  sm_fl_ring : s_floored s = mring (dframe w) (motionDetector_flooredFrames d);
  sm_df : fl_on (motionDetector_diffFrames d) (d_gap c + 1) 2;
  sm_df_ring : s_diffs s = mring (pixof w) (motionDetector_diffFrames d);
  sm_first : motionDetector_firstDiff d = s_firstdiff s;
  sm_aff : motionDetector_affectedByFCC d = s_affected s;
  sm_thresh : motionDetector_tempThresh d = s_thresh s;
  sm_bgframes : motionDetector_backgroundFrames d = s_bgframes s;
  sm_bg : pixof w (H_BG c) = s_bg s;
  sm_wts : dw_wts w = s_wts s;
  (* what the loops rely on *)
  sm_thresh_ok : 0 <= s_thresh s <= 65535;
  sm_fl_ok : forall h, 0 <= h < d_gap c + 1 -> gbound (pixof w h);
  sm_df_ok : forall h, d_gap c + 1 <= h < d_gap c + 3 -> tdims (d_h c) (d_w c) (pixof w h) /\ zero_border c (pixof w h);
  sm_bg_dims : tdims (d_h c) (d_w c) (s_bg s);
  sm_wts_dims : tdims (d_h c) (d_w c) (s_wts s);
  sm_wts_er : forall y x, erange (wget (s_wts s) y x)
}.

(* ---------- setters ---------- *)
Lemma set_floored_id d : motionDetector_set_flooredFrames (motionDetector_flooredFrames d) d = d.
Proof. destruct d; reflexivity. Qed.
Lemma set_diff_id d : motionDetector_set_diffFrames (motionDetector_diffFrames d) d = d.
Proof. destruct d; reflexivity. Qed.

Lemma dconf_set_floored c d v : dconf c d -> dconf c (motionDetector_set_flooredFrames v d).
Proof. intros []. split; assumption. Qed.
Lemma dconf_set_diff c d v : dconf c d -> dconf c (motionDetector_set_diffFrames v d).
Proof. intros []. split; assumption. Qed.
Lemma dconf_set_first c d v : dconf c d -> dconf c (motionDetector_set_firstDiff v d).
Proof. intros []. split; assumption. Qed.
Lemma dconf_set_thresh c d v : dconf c d -> dconf c (motionDetector_set_tempThresh v d).
Proof. intros []. split; assumption. Qed.
Lemma dconf_set_count c d v : dconf c d -> dconf c (motionDetector_set_count v d).
Proof. intros []. split; assumption. Qed.
Lemma dconf_set_aff c d v : dconf c d -> dconf c (motionDetector_set_affectedByFCC v d).
Proof. intros []. split; assumption. Qed.

(* ====================================================================================
   The small functions
   ==================================================================================== *)
Lemma isAffectedByFFC_ok h w : MotionDetector_fn_isAffectedByFFC dext h w = Ok (affected_by_ffc (dframe w h)) w.
Proof. unfold MotionDetector_fn_isAffectedByFFC. calls. unfold ret, affected_by_ffc, FFC_PERIOD. reflexivity. Qed.

Lemma calculateThreshold_ok c d avg w : dconf c d -> erange avg ->
  motionDetector_calculateThreshold dext d (fenc avg) w =
  Ok (motionDetector_set_tempThresh (calc_threshold c avg) d, tt) w.
Proof.
  intros Hc Ha. unfold motionDetector_calculateThreshold, calc_threshold. conf Hc.
  destruct (d_tmin c =? 0); cbn [negb]; calls; conf Hc; destruct (d_tmax c =? 0); cbn [negb]; calls;
    rewrite ?fdec_fenc by (auto with er); reflexivity.
Qed.

Lemma has_motion_one c a b b' : d_one c = true -> has_motion c a b = has_motion c a b'.
Proof. intros H. unfold has_motion. rewrite H. reflexivity. Qed.

Lemma tbuild_ext {A} h w (f g : nat -> nat -> A) :
  (forall y x, (y < h)%nat -> (x < w)%nat -> f y x = g y x) -> tbuild h w f = tbuild h w g.
Proof.
  intros H. unfold tbuild. apply map_ext_in. intros y Hy. apply in_seq in Hy.
  apply map_ext_in. intros x Hx. apply in_seq in Hx. apply H; lia.
Qed.

Lemma if_bind {W A B} (b : bool) (m1 m2 : M W A) (K : A -> M W B) w :
  (if b then bind m1 K else bind m2 K) w = bind (if b then m1 else m2) K w.
Proof. destruct b; reflexivity. Qed.

(* ====================================================================================
   Order-independent symbolic execution of the translated code

   The generated file changes shape under harmless edits of the Go source (two independent
   statements or calls swapped, a local introduced, [if !c {A} else {B}] for [if c {B} else {A}]).
   The proofs below therefore never name "the next call": [lands (prog w) P] says that the
   program, run from the world w, ends normally in a result and world satisfying P; one step
   looks at whatever stands at the head of prog, finds the facts about its arguments among the
   hypotheses by their statements, and runs it.  Conditions are decided by case analysis on the
   first atom of whatever boolean expression the code tests, detector states are compared
   field by field after all setters have been computed away.
   ==================================================================================== *)
Definition lands {W A} (o : outcome W A) (P : A -> W -> Prop) : Prop :=
  exists a w', o = Ok a w' /\ P a w'.

Lemma lands_ok {W A} (a : A) (w : W) (P : A -> W -> Prop) : P a w -> lands (Ok a w) P.
Proof. intros H. exists a, w. split; [reflexivity | exact H]. Qed.

Lemma lands_ret {W A} (a : A) (w : W) (P : A -> W -> Prop) : P a w -> lands (ret a w) P.
Proof. apply lands_ok. Qed.

(* [md_norm] (proofs/TieDetLoops.v): all setters computed away, whichever fields the code assigns *)
Lemma md_eta d :
  mkmotionDetector (motionDetector_flooredFrames d) (motionDetector_diffFrames d) (motionDetector_firstDiff d)
    (motionDetector_dynamicThresh d) (motionDetector_useOneDiff d) (motionDetector_tempThresh d)
    (motionDetector_tempThreshMax d) (motionDetector_tempThreshMin d) (motionDetector_deltaThresh d)
    (motionDetector_countThresh d) (motionDetector_warmerOnly d) (motionDetector_start d)
    (motionDetector_rowStop d) (motionDetector_columnStop d) (motionDetector_count d)
    (motionDetector_background d) (motionDetector_backgroundFrames d) (motionDetector_previewFrames d)
    (motionDetector_numPixels d) (motionDetector_affectedByFCC d) (motionDetector_framesHz d) = d.
Proof. destruct d; reflexivity. Qed.

Ltac head_simpl := cbv beta iota zeta; md_norm; rewrite ?md_eta.

(* the configuration fields of a detector the code has assigned other fields of *)
Ltac dconf_solve Hc :=
  first [ exact Hc
        | destruct Hc; split; md_norm; first [assumption | reflexivity | (symmetry; assumption)] ].

(* what is known about the value of a boolean *)
Ltac use_bool_eqns :=
  repeat match goal with
         | H : ?b = true |- context [?b] => lazymatch b with true => fail | false => fail | _ => rewrite H end
         | H : ?b = false |- context [?b] => lazymatch b with true => fail | false => fail | _ => rewrite H end
         end.

(* ... and what follows from it, whichever side of an operator the known value stands on *)
Ltac bool_simpl :=
  use_bool_eqns; cbn [negb andb orb];
  rewrite ?andb_false_r, ?andb_true_r, ?orb_false_r, ?orb_true_r; cbn [negb andb orb].

Ltac bool_atom b :=
  lazymatch b with
  | negb ?x => bool_atom x
  | andb ?x _ => bool_atom x
  | orb ?x _ => bool_atom x
  | _ => constr:(b)
  end.

(* the head of the program tests b: decide it, by cases on its first atom if need be *)
Ltac split_cond b :=
  lazymatch b with
  | true => idtac
  | false => idtac
  | _ => let a := bool_atom b in let E := fresh "Ecase" in destruct a eqn:E
  end;
  cbn [negb andb orb]; rewrite ?orb_true_r, ?orb_false_r, ?andb_true_r, ?andb_false_r; cbn [negb]; cbv iota.

(* the same after the condition (and nothing else in the goal) has been brought into the model's
   vocabulary: [norm E] rewrites in the right-hand side of [E : bv = condition] *)
Ltac decide_cond norm b :=
  let bv := fresh "bv" in let Eb := fresh "Eb" in
  remember b as bv eqn:Eb in |- *;
  norm Eb; cbn [negb andb orb] in Eb;
  repeat match type of Eb with
         | context [?x] =>
           match goal with
           | H : x = true |- _ => rewrite H in Eb
           | H : x = false |- _ => rewrite H in Eb
           end
         end;
  cbn [negb andb orb] in Eb; subst bv;
  lazymatch goal with
  | |- lands ((if ?b' then _ else _) _) _ => split_cond b'
  | |- lands (bind (if ?b' then _ else _) _ _) _ => split_cond b'
  end.

(* rewriting with the facts [forall B obs, mring obs fl' = op (mring obs fl)] the ring methods left behind *)
Ltac ring_facts :=
  repeat match goal with
         | R : forall (B : Type) (obs : Z -> B), mring obs ?F = _ |- context [mring _ ?F] => rewrite R
         end.

(* One step.  [norm E] brings the condition in [E : _ = condition] into the vocabulary of the model
   (proof-specific rewriting). *)
Ltac step_generic norm :=
  lazymatch goal with
  | |- lands (bind (ret ?a) ?k ?w) _ => rewrite (bind_ret a k w)
  | |- lands (bind (bind ?m ?k) ?K ?w) _ => rewrite (bind_assoc m k K w)
  | |- lands (bind (call_ext dext _ _) _ _) _ => call1
  | |- lands (bind (MotionDetector_fn_isAffectedByFFC dext ?h) ?k ?w) _ =>
      rewrite (bind_ok _ k w _ _ (isAffectedByFFC_ok h w))
  | |- lands (bind (motionDetector_setFloor dext _ _ _) _ _) _ => unfold motionDetector_setFloor
  | |- lands (bind (FrameLoop_Current dext ?fl) ?k ?w) _ =>
      lazymatch goal with H : fl_on fl ?lo ?n |- _ => rewrite (bind_ok _ k w _ _ (Current_on fl lo n w H)) end
  | |- lands (bind (FrameLoop_Oldest dext ?fl) ?k ?w) _ =>
      lazymatch goal with H : fl_on fl ?lo ?n |- _ => rewrite (bind_ok _ k w _ _ (Oldest_on fl lo n w H)) end
  | |- lands (bind (FrameLoop_Move dext ?fl) ?k ?w) _ =>
      lazymatch goal with H : fl_on fl ?lo ?n |- _ =>
        let fl' := fresh "fl" in let E := fresh "E" in let H' := fresh "Hon" in let R := fresh "Rg" in
        destruct (Move_all fl lo n w H) as (fl' & E & H' & R); rewrite (bind_ok _ k w _ _ E); clear E end
  | |- lands (bind (FrameLoop_SetAsOldest dext ?fl) ?k ?w) _ =>
      lazymatch goal with H : fl_on fl ?lo ?n |- _ =>
        let fl' := fresh "fl" in let r := fresh "r" in let E := fresh "E" in let H' := fresh "Hon" in let R := fresh "Rg" in
        destruct (SetAsOldest_all fl lo n w H) as (fl' & r & E & H' & R); rewrite (bind_ok _ k w _ _ E); clear E end
  | |- lands (bind (FrameLoop_Reset dext ?fl) ?k ?w) _ =>
      lazymatch goal with H : fl_on fl ?lo ?n |- _ =>
        let fl' := fresh "fl" in let E := fresh "E" in let H' := fresh "Hon" in let R := fresh "Rg" in
        destruct (Reset_all fl lo n w H) as (fl' & E & H' & R); rewrite (bind_ok _ k w _ _ E); clear E end
  | |- lands ((if ?b then _ else _) _) _ => decide_cond norm b
  | |- lands (bind (if ?b then _ else _) _ _) _ => decide_cond norm b
  end;
  head_simpl.

(* ====================================================================================
   pixelsChanged
   ==================================================================================== *)
Section Pix.
  Variable c : dcfg.
  Hypothesis Hcfg : cdims c.
  Hypothesis Hgap : 1 <= d_gap c.

  (* absDiffFrames / warmerDiffFrames, whichever is configured, compute the model's diff_grid *)
  Lemma diffFrames_ok d w a b out :
    dconf c d -> 0 <= motionDetector_tempThresh d <= 65535 ->
    hin w out -> 0 <= a -> 0 <= b -> a <> out -> b <> out ->
    tdims (d_h c) (d_w c) (pixof w out) -> zero_border c (pixof w out) ->
    gbound (pixof w a) -> gbound (pixof w b) ->
    (if d_warmer c then motionDetector_warmerDiffFrames dext d a b out else motionDetector_absDiffFrames dext d a b out) w =
    Ok (d, out) (set_pix w out (diff_grid c (motionDetector_tempThresh d) (pixof w a) (pixof w b))).
  Proof.
    intros Hc Ht Ho Ha Hb Na Nb Do Zo Ba Bb.
    assert (E : forall op : Z -> Z -> Z,
      gbuild (d_h c) (d_w c) (fun y x => if interior c y x
         then op (floor_to (motionDetector_tempThresh d) (gget (pixof w a) y x))
                 (floor_to (motionDetector_tempThresh d) (gget (pixof w b) y x))
         else gget (pixof w out) y x) =
      gbuild (d_h c) (d_w c) (fun y x => if interior c y x
         then op (floor_to (motionDetector_tempThresh d) (gget (pixof w a) y x))
                 (floor_to (motionDetector_tempThresh d) (gget (pixof w b) y x))
         else 0)).
    { intros op. rewrite !gbuild_tbuild. apply tbuild_ext. intros y x Hy Hx.
      destruct (interior c y x) eqn:Ei; [reflexivity|]. apply Zo; assumption. }
    unfold diff_grid. destruct (d_warmer c).
    - rewrite (warmerDiffFrames_ok c d Hc Hcfg Ht w a b out Ho Ha Hb Na Nb Do Ba Bb). rewrite E. reflexivity.
    - rewrite (absDiffFrames_ok c d Hc Hcfg Ht w a b out Ho Ha Hb Na Nb Do Ba Bb). rewrite E. reflexivity.
  Qed.

  Lemma diff_grid_dims t a b : tdims (d_h c) (d_w c) (diff_grid c t a b).
  Proof. unfold diff_grid. rewrite gbuild_tbuild. apply tdims_tbuild. Qed.

  Lemma diff_grid_border t a b : zero_border c (diff_grid c t a b).
  Proof.
    intros y x Hy Hx Ei. unfold diff_grid. rewrite gbuild_tbuild, gget_tget, tget_tbuild by assumption.
    rewrite Ei. reflexivity.
  Qed.

  Lemma pixelsChanged_lands d w s f pf :
    sim c d w s -> dframe w (H_IN c) = f -> gbound (f_pix f) -> s_affected s = affected_by_ffc f ->
    lands (motionDetector_pixelsChanged dext d (H_IN c) pf w)
      (fun r w' => fst (snd r) = snd (pix_step c s f pf) /\ sim c (fst r) w' (fst (pix_step c s f pf))).
  Proof.
    intros S Ein Bf Eaff.
    pose proof (sm_conf _ _ _ _ S) as Hc. pose proof (sm_fl _ _ _ _ S) as HF. pose proof (sm_df _ _ _ _ S) as HD.
    pose proof (sm_len _ _ _ _ S) as Hlen.
    pose proof (fl_on_cur _ _ _ HF) as Hcur. pose proof (oldest_index_range _ _ _ HF) as Hold.
    pose proof (fl_on_cur _ _ _ HD) as Hdcur.
    assert (Ht : 0 <= motionDetector_tempThresh d <= 65535) by (rewrite (sm_thresh _ _ _ _ S); apply (sm_thresh_ok _ _ _ _ S)).
    assert (Hin : forall h, 0 <= h < d_gap c + 5 -> hin w h) by (intros h Hh; unfold hin; lia).
    unfold H_IN, H_BG in *.
    set (hc := 0 + FrameLoop_currentIndex (motionDetector_flooredFrames d)) in *.
    set (ho := 0 + oldest_index (ring_of (motionDetector_flooredFrames d))) in *.
    set (hd := d_gap c + 1 + FrameLoop_currentIndex (motionDetector_diffFrames d)) in *.
    (* the worlds *)
    set (w2 := set_frame w hc f).
    assert (W2same : forall h, 0 <= h -> h <> hc -> dframe w2 h = dframe w h).
    { intros h Hh N. apply dframe_set_frame_neq; [subst hc; lia | exact Hh | exact N]. }
    assert (W2hc : dframe w2 hc = f) by (apply dframe_set_frame_eq; apply Hin; subst hc; lia).
    assert (Hin2 : forall h, 0 <= h < d_gap c + 5 -> hin w2 h) by (intros h Hh; apply hin_set_frame; apply Hin; exact Hh).
    (* the model's rings after setFloor *)
    assert (Efl1 : put (s_floored s) f = mring (dframe w2) (motionDetector_flooredFrames d)).
    { rewrite (sm_fl_ring _ _ _ _ S). apply (mring_put _ _ _ 0 (d_gap c + 1)); [exact HF | exact W2hc |].
      intros h Hh N. apply W2same; [lia | exact N]. }
    assert (Ecmp : oldest_slot (blank_frame c) (put (s_floored s) f) = dframe w2 ho).
    { rewrite Efl1. apply (mring_oldest _ _ 0 (d_gap c + 1)). exact HF. }
    set (dg := diff_grid c (s_thresh s) (f_pix f) (f_pix (dframe w2 ho))).
    set (w3 := set_pix w2 hd dg).
    assert (Hin3 : forall h, 0 <= h < d_gap c + 5 -> hin w3 h) by (intros h Hh; apply hin_set_pix; apply Hin2; exact Hh).
    assert (W3same : forall h, 0 <= h -> h <> hd -> dframe w3 h = dframe w2 h).
    { intros h Hh N. apply dframe_set_pix_neq; [subst hd; lia | exact Hh | exact N]. }
    assert (W3hd : pixof w3 hd = dg) by (apply pixof_set_pix_eq; apply Hin2; subst hd; lia).
    assert (Ein3 : dframe w3 (d_gap c + 4) = f).
    { rewrite W3same by (subst hd; lia). rewrite W2same by (subst hc; lia). exact Ein. }
    assert (Pdiff : forall h, d_gap c + 1 <= h < d_gap c + 3 -> h <> hd -> pixof w3 h = pixof w h).
    { intros h Hh N. unfold pixof. rewrite W3same by (exact N || lia). rewrite W2same by (subst hc; lia). reflexivity. }
    assert (Edf1 : put (s_diffs s) dg = mring (pixof w3) (motionDetector_diffFrames d)).
    { rewrite (sm_df_ring _ _ _ _ S). apply (mring_put _ _ _ (d_gap c + 1) 2); [exact HD | exact W3hd |].
      intros h Hh N. apply Pdiff; [lia | exact N]. }
    assert (Efl3 : mring (dframe w3) (motionDetector_flooredFrames d) = put (s_floored s) f).
    { rewrite Efl1. apply (mring_same _ _ _ 0 (d_gap c + 1)); [exact HF|]. intros h Hh. apply W3same; subst hd; lia. }
    (* whatever the detector's scalars become, the relation holds in the world w3 *)
    assert (Hsim : forall d' b a rF rD,
      a = s_affected s ->
      dconf c d' -> fl_on (motionDetector_flooredFrames d') 0 (d_gap c + 1) ->
      mring (dframe w3) (motionDetector_flooredFrames d') = rF ->
      fl_on (motionDetector_diffFrames d') (d_gap c + 1) 2 ->
      mring (pixof w3) (motionDetector_diffFrames d') = rD ->
      motionDetector_firstDiff d' = b -> motionDetector_affectedByFCC d' = s_affected s ->
      motionDetector_tempThresh d' = s_thresh s -> motionDetector_backgroundFrames d' = s_bgframes s ->
      sim c d' w3 (mkDS rF rD b a (s_thresh s) (s_bg s) (s_wts s) (s_bgframes s))).
    { intros d' b a rF rD -> Hc' HF' EF' HD' ED' Eb Ea Et En.
      split; cbn [s_floored s_diffs s_firstdiff s_affected s_thresh s_bg s_wts s_bgframes]; try (symmetry; assumption); try assumption.
      - unfold w3, w2, set_pix, set_frame. cbn [dw_frames]. rewrite !length_lupd. exact Hlen.
      - unfold pixof, H_BG. rewrite W3same by (subst hd; lia). rewrite W2same by (subst hc; lia). apply (sm_bg _ _ _ _ S).
      - apply (sm_wts _ _ _ _ S).
      - apply (sm_thresh_ok _ _ _ _ S).
      - intros h Hh. unfold pixof. rewrite W3same by (subst hd; lia).
        destruct (Z.eq_dec h hc) as [->|N]; [rewrite W2hc; exact Bf|].
        rewrite W2same by (exact N || lia). apply (sm_fl_ok _ _ _ _ S). exact Hh.
      - intros h Hh. destruct (Z.eq_dec h hd) as [->|N].
        + rewrite W3hd. split; [apply diff_grid_dims | apply diff_grid_border].
        + rewrite Pdiff by assumption. apply (sm_df_ok _ _ _ _ S). exact Hh.
      - apply (sm_bg_dims _ _ _ _ S).
      - apply (sm_wts_dims _ _ _ _ S).
      - apply (sm_wts_er _ _ _ _ S). }
    (* the frame handed in, in every world the code passes through *)
    assert (Ein2 : dframe w2 (d_gap c + 4) = f) by (rewrite W2same by (subst hc; lia); exact Ein).
    (* the difference frame, whichever of the two functions is configured and whatever the detector's
       other fields are by then *)
    assert (Ediff : forall dd, dconf c dd -> motionDetector_tempThresh dd = s_thresh s ->
      (if d_warmer c then motionDetector_warmerDiffFrames dext dd hc ho hd
       else motionDetector_absDiffFrames dext dd hc ho hd) w2 = Ok (dd, hd) w3).
    { intros dd Hcd Etd. rewrite diffFrames_ok; try assumption.
      - unfold w3, dg. rewrite Etd. unfold pixof. rewrite W2hc. reflexivity.
      - rewrite Etd. apply (sm_thresh_ok _ _ _ _ S).
      - apply Hin2. subst hd; lia.
      - subst hc; lia.
      - subst ho; lia.
      - subst hc hd; lia.
      - subst ho hd; lia.
      - unfold pixof. rewrite W2same by (subst hc hd; lia). apply (sm_df_ok _ _ _ _ S). subst hd; lia.
      - unfold pixof. rewrite W2same by (subst hc hd; lia). apply (sm_df_ok _ _ _ _ S). subst hd; lia.
      - unfold pixof. rewrite W2hc. exact Bf.
      - unfold pixof. destruct (Z.eq_dec ho hc) as [E|N]; [rewrite E, W2hc; exact Bf|].
        rewrite W2same by (exact N || (subst ho; lia)). apply (sm_fl_ok _ _ _ _ S). subst ho; lia. }
    (* ---- the code, in whatever order it comes ---- *)
    (* conditions in the model's vocabulary; handles and worlds at their names *)
    Ltac pc_norm Hc S E := conf_in Hc E; rewrite ?(sm_first _ _ _ _ S), ?(sm_aff _ _ _ _ S) in E.
    Ltac pc_fold Ein Ein2 Ein3 Eaff hc ho hd w2 :=
      rewrite ?Ein, ?Ein2, ?Ein3, <- ?Eaff; fold hc ho hd; fold w2.
    (* the functions of the detector itself: both difference loops, hasMotion *)
    Ltac pc_own c Hc Hcfg S Ediff :=
      lazymatch goal with
      | |- lands (bind (motionDetector_warmerDiffFrames dext ?dd _ _ _) ?k ?w) _ =>
          lazymatch goal with Ew : d_warmer c = true |- _ =>
            let E := fresh "E" in
            assert (E := Ediff dd ltac:(dconf_solve Hc) ltac:(md_norm; apply (sm_thresh _ _ _ _ S)));
            rewrite ?Ew in E; cbv iota in E; rewrite (bind_ok _ k w _ _ E); clear E end
      | |- lands (bind (motionDetector_absDiffFrames dext ?dd _ _ _) ?k ?w) _ =>
          lazymatch goal with Ew : d_warmer c = false |- _ =>
            let E := fresh "E" in
            assert (E := Ediff dd ltac:(dconf_solve Hc) ltac:(md_norm; apply (sm_thresh _ _ _ _ S)));
            rewrite ?Ew in E; cbv iota in E; rewrite (bind_ok _ k w _ _ E); clear E end
      | |- lands (bind (motionDetector_hasMotion dext ?dd ?a ?b) ?k ?w) _ =>
          let Hc' := fresh "Hcd" in let nn := fresh "nn" in let EH := fresh "EH" in
          assert (Hc' : dconf c dd) by dconf_solve Hc;
          destruct (hasMotion_ok c dd Hc' Hcfg w a b) as (nn & EH);
          rewrite (bind_ok _ k w _ _ EH); clear EH
      end;
      head_simpl.
    unfold motionDetector_pixelsChanged, pix_step. cbv zeta. fold dg. rewrite Ecmp. fold dg.
    head_simpl. pc_fold Ein Ein2 Ein3 Eaff hc ho hd w2.
    repeat (first [ pc_own c Hc Hcfg S Ediff | step_generic ltac:(fun E => pc_norm Hc S E) ];
            pc_fold Ein Ein2 Ein3 Eaff hc ho hd w2).
    (* ---- the result: the verdict, then the state field by field ---- *)
    all: apply lands_ret; cbn [fst snd]; split.
    (* the verdict *)
    all: try (rewrite ?W3hd;
      try match goal with
          | Hon : fl_on ?D' ?lo ?n |- context [pixof ?ww (?lo + FrameLoop_currentIndex ?D')] =>
            rewrite <- (mring_current (pixof ww) D' lo n (zero_grid c) Hon)
          end;
      ring_facts; rewrite <- ?Edf1;
      first [ reflexivity | unfold has_motion; use_bool_eqns; reflexivity ]).
    (* the state *)
    all: apply Hsim; md_norm;
      first [ assumption | reflexivity | (symmetry; assumption) | dconf_solve Hc
            | rewrite ?(sm_first _ _ _ _ S), ?(sm_aff _ _ _ _ S), ?(sm_thresh _ _ _ _ S), ?(sm_bgframes _ _ _ _ S);
              first [ assumption | reflexivity | (symmetry; assumption) ]
            | ring_facts; rewrite ?Efl3, <- ?Edf1; reflexivity ].
  Qed.

  Lemma pixelsChanged_ok d w s f pf :
    sim c d w s -> dframe w (H_IN c) = f -> gbound (f_pix f) -> s_affected s = affected_by_ffc f ->
    exists d' w' n,
      motionDetector_pixelsChanged dext d (H_IN c) pf w = Ok (d', (snd (pix_step c s f pf), n)) w' /\
      sim c d' w' (fst (pix_step c s f pf)).
  Proof.
    intros S Ein Bf Eaff.
    destruct (pixelsChanged_lands d w s f pf S Ein Bf Eaff) as ([d' [m n]] & w' & E & Em & S').
    cbn [fst snd] in Em, S'. exists d', w', n. rewrite E, Em. split; [reflexivity | exact S'].
  Qed.
End Pix.

(* ====================================================================================
   Detect, Reset, the initial state
   ==================================================================================== *)
Lemma sim_transfer c d w s d' w' s' :
  sim c d w s -> dconf c d' -> Z.of_nat (List.length (dw_frames w')) = d_gap c + 5 ->
  motionDetector_flooredFrames d' = motionDetector_flooredFrames d ->
  motionDetector_diffFrames d' = motionDetector_diffFrames d ->
  (forall h, 0 <= h < d_gap c + 3 -> dframe w' h = dframe w h) ->
  s_floored s' = s_floored s -> s_diffs s' = s_diffs s ->
  motionDetector_firstDiff d' = s_firstdiff s' -> motionDetector_affectedByFCC d' = s_affected s' ->
  motionDetector_tempThresh d' = s_thresh s' -> motionDetector_backgroundFrames d' = s_bgframes s' ->
  pixof w' (H_BG c) = s_bg s' -> dw_wts w' = s_wts s' -> 0 <= s_thresh s' <= 65535 ->
  tdims (d_h c) (d_w c) (s_bg s') -> tdims (d_h c) (d_w c) (s_wts s') -> (forall y x, erange (wget (s_wts s') y x)) ->
  sim c d' w' s'.
Proof.
  intros S Hc Hl EF ED Hw Efl Edf E1 E2 E3 E4 E5 E6 E7 E8 E9 E10.
  pose proof (sm_fl _ _ _ _ S) as HF. pose proof (sm_df _ _ _ _ S) as HD.
  pose proof (fl_on_size _ _ _ HF) as Hsz.
  split; try assumption.
  - rewrite EF. exact HF.
  - rewrite Efl, EF, (sm_fl_ring _ _ _ _ S). symmetry. apply (mring_same _ _ _ 0 (d_gap c + 1)); [exact HF|].
    intros h Hh. apply Hw. lia.
  - rewrite ED. exact HD.
  - rewrite Edf, ED, (sm_df_ring _ _ _ _ S). symmetry. apply (mring_same _ _ _ (d_gap c + 1) 2); [exact HD|].
    intros h Hh. unfold pixof. rewrite Hw by lia. reflexivity.
  - intros h Hh. unfold pixof. rewrite Hw by lia. apply (sm_fl_ok _ _ _ _ S). exact Hh.
  - intros h Hh. unfold pixof. rewrite Hw by lia. apply (sm_df_ok _ _ _ _ S). exact Hh.
Qed.

Lemma sim_set_count c d w s v : sim c d w s -> sim c (motionDetector_set_count v d) w s.
Proof.
  intros S. apply (sim_transfer c d w s); try exact S; try reflexivity.
  - apply dconf_set_count. apply S.
  - apply S.
  - apply (sm_first _ _ _ _ S).
  - apply (sm_aff _ _ _ _ S).
  - apply (sm_thresh _ _ _ _ S).
  - apply (sm_bgframes _ _ _ _ S).
  - apply (sm_bg _ _ _ _ S).
  - apply (sm_wts _ _ _ _ S).
  - apply (sm_thresh_ok _ _ _ _ S).
  - apply (sm_bg_dims _ _ _ _ S).
  - apply (sm_wts_dims _ _ _ _ S).
  - apply (sm_wts_er _ _ _ _ S).
Qed.

(* the new weights are a table of in-range floats again *)
Lemma ub_wts_ok c s f p :
  tdims (d_h c) (d_w c) (s_wts s) -> (forall y x, erange (wget (s_wts s) y x)) ->
  let wts' := snd (fst (fst (update_background c s f p))) in
  tdims (d_h c) (d_w c) wts' /\ forall y x, erange (wget wts' y x).
Proof.
  intros D E. unfold update_background. cbv zeta. cbn [fst snd].
  destruct (s_bgframes s + 1 =? 1); [split; assumption|].
  match goal with |- tdims _ _ ?t /\ _ => change t with (tbuild (d_h c) (d_w c) (fun y x =>
      if interior c y x then if replaces s f p false y x then f32_zero else f32_add (wget (s_wts s) y x) f32_tenth
      else wget (s_wts s) y x)) end.
  split; [apply tdims_tbuild|]. intros y x. rewrite wget_tget.
  destruct (Nat.lt_ge_cases y (d_h c)) as [Hy|Hy]; [destruct (Nat.lt_ge_cases x (d_w c)) as [Hx|Hx]|].
  - rewrite tget_tbuild by assumption. destruct (interior c y x); [destruct (replaces s f p false y x)|]; auto with er.
  - unfold tget. rewrite nth_overflow; [exact I|]. rewrite (proj2 (tdims_tbuild _ _ _) y Hy). exact Hx.
  - unfold tget. rewrite (nth_overflow (tbuild _ _ _)) by (rewrite (proj1 (tdims_tbuild _ _ _)); exact Hy).
    destruct x; exact I.
Qed.

Lemma ub_bg_dims c s f p : tdims (d_h c) (d_w c) (fst (fst (fst (update_background c s f p)))).
Proof. unfold update_background. cbv zeta. cbn [fst snd]. rewrite gbuild_tbuild. apply tdims_tbuild. Qed.

Section Detect.
  Variable c : dcfg.
  Hypothesis Hcfg : cdims c.
  Hypothesis Hgap : 1 <= d_gap c.

  Lemma Detect_ok d w s f :
    sim c d w s -> tdims (d_h c) (d_w c) (f_pix f) -> gbound (f_pix f) ->
    (d_dynamic c && negb (affected_by_ffc f) = true -> s_bgframes s + 1 <> 1 ->
       forall y x, interior c y x = true -> replaces s f (s_affected s) false y x = false ->
       SFltb f32_max_float (f32_add (wget (s_wts s) y x) f32_tenth) = false) ->
    0 <= s_thresh (pre_state c s f) <= 65535 ->
    exists d' w', motionDetector_Detect dext d (H_IN c) (set_frame w (H_IN c) f) = Ok (d', snd (detect c s f)) w' /\
                  sim c d' w' (fst (detect c s f)).
  Proof.
    intros S Df Bf Hbnd Hth.
    pose proof (sm_conf _ _ _ _ S) as Hc. pose proof (sm_len _ _ _ _ S) as Hlen.
    set (w1 := set_frame w (H_IN c) f).
    assert (Hin1 : forall h, 0 <= h < d_gap c + 5 -> hin w1 h) by (intros h Hh; apply hin_set_frame; unfold hin; lia).
    assert (Ein1 : dframe w1 (H_IN c) = f) by (apply dframe_set_frame_eq; unfold hin, H_IN; lia).
    assert (W1same : forall h, 0 <= h < d_gap c + 4 -> dframe w1 h = dframe w h).
    { intros h Hh. apply dframe_set_frame_neq; unfold H_IN; lia. }
    assert (Hl1 : Z.of_nat (List.length (dw_frames w1)) = d_gap c + 5).
    { unfold w1, set_frame. cbn [dw_frames]. rewrite length_lupd. exact Hlen. }
    assert (Ebg1 : pixof w1 (H_BG c) = s_bg s).
    { unfold pixof. rewrite W1same by (unfold H_BG; lia). apply (sm_bg _ _ _ _ S). }
    assert (Ewt1 : dw_wts w1 = s_wts s) by apply (sm_wts _ _ _ _ S).
    (* the model's background update and the world after it (used when the threshold is dynamic) *)
    set (ub := update_background c s f (s_affected s)).
    set (w2 := set_wts (set_pix w1 (H_BG c) (fst (fst (fst ub)))) (snd (fst (fst ub)))).
    assert (W2same : forall h, 0 <= h < d_gap c + 5 -> h <> H_BG c -> dframe w2 h = dframe w1 h).
    { intros h Hh N. unfold w2. rewrite dframe_set_wts. apply dframe_set_pix_neq; unfold H_BG in *; lia. }
    assert (Hl2 : Z.of_nat (List.length (dw_frames w2)) = d_gap c + 5).
    { unfold w2, set_wts, set_pix, set_frame. cbn [dw_frames]. rewrite length_lupd. exact Hl1. }
    assert (Ebg2 : pixof w2 (H_BG c) = fst (fst (fst ub))).
    { unfold w2. rewrite pixof_set_wts. apply pixof_set_pix_eq. apply Hin1. unfold H_BG; lia. }
    assert (Ein2 : dframe w2 (H_IN c) = f).
    { rewrite W2same by (unfold H_IN, H_BG; lia). exact Ein1. }
    pose proof (ub_wts_ok c s f (s_affected s) (sm_wts_dims _ _ _ _ S) (sm_wts_er _ _ _ _ S)) as [Dw2 Erw2].
    pose proof (ub_bg_dims c s f (s_affected s)) as Dbg2.
    fold ub in Dw2, Erw2, Dbg2.
    (* the model's state between the two halves of Detect *)
    assert (Epre : pre_state c s f =
      if d_dynamic c && negb (affected_by_ffc f) then
        mkDS (s_floored s) (s_diffs s) (s_firstdiff s) (affected_by_ffc f)
             (if snd ub && (d_preview c <? s_bgframes s + 1) then calc_threshold c (snd (fst ub)) else s_thresh s)
             (fst (fst (fst ub))) (snd (fst (fst ub))) (s_bgframes s + 1)
      else mkDS (s_floored s) (s_diffs s) (s_firstdiff s) (affected_by_ffc f) (s_thresh s) (s_bg s) (s_wts s) (s_bgframes s))
      by reflexivity.
    assert (EaffPre : s_affected (pre_state c s f) = affected_by_ffc f).
    { rewrite Epre. destruct (d_dynamic c && negb (affected_by_ffc f)); reflexivity. }
    (* whatever the detector's scalars are when pixelsChanged is called, the relation holds: in the world
       w2 when the background was updated, in w1 when not *)
    assert (SimPre : forall dY wY,
      (wY = w2 /\ d_dynamic c && negb (affected_by_ffc f) = true) \/
      (wY = w1 /\ d_dynamic c && negb (affected_by_ffc f) = false) ->
      dconf c dY -> motionDetector_flooredFrames dY = motionDetector_flooredFrames d ->
      motionDetector_diffFrames dY = motionDetector_diffFrames d ->
      motionDetector_firstDiff dY = motionDetector_firstDiff d ->
      motionDetector_affectedByFCC dY = affected_by_ffc f ->
      motionDetector_tempThresh dY = s_thresh (pre_state c s f) ->
      motionDetector_backgroundFrames dY = s_bgframes (pre_state c s f) ->
      sim c dY wY (pre_state c s f)).
    { intros dY wY [[-> Edyn]|[-> Edyn]] HcY EF ED E1 E2 E3 E4;
        apply (sim_transfer c d w s); try assumption;
        try (rewrite Epre, Edyn; cbn [s_floored s_diffs s_firstdiff s_affected s_thresh s_bg s_wts s_bgframes]).
      all: first [ reflexivity | assumption | apply S
                 | rewrite E1; apply (sm_first _ _ _ _ S)
                 | exact Ebg2 | exact Dbg2 | exact Dw2 | exact Erw2 | exact Ebg1 | exact Ewt1
                 | intros h Hh; rewrite W2same by (unfold H_BG; lia); apply W1same; lia
                 | intros h Hh; apply W1same; lia ]. }
    rewrite detect_split.
    cut (lands (motionDetector_Detect dext d (H_IN c) w1)
           (fun r w' => snd r = snd (pix_step c (pre_state c s f) f (s_affected s)) /\
                        sim c (fst r) w' (fst (pix_step c (pre_state c s f) f (s_affected s))))).
    { intros ([d' m] & w' & E & Em & S'). cbn [fst snd] in Em, S'. exists d', w'. rewrite E, Em.
      split; [reflexivity | exact S']. }
    (* ---- the code, in whatever order it comes ---- *)
    Ltac dt_norm Hc S E :=
      conf_in Hc E; rewrite ?(sm_bgframes _ _ _ _ S), ?Z.gtb_ltb, ?Z.geb_leb in E; cbv beta delta [z_to_bool] in E; cbn [Z.eqb negb] in E.
    Ltac dt_fold S Ein1 Ein2 ub w2 := rewrite ?(sm_aff _ _ _ _ S), ?Ein1, ?Ein2; fold ub; fold w2.
    Ltac dt_own c s f Hcfg Hgap Hc S Df Bf Hbnd Hin1 Ein1 Ein2 Ebg1 Ewt1 Epre EaffPre SimPre ub w2 :=
      lazymatch goal with
      | |- lands (bind (motionDetector_updateBackground dext ?d1 ?nf ?p) ?k ?ww) _ =>
          let Hc1 := fresh "Hc1" in let EU := fresh "EU" in let ErU := fresh "ErU" in
          assert (Hc1 : dconf c d1) by dconf_solve Hc;
          destruct (updateBackground_ok c d1 ww nf p s f Hcfg Hc1) as [EU ErU];
          [ apply Hin1; unfold H_BG; lia
          | unfold H_IN; lia
          | unfold H_IN, H_BG; lia
          | rewrite Ebg1; apply (sm_bg_dims _ _ _ _ S)
          | unfold pixof; rewrite Ein1; exact Df
          | rewrite Ewt1; apply (sm_wts_dims _ _ _ _ S)
          | rewrite Ewt1; apply (sm_wts_er _ _ _ _ S)
          | symmetry; exact Ebg1
          | symmetry; exact Ewt1
          | unfold pixof; rewrite Ein1; reflexivity
          | md_norm; symmetry; apply (sm_bgframes _ _ _ _ S)
          | apply Hbnd; bool_simpl; reflexivity
          | rewrite (bind_ok _ k ww _ _ EU); clear EU; fold ub in ErU ]
      | |- lands (bind (motionDetector_calculateThreshold dext ?d2 (fenc ?avg)) ?k ?ww) _ =>
          lazymatch goal with Er : erange avg |- _ =>
            let Hc2 := fresh "Hc2" in
            assert (Hc2 : dconf c d2) by dconf_solve Hc;
            rewrite (bind_ok _ k ww _ _ (calculateThreshold_ok c d2 avg ww Hc2 Er)) end
      | |- lands (bind (motionDetector_pixelsChanged dext ?dY ?h ?p) ?K ?wY) _ =>
          let SY := fresh "SY" in let EY := fresh "EY" in
          assert (EY : dframe wY (H_IN c) = f) by first [exact Ein1 | exact Ein2];
          assert (SY : sim c dY wY (pre_state c s f));
          [ apply SimPre; md_norm;
            first [ reflexivity | dconf_solve Hc
                  | left; split; [reflexivity | bool_simpl; reflexivity]
                  | right; split; [reflexivity | bool_simpl; reflexivity]
                  | rewrite Epre; bool_simpl; cbv iota; cbn [s_thresh s_bgframes];
                    rewrite ?(sm_thresh _ _ _ _ S), ?(sm_bgframes _ _ _ _ S); reflexivity ]
          | let dP := fresh "dP" in let mP := fresh "mP" in let nP := fresh "nP" in let wP := fresh "wP" in
            let EP := fresh "EP" in let EmP := fresh "EmP" in let SP := fresh "SP" in
            let EA := fresh "EA" in
            assert (EA : s_affected (pre_state c s f) = affected_by_ffc f)
              by first [ exact EaffPre | rewrite EaffPre; bool_simpl; reflexivity ];
            destruct (pixelsChanged_lands c Hcfg Hgap dY wY _ f p SY EY Bf EA)
              as ([dP [mP nP]] & wP & EP & EmP & SP);
            cbn [fst snd] in EmP, SP; rewrite (bind_ok _ K wY _ _ EP); clear EP ]
      end;
      head_simpl.
    unfold motionDetector_Detect. head_simpl. dt_fold S Ein1 Ein2 ub w2.
    repeat (first [ dt_own c s f Hcfg Hgap Hc S Df Bf Hbnd Hin1 Ein1 Ein2 Ebg1 Ewt1 Epre EaffPre SimPre ub w2
                  | step_generic ltac:(fun E => dt_norm Hc S E) ];
            dt_fold S Ein1 Ein2 ub w2).
    (* ---- the result: the verdict of pixelsChanged, and its state up to fields the relation ignores ---- *)
    all: apply lands_ret; cbn [fst snd]; split; [ assumption | ].
    all: first [ assumption
               | match goal with
                 | SP : sim c ?dP ?wP ?sP |- sim c _ ?wP ?sP =>
                   apply (sim_transfer c dP wP sP); try exact SP; md_norm;
                   first [ reflexivity | apply SP | dconf_solve (sm_conf _ _ _ _ SP) | (intros; reflexivity) ]
                 end ].
  Qed.
End Detect.

Lemma Reset_ok c d w s : sim c d w s ->
  exists d', motionDetector_Reset dext d w = Ok (d', tt) w /\ sim c d' w (dreset s).
Proof.
  intros S. pose proof (sm_conf _ _ _ _ S) as Hc.
  pose proof (sm_fl _ _ _ _ S) as HF. pose proof (sm_df _ _ _ _ S) as HD.
  cut (lands (motionDetector_Reset dext d w) (fun r w' => w' = w /\ sim c (fst r) w (dreset s))).
  { intros ([d' []] & w' & E & -> & S'). exists d'. split; [exact E | exact S']. }
  unfold motionDetector_Reset. head_simpl.
  repeat step_generic ltac:(fun E => idtac).
  apply lands_ret. cbn [fst snd]. split; [reflexivity|].
  (* field by field *)
  unfold dreset.
  split; md_norm; cbn [s_floored s_diffs s_firstdiff s_affected s_thresh s_bg s_wts s_bgframes];
    first [ assumption | reflexivity | apply S | dconf_solve Hc
          | ring_facts; rewrite ?(sm_fl_ring _ _ _ _ S), ?(sm_df_ring _ _ _ _ S); reflexivity ].
Qed.

(* ---------- the initial state ---------- *)
Lemma nth_repeat_lt {A} (a d : A) n k : (k < n)%nat -> nth k (repeat a n) d = a.
Proof. revert k; induction n; destruct k; cbn; intros; try lia; auto. apply IHn; lia. Qed.

Lemma map_const {A B} (g : A -> B) (l : list A) v : (forall x, In x l -> g x = v) -> map g l = repeat v (List.length l).
Proof. induction l; cbn; intros H; [reflexivity|]. f_equal; [apply H; left; reflexivity | apply IHl; intros; apply H; right; assumption]. Qed.

Lemma tget_tbuild_gen {A} (d : A) h w f y x :
  tget d (tbuild h w f) y x = if (y <? h)%nat && (x <? w)%nat then f y x else d.
Proof.
  destruct (Nat.ltb_spec y h) as [Hy|Hy]; [destruct (Nat.ltb_spec x w) as [Hx|Hx]|]; cbn [andb].
  - apply tget_tbuild; assumption.
  - unfold tget. apply nth_overflow. rewrite (proj2 (tdims_tbuild h w f) y Hy). exact Hx.
  - unfold tget. rewrite (nth_overflow (tbuild h w f)) by (rewrite (proj1 (tdims_tbuild h w f)); exact Hy).
    destruct x; reflexivity.
Qed.

Lemma gget_zero_grid c y x : gget (zero_grid c) y x = 0.
Proof. unfold zero_grid. rewrite gbuild_tbuild, gget_tget, tget_tbuild_gen. destruct (_ && _); reflexivity. Qed.

Lemma dframe_init c h : 0 <= h < d_gap c + 5 -> dframe (dw_init c) h = blank_frame c.
Proof. intros H. unfold dframe, dw_init. cbn [dw_frames]. apply nth_repeat_lt. lia. Qed.

Lemma sim_init c : cdims c -> 1 <= d_gap c -> 0 <= d_thresh0 c <= 65535 -> sim c (md_init c) (dw_init c) (dinit c).
Proof.
  intros [Hw Hh] Hg Ht.
  assert (HF : fl_on (motionDetector_flooredFrames (md_init c)) 0 (d_gap c + 1)).
  { unfold md_init, fl_on, fl_wf. cbn [motionDetector_flooredFrames FrameLoop_size FrameLoop_frames FrameLoop_orderedFrames
      FrameLoop_currentIndex FrameLoop_oldest]. rewrite hrange_length, repeat_length. repeat split; lia. }
  assert (HD : fl_on (motionDetector_diffFrames (md_init c)) (d_gap c + 1) 2).
  { unfold md_init, fl_on, fl_wf. cbn [motionDetector_diffFrames FrameLoop_size FrameLoop_frames FrameLoop_orderedFrames
      FrameLoop_currentIndex FrameLoop_oldest]. rewrite hrange_length. cbn [List.length Z.to_nat Pos.to_nat Pos.iter_op Nat.add].
    repeat split; lia. }
  split; try assumption.
  - unfold md_init. split; cbn [motionDetector_start motionDetector_rowStop motionDetector_columnStop motionDetector_dynamicThresh
      motionDetector_useOneDiff motionDetector_tempThreshMax motionDetector_tempThreshMin motionDetector_deltaThresh
      motionDetector_countThresh motionDetector_warmerOnly motionDetector_background motionDetector_previewFrames
      motionDetector_numPixels]; try reflexivity; try lia.
    unfold npix. do 2 f_equal. rewrite Nat2Z.inj_mul. f_equal; lia.
  - unfold dw_init. cbn [dw_frames]. rewrite repeat_length. lia.
  - unfold dinit. cbn [s_floored]. unfold new_ring, mring, reslot. destruct HF as (_ & Hf & _). rewrite Hf.
    unfold md_init, ring_of. cbn [motionDetector_flooredFrames FrameLoop_size FrameLoop_currentIndex FrameLoop_bufferFull
      FrameLoop_oldest size cur full oldest]. f_equal.
    rewrite (map_const _ _ (blank_frame c)); [rewrite hrange_length; reflexivity|].
    intros h Hin. apply hrange_in in Hin. apply dframe_init. lia.
  - unfold dinit. cbn [s_diffs]. unfold new_ring, mring, reslot. destruct HD as (_ & Hf & _). rewrite Hf.
    unfold md_init, ring_of. cbn [motionDetector_diffFrames FrameLoop_size FrameLoop_currentIndex FrameLoop_bufferFull
      FrameLoop_oldest size cur full oldest]. f_equal.
    rewrite (map_const _ _ (zero_grid c)); [rewrite hrange_length; reflexivity|].
    intros h Hin. apply hrange_in in Hin. unfold pixof. rewrite dframe_init by lia. reflexivity.
  - reflexivity.
  - reflexivity.
  - reflexivity.
  - reflexivity.
  - unfold pixof, H_BG. rewrite dframe_init by lia. reflexivity.
  - reflexivity.
  - intros h Hr. unfold pixof. rewrite dframe_init by lia. intros y x. cbn [blank_frame f_pix]. rewrite gget_zero_grid. lia.
  - intros h Hr. unfold pixof. rewrite dframe_init by lia. cbn [blank_frame f_pix]. split.
    + unfold zero_grid. rewrite gbuild_tbuild. apply tdims_tbuild.
    + intros y x _ _ _. apply gget_zero_grid.
  - unfold dinit. cbn [s_bg]. unfold zero_grid. rewrite gbuild_tbuild. apply tdims_tbuild.
  - unfold dinit. cbn [s_wts]. apply (tdims_tbuild (d_h c) (d_w c) (fun _ _ => f32_zero)).
  - intros y x. unfold dinit. cbn [s_wts].
    change (erange (tget f32_zero (tbuild (d_h c) (d_w c) (fun _ _ => f32_zero)) y x)).
    rewrite tget_tbuild_gen. destruct (_ && _); exact I.
Qed.
