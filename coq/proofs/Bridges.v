(* Statements of source ties restated as closed propositions, so that a property file can carry a tie it depends on
   without importing the handler of another part of the code (whose constructor names would clash with its own).
   Each [_stmt] is the statement, each theorem its proof by the tie lemma. *)
From Coq Require Import String List ZArith Bool.
Import ListNotations.
Open Scope Z_scope.

Module BProc.
  From TR Require Import model.Ring model.Processor model.ProcAbs model.ProcExt proofs.TieProcCorollaries.
  (* motion/motionprocessor.go as translated now: on EVERY event list, fault script and configuration with ring capacity >= 1
     the translated Process / Reset make exactly the model's calls - in particular every accepted frame is handed to the
     detector exactly once (the handler consumes one verdict per Detect call), whatever the window or the recorders do *)
  Definition processor_source_tie_stmt : Prop :=
    forall c fm fc ft evs, 1 <= p_size c -> src_psteps c fm fc ft evs = psteps c fm fc ft evs.
  Theorem processor_source_tie : processor_source_tie_stmt.
  Proof. exact src_psteps_eq. Qed.
End BProc.

Module BConn.
  From TR Require Import model.GoSem model.Socket model.ConnExt translated.ConnLoop proofs.TieConn proofs.TieConnCorollaries.
  (* cmd/thermal-recorder/main.go handleConn as translated now: the whole log of a connection is the wiring, then per item of
     the stream one Reset (marker) or one Process (frame) - nothing is rebuilt or re-wired inside the loop -, then the
     deferred Stop of the motion recorder *)
  Definition handleConn_source_tie_stmt : Prop :=
    forall cfg cs script i1 i2 fuel text rest h,
      header_c (S (total_len cs)) cs [] = Some (text, rest) ->
      c_decode cfg text = Some h ->
      parser_of (h_brand h) (h_model h) <> 0 ->
      5 <= h_fs h -> h_fps h <> 0 -> i1 <> 0 -> i2 <> 0 ->
      (total_len rest < fuel)%nat ->
      post (src_conn cfg fuel (conn_init cs script i1 i2))
        (fun r w' =>
           r = Some (end_err (S (total_len rest)) (Z.to_nat (h_fs h)) rest) /\ cw_in w' = [] /\
           cw_log w' = prelude_log cfg (parser_of (h_brand h) (h_model h)) ++
                       loop_log (proc_tok cfg) (frames_c (S (total_len rest)) (Z.to_nat (h_fs h)) rest) script ++
                       [EStop REC_TOK]).
  Theorem handleConn_source_tie : handleConn_source_tie_stmt.
  Proof. exact tie_handleConn. Qed.

  (* the wiring: ONE processor per connection; the motion recorder wrapped by ONE throttle, built in the prelude, exactly
     when the throttle is activated (minimum length min-secs + preview-secs); see TieConnCorollaries.wiring_facts *)
  Definition wiring_stmt : Prop :=
    forall cfg parser,
      let l := prelude_log cfg parser in
      exists rec const snap tok,
        filter (fun e => match e with ENewProcessor _ _ _ _ _ => true | _ => false end) l =
          [ENewProcessor parser rec const snap tok] /\
        In (ENewRecorder snap) l /\ snap <> REC_TOK /\ snap <> rec /\ snap <> const /\
        ~ In (ESetConstant snap) l /\ (forall m t, ~ In (ENewThrottle snap m t) l) /\
        (if c_throttle cfg then In (ENewThrottle REC_TOK (c_minsecs cfg + c_preview cfg) rec) l else rec = REC_TOK) /\
        (if c_const cfg then In (ENewRecorder const) l /\ In (ESetConstant const) l /\ const <> REC_TOK /\ const <> rec
         else const = 0) /\
        hd_error l = Some (EAutoFFC true).
  Theorem wiring : wiring_stmt.
  Proof. exact wiring_facts. Qed.
End BConn.

Module BConf.
  From TR Require Import model.GoSem model.ConfExt translated.ConfMotion proofs.TieConf.
  (* motion/motionconfig.go as translated now: validateConfig changes nothing, and every thermal-motion key the detector and
     the frame parsers are given (edge-pixels among them) is the file's value when present, else the camera model's default *)
  Definition validate_is_empty_stmt : Prop :=
    forall (W : Type) (ext : string -> list GoSem.arg -> W -> Z * W) (t : Z) (w : W),
      ConfMotion_fn_validateConfig ext t w = GoSem.Ok 0 w.
  Theorem validate_is_empty : validate_is_empty_stmt.
  Proof. exact tie_validateConfig. Qed.
  Definition motion_keys_stmt : Prop :=
    forall (L : clib) (model : Z) (f : cfile) (k : string),
      motion_vals L model f k =
      match f SMotion with
      | Some p => match p k with Some v => v | None => d_motion L model k end
      | None => d_motion L model k
      end.
  Theorem motion_keys : motion_keys_stmt.
  Proof. exact motion_vals_eq. Qed.
End BConf.
