(* C05 / C06 for the throttled recorder model. *)
From Coq Require Import List ZArith Bool Arith Lia.
From TR Require Import model.Throttle model.ThrottleSpec proofs.BucketProofs.
Import ListNotations.
Open Scope Z_scope.

Definition thsteps (cap q fi minlen : Z) (faults : list bool) (us : list ucall) : list (ucall * list tout) :=
  combine us (thrun (th_init cap q fi minlen faults) us).

(* C05: for every upstream call sequence whatsoever (well-formed or not), every base-recorder
   fault script, every non-decreasing clock: all windows of forwarded writes obey the bound *)
Theorem S05_holds : forall cap q fi minlen faults us,
    1 <= cap -> 1 <= q -> 1 <= fi ->
    monotone us = true ->
    S05 cap q fi (thsteps cap q fi minlen faults us) = true.
Admitted.

(* C06: conforming upstream sequences, non-decreasing clock, base start/write/stop failing anywhere *)
Theorem S06_holds : forall cap q fi minlen faults us,
    1 <= cap -> 1 <= q -> 1 <= fi ->
    monotone us = true ->
    conforming (thsteps cap q fi minlen faults us) = true ->
    S06 minlen (thsteps cap q fi minlen faults us) = true.
Admitted.
