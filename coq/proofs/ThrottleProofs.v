(* C05 / C06 for the throttled recorder model. *)
From Coq Require Import List ZArith Bool Arith Lia.
From TR Require Import model.Throttle model.ThrottleSpec proofs.BucketProofs.
Import ListNotations.
Open Scope Z_scope.

Definition thsteps (cap q fi minlen : Z) (faults : list bool) (us : list ucall) : list (ucall * list tout) :=
  combine us (thrun (th_init cap q fi minlen faults) us).


(* ------------------------------------------------------------------ *)
(* the bucket operations a throttled run performs *)

Definition step_ops (s : thstate) (u : ucall) : list bop :=
  match u with
  | UStart _ _ t1 => [BAvail t1]
  | UWrite _ t1 t2 =>
    if th_rec s then [BTake t1]
    else
      let '(s1, _, err) := maybe_start s (th_bg s) (th_thresh s) t1 in
      BAvail t1 :: (if err then [] else if th_rec s1 then [BTake t2] else [])
  | _ => []
  end.

Fixpoint bops_of (s : thstate) (us : list ucall) : list bop :=
  match us with
  | [] => []
  | u :: r => step_ops s u ++ bops_of (fst (thstep s u)) r
  end.

Lemma write_times_app : forall a b, write_times (a ++ b) = write_times a ++ write_times b.
Proof. intros. unfold write_times. apply flat_map_app. Qed.

Lemma write_times_cons : forall x l,
    write_times (x :: l) = match x with BWrite _ t _ => [t] | _ => [] end ++ write_times l.
Proof. reflexivity. Qed.

Ltac wt := repeat (rewrite write_times_cons || rewrite write_times_app).

Lemma maybe_start_b : forall s bg th t s1 o1 err,
    maybe_start s bg th t = (s1, o1, err) ->
    th_b s1 = fst (available (th_b s) t) /\ write_times o1 = [].
Proof.
  intros s bg th t s1 o1 err. unfold maybe_start.
  destruct (available (th_b s) t) as [b1 av].
  destruct (av >=? th_min s).
  - destruct (tpop (th_faults s)) as [failed f'].
    destruct failed; intros E; inversion E; subst; cbn; auto.
  - intros E; inversion E; subst; cbn; auto.
Qed.

Lemma th_stop_b : forall s s1 o1 err,
    th_stop s = (s1, o1, err) -> th_b s1 = th_b s /\ write_times o1 = [].
Proof.
  intros s s1 o1 err. unfold th_stop.
  destruct (th_rec s).
  - destruct (tpop (th_faults s)) as [failed f'].
    intros E; inversion E; subst; cbn; auto.
  - intros E; inversion E; subst; cbn; auto.
Qed.

Lemma take1_k : forall b t, snd (take1 b t) = 0 \/ snd (take1 b t) = 1.
Proof.
  intros b t. unfold take1.
  destruct (b_avail (adjust b (current_tick b t)) <=? 0); cbn; auto.
Qed.

Lemma thstep_sim : forall s u rest,
    take_times (brun (th_b s) (step_ops s u ++ rest)) =
    write_times (snd (thstep s u)) ++ take_times (brun (th_b (fst (thstep s u))) rest).
Proof.
  intros s u rest. destruct u as [|bg thresh t1|id t1 t2|]; unfold thstep, step_ops.
  - destruct (tpop (th_faults s)) as [failed f']. reflexivity.
  - destruct (maybe_start s bg thresh t1) as [[s1 o1] err] eqn:E.
    destruct (maybe_start_b _ _ _ _ _ _ _ E) as [Hb Ho].
    cbn [app brun]. destruct (available (th_b s) t1) as [b1 av]. cbn [fst] in Hb.
    rewrite take_times_cons. cbn [fst snd]. change (0 =? 1) with false. cbn [app].
    destruct err; cbn [fst snd th_b]; wt; rewrite ?Ho, ?Hb.
    + reflexivity.
    + destruct (th_rec s1); reflexivity.
  - destruct (th_rec s) eqn:Hrec; cbn [negb].
    + cbn [app brun].
      destruct (take1_k (th_b s) t1) as [Hk | Hk];
        destruct (take1 (th_b s) t1) as [b2 k]; cbn [snd] in Hk; subst k;
        rewrite take_times_cons; cbn [fst snd].
      * change (0 =? 1) with false. change (0 >? 0) with false. cbn [app].
        destruct (th_stop _) as [[s3 o3] serr] eqn:Es.
        destruct (th_stop_b _ _ _ _ Es) as [Hb Ho]. cbn [th_b] in Hb.
        cbn [fst snd]. wt; rewrite ?Ho, ?Hb. reflexivity.
      * change (1 =? 1) with true. change (1 >? 0) with true. cbn [app].
        destruct (tpop _) as [failed f']. reflexivity.
    + destruct (maybe_start s (th_bg s) (th_thresh s) t1) as [[s1 o1] err] eqn:E.
      destruct (maybe_start_b _ _ _ _ _ _ _ E) as [Hb Ho].
      cbn [app brun]. destruct (available (th_b s) t1) as [b1 av]. cbn [fst] in Hb.
      rewrite take_times_cons. cbn [fst snd]. change (0 =? 1) with false. cbn [app].
      destruct err.
      * cbn [fst snd app]. wt; rewrite ?Ho, ?Hb. reflexivity.
      * destruct (th_rec s1) eqn:Hrec1; cbn [negb].
        -- cbn [app brun]. rewrite <- Hb.
           destruct (take1_k (th_b s1) t2) as [Hk | Hk];
             destruct (take1 (th_b s1) t2) as [b2 k]; cbn [snd] in Hk; subst k;
             rewrite take_times_cons; cbn [fst snd].
           ++ change (0 =? 1) with false. change (0 >? 0) with false. cbn [app].
              destruct (th_stop _) as [[s3 o3] serr] eqn:Es.
              destruct (th_stop_b _ _ _ _ Es) as [Hb' Ho']. cbn [th_b] in Hb'.
              cbn [fst snd]. wt; rewrite ?Ho, ?Ho', ?Hb'. reflexivity.
           ++ change (1 =? 1) with true. change (1 >? 0) with true. cbn [app].
              destruct (tpop _) as [failed f']. cbn [fst snd th_b].
              wt; rewrite ?Ho. reflexivity.
        -- cbn [fst snd app]. wt; rewrite ?Ho, ?Hb. reflexivity.
  - destruct (th_stop s) as [[s1 o1] err] eqn:Es.
    destruct (th_stop_b _ _ _ _ Es) as [Hb Ho].
    cbn [fst snd app]. wt; rewrite ?Ho, ?Hb. reflexivity.
Qed.

Lemma thrun_sim : forall us s,
    write_times (concat (thrun s us)) = take_times (brun (th_b s) (bops_of s us)).
Proof.
  induction us as [|u r IH]; intros s; [reflexivity|].
  cbn [thrun bops_of]. rewrite thstep_sim.
  destruct (thstep s u) as [s' o]. cbn [fst snd concat].
  rewrite write_times_app, IH. reflexivity.
Qed.

Lemma thrun_length : forall us s, length (thrun s us) = length us.
Proof.
  induction us as [|u r IH]; intros s; [reflexivity|].
  cbn [thrun]. destruct (thstep s u) as [s' o]. cbn [length]. rewrite IH. reflexivity.
Qed.

Lemma flat_map_snd_combine : forall (A B : Type) (l : list A) (outs : list (list B)),
    length outs = length l -> flat_map snd (combine l outs) = concat outs.
Proof.
  intros A B. induction l as [|a l IH]; intros [|o outs] H; try discriminate; [reflexivity|].
  cbn [combine flat_map snd concat]. rewrite IH by (cbn in H; congruence). reflexivity.
Qed.

Lemma sorted_from_weaken : forall l lo lo',
    lo' <= lo -> sorted_from lo l = true -> sorted_from lo' l = true.
Proof.
  intros [|x r] lo lo' Hle H; [reflexivity|].
  cbn [sorted_from] in *. apply andb_prop in H. destruct H as [H1 H2].
  apply Z.leb_le in H1. rewrite H2. replace (lo' <=? x) with true; [reflexivity|].
  symmetry. apply Z.leb_le. lia.
Qed.

Lemma bops_sorted : forall us s lo,
    sorted_from lo (flat_map readings us) = true ->
    sorted_from lo (map bop_time (bops_of s us)) = true.
Proof.
  induction us as [|u r IH]; intros s lo H; [reflexivity|].
  cbn [flat_map bops_of] in *. rewrite map_app.
  destruct u as [|bg thresh t1|id t1 t2|]; cbn [readings app step_ops map] in *.
  - apply IH. exact H.
  - cbn [bop_time sorted_from] in *. apply andb_prop in H. destruct H as [H1 H2].
    rewrite H1. cbn [andb]. apply IH. exact H2.
  - cbn [sorted_from] in H. apply andb_prop in H. destruct H as [H1 H].
    apply andb_prop in H. destruct H as [H2 H3].
    assert (H3' : sorted_from t1 (flat_map readings r) = true)
      by (apply (sorted_from_weaken _ t2); [apply Z.leb_le; exact H2 | exact H3]).
    destruct (th_rec s).
    + cbn [map app bop_time sorted_from]. rewrite H1. cbn [andb]. apply IH. exact H3'.
    + destruct (maybe_start s (th_bg s) (th_thresh s) t1) as [[s1 o1] err].
      destruct err; [|destruct (th_rec s1)];
        cbn [map app bop_time sorted_from]; rewrite H1; cbn [andb]; try rewrite H2; cbn [andb];
        apply IH; assumption.
  - apply IH. exact H.
Qed.

(* C05: for every upstream call sequence whatsoever (well-formed or not), every base-recorder
   fault script, every non-decreasing clock: all windows of forwarded writes obey the bound *)
Theorem S05_holds : forall cap q fi minlen faults us,
    1 <= cap -> 1 <= q -> 1 <= fi ->
    monotone us = true ->
    S05 cap q fi (thsteps cap q fi minlen faults us) = true.
Proof.
  intros cap q fi minlen faults us Hcap Hq Hfi Hmono.
  unfold S05, thsteps.
  rewrite flat_map_snd_combine by apply thrun_length.
  rewrite thrun_sim. unfold th_init at 1. cbn [th_b].
  apply bucket_windows; try assumption.
  apply bops_sorted. exact Hmono.
Qed.

