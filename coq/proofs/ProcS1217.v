(* C12: per-sink protocol; recovery.  C13 (processor half).  C17: continuous recorder tiling,
   21-frame test recordings, independence of the three recorders. *)
From Coq Require Import List ZArith Bool Arith Lia.
From TR Require Import model.Ring model.RingSpec model.Processor model.ProcAbs model.ProcSpec proofs.ProcRefine.
Import ListNotations.
Open Scope Z_scope.

(* every sink sees a well-formed call sequence, for every event list and every placement of
   start / write / stop / check failures on the three sinks; no panic *)
Theorem S12_holds : forall c fm fc ft evs,
    1 <= p_size c -> wf_ids 0 evs ->
    S12 (psteps c fm fc ft evs) = true.
Admitted.

(* recovery: from every reachable state whose remaining motion-sink fault script is
   fault-free, p_max+1 motionless frames followed by max 1 p_trig motion frames (window
   open) contain a successful start *)
Definition quiet (n0 : Z) (k : nat) : list ev := map (fun i => EFrame (n0 + Z.of_nat i) false true) (seq 0 k).
Definition burst (n0 : Z) (k : nat) : list ev := map (fun i => EFrame (n0 + Z.of_nat i) true true) (seq 0 k).

Theorem S12_recovers_holds : forall c fm evs1,
    1 <= p_size c -> 0 <= p_min c <= p_max c -> wf_ids 0 evs1 ->
    let s := mfinal c (minit c fm) evs1 in
    let n0 := nframes evs1 in
    forallb negb (m_faults s) = true ->
    let tail := quiet n0 (Z.to_nat (p_max c + 1)) ++
                burst (n0 + p_max c + 1) (Z.to_nat (Z.max 1 (p_trig c))) in
    existsb (has_start_ok SMotion) (mrun c s tail) = true.
Admitted.

Theorem S13_holds : forall c fm fc ft evs,
    1 <= p_size c -> wf_ids 0 evs ->
    S13 c (psteps c fm fc ft evs) = true.
Admitted.

(* after a bad frame that found no recording open, the motion machine is in the same state
   as before except for the (clobbered, about to be overwritten) current ring slot *)
Theorem bad_frame_resumes : forall c s,
    m_rec s = false ->
    let s' := fst (mstep c s EBad) in
    snd (mstep c s EBad) = [] /\
    m_rec s' = m_rec s /\ m_fw s' = m_fw s /\ m_wu s' = m_wu s /\ m_trig s' = m_trig s /\
    m_faults s' = m_faults s /\ m_ring s' = put (m_ring s) BAD_ID.
Admitted.

(* continuous recorder / test recording with fault-free sinks *)
Theorem S17c_holds : forall c fm fc ft evs,
    forallb negb fc = true -> 0 <= p_max c ->
    S17c c (psteps c fm fc ft evs) = true.
Admitted.

Theorem S17t_holds : forall c fm fc ft evs,
    forallb negb ft = true ->
    S17t (psteps c fm fc ft evs) = true.
Admitted.

(* independence: the continuous sink's calls do not depend on motion bits, window bits,
   resets, test-recording requests or the other sinks' faults *)
Definition erase_bits (e : ev) : ev :=
  match e with EFrame id _ _ => EFrame id false false | x => x end.
Definition keep_for_const (e : ev) : bool :=
  match e with EFrame _ _ _ | EBad => true | _ => false end.

Theorem const_independent : forall c fm fm' fc ft ft' evs,
    flat_map const_outs (prun c (pinit c fm fc ft) evs) =
    flat_map const_outs (prun c (pinit c fm' fc ft') (filter keep_for_const (map erase_bits evs))).
Admitted.

(* the motion sink's trace (and the listener callbacks) are identical with and without
   test-recording requests, and do not depend on the other sinks' faults *)
Definition not_snapreq (e : ev) : bool := match e with ESnapReq => false | _ => true end.

Theorem motion_undisturbed : forall c fm fc fc' ft ft' evs,
    flat_map motion_outs (prun c (pinit c fm fc ft) evs) =
    flat_map motion_outs (prun c (pinit c fm fc' ft') (filter not_snapreq evs)).
Admitted.
