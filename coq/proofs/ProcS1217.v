(* C12: per-sink protocol; recovery.  C13 (processor half).  C17: continuous recorder tiling,
   21-frame test recordings, independence of the three recorders. *)
From Coq Require Import List ZArith Bool Arith Lia.
From TR Require Import model.Ring model.RingSpec model.Processor model.ProcAbs model.ProcSpec proofs.ProcRefine.
From Coq Require Import ZifyBool.
Import ListNotations.
Open Scope Z_scope.

(* ------------------------------------------------------------------ *)
(* generic helpers *)

Lemma pinit_eq : forall c fm fc ft, pinit c fm fc ft = mkP (minit c fm) (cinit fc) (tinit ft).
Proof. reflexivity. Qed.

Lemma pop_nf : forall f, forallb negb f = true ->
    fst (pop f) = false /\ forallb negb (snd (pop f)) = true.
Proof.
  intros [|b f] H; cbn in *; [auto|].
  apply andb_true_iff in H. destruct H as [H1 H2]. destruct b; cbn in *; auto; discriminate.
Qed.

Lemma pop_nf_eq : forall f b f', forallb negb f = true -> pop f = (b, f') ->
    b = false /\ forallb negb f' = true.
Proof.
  intros f b f' H E. destruct (pop_nf f H) as [H1 H2]. rewrite E in *. cbn in *. auto.
Qed.

Lemma filter_none : forall (A : Type) (f g : A -> bool) l,
    forallb g l = true -> (forall x, g x = true -> f x = false) -> filter f l = [].
Proof.
  induction l as [|x l IH]; intros H K; cbn in *; [reflexivity|].
  apply andb_true_iff in H. destruct H as [H1 H2]. rewrite (K x H1). auto.
Qed.

Lemma filter_all : forall (A : Type) (f g : A -> bool) l,
    forallb g l = true -> (forall x, g x = true -> f x = true) -> filter f l = l.
Proof.
  induction l as [|x l IH]; intros H K; cbn in *; [reflexivity|].
  apply andb_true_iff in H. destruct H as [H1 H2]. rewrite (K x H1). f_equal. auto.
Qed.

Lemma existsb_none : forall (A : Type) (f g : A -> bool) l,
    forallb g l = true -> (forall x, g x = true -> f x = false) -> existsb f l = false.
Proof.
  induction l as [|x l IH]; intros H K; cbn in *; [reflexivity|].
  apply andb_true_iff in H. destruct H as [H1 H2]. rewrite (K x H1). auto.
Qed.

(* ------------------------------------------------------------------ *)
(* write_pre only issues writes of ids of its argument on the motion sink *)

Lemma write_pre_cons2 : forall id id2 rest f,
    write_pre (id :: id2 :: rest) f =
    let (failed, f') := pop f in
    if failed then (false, f', [Call SMotion (Write id) true])
    else let '(ok, f'', o) := write_pre (id2 :: rest) f' in
         (ok, f'', Call SMotion (Write id) false :: o).
Proof. reflexivity. Qed.

Definition is_mwrite (P : Z -> Prop) (x : out) : Prop :=
  match x with Call SMotion (Write w) _ => P w | _ => False end.

Lemma write_pre_outs : forall ids f,
    Forall (is_mwrite (fun w => In w ids)) (snd (write_pre ids f)).
Proof.
  induction ids as [|id rest IH]; intros f.
  - cbn. constructor.
  - destruct rest as [|id2 rest].
    + cbn. constructor.
    + rewrite write_pre_cons2. destruct (pop f) as [failed f']. destruct failed.
      * cbn [snd]. constructor; [unfold is_mwrite; left; reflexivity|constructor].
      * specialize (IH f'). destruct (write_pre (id2 :: rest) f') as [[ok f''] o].
        cbn [snd] in *. constructor; [unfold is_mwrite; left; reflexivity|].
        eapply Forall_impl; [|exact IH].
        intros x; destruct x as [[] [] ?| | | | |]; unfold is_mwrite; try tauto.
        intros K. right. exact K.
Qed.

Lemma write_pre_nf : forall ids f, forallb negb f = true ->
    forallb negb (snd (fst (write_pre ids f))) = true.
Proof.
  induction ids as [|id rest IH]; intros f H.
  - cbn. exact H.
  - destruct rest as [|id2 rest].
    + cbn. exact H.
    + rewrite write_pre_cons2. destruct (pop f) as [failed f'] eqn:E.
      destruct (pop_nf_eq _ _ _ H E) as [-> H'].
      specialize (IH f' H'). destruct (write_pre (id2 :: rest) f') as [[ok f''] o].
      cbn [fst snd] in *. exact IH.
Qed.

Lemma mwrite_motion : forall P o, Forall (is_mwrite P) o -> forallb is_motion_out o = true.
Proof.
  induction 1 as [|x o Hx Ho IH]; [reflexivity|].
  cbn [forallb]. rewrite IH. destruct x as [[] [] ?| | | | |]; cbn in *; tauto.
Qed.

Lemma mwrite_no_start : forall P s o, Forall (is_mwrite P) o -> has_start_any s o = false.
Proof.
  induction 1 as [|x o Hx Ho IH]; [reflexivity|].
  unfold has_start_any in *. cbn [existsb]. rewrite IH.
  destruct x as [[] [] ?| | | | |]; cbn in *; tauto.
Qed.

Lemma mwrite_no_start_ok : forall P s o, Forall (is_mwrite P) o -> has_start_ok s o = false.
Proof.
  induction 1 as [|x o Hx Ho IH]; [reflexivity|].
  unfold has_start_ok in *. cbn [existsb]. rewrite IH.
  destruct x as [[] [] ?| | | | |]; cbn in *; tauto.
Qed.

Lemma mwrite_no_stop : forall P s o, Forall (is_mwrite P) o -> has_stop s o = false.
Proof.
  induction 1 as [|x o Hx Ho IH]; [reflexivity|].
  unfold has_stop in *. cbn [existsb]. rewrite IH.
  destruct x as [[] [] ?| | | | |]; cbn in *; tauto.
Qed.

Lemma mwrite_s12 : forall P o x y, Forall (is_mwrite P) o ->
    fold_left s12_out o (mk12 true x y true) = mk12 true x y true.
Proof.
  induction 1 as [|z o Hz Ho IH]; [reflexivity|].
  cbn [fold_left]. destruct z as [[] [] ?| | | | |]; cbn in Hz; try tauto.
Qed.

(* ------------------------------------------------------------------ *)
(* the concrete motion machine only produces motion-kind outputs *)

Lemma stop_recording_motion : forall s, forallb is_motion_out (snd (stop_recording s)) = true.
Proof.
  intros s. unfold stop_recording. destruct (negb (m_rec s)); [reflexivity|].
  destruct (pop (m_faults s)). reflexivity.
Qed.

Ltac brk1 :=
  match goal with
  | |- context [match ?x with _ => _ end] =>
      lazymatch x with
      | context [match _ with _ => _ end] => fail
      | negb ?b => destruct b eqn:?; cbn [negb]
      | _ => destruct x eqn:?
      end
  end.

Lemma mprocess_motion : forall c s id motion win,
    forallb is_motion_out (snd (mprocess c s id motion win)) = true.
Proof.
  intros c s id motion win. unfold mprocess.
  repeat (brk1; cbn [m_rec m_faults m_ring m_fw m_wu m_trig fst snd]);
    rewrite ?forallb_app; cbn [forallb is_motion_out andb];
    repeat match goal with
           | H : stop_recording ?s = (_, ?o) |- _ =>
               let K := fresh in pose proof (stop_recording_motion s) as K; rewrite H in K;
               cbn [snd] in K; rewrite K; clear H
           | H : write_pre ?a ?b = (_, ?o) |- _ =>
               let K := fresh in pose proof (mwrite_motion _ _ (write_pre_outs a b)) as K; rewrite H in K;
               cbn [snd] in K; rewrite K; clear H
           end; reflexivity.
Qed.

Lemma mstep_outs_motion : forall c m e, forallb is_motion_out (snd (mstep c m e)) = true.
Proof.
  intros c m e. destruct e; cbn [mstep].
  - apply mprocess_motion.
  - apply stop_recording_motion.
  - apply stop_recording_motion.
  - reflexivity.
Qed.

(* ------------------------------------------------------------------ *)
(* projections of a concatenated step output *)

Lemma motion_outs_app3 : forall om oc ot,
    forallb is_const_out oc = true -> forallb is_test_out ot = true ->
    motion_outs (om ++ oc ++ ot) = motion_outs om.
Proof.
  intros om oc ot Hc Ht. unfold motion_outs. rewrite !filter_app.
  rewrite (filter_none _ _ is_const_out oc Hc), (filter_none _ _ is_test_out ot Ht).
  - rewrite !app_nil_r. reflexivity.
  - intros x; destruct x as [[] [] ?| | | | |]; cbn; congruence.
  - intros x; destruct x as [[] [] ?| | | | |]; cbn; congruence.
Qed.

Lemma const_outs_app3 : forall om oc ot,
    forallb is_motion_out om = true -> forallb is_const_out oc = true -> forallb is_test_out ot = true ->
    const_outs (om ++ oc ++ ot) = oc.
Proof.
  intros om oc ot Hm Hc Ht. unfold const_outs. rewrite !filter_app.
  rewrite (filter_none _ _ is_motion_out om Hm), (filter_none _ _ is_test_out ot Ht),
    (filter_all _ _ is_const_out oc Hc).
  - rewrite app_nil_r. reflexivity.
  - intros x; destruct x as [[] [] ?| | | | |]; cbn; congruence.
  - intros x; destruct x as [[] [] ?| | | | |]; cbn; congruence.
  - intros x; destruct x as [[] [] ?| | | | |]; cbn; congruence.
Qed.

Lemma test_outs_app3 : forall om oc ot,
    forallb is_motion_out om = true -> forallb is_const_out oc = true -> forallb is_test_out ot = true ->
    test_outs (om ++ oc ++ ot) = ot.
Proof.
  intros om oc ot Hm Hc Ht. unfold test_outs. rewrite !filter_app.
  rewrite (filter_none _ _ is_motion_out om Hm), (filter_none _ _ is_const_out oc Hc),
    (filter_all _ _ is_test_out ot Ht).
  - reflexivity.
  - intros x; destruct x as [[] [] ?| | | | |]; cbn; congruence.
  - intros x; destruct x as [[] [] ?| | | | |]; cbn; congruence.
  - intros x; destruct x as [[] [] ?| | | | |]; cbn; congruence.
Qed.

Lemma mstep_k : forall c m e m' om, mstep c m e = (m', om) -> forallb is_motion_out om = true.
Proof. intros c m e m' om E. pose proof (mstep_outs_motion c m e) as H. rewrite E in H. exact H. Qed.
Lemma astep_k : forall c a e a' om, astep c a e = (a', om) -> forallb is_motion_out om = true.
Proof. intros c a e a' om E. pose proof (astep_outs_motion c a e) as H. rewrite E in H. exact H. Qed.
Lemma cstep_k : forall c s e s' oc, cstep c s e = (s', oc) -> forallb is_const_out oc = true.
Proof. intros c s e s' oc E. pose proof (cstep_outs_const c s e) as H. rewrite E in H. exact H. Qed.
Lemma tstep_k : forall s e s' ot, tstep s e = (s', ot) -> forallb is_test_out ot = true.
Proof. intros s e s' ot E. pose proof (tstep_outs_test s e) as H. rewrite E in H. exact H. Qed.

Lemma outs_eqb_refl : forall o, outs_eqb o o = true.
Proof.
  induction o as [|x o IH]; [reflexivity|]. cbn [outs_eqb]. rewrite IH.
  destruct x as [[] [] []| | | | |]; cbn; rewrite ?Z.eqb_refl, ?eqb_reflx; reflexivity.
Qed.

(* ------------------------------------------------------------------ *)
(* properties of one step of the abstract motion machine *)

Lemma has_start_ok_app : forall s a b, has_start_ok s (a ++ b) = has_start_ok s a || has_start_ok s b.
Proof. intros. unfold has_start_ok. apply existsb_app. Qed.
Lemma has_stop_app : forall s a b, has_stop s (a ++ b) = has_stop s a || has_stop s b.
Proof. intros. unfold has_stop. apply existsb_app. Qed.
Lemma has_start_any_app : forall s a b, has_start_any s (a ++ b) = has_start_any s a || has_start_any s b.
Proof. intros. unfold has_start_any. apply existsb_app. Qed.

Definition wr_ok (id : Z) (o : list out) : bool :=
  forallb (fun x => match x with Call _ (Write w) _ => (0 <=? w) && (w <=? id) | _ => true end) o.

Lemma wr_ok_app : forall id a b, wr_ok id (a ++ b) = wr_ok id a && wr_ok id b.
Proof. intros. unfold wr_ok. apply forallb_app. Qed.

Lemma mwrite_wr_ok : forall P id o, Forall (is_mwrite P) o -> (forall w, P w -> 0 <= w <= id) ->
    wr_ok id o = true.
Proof.
  induction 1 as [|x o Hx Ho IH]; intros K; [reflexivity|].
  unfold wr_ok in *. cbn [forallb]. rewrite (IH K).
  destruct x as [[] [] ?| | | | |]; cbn in Hx; try tauto. specialize (K _ Hx). lia.
Qed.

Lemma wr_ok_writes : forall id s o, wr_ok id o = true ->
    forallb (fun w => (0 <=? w) && (w <=? id)) (writes_of s o) = true.
Proof.
  induction o as [|x o IH]; intros H; [reflexivity|].
  unfold wr_ok in *. cbn [forallb] in H. apply andb_true_iff in H. destruct H as [H1 H2].
  unfold writes_of in *. cbn [flat_map]. rewrite forallb_app, (IH H2), andb_true_r.
  destruct x as [s' [] ?| | | | |]; try reflexivity.
  destruct s, s'; cbn [forallb]; rewrite ?H1; reflexivity.
Qed.

Lemma zseq_in : forall cnt lo w, In w (zseq lo cnt) -> lo <= w < lo + Z.of_nat cnt.
Proof.
  induction cnt as [|k IH]; intros lo w H; cbn [zseq In] in H; [tauto|].
  destruct H as [H|H]; [lia|]. apply IH in H. lia.
Qed.

Lemma ahistory_in : forall c mark id w, In w (ahistory c mark id) -> mark <= w <= id.
Proof. intros c mark id w H. unfold ahistory in H. apply zseq_in in H. lia. Qed.

Ltac wp_facts :=
  repeat match goal with
         | H : write_pre ?a ?b = (_, ?o) |- _ =>
             let W := fresh "W" in
             pose proof (write_pre_outs a b) as W; rewrite H in W; cbn [snd] in W;
             let N := fresh "N" in
             pose proof (write_pre_nf a b) as N; rewrite H in N; cbn [fst snd] in N;
             clear H
         end.

Ltac abrk :=
  unfold aprocess, astop;
  cbn [a_n a_mark a_rec a_fw a_wu a_trig a_faults];
  repeat (brk1; cbn [a_n a_mark a_rec a_fw a_wu a_trig a_faults fst snd negb andb]).

Lemma astop_s12 : forall a x y,
    fold_left s12_out (snd (astop a)) (mk12 (a_rec a) x y true) = mk12 (a_rec (fst (astop a))) x y true.
Proof.
  intros [n mark rec fw wu trig fl] x y. abrk; try discriminate; subst; reflexivity.
Qed.

Lemma aprocess_s12 : forall c a id mo w x y,
    fold_left s12_out (snd (aprocess c a id mo w)) (mk12 (a_rec a) x y true) =
    mk12 (a_rec (fst (aprocess c a id mo w))) x y true.
Proof.
  intros c [n mark rec fw wu trig fl] id mo w x y. abrk; try discriminate; wp_facts;
    rewrite ?fold_left_app; cbn [fold_left s12_out s12_set s12_get s12_m s12_c s12_t s12_ok negb andb app];
    rewrite ?(mwrite_s12 _ _ _ _ W); reflexivity.
Qed.

Lemma astep_s12 : forall c a e x y,
    fold_left s12_out (snd (astep c a e)) (mk12 (a_rec a) x y true) =
    mk12 (a_rec (fst (astep c a e))) x y true.
Proof.
  intros c a e x y. destruct e; cbn [astep].
  - apply aprocess_s12.
  - apply astop_s12.
  - apply astop_s12.
  - reflexivity.
Qed.

Lemma cstep_s12 : forall c cs e x y, 0 <= c_frames cs ->
    fold_left s12_out (snd (cstep c cs e)) (mk12 x (0 <? c_frames cs) y true) =
    mk12 x (0 <? c_frames (fst (cstep c cs e))) y true /\ 0 <= c_frames (fst (cstep c cs e)).
Proof.
  intros c [fr fl] e x y H. cbn [c_frames] in *.
  destruct (0 <? fr) eqn:E0;
    destruct e; cbn [cstep]; unfold cprocess; cbn [c_frames c_faults];
    repeat (brk1; cbn [c_frames c_faults fst snd negb andb app]); try (exfalso; lia);
    cbn [fold_left s12_out s12_set s12_get s12_m s12_c s12_t s12_ok negb andb app c_frames c_faults fst snd];
    (split; [f_equal; lia|lia]).
Qed.

Lemma tstep_s12 : forall ts e x y,
    fold_left s12_out (snd (tstep ts e)) (mk12 x y (t_rec ts) true) =
    mk12 x y (t_rec (fst (tstep ts e))) true.
Proof.
  intros [tsr trc tfr tfl] e x y. cbn [t_rec].
  destruct e; cbn [tstep]; unfold tprocess; cbn [t_start t_rec t_frames t_faults];
    repeat (brk1; cbn [t_start t_rec t_frames t_faults fst snd negb andb app]); try discriminate;
    cbn [t_start t_rec t_frames t_faults fst snd]; reflexivity.
Qed.

Definition R12 (st : s12) (a : astate) (cs : cstate) (ts : tstate) : Prop :=
  s12_ok st = true /\ s12_m st = a_rec a /\ 0 <= c_frames cs /\
  s12_c st = (0 <? c_frames cs) /\ s12_t st = t_rec ts.

Lemma S12_gen : forall c evs a cs ts st,
    R12 st a cs ts ->
    s12_ok (fold_left s12_out
              (flat_map snd (combine evs (zip3 (arun c a evs) (crun c cs evs) (trun ts evs)))) st) = true.
Proof.
  induction evs as [|e evs IH]; intros a cs ts st HR.
  - cbn. apply HR.
  - destruct st as [sm sc stt ok]. destruct HR as (Hok & Hm & Hc & Hsc & Ht).
    cbn [s12_ok s12_m s12_c s12_t] in *. subst.
    cbn [arun crun trun].
    pose proof (astep_s12 c a e (0 <? c_frames cs) (t_rec ts)) as Ka.
    destruct (astep c a e) as [a' om].
    destruct (cstep_s12 c cs e (a_rec a') (t_rec ts) Hc) as [Kc Kc'].
    destruct (cstep c cs e) as [cs' oc].
    pose proof (tstep_s12 ts e (a_rec a') (0 <? c_frames cs')) as Kt.
    destruct (tstep ts e) as [ts' ot].
    cbn [fst snd zip3 combine flat_map] in *.
    rewrite !fold_left_app, Ka, Kc, Kt. apply IH.
    unfold R12. cbn. auto.
Qed.

(* every sink sees a well-formed call sequence, for every event list and every placement of
   start / write / stop / check failures on the three sinks; no panic *)
Theorem S12_holds : forall c fm fc ft evs,
    1 <= p_size c -> wf_ids 0 evs ->
    S12 (psteps c fm fc ft evs) = true.
Proof.
  intros c fm fc ft evs Hs Hwf. unfold S12, psteps.
  rewrite pinit_eq, prun_zip3, (mrun_arun c fm evs Hs Hwf).
  apply S12_gen. unfold R12, ainit, cinit, tinit. cbn. repeat split; reflexivity || lia.
Qed.

(* ------------------------------------------------------------------ *)
(* C12 recovery *)

Fixpoint afinal (c : pcfg) (a : astate) (evs : list ev) : astate :=
  match evs with
  | [] => a
  | e :: t => afinal c (fst (astep c a e)) t
  end.

Lemma arun_app : forall c l1 l2 a,
    arun c a (l1 ++ l2) = arun c a l1 ++ arun c (afinal c a l1) l2.
Proof.
  induction l1 as [|e l1 IH]; intros l2 a; cbn [app arun afinal]; [reflexivity|].
  destruct (astep c a e) as [a' o]. cbn [fst]. rewrite IH. reflexivity.
Qed.

Definition AInv (c : pcfg) (a : astate) : Prop :=
  0 <= a_fw a /\ a_wu a <= p_max c /\ 0 <= a_trig a.

Lemma astep_AInv : forall c a e, 0 <= p_min c <= p_max c -> AInv c a -> AInv c (fst (astep c a e)).
Proof.
  intros c [n mark rec fw wu trig fl] e Hp (H1 & H2 & H3). cbn [a_fw a_wu a_trig] in *.
  destruct e; cbn [astep]; unfold AInv.
  - abrk; cbn [a_n a_mark a_rec a_fw a_wu a_trig a_faults fst snd]; clear - Hp H1 H2 H3; lia.
  - abrk; cbn [a_n a_mark a_rec a_fw a_wu a_trig a_faults fst snd]; clear - Hp H1 H2 H3; lia.
  - abrk; cbn [a_n a_mark a_rec a_fw a_wu a_trig a_faults fst snd]; clear - Hp H1 H2 H3; lia.
  - cbn. lia.
Qed.

Lemma afinal_AInv : forall c evs a, 0 <= p_min c <= p_max c -> AInv c a -> AInv c (afinal c a evs).
Proof.
  induction evs as [|e evs IH]; intros a Hp H; cbn [afinal]; [exact H|].
  apply IH; [exact Hp|]. apply astep_AInv; assumption.
Qed.

Lemma reach_sim : forall c evs m a,
    Sim c m a -> wf_ids (a_n a) evs ->
    Sim c (mfinal c m evs) (afinal c a evs) /\ a_n (afinal c a evs) = a_n a + nframes evs.
Proof.
  induction evs as [|e evs IH]; intros m a HS Hwf; cbn [mfinal afinal nframes].
  - split; [exact HS|lia].
  - assert (He : match e with EFrame id _ _ => id = a_n a | _ => True end).
    { destruct e; cbn in Hwf; tauto. }
    destruct (Sim_step c m a e HS He) as [_ HS'].
    pose proof (an_step c a e) as Kn.
    assert (Hwf' : wf_ids (a_n (fst (astep c a e))) evs).
    { rewrite Kn. destruct e; cbn in Hwf; try tauto. destruct Hwf as [-> Hwf]. exact Hwf. }
    destruct (IH _ _ HS' Hwf') as [K1 K2]. split; [exact K1|].
    rewrite K2, Kn. destruct e; cbn in Hwf; lia.
Qed.

Definition nof (a : astate) : Prop := forallb negb (a_faults a) = true.
Definition qpre (c : pcfg) (j : Z) (a : astate) : Prop :=
  a_rec a = true -> a_wu a <= p_max c /\ j <= a_fw a.
Definition qpost (c : pcfg) (j : Z) (a : astate) : Prop :=
  nof a /\ (a_rec a = true -> a_wu a <= p_max c /\ j <= a_fw a /\ a_fw a < a_wu a).

Ltac pop_facts :=
  repeat match goal with
         | Hf : forallb negb ?f = true, E : pop ?f = (?b, ?l) |- _ =>
             let H1 := fresh "Hb" in let H2 := fresh "Hf" in
             destruct (pop_nf_eq _ _ _ Hf E) as [H1 H2]; clear E; try discriminate H1; try subst b
         end.

Lemma quiet_step : forall c a id j,
    nof a -> qpre c j a -> qpost c (j + 1) (fst (aprocess c a id false true)).
Proof.
  intros c [n mark rec fw wu trig fl] id j Hn Hq. unfold nof, qpre, qpost in *.
  cbn [a_n a_mark a_rec a_fw a_wu a_trig a_faults] in *.
  abrk; pop_facts; cbn [a_n a_mark a_rec a_fw a_wu a_trig a_faults fst snd];
    (split; [assumption|intros K; try discriminate K; specialize (Hq eq_refl); lia]).
Qed.

Lemma burst_step : forall c a id,
    a_rec a = false -> nof a ->
    has_start_ok SMotion (snd (aprocess c a id true true)) = true \/
    (a_trig a + 1 < p_trig c /\ a_rec (fst (aprocess c a id true true)) = false /\
     nof (fst (aprocess c a id true true)) /\
     a_trig (fst (aprocess c a id true true)) = a_trig a + 1).
Proof.
  intros c [n mark rec fw wu trig fl] id Hr Hn. unfold nof in *.
  cbn [a_n a_mark a_rec a_fw a_wu a_trig a_faults] in *. subst rec.
  abrk; pop_facts; cbn [a_n a_mark a_rec a_fw a_wu a_trig a_faults fst snd];
    try discriminate;
    first [ right; repeat split; solve [assumption | reflexivity | lia]
          | left; rewrite ?has_start_ok_app; reflexivity ].
Qed.

(* recovery: from every reachable state whose remaining motion-sink fault script is
   fault-free, p_max+1 motionless frames followed by max 1 p_trig motion frames (window
   open) contain a successful start *)
Definition quiet (n0 : Z) (k : nat) : list ev := map (fun i => EFrame (n0 + Z.of_nat i) false true) (seq 0 k).
Definition burst (n0 : Z) (k : nat) : list ev := map (fun i => EFrame (n0 + Z.of_nat i) true true) (seq 0 k).


Lemma quiet_S : forall n k, quiet n (S k) = EFrame n false true :: quiet (n + 1) k.
Proof.
  intros n k. unfold quiet. cbn [seq map]. f_equal; [f_equal; lia|].
  rewrite <- seq_shift, map_map. apply map_ext. intros i. f_equal. lia.
Qed.

Lemma burst_S : forall n k, burst n (S k) = EFrame n true true :: burst (n + 1) k.
Proof.
  intros n k. unfold burst. cbn [seq map]. f_equal; [f_equal; lia|].
  rewrite <- seq_shift, map_map. apply map_ext. intros i. f_equal. lia.
Qed.

Lemma quiet_run : forall c k n a j,
    nof a -> qpre c j a ->
    qpost c (j + Z.of_nat (S k)) (afinal c a (quiet n (S k))).
Proof.
  induction k as [|k IH]; intros n a j Hn Hq; rewrite quiet_S; cbn [afinal astep];
    pose proof (quiet_step c a n j Hn Hq) as K.
  - unfold quiet. cbn [seq map afinal]. replace (j + Z.of_nat 1) with (j + 1) by lia. exact K.
  - replace (j + Z.of_nat (S (S k))) with (j + 1 + Z.of_nat (S k)) by lia.
    destruct K as [K1 K2]. apply IH; [exact K1|].
    intros R. specialize (K2 R). lia.
Qed.

Lemma burst_run : forall c k n a,
    a_rec a = false -> nof a -> p_trig c <= a_trig a + Z.of_nat k -> (1 <= k)%nat ->
    existsb (has_start_ok SMotion) (arun c a (burst n k)) = true.
Proof.
  induction k as [|k IH]; intros n a Hr Hn Ht Hk; [lia|].
  rewrite burst_S. cbn [arun astep].
  destruct (burst_step c a n Hr Hn) as [Hs | (H1 & H2 & H3 & H4)];
    destruct (aprocess c a n true true) as [a' o]; cbn [fst snd existsb] in *.
  - rewrite Hs. reflexivity.
  - rewrite IH; [apply orb_true_r|assumption|assumption|lia|lia].
Qed.

Lemma wf_ids_app : forall l1 l2 n,
    wf_ids n l1 -> wf_ids (n + nframes l1) l2 -> wf_ids n (l1 ++ l2).
Proof.
  induction l1 as [|e l1 IH]; intros l2 n H1 H2; cbn [app nframes] in *.
  - rewrite Z.add_0_r in H2. exact H2.
  - destruct e; cbn [wf_ids nframes] in *.
    + destruct H1 as [-> H1]. split; [reflexivity|]. apply IH; [exact H1|].
      replace (n + 1 + nframes l1) with (n + (1 + nframes l1)) by lia. exact H2.
    + apply IH; assumption.
    + apply IH; assumption.
    + apply IH; assumption.
Qed.

Lemma wf_quiet : forall k n, wf_ids n (quiet n k).
Proof.
  induction k as [|k IH]; intros n; [exact I|]. rewrite quiet_S. cbn [wf_ids]. split; [reflexivity|apply IH].
Qed.

Lemma wf_burst : forall k n, wf_ids n (burst n k).
Proof.
  induction k as [|k IH]; intros n; [exact I|]. rewrite burst_S. cbn [wf_ids]. split; [reflexivity|apply IH].
Qed.

Lemma nframes_quiet : forall k n, nframes (quiet n k) = Z.of_nat k.
Proof.
  induction k as [|k IH]; intros n; [reflexivity|]. rewrite quiet_S. cbn [nframes]. rewrite IH. lia.
Qed.

Theorem S12_recovers_holds : forall c fm evs1,
    1 <= p_size c -> 0 <= p_min c <= p_max c -> wf_ids 0 evs1 ->
    let s := mfinal c (minit c fm) evs1 in
    let n0 := nframes evs1 in
    forallb negb (m_faults s) = true ->
    let tail := quiet n0 (Z.to_nat (p_max c + 1)) ++
                burst (n0 + p_max c + 1) (Z.to_nat (Z.max 1 (p_trig c))) in
    existsb (has_start_ok SMotion) (mrun c s tail) = true.
Proof.
  intros c fm evs1 Hs Hp Hwf s n0 Hf tail.
  destruct (reach_sim c evs1 (minit c fm) (ainit fm) (Sim_init c fm Hs) Hwf) as [HS Hn].
  cbn [ainit a_n] in Hn. fold s in HS. fold n0 in Hn.
  set (a := afinal c (ainit fm) evs1) in *.
  assert (HA : AInv c a).
  { apply afinal_AInv; [exact Hp|]. unfold AInv, ainit. cbn. lia. }
  assert (Hnf : nof a).
  { destruct HS as (_ & _ & _ & _ & Hfl & _). unfold nof. rewrite <- Hfl. exact Hf. }
  assert (Hwt : wf_ids (a_n a) tail).
  { rewrite Hn. subst tail. apply wf_ids_app; [apply wf_quiet|]. rewrite nframes_quiet.
    replace (0 + n0 + Z.of_nat (Z.to_nat (p_max c + 1))) with (n0 + p_max c + 1) by lia.
    apply wf_burst. }
  rewrite (mrun_arun_gen c tail s a HS Hwt). subst tail. rewrite arun_app, existsb_app.
  replace (Z.to_nat (p_max c + 1)) with (S (Z.to_nat (p_max c))) by lia.
  assert (Hq : qpre c 0 a).
  { intros _. destruct HA as (H1 & H2 & H3). lia. }
  destruct (quiet_run c (Z.to_nat (p_max c)) (0 + n0) a 0 Hnf Hq) as [K1 K2].
  assert (HA' : AInv c (afinal c a (quiet (0 + n0) (S (Z.to_nat (p_max c)))))).
  { apply afinal_AInv; assumption. }
  rewrite Z.add_0_l in *.
  rewrite burst_run; [apply orb_true_r| |exact K1| |lia].
  - destruct (a_rec (afinal c a (quiet n0 (S (Z.to_nat (p_max c)))))); [|reflexivity].
    specialize (K2 eq_refl). lia.
  - destruct HA' as (_ & _ & H3). lia.
Qed.

(* ------------------------------------------------------------------ *)
(* C13 *)

Definition s13_post (a : astate) (id : Z) (r : astate * list out) : Prop :=
  a_rec (fst r) = (a_rec a || has_start_ok SMotion (snd r)) && negb (has_stop SMotion (snd r)) /\
  wr_ok id (snd r) = true /\
  0 <= a_mark (fst r) <= a_n (fst r).

Lemma aprocess_s13' : forall c a id mo w, 0 <= a_mark a <= id ->
    s13_post a id (aprocess c a id mo w).
Proof.
  intros c [n mark rec fw wu trig fl] id mo w H. cbn [a_mark] in H.
  assert (Hid : (0 <=? id) && (id <=? id) = true) by lia.
  abrk; try discriminate; wp_facts; unfold s13_post;
    cbn [a_n a_mark a_rec a_fw a_wu a_trig a_faults fst snd];
    rewrite ?has_start_ok_app, ?has_stop_app, ?wr_ok_app;
    rewrite ?(mwrite_no_start_ok _ SMotion _ W), ?(mwrite_no_stop _ SMotion _ W),
      ?(mwrite_wr_ok _ id _ W) by (intros ? K; apply ahistory_in in K; clear - H K; lia);
    (split; [reflexivity|split; [unfold wr_ok; cbn [forallb andb]; rewrite ?Hid; reflexivity|clear - H; lia]]).
Qed.

Lemma aprocess_s13 : forall c a id mo w, 0 <= a_mark a <= id ->
    a_rec (fst (aprocess c a id mo w)) =
      (a_rec a || has_start_ok SMotion (snd (aprocess c a id mo w)))
      && negb (has_stop SMotion (snd (aprocess c a id mo w))) /\
    wr_ok id (snd (aprocess c a id mo w)) = true /\
    0 <= a_mark (fst (aprocess c a id mo w)) <= a_n (fst (aprocess c a id mo w)).
Proof. intros c a id mo w H. exact (aprocess_s13' c a id mo w H). Qed.

Lemma has_start_ok_app3 : forall om oc ot,
    forallb is_const_out oc = true -> forallb is_test_out ot = true ->
    has_start_ok SMotion (om ++ oc ++ ot) = has_start_ok SMotion om.
Proof.
  intros om oc ot Hc Ht. rewrite !has_start_ok_app. unfold has_start_ok at 2 3.
  rewrite (existsb_none _ _ is_const_out oc Hc), (existsb_none _ _ is_test_out ot Ht).
  - rewrite !orb_false_r. reflexivity.
  - intros x; destruct x as [[] [] []| | | | |]; cbn; congruence.
  - intros x; destruct x as [[] [] []| | | | |]; cbn; congruence.
Qed.

Lemma has_stop_app3 : forall om oc ot,
    forallb is_const_out oc = true -> forallb is_test_out ot = true ->
    has_stop SMotion (om ++ oc ++ ot) = has_stop SMotion om.
Proof.
  intros om oc ot Hc Ht. rewrite !has_stop_app. unfold has_stop at 2 3.
  rewrite (existsb_none _ _ is_const_out oc Hc), (existsb_none _ _ is_test_out ot Ht).
  - rewrite !orb_false_r. reflexivity.
  - intros x; destruct x as [[] [] []| | | | |]; cbn; congruence.
  - intros x; destruct x as [[] [] []| | | | |]; cbn; congruence.
Qed.

Lemma cstep_wr : forall c cs id mo w, 0 <= id -> wr_ok id (snd (cstep c cs (EFrame id mo w))) = true.
Proof.
  intros c [fr fl] id mo w H. cbn [cstep]. unfold cprocess. cbn [c_frames c_faults].
  repeat (brk1; cbn [c_frames c_faults fst snd negb andb app]);
    unfold wr_ok; cbn [forallb andb snd]; lia.
Qed.

Lemma tstep_wr : forall ts id mo w, 0 <= id -> wr_ok id (snd (tstep ts (EFrame id mo w))) = true.
Proof.
  intros [tsr trc tfr tfl] id mo w H. cbn [tstep]. unfold tprocess. cbn [t_start t_rec t_frames t_faults].
  repeat (brk1; cbn [t_start t_rec t_frames t_faults fst snd negb andb app]);
    unfold wr_ok; cbn [forallb andb snd]; lia.
Qed.

Definition R13 (st : s13) (a : astate) : Prop :=
  s13_ok st = true /\ s13_open st = a_rec a /\ 0 <= a_mark a <= a_n a.

Lemma s13_step_inv : forall c st a cs ts e,
    R13 st a -> match e with EFrame id _ _ => id = a_n a | _ => True end ->
    R13 (s13_step c st (e, snd (astep c a e) ++ snd (cstep c cs e) ++ snd (tstep ts e)))
        (fst (astep c a e)).
Proof.
  intros c st a cs ts e HR He. destruct st as [op hi ok]. destruct HR as (Hok & Hop & Hmk).
  cbn [s13_ok s13_open] in *. subst ok op.
  destruct e.
  - subst id. unfold s13_step.
    rewrite has_start_ok_app3, has_stop_app3 by (auto using cstep_outs_const, tstep_outs_test).
    cbn [astep].
    destruct (aprocess_s13 c a (a_n a) motion win ltac:(lia)) as (K1 & K2 & K3).
    unfold R13. cbn [s13_ok s13_open]. rewrite <- K1.
    split; [|split; [reflexivity|exact K3]].
    rewrite !forallb_app.
    rewrite !wr_ok_writes; [reflexivity| | |];
      rewrite !wr_ok_app, K2, cstep_wr, tstep_wr by lia; reflexivity.
  - destruct a as [n mark rec fw wu trig fl], cs as [cfr cfl]. cbn [astep cstep tstep].
    cbn [a_n a_mark a_rec] in *.
    unfold astop. cbn [a_n a_mark a_rec a_fw a_wu a_trig a_faults c_frames c_faults].
    repeat (brk1; cbn [fst snd negb andb]); unfold R13; cbn; (split; [reflexivity|split; [reflexivity|lia]]).
  - destruct a as [n mark rec fw wu trig fl]. cbn [astep cstep tstep].
    cbn [a_n a_mark a_rec] in *.
    unfold astop. cbn [a_n a_mark a_rec a_fw a_wu a_trig a_faults].
    repeat (brk1; cbn [fst snd negb andb]); unfold R13; cbn; (split; [reflexivity|split; [reflexivity|lia]]).
  - cbn [astep cstep tstep fst snd]. unfold R13. cbn. rewrite andb_true_r. auto.
Qed.

Lemma S13_gen : forall c evs a cs ts st,
    wf_ids (a_n a) evs -> R13 st a ->
    s13_ok (fold_left (s13_step c)
              (combine evs (zip3 (arun c a evs) (crun c cs evs) (trun ts evs))) st) = true.
Proof.
  induction evs as [|e evs IH]; intros a cs ts st Hwf HR.
  - cbn. apply HR.
  - cbn [arun crun trun].
    assert (He : match e with EFrame id _ _ => id = a_n a | _ => True end).
    { destruct e; cbn in Hwf; tauto. }
    pose proof (s13_step_inv c st a cs ts e HR He) as K.
    pose proof (an_step c a e) as Kn.
    destruct (astep c a e) as [a' om]. destruct (cstep c cs e) as [cs' oc]. destruct (tstep ts e) as [ts' ot].
    cbn [fst snd zip3 combine fold_left] in *.
    apply IH; [|exact K].
    rewrite Kn. destruct e; cbn in Hwf; try tauto. destruct Hwf as [-> Hwf]. exact Hwf.
Qed.

Theorem S13_holds : forall c fm fc ft evs,
    1 <= p_size c -> wf_ids 0 evs ->
    S13 c (psteps c fm fc ft evs) = true.
Proof.
  intros c fm fc ft evs Hs Hwf. unfold S13, psteps.
  rewrite pinit_eq, prun_zip3, (mrun_arun c fm evs Hs Hwf).
  apply S13_gen; [exact Hwf|]. unfold R13, ainit. cbn. repeat split; reflexivity || lia.
Qed.

(* after a bad frame that found no recording open, the motion machine is in the same state
   as before except for the (clobbered, about to be overwritten) current ring slot *)
Theorem bad_frame_resumes : forall c s,
    m_rec s = false ->
    let s' := fst (mstep c s EBad) in
    snd (mstep c s EBad) = [] /\
    m_rec s' = m_rec s /\ m_fw s' = m_fw s /\ m_wu s' = m_wu s /\ m_trig s' = m_trig s /\
    m_faults s' = m_faults s /\ m_ring s' = put (m_ring s) BAD_ID.
Proof.
  intros c s H s'. subst s'. unfold mstep, stop_recording. cbn [m_rec]. rewrite H.
  cbn. rewrite ?H. repeat split; reflexivity.
Qed.


(* ------------------------------------------------------------------ *)
(* continuous recorder / test recording with fault-free sinks *)

Ltac popnf :=
  match goal with
  | |- context [pop ?g] =>
      match goal with
      | Hf : forallb negb ?f = true |- _ =>
          constr_eq f g;
          let b := fresh "b" in let f' := fresh "f" in let E := fresh "E" in
          let Hb := fresh "Hb" in let Hf' := fresh "Hf" in
          destruct (pop g) as [b f'] eqn:E; destruct (pop_nf_eq _ _ _ Hf E) as [Hb Hf']; subst b; clear E
      end
  end.

Definition R17c (c : pcfg) (st : s17c) (cs : cstate) : Prop :=
  s17c_ok st = true /\ forallb negb (c_faults cs) = true /\
  (p_const c = true -> 0 <= c_frames cs <= p_max c /\ s17c_open st = (0 <? c_frames cs) /\
                       (s17c_open st = true -> s17c_cnt st = c_frames cs)).

Lemma s17c_step_inv : forall c st cs e om ot,
    0 <= p_max c -> R17c c st cs ->
    forallb is_motion_out om = true -> forallb is_test_out ot = true ->
    R17c c (s17c_step c st (e, om ++ snd (cstep c cs e) ++ ot)) (fst (cstep c cs e)).
Proof.
  intros c st cs e om ot Hp HR Hm Ht.
  unfold s17c_step. rewrite const_outs_app3 by (auto using cstep_outs_const).
  destruct st as [op cnt ok], cs as [fr fl]. unfold R17c in *.
  cbn [s17c_ok s17c_open s17c_cnt c_frames c_faults] in *.
  destruct HR as (Hok & Hf & HC). subst ok.
  destruct (p_const c) eqn:Ep; cbn [negb].
  2:{ destruct e; cbn [cstep]; unfold cprocess; rewrite ?Ep; cbn;
      (split; [reflexivity|split; [assumption|discriminate]]). }
  destruct (HC eq_refl) as (Hr & Hop & Hcnt). clear HC.
  destruct e; cbn [cstep]; unfold cprocess; rewrite ?Ep; cbn [negb c_frames c_faults].
  - rewrite Z.gtb_ltb.
    assert (Hc : (if op then cnt else 0) = fr).
    { destruct op; [apply Hcnt; reflexivity|lia]. }
    rewrite Hc. clear Hcnt Hc.
    destruct (fr =? 0) eqn:E1;
      [assert (Ho : op = false) by lia|assert (Ho : op = true) by lia]; clear Hop; subst op;
      repeat popnf; cbn [negb]; repeat popnf;
      destruct (p_max c <? fr + 1) eqn:E2; repeat popnf;
      cbn [fst snd c_frames c_faults s17c_ok s17c_open s17c_cnt app andb negb];
      rewrite outs_eqb_refl;
      (split; [reflexivity|split; [assumption|intros _; clear - Hr E1 E2; lia]]).
  - repeat popnf. cbn [fst snd c_frames c_faults s17c_ok s17c_open s17c_cnt andb].
    rewrite outs_eqb_refl. (split; [reflexivity|split; [assumption|intros _; lia]]).
  - cbn [fst snd c_frames c_faults s17c_ok s17c_open s17c_cnt andb outs_eqb].
    (split; [reflexivity|split; [assumption|intros _; lia]]).
  - cbn [fst snd c_frames c_faults s17c_ok s17c_open s17c_cnt andb outs_eqb].
    (split; [reflexivity|split; [assumption|intros _; lia]]).
Qed.

Lemma S17c_gen : forall c evs m cs t st,
    0 <= p_max c -> R17c c st cs ->
    s17c_ok (fold_left (s17c_step c)
               (combine evs (zip3 (mrun c m evs) (crun c cs evs) (trun t evs))) st) = true.
Proof.
  induction evs as [|e evs IH]; intros m cs t st Hp HR.
  - cbn. apply HR.
  - cbn [mrun crun trun].
    destruct (mstep c m e) as [m' om] eqn:Em.
    pose proof (s17c_step_inv c st cs e om (snd (tstep t e)) Hp HR (mstep_k _ _ _ _ _ Em)
                  (tstep_outs_test t e)) as K.
    destruct (cstep c cs e) as [cs' oc] eqn:Ec.
    destruct (tstep t e) as [t' ot] eqn:Et. cbn [zip3 combine fold_left fst snd] in *.
    apply IH; assumption.
Qed.

Theorem S17c_holds : forall c fm fc ft evs,
    forallb negb fc = true -> 0 <= p_max c ->
    S17c c (psteps c fm fc ft evs) = true.
Proof.
  intros c fm fc ft evs Hf Hp. unfold S17c, psteps. rewrite pinit_eq, prun_zip3.
  apply S17c_gen; [assumption|].
  unfold R17c, cinit. cbn. split; [reflexivity|split; [assumption|intros _; lia]].
Qed.

Definition R17t (st : s17t) (ts : tstate) : Prop :=
  s17t_ok st = true /\ forallb negb (t_faults ts) = true /\
  s17t_pend st = t_start ts /\ s17t_open st = t_rec ts /\
  t_frames ts = (if t_rec ts then s17t_cnt st else 0).

Lemma s17t_step_inv : forall st ts e om oc,
    R17t st ts ->
    forallb is_motion_out om = true -> forallb is_const_out oc = true ->
    R17t (s17t_step st (e, om ++ oc ++ snd (tstep ts e))) (fst (tstep ts e)).
Proof.
  intros st ts e om oc HR Hm Hc.
  unfold s17t_step. rewrite test_outs_app3 by (auto using tstep_outs_test).
  destruct st as [pe op cnt ok], ts as [tsr trc tfr tfl]. unfold R17t in *.
  cbn [s17t_ok s17t_pend s17t_open s17t_cnt t_start t_rec t_frames t_faults] in *.
  destruct HR as (Hok & Hf & Hpe & Hop & Hfr). subst ok pe op.
  destruct e; cbn [tstep].
  - unfold tprocess. cbn [t_start t_rec t_frames t_faults].
    destruct tsr, trc; cbn [andb orb negb t_start t_rec t_frames t_faults]; repeat popnf;
      cbn [t_start t_rec t_frames t_faults negb]; repeat popnf;
      try (destruct (_ >? SNAP_LAST) eqn:E2; repeat popnf;
           match goal with
           | |- context [TEST_FRAMES <=? ?x] =>
               match type of E2 with
               | _ = true =>
                   assert (E3 : (TEST_FRAMES <=? x) = true)
                     by (unfold SNAP_LAST, TEST_FRAMES in *; clear - E2 Hfr; lia)
               | _ = false =>
                   assert (E3 : (TEST_FRAMES <=? x) = false)
                     by (unfold SNAP_LAST, TEST_FRAMES in *; clear - E2 Hfr; lia)
               end; rewrite E3
           end);
      cbn [fst snd t_start t_rec t_frames t_faults s17t_ok s17t_pend s17t_open s17t_cnt app andb negb];
      rewrite ?outs_eqb_refl; repeat split; try assumption; try reflexivity; try lia.
  - cbn [fst snd t_start t_rec t_frames t_faults s17t_ok s17t_pend s17t_open s17t_cnt app andb negb outs_eqb].
    repeat split; try assumption; try reflexivity.
  - cbn [fst snd t_start t_rec t_frames t_faults s17t_ok s17t_pend s17t_open s17t_cnt app andb negb outs_eqb].
    repeat split; try assumption; try reflexivity.
  - cbn [fst snd t_start t_rec t_frames t_faults s17t_ok s17t_pend s17t_open s17t_cnt app andb negb outs_eqb].
    repeat split; try assumption; try reflexivity.
Qed.

Lemma S17t_gen : forall c evs m cs t st,
    R17t st t ->
    s17t_ok (fold_left s17t_step
               (combine evs (zip3 (mrun c m evs) (crun c cs evs) (trun t evs))) st) = true.
Proof.
  induction evs as [|e evs IH]; intros m cs t st HR.
  - cbn. apply HR.
  - cbn [mrun crun trun].
    destruct (mstep c m e) as [m' om] eqn:Em.
    destruct (cstep c cs e) as [cs' oc] eqn:Ec.
    pose proof (s17t_step_inv st t e om oc HR (mstep_k _ _ _ _ _ Em) (cstep_k _ _ _ _ _ Ec)) as K.
    destruct (tstep t e) as [t' ot] eqn:Et. cbn [zip3 combine fold_left fst snd] in *.
    apply IH; assumption.
Qed.

Theorem S17t_holds : forall c fm fc ft evs,
    forallb negb ft = true ->
    S17t (psteps c fm fc ft evs) = true.
Proof.
  intros c fm fc ft evs Hf. unfold S17t, psteps. rewrite pinit_eq, prun_zip3.
  apply S17t_gen. unfold R17t, tinit. cbn. repeat split; try assumption; reflexivity.
Qed.

(* independence: the continuous sink's calls do not depend on motion bits, window bits,
   resets, test-recording requests or the other sinks' faults *)
Definition erase_bits (e : ev) : ev :=
  match e with EFrame id _ _ => EFrame id false false | x => x end.
Definition keep_for_const (e : ev) : bool :=
  match e with EFrame _ _ _ | EBad => true | _ => false end.

Lemma fm_const_zip3 : forall c evs m cs t,
    flat_map const_outs (zip3 (mrun c m evs) (crun c cs evs) (trun t evs)) = concat (crun c cs evs).
Proof.
  induction evs as [|e evs IH]; intros; [reflexivity|].
  cbn [mrun crun trun].
  destruct (mstep c m e) as [m' om] eqn:Em. destruct (cstep c cs e) as [cs' oc] eqn:Ec.
  destruct (tstep t e) as [t' ot] eqn:Et. cbn [zip3 flat_map concat]. rewrite IH. f_equal.
  apply const_outs_app3; eauto using mstep_k, cstep_k, tstep_k.
Qed.

Lemma crun_filter : forall c evs cs,
    concat (crun c cs evs) = concat (crun c cs (filter keep_for_const (map erase_bits evs))).
Proof.
  induction evs as [|e evs IH]; intros; [reflexivity|].
  destruct e; cbn [map erase_bits filter keep_for_const crun cstep].
  - destruct (cprocess c cs id) as [cs' oc]. cbn [concat]. f_equal. apply IH.
  - destruct (if negb (p_const c) then _ else _) as [cs' oc]. cbn [concat]. f_equal. apply IH.
  - cbn [concat app]. apply IH.
  - cbn [concat app]. apply IH.
Qed.

Theorem const_independent : forall c fm fm' fc ft ft' evs,
    flat_map const_outs (prun c (pinit c fm fc ft) evs) =
    flat_map const_outs (prun c (pinit c fm' fc ft') (filter keep_for_const (map erase_bits evs))).
Proof.
  intros. rewrite !pinit_eq, !prun_zip3, !fm_const_zip3. apply crun_filter.
Qed.

(* the motion sink's trace (and the listener callbacks) are identical with and without
   test-recording requests, and do not depend on the other sinks' faults *)
Definition not_snapreq (e : ev) : bool := match e with ESnapReq => false | _ => true end.

Lemma fm_motion_zip3 : forall c evs m cs t,
    flat_map motion_outs (zip3 (mrun c m evs) (crun c cs evs) (trun t evs)) =
    flat_map motion_outs (mrun c m evs).
Proof.
  induction evs as [|e evs IH]; intros; [reflexivity|].
  cbn [mrun crun trun].
  destruct (mstep c m e) as [m' om] eqn:Em. destruct (cstep c cs e) as [cs' oc] eqn:Ec.
  destruct (tstep t e) as [t' ot] eqn:Et. cbn [zip3 flat_map]. rewrite IH. f_equal.
  apply motion_outs_app3; eauto using cstep_k, tstep_k.
Qed.

Lemma mrun_filter : forall c evs m,
    flat_map motion_outs (mrun c m evs) = flat_map motion_outs (mrun c m (filter not_snapreq evs)).
Proof.
  induction evs as [|e evs IH]; intros; [reflexivity|].
  destruct e; cbn [filter not_snapreq mrun].
  - destruct (mstep c m (EFrame id motion win)) as [m' om]. cbn [flat_map]. f_equal. apply IH.
  - destruct (mstep c m EBad) as [m' om]. cbn [flat_map]. f_equal. apply IH.
  - destruct (mstep c m EReset) as [m' om]. cbn [flat_map]. f_equal. apply IH.
  - cbn [mstep flat_map motion_outs filter app]. apply IH.
Qed.

Theorem motion_undisturbed : forall c fm fc fc' ft ft' evs,
    flat_map motion_outs (prun c (pinit c fm fc ft) evs) =
    flat_map motion_outs (prun c (pinit c fm fc' ft') (filter not_snapreq evs)).
Proof.
  intros. rewrite !pinit_eq, !prun_zip3, !fm_motion_zip3. apply mrun_filter.
Qed.
