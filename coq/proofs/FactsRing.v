(* Constants and wiring expressions read from the Go sources on every run (coq/Extracted.v) agree
   with what the models assume: if one changes in the code, the equality below stops compiling and
   every property that imports this file is reported. (ring buffer: C01, C02, C13, C16, C19) *)
From Coq Require Import ZArith List String.
From TR Require Import Extracted model.Ring.
Import ListNotations.
Open Scope Z_scope.

Lemma no_oldest_agrees : @NO_OLDEST_SET = no_oldest_set.
Proof. reflexivity. Qed.
