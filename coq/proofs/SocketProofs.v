(* C14: the reader side of the frame socket. *)
From Coq Require Import List ZArith Bool Arith Lia.
From TR Require Import model.Socket.
Import ListNotations.
Open Scope Z_scope.

(* split a byte string into lines, each including its newline (a last piece without newline
   is kept as it is) *)
Fixpoint lines_of_aux (cur : bytes) (b : bytes) : list bytes :=
  match b with
  | [] => match cur with [] => [] | _ => [cur] end
  | x :: r => if x =? NL then (cur ++ [x]) :: lines_of_aux [] r else lines_of_aux (cur ++ [x]) r
  end.
Definition lines_of (b : bytes) : list bytes := lines_of_aux [] b.

(* what is assumed of the camera daemon's YAML encoder output: it ends with a newline (or is
   empty) and none of its lines is blank *)
Definition header_text_ok (h : bytes) : bool :=
  forallb (fun l => negb (is_blank l)) (lines_of h) &&
  match rev h with [] => true | x :: _ => x =? NL end.

(* well-formed items: frames have exactly the frame size and do not begin with the marker *)
Definition item_ok (fs : nat) (i : item) : bool :=
  match i with
  | IClear => true
  | IFrame b => Nat.eqb (length b) fs && negb (bytes_eqb (firstn PROBE b) MARKER)
  end.


(* ================= helper lemmas ================= *)

(* ---- flat (unchunked) versions of the primitives ---- *)
Definition take_f (n : nat) (b : bytes) : option (bytes * bytes) :=
  if Nat.ltb (length b) n then None else Some (firstn n b, skipn n b).

Definition flat (r : option (bytes * list bytes)) : option (bytes * bytes) :=
  match r with Some (h, rest) => Some (h, concat rest) | None => None end.

Lemma take_f_app_lt : forall n c b, (length c < n)%nat ->
  take_f n (c ++ b) =
  match take_f (n - length c) b with Some (h, rest) => Some (c ++ h, rest) | None => None end.
Proof.
  intros n c b H. unfold take_f. rewrite app_length.
  destruct (Nat.ltb_spec (length c + length b) n) as [H1|H1];
    destruct (Nat.ltb_spec (length b) (n - length c)) as [H2|H2]; try lia; try reflexivity.
  rewrite firstn_app, skipn_app. rewrite firstn_all2 by lia. rewrite skipn_all2 by lia.
  reflexivity.
Qed.

Lemma take_f_app_ge : forall n c b, (n <= length c)%nat ->
  take_f n (c ++ b) = Some (firstn n c, skipn n c ++ b).
Proof.
  intros n c b H. unfold take_f. rewrite app_length.
  destruct (Nat.ltb_spec (length c + length b) n) as [H1|H1]; [lia|].
  rewrite firstn_app, skipn_app.
  replace (n - length c)%nat with 0%nat by lia.
  cbn [firstn skipn]. rewrite app_nil_r. reflexivity.
Qed.

Lemma take_f_app_exact : forall n a b, length a = n -> take_f n (a ++ b) = Some (a, b).
Proof.
  intros n a b H. rewrite take_f_app_ge by lia.
  rewrite firstn_all2 by lia. rewrite skipn_all2 by lia. reflexivity.
Qed.

Lemma take_c_flat : forall cs n, flat (take_c n cs) = take_f n (concat cs).
Proof.
  induction cs as [|c r IH]; intros n.
  - destruct n; reflexivity.
  - destruct n as [|n]; [reflexivity|].
    cbn [take_c concat].
    destruct (Nat.ltb_spec (length c) (S n)) as [H|H].
    + rewrite take_f_app_lt by exact H. rewrite <- IH.
      destruct (take_c (S n - length c) r) as [[h rest]|]; reflexivity.
    + rewrite take_f_app_ge by lia. reflexivity.
Qed.

Lemma line_in_app : forall a b,
  line_in (a ++ b) =
  match line_in a with
  | Some (l, r) => Some (l, r ++ b)
  | None => match line_in b with Some (l, r) => Some (a ++ l, r) | None => None end
  end.
Proof.
  induction a as [|x a IH]; intros b.
  - cbn [app line_in]. destruct (line_in b) as [[l r]|]; reflexivity.
  - cbn [app line_in]. destruct (x =? NL); [reflexivity|].
    rewrite IH. destruct (line_in a) as [[l r]|]; [reflexivity|].
    destruct (line_in b) as [[l r]|]; reflexivity.
Qed.

Lemma line_c_flat : forall cs, flat (line_c cs) = line_in (concat cs).
Proof.
  induction cs as [|c r IH]; [reflexivity|].
  cbn [line_c concat]. rewrite line_in_app.
  destruct (line_in c) as [[l rest]|]; [reflexivity|].
  rewrite <- IH. destruct (line_c r) as [[l rest]|]; reflexivity.
Qed.

Fixpoint header_f (fuel : nat) (b : bytes) (acc : bytes) : option (bytes * bytes) :=
  match fuel with
  | O => None
  | S k =>
    match line_in b with
    | None => None
    | Some (l, rest) => if is_blank l then Some (acc, rest) else header_f k rest (acc ++ l)
    end
  end.

Lemma header_c_flat : forall fuel cs acc,
  flat (header_c fuel cs acc) = header_f fuel (concat cs) acc.
Proof.
  induction fuel as [|k IH]; intros cs acc; [reflexivity|].
  cbn [header_c header_f]. rewrite <- line_c_flat.
  destruct (line_c cs) as [[l rest]|]; [|reflexivity].
  cbn [flat]. destruct (is_blank l); [reflexivity|]. apply IH.
Qed.

Fixpoint frames_f (fuel : nat) (frame_size : nat) (b : bytes) : list item :=
  match fuel with
  | O => []
  | S k =>
    match take_f PROBE b with
    | None => []
    | Some (p, rest) =>
      if bytes_eqb p MARKER then IClear :: frames_f k frame_size rest
      else
        match take_f (frame_size - PROBE) rest with
        | None => []
        | Some (q, rest') => IFrame (p ++ q) :: frames_f k frame_size rest'
        end
    end
  end.

Lemma frames_c_flat : forall fuel fs cs, frames_c fuel fs cs = frames_f fuel fs (concat cs).
Proof.
  induction fuel as [|k IH]; intros fs cs; [reflexivity|].
  cbn [frames_c frames_f]. rewrite <- take_c_flat.
  destruct (take_c PROBE cs) as [[p rest]|]; [|reflexivity].
  cbn [flat]. destruct (bytes_eqb p MARKER).
  - rewrite IH. reflexivity.
  - rewrite <- take_c_flat.
    destruct (take_c (fs - PROBE) rest) as [[q rest']|]; [|reflexivity].
    cbn [flat]. rewrite IH. reflexivity.
Qed.

Definition run_f (frame_size : nat) (b : bytes) : conn_result :=
  match header_f (S (length b)) b [] with
  | None => mkCR None []
  | Some (h, rest) => mkCR (Some h) (frames_f (S (length rest)) frame_size rest)
  end.

Lemma run_conn_flat : forall fs cs, run_conn fs cs = run_f fs (concat cs).
Proof.
  intros fs cs. unfold run_conn, run_f, total_len.
  rewrite <- header_c_flat.
  destruct (header_c (S (length (concat cs))) cs []) as [[h rest]|]; [|reflexivity].
  cbn [flat]. rewrite frames_c_flat. reflexivity.
Qed.

(* ---- lines ---- *)
Lemma line_in_some : forall b l rest, line_in b = Some (l, rest) -> b = l ++ rest /\ l <> [].
Proof.
  induction b as [|x b IH]; intros l rest H; [discriminate|].
  cbn [line_in] in H. destruct (x =? NL).
  - inversion H; subst. split; [reflexivity|discriminate].
  - destruct (line_in b) as [[l' rest']|]; [|discriminate].
    inversion H; subst. destruct (IH l' rest eq_refl) as [E _]. subst b.
    split; [reflexivity|discriminate].
Qed.

Lemma line_in_none : forall b, line_in b = None -> ~ In NL b.
Proof.
  induction b as [|x b IH]; intros H Hin; [exact Hin|].
  cbn [line_in] in H. destruct (Z.eqb_spec x NL) as [E|E]; [discriminate|].
  destruct (line_in b) as [[l' rest']|]; [discriminate|].
  destruct Hin as [Hin|Hin]; [congruence|]. exact (IH eq_refl Hin).
Qed.

Lemma lines_of_aux_some : forall b cur l rest,
  line_in b = Some (l, rest) -> lines_of_aux cur b = (cur ++ l) :: lines_of_aux [] rest.
Proof.
  induction b as [|x b IH]; intros cur l rest H; [discriminate|].
  cbn [line_in] in H. cbn [lines_of_aux]. destruct (x =? NL).
  - inversion H; subst. reflexivity.
  - destruct (line_in b) as [[l' rest']|]; [|discriminate].
    inversion H; subst. rewrite (IH (cur ++ [x]) l' rest eq_refl).
    rewrite <- app_assoc. reflexivity.
Qed.

Definition ends_ok (h : bytes) : bool := match rev h with [] => true | x :: _ => x =? NL end.

Lemma ends_ok_app_r : forall l rest, ends_ok (l ++ rest) = true -> ends_ok rest = true.
Proof.
  intros l rest. unfold ends_ok. rewrite rev_app_distr.
  destruct (rev rest); [reflexivity|]. cbn [app]. exact (fun H => H).
Qed.

Lemma ends_ok_in : forall h, ends_ok h = true -> h <> [] -> In NL h.
Proof.
  intros h H Hne. unfold ends_ok in H. destruct (rev h) as [|x t] eqn:E.
  - exfalso. apply Hne. rewrite <- (rev_involutive h), E. reflexivity.
  - apply Z.eqb_eq in H. subst x. rewrite <- (rev_involutive h), E. cbn [rev].
    apply in_or_app. right. left. reflexivity.
Qed.

Definition nonblank (l : bytes) : bool := negb (is_blank l).

Lemma header_step : forall h, ends_ok h = true -> h <> [] ->
  exists l rest, line_in h = Some (l, rest) /\ h = l ++ rest /\ l <> [] /\
                 lines_of h = l :: lines_of rest /\ ends_ok rest = true.
Proof.
  intros h He Hne. destruct (line_in h) as [[l rest]|] eqn:E.
  - destruct (line_in_some _ _ _ E) as [Hh Hl]. exists l, rest.
    split; [reflexivity|]. split; [exact Hh|]. split; [exact Hl|]. split.
    + unfold lines_of. rewrite (lines_of_aux_some h [] l rest E). reflexivity.
    + subst h. exact (ends_ok_app_r _ _ He).
  - exfalso. exact (line_in_none _ E (ends_ok_in _ He Hne)).
Qed.

Lemma nil_or_not : forall (h : bytes), h = [] \/ h <> [].
Proof. destruct h; [left; reflexivity|right; discriminate]. Qed.

Lemma header_f_ok : forall fuel h acc tl,
  (length h < fuel)%nat -> forallb nonblank (lines_of h) = true -> ends_ok h = true ->
  header_f fuel (h ++ NL :: tl) acc = Some (acc ++ h, tl).
Proof.
  induction fuel as [|k IH]; intros h acc tl Hlen Hnb He; [lia|].
  destruct (nil_or_not h) as [Hh|Hh].
  - subst h. rewrite app_nil_r. reflexivity.
  - destruct (header_step h He Hh) as (l & rest & E & Hsplit & Hl & Hlines & He').
    cbn [header_f]. rewrite line_in_app, E.
    rewrite Hlines in Hnb. cbn [forallb] in Hnb. apply andb_true_iff in Hnb.
    destruct Hnb as [Hb Hnb]. unfold nonblank in Hb. apply negb_true_iff in Hb. rewrite Hb.
    rewrite IH; [ | | exact Hnb | exact He'].
    + subst h. rewrite app_assoc. reflexivity.
    + subst h. rewrite app_length in Hlen. destruct l; [congruence|]. cbn [length] in Hlen. lia.
Qed.

Lemma header_f_trunc : forall fuel h p q acc,
  forallb nonblank (lines_of h) = true -> ends_ok h = true ->
  h ++ [NL] = p ++ q -> q <> [] -> header_f fuel p acc = None.
Proof.
  induction fuel as [|k IH]; intros h p q acc Hnb He Heq Hq; [reflexivity|].
  cbn [header_f]. destruct (line_in p) as [[l rest]|] eqn:E; [|reflexivity].
  assert (Hpq : line_in (p ++ q) = Some (l, rest ++ q)) by (rewrite line_in_app, E; reflexivity).
  rewrite <- Heq in Hpq.
  destruct (nil_or_not h) as [Hh|Hh].
  - subst h. cbn in Hpq. inversion Hpq as [[Hl Hr]]. symmetry in Hr.
    apply app_eq_nil in Hr. destruct Hr as [_ Hr]. contradiction.
  - destruct (header_step h He Hh) as (l' & rest' & E' & Hsplit & Hl & Hlines & He').
    rewrite line_in_app, E' in Hpq. inversion Hpq as [[Hl' Hr]]. subst l'.
    rewrite Hlines in Hnb. cbn [forallb] in Hnb. apply andb_true_iff in Hnb.
    destruct Hnb as [Hb Hnb]. unfold nonblank in Hb. apply negb_true_iff in Hb. rewrite Hb.
    exact (IH rest' rest q (acc ++ l) Hnb He' Hr Hq).
Qed.

(* ---- frames ---- *)
Lemma marker_eqb : bytes_eqb MARKER MARKER = true.
Proof. reflexivity. Qed.

Lemma marker_len : length MARKER = PROBE.
Proof. reflexivity. Qed.

Lemma items_len : forall fs items, (5 <= fs)%nat -> forallb (item_ok fs) items = true ->
  (length items <= length (flat_map enc_item items))%nat.
Proof.
  intros fs items Hfs. induction items as [|i items IH]; intros Hok; [cbn; lia|].
  cbn [forallb] in Hok. apply andb_true_iff in Hok. destruct Hok as [Hi Hok].
  cbn [flat_map length]. rewrite app_length. specialize (IH Hok).
  destruct i as [b|]; cbn [enc_item].
  - cbn [item_ok] in Hi. apply andb_true_iff in Hi. destruct Hi as [Hi _].
    apply Nat.eqb_eq in Hi. lia.
  - rewrite marker_len. unfold PROBE. lia.
Qed.

Lemma frames_f_ok : forall fs items fuel tail,
  (5 <= fs)%nat -> (length items < fuel)%nat -> forallb (item_ok fs) items = true ->
  (length tail < fs)%nat -> negb (bytes_eqb (firstn PROBE tail) MARKER) = true ->
  frames_f fuel fs (flat_map enc_item items ++ tail) = items.
Proof.
  intros fs items. induction items as [|i items IH]; intros fuel tail Hfs Hfuel Hok Htl Hmk.
  - cbn [flat_map app]. destruct fuel as [|k]; [reflexivity|]. cbn [frames_f].
    unfold take_f at 1. destruct (Nat.ltb_spec (length tail) PROBE) as [H|H]; [reflexivity|].
    apply negb_true_iff in Hmk. rewrite Hmk.
    unfold take_f. rewrite skipn_length.
    destruct (Nat.ltb_spec (length tail - PROBE) (fs - PROBE)) as [H'|H']; [reflexivity|].
    unfold PROBE in *. lia.
  - destruct fuel as [|k]; [cbn [length] in Hfuel; lia|].
    cbn [length] in Hfuel. cbn [forallb] in Hok. apply andb_true_iff in Hok.
    destruct Hok as [Hi Hok]. cbn [flat_map]. rewrite <- app_assoc. cbn [frames_f].
    destruct i as [b|]; cbn [enc_item].
    + cbn [item_ok] in Hi. apply andb_true_iff in Hi. destruct Hi as [Hlen Hnm].
      apply Nat.eqb_eq in Hlen. apply negb_true_iff in Hnm.
      rewrite <- (firstn_skipn PROBE b) at 1. rewrite <- app_assoc.
      rewrite take_f_app_exact by (rewrite firstn_length; unfold PROBE; lia).
      rewrite Hnm.
      rewrite take_f_app_exact by (rewrite skipn_length; lia).
      rewrite firstn_skipn. rewrite IH by (assumption || lia). reflexivity.
    + rewrite take_f_app_exact by exact marker_len.
      rewrite marker_eqb. rewrite IH by (assumption || lia). reflexivity.
Qed.

Lemma header_text_ok_split : forall h, header_text_ok h = true ->
  forallb nonblank (lines_of h) = true /\ ends_ok h = true.
Proof.
  intros h H. unfold header_text_ok in H. apply andb_true_iff in H. exact H.
Qed.

Lemma roundtrip_gen : forall fs h items tail cs,
    (5 <= fs)%nat -> header_text_ok h = true -> forallb (item_ok fs) items = true ->
    (length tail < fs)%nat -> negb (bytes_eqb (firstn PROBE tail) MARKER) = true ->
    concat cs = h ++ [NL] ++ flat_map enc_item items ++ tail ->
    run_conn fs cs = mkCR (Some h) items.
Proof.
  intros fs h items tail cs Hfs Hh Hok Htl Hmk Hcs.
  destruct (header_text_ok_split h Hh) as [Hnb He].
  rewrite run_conn_flat, Hcs. unfold run_f.
  change ([NL] ++ flat_map enc_item items ++ tail) with (NL :: flat_map enc_item items ++ tail).
  rewrite header_f_ok; [ | rewrite app_length; lia | exact Hnb | exact He].
  cbn [app]. f_equal.
  apply frames_f_ok; try assumption.
  rewrite app_length. pose proof (items_len fs items Hfs Hok). lia.
Qed.

(* ================= the theorems ================= *)

(* 1. however the byte stream is split into reads, the result is that of the unsplit stream *)
Theorem chunking_irrelevant : forall fs cs,
    run_conn fs cs = run_conn fs [concat cs].
Proof.
  intros fs cs. rewrite !run_conn_flat. cbn [concat]. rewrite app_nil_r. reflexivity.
Qed.

(* 2. round trip: the header text is recovered exactly, nothing beyond the blank line is
   consumed, every frame is delivered once and in order, every marker is a reset *)
Theorem stream_roundtrip : forall fs h items cs,
    (5 <= fs)%nat -> header_text_ok h = true -> forallb (item_ok fs) items = true ->
    concat cs = h ++ [NL] ++ flat_map enc_item items ->
    run_conn fs cs = mkCR (Some h) items.
Proof.
  intros fs h items cs Hfs Hh Hok Hcs.
  apply (roundtrip_gen fs h items [] cs Hfs Hh Hok).
  - cbn [length]. lia.
  - reflexivity.
  - rewrite app_nil_r. exact Hcs.
Qed.

(* a trailing partial frame (connection closed mid-frame) is dropped, everything before it is
   still delivered *)
Theorem stream_roundtrip_partial : forall fs h items tail cs,
    (5 <= fs)%nat -> header_text_ok h = true -> forallb (item_ok fs) items = true ->
    (length tail < fs)%nat -> negb (bytes_eqb (firstn PROBE tail) MARKER) = true ->
    concat cs = h ++ [NL] ++ flat_map enc_item items ++ tail ->
    run_conn fs cs = mkCR (Some h) items.
Proof. exact roundtrip_gen. Qed.

(* 3. a header cut short by the connection closing yields an error, never a description *)
Theorem truncated_header_errors : forall fs h p q cs,
    header_text_ok h = true -> h ++ [NL] = p ++ q -> q <> [] ->
    concat cs = p ->
    cr_header (run_conn fs cs) = None.
Proof.
  intros fs h p q cs Hh Heq Hq Hcs.
  destruct (header_text_ok_split h Hh) as [Hnb He].
  rewrite run_conn_flat, Hcs. unfold run_f.
  rewrite (header_f_trunc _ h p q [] Hnb He Heq Hq). reflexivity.
Qed.

(* 5. the marker is in-band: a frame that begins with the bytes "clear" is taken for a marker
   and the stream loses alignment - the guard of item_ok is necessary *)
Theorem inband_marker_refuted :
  exists fs h items,
    (5 <= fs)%nat /\ header_text_ok h = true /\
    Forall (fun i => match i with IFrame b => length b = fs | IClear => True end) items /\
    run_conn fs [h ++ [NL] ++ flat_map enc_item items] <> mkCR (Some h) items.
Proof.
  exists 6%nat, [65; 58; 32; 49; 10], [IFrame [99; 108; 101; 97; 114; 7]; IFrame [1; 2; 3; 4; 5; 6]; IFrame [9; 9; 9; 9; 9; 9]].
  split; [lia|]. split; [vm_compute; reflexivity|]. split; [repeat constructor|].
  vm_compute. discriminate.
Qed.
