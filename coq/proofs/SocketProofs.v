(* C14: the reader side of the frame socket. *)
From Coq Require Import List ZArith Bool Arith Lia.
From TR Require Import model.Socket.
Import ListNotations.
Open Scope Z_scope.

(* split a byte string into lines, each including its newline (a last piece without newline
   is kept as it is) *)
Fixpoint lines_of_aux (cur : bytes) (b : bytes) : list bytes :=
  match b with
  | [] => match cur with [] => [] | _ => [cur] end
  | x :: r => if x =? NL then (cur ++ [x]) :: lines_of_aux [] r else lines_of_aux (cur ++ [x]) r
  end.
Definition lines_of (b : bytes) : list bytes := lines_of_aux [] b.

(* what is assumed of the camera daemon's YAML encoder output: it ends with a newline (or is
   empty) and none of its lines is blank *)
Definition header_text_ok (h : bytes) : bool :=
  forallb (fun l => negb (is_blank l)) (lines_of h) &&
  match rev h with [] => true | x :: _ => x =? NL end.

(* well-formed items: frames have exactly the frame size and do not begin with the marker *)
Definition item_ok (fs : nat) (i : item) : bool :=
  match i with
  | IClear => true
  | IFrame b => Nat.eqb (length b) fs && negb (bytes_eqb (firstn PROBE b) MARKER)
  end.

(* 1. however the byte stream is split into reads, the result is that of the unsplit stream *)
Theorem chunking_irrelevant : forall fs cs,
    run_conn fs cs = run_conn fs [concat cs].
Admitted.

(* 2. round trip: the header text is recovered exactly, nothing beyond the blank line is
   consumed, every frame is delivered once and in order, every marker is a reset *)
Theorem stream_roundtrip : forall fs h items cs,
    (5 <= fs)%nat -> header_text_ok h = true -> forallb (item_ok fs) items = true ->
    concat cs = h ++ [NL] ++ flat_map enc_item items ->
    run_conn fs cs = mkCR (Some h) items.
Admitted.

(* a trailing partial frame (connection closed mid-frame) is dropped, everything before it is
   still delivered *)
Theorem stream_roundtrip_partial : forall fs h items tail cs,
    (5 <= fs)%nat -> header_text_ok h = true -> forallb (item_ok fs) items = true ->
    (length tail < fs)%nat -> negb (bytes_eqb (firstn PROBE tail) MARKER) = true ->
    concat cs = h ++ [NL] ++ flat_map enc_item items ++ tail ->
    run_conn fs cs = mkCR (Some h) items.
Admitted.

(* 3. a header cut short by the connection closing yields an error, never a description *)
Theorem truncated_header_errors : forall fs h p q cs,
    header_text_ok h = true -> h ++ [NL] = p ++ q -> q <> [] ->
    concat cs = p ->
    cr_header (run_conn fs cs) = None.
Admitted.

(* 5. the marker is in-band: a frame that begins with the bytes "clear" is taken for a marker
   and the stream loses alignment - the guard of item_ok is necessary *)
Theorem inband_marker_refuted :
  exists fs h items,
    (5 <= fs)%nat /\ header_text_ok h = true /\
    Forall (fun i => match i with IFrame b => length b = fs | IClear => True end) items /\
    run_conn fs [h ++ [NL] ++ flat_map enc_item items] <> mkCR (Some h) items.
Proof.
  exists 6%nat, [65; 58; 32; 49; 10], [IFrame [99; 108; 101; 97; 114; 7]; IFrame [1; 2; 3; 4; 5; 6]; IFrame [9; 9; 9; 9; 9; 9]].
  split; [lia|]. split; [vm_compute; reflexivity|]. split; [repeat constructor|].
  vm_compute. discriminate.
Qed.
