(* C05 at the level of the rate-limiter library: for EVERY sequence of Available /
   TakeAvailable(1) calls with a non-decreasing clock, in every window of successful takes the
   number of tokens handed out is at most  cap + 1 + q * (floor((b-a)/fi) + 1).
   The "+1" is real: adjustavailableTokens returns early on a full bucket without advancing
   latestTick, so after an idle period one refill tick is credited twice. *)
From Coq Require Import List ZArith Bool Arith Lia.
From TR Require Import model.Throttle model.ThrottleSpec.
Import ListNotations.
Open Scope Z_scope.

(* timestamps of the operations that handed out a token *)
Definition take_times (res : list (Z * Z)) : list Z :=
  flat_map (fun x => if snd x =? 1 then [fst x] else []) res.

Theorem bucket_windows : forall cap q fi ops,
    1 <= cap -> 1 <= q -> 1 <= fi ->
    sorted_from 0 (map bop_time ops) = true ->
    windows_ok cap q fi (take_times (brun (bucket_new cap q fi) ops)) = true.
Admitted.

(* non-vacuity / tightness: the bound cap + 1 + q is reached (cap = 2, q = 1, fi = 10:
   idle until t = 29: three takes succeed at once, a fourth one nanosecond later, after the
   tick boundary - four tokens in a window of 1 ns, the bound being 2 + 1 + 1*(0 + 1) = 4) *)
Example bucket_bound_tight :
  take_times (brun (bucket_new 2 1 10) [BTake 29; BTake 29; BTake 29; BTake 29; BTake 30; BTake 30]) = [29; 29; 29; 30].
Proof. vm_compute. reflexivity. Qed.

(* from ticks to seconds: with the library's rate guarantee (rate_ok) a window of length
   (b - a) ns containing n forwarded frames satisfies
     (n - (cap + 1 + q)) * 10^9 * refill_ns * ... see statement: n exceeds cap + 1 + q by at most
     1.010000001 * (minframes / refill_ns) * (b - a) frames. *)
Theorem window_seconds : forall cap q fi minframes refill_ns n a b,
    1 <= q -> 1 <= fi -> 0 <= minframes -> 0 < refill_ns -> a <= b ->
    rate_ok q fi minframes refill_ns = true ->
    n <= cap + 1 + q * ((b - a) / fi + 1) ->
    (n - (cap + 1 + q)) * refill_ns * 1000000000 <= 1010000001 * minframes * (b - a).
Admitted.
