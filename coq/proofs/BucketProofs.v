(* C05 at the level of the rate-limiter library: for EVERY sequence of Available /
   TakeAvailable(1) calls with a non-decreasing clock, in every window of successful takes the
   number of tokens handed out is at most  cap + 1 + q * (floor((b-a)/fi) + 1).
   The "+1" is real: adjustavailableTokens returns early on a full bucket without advancing
   latestTick, so after an idle period one refill tick is credited twice. *)
From Coq Require Import List ZArith Bool Arith Lia ZifyBool.
From TR Require Import model.Throttle model.ThrottleSpec.
Import ListNotations.
Open Scope Z_scope.

(* timestamps of the operations that handed out a token *)
Definition take_times (res : list (Z * Z)) : list Z :=
  flat_map (fun x => if snd x =? 1 then [fst x] else []) res.

(* ------------------------------------------------------------------ *)
(* arithmetic helpers *)

Lemma div_sub_le : forall fi a b, 1 <= fi -> b / fi - a / fi <= (b - a) / fi + 1.
Proof.
  intros fi a b Hfi.
  assert (E : (b - a) / fi + 1 = (b - a + 1 * fi) / fi) by (rewrite Z.div_add by lia; reflexivity).
  rewrite E.
  assert (Ha := Z.div_mod a fi ltac:(lia)).
  assert (Hr := Z.mod_pos_bound a fi ltac:(lia)).
  assert (E2 : b / fi - a / fi = (b + (- (a / fi)) * fi) / fi) by (rewrite Z.div_add by lia; lia).
  rewrite E2.
  apply Z.div_le_mono; [lia|]. nia.
Qed.

(* ------------------------------------------------------------------ *)
(* invariant and potential *)

Definition binv (cap q fi : Z) (b : bucket) (T : Z) : Prop :=
  b_cap b = cap /\ b_q b = q /\ b_fi b = fi /\ 0 <= b_avail b <= cap /\ b_latest b <= T.

Definition phi (cap q : Z) (b : bucket) (T : Z) : Z :=
  if b_avail b >=? cap then cap + (if b_latest b <? T then 1 else 0)
  else Z.min cap (b_avail b + (T - b_latest b) * q).

Ltac dif :=
  match goal with
  | |- context [if ?c then _ else _] => destruct c eqn:?
  end.

Lemma binv_mono : forall cap q fi b T T', binv cap q fi b T -> T <= T' -> binv cap q fi b T'.
Proof. unfold binv; intros; intuition lia. Qed.

Lemma phi_bounds : forall cap q fi b T, 1 <= q -> binv cap q fi b T -> 0 <= phi cap q b T <= cap + 1.
Proof.
  intros cap q fi b T Hq (Hc & Hqq & Hf & Ha & Hl). unfold phi.
  assert (0 <= (T - b_latest b) * q) by nia.
  repeat dif; lia.
Qed.

(* one operation: invariant preserved, potential inequality *)
Lemma take1_step : forall cap q fi b T t b' k,
    1 <= cap -> 1 <= q -> 1 <= fi ->
    binv cap q fi b T -> 0 <= t -> T <= t / fi ->
    take1 b t = (b', k) ->
    binv cap q fi b' (t / fi) /\ (k = 0 \/ k = 1) /\
    phi cap q b' (t / fi) + k <= phi cap q b T + q * (t / fi - T).
Proof.
  intros cap q fi [c q' f a l] T t b' k Hcap Hq Hfi (Hc & Hqq & Hf & Ha & Hl) Ht HT.
  cbn [b_cap b_q b_fi b_avail b_latest] in *. subst c q' f.
  unfold take1, adjust, current_tick. cbn [b_cap b_q b_fi b_avail b_latest].
  rewrite Z.quot_div_nonneg by lia.
  set (T' := t / fi) in *.
  assert (Hd : 0 <= q * (T' - T)) by nia.
  assert (Hd1 : T < T' -> q <= q * (T' - T)) by nia.
  assert (He : 0 <= (T - l) * q) by nia.
  assert (He1 : l < T -> q <= (T - l) * q) by nia.
  assert (He0 : l = T -> (T - l) * q = 0) by (intros ->; ring).
  assert (Hs : (T' - l) * q = q * (T' - T) + (T - l) * q) by ring.
  unfold binv, phi.
  repeat (dif; cbn [b_cap b_q b_fi b_avail b_latest] in * ); intros E; inversion E; subst b' k;
    cbn [b_cap b_q b_fi b_avail b_latest];
    repeat dif; cbn [b_cap b_q b_fi b_avail b_latest] in *; lia.
Qed.

Lemma available_step : forall cap q fi b T t b' k,
    1 <= cap -> 1 <= q -> 1 <= fi ->
    binv cap q fi b T -> 0 <= t -> T <= t / fi ->
    available b t = (b', k) ->
    binv cap q fi b' (t / fi) /\
    phi cap q b' (t / fi) <= phi cap q b T + q * (t / fi - T).
Proof.
  intros cap q fi [c q' f a l] T t b' k Hcap Hq Hfi (Hc & Hqq & Hf & Ha & Hl) Ht HT.
  cbn [b_cap b_q b_fi b_avail b_latest] in *. subst c q' f.
  unfold available, adjust, current_tick. cbn [b_cap b_q b_fi b_avail b_latest].
  rewrite Z.quot_div_nonneg by lia.
  set (T' := t / fi) in *.
  assert (Hd : 0 <= q * (T' - T)) by nia.
  assert (Hd1 : T < T' -> q <= q * (T' - T)) by nia.
  assert (He : 0 <= (T - l) * q) by nia.
  assert (He1 : l < T -> q <= (T - l) * q) by nia.
  assert (He0 : l = T -> (T - l) * q = 0) by (intros ->; ring).
  assert (Hs : (T' - l) * q = q * (T' - T) + (T - l) * q) by ring.
  unfold binv, phi.
  repeat (dif; cbn [b_cap b_q b_fi b_avail b_latest] in * ); intros E; inversion E; subst b' k;
    cbn [b_cap b_q b_fi b_avail b_latest];
    repeat dif; cbn [b_cap b_q b_fi b_avail b_latest] in *; lia.
Qed.

Lemma take_times_cons : forall x l,
    take_times (x :: l) = (if snd x =? 1 then [fst x] else []) ++ take_times l.
Proof. reflexivity. Qed.

(* a window that started at t0 (cnt tokens so far), continued from state b whose previous
   operation happened at time tp *)
Lemma win_run : forall cap q fi, 1 <= cap -> 1 <= q -> 1 <= fi ->
  forall ops b tp t0 cnt,
    binv cap q fi b (tp / fi) -> 0 <= t0 -> t0 <= tp ->
    sorted_from tp (map bop_time ops) = true ->
    cnt + phi cap q b (tp / fi) <= cap + 1 + q * (tp / fi - t0 / fi) ->
    win_from cap q fi t0 cnt (take_times (brun b ops)) = true.
Proof.
  intros cap q fi Hcap Hq Hfi.
  induction ops as [|o r IH]; intros b tp t0 cnt Hinv Ht0 Htp Hs Hb; [reflexivity|].
  cbn [map sorted_from] in Hs. apply andb_prop in Hs. destruct Hs as [Hle Hs].
  apply Z.leb_le in Hle.
  assert (HT : tp / fi <= bop_time o / fi) by (apply Z.div_le_mono; lia).
  destruct o as [t|t]; cbn [bop_time] in *; cbn [brun].
  - destruct (available b t) as [b' k] eqn:E.
    destruct (available_step cap q fi b (tp / fi) t b' k Hcap Hq Hfi Hinv ltac:(lia) HT E) as (Hinv' & Hphi).
    rewrite take_times_cons. cbn [fst snd]. change (0 =? 1) with false. cbn [app].
    apply (IH b' t t0 cnt); try assumption; lia.
  - destruct (take1 b t) as [b' k] eqn:E.
    destruct (take1_step cap q fi b (tp / fi) t b' k Hcap Hq Hfi Hinv ltac:(lia) HT E) as (Hinv' & Hk & Hphi).
    rewrite take_times_cons. cbn [fst snd].
    destruct Hk as [-> | ->].
    + change (0 =? 1) with false. cbn [app].
      apply (IH b' t t0 cnt); try assumption; lia.
    + change (1 =? 1) with true. cbn [app win_from].
      apply andb_true_intro; split.
      * apply Z.leb_le.
        assert (Hp := phi_bounds cap q fi b' (t / fi) Hq Hinv').
        assert (Hdv := div_sub_le fi t0 t Hfi).
        assert (q * (t / fi - t0 / fi) <= q * ((t - t0) / fi + 1)) by (apply Z.mul_le_mono_nonneg_l; lia).
        lia.
      * apply (IH b' t t0 (cnt + 1)); try assumption; lia.
Qed.

Lemma windows_run : forall cap q fi, 1 <= cap -> 1 <= q -> 1 <= fi ->
  forall ops b tp,
    binv cap q fi b (tp / fi) -> 0 <= tp ->
    sorted_from tp (map bop_time ops) = true ->
    windows_ok cap q fi (take_times (brun b ops)) = true.
Proof.
  intros cap q fi Hcap Hq Hfi.
  induction ops as [|o r IH]; intros b tp Hinv Htp Hs; [reflexivity|].
  assert (Hs0 := Hs).
  cbn [map sorted_from] in Hs. apply andb_prop in Hs. destruct Hs as [Hle Hs].
  apply Z.leb_le in Hle.
  assert (HT : tp / fi <= bop_time o / fi) by (apply Z.div_le_mono; lia).
  destruct o as [t|t]; cbn [bop_time] in *.
  - cbn [brun]. destruct (available b t) as [b' k] eqn:E.
    destruct (available_step cap q fi b (tp / fi) t b' k Hcap Hq Hfi Hinv ltac:(lia) HT E) as (Hinv' & Hphi).
    rewrite take_times_cons. cbn [fst snd]. change (0 =? 1) with false. cbn [app].
    apply (IH b' t); try assumption; lia.
  - (* window starting at this op, if it succeeds *)
    assert (Hw : win_from cap q fi t 0 (take_times (brun b (BTake t :: r))) = true).
    { apply (win_run cap q fi Hcap Hq Hfi (BTake t :: r) b t t 0).
      - eapply binv_mono; eassumption.
      - lia.
      - lia.
      - cbn [map bop_time sorted_from]. rewrite Z.leb_refl. exact Hs.
      - assert (Hp := phi_bounds cap q fi b (t / fi) Hq (binv_mono _ _ _ _ _ _ Hinv HT)). lia. }
    cbn [brun] in *. destruct (take1 b t) as [b' k] eqn:E.
    destruct (take1_step cap q fi b (tp / fi) t b' k Hcap Hq Hfi Hinv ltac:(lia) HT E) as (Hinv' & Hk & Hphi).
    rewrite take_times_cons in *. cbn [fst snd] in *.
    assert (Hr : windows_ok cap q fi (take_times (brun b' r)) = true)
      by (apply (IH b' t); try assumption; lia).
    destruct Hk as [-> | ->].
    + change (0 =? 1) with false. cbn [app]. exact Hr.
    + change (1 =? 1) with true in *. cbn [app] in *. cbn [windows_ok].
      rewrite Hw, Hr. reflexivity.
Qed.

Theorem bucket_windows : forall cap q fi ops,
    1 <= cap -> 1 <= q -> 1 <= fi ->
    sorted_from 0 (map bop_time ops) = true ->
    windows_ok cap q fi (take_times (brun (bucket_new cap q fi) ops)) = true.
Proof.
  intros cap q fi ops Hcap Hq Hfi Hs.
  apply (windows_run cap q fi Hcap Hq Hfi ops (bucket_new cap q fi) 0).
  - rewrite Z.div_0_l by lia. unfold binv, bucket_new. cbn. lia.
  - lia.
  - exact Hs.
Qed.

(* non-vacuity / tightness: the bound cap + 1 + q is reached (cap = 2, q = 1, fi = 10:
   idle until t = 29: three takes succeed at once, a fourth one nanosecond later, after the
   tick boundary - four tokens in a window of 1 ns, the bound being 2 + 1 + 1*(0 + 1) = 4) *)
Example bucket_bound_tight :
  take_times (brun (bucket_new 2 1 10) [BTake 29; BTake 29; BTake 29; BTake 29; BTake 30; BTake 30]) = [29; 29; 29; 30].
Proof. vm_compute. reflexivity. Qed.

(* from ticks to seconds: with the library's rate guarantee (rate_ok) a window of length
   (b - a) ns containing n forwarded frames satisfies
     (n - (cap + 1 + q)) * 10^9 * refill_ns * ... see statement: n exceeds cap + 1 + q by at most
     1.010000001 * (minframes / refill_ns) * (b - a) frames. *)
Theorem window_seconds : forall cap q fi minframes refill_ns n a b,
    1 <= q -> 1 <= fi -> 0 <= minframes -> 0 < refill_ns -> a <= b ->
    rate_ok q fi minframes refill_ns = true ->
    n <= cap + 1 + q * ((b - a) / fi + 1) ->
    (n - (cap + 1 + q)) * refill_ns * 1000000000 <= 1010000001 * minframes * (b - a).
Proof.
  intros cap q fi minframes refill_ns n a b Hq Hfi Hmf Hrf Hab Hrate Hn.
  unfold rate_ok in Hrate. apply Z.leb_le in Hrate.
  set (d := b - a) in *.
  assert (Hd : 0 <= d) by (unfold d; lia).
  set (m := n - (cap + 1 + q)).
  assert (Hm : m <= q * (d / fi)) by (unfold m; lia).
  assert (Hdiv : 0 <= d / fi) by (apply Z.div_pos; lia).
  assert (Hmul : fi * (d / fi) <= d) by (apply Z.mul_div_le; lia).
  assert (Hrhs : 0 <= 1010000001 * minframes * d) by nia.
  destruct (Z_le_gt_dec m 0) as [Hm0 | Hm0].
  - assert (m * refill_ns * 1000000000 <= 0) by nia. lia.
  - assert (H1 : m * (refill_ns * 1000000000) <= q * (d / fi) * (refill_ns * 1000000000))
      by (apply Z.mul_le_mono_nonneg_r; lia).
    assert (H2 : q * refill_ns * 1000000000 * (d / fi) <= 1010000001 * minframes * fi * (d / fi))
      by (apply Z.mul_le_mono_nonneg_r; lia).
    assert (H3 : 1010000001 * minframes * (fi * (d / fi)) <= 1010000001 * minframes * d)
      by (apply Z.mul_le_mono_nonneg_l; lia).
    replace (m * refill_ns * 1000000000) with (m * (refill_ns * 1000000000)) by ring.
    replace (q * (d / fi) * (refill_ns * 1000000000)) with (q * refill_ns * 1000000000 * (d / fi)) in H1 by ring.
    replace (1010000001 * minframes * fi * (d / fi)) with (1010000001 * minframes * (fi * (d / fi))) in H2 by ring.
    lia.
Qed.
