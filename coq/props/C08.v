(* Property C08 - edge-border pixels and sub-threshold (cold) pixels never influence detection. *)
From Coq Require Import List ZArith Bool.
From TR Require Import model.Ring model.Detector model.DetSpec proofs.DetC07 proofs.DetC08.
(* constants and wiring read from the Go sources on every run *)
From TR Require Import proofs.FactsDet.
Import ListNotations.
Open Scope Z_scope.

(* Two streams whose frames agree on telemetry and on every interior pixel (border pixels
   arbitrary) give, for every configuration (fixed or dynamic threshold, any edge-pixels,
   any resolution), identical verdicts and identical thresholds after every event ... *)
Theorem C08_border_noninterference : forall c evs1 evs2,
    stream_rel (frame_interior_eq c) evs1 evs2 ->
    drun c (dinit c) evs1 = drun c (dinit c) evs2.
Proof. exact border_noninterference. Qed.

(* ... and the same background estimate (whole frame: its border is a function of its
   interior), provided the interior is non-empty (2*edge < width, height) *)
Theorem C08_border_noninterference_bg : forall c evs1 evs2,
    (2 * d_edge c < d_w c)%nat /\ (2 * d_edge c < d_h c)%nat ->
    stream_rel (frame_interior_eq c) evs1 evs2 ->
    s_bg (dfinal c (dinit c) evs1) = s_bg (dfinal c (dinit c) evs2).
Proof. exact border_noninterference_bg. Qed.

(* fixed threshold: changing a pixel between two values at or below temp-thresh never
   influences detection *)
Theorem C08_cold_noninterference : forall c evs1 evs2,
    d_dynamic c = false ->
    stream_rel (frame_cold_eq c) evs1 evs2 ->
    drun c (dinit c) evs1 = drun c (dinit c) evs2.
Proof. exact cold_noninterference. Qed.

(* Recording boundaries are a function of the verdict sequence (the processor model takes the
   verdict as its only input from the detector), so equal verdicts give equal recordings. *)

(* non-vacuity: 4x4, edge 1: a border pixel going 0 -> 65535 changes nothing, an interior one does *)
Definition cfg := mkD 4 4 1 1 true 5 1 false false 0 0 0 0.
Definition fr (b i : Z) := DFrame (mkF [[b; b; b; b]; [b; i; 0; b]; [b; 0; 0; b]; [b; b; b; b]] 100000000000 0).
Example C08_ex :
  map fst (drun cfg (dinit cfg) [fr 0 0; fr 65535 0; fr 7 100]) = [false; false; true] /\
  map fst (drun cfg (dinit cfg) [fr 0 0; fr 0 0; fr 0 100]) = [false; false; true].
Proof. vm_compute. auto. Qed.
