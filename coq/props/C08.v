(* Property C08 - edge-border pixels and sub-threshold (cold) pixels never influence detection. *)
From Coq Require Import List ZArith Bool.
From TR Require Import model.Ring model.Detector model.DetSpec proofs.DetC07 proofs.DetC08.
(* constants and wiring read from the Go sources on every run *)
From TR Require Import proofs.FactsDet.
From TR Require Import model.DetExt proofs.TieDet.
From TR Require Import model.GoSem model.Parse model.BosonExt proofs.TieDetBase proofs.TieBoson.
Import ListNotations.
Open Scope Z_scope.

(* Two streams whose frames agree on telemetry and on every interior pixel (border pixels
   arbitrary) give, for every configuration (fixed or dynamic threshold, any edge-pixels,
   any resolution), identical verdicts and identical thresholds after every event ... *)
Theorem C08_border_noninterference : forall c evs1 evs2,
    stream_rel (frame_interior_eq c) evs1 evs2 ->
    drun c (dinit c) evs1 = drun c (dinit c) evs2.
Proof. exact border_noninterference. Qed.

(* ... and the same background estimate (whole frame: its border is a function of its
   interior), provided the interior is non-empty (2*edge < width, height) *)
Theorem C08_border_noninterference_bg : forall c evs1 evs2,
    (2 * d_edge c < d_w c)%nat /\ (2 * d_edge c < d_h c)%nat ->
    stream_rel (frame_interior_eq c) evs1 evs2 ->
    s_bg (dfinal c (dinit c) evs1) = s_bg (dfinal c (dinit c) evs2).
Proof. exact border_noninterference_bg. Qed.

(* fixed threshold: changing a pixel between two values at or below temp-thresh never
   influences detection *)
Theorem C08_cold_noninterference : forall c evs1 evs2,
    d_dynamic c = false ->
    stream_rel (frame_cold_eq c) evs1 evs2 ->
    drun c (dinit c) evs1 = drun c (dinit c) evs2.
Proof. exact cold_noninterference. Qed.

(* Recording boundaries are a function of the verdict sequence (the processor model takes the
   verdict as its only input from the detector), so equal verdicts give equal recordings. *)

(* non-vacuity: 4x4, edge 1: a border pixel going 0 -> 65535 changes nothing, an interior one does *)
Definition cfg := mkD 4 4 1 1 true 5 1 false false 0 0 0 0.
Definition fr (b i : Z) := DFrame (mkF [[b; b; b; b]; [b; i; 0; b]; [b; 0; 0; b]; [b; b; b; b]] 100000000000 0).
Example C08_ex :
  map fst (drun cfg (dinit cfg) [fr 0 0; fr 65535 0; fr 7 100]) = [false; false; true] /\
  map fst (drun cfg (dinit cfg) [fr 0 0; fr 0 0; fr 0 100]) = [false; false; true].
Proof. vm_compute. auto. Qed.

(* ---- source tie: motion/motion.go as it is in /repo now ----
   coq/translated/MotionDetector.v is regenerated from the Go source on every run (all 14 functions
   of the detector, pixel loops included); model/DetExt.v gives the calls that leave it - frame
   pixels and telemetry by handle, the float32 weights, every floating-point operation (computed
   with SpecFloat as in the model), debug tracker and logging - their meaning.  For every
   configuration with a non-empty interior and a compare gap >= 1, every stream of frames of the
   configured resolution with 16-bit pixels, and resets: after every event the translated detector
   has exactly the verdict, threshold, background-frame count, background and weights of the model
   the theorems above are about.  Two decidable side conditions on the model's own run: no weight
   exceeds MaxFloat32 (the Go code's clamp, dead code by rounding, is not in the model) and the
   threshold stays a 16-bit value (the Go field is a uint16; shown for all grids up to 2^20 pixels
   in props/C15.v).  A change to motion.go that changes what the detector computes on some stream
   breaks this theorem, whether or not a generated input reaches it. *)
Theorem C08_source_tie : forall c evs,
    dcfg_ok c -> Forall (event_ok c) evs ->
    weights_bounded_from c (dinit c) evs = true ->
    thresh_bounded_from c (dinit c) evs = true ->
    map (dproj c) (src_dtrace c evs) = model_dtrace c (dinit c) evs.
Proof. exact tie_detector. Qed.

(* ---- source tie: cmd/thermal-recorder/boson.go (convertRawBosonFrame) as it is in /repo now ----
   coq/translated/Boson.v is regenerated from the Go source on every run (the two nested range
   loops with the early return, the edge test and the byte-offset arithmetic are Gallina);
   model/BosonExt.v gives the calls that leave it their meaning: the raw bytes behind a token
   (binary.LittleEndian.Uint16(raw[i:i+2]) with Go's slice bounds check against the capacity),
   the frame's pixels and telemetry behind a handle, the BadFrameErr value.  For every byte list,
   every height, width and edge, every previous content [old] (of that size) and telemetry of the
   frame: the Go function leaves exactly the pixels and telemetry that model/Parse.v's
   [parse_raw Boson] leaves - on a zero pixel off the border the frame overwritten up to and
   including that pixel - and returns a BadFrameErr exactly when the model does, i.e.
   ([parse_bad_iff]) exactly when some pixel off the edge border is zero: border pixels never
   decide whether a frame is rejected.
   Side conditions: the frame is h x w ([tdims]: h rows of w pixels each), and the raw slice holds
   two bytes for every pixel the parser reads ([boson_pixels_read]: up to and including the first
   zero pixel off the border; 2*h*w bytes always suffice).  Shorter slices make the Go code panic
   (slice bounds out of range) - [Panicked] below, with the pixels stored so far. *)
Theorem C08_source_boson_tie : forall raw h w edge old tel,
    tdims h w old ->
    (2 * boson_pixels_read raw h w edge <= List.length raw)%nat ->
    src_boson raw edge old tel = let (e, wd) := model_boson raw h w edge old in Ok e wd.
Proof. exact tie_boson. Qed.

Theorem C08_source_boson_full : forall raw h w edge old tel,
    tdims h w old -> (2 * h * w <= List.length raw)%nat ->
    src_boson raw edge old tel = let (e, wd) := model_boson raw h w edge old in Ok e wd.
Proof. exact tie_boson_full. Qed.

Theorem C08_source_boson_short : forall raw h w edge old tel,
    tdims h w old ->
    (List.length raw < 2 * boson_pixels_read raw h w edge)%nat ->
    src_boson raw edge old tel =
    Panicked (mkBW [raw] [mkBF (stored raw h w old (List.length raw / 2)) boson_telemetry]).
Proof. exact tie_boson_short. Qed.

Theorem C08_source_boson_bad_iff : forall raw h w edge old tel,
    tdims h w old -> (2 * h * w <= List.length raw)%nat ->
    exists wd, src_boson raw edge old tel = Ok (if has_bad_pixel Boson raw h w edge then ERR_BAD_FRAME else 0) wd.
Proof. exact boson_source_bad_iff. Qed.

From TR Require Import proofs.Bridges.

(* ---- the detector is fed by motion/motionprocessor.go as it is now (proofs/TieProc.v, restated in proofs/Bridges.v):
   on every history the translated processor makes exactly the model's calls - every accepted frame reaches Detect exactly
   once, inside or outside the recording window, recording or not; a bad frame never does *)
Theorem C08_source_processor_feeds_detector : BProc.processor_source_tie_stmt.
Proof. exact BProc.processor_source_tie. Qed.

(* ---- the configuration the detector and the frame parsers are given (proofs/TieConf.v, restated in proofs/Bridges.v):
   validateConfig changes nothing; every thermal-motion key - edge-pixels among them, 0 included - is the file's value
   when present, else the camera model's default *)
Theorem C08_source_config_validate_is_empty : BConf.validate_is_empty_stmt.
Proof. exact BConf.validate_is_empty. Qed.
Theorem C08_source_config_motion_keys : BConf.motion_keys_stmt.
Proof. exact BConf.motion_keys. Qed.
