(* Property C05 - throttling bounds recorded frames by the token bucket in every interval. *)
From Coq Require Import String.
From Coq Require Import List ZArith Bool.
From TR Require Import model.Throttle model.ThrottleSpec proofs.BucketProofs proofs.ThrottleProofs proofs.ThrottleSec model.ThrExt proofs.TieCorollaries.
(* constants and wiring read from the Go sources on every run *)
From TR Require Import model.GoSem model.CtorExt proofs.TieCtor model.ThrExt model.DetExt model.Detector translated.ThrottledRecorder proofs.TieDetBase.
From TR Require Import proofs.FactsThrottle.
Import ListNotations.
Open Scope Z_scope.

(* Library level: for EVERY sequence of Available / TakeAvailable(1) calls on a bucket with a
   non-decreasing clock, in every window [a, b] of successful takes the number of tokens
   handed out is at most cap + 1 + q * (floor((b-a)/fi) + 1). *)
Theorem C05_bucket : forall cap q fi ops,
    1 <= cap -> 1 <= q -> 1 <= fi ->
    sorted_from 0 (map bop_time ops) = true ->
    windows_ok cap q fi (take_times (brun (bucket_new cap q fi) ops)) = true.
Proof. exact bucket_windows. Qed.

(* Throttled recorder: for EVERY sequence of start/write/stop/check requests (well-formed or
   not - hence also for the real motion processor under continuous motion), every failure
   script of the wrapped recorder and every non-decreasing clock, every window of frames that
   reach the wrapped recorder obeys the same bound. *)
Theorem C05_ticks : forall cap q fi minlen faults us,
    1 <= cap -> 1 <= q -> 1 <= fi ->
    monotone us = true ->
    S05 cap q fi (thsteps cap q fi minlen faults us) = true.
Proof. exact S05_holds. Qed.

(* From ticks to the configured rate: with the library's guarantee on (quantum, fillInterval)
   - checked on every run against the real bucket (rate_ok) - a window of (b - a) ns holding n
   forwarded frames has  n - (cap + 1 + q)  <=  1.010000001 * (minFrames / minRefill) * (b - a):
   bucket size plus the refill earned, within the 1 % rate margin and q + 1 (= 2) frames. *)
Theorem C05_seconds : forall cap q fi minframes refill_ns n a b,
    1 <= q -> 1 <= fi -> 0 <= minframes -> 0 < refill_ns -> a <= b ->
    rate_ok q fi minframes refill_ns = true ->
    n <= cap + 1 + q * ((b - a) / fi + 1) ->
    (n - (cap + 1 + q)) * refill_ns * 1000000000 <= 1010000001 * minframes * (b - a).
Proof. exact window_seconds. Qed.

(* The property in its own units, for every request sequence: with the quantum the library
   chooses for every rate below ~10^7 frames/s (q = 1; checked against the real bucket on
   every run together with rate_ok), every window [a, b] of frames that reach the wrapped
   recorder holds at most  bucket_frames + 2 + 1.010000001 * (minFrames / minRefill) * (b - a)
   frames.  This predicate (S05sec) is also evaluated on every implementation trace, from the
   configured sizes alone. *)
Theorem C05_property_units : forall cap fi minlen faults us minframes refill_ns,
    1 <= cap -> 1 <= fi -> 0 <= minframes -> 0 < refill_ns ->
    rate_ok 1 fi minframes refill_ns = true ->
    monotone us = true ->
    S05sec cap minframes refill_ns (thsteps cap 1 fi minlen faults us) = true.
Proof. exact S05sec_holds. Qed.

(* The same two statements about the Gallina translation of throttle/throttled_recorder.go as it
   is in /repo now (coq/translated/ThrottledRecorder.v, regenerated on every run; the token bucket,
   the wrapped recorder, the listener and the clock are the calls that leave it, model/ThrExt.v):
   a change to that file that lets more frames through on some schedule breaks these theorems. *)
Theorem C05_ticks_source : forall cap q fi minlen faults us,
    1 <= cap -> 1 <= q -> 1 <= fi -> monotone us = true ->
    S05 cap q fi (src_thsteps cap q fi minlen faults us) = true.
Proof. exact S05_source. Qed.

Theorem C05_property_units_source : forall cap fi minlen faults us minframes refill_ns,
    1 <= cap -> 1 <= fi -> 0 <= minframes -> 0 < refill_ns ->
    rate_ok 1 fi minframes refill_ns = true -> monotone us = true ->
    S05sec cap minframes refill_ns (src_thsteps cap 1 fi minlen faults us) = true.
Proof. exact S05sec_source. Qed.

(* non-vacuity: the bound is reached *)
Example C05_tight :
  take_times (brun (bucket_new 2 1 10) [BTake 29; BTake 29; BTake 29; BTake 29; BTake 30; BTake 30]) = [29; 29; 29; 30].
Proof. exact bucket_bound_tight. Qed.

(* ---- source tie for the constructor(s) as they are in /repo now (coq/translated, regenerated on
   every run; configuration values are asked of the outside world by name, model/CtorExt.v) ---- *)
(* NewThrottledRecorderWithClock: minimum length minSeconds*fps frames, bucket of whole bucket-size
   seconds * fps frames, refill rate minFrames / min-refill seconds handed to the rate limiter. *)
Theorem C05_source_constructor : forall c minSeconds,
    erange (r_bucket_secs c) -> erange (r_refill_secs c) ->
    exists w',
      ThrottledRecorder_fn_NewThrottledRecorderWithClock cext minSeconds (cw_init c) =
        Ok (thr_init (minSeconds * r_fps c)) w' /\
      In ("ratelimit.NewBucketWithRateAndClock"%string,
          [AInt (fenc (f64_div (f64_of_Z (minSeconds * r_fps c)) (r_refill_secs c)));
           AInt (f64_trunc (r_bucket_secs c) * r_fps c); ASym "clock"]) (cw_calls w').
Proof. exact tie_NewThrottledRecorder. Qed.

From TR Require Import proofs.Bridges.

(* ---- the wiring this property depends on, as cmd/thermal-recorder/main.go builds it now (proofs/TieConn.v, restated
   in proofs/Bridges.v): ONE processor and - when activated - ONE throttle per connection, built before the frame loop;
   the loop itself only resets and feeds that processor (a camera 'clear' does not rebuild anything, so the bucket and
   the throttle's recording state live exactly as long as the connection) *)
Theorem C05_source_handleConn : BConn.handleConn_source_tie_stmt.
Proof. exact BConn.handleConn_source_tie. Qed.
Theorem C05_source_wiring : BConn.wiring_stmt.
Proof. exact BConn.wiring. Qed.
