(* Property C11 - finished files decode to exactly the recorded frames, metadata and settings.
   Proof for the layers that are logic: the field/section byte layer, the header's field list and
   the reader-side view of it, the per-frame fields, and the pixel codec (snake order, deltas,
   bit packing) - partial: gzip, the TOML/viper/mapstructure configuration decoding and the YAML
   text of the motion configuration are below / beside these layers and are exercised end to end
   (config.toml + socket bytes -> real ParseConfig/handleConn -> files decoded with the standard
   reader, compared with the composed model of model/System.v). *)
From Coq Require Import String.
From Coq Require Import List ZArith Bool Arith.
From TR Require Import model.GoSem model.Socket model.ConnExt translated.ConnLoop proofs.TieConn proofs.TieConnCorollaries.
From TR Require Import model.Writer model.Cptv model.Codec proofs.CptvProofs proofs.CodecProofs.
(* constants and wiring read from the Go sources on every run *)
From TR Require Import model.GoSem model.FileRec model.FileExt translated.FileRecorder proofs.TieFile.
From TR Require Import proofs.FactsDeps.
Import ListNotations.
Open Scope Z_scope.

(* the field layer round-trips for every field list (data of at most 255 bytes each) *)
Theorem C11_fields_roundtrip : forall fs rest,
    Forall field_ok fs ->
    parse_fields (length fs) (enc_fields fs ++ rest) = Some (fs, rest).
Proof. exact fields_roundtrip. Qed.

(* header: for all device / camera / location descriptions and settings within the guards
   (strings <= 255 bytes, 0 <= preview, fps <= 255, 0 <= serial < 2^32, ...) the writer succeeds
   and the reader-side accessors return exactly device name/id, brand, model, serial, firmware,
   resolution, fps, location, preview-secs, the motion configuration text including the
   threshold at trigger time, and the background-frame flag *)
Theorem C11_header_view : forall h,
    header_in_ok h ->
    exists fs, header_fields h = Some fs /\
               (length fs <= 255)%nat /\ Forall field_ok fs /\
               parse_fields (length fs) (enc_fields fs) = Some (fs, []) /\
               view fs = expected_view h.
Proof. exact header_view_correct. Qed.

(* observation outside the guard: a motion configuration text longer than 255 bytes makes every
   StartRecording fail (WriteHeader returns an error) *)
Theorem C11_motion_text_too_long : forall h,
    (255 < length (hi_motion h))%nat -> header_fields h = None.
Proof. exact header_string_too_long. Qed.

(* frames: time-on and last-FFC time (milliseconds, modulo 2^32), temperatures (float32 bit
   patterns), bit width and size round-trip *)
Theorem C11_frame_fields : forall f,
    0 <= fi_tempc_bits f < 2 ^ 32 -> 0 <= fi_lastffctempc_bits f < 2 ^ 32 ->
    0 <= fi_bitwidth f <= 255 -> 0 <= fi_compressed_len f < 2 ^ 32 ->
    let fs := frame_fields f in
    parse_fields (length fs) (enc_fields fs) = Some (fs, []) /\
    frame_view_of fs =
      mkFV (fi_background f)
           (if fi_background f then 0 else millis (fi_timeon_ns f))
           (if fi_background f then 0 else millis (fi_lastffc_ns f))
           (if fi_background f then 0 else fi_tempc_bits f)
           (if fi_background f then 0 else fi_lastffctempc_bits f)
           (fi_bitwidth f) (fi_compressed_len f).
Proof. exact frame_fields_view. Qed.

(* pixels: go-cptv's compression is lossless for every resolution and all 16-bit values -
   one frame against any previous frame ... *)
Theorem C11_pixel_codec : forall rows cols prev cur,
    1 <= rows -> 1 <= cols ->
    length prev = Z.to_nat (rows * cols) -> length cur = Z.to_nat (rows * cols) ->
    pixels_ok prev -> pixels_ok cur ->
    let '(w, data) := compress cols prev cur in
    decompress cols (Z.to_nat (rows * cols)) w data prev = Some cur /\ 1 <= w <= 19.
Proof. exact codec_roundtrip. Qed.

(* ... and whole recordings (compressor and decompressor each thread their previous frame) *)
Theorem C11_pixel_codec_seq : forall rows cols frames prev,
    1 <= rows -> 1 <= cols ->
    length prev = Z.to_nat (rows * cols) -> pixels_ok prev ->
    Forall (fun f => length f = Z.to_nat (rows * cols) /\ pixels_ok f) frames ->
    roundtrip_seq cols (Z.to_nat (rows * cols)) prev frames = Some frames.
Proof. exact codec_roundtrip_seq. Qed.

(* ---- source tie: what cptvfilerecorder.go (as it is now) hands to the CPTV writer ----
   For every well-formed call sequence: each WriteHeader is given the motion configuration text followed by
   the threshold of ITS OWN start and the background frame of ITS OWN start, in start order, and the header's
   background reference is dropped afterwards. *)
Theorem C11_source_headers : forall d cs,
    fcalls_wf false cs = true ->
    let w := snd (src_frun d cs) in
    headers_of w = expected_headers cs /\ fw_hdr_bg w = -1.
Proof. exact tie_file_headers. Qed.

(* ---- source tie: the wiring, as cmd/thermal-recorder/main.go builds it now ----
   coq/translated/ConnLoop.v is handleConn regenerated from the Go source on every run; proofs/TieConn.v proves the
   log it produces for every connection (header, any stream, any script of Process results), and the wiring part of
   that log has the shape below: ONE processor, given the parser frameParser chose; as motion recorder the file
   recorder whose Stop is deferred, wrapped by the throttle exactly when it is activated; a continuous recorder of
   its own exactly when configured; and for test recordings a plain file recorder of its own - not shared with the
   motion or the continuous recorder, never throttled. *)
Theorem C11_source_handleConn : forall cfg cs script i1 i2 fuel text rest h,
  header_c (S (total_len cs)) cs [] = Some (text, rest) ->
  c_decode cfg text = Some h ->
  parser_of (h_brand h) (h_model h) <> 0 ->
  5 <= h_fs h -> h_fps h <> 0 -> i1 <> 0 -> i2 <> 0 ->
  (total_len rest < fuel)%nat ->
  post (src_conn cfg fuel (conn_init cs script i1 i2))
    (fun r w' =>
       r = Some (end_err (S (total_len rest)) (Z.to_nat (h_fs h)) rest) /\ cw_in w' = [] /\
       cw_log w' = prelude_log cfg (parser_of (h_brand h) (h_model h)) ++
                   loop_log (proc_tok cfg) (frames_c (S (total_len rest)) (Z.to_nat (h_fs h)) rest) script ++
                   [EStop REC_TOK]).
Proof. exact tie_handleConn. Qed.

Theorem C11_source_wiring : forall cfg parser,
  let l := prelude_log cfg parser in
  exists rec const snap tok,
    filter (fun e => match e with ENewProcessor _ _ _ _ _ => true | _ => false end) l =
      [ENewProcessor parser rec const snap tok] /\
    In (ENewRecorder snap) l /\ snap <> REC_TOK /\ snap <> rec /\ snap <> const /\
    ~ In (ESetConstant snap) l /\ (forall m t, ~ In (ENewThrottle snap m t) l) /\
    (if c_throttle cfg then In (ENewThrottle REC_TOK (c_minsecs cfg + c_preview cfg) rec) l else rec = REC_TOK) /\
    (if c_const cfg then In (ENewRecorder const) l /\ In (ESetConstant const) l /\ const <> REC_TOK /\ const <> rec
     else const = 0) /\
    hd_error l = Some (ConnExt.EAutoFFC true).
Proof. exact wiring_facts. Qed.
