(* Property C11 - finished files decode to exactly the recorded frames, metadata and settings.
   Proof for the layers that are logic: the field/section byte layer, the header's field list and
   the reader-side view of it, the per-frame fields, and the pixel codec (snake order, deltas,
   bit packing) - partial: gzip, the TOML/viper/mapstructure configuration decoding and the YAML
   text of the motion configuration are below / beside these layers and are exercised end to end
   (config.toml + socket bytes -> real ParseConfig/handleConn -> files decoded with the standard
   reader, compared with the composed model of model/System.v). *)
From Coq Require Import String.
From Coq Require Import List ZArith Bool Arith.
From TR Require Import model.GoSem model.Socket model.ConnExt translated.ConnLoop proofs.TieConn proofs.TieConnCorollaries.
From TR Require Import model.Writer model.Cptv model.Codec proofs.CptvProofs proofs.CodecProofs.
(* constants and wiring read from the Go sources on every run *)
From TR Require Import model.GoSem model.FileRec model.FileExt translated.FileRecorder proofs.TieFile.
From TR Require Import proofs.FactsDeps.
Import ListNotations.
Open Scope Z_scope.

(* the field layer round-trips for every field list (data of at most 255 bytes each) *)
Theorem C11_fields_roundtrip : forall fs rest,
    Forall field_ok fs ->
    parse_fields (length fs) (enc_fields fs ++ rest) = Some (fs, rest).
Proof. exact fields_roundtrip. Qed.

(* header: for all device / camera / location descriptions and settings within the guards
   (strings <= 255 bytes, 0 <= preview, fps <= 255, 0 <= serial < 2^32, ...) the writer succeeds
   and the reader-side accessors return exactly device name/id, brand, model, serial, firmware,
   resolution, fps, location, preview-secs, the motion configuration text including the
   threshold at trigger time, and the background-frame flag *)
Theorem C11_header_view : forall h,
    header_in_ok h ->
    exists fs, header_fields h = Some fs /\
               (length fs <= 255)%nat /\ Forall field_ok fs /\
               parse_fields (length fs) (enc_fields fs) = Some (fs, []) /\
               view fs = expected_view h.
Proof. exact header_view_correct. Qed.

(* observation outside the guard: a motion configuration text longer than 255 bytes makes every
   StartRecording fail (WriteHeader returns an error) *)
Theorem C11_motion_text_too_long : forall h,
    (255 < length (hi_motion h))%nat -> header_fields h = None.
Proof. exact header_string_too_long. Qed.

(* frames: time-on and last-FFC time (milliseconds, modulo 2^32), temperatures (float32 bit
   patterns), bit width and size round-trip *)
Theorem C11_frame_fields : forall f,
    0 <= fi_tempc_bits f < 2 ^ 32 -> 0 <= fi_lastffctempc_bits f < 2 ^ 32 ->
    0 <= fi_bitwidth f <= 255 -> 0 <= fi_compressed_len f < 2 ^ 32 ->
    let fs := frame_fields f in
    parse_fields (length fs) (enc_fields fs) = Some (fs, []) /\
    frame_view_of fs =
      mkFV (fi_background f)
           (if fi_background f then 0 else millis (fi_timeon_ns f))
           (if fi_background f then 0 else millis (fi_lastffc_ns f))
           (if fi_background f then 0 else fi_tempc_bits f)
           (if fi_background f then 0 else fi_lastffctempc_bits f)
           (fi_bitwidth f) (fi_compressed_len f).
Proof. exact frame_fields_view. Qed.

(* pixels: go-cptv's compression is lossless for every resolution and all 16-bit values -
   one frame against any previous frame ... *)
Theorem C11_pixel_codec : forall rows cols prev cur,
    1 <= rows -> 1 <= cols ->
    length prev = Z.to_nat (rows * cols) -> length cur = Z.to_nat (rows * cols) ->
    pixels_ok prev -> pixels_ok cur ->
    let '(w, data) := compress cols prev cur in
    decompress cols (Z.to_nat (rows * cols)) w data prev = Some cur /\ 1 <= w <= 19.
Proof. exact codec_roundtrip. Qed.

(* ... and whole recordings (compressor and decompressor each thread their previous frame) *)
Theorem C11_pixel_codec_seq : forall rows cols frames prev,
    1 <= rows -> 1 <= cols ->
    length prev = Z.to_nat (rows * cols) -> pixels_ok prev ->
    Forall (fun f => length f = Z.to_nat (rows * cols) /\ pixels_ok f) frames ->
    roundtrip_seq cols (Z.to_nat (rows * cols)) prev frames = Some frames.
Proof. exact codec_roundtrip_seq. Qed.

(* ---- source tie: what cptvfilerecorder.go (as it is now) hands to the CPTV writer ----
   For every well-formed call sequence: each WriteHeader is given the motion configuration text followed by
   the threshold of ITS OWN start and the background frame of ITS OWN start, in start order, and the header's
   background reference is dropped afterwards. *)
Theorem C11_source_headers : forall d cs,
    fcalls_wf false cs = true ->
    let w := snd (src_frun d cs) in
    headers_of w = expected_headers cs /\ fw_hdr_bg w = -1.
Proof. exact tie_file_headers. Qed.

(* ---- source tie: the wiring, as cmd/thermal-recorder/main.go builds it now ----
   coq/translated/ConnLoop.v is handleConn regenerated from the Go source on every run; proofs/TieConn.v proves the
   log it produces for every connection (header, any stream, any script of Process results), and the wiring part of
   that log has the shape below: ONE processor, given the parser frameParser chose; as motion recorder the file
   recorder whose Stop is deferred, wrapped by the throttle exactly when it is activated; a continuous recorder of
   its own exactly when configured; and for test recordings a plain file recorder of its own - not shared with the
   motion or the continuous recorder, never throttled. *)
Theorem C11_source_handleConn : forall cfg cs script i1 i2 fuel text rest h,
  header_c (S (total_len cs)) cs [] = Some (text, rest) ->
  c_decode cfg text = Some h ->
  parser_of (h_brand h) (h_model h) <> 0 ->
  5 <= h_fs h -> h_fps h <> 0 -> i1 <> 0 -> i2 <> 0 ->
  (total_len rest < fuel)%nat ->
  post (src_conn cfg fuel (conn_init cs script i1 i2))
    (fun r w' =>
       r = Some (end_err (S (total_len rest)) (Z.to_nat (h_fs h)) rest) /\ cw_in w' = [] /\
       cw_log w' = prelude_log cfg (parser_of (h_brand h) (h_model h)) ++
                   loop_log (proc_tok cfg) (frames_c (S (total_len rest)) (Z.to_nat (h_fs h)) rest) script ++
                   [EStop REC_TOK]).
Proof. exact tie_handleConn. Qed.

Theorem C11_source_wiring : forall cfg parser,
  let l := prelude_log cfg parser in
  exists rec const snap tok,
    filter (fun e => match e with ENewProcessor _ _ _ _ _ => true | _ => false end) l =
      [ENewProcessor parser rec const snap tok] /\
    In (ENewRecorder snap) l /\ snap <> REC_TOK /\ snap <> rec /\ snap <> const /\
    ~ In (ESetConstant snap) l /\ (forall m t, ~ In (ENewThrottle snap m t) l) /\
    (if c_throttle cfg then In (ENewThrottle REC_TOK (c_minsecs cfg + c_preview cfg) rec) l else rec = REC_TOK) /\
    (if c_const cfg then In (ENewRecorder const) l /\ In (ESetConstant const) l /\ const <> REC_TOK /\ const <> rec
     else const = 0) /\
    hd_error l = Some (ConnExt.EAutoFFC true).
Proof. exact wiring_facts. Qed.

(* ---- source tie: the configuration mapping, as the Go sources are now ----
   "The settings read from config.toml are the ones that shape the files."  coq/translated/{ConfRecorder,ConfThrottle,
   ConfMotion,Config}.v are recorder/recorderconfig.go, throttle/config.go, motion/motionconfig.go and
   cmd/thermal-recorder/config.go regenerated on every run (which sections are read in which order, which defaults are
   taken before unmarshalling, every field-by-field copy, every validation, every early return); model/ConfExt.v is the
   go-config library as far as this code uses it - the file as a function section -> optional keys, the library's
   defaults as PARAMETERS (every theorem is for every [clib]), Unmarshal = override with the keys present, a script of
   the files successive goconfig.New calls find, a fault script for sections that fail to decode.  proofs/TieConf.v
   (axiom-free) proves, for every world (0 < w_next: tokens are positive), directory and camera model: *)
From TR Require Import translated.ConfMotion translated.ConfRecorder translated.ConfThrottle translated.Config.
From TR Require Import model.ConfExt proofs.TieConf.

(* ParseConfig, whole: which way out is taken ([parse_outcome]: goconfig.New fails; the first of the eight Unmarshal
   calls - thermal-recorder, location, windows, thermal-throttler, location, thermal-recorder, lepton, device - that
   fails; window.New refuses; max-secs < min-secs; success), the error returned with the ZERO Config on every error,
   the sections read up to that point and no other call of the library, and on success every field *)
Theorem C11_source_config_parse : forall (L : clib) (dir : Z) (w : ConfExt.cworld),
  0 < w_next w ->
  cpost (src_parse L dir w)
    (fun (r : Config * Z) (w' : ConfExt.cworld) =>
     exists evs : list ConfExt.cev,
       extends w w' evs /\ bad_calls evs = nil /\ w_reads w' = tl (w_reads w) /\
       (exists tok err : Z, hd_error evs = Some (ENew dir tok err)) /\
       match parse_outcome L (w_reads w) (w_faults w) with
       | PNewErr e => r = (ZERO_CONFIG, e) /\ e <> 0 /\ sections_read evs = nil
       | PDecodeErr k e => r = (ZERO_CONFIG, e) /\ e <> 0 /\ sections_read evs = firstn (S k) parse_order
       | PWindowErr e => r = (ZERO_CONFIG, e) /\ e <> 0 /\ sections_read evs = recorder_order
       | PMaxLtMin =>
           fst r = ZERO_CONFIG /\ snd r <> 0 /\ sections_read evs = recorder_order /\
           (exists t : Z, w_heap w' (snd r) = OErr t /\ w_heap w' t = OStr MAX_LT_MIN)
       | POk =>
           snd r = 0 /\ sections_read evs = parse_order /\
           w_faults w' = Nat.iter 8 (@tl Z) (w_faults w) /\
           Config_Motion (fst r) = 0 /\
           tokens_in (fst r) (w_next w) (w_next w') /\
           match w_reads w with
           | inr f :: _ => config_vals L dir f (fst r) w'
           | _ => False
           end
       end).
Proof. exact tie_ParseConfig. Qed.

(* success, unfolded: the file decodes, the window is accepted, min-secs <= max-secs (equal is accepted): nil, and
   [config_vals]; ParseConfig does NOT fill Config.Motion (it stays the zero struct until LoadMotionConfig) *)
Theorem C11_source_config_values : forall (L : clib) (dir : Z) (f : cfile) (rest : list (Z + cfile)) (w : ConfExt.cworld),
  0 < w_next w ->
  w_reads w = inr f :: rest ->
  (forall k : nat, (k < 8)%nat -> fault_at k (w_faults w) = 0) ->
  window_err L f = 0 ->
  rec_vals L f "MinSecs" <= rec_vals L f "MaxSecs" ->
  cpost (src_parse L dir w)
    (fun (r : Config * Z) (w' : ConfExt.cworld) =>
     snd r = 0 /\
     config_vals L dir f (fst r) w' /\
     Config_Motion (fst r) = 0 /\
     tokens_in (fst r) (w_next w) (w_next w') /\
     w_next w <= w_next w' /\
     (forall t : Z, t < w_next w -> w_heap w' t = w_heap w t) /\
     w_reads w' = rest /\
     w_faults w' = Nat.iter 8 (@tl Z) (w_faults w) /\
     (exists evs : list ConfExt.cev,
        w_log w' = w_log w ++ evs /\ sections_read evs = parse_order /\ bad_calls evs = nil /\
        (exists tok err : Z, hd_error evs = Some (ENew dir tok err)))).
Proof. exact tie_ParseConfig_ok. Qed.

(* [config_vals], field by field: each value is the file's key when the section and the key are present
   ([C11_source_config_key]) and otherwise the library's default - of thermal-recorder for min/max/preview secs,
   constant-recorder, output dir, min-disk-space; of windows for start/stop; of thermal-throttler for activate,
   bucket-size, min-refill (all its keys); of lepton for the frame input - and ZERO for device id / name and for the
   location written into the file headers, while the location handed to window.New defaults to the library's window
   location: a device without [location] gets its recording window computed for the default place and records
   latitude = longitude = 0 in its files *)
Theorem C11_source_config_fields : forall (L : clib) (dir : Z) (f : cfile) (c : Config) (w' : ConfExt.cworld),
  config_vals L dir f c w' <->
  Config_ConfigDir c = dir /\
  Config_DeviceID c = override zero_fields (f SDevice) "ID" /\
  Config_DeviceName c = override zero_fields (f SDevice) "Name" /\
  Config_FrameInput c = override (d_lepton L) (f SLepton) "FrameOutput" /\
  Config_OutputDir c = override (d_recorder L) (f SRecorder) "OutputDir" /\
  Config_MinDiskSpace c = wrap_u 64 (override (d_recorder L) (f SRecorder) "MinDiskSpaceMB") /\
  (RecorderConfig_MinSecs (Config_Recorder c) = override (d_recorder L) (f SRecorder) "MinSecs" /\
   RecorderConfig_MaxSecs (Config_Recorder c) = override (d_recorder L) (f SRecorder) "MaxSecs" /\
   RecorderConfig_PreviewSecs (Config_Recorder c) = override (d_recorder L) (f SRecorder) "PreviewSecs" /\
   RecorderConfig_ConstantRecorder (Config_Recorder c) = z_to_bool (override (d_recorder L) (f SRecorder) "ConstantRecorder") /\
   w_heap w' (RecorderConfig_Window (Config_Recorder c)) =
     OWindow (override (d_windows L) (f SWindows) "StartRecording") (override (d_windows L) (f SWindows) "StopRecording")
             (override (d_winloc L) (f SLocation) "Latitude") (override (d_winloc L) (f SLocation) "Longitude")) /\
  w_heap w' (Config_Throttler c) = OSect SThrottler (override (d_throttler L) (f SThrottler)) /\
  w_heap w' (Config_Location c) = OSect SLocation (override zero_fields (f SLocation)) /\
  Config_Verbose c = false.
Proof. exact config_vals_fields. Qed.

Theorem C11_source_config_key : forall (d : fields) (s : option fkeys) (k : string),
  override d s k = match s with
                   | Some p => match p k with Some v => v | None => d k end
                   | None => d k
                   end.
Proof. exact override_eq. Qed.

(* min-disk-space-mb: a uint64 in the library and in Config; the wrap above is the identity on such a value *)
Theorem C11_source_config_min_disk_space : forall v : Z, 0 <= v < 2 ^ 64 -> wrap_u 64 v = v.
Proof. exact wrap_u64_id. Qed.

(* the error cases: goconfig.New fails / the (k+1)-th Unmarshal is the first to fail / window.New refuses /
   max-secs < min-secs - the error, NO config (the zero value), and exactly the sections before were read *)
Theorem C11_source_config_new_error : forall (L : clib) (dir e : Z) (rest : list (Z + cfile)) (w : ConfExt.cworld),
  0 < w_next w ->
  w_reads w = inl e :: rest ->
  cpost (src_parse L dir w)
    (fun (r : Config * Z) (w' : ConfExt.cworld) =>
     r = (ZERO_CONFIG, new_err e) /\ new_err e <> 0 /\
     (exists evs : list ConfExt.cev, w_log w' = w_log w ++ evs /\ sections_read evs = nil /\ bad_calls evs = nil)).
Proof. exact tie_ParseConfig_new_error. Qed.

Theorem C11_source_config_first_fault : forall (L : clib) (dir : Z) (f : cfile) (rest : list (Z + cfile)) (w : ConfExt.cworld) (k : nat) (e : Z),
  0 < w_next w ->
  w_reads w = inr f :: rest ->
  (k < 8)%nat ->
  (forall j : nat, (j < k)%nat -> fault_at j (w_faults w) = 0) ->
  fault_at k (w_faults w) = e ->
  e <> 0 ->
  ((3 <= k)%nat -> window_err L f = 0 /\ rec_vals L f "MinSecs" <= rec_vals L f "MaxSecs") ->
  cpost (src_parse L dir w)
    (fun (r : Config * Z) (w' : ConfExt.cworld) =>
     r = (ZERO_CONFIG, e) /\
     (exists evs : list ConfExt.cev,
        w_log w' = w_log w ++ evs /\ sections_read evs = firstn (S k) parse_order /\ bad_calls evs = nil)).
Proof. exact tie_ParseConfig_first_fault. Qed.

Theorem C11_source_config_window_error : forall (L : clib) (dir : Z) (f : cfile) (rest : list (Z + cfile)) (w : ConfExt.cworld),
  0 < w_next w ->
  w_reads w = inr f :: rest ->
  (forall k : nat, (k < 3)%nat -> fault_at k (w_faults w) = 0) ->
  window_err L f <> 0 ->
  cpost (src_parse L dir w)
    (fun (r : Config * Z) (w' : ConfExt.cworld) =>
     r = (ZERO_CONFIG, window_err L f) /\
     (exists evs : list ConfExt.cev,
        w_log w' = w_log w ++ evs /\ sections_read evs = recorder_order /\ bad_calls evs = nil)).
Proof. exact tie_ParseConfig_window_error. Qed.

Theorem C11_source_config_max_lt_min : forall (L : clib) (dir : Z) (f : cfile) (rest : list (Z + cfile)) (w : ConfExt.cworld),
  0 < w_next w ->
  w_reads w = inr f :: rest ->
  (forall k : nat, (k < 3)%nat -> fault_at k (w_faults w) = 0) ->
  window_err L f = 0 ->
  rec_vals L f "MaxSecs" < rec_vals L f "MinSecs" ->
  cpost (src_parse L dir w)
    (fun (r : Config * Z) (w' : ConfExt.cworld) =>
     fst r = ZERO_CONFIG /\ snd r <> 0 /\
     (exists t : Z, w_heap w' (snd r) = OErr t /\ w_heap w' t = OStr MAX_LT_MIN) /\
     (exists evs : list ConfExt.cev,
        w_log w' = w_log w ++ evs /\ sections_read evs = recorder_order /\ bad_calls evs = nil)).
Proof. exact tie_ParseConfig_max_lt_min. Qed.

(* RecorderConfig.validate, alone: the only validation of the recorder settings *)
Theorem C11_source_config_validate : forall (L : clib) (rc : RecorderConfig) (w : ConfExt.cworld),
  cpost (RecorderConfig_validate (ConfExt.cext L) rc w)
    (fun (r : RecorderConfig * Z) (w' : ConfExt.cworld) =>
     fst r = rc /\
     (if RecorderConfig_MaxSecs rc <? RecorderConfig_MinSecs rc
      then
       snd r = w_next w + 1 /\
       w_heap w' (snd r) = OErr (w_next w) /\
       w_heap w' (w_next w) = OStr MAX_LT_MIN /\
       w_next w' = w_next w + 2 /\
       (forall t : Z, t < w_next w -> w_heap w' t = w_heap w t) /\
       w_reads w' = w_reads w /\ w_faults w' = w_faults w /\ w_log w' = w_log w
      else snd r = 0 /\ w' = w)).
Proof. exact tie_validate. Qed.

(* throttle.NewConfig: ALL keys of thermal-throttler (activate, bucket-size, min-refill) over the library's defaults *)
Theorem C11_source_config_throttler : forall (L : clib) (conf : Z) (f : cfile) (w : ConfExt.cworld),
  w_heap w conf = OConf f ->
  conf < w_next w ->
  cpost (ConfThrottle_fn_NewConfig (ConfExt.cext L) conf w)
    (fun (r : Z * Z) (w' : ConfExt.cworld) =>
     let e := fault_at 0 (w_faults w) in
     extends w w' (EUnmarshal conf SThrottler (w_next w) e :: nil) /\
     w_reads w' = w_reads w /\
     w_faults w' = tl (w_faults w) /\
     w_next w' = w_next w + 1 /\
     (if e =? 0 then r = (w_next w, 0) /\ w_heap w' (w_next w) = OSect SThrottler (throttler_vals L f) else r = (0, e))).
Proof. exact tie_throttle_NewConfig. Qed.

(* ParseConfig and then LoadMotionConfig model - what main and handleConn do before the first recorder is built:
   every field at once.  f1 is the file as ParseConfig found it, f2 as LoadMotionConfig found it (a fresh
   goconfig.New of the same directory) *)
Theorem C11_source_config_parse_then_load : forall (L : clib) (dir model : Z) (f1 f2 : cfile) (rest : list (Z + cfile)) (w : ConfExt.cworld),
  0 < w_next w ->
  w_reads w = inr f1 :: inr f2 :: rest ->
  (forall k : nat, (k < 9)%nat -> fault_at k (w_faults w) = 0) ->
  window_err L f1 = 0 ->
  rec_vals L f1 "MinSecs" <= rec_vals L f1 "MaxSecs" ->
  cpost (bind (src_parse L dir) (fun r : Config * Z => src_load L (fst r) model) w)
    (fun (r : Config * Z) (w' : ConfExt.cworld) =>
     snd r = 0 /\ config_vals L dir f1 (fst r) w' /\
     w_heap w' (Config_Motion (fst r)) = OSect SMotion (motion_vals L model f2)).
Proof. exact tie_Parse_then_Load. Qed.

(* FINDING (cmd/thermal-recorder/main.go:216 calls conf.LoadMotionConfig(headerInfo.Model()) and drops its result):
   when that call fails - the file cannot be read or locked at that moment, or its thermal-motion section does not
   decode, which ParseConfig never notices because it does not read that section - the Config the recorders and the
   detector are then built from has the ZERO motion section (every threshold 0, trigger-frames 0, frame-compare-gap 0),
   and the header of every file records it.  Reproduced on the real code: [thermal-motion] temp-thresh = "abc" *)
Theorem C11_source_config_failed_load_leaves_zero : forall (L : clib) (dir model : Z) (f1 : cfile) (rest : list (Z + cfile)) (w : ConfExt.cworld),
  0 < w_next w ->
  w_reads w = inr f1 :: rest ->
  (forall k : nat, (k < 8)%nat -> fault_at k (w_faults w) = 0) ->
  window_err L f1 = 0 ->
  rec_vals L f1 "MinSecs" <= rec_vals L f1 "MaxSecs" ->
  load_outcome rest (Nat.iter 8 (@tl Z) (w_faults w)) <> POk ->
  cpost (bind (src_parse L dir) (fun r : Config * Z => src_load L (fst r) model) w)
    (fun (r : Config * Z) (_ : ConfExt.cworld) => snd r <> 0 /\ Config_Motion (fst r) = 0).
Proof. exact tie_Parse_then_failed_Load. Qed.

(* evaluated: the library's own numbers as parameters, a file with min-secs = 20, constant-recorder, temp-thresh = 3000,
   device id / name, latitude *)
Example C11_source_config_example :
  observe (bind (src_parse EXL 7) (fun r => src_load EXL (fst r) MODEL35) (w_init [inr ex_file; inr ex_file] [])) =
  Some (0, [42; 103; 102; 101; 200; 20; 600; 5; 1; -36; 1726362; -36; 0; 1; 600000000000; 3000; 200; 2],
        [SRecorder; SLocation; SWindows; SThrottler; SLocation; SRecorder; SLepton; SDevice; SMotion], []).
Proof. exact ex_parse_load. Qed.
