(* Property C06 - throttle: transparent within budget, clean cuts, restarts only with a full
   clip, paired calls, one event per incident. *)
From Coq Require Import List ZArith Bool.
From TR Require Import model.Throttle model.ThrottleSpec proofs.ThrottleProofs proofs.ThrottleC06 model.ThrExt proofs.TieThrottle proofs.TieCorollaries.
(* constants and wiring read from the Go sources on every run *)
From TR Require Import proofs.FactsThrottle.
Import ListNotations.
Open Scope Z_scope.

(* For every conforming upstream call sequence (Check* (failed Start | Start Write* Stop))*,
   every non-decreasing clock and every failure script of the wrapped recorder:
   (a) if no 'throttled' event occurs, every call is forwarded unchanged, in order, and its
       result returned (S06a);
   (b) the wrapped recorder sees start / write* / stop properly paired, a failed start leaves
       it closed (S06bd);
   (d) a file closed by the throttle holds at least minlen forwarded frames - files are
       (re)started, also in the middle of a trigger, only with minlen tokens available (S06bd);
   (e) exactly one 'throttled' event per suppressed start and per cut, none otherwise (S06e);
   (f) every start the wrapped recorder sees - forwarded or issued by the throttle in the middle of a
       trigger - carries the background frame and threshold of the latest upstream start (S06f). *)
Theorem C06_all : forall cap q fi minlen faults us,
    1 <= cap -> 1 <= q -> 1 <= fi ->
    monotone us = true ->
    conforming (thsteps cap q fi minlen faults us) = true ->
    S06 minlen (thsteps cap q fi minlen faults us) = true.
Proof. exact S06_holds. Qed.

(* The same statement about the Gallina translation of throttle/throttled_recorder.go as it is
   in /repo now (coq/translated/ThrottledRecorder.v, regenerated on every run), and the tie it
   rests on: on every call sequence the translated code and the hand-written model produce the
   same calls on the wrapped recorder, the same events and the same return values. *)
Theorem C06_all_source : forall cap q fi minlen faults us,
    1 <= cap -> 1 <= q -> 1 <= fi -> monotone us = true ->
    conforming (src_thsteps cap q fi minlen faults us) = true ->
    S06 minlen (src_thsteps cap q fi minlen faults us) = true.
Proof. exact S06_source. Qed.

Theorem C06_source_tie : forall cap q fi minlen faults us,
    src_thrun cap q fi minlen faults us = thrun (th_init cap q fi minlen faults) us.
Proof. exact tie_throttle. Qed.

(* non-vacuity: capacity 3, minlen 2, one token per 10 ns: a 5-frame trigger is cut after 3
   frames (one event), dropped silently, and restarted once 2 tokens are back *)
Definition ex := thsteps 3 1 10 2 []
  [UStart 7 3000 0; UWrite 0 1 1; UWrite 1 2 2; UWrite 2 3 3; UWrite 3 4 4; UWrite 4 5 5; UWrite 5 21 21; UStop].
Example C06_ex :
  conforming ex = true /\ S06 2 ex = true /\
  map snd ex =
   [[BStart 7 3000 false; Ret false]; [BWrite 0 1 false; Ret false]; [BWrite 1 2 false; Ret false];
    [BWrite 2 3 false; Ret false]; [Throttled; BStop false; Ret false]; [Ret false];
    [BStart 7 3000 false; BWrite 5 21 false; Ret false]; [BStop false; Ret false]].
Proof. vm_compute. auto. Qed.
