(* Property C06 - throttle: transparent within budget, clean cuts, restarts only with a full
   clip, paired calls, one event per incident. *)
From Coq Require Import String List ZArith Bool.
From TR Require Import model.Throttle model.ThrottleSpec proofs.ThrottleProofs proofs.ThrottleC06 model.ThrExt proofs.TieThrottle proofs.TieCorollaries.
(* constants and wiring read from the Go sources on every run *)
From TR Require Import proofs.FactsThrottle.
Import ListNotations.
Open Scope Z_scope.

(* For every conforming upstream call sequence (Check* (failed Start | Start Write* Stop))*,
   every non-decreasing clock and every failure script of the wrapped recorder:
   (a) if no 'throttled' event occurs, every call is forwarded unchanged, in order, and its
       result returned (S06a);
   (b) the wrapped recorder sees start / write* / stop properly paired, a failed start leaves
       it closed (S06bd);
   (d) a file closed by the throttle holds at least minlen forwarded frames - files are
       (re)started, also in the middle of a trigger, only with minlen tokens available (S06bd);
   (e) exactly one 'throttled' event per suppressed start and per cut, none otherwise (S06e);
   (f) every start the wrapped recorder sees - forwarded or issued by the throttle in the middle of a
       trigger - carries the background frame and threshold of the latest upstream start (S06f). *)
Theorem C06_all : forall cap q fi minlen faults us,
    1 <= cap -> 1 <= q -> 1 <= fi ->
    monotone us = true ->
    conforming (thsteps cap q fi minlen faults us) = true ->
    S06 minlen (thsteps cap q fi minlen faults us) = true.
Proof. exact S06_holds. Qed.

(* The same statement about the Gallina translation of throttle/throttled_recorder.go as it is
   in /repo now (coq/translated/ThrottledRecorder.v, regenerated on every run), and the tie it
   rests on: on every call sequence the translated code and the hand-written model produce the
   same calls on the wrapped recorder, the same events and the same return values. *)
Theorem C06_all_source : forall cap q fi minlen faults us,
    1 <= cap -> 1 <= q -> 1 <= fi -> monotone us = true ->
    conforming (src_thsteps cap q fi minlen faults us) = true ->
    S06 minlen (src_thsteps cap q fi minlen faults us) = true.
Proof. exact S06_source. Qed.

Theorem C06_source_tie : forall cap q fi minlen faults us,
    src_thrun cap q fi minlen faults us = thrun (th_init cap q fi minlen faults) us.
Proof. exact tie_throttle. Qed.

(* non-vacuity: capacity 3, minlen 2, one token per 10 ns: a 5-frame trigger is cut after 3
   frames (one event), dropped silently, and restarted once 2 tokens are back *)
Definition ex := thsteps 3 1 10 2 []
  [UStart 7 3000 0; UWrite 0 1 1; UWrite 1 2 2; UWrite 2 3 3; UWrite 3 4 4; UWrite 4 5 5; UWrite 5 21 21; UStop].
Example C06_ex :
  conforming ex = true /\ S06 2 ex = true /\
  map snd ex =
   [[BStart 7 3000 false; Ret false]; [BWrite 0 1 false; Ret false]; [BWrite 1 2 false; Ret false];
    [BWrite 2 3 false; Ret false]; [Throttled; BStop false; Ret false]; [Ret false];
    [BStart 7 3000 false; BWrite 5 21 false; Ret false]; [BStop false; Ret false]].
Proof. vm_compute. auto. Qed.

(* ---- the event sink (throttle/throttled_event_recorder.go): "exactly one 'throttled' event per suppressed start or cut" ----
   S06e counts the [Throttled] entries of the throttle's trace - the calls of listener.WhenThrottled().  What ONE such call
   does is the translated ThrottledEventRecorder.WhenThrottled (translated/ThrottleEvents.v, the Go code as it is now) over
   model/EventsExt.v (clock script, result scripts for json.Marshal / dbus.SystemBus / the D-Bus call, a log of every call
   made); proofs/TieEvents.v.  Every theorem is for EVERY state of that world. *)
From TR Require Import model.GoSem translated.ThrottleEvents model.EventsExt proofs.TieEvents.

(* it never panics, returns nothing (no error can reach the throttle), and leaves the world [when_world] *)
Theorem C06_source_event_tie : forall w, src_when w = Ok tt (when_world w).
Proof. exact tie_WhenThrottled. Qed.

Theorem C06_source_event_log : forall w,
    elog_since w (when_world w) = when_log w /\
    when_log w =
      match marshal_of w with
      | Some e => [XNow (now_of w); XMarshal false; XLogLine MSG (Zpos e)]
      | None =>
        match bus_of w with
        | Some e => [XNow (now_of w); XMarshal true; XBus false; XLogLine MSG (Zpos e)]
        | None =>
          match call_of w with
          | Some e => [XNow (now_of w); XMarshal true; XBus true; queue_ev (now_of w) (Zpos e); XLogLine MSG (Zpos e)]
          | None => [XNow (now_of w); XMarshal true; XBus true; queue_ev (now_of w) 0]
          end
        end
      end.
Proof. exact when_log_unfolded. Qed.

(* at most one D-Bus call per WhenThrottled; exactly one iff neither json.Marshal nor dbus.SystemBus fails *)
Theorem C06_source_event_at_most_one : forall w, (List.length (queue_calls (when_log w)) <= 1)%nat.
Proof. exact when_at_most_one. Qed.

Theorem C06_source_event_exactly_one_iff : forall w,
    List.length (queue_calls (when_log w)) = 1%nat <-> marshal_of w = None /\ bus_of w = None.
Proof. exact when_exactly_one_iff. Qed.

(* the call made: org.cacophony.Events.Queue on (org.cacophony.Events, /org/cacophony/Events), flags 0, details
   {"description": {"type": "throttle"}}, time stamp = the clock reading taken at entry - the first thing the function does *)
Theorem C06_source_event_queue_shape : forall w e,
    In e (queue_calls (when_log w)) ->
    e = XCall "org.cacophony.Events" "/org/cacophony/Events" "org.cacophony.Events.Queue" 0
              [("description"%string, JMap [("type"%string, JStr "throttle")])] (now_of w) (xerr (call_of w)).
Proof. exact when_queue_shape. Qed.

Theorem C06_source_event_reads_clock_first : forall w,
    exists rest, when_log w = XNow (now_of w) :: rest /\
                 forallb (fun e => match e with XNow _ => false | _ => true end) rest = true.
Proof. exact when_reads_clock_first. Qed.

(* an event that cannot be delivered is only logged: one line carrying the error of the first thing that failed *)
Theorem C06_source_event_failure_logged : forall w,
    filter is_line (when_log w) = match when_failure w with Some e => [XLogLine MSG (Zpos e)] | None => [] end.
Proof. exact when_failure_logged. Qed.

Theorem C06_source_event_no_bad_call : forall w, filter is_xbad (when_log w) = [].
Proof. exact when_no_bad. Qed.

(* one WhenThrottled per [Throttled] entry of a throttle trace: never a panic, never more Queue calls than entries; with
   json.Marshal and the system bus working exactly one per entry - [count_throttled] of S06e, summed over the trace -
   stamped with the clock readings in order *)
Theorem C06_source_event_per_incident : forall tr w,
    src_when_n (incidents tr) w = Some (when_n_world (incidents tr) w) /\
    elog_since w (when_n_world (incidents tr) w) = when_n_log (incidents tr) w /\
    (Z.of_nat (List.length (queue_calls (when_n_log (incidents tr) w))) <= fold_right Z.add 0 (map count_throttled tr)) /\
    (healthy (ew_marshal w) -> healthy (ew_bus w) ->
     queue_calls (when_n_log (incidents tr) w) = expected_queue (incidents tr) (ew_clock w) (ew_call w) /\
     Z.of_nat (List.length (queue_calls (when_n_log (incidents tr) w))) = fold_right Z.add 0 (map count_throttled tr)).
Proof. exact events_per_incident. Qed.

Theorem C06_source_event_translated :
    untranslated_ThrottleEvents = [] /\ forallb (fun n => existsb (String.eqb n) eext_names) ext_names_ThrottleEvents = true.
Proof. exact (conj events_untranslated events_ext_names_known). Qed.

(* non-vacuity (evaluated): three incidents - delivered; the bus is down; delivered but the events service answers with an error *)
Example C06_source_event_ex :
  show_when (src_when_n 3 (ew_init [1000; 2000; 3000] [] [None; Some 7%positive] [None; Some 9%positive])) =
    Some [XNow 1000; XMarshal true; XBus true; queue_ev 1000 0;
          XNow 2000; XMarshal true; XBus false; XLogLine MSG 7;
          XNow 3000; XMarshal true; XBus true; queue_ev 3000 9; XLogLine MSG 9].
Proof. exact ex_when. Qed.

From TR Require Import proofs.Bridges.

(* ---- the wiring this property depends on, as cmd/thermal-recorder/main.go builds it now (proofs/TieConn.v, restated
   in proofs/Bridges.v): ONE processor and - when activated - ONE throttle per connection, built before the frame loop;
   the loop itself only resets and feeds that processor (a camera 'clear' does not rebuild anything, so the bucket and
   the throttle's recording state live exactly as long as the connection) *)
Theorem C06_source_handleConn : BConn.handleConn_source_tie_stmt.
Proof. exact BConn.handleConn_source_tie. Qed.
Theorem C06_source_wiring : BConn.wiring_stmt.
Proof. exact BConn.wiring. Qed.
